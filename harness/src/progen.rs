//! G-prog: type-directed generator of whole goml programs that print what they compute.
//! Every random choice comes from the one `Rng` passed in.
use crate::rng::Rng;
use std::collections::BTreeMap;
use std::fmt::Write as _;

#[derive(Clone, Debug, PartialEq)]
pub enum T {
    I32,
    I8,
    U8,
    I64,
    U32,
    Bool,
    Str,
    Unit,
    Tuple(Vec<T>),
    Struct(usize),
    Enum(usize),
    Opt(Box<T>),
    Arr(Box<T>, usize),
    Vec(Box<T>),
    Ref(Box<T>),
    Fn(Vec<T>, Box<T>),
}

#[derive(Clone, Copy, Debug, Default)]
pub struct Cfg {
    /// closures passed as arguments / stored in data (known Go-validity findings): separate stream
    pub closure_flows: bool,
    pub traits: bool,
    pub generics: bool,
    pub go_stmt: bool,
    pub max_depth: usize,
    pub effects: bool,
    /// let `array_set` results flow un-annotated (wildcard array length, known finding)
    pub wildcard_arrays: bool,
    /// surface forms whose meaning the front end decides: struct patterns with their fields in
    /// declaration / reversed / shuffled order (with `_`, shorthand, literal sub-patterns), nested
    /// struct-in-enum-in-tuple patterns, struct literals with fields out of order, string and
    /// integer literal patterns, locals spelled like functions, the three call forms of a method
    pub src_forms: bool,
    /// struct literals written out of declaration order whose initialisers have effects
    /// (evaluation order of the initialisers; known finding): separate stream
    pub lit_field_effects: bool,
    /// C06: matches with nested patterns (tuples, structs, enums, literals) over random data types
    pub nested_patterns: bool,
}

struct StructD {
    fields: Vec<T>,
}
struct EnumD {
    variants: Vec<Vec<T>>,
}
struct FnD {
    name: String,
    params: Vec<T>,
    ret: T,
}

pub struct Gen<'a> {
    rng: &'a mut Rng,
    cfg: Cfg,
    structs: Vec<StructD>,
    enums: Vec<EnumD>,
    fns: Vec<FnD>,
    show_impls: Vec<T>,
    uid: usize,
    pub feats: BTreeMap<&'static str, usize>,
}

type Scope = Vec<(String, T)>;

impl<'a> Gen<'a> {
    pub fn new(rng: &'a mut Rng, cfg: Cfg) -> Self {
        Gen { rng, cfg, structs: vec![], enums: vec![], fns: vec![], show_impls: vec![], uid: 0, feats: BTreeMap::new() }
    }
    fn feat(&mut self, f: &'static str) {
        *self.feats.entry(f).or_default() += 1;
    }
    fn fresh(&mut self, p: &str) -> String {
        self.uid += 1;
        format!("{}{}", p, self.uid)
    }
    pub fn ty_text(&self, t: &T) -> String {
        match t {
            T::I32 => "int32".into(),
            T::I8 => "int8".into(),
            T::U8 => "uint8".into(),
            T::I64 => "int64".into(),
            T::U32 => "uint32".into(),
            T::Bool => "bool".into(),
            T::Str => "string".into(),
            T::Unit => "unit".into(),
            T::Tuple(ts) => format!("({})", ts.iter().map(|t| self.ty_text(t)).collect::<Vec<_>>().join(", ")),
            T::Struct(i) => format!("S{}", i),
            T::Enum(i) => format!("E{}", i),
            T::Opt(t) => format!("Opt[{}]", self.ty_text(t)),
            T::Arr(t, n) => format!("[{}; {}]", self.ty_text(t), n),
            T::Vec(t) => format!("Vec[{}]", self.ty_text(t)),
            T::Ref(t) => format!("Ref[{}]", self.ty_text(t)),
            T::Fn(ps, r) => format!("({}) -> {}", ps.iter().map(|t| self.ty_text(t)).collect::<Vec<_>>().join(", "), self.ty_text(r)),
        }
    }
    fn base_ty(&mut self) -> T {
        match self.rng.below(10) {
            0..=3 => T::I32,
            4 => T::Bool,
            5 => T::Str,
            6 => T::I8,
            7 => T::U8,
            8 => T::I64,
            _ => T::U32,
        }
    }
    fn data_ty(&mut self, depth: usize) -> T {
        if depth == 0 {
            return self.base_ty();
        }
        match self.rng.below(14) {
            0..=4 => self.base_ty(),
            5 => {
                let n = 2 + self.rng.below(2);
                T::Tuple((0..n).map(|_| self.data_ty(depth - 1)).collect())
            }
            6 if !self.structs.is_empty() => T::Struct(self.rng.below(self.structs.len())),
            7 if !self.enums.is_empty() => T::Enum(self.rng.below(self.enums.len())),
            8 if self.cfg.generics => T::Opt(Box::new(self.data_ty(depth - 1))),
            9 => T::Arr(Box::new(self.base_ty()), 2 + self.rng.below(2)),
            10 => T::Vec(Box::new(self.base_ty())),
            11 => T::Ref(Box::new(self.base_ty())),
            12 => T::Unit,
            _ => self.base_ty(),
        }
    }
    fn int_lit(&mut self, t: &T) -> String {
        let small = self.rng.chance(3, 4);
        let (v, suf): (String, &str) = match t {
            T::I32 => (
                if small { format!("{}", self.rng.below(10)) } else { format!("{}", [2147483647i64, 1000003, 46341, 65536][self.rng.below(4)]) },
                if self.rng.chance(1, 4) { "i32" } else { "" },
            ),
            T::I8 => (if small { format!("{}", self.rng.below(6)) } else { format!("{}", [127, 100, 64, 13][self.rng.below(4)]) }, "i8"),
            T::U8 => (if small { format!("{}", self.rng.below(6)) } else { format!("{}", [255, 200, 128, 16][self.rng.below(4)]) }, "u8"),
            T::I64 => (
                if small { format!("{}", self.rng.below(10)) } else { format!("{}", [9223372036854775807i64, 4294967296, 3037000500][self.rng.below(3)]) },
                "i64",
            ),
            T::U32 => (if small { format!("{}", self.rng.below(10)) } else { format!("{}", [4294967295u64, 65536, 3000000000][self.rng.below(3)]) }, "u32"),
            _ => ("0".into(), ""),
        };
        format!("{}{}", v, suf)
    }
    fn is_int(t: &T) -> bool {
        matches!(t, T::I32 | T::I8 | T::U8 | T::I64 | T::U32)
    }
    fn to_string_fn(t: &T) -> &'static str {
        match t {
            T::I32 => "int32_to_string",
            T::I8 => "int8_to_string",
            T::U8 => "uint8_to_string",
            T::I64 => "int64_to_string",
            T::U32 => "uint32_to_string",
            T::Bool => "bool_to_string",
            T::Unit => "unit_to_string",
            _ => "",
        }
    }
    fn vars_of<'s>(scope: &'s Scope, t: &T) -> Vec<&'s String> {
        scope.iter().filter(|(_, ty)| ty == t).map(|(n, _)| n).collect()
    }

    /// an expression of type `t`; may emit preparatory statements into `pre`
    fn expr(&mut self, t: &T, scope: &Scope, depth: usize, pre: &mut String) -> String {
        let vars = Self::vars_of(scope, t);
        if !vars.is_empty() && (depth == 0 || self.rng.chance(2, 5)) {
            return (*self.rng.pick(&vars)).clone();
        }
        if depth == 0 {
            return self.leaf(t, scope, pre);
        }
        let d = depth - 1;
        if self.cfg.src_forms && self.rng.chance(1, 4) {
            if let Some(e) = self.src_form(t, scope, d, pre) {
                return e;
            }
        }
        // forms available at every type
        match self.rng.below(12) {
            0 => {
                self.feat("if");
                let c = self.expr(&T::Bool, scope, d, pre);
                let a = self.block(t, scope, d);
                let b = self.block(t, scope, d);
                return format!("if {} {} else {}", c, a, b);
            }
            1 if !self.enums.is_empty() => {
                self.feat("match-enum");
                let ei = self.rng.below(self.enums.len());
                let s = self.expr(&T::Enum(ei), scope, d, pre);
                let nv = self.enums[ei].variants.len();
                let mut arms = String::new();
                let wildcard_from = if self.rng.chance(1, 4) { 1 + self.rng.below(nv) } else { nv };
                for vi in 0..nv.min(wildcard_from) {
                    let payload = self.enums[ei].variants[vi].clone();
                    let mut sc = scope.clone();
                    let mut pats = Vec::new();
                    for pt in &payload {
                        if self.rng.chance(1, 5) {
                            pats.push("_".to_string());
                        } else {
                            let v = self.fresh("p");
                            sc.push((v.clone(), pt.clone()));
                            pats.push(v);
                        }
                    }
                    let body = self.arm_body(t, &sc, d);
                    if payload.is_empty() {
                        write!(arms, "E{}::V{}_{} => {}, ", ei, ei, vi, body).unwrap();
                    } else {
                        write!(arms, "E{}::V{}_{}({}) => {}, ", ei, ei, vi, pats.join(", "), body).unwrap();
                    }
                }
                if wildcard_from < nv {
                    let body = self.arm_body(t, scope, d);
                    write!(arms, "_ => {}, ", body).unwrap();
                }
                return format!("match {} {{ {}}}", s, arms);
            }
            2 => {
                self.feat("match-int");
                let it = [T::I32, T::U8, T::I8][self.rng.below(3)].clone();
                let s = self.expr(&it, scope, d, pre);
                let a = self.arm_body(t, scope, d);
                let b = self.arm_body(t, scope, d);
                let v = self.fresh("n");
                let mut sc = scope.clone();
                sc.push((v.clone(), it.clone()));
                let c = self.arm_body(t, &sc, d);
                let suf = match it { T::U8 => "u8", T::I8 => "i8", _ => "" };
                return format!("match {} {{ 0{} => {}, 1{} => {}, {} => {}, }}", s, suf, a, suf, b, v, c);
            }
            3 => {
                self.feat("match-tuple-bool");
                let s1 = self.expr(&T::Bool, scope, d, pre);
                let s2 = self.expr(&T::Bool, scope, d, pre);
                let a = self.arm_body(t, scope, d);
                let b = self.arm_body(t, scope, d);
                let c = self.arm_body(t, scope, d);
                return format!("match ({}, {}) {{ (true, false) => {}, (false, _) => {}, _ => {}, }}", s1, s2, a, b, c);
            }
            4 if !self.fns.is_empty() => {
                let cands: Vec<usize> = self.fns.iter().enumerate().filter(|(_, f)| &f.ret == t).map(|(i, _)| i).collect();
                if !cands.is_empty() {
                    self.feat("call");
                    let fi = *self.rng.pick(&cands);
                    let ps = self.fns[fi].params.clone();
                    let name = self.fns[fi].name.clone();
                    let args: Vec<String> = ps.iter().map(|p| self.expr(p, scope, d, pre)).collect();
                    return format!("{}({})", name, args.join(", "));
                }
            }
            5 if self.cfg.generics => {
                self.feat("generic-call");
                let c = self.expr(&T::Bool, scope, d, pre);
                let a = self.expr(t, scope, d, pre);
                let b = self.expr(t, scope, d, pre);
                return format!("pick({}, {}, {})", c, a, b);
            }
            6 => {
                // closure bound and called
                self.feat("closure-call");
                let pt = self.base_ty();
                let p = self.fresh("a");
                let mut sc = scope.clone();
                sc.push((p.clone(), pt.clone()));
                let body = if self.rng.chance(1, 2) { self.block(t, &sc, d) } else { self.expr_nopre(t, &sc, d) };
                let f = self.fresh("fc");
                let arg = self.expr(&pt, scope, d, pre);
                write!(pre, "let {} = |{}: {}| {}; ", f, p, self.ty_text(&pt), body).unwrap();
                return format!("{}({})", f, arg);
            }
            7 => {
                // projection out of a tuple built in place
                self.feat("tuple-proj");
                let other = self.base_ty();
                let a = self.expr(t, scope, d, pre);
                let b = self.expr(&other, scope, d, pre);
                let v = self.fresh("tp");
                write!(pre, "let {} = ({}, {}); ", v, a, b).unwrap();
                return format!("{}.0", v);
            }
            8 => {
                self.feat("ref-roundtrip");
                let a = self.expr(t, scope, d, pre);
                let r = self.fresh("r");
                write!(pre, "let {} = ref({}); ", r, a).unwrap();
                if self.rng.chance(1, 2) {
                    let b = self.expr(t, scope, d, pre);
                    write!(pre, "let _ = ref_set({}, {}); ", r, b).unwrap();
                }
                return format!("ref_get({})", r);
            }
            9 => {
                self.feat("array-roundtrip");
                let a = self.expr(t, scope, d, pre);
                let b = self.expr(t, scope, d, pre);
                let arr = self.fresh("ar");
                write!(pre, "let {} = [{}, {}]; ", arr, a, b).unwrap();
                let i = self.rng.below(2);
                return format!("array_get({}, {})", arr, i);
            }
            10 if self.cfg.nested_patterns => {
                self.feat("match-nested");
                let st = self.data_ty(2);
                let s = self.expr(&st, scope, d, pre);
                let mut arms = String::new();
                for _ in 0..1 + self.rng.below(4) {
                    let mut sc = scope.clone();
                    let p = self.pattern(&st, 2, &mut sc);
                    let body = self.arm_body(t, &sc, d);
                    write!(arms, "{} => {}, ", p, body).unwrap();
                }
                let body = self.arm_body(t, scope, d);
                write!(arms, "_ => {}, ", body).unwrap();
                return format!("match {} {{ {}}}", s, arms);
            }
            _ => {}
        }
        self.typed_expr(t, scope, d, pre)
    }

    fn shuffle(&mut self, xs: &mut Vec<usize>) {
        for i in (1..xs.len()).rev() {
            let j = self.rng.below(i + 1);
            xs.swap(i, j);
        }
    }

    /// a literal pattern of type `t` (integers carry their suffix half of the time where one exists)
    fn lit_pat(&mut self, t: &T) -> Option<String> {
        let n = self.rng.below(4);
        Some(match t {
            T::I32 => if self.rng.chance(1, 3) { format!("{}i32", n) } else { format!("{}", [0, 1, 2, 7, 1000003][self.rng.below(5)]) },
            T::I8 => format!("{}i8", [0, 1, 5, 127][n]),
            T::U8 => format!("{}u8", [0, 1, 16, 255][n]),
            T::I64 => format!("{}i64", [0i64, 3, 4294967296, 9223372036854775807][n]),
            T::U32 => format!("{}u32", [0u32, 2, 65536, 4294967295][n]),
            T::Bool => if n < 2 { "true".into() } else { "false".into() },
            T::Str => format!("\"{}\"", ["a", "bc", "", "goml"][n]),
            _ => return None,
        })
    }

    /// a pattern for struct `si` with its fields written in declaration, reversed or shuffled
    /// order; sub-patterns are variables (added to `sc`), `_`, shorthand `f0`, or — when
    /// `refutable` — literals
    fn struct_pat(&mut self, si: usize, sc: &mut Scope, refutable: bool) -> String {
        let fts = self.structs[si].fields.clone();
        let mut order: Vec<usize> = (0..fts.len()).collect();
        match self.rng.below(3) {
            0 => self.feat("struct-pat-declared-order"),
            1 => {
                order.reverse();
                self.feat("struct-pat-reversed-order");
            }
            _ => {
                self.shuffle(&mut order);
                self.feat("struct-pat-shuffled-order");
            }
        }
        let mut parts = Vec::new();
        for k in order {
            let ft = fts[k].clone();
            match self.rng.below(6) {
                0 => parts.push(format!("f{}: _", k)),
                1 => {
                    self.feat("struct-pat-shorthand");
                    // the shorthand binder shadows an earlier binder of that name (of any type)
                    sc.retain(|(n, _)| *n != format!("f{}", k));
                    sc.push((format!("f{}", k), ft));
                    parts.push(format!("f{}", k));
                }
                2 | 3 if refutable => match self.lit_pat(&ft) {
                    Some(l) => {
                        self.feat("struct-pat-literal-field");
                        parts.push(format!("f{}: {}", k, l));
                    }
                    None => parts.push(format!("f{}: _", k)),
                },
                _ => {
                    let v = self.fresh("b");
                    sc.push((v.clone(), ft));
                    parts.push(format!("f{}: {}", k, v));
                }
            }
        }
        format!("S{} {{ {} }}", si, parts.join(", "))
    }

    /// surface forms whose meaning the front end decides (Cfg::src_forms)
    fn src_form(&mut self, t: &T, scope: &Scope, d: usize, pre: &mut String) -> Option<String> {
        match self.rng.below(7) {
            0 | 1 => {
                // match on a struct: refutable arms with literal fields, then an irrefutable one
                self.feat("match-struct");
                let si = self.rng.below(self.structs.len());
                // (a struct literal cannot stand in scrutinee position: bind it first)
                let s = self.fresh("ms");
                let e = self.expr(&T::Struct(si), scope, d, pre);
                write!(pre, "let {} = {}; ", s, e).unwrap();
                let mut arms = String::new();
                for _ in 0..self.rng.below(3) {
                    let mut sc = scope.clone();
                    let p = self.struct_pat(si, &mut sc, true);
                    let body = self.arm_body(t, &sc, d);
                    write!(arms, "{} => {}, ", p, body).unwrap();
                }
                let mut sc = scope.clone();
                let p = if self.rng.chance(1, 3) { "_".to_string() } else { self.struct_pat(si, &mut sc, false) };
                let body = self.arm_body(t, &sc, d);
                write!(arms, "{} => {}, ", p, body).unwrap();
                Some(format!("match {} {{ {}}}", s, arms))
            }
            2 => {
                // struct inside an enum inside a tuple
                self.feat("match-nested-struct-enum-tuple");
                let k = self.expr(&T::I32, scope, d, pre);
                let scrut_enum = match self.rng.below(4) {
                    0 => "EN::NB".to_string(),
                    1 => format!("EN::NC({})", self.expr(&T::I32, scope, d, pre)),
                    _ => {
                        let sv = self.expr(&T::Struct(0), scope, d, pre);
                        let n = self.expr(&T::I32, scope, d, pre);
                        format!("EN::NA({}, {})", sv, n)
                    }
                };
                let mut arms = String::new();
                {
                    let mut sc = scope.clone();
                    let p = self.struct_pat(0, &mut sc, true);
                    let lit = self.lit_pat(&T::I32).unwrap();
                    let body = self.arm_body(t, &sc, d);
                    write!(arms, "(EN::NA({}, _), {}) => {}, ", p, lit, body).unwrap();
                }
                {
                    let mut sc = scope.clone();
                    let p = self.struct_pat(0, &mut sc, false);
                    let v = self.fresh("n");
                    sc.push((v.clone(), T::I32));
                    let body = self.arm_body(t, &sc, d);
                    write!(arms, "(EN::NA({}, {}), _) => {}, ", p, v, body).unwrap();
                }
                {
                    let v = self.fresh("n");
                    let mut sc = scope.clone();
                    sc.push((v.clone(), T::I32));
                    let body = self.arm_body(t, &sc, d);
                    write!(arms, "(EN::NC(7), {}) => {}, ", v, body).unwrap();
                }
                let body = self.arm_body(t, scope, d);
                write!(arms, "_ => {}, ", body).unwrap();
                // (the parser takes no struct literal anywhere inside a scrutinee: bind it first)
                let sv = self.fresh("ms");
                write!(pre, "let {} = ({}, {}); ", sv, scrut_enum, k).unwrap();
                Some(format!("match {} {{ {}}}", sv, arms))
            }
            3 => {
                // string / wide-integer literal patterns
                let st = [T::Str, T::I64, T::U32, T::I32, T::Bool][self.rng.below(5)].clone();
                self.feat(if st == T::Str { "match-string-literal" } else { "match-literal" });
                let s = self.expr(&st, scope, d, pre);
                let mut arms = String::new();
                for _ in 0..1 + self.rng.below(3) {
                    let l = self.lit_pat(&st).unwrap();
                    let body = self.arm_body(t, scope, d);
                    write!(arms, "{} => {}, ", l, body).unwrap();
                }
                let v = self.fresh("n");
                let mut sc = scope.clone();
                sc.push((v.clone(), st.clone()));
                let body = self.arm_body(t, &sc, d);
                write!(arms, "{} => {}, ", v, body).unwrap();
                Some(format!("match {} {{ {}}}", s, arms))
            }
            4 if *t == T::I32 => {
                // a local (let / closure parameter / pattern variable) spelled like a function
                self.feat("local-shadows-function");
                let name = ["fun0", "fun1", "fun2", "main", "pick", "show_twice", "string_len"][self.rng.below(7)];
                let a = self.int_lit(&T::I32);
                let b = self.int_lit(&T::I32);
                Some(match self.rng.below(3) {
                    0 => format!("if true {{ let {n} = {a}; ({n} + {b}) }} else {{ {b} }}", n = name, a = a, b = b),
                    1 => {
                        let c = self.fresh("fc");
                        write!(pre, "let {c} = |{n}: int32| ({n} * {b}); ", c = c, n = name, b = b).unwrap();
                        format!("{}({})", c, a)
                    }
                    _ => format!("match ({a}, {b}) {{ ({n}, _) => ({n} - 1), }}", a = a, b = b, n = name),
                })
            }
            5 if *t == T::I32 && self.cfg.traits => {
                // the three call forms of a method on one receiver; the inherent and the trait method
                // share their name and differ in what they compute
                self.feat("method-three-forms");
                let rv = self.fresh("rv");
                let e = self.expr(&T::Struct(0), scope, d, pre);
                write!(pre, "let {}: S0 = {}; ", rv, e).unwrap();
                let k = self.int_lit(&T::I32);
                Some(format!("((({rv}.tag({k}) * 3) + (S0::tag({rv}, {k}) * 5)) + (Tagged::tag({rv}, {k}) + Tagged::other({rv})))", rv = rv, k = k))
            }
            6 if *t == T::I32 && self.cfg.traits && self.cfg.generics => {
                self.feat("method-via-bound");
                let e = self.expr(&T::Enum(0), scope, d, pre);
                Some(format!("tag_via_bound({})", e))
            }
            _ => None,
        }
    }

    /// a pattern of type `t` with constructor nesting ≤ `depth`; its variables are added to `sc`
    fn pattern(&mut self, t: &T, depth: usize, sc: &mut Scope) -> String {
        let k = self.rng.below(8);
        if k == 0 {
            return "_".into();
        }
        if k == 1 || depth == 0 && !(Self::is_int(t) || matches!(t, T::Bool | T::Str | T::Unit)) {
            let v = self.fresh("pv");
            sc.push((v.clone(), t.clone()));
            return v;
        }
        let d = depth.saturating_sub(1);
        match t {
            t if Self::is_int(t) => {
                self.feat("pat-int");
                self.int_lit(t)
            }
            T::Bool => if self.rng.chance(1, 2) { "true".into() } else { "false".into() },
            T::Str => {
                self.feat("pat-str");
                format!("\"{}\"", ["a", "bc", "", "goml"][self.rng.below(4)])
            }
            T::Unit => "()".into(),
            T::Tuple(ts) => {
                self.feat("pat-tuple");
                let ps: Vec<String> = ts.iter().map(|t| self.pattern(t, d, sc)).collect();
                format!("({})", ps.join(", "))
            }
            T::Struct(i) => {
                self.feat("pat-struct");
                let fts = self.structs[*i].fields.clone();
                let ps: Vec<String> = fts.iter().enumerate().map(|(k, ft)| format!("f{}: {}", k, self.pattern(ft, d, sc))).collect();
                format!("S{} {{ {} }}", i, ps.join(", "))
            }
            T::Enum(i) => {
                self.feat("pat-enum");
                let vi = self.rng.below(self.enums[*i].variants.len());
                let payload = self.enums[*i].variants[vi].clone();
                if payload.is_empty() {
                    format!("E{}::V{}_{}", i, i, vi)
                } else {
                    let ps: Vec<String> = payload.iter().map(|p| self.pattern(p, d, sc)).collect();
                    format!("E{}::V{}_{}({})", i, i, vi, ps.join(", "))
                }
            }
            T::Opt(inner) => {
                self.feat("pat-generic-enum");
                if self.rng.chance(1, 3) { "Opt::Non".into() } else { format!("Opt::Som({})", self.pattern(inner, d, sc)) }
            }
            _ => {
                let v = self.fresh("pv");
                sc.push((v.clone(), t.clone()));
                v
            }
        }
    }

    fn expr_nopre(&mut self, t: &T, scope: &Scope, depth: usize) -> String {
        let mut pre = String::new();
        let e = self.expr(t, scope, depth, &mut pre);
        if pre.is_empty() { e } else { format!("{{ {}{} }}", pre, e) }
    }

    /// an expression that needs no preparatory statements (operand positions where hoisting
    /// statements in front would change what is evaluated, e.g. the right side of `&&`)
    fn pure_expr(&mut self, t: &T, scope: &Scope, depth: usize) -> String {
        let mut pre = String::new();
        let e = self.expr(t, scope, depth, &mut pre);
        if pre.is_empty() {
            return e;
        }
        let mut pre2 = String::new();
        let l = self.leaf(t, scope, &mut pre2);
        if pre2.is_empty() { l } else { "true".into() }
    }

    fn arm_body(&mut self, t: &T, scope: &Scope, depth: usize) -> String {
        if self.rng.chance(1, 2) { self.block(t, scope, depth) } else { self.expr_nopre(t, scope, depth) }
    }

    /// forms specific to the type
    fn typed_expr(&mut self, t: &T, scope: &Scope, d: usize, pre: &mut String) -> String {
        match t {
            t if Self::is_int(t) => {
                if self.rng.chance(1, 8) && *t == T::I32 {
                    self.feat("string_len");
                    let s = self.expr(&T::Str, scope, d, pre);
                    return format!("string_len({})", s);
                }
                if self.rng.chance(1, 8) && *t == T::I32 {
                    self.feat("vec_len");
                    let v = self.expr(&T::Vec(Box::new(T::I32)), scope, d, pre);
                    return format!("vec_len({})", v);
                }
                let a = self.expr(t, scope, d, pre);
                let b = self.expr(t, scope, d, pre);
                match self.rng.below(5) {
                    0 => {
                        self.feat("arith-add");
                        format!("({} + {})", a, b)
                    }
                    1 => {
                        self.feat("arith-sub");
                        format!("({} - {})", a, b)
                    }
                    2 => {
                        self.feat("arith-mul");
                        format!("({} * {})", a, b)
                    }
                    3 => {
                        // division by a value that cannot be zero
                        self.feat("arith-div");
                        let lit = self.int_lit(t);
                        let nz = if lit.starts_with('0') { format!("3{}", &lit[1..]) } else { lit };
                        format!("({} / {})", a, nz)
                    }
                    _ => {
                        if matches!(t, T::I32 | T::I8 | T::I64) {
                            self.feat("arith-neg");
                            format!("(-{})", a)
                        } else {
                            format!("({} + {})", a, b)
                        }
                    }
                }
            }
            T::Bool => match self.rng.below(6) {
                0 => {
                    self.feat("cmp");
                    let it = self.base_ty();
                    let it = if Self::is_int(&it) { it } else { T::I32 };
                    let a = self.expr(&it, scope, d, pre);
                    let b = self.expr(&it, scope, d, pre);
                    let op = ["<", ">", "<=", ">=", "==", "!="][self.rng.below(6)];
                    format!("({} {} {})", a, op, b)
                }
                1 => {
                    self.feat("logic-and");
                    let a = self.expr(&T::Bool, scope, d, pre);
                    let b = self.pure_expr(&T::Bool, scope, d);
                    format!("({} && {})", a, b)
                }
                2 => {
                    self.feat("logic-or");
                    let a = self.expr(&T::Bool, scope, d, pre);
                    let b = self.pure_expr(&T::Bool, scope, d);
                    format!("({} || {})", a, b)
                }
                3 => {
                    self.feat("logic-not");
                    let a = self.expr(&T::Bool, scope, d, pre);
                    format!("(!{})", a)
                }
                4 => {
                    self.feat("str-eq");
                    let a = self.expr(&T::Str, scope, d, pre);
                    let b = self.expr(&T::Str, scope, d, pre);
                    format!("({} == {})", a, b)
                }
                _ => self.leaf(t, scope, pre),
            },
            T::Str => match self.rng.below(5) {
                0 => {
                    self.feat("str-concat");
                    let a = self.expr(&T::Str, scope, d, pre);
                    let b = self.expr(&T::Str, scope, d, pre);
                    format!("({} + {})", a, b)
                }
                1 | 2 => {
                    self.feat("to_string");
                    let it = self.base_ty();
                    let it = if it == T::Str { T::I32 } else { it };
                    let a = self.expr(&it, scope, d, pre);
                    format!("{}({})", Self::to_string_fn(&it), a)
                }
                3 if self.cfg.traits && !self.show_impls.is_empty() => {
                    self.feat("trait-call");
                    let st = self.rng.pick(&self.show_impls.clone()).clone();
                    let a = self.expr(&st, scope, d, pre);
                    let tv = self.fresh("sv");
                    write!(pre, "let {}: {} = {}; ", tv, self.ty_text(&st), a).unwrap();
                    match self.rng.below(4) {
                        0 => format!("Show::show({})", tv),
                        1 => format!("show_twice({})", tv),
                        2 => {
                            self.feat("dyn-call");
                            let v = self.fresh("dy");
                            write!(pre, "let {}: dyn Show = {}; ", v, tv).unwrap();
                            format!("Show::show({})", v)
                        }
                        _ => format!("Show::show({})", tv),
                    }
                }
                _ => self.leaf(t, scope, pre),
            },
            T::Unit => {
                if self.cfg.effects && self.rng.chance(1, 2) {
                    self.feat("print");
                    let s = self.expr(&T::Str, scope, d, pre);
                    format!("string_println({})", s)
                } else {
                    "()".into()
                }
            }
            T::Tuple(ts) => {
                self.feat("tuple");
                let items: Vec<String> = ts.clone().iter().map(|t| self.expr(t, scope, d, pre)).collect();
                format!("({})", items.join(", "))
            }
            T::Struct(i) => {
                self.feat("struct-lit");
                let fts = self.structs[*i].fields.clone();
                let mut order: Vec<usize> = (0..fts.len()).collect();
                if self.cfg.src_forms && fts.len() > 1 && self.rng.chance(1, 2) {
                    self.feat("struct-lit-out-of-order");
                    if self.rng.chance(1, 2) { order.reverse() } else { self.shuffle(&mut order) }
                }
                let in_order = order.iter().enumerate().all(|(a, b)| a == *b);
                let mut fields = Vec::new();
                for k in order {
                    let mut e = self.expr(&fts[k], scope, d, pre);
                    if !in_order && !self.cfg.lit_field_effects {
                        // main stream: the initialisers are evaluated by `let`s in WRITTEN order and the
                        // literal only mentions variables (the order in which a literal's own
                        // initialisers run is the separate `lit_field_effects` stream)
                        let tv = self.fresh("li");
                        write!(pre, "let {} = {}; ", tv, e).unwrap();
                        e = tv;
                    } else if !in_order {
                        // every initialiser announces itself when it runs
                        self.feat("struct-lit-out-of-order-effectful");
                        e = format!("trace(\"f{}\", {})", k, e);
                    }
                    // shorthand `S { f0 }` when a variable of that name and type is in scope
                    // (`S { f0 }` with a single field is read as a block by the parser: needs two fields)
                    if self.cfg.src_forms && fts.len() > 1 && e == format!("f{}", k) {
                        self.feat("struct-lit-shorthand");
                        fields.push(format!("f{}", k));
                    } else {
                        fields.push(format!("f{}: {}", k, e));
                    }
                }
                format!("S{} {{ {} }}", i, fields.join(", "))
            }
            T::Enum(i) => {
                self.feat("enum-ctor");
                let vi = self.rng.below(self.enums[*i].variants.len());
                let payload = self.enums[*i].variants[vi].clone();
                if payload.is_empty() {
                    format!("E{}::V{}_{}", i, i, vi)
                } else {
                    let args: Vec<String> = payload.iter().map(|p| self.expr(p, scope, d, pre)).collect();
                    format!("E{}::V{}_{}({})", i, i, vi, args.join(", "))
                }
            }
            T::Opt(inner) => {
                self.feat("generic-enum");
                if self.rng.chance(1, 3) {
                    // annotate so that the type argument is determined
                    let v = self.fresh("o");
                    write!(pre, "let {}: {} = Opt::Non; ", v, self.ty_text(t)).unwrap();
                    v
                } else {
                    let a = self.expr(inner, scope, d, pre);
                    format!("Opt::Som({})", a)
                }
            }
            T::Arr(e, n) => {
                self.feat("array-lit");
                let items: Vec<String> = (0..*n).map(|_| self.expr(e, scope, d, pre)).collect();
                if self.rng.chance(1, 3) {
                    let v = self.expr(e, scope, d, pre);
                    let i = self.rng.below(*n);
                    self.feat("array_set");
                    if self.cfg.wildcard_arrays {
                        // the builtin's result type carries a wildcard length (known finding): own stream
                        format!("array_set([{}], {}, {})", items.join(", "), i, v)
                    } else {
                        let name = self.fresh("as");
                        write!(pre, "let {}: {} = array_set([{}], {}, {}); ", name, self.ty_text(t), items.join(", "), i, v).unwrap();
                        name
                    }
                } else {
                    format!("[{}]", items.join(", "))
                }
            }
            T::Vec(e) => {
                self.feat("vec");
                let v0 = self.fresh("v");
                write!(pre, "let {}: {} = vec_new(); ", v0, self.ty_text(t)).unwrap();
                let mut cur = v0;
                for _ in 0..self.rng.below(3) {
                    let x = self.expr(e, scope, d, pre);
                    let nx = self.fresh("v");
                    write!(pre, "let {} = vec_push({}, {}); ", nx, cur, x).unwrap();
                    cur = nx;
                }
                cur
            }
            T::Ref(e) => {
                self.feat("ref");
                let a = self.expr(e, scope, d, pre);
                format!("ref({})", a)
            }
            T::Fn(ps, r) => {
                self.feat("closure-value");
                let mut sc = scope.clone();
                let mut names = Vec::new();
                for p in ps {
                    let n = self.fresh("c");
                    sc.push((n.clone(), p.clone()));
                    names.push(format!("{}: {}", n, self.ty_text(p)));
                }
                let body = self.expr_nopre(r, &sc, d);
                format!("|{}| {}", names.join(", "), body)
            }
            _ => self.leaf(t, scope, pre),
        }
    }

    fn leaf(&mut self, t: &T, scope: &Scope, pre: &mut String) -> String {
        match t {
            t if Self::is_int(t) => self.int_lit(t),
            T::Bool => if self.rng.chance(1, 2) { "true".into() } else { "false".into() },
            T::Str => format!("\"{}\"", ["a", "bc", "", "x y", "goml"][self.rng.below(5)]),
            T::Unit => "()".into(),
            other => self.typed_expr(other, scope, 0, pre),
        }
    }

    /// `{ stmts; tail }` of type `t`
    fn block(&mut self, t: &T, scope: &Scope, depth: usize) -> String {
        let mut sc = scope.clone();
        let mut s = String::from("{ ");
        let n = self.rng.below(3);
        for _ in 0..n {
            self.stmt(&mut sc, depth, &mut s);
        }
        let mut pre = String::new();
        let tail = self.expr(t, &sc, depth, &mut pre);
        write!(s, "{}{} }}", pre, tail).unwrap();
        s
    }

    fn stmt(&mut self, sc: &mut Scope, depth: usize, s: &mut String) {
        match self.rng.below(10) {
            0 | 1 if self.cfg.effects => {
                self.feat("print-stmt");
                let mut pre = String::new();
                let e = self.expr(&T::Str, sc, depth.min(1), &mut pre);
                write!(s, "{}let _ = string_println({}); ", pre, e).unwrap();
            }
            2 => {
                // counted loop over a ref
                self.feat("while");
                let c = self.fresh("i");
                let lim = 1 + self.rng.below(3);
                let mut pre = String::new();
                let body_e = if self.cfg.effects { self.expr(&T::Str, sc, depth.min(1), &mut pre) } else { "\"\"".into() };
                write!(
                    s,
                    "let {c} = ref(0); while ref_get({c}) < {lim} {{ {pre}let _ = string_print({e}); let _ = ref_set({c}, ref_get({c}) + 1); }}; ",
                    c = c,
                    lim = lim,
                    pre = pre,
                    e = body_e
                )
                .unwrap();
                sc.push((c, T::Ref(Box::new(T::I32))));
            }
            3 if !sc.iter().any(|(_, t)| matches!(t, T::Tuple(_))) => {}
            3 => {
                // destructuring let of a tuple in scope
                let (name, ty) = sc.iter().find(|(_, t)| matches!(t, T::Tuple(_))).cloned().unwrap();
                if let T::Tuple(ts) = ty {
                    self.feat("let-destructure");
                    let mut pats = Vec::new();
                    for t in &ts {
                        let v = self.fresh("d");
                        sc.push((v.clone(), t.clone()));
                        pats.push(v);
                    }
                    write!(s, "let ({}) = {}; ", pats.join(", "), name).unwrap();
                }
            }
            7 if self.cfg.src_forms => {
                self.feat("let-struct-pattern");
                let si = self.rng.below(self.structs.len());
                let mut pre = String::new();
                let e = self.expr(&T::Struct(si), sc, depth.min(1), &mut pre);
                let p = self.struct_pat(si, sc, false);
                write!(s, "{}let {} = {}; ", pre, p, e).unwrap();
            }
            5 | 6 if self.cfg.traits => {
                // an effectful trait method called for effect in every call form and statement position
                self.feat("effect-method-call");
                let recv_ty = if self.rng.chance(1, 2) { T::I32 } else { T::Struct(0) };
                let mut pre = String::new();
                let v = self.expr(&recv_ty, sc, depth.min(1), &mut pre);
                let x = self.fresh("pk");
                write!(s, "{}let {}: {} = {}; ", pre, x, self.ty_text(&recv_ty), v).unwrap();
                let call = match self.rng.below(4) {
                    0 => format!("Poke::poke({})", x),
                    1 => format!("poke_via({})", x),
                    2 => {
                        let d = self.fresh("pd");
                        write!(s, "let {}: dyn Poke = {}; ", d, x).unwrap();
                        format!("Poke::poke({})", d)
                    }
                    _ => format!("Poke::poke({})", x),
                };
                match self.rng.below(5) {
                    0 => write!(s, "{}; ", call).unwrap(),
                    1 => write!(s, "let _ = {}; ", call).unwrap(),
                    2 => {
                        // tail of a loop body
                        let c = self.fresh("i");
                        write!(s, "let {c} = ref(0); while ref_get({c}) < 2 {{ let _ = ref_set({c}, ref_get({c}) + 1); {call} }}; ", c = c, call = call).unwrap();
                    }
                    3 => {
                        // tail of a branch that is the tail of a loop body
                        let c = self.fresh("i");
                        write!(s, "let {c} = ref(0); while ref_get({c}) < 2 {{ let _ = ref_set({c}, ref_get({c}) + 1); if ref_get({c}) > 1 {{ {call} }} else {{ () }} }}; ", c = c, call = call).unwrap();
                    }
                    _ => {
                        // tail of a match arm evaluated for effect
                        write!(s, "let _ = match ref_get(ref(1)) {{ 0 => (), _ => {call}, }}; ", call = call).unwrap();
                    }
                }
            }
            4 if self.cfg.go_stmt => {
                self.feat("go");
                let mut pre = String::new();
                let e = self.expr(&T::Str, sc, 0, &mut pre);
                write!(s, "{}go || {{ string_println({}) }}; ", pre, e).unwrap();
            }
            _ => {
                self.feat("let");
                let t = self.data_ty(1);
                let mut pre = String::new();
                let e = self.expr(&t, sc, depth, &mut pre);
                let v = self.fresh("x");
                write!(s, "{}let {} = {}; ", pre, v, e).unwrap();
                sc.push((v, t));
            }
        }
    }

    /// code that prints a value of type `t` held in variable `v`
    fn show(&mut self, t: &T, v: &str, out: &mut String) {
        match t {
            T::Str => write!(out, "let _ = string_println({}); ", v).unwrap(),
            t if !Self::to_string_fn(t).is_empty() => write!(out, "let _ = string_println({}({})); ", Self::to_string_fn(t), v).unwrap(),
            T::Tuple(ts) => {
                let names: Vec<String> = ts.iter().map(|_| self.fresh("s")).collect();
                write!(out, "let ({}) = {}; ", names.join(", "), v).unwrap();
                for (n, t) in names.iter().zip(ts.iter()) {
                    self.show(t, n, out);
                }
            }
            T::Struct(i) => {
                let fts = self.structs[*i].fields.clone();
                for (k, ft) in fts.iter().enumerate() {
                    let n = self.fresh("s");
                    write!(out, "let {} = {}.f{}; ", n, v, k).unwrap();
                    self.show(ft, &n, out);
                }
            }
            T::Enum(i) => {
                let vs = self.enums[*i].variants.clone();
                let mut arms = String::new();
                for (vi, payload) in vs.iter().enumerate() {
                    let names: Vec<String> = payload.iter().map(|_| self.fresh("s")).collect();
                    let mut body = format!("let _ = string_println(\"V{}_{}\"); ", i, vi);
                    for (n, t) in names.iter().zip(payload.iter()) {
                        self.show(t, n, &mut body);
                    }
                    if payload.is_empty() {
                        write!(arms, "E{}::V{}_{} => {{ {}() }}, ", i, i, vi, body).unwrap();
                    } else {
                        write!(arms, "E{}::V{}_{}({}) => {{ {}() }}, ", i, i, vi, names.join(", "), body).unwrap();
                    }
                }
                write!(out, "let _ = match {} {{ {}}}; ", v, arms).unwrap();
            }
            T::Opt(inner) => {
                let n = self.fresh("s");
                let mut body = String::from("let _ = string_println(\"Som\"); ");
                self.show(inner, &n, &mut body);
                write!(out, "let _ = match {} {{ Opt::Som({}) => {{ {}() }}, Opt::Non => {{ string_println(\"Non\") }}, }}; ", v, n, body).unwrap();
            }
            T::Arr(e, n) => {
                for i in 0..*n {
                    let nm = self.fresh("s");
                    write!(out, "let {} = array_get({}, {}); ", nm, v, i).unwrap();
                    self.show(e, &nm, out);
                }
            }
            T::Vec(e) => {
                write!(out, "let _ = string_println(int32_to_string(vec_len({}))); ", v).unwrap();
                let nm = self.fresh("s");
                let mut body = String::new();
                self.show(e, &nm, &mut body);
                write!(out, "let _ = if vec_len({v}) > 0 {{ let {nm} = vec_get({v}, 0); {body}() }} else {{ () }}; ", v = v, nm = nm, body = body).unwrap();
            }
            T::Ref(e) => {
                let nm = self.fresh("s");
                write!(out, "let {} = ref_get({}); ", nm, v).unwrap();
                self.show(e, &nm, out);
            }
            _ => {}
        }
    }

    pub fn program(&mut self) -> String {
        let mut src = String::new();
        // declarations
        let ns = 1 + self.rng.below(2);
        for i in 0..ns {
            let nf = 1 + self.rng.below(3);
            let fields: Vec<T> = (0..nf).map(|_| self.data_ty(0)).collect();
            let txt: Vec<String> = fields.iter().enumerate().map(|(k, t)| format!("f{}: {}", k, self.ty_text(t))).collect();
            writeln!(src, "struct S{} {{ {} }}", i, txt.join(", ")).unwrap();
            self.structs.push(StructD { fields });
        }
        let ne = 1 + self.rng.below(2);
        for i in 0..ne {
            let nv = 2 + self.rng.below(2);
            let mut variants = Vec::new();
            let mut txt = Vec::new();
            for vi in 0..nv {
                let np = self.rng.below(3);
                let payload: Vec<T> = (0..np).map(|_| if self.rng.chance(1, 4) && i > 0 { T::Enum(i - 1) } else { self.data_ty(0) }).collect();
                if payload.is_empty() {
                    txt.push(format!("V{}_{}", i, vi));
                } else {
                    txt.push(format!("V{}_{}({})", i, vi, payload.iter().map(|t| self.ty_text(t)).collect::<Vec<_>>().join(", ")));
                }
                variants.push(payload);
            }
            writeln!(src, "enum E{} {{ {} }}", i, txt.join(", ")).unwrap();
            self.enums.push(EnumD { variants });
        }
        if self.cfg.src_forms {
            writeln!(src, "enum EN {{ NA(S0, int32), NB, NC(int32) }}").unwrap();
        }
        if self.cfg.src_forms && self.cfg.traits {
            writeln!(src, "impl S0 {{ fn tag(self: S0, k: int32) -> int32 {{ k + 1 }} }}").unwrap();
            writeln!(src, "trait Tagged {{ fn tag(Self, int32) -> int32; fn other(Self) -> int32; }}").unwrap();
            writeln!(src, "impl Tagged for S0 {{ fn tag(self: S0, k: int32) -> int32 {{ k + 100 }} fn other(self: S0) -> int32 {{ 7 }} }}").unwrap();
            writeln!(src, "impl Tagged for E0 {{ fn tag(self: E0, k: int32) -> int32 {{ k + 200 }} fn other(self: E0) -> int32 {{ 8 }} }}").unwrap();
            if self.cfg.generics {
                writeln!(src, "fn tag_via_bound[T: Tagged](x: T) -> int32 {{ x.tag(1) + Tagged::other(x) }}").unwrap();
            }
        }
        if self.cfg.lit_field_effects {
            writeln!(src, "fn trace[T](s: string, v: T) -> T {{ let _ = string_println(s); v }}").unwrap();
        }
        if self.cfg.generics {
            writeln!(src, "enum Opt[T] {{ Non, Som(T) }}").unwrap();
            writeln!(src, "fn pick[T](c: bool, a: T, b: T) -> T {{ if c {{ a }} else {{ b }} }}").unwrap();
        }
        if self.cfg.traits {
            writeln!(src, "trait Show {{ fn show(Self) -> string; }}").unwrap();
            writeln!(src, "impl Show for int32 {{ fn show(self: int32) -> string {{ \"i\" + int32_to_string(self) }} }}").unwrap();
            self.show_impls.push(T::I32);
            writeln!(src, "impl Show for bool {{ fn show(self: bool) -> string {{ if self {{ \"yes\" }} else {{ \"no\" }} }} }}").unwrap();
            self.show_impls.push(T::Bool);
            writeln!(src, "impl Show for S0 {{ fn show(self: S0) -> string {{ \"S0\" }} }}").unwrap();
            self.show_impls.push(T::Struct(0));
            writeln!(src, "impl Show for E0 {{ fn show(self: E0) -> string {{ match self {{ E0::V0_0{} => \"first\", _ => \"other\", }} }} }}",
                if self.enums[0].variants[0].is_empty() { "".to_string() } else { format!("({})", vec!["_"; self.enums[0].variants[0].len()].join(", ")) }).unwrap();
            self.show_impls.push(T::Enum(0));
            writeln!(src, "fn show_twice[T: Show](x: T) -> string {{ Show::show(x) + x.show() }}").unwrap();
            writeln!(src, "trait Poke {{ fn poke(Self) -> unit; }}").unwrap();
            writeln!(src, "impl Poke for int32 {{ fn poke(self: int32) -> unit {{ string_println(\"poke \" + int32_to_string(self)) }} }}").unwrap();
            writeln!(src, "impl Poke for S0 {{ fn poke(self: S0) -> unit {{ string_println(\"poke S0\") }} }}").unwrap();
            writeln!(src, "fn poke_via[T: Poke](x: T) -> unit {{ Poke::poke(x) }}").unwrap();
        }
        // functions; each may call the earlier ones only
        let nf = 2 + self.rng.below(3);
        for i in 0..nf {
            let np = self.rng.below(3);
            let params: Vec<T> = (0..np).map(|_| if self.cfg.closure_flows && self.rng.chance(1, 3) { T::Fn(vec![T::I32], Box::new(T::I32)) } else { self.data_ty(1) }).collect();
            let ret = self.data_ty(1);
            let mut scope: Scope = Vec::new();
            let mut ptxt = Vec::new();
            for (k, p) in params.iter().enumerate() {
                let n = format!("q{}_{}", i, k);
                ptxt.push(format!("{}: {}", n, self.ty_text(p)));
                scope.push((n, p.clone()));
            }
            let depth = self.cfg.max_depth;
            let body = self.block(&ret, &scope, depth);
            writeln!(src, "fn fun{}({}) -> {} {}", i, ptxt.join(", "), self.ty_text(&ret), body).unwrap();
            self.fns.push(FnD { name: format!("fun{}", i), params, ret });
        }
        // main: call every function and print what it returns
        let mut body = String::new();
        for i in 0..self.fns.len() {
            let ps = self.fns[i].params.clone();
            let ret = self.fns[i].ret.clone();
            let name = self.fns[i].name.clone();
            let mut pre = String::new();
            let args: Vec<String> = ps.iter().map(|p| self.expr(p, &Vec::new(), 1, &mut pre)).collect();
            let r = self.fresh("res");
            write!(body, "{}let {} = {}({}); ", pre, r, name, args.join(", ")).unwrap();
            self.show(&ret, &r, &mut body);
        }
        writeln!(src, "fn main() {{ {}() }}", body).unwrap();
        src
    }
}

pub fn gen_program(rng: &mut Rng, cfg: Cfg) -> (String, BTreeMap<&'static str, usize>) {
    let mut g = Gen::new(rng, cfg);
    let src = g.program();
    (src, g.feats)
}

// ------------------------------------------------------------------------------------------
// C08: closure-centred programs.  Every capture set (params, lets, pattern variables, outer
// closure params, Ref cells mutated before and after creation), nesting up to `nest`, and one
// flow of a function value per flag.  Flows whose emitted Go is known to be ill-typed (C02's
// findings) are only produced when their flag is set, so they cannot mask the main stream.

pub mod flow {
    // flows the pass rewrites (main stream)
    pub const ALIAS: u32 = 1 << 0; //            let g = f
    pub const TUPLE: u32 = 1 << 1; //            let (h, n) = (f, 3)
    pub const RETURN_EARLIER: u32 = 1 << 2; //   fn mk(..) -> (int32) -> int32 declared before its caller
    pub const STRUCT_OWN: u32 = 1 << 3; //       one struct type per stored closure
    pub const TOPFN: u32 = 1 << 4; //            top-level function used as a value
    pub const TUPLE_RETURN: u32 = 1 << 5; //     fn returning a tuple of closures (corpus 038)
    pub const MAIN_STREAM: u32 = ALIAS | TUPLE | RETURN_EARLIER | STRUCT_OWN | TOPFN | TUPLE_RETURN;
    // flows outside the rewriting (one per program, separate stream)
    pub const ARGUMENT: u32 = 1 << 8; //         apply(f, 1), apply(|x| .., 1)
    pub const BRANCH_IF: u32 = 1 << 9; //        let h = if c { f } else { g }
    pub const BRANCH_MATCH: u32 = 1 << 10;
    pub const ARRAY: u32 = 1 << 11; //           [f, g]
    pub const RETURN_LATER: u32 = 1 << 12; //    callee declared after the caller
    pub const STRUCT_SHARED: u32 = 1 << 13; //   two closures stored in the same struct type
    pub const CURRIED: u32 = 1 << 14; //         |a| |b| a + b
    pub const REFCELL: u32 = 1 << 15; //         ref(f)
    pub const CLOSURE_PARAM: u32 = 1 << 16; //   |h: (int32) -> int32, x: int32| h(x)
    pub const MIXED_TOP: u32 = 1 << 17; //       if c { topfn } else { closure }
    pub const RETURN_BRANCH: u32 = 1 << 18; //   fn returning if c { clo1 } else { clo2 }
    pub const GO_STMT: u32 = 1 << 19; //         go closure
    pub const OTHER: [(u32, &str); 12] = [
        (ARGUMENT, "argument"),
        (BRANCH_IF, "branch-if"),
        (BRANCH_MATCH, "branch-match"),
        (ARRAY, "array"),
        (RETURN_LATER, "return-later"),
        (STRUCT_SHARED, "struct-shared"),
        (CURRIED, "curried"),
        (REFCELL, "refcell"),
        (CLOSURE_PARAM, "closure-param"),
        (MIXED_TOP, "mixed-top"),
        (RETURN_BRANCH, "return-branch"),
        (GO_STMT, "go"),
    ];
}

#[derive(Clone, Copy, Debug)]
pub struct CloCfg {
    pub flows: u32,
    /// closure nesting depth (≤ 4)
    pub nest: usize,
    /// statements per block
    pub stmts: usize,
}

#[derive(Clone, PartialEq, Debug)]
enum CT {
    I,
    R,
    /// function value of n int32 parameters returning int32
    F(usize),
}

#[derive(Clone, Debug)]
struct CV {
    name: String,
    ty: CT,
}

pub struct CloGen<'a> {
    rng: &'a mut Rng,
    cfg: CloCfg,
    uid: usize,
    /// declarations placed before `main`
    before: String,
    /// declarations placed after `main`
    after: String,
    decls: String,
    pub feats: BTreeMap<&'static str, usize>,
}

impl<'a> CloGen<'a> {
    fn feat(&mut self, f: &'static str) {
        *self.feats.entry(f).or_default() += 1;
    }
    fn on(&self, f: u32) -> bool {
        self.cfg.flows & f != 0
    }
    fn fresh(&mut self, p: &str) -> String {
        self.uid += 1;
        format!("{}{}", p, self.uid)
    }
    fn fty(n: usize) -> String {
        format!("({}) -> int32", vec!["int32"; n].join(", "))
    }
    fn vars<'s>(sc: &'s [CV], t: &CT) -> Vec<&'s CV> {
        sc.iter().filter(|v| &v.ty == t).collect()
    }
    fn fvars(sc: &[CV]) -> Vec<&CV> {
        sc.iter().filter(|v| matches!(v.ty, CT::F(_))).collect()
    }

    fn int_expr(&mut self, sc: &[CV], d: usize) -> String {
        let ints = Self::vars(sc, &CT::I);
        let refs = Self::vars(sc, &CT::R);
        let fs = Self::fvars(sc);
        if d == 0 {
            return match self.rng.below(4) {
                0 if !ints.is_empty() => self.rng.pick(&ints).name.clone(),
                1 if !refs.is_empty() => format!("ref_get({})", self.rng.pick(&refs).name),
                2 if !ints.is_empty() => self.rng.pick(&ints).name.clone(),
                _ => format!("{}", self.rng.below(10)),
            };
        }
        match self.rng.below(9) {
            0 | 1 if !fs.is_empty() => {
                self.feat("call-through-variable");
                let f = (*self.rng.pick(&fs)).clone();
                let CT::F(n) = f.ty else { unreachable!() };
                let args: Vec<String> = (0..n).map(|_| self.int_expr(sc, d - 1)).collect();
                format!("{}({})", f.name, args.join(", "))
            }
            2 | 3 => {
                let a = self.int_expr(sc, d - 1);
                let b = self.int_expr(sc, d - 1);
                format!("({} {} {})", a, ["+", "*", "-"][self.rng.below(3)], b)
            }
            4 => {
                let a = self.int_expr(sc, d - 1);
                let b = self.int_expr(sc, d - 1);
                let t = self.int_expr(sc, d - 1);
                let e = self.int_expr(sc, d - 1);
                format!("(if {} < {} {{ {} }} else {{ {} }})", a, b, t, e)
            }
            _ => self.int_expr(sc, 0),
        }
    }

    /// `|p..| body`; the body may be a block with its own statements (nested closures, mutation)
    fn closure_lit(&mut self, sc: &[CV], n: usize, nest: usize) -> String {
        let mut inner: Vec<CV> = sc.to_vec();
        let mut ps = Vec::new();
        for _ in 0..n {
            let p = self.fresh("a");
            ps.push(format!("{}: int32", p));
            inner.push(CV { name: p, ty: CT::I });
        }
        self.feat(match n {
            0 => "closure-0-params",
            1 => "closure-1-param",
            _ => "closure-2-params",
        });
        let body = if nest > 0 && self.rng.chance(2, 3) {
            let mut s = String::from("{ ");
            let k = 1 + self.rng.below(self.cfg.stmts.max(1));
            self.stmts(&mut inner, nest - 1, k, &mut s, false);
            let e = self.int_expr(&inner, 2);
            write!(s, "{} }}", e).unwrap();
            s
        } else {
            self.int_expr(&inner, 2)
        };
        format!("|{}| {}", ps.join(", "), body)
    }

    fn print(&mut self, e: &str, out: &mut String) {
        write!(out, "let _ = string_println(int32_to_string({})); ", e).unwrap();
    }

    fn call_of(&mut self, f: &str, n: usize, sc: &[CV]) -> String {
        let args: Vec<String> = (0..n).map(|_| self.int_expr(sc, 1)).collect();
        format!("{}({})", f, args.join(", "))
    }

    /// a function value expression of arity 1 that is a variable in scope, else a fresh closure
    fn some_f1(&mut self, sc: &mut Vec<CV>, nest: usize, out: &mut String) -> String {
        let c = Self::vars(sc, &CT::F(1));
        if !c.is_empty() && self.rng.chance(1, 2) {
            return self.rng.pick(&c).name.clone();
        }
        let f = self.fresh("f");
        let lit = self.closure_lit(sc, 1, nest.min(1));
        write!(out, "let {} = {}; ", f, lit).unwrap();
        sc.push(CV { name: f.clone(), ty: CT::F(1) });
        f
    }

    fn stmts(&mut self, sc: &mut Vec<CV>, nest: usize, n: usize, out: &mut String, top: bool) {
        for _ in 0..n {
            self.stmt(sc, nest, out, top);
        }
    }

    fn stmt(&mut self, sc: &mut Vec<CV>, nest: usize, out: &mut String, top: bool) {
        let k = self.rng.below(16);
        match k {
            0 => {
                self.feat("let-int");
                let e = self.int_expr(sc, 2);
                let x = self.fresh("x");
                write!(out, "let {} = {}; ", x, e).unwrap();
                sc.push(CV { name: x, ty: CT::I });
            }
            1 => {
                let ints = Self::vars(sc, &CT::I);
                if !ints.is_empty() {
                    let v = self.rng.pick(&ints).name.clone();
                    // rebinding after a closure may have captured the old value
                    self.feat("shadow-after-capture");
                    let e = self.int_expr(sc, 1);
                    write!(out, "let {} = ({} + {}); ", v, v, e).unwrap();
                }
            }
            2 => {
                self.feat("let-ref");
                let e = self.int_expr(sc, 1);
                let r = self.fresh("r");
                write!(out, "let {} = ref({}); ", r, e).unwrap();
                sc.push(CV { name: r, ty: CT::R });
            }
            3 | 4 => {
                let refs = Self::vars(sc, &CT::R);
                if !refs.is_empty() {
                    self.feat("ref-mutation");
                    let r = self.rng.pick(&refs).name.clone();
                    let e = self.int_expr(sc, 2);
                    write!(out, "let _ = ref_set({}, {}); ", r, e).unwrap();
                }
            }
            5 | 6 | 7 if nest > 0 => {
                self.feat("let-closure");
                let n = [1, 1, 1, 0, 2][self.rng.below(5)];
                let lit = self.closure_lit(sc, n, nest - 1);
                let f = self.fresh("f");
                write!(out, "let {} = {}; ", f, lit).unwrap();
                sc.push(CV { name: f.clone(), ty: CT::F(n) });
                if self.rng.chance(2, 3) {
                    let c = self.call_of(&f, n, sc);
                    self.print(&c, out);
                }
            }
            8 => {
                let e = self.int_expr(sc, 3);
                self.print(&e, out);
            }
            9 => {
                // pattern variables as captures
                self.feat("pattern-vars");
                let a = self.int_expr(sc, 1);
                let b = self.int_expr(sc, 1);
                if self.rng.chance(1, 2) {
                    let p = self.fresh("p");
                    let q = self.fresh("q");
                    write!(out, "let ({}, {}) = ({}, {}); ", p, q, a, b).unwrap();
                    sc.push(CV { name: p, ty: CT::I });
                    sc.push(CV { name: q, ty: CT::I });
                } else {
                    let p = self.fresh("p");
                    let q = self.fresh("q");
                    let m = self.fresh("m");
                    let mut inner = sc.clone();
                    inner.push(CV { name: p.clone(), ty: CT::I });
                    inner.push(CV { name: q.clone(), ty: CT::I });
                    let mut body = String::from("{ ");
                    self.stmts(&mut inner, nest, 2, &mut body, false);
                    let e = self.int_expr(&inner, 2);
                    write!(body, "{} }}", e).unwrap();
                    let other = self.int_expr(sc, 1);
                    write!(out, "let {} = match Pair::Two({}, {}) {{ Pair::Two({}, {}) => {}, Pair::Zero => {} }}; ", m, a, b, p, q, body, other).unwrap();
                    sc.push(CV { name: m, ty: CT::I });
                }
            }
            10 => {
                let fs = Self::fvars(sc);
                if !fs.is_empty() {
                    // a closure called in a loop (the cell it shares with its creator changes between calls)
                    self.feat("loop-call");
                    let f = (*self.rng.pick(&fs)).clone();
                    let CT::F(n) = f.ty else { unreachable!() };
                    let i = self.fresh("i");
                    let c = self.call_of(&f.name, n, sc);
                    write!(out, "let {i} = ref(0); while ref_get({i}) < 2 {{ let _ = ref_set({i}, ref_get({i}) + 1); let _ = string_println(int32_to_string({c})); () }}; ", i = i, c = c).unwrap();
                    sc.push(CV { name: i, ty: CT::R });
                }
            }
            11 if self.on(flow::ALIAS) => {
                let fs = Self::fvars(sc);
                if !fs.is_empty() {
                    self.feat("flow:alias");
                    let f = (*self.rng.pick(&fs)).clone();
                    let g = self.fresh("g");
                    write!(out, "let {} = {}; ", g, f.name).unwrap();
                    sc.push(CV { name: g, ty: f.ty });
                }
            }
            12 if self.on(flow::TUPLE) => {
                let f = self.some_f1(sc, nest, out);
                let e = self.int_expr(sc, 1);
                match self.rng.below(3) {
                    0 if nest > 0 => {
                        // a tuple holding a closure is captured by another closure and taken apart inside it
                        self.feat("flow:tuple-captured-by-closure");
                        let (t, g, a) = (self.fresh("t"), self.fresh("f"), self.fresh("a"));
                        let (h, m) = (self.fresh("h"), self.fresh("n"));
                        write!(out, "let {t} = ({f}, {e}); let {g} = |{a}: int32| {{ let ({h}, {m}) = {t}; {h}({a}) + {m} }}; ", t = t, f = f, e = e, g = g, a = a, h = h, m = m).unwrap();
                        sc.push(CV { name: g.clone(), ty: CT::F(1) });
                        let c = self.call_of(&g, 1, sc);
                        self.print(&c, out);
                    }
                    1 if nest > 0 => {
                        // a closure shadows the closure it captures (same source name)
                        self.feat("closure-shadows-captured-closure");
                        let a = self.fresh("a");
                        let k = self.int_expr(sc, 1);
                        write!(out, "let {f} = |{a}: int32| {f}({a}) + {k}; ", f = f, a = a, k = k).unwrap();
                        let c = self.call_of(&f, 1, sc);
                        self.print(&c, out);
                    }
                    _ => {
                        self.feat("flow:tuple");
                        let (h, m) = (self.fresh("h"), self.fresh("n"));
                        write!(out, "let ({}, {}) = ({}, {}); ", h, m, f, e).unwrap();
                        sc.push(CV { name: h.clone(), ty: CT::F(1) });
                        sc.push(CV { name: m.clone(), ty: CT::I });
                        self.print(&format!("{}({})", h, m), out);
                    }
                }
            }
            13 if self.on(flow::STRUCT_OWN) && top => {
                self.feat("flow:struct-field");
                let f = self.some_f1(sc, nest, out);
                let s = self.fresh("Box");
                writeln!(self.decls, "struct {} {{ f: (int32) -> int32, k: int32 }}", s).unwrap();
                let (b, h) = (self.fresh("b"), self.fresh("h"));
                let e = self.int_expr(sc, 1);
                write!(out, "let {} = {} {{ f: {}, k: {} }}; let {} = {}.f; ", b, s, f, e, h, b).unwrap();
                sc.push(CV { name: h.clone(), ty: CT::F(1) });
                self.print(&format!("{}({}.k)", h, b), out);
                if nest > 0 && self.rng.chance(1, 2) {
                    // the struct holding the closure is captured by another closure
                    self.feat("flow:struct-captured-by-closure");
                    let (g, a, hh) = (self.fresh("f"), self.fresh("a"), self.fresh("h"));
                    write!(out, "let {g} = |{a}: int32| {{ let {hh} = {b}.f; {hh}({a} + {b}.k) }}; ", g = g, a = a, hh = hh, b = b).unwrap();
                    sc.push(CV { name: g.clone(), ty: CT::F(1) });
                    let c = self.call_of(&g, 1, sc);
                    self.print(&c, out);
                }
            }
            14 if self.on(flow::TOPFN) && top && self.rng.chance(1, 3) => {
                // closures created inside a trait method and an inherent method (context names with `#`)
                self.feat("closure-in-method");
                let tr = self.fresh("Scale");
                let st = self.fresh("Acc");
                let c = self.rng.below(5);
                writeln!(self.decls, "trait {tr} {{ fn scale(Self, int32) -> int32; }}\nimpl {tr} for int32 {{ fn scale(self: int32, k: int32) -> int32 {{ let pr = (|x: int32| x * k + self + {c}, k); let (f, n) = pr; f(self) + f(n) }} }}\nstruct {st} {{ v: int32 }}\nimpl {st} {{ fn bump(self: {st}, d: int32) -> int32 {{ let g = |y: int32| {{ let h = |z: int32| z + self.v + y; h(d) }}; g(d) }} }}", tr = tr, st = st, c = c).unwrap();
                let e = self.int_expr(sc, 1);
                let e2 = self.int_expr(sc, 1);
                self.print(&format!("{}::scale({}, {})", tr, e, e2), out);
                let e3 = self.int_expr(sc, 1);
                let a = self.fresh("acc");
                write!(out, "let {} = {} {{ v: {} }}; ", a, st, e3).unwrap();
                self.print(&format!("{}.bump({})", a, e), out);
            }
            14 if self.on(flow::TOPFN) => {
                self.feat("flow:top-level-fn-value");
                let t = self.fresh("top");
                let c = self.rng.below(5);
                writeln!(self.before, "fn {}(x: int32) -> int32 {{ x * 3 + {} }}", t, c).unwrap();
                let h = self.fresh("h");
                write!(out, "let {} = {}; ", h, t).unwrap();
                sc.push(CV { name: h, ty: CT::F(1) });
            }
            15 if top && self.on(flow::RETURN_EARLIER) => self.returned_flow(false, sc, nest, out),
            _ => {
                let e = self.int_expr(sc, 2);
                self.print(&e, out);
            }
        }
    }

    /// a function that returns a closure sharing a Ref cell with its caller; `later`: declared after `main`
    fn returned_flow(&mut self, later: bool, sc: &mut Vec<CV>, nest: usize, out: &mut String) {
        self.feat(if later { "flow:returned(callee-declared-later)" } else { "flow:returned" });
        let mk = self.fresh("mk");
        // the maker captures its own parameters and lets
        let mut inner = vec![CV { name: "k".into(), ty: CT::I }, CV { name: "cell".into(), ty: CT::R }];
        let mut body = String::new();
        self.stmts(&mut inner, nest.min(2), 2, &mut body, false);
        let lit = self.closure_lit(&inner, 1, nest.min(2).saturating_sub(1));
        let text = format!("fn {}(k: int32, cell: Ref[int32]) -> (int32) -> int32 {{ {}{} }}\n", mk, body, lit);
        if later { self.after.push_str(&text) } else { self.before.push_str(&text) }
        let refs = Self::vars(sc, &CT::R);
        let r = if refs.is_empty() {
            let r = self.fresh("r");
            write!(out, "let {} = ref(1); ", r).unwrap();
            sc.push(CV { name: r.clone(), ty: CT::R });
            r
        } else {
            self.rng.pick(&refs).name.clone()
        };
        let e = self.int_expr(sc, 1);
        let h = self.fresh("h");
        write!(out, "let {} = {}({}, {}); ", h, mk, e, r).unwrap();
        sc.push(CV { name: h.clone(), ty: CT::F(1) });
        let c = self.call_of(&h, 1, sc);
        self.print(&c, out);
        write!(out, "let _ = ref_set({}, ref_get({}) + 1); ", r, r).unwrap();
        let c = self.call_of(&h, 1, sc);
        self.print(&c, out);
    }

    /// one use of a flow outside the rewriting; each leaves a call whose result is printed
    fn other_flow(&mut self, f: u32, sc: &mut Vec<CV>, nest: usize, out: &mut String) {
        let e1 = self.int_expr(sc, 1);
        match f {
            flow::ARGUMENT => {
                let ap = self.fresh("apply");
                writeln!(self.before, "fn {}(f: (int32) -> int32, x: int32) -> int32 {{ f(f(x)) + 1 }}", ap).unwrap();
                if self.rng.chance(1, 2) {
                    let g = self.some_f1(sc, nest, out);
                    self.print(&format!("{}({}, {})", ap, g, e1), out);
                } else {
                    let lit = self.closure_lit(sc, 1, nest.min(1));
                    self.print(&format!("{}({}, {})", ap, lit, e1), out);
                }
            }
            flow::BRANCH_IF | flow::BRANCH_MATCH | flow::MIXED_TOP => {
                let a = self.some_f1(sc, nest, out);
                let b = if f == flow::MIXED_TOP {
                    let t = self.fresh("top");
                    writeln!(self.before, "fn {}(x: int32) -> int32 {{ x + 100 }}", t).unwrap();
                    t
                } else {
                    let g = self.fresh("f");
                    let lit = self.closure_lit(sc, 1, nest.min(1));
                    write!(out, "let {} = {}; ", g, lit).unwrap();
                    sc.push(CV { name: g.clone(), ty: CT::F(1) });
                    g
                };
                let h = self.fresh("h");
                let c = self.int_expr(sc, 1);
                if f == flow::BRANCH_MATCH {
                    write!(out, "let {} = match {} {{ 0 => {}, _ => {} }}; ", h, c, a, b).unwrap();
                } else {
                    write!(out, "let {} = if {} < 5 {{ {} }} else {{ {} }}; ", h, c, a, b).unwrap();
                }
                sc.push(CV { name: h.clone(), ty: CT::F(1) });
                self.print(&format!("{}({})", h, e1), out);
            }
            flow::ARRAY => {
                let a = self.some_f1(sc, nest, out);
                let g = self.fresh("f");
                let lit = self.closure_lit(sc, 1, nest.min(1));
                write!(out, "let {} = {}; ", g, lit).unwrap();
                let (arr, h) = (self.fresh("arr"), self.fresh("h"));
                write!(out, "let {} = [{}, {}]; let {} = array_get({}, {}); ", arr, a, g, h, arr, self.rng.below(2)).unwrap();
                sc.push(CV { name: h.clone(), ty: CT::F(1) });
                self.print(&format!("{}({})", h, e1), out);
            }
            flow::STRUCT_SHARED => {
                let s = self.fresh("Shared");
                writeln!(self.decls, "struct {} {{ f: (int32) -> int32 }}", s).unwrap();
                let a = self.some_f1(sc, nest, out);
                let g = self.fresh("f");
                let lit = self.closure_lit(sc, 1, nest.min(1));
                write!(out, "let {} = {}; ", g, lit).unwrap();
                let (b1, b2, h) = (self.fresh("b"), self.fresh("b"), self.fresh("h"));
                write!(out, "let {} = {} {{ f: {} }}; let {} = {} {{ f: {} }}; let {} = {}.f; ", b1, s, a, b2, s, g, h, b1).unwrap();
                let _ = b2;
                sc.push(CV { name: h.clone(), ty: CT::F(1) });
                self.print(&format!("{}({})", h, e1), out);
            }
            flow::CURRIED => {
                let add = self.fresh("add");
                let (a, b) = (self.fresh("a"), self.fresh("b"));
                let mut inner = sc.clone();
                inner.push(CV { name: a.clone(), ty: CT::I });
                inner.push(CV { name: b.clone(), ty: CT::I });
                let body = self.int_expr(&inner, 2);
                let h = self.fresh("h");
                write!(out, "let {} = |{}: int32| |{}: int32| {}; let {} = {}({}); ", add, a, b, body, h, add, e1).unwrap();
                sc.push(CV { name: h.clone(), ty: CT::F(1) });
                let c = self.call_of(&h, 1, sc);
                self.print(&c, out);
            }
            flow::REFCELL => {
                let a = self.some_f1(sc, nest, out);
                let (r, h) = (self.fresh("rc"), self.fresh("h"));
                write!(out, "let {} = ref({}); let {} = ref_get({}); ", r, a, h, r).unwrap();
                sc.push(CV { name: h.clone(), ty: CT::F(1) });
                self.print(&format!("{}({})", h, e1), out);
            }
            flow::CLOSURE_PARAM => {
                let a = self.some_f1(sc, nest, out);
                let ap = self.fresh("ap");
                let (h, x) = (self.fresh("h"), self.fresh("a"));
                write!(out, "let {} = |{}: (int32) -> int32, {}: int32| {}({}) + 1; ", ap, h, x, h, x).unwrap();
                self.print(&format!("{}({}, {})", ap, a, e1), out);
            }
            flow::RETURN_BRANCH => {
                let mk = self.fresh("choose");
                writeln!(self.before, "fn {}(c: bool, k: int32) -> (int32) -> int32 {{ if c {{ |x: int32| x + k }} else {{ |y: int32| y * k }} }}", mk).unwrap();
                let h = self.fresh("h");
                write!(out, "let {} = {}({} < 5, {}); ", h, mk, e1, self.rng.below(7)).unwrap();
                sc.push(CV { name: h.clone(), ty: CT::F(1) });
                let c = self.call_of(&h, 1, sc);
                self.print(&c, out);
            }
            flow::RETURN_LATER => self.returned_flow(true, sc, nest, out),
            flow::GO_STMT => {
                let refs = Self::vars(sc, &CT::R);
                let e = if refs.is_empty() { e1 } else { format!("ref_get({})", self.rng.pick(&refs).name) };
                write!(out, "go || {{ string_println(int32_to_string({})) }}; ", e).unwrap();
            }
            _ => {}
        }
    }

    pub fn program(&mut self) -> String {
        self.decls.push_str("enum Pair { Zero, Two(int32, int32) }\n");
        let mut body = String::new();
        let mut sc: Vec<CV> = Vec::new();
        // a shared cell and a plain value every closure may capture
        body.push_str("let base = 7; let cell0 = ref(1); ");
        sc.push(CV { name: "base".into(), ty: CT::I });
        sc.push(CV { name: "cell0".into(), ty: CT::R });
        let nest = self.cfg.nest;
        let n = 3 + self.rng.below(4);
        self.stmts(&mut sc, nest, n, &mut body, true);
        if self.on(flow::TUPLE_RETURN) && self.rng.chance(1, 2) {
            self.feat("flow:tuple-of-closures-returned");
            let mk = self.fresh("mkpair");
            writeln!(
                self.before,
                "fn {}(start: int32) -> (() -> int32, (int32) -> unit) {{ let c = ref(start); let next = || {{ let v = ref_get(c) + 1; let _ = ref_set(c, v); v }}; let put = |v: int32| {{ let _ = ref_set(c, v); () }}; (next, put) }}",
                mk
            )
            .unwrap();
            let (nx, pt) = (self.fresh("next"), self.fresh("put"));
            let e = self.int_expr(&sc, 1);
            write!(body, "let ({}, {}) = {}({}); ", nx, pt, mk, e).unwrap();
            self.print(&format!("{}()", nx), &mut body);
            write!(body, "let _ = {}(40); ", pt).unwrap();
            self.print(&format!("{}()", nx), &mut body);
            sc.push(CV { name: nx, ty: CT::F(0) });
        }
        for (f, name) in flow::OTHER {
            if self.on(f) {
                *self.feats.entry(match name {
                    "argument" => "flow:argument",
                    "branch-if" => "flow:branch-if",
                    "branch-match" => "flow:branch-match",
                    "array" => "flow:array",
                    "return-later" => "flow:return-later",
                    "struct-shared" => "flow:struct-shared",
                    "curried" => "flow:curried",
                    "refcell" => "flow:refcell",
                    "closure-param" => "flow:closure-param",
                    "mixed-top" => "flow:mixed-top",
                    "return-branch" => "flow:return-branch",
                    _ => "flow:go",
                })
                .or_default() += 1;
                self.other_flow(f, &mut sc, nest, &mut body);
            }
        }
        let k = 1 + self.rng.below(3);
        self.stmts(&mut sc, nest, k, &mut body, true);
        // every function value still in scope is called once more at the end
        let fs: Vec<CV> = Self::fvars(&sc).into_iter().cloned().collect();
        for f in fs {
            let CT::F(n) = f.ty else { continue };
            let c = self.call_of(&f.name, n, &sc);
            self.print(&c, &mut body);
        }
        format!("{}{}fn main() {{ {}() }}\n{}", self.decls, self.before, body, self.after)
    }
}

pub fn gen_closure_program(rng: &mut Rng, cfg: CloCfg) -> (String, BTreeMap<&'static str, usize>) {
    let mut g = CloGen { rng, cfg, uid: 0, before: String::new(), after: String::new(), decls: String::new(), feats: BTreeMap::new() };
    let src = g.program();
    (src, g.feats)
}
