//! G-prog: type-directed generator of whole goml programs that print what they compute.
//! Every random choice comes from the one `Rng` passed in.
use crate::rng::Rng;
use std::collections::BTreeMap;
use std::fmt::Write as _;

#[derive(Clone, Debug, PartialEq)]
pub enum T {
    I32,
    I8,
    U8,
    I64,
    U32,
    Bool,
    Str,
    Unit,
    Tuple(Vec<T>),
    Struct(usize),
    Enum(usize),
    Opt(Box<T>),
    Arr(Box<T>, usize),
    Vec(Box<T>),
    Ref(Box<T>),
    Fn(Vec<T>, Box<T>),
}

#[derive(Clone, Copy, Debug, Default)]
pub struct Cfg {
    /// closures passed as arguments / stored in data (known Go-validity findings): separate stream
    pub closure_flows: bool,
    pub traits: bool,
    pub generics: bool,
    pub go_stmt: bool,
    pub max_depth: usize,
    pub effects: bool,
    /// let `array_set` results flow un-annotated (wildcard array length, known finding)
    pub wildcard_arrays: bool,
    /// C06: matches with nested patterns (tuples, structs, enums, literals) over random data types
    pub nested_patterns: bool,
}

struct StructD {
    fields: Vec<T>,
}
struct EnumD {
    variants: Vec<Vec<T>>,
}
struct FnD {
    name: String,
    params: Vec<T>,
    ret: T,
}

pub struct Gen<'a> {
    rng: &'a mut Rng,
    cfg: Cfg,
    structs: Vec<StructD>,
    enums: Vec<EnumD>,
    fns: Vec<FnD>,
    show_impls: Vec<T>,
    uid: usize,
    pub feats: BTreeMap<&'static str, usize>,
}

type Scope = Vec<(String, T)>;

impl<'a> Gen<'a> {
    pub fn new(rng: &'a mut Rng, cfg: Cfg) -> Self {
        Gen { rng, cfg, structs: vec![], enums: vec![], fns: vec![], show_impls: vec![], uid: 0, feats: BTreeMap::new() }
    }
    fn feat(&mut self, f: &'static str) {
        *self.feats.entry(f).or_default() += 1;
    }
    fn fresh(&mut self, p: &str) -> String {
        self.uid += 1;
        format!("{}{}", p, self.uid)
    }
    pub fn ty_text(&self, t: &T) -> String {
        match t {
            T::I32 => "int32".into(),
            T::I8 => "int8".into(),
            T::U8 => "uint8".into(),
            T::I64 => "int64".into(),
            T::U32 => "uint32".into(),
            T::Bool => "bool".into(),
            T::Str => "string".into(),
            T::Unit => "unit".into(),
            T::Tuple(ts) => format!("({})", ts.iter().map(|t| self.ty_text(t)).collect::<Vec<_>>().join(", ")),
            T::Struct(i) => format!("S{}", i),
            T::Enum(i) => format!("E{}", i),
            T::Opt(t) => format!("Opt[{}]", self.ty_text(t)),
            T::Arr(t, n) => format!("[{}; {}]", self.ty_text(t), n),
            T::Vec(t) => format!("Vec[{}]", self.ty_text(t)),
            T::Ref(t) => format!("Ref[{}]", self.ty_text(t)),
            T::Fn(ps, r) => format!("({}) -> {}", ps.iter().map(|t| self.ty_text(t)).collect::<Vec<_>>().join(", "), self.ty_text(r)),
        }
    }
    fn base_ty(&mut self) -> T {
        match self.rng.below(10) {
            0..=3 => T::I32,
            4 => T::Bool,
            5 => T::Str,
            6 => T::I8,
            7 => T::U8,
            8 => T::I64,
            _ => T::U32,
        }
    }
    fn data_ty(&mut self, depth: usize) -> T {
        if depth == 0 {
            return self.base_ty();
        }
        match self.rng.below(14) {
            0..=4 => self.base_ty(),
            5 => {
                let n = 2 + self.rng.below(2);
                T::Tuple((0..n).map(|_| self.data_ty(depth - 1)).collect())
            }
            6 if !self.structs.is_empty() => T::Struct(self.rng.below(self.structs.len())),
            7 if !self.enums.is_empty() => T::Enum(self.rng.below(self.enums.len())),
            8 if self.cfg.generics => T::Opt(Box::new(self.data_ty(depth - 1))),
            9 => T::Arr(Box::new(self.base_ty()), 2 + self.rng.below(2)),
            10 => T::Vec(Box::new(self.base_ty())),
            11 => T::Ref(Box::new(self.base_ty())),
            12 => T::Unit,
            _ => self.base_ty(),
        }
    }
    fn int_lit(&mut self, t: &T) -> String {
        let small = self.rng.chance(3, 4);
        let (v, suf): (String, &str) = match t {
            T::I32 => (
                if small { format!("{}", self.rng.below(10)) } else { format!("{}", [2147483647i64, 1000003, 46341, 65536][self.rng.below(4)]) },
                if self.rng.chance(1, 4) { "i32" } else { "" },
            ),
            T::I8 => (if small { format!("{}", self.rng.below(6)) } else { format!("{}", [127, 100, 64, 13][self.rng.below(4)]) }, "i8"),
            T::U8 => (if small { format!("{}", self.rng.below(6)) } else { format!("{}", [255, 200, 128, 16][self.rng.below(4)]) }, "u8"),
            T::I64 => (
                if small { format!("{}", self.rng.below(10)) } else { format!("{}", [9223372036854775807i64, 4294967296, 3037000500][self.rng.below(3)]) },
                "i64",
            ),
            T::U32 => (if small { format!("{}", self.rng.below(10)) } else { format!("{}", [4294967295u64, 65536, 3000000000][self.rng.below(3)]) }, "u32"),
            _ => ("0".into(), ""),
        };
        format!("{}{}", v, suf)
    }
    fn is_int(t: &T) -> bool {
        matches!(t, T::I32 | T::I8 | T::U8 | T::I64 | T::U32)
    }
    fn to_string_fn(t: &T) -> &'static str {
        match t {
            T::I32 => "int32_to_string",
            T::I8 => "int8_to_string",
            T::U8 => "uint8_to_string",
            T::I64 => "int64_to_string",
            T::U32 => "uint32_to_string",
            T::Bool => "bool_to_string",
            T::Unit => "unit_to_string",
            _ => "",
        }
    }
    fn vars_of<'s>(scope: &'s Scope, t: &T) -> Vec<&'s String> {
        scope.iter().filter(|(_, ty)| ty == t).map(|(n, _)| n).collect()
    }

    /// an expression of type `t`; may emit preparatory statements into `pre`
    fn expr(&mut self, t: &T, scope: &Scope, depth: usize, pre: &mut String) -> String {
        let vars = Self::vars_of(scope, t);
        if !vars.is_empty() && (depth == 0 || self.rng.chance(2, 5)) {
            return (*self.rng.pick(&vars)).clone();
        }
        if depth == 0 {
            return self.leaf(t, scope, pre);
        }
        let d = depth - 1;
        // forms available at every type
        match self.rng.below(12) {
            0 => {
                self.feat("if");
                let c = self.expr(&T::Bool, scope, d, pre);
                let a = self.block(t, scope, d);
                let b = self.block(t, scope, d);
                return format!("if {} {} else {}", c, a, b);
            }
            1 if !self.enums.is_empty() => {
                self.feat("match-enum");
                let ei = self.rng.below(self.enums.len());
                let s = self.expr(&T::Enum(ei), scope, d, pre);
                let nv = self.enums[ei].variants.len();
                let mut arms = String::new();
                let wildcard_from = if self.rng.chance(1, 4) { 1 + self.rng.below(nv) } else { nv };
                for vi in 0..nv.min(wildcard_from) {
                    let payload = self.enums[ei].variants[vi].clone();
                    let mut sc = scope.clone();
                    let mut pats = Vec::new();
                    for pt in &payload {
                        if self.rng.chance(1, 5) {
                            pats.push("_".to_string());
                        } else {
                            let v = self.fresh("p");
                            sc.push((v.clone(), pt.clone()));
                            pats.push(v);
                        }
                    }
                    let body = self.arm_body(t, &sc, d);
                    if payload.is_empty() {
                        write!(arms, "E{}::V{}_{} => {}, ", ei, ei, vi, body).unwrap();
                    } else {
                        write!(arms, "E{}::V{}_{}({}) => {}, ", ei, ei, vi, pats.join(", "), body).unwrap();
                    }
                }
                if wildcard_from < nv {
                    let body = self.arm_body(t, scope, d);
                    write!(arms, "_ => {}, ", body).unwrap();
                }
                return format!("match {} {{ {}}}", s, arms);
            }
            2 => {
                self.feat("match-int");
                let it = [T::I32, T::U8, T::I8][self.rng.below(3)].clone();
                let s = self.expr(&it, scope, d, pre);
                let a = self.arm_body(t, scope, d);
                let b = self.arm_body(t, scope, d);
                let v = self.fresh("n");
                let mut sc = scope.clone();
                sc.push((v.clone(), it.clone()));
                let c = self.arm_body(t, &sc, d);
                let suf = match it { T::U8 => "u8", T::I8 => "i8", _ => "" };
                return format!("match {} {{ 0{} => {}, 1{} => {}, {} => {}, }}", s, suf, a, suf, b, v, c);
            }
            3 => {
                self.feat("match-tuple-bool");
                let s1 = self.expr(&T::Bool, scope, d, pre);
                let s2 = self.expr(&T::Bool, scope, d, pre);
                let a = self.arm_body(t, scope, d);
                let b = self.arm_body(t, scope, d);
                let c = self.arm_body(t, scope, d);
                return format!("match ({}, {}) {{ (true, false) => {}, (false, _) => {}, _ => {}, }}", s1, s2, a, b, c);
            }
            4 if !self.fns.is_empty() => {
                let cands: Vec<usize> = self.fns.iter().enumerate().filter(|(_, f)| &f.ret == t).map(|(i, _)| i).collect();
                if !cands.is_empty() {
                    self.feat("call");
                    let fi = *self.rng.pick(&cands);
                    let ps = self.fns[fi].params.clone();
                    let name = self.fns[fi].name.clone();
                    let args: Vec<String> = ps.iter().map(|p| self.expr(p, scope, d, pre)).collect();
                    return format!("{}({})", name, args.join(", "));
                }
            }
            5 if self.cfg.generics => {
                self.feat("generic-call");
                let c = self.expr(&T::Bool, scope, d, pre);
                let a = self.expr(t, scope, d, pre);
                let b = self.expr(t, scope, d, pre);
                return format!("pick({}, {}, {})", c, a, b);
            }
            6 => {
                // closure bound and called
                self.feat("closure-call");
                let pt = self.base_ty();
                let p = self.fresh("a");
                let mut sc = scope.clone();
                sc.push((p.clone(), pt.clone()));
                let body = if self.rng.chance(1, 2) { self.block(t, &sc, d) } else { self.expr_nopre(t, &sc, d) };
                let f = self.fresh("f");
                let arg = self.expr(&pt, scope, d, pre);
                write!(pre, "let {} = |{}: {}| {}; ", f, p, self.ty_text(&pt), body).unwrap();
                return format!("{}({})", f, arg);
            }
            7 => {
                // projection out of a tuple built in place
                self.feat("tuple-proj");
                let other = self.base_ty();
                let a = self.expr(t, scope, d, pre);
                let b = self.expr(&other, scope, d, pre);
                let v = self.fresh("tp");
                write!(pre, "let {} = ({}, {}); ", v, a, b).unwrap();
                return format!("{}.0", v);
            }
            8 => {
                self.feat("ref-roundtrip");
                let a = self.expr(t, scope, d, pre);
                let r = self.fresh("r");
                write!(pre, "let {} = ref({}); ", r, a).unwrap();
                if self.rng.chance(1, 2) {
                    let b = self.expr(t, scope, d, pre);
                    write!(pre, "let _ = ref_set({}, {}); ", r, b).unwrap();
                }
                return format!("ref_get({})", r);
            }
            9 => {
                self.feat("array-roundtrip");
                let a = self.expr(t, scope, d, pre);
                let b = self.expr(t, scope, d, pre);
                let arr = self.fresh("ar");
                write!(pre, "let {} = [{}, {}]; ", arr, a, b).unwrap();
                let i = self.rng.below(2);
                return format!("array_get({}, {})", arr, i);
            }
            10 if self.cfg.nested_patterns => {
                self.feat("match-nested");
                let st = self.data_ty(2);
                let s = self.expr(&st, scope, d, pre);
                let mut arms = String::new();
                for _ in 0..1 + self.rng.below(4) {
                    let mut sc = scope.clone();
                    let p = self.pattern(&st, 2, &mut sc);
                    let body = self.arm_body(t, &sc, d);
                    write!(arms, "{} => {}, ", p, body).unwrap();
                }
                let body = self.arm_body(t, scope, d);
                write!(arms, "_ => {}, ", body).unwrap();
                return format!("match {} {{ {}}}", s, arms);
            }
            _ => {}
        }
        self.typed_expr(t, scope, d, pre)
    }

    /// a pattern of type `t` with constructor nesting ≤ `depth`; its variables are added to `sc`
    fn pattern(&mut self, t: &T, depth: usize, sc: &mut Scope) -> String {
        let k = self.rng.below(8);
        if k == 0 {
            return "_".into();
        }
        if k == 1 || depth == 0 && !(Self::is_int(t) || matches!(t, T::Bool | T::Str | T::Unit)) {
            let v = self.fresh("pv");
            sc.push((v.clone(), t.clone()));
            return v;
        }
        let d = depth.saturating_sub(1);
        match t {
            t if Self::is_int(t) => {
                self.feat("pat-int");
                self.int_lit(t)
            }
            T::Bool => if self.rng.chance(1, 2) { "true".into() } else { "false".into() },
            T::Str => {
                self.feat("pat-str");
                format!("\"{}\"", ["a", "bc", "", "goml"][self.rng.below(4)])
            }
            T::Unit => "()".into(),
            T::Tuple(ts) => {
                self.feat("pat-tuple");
                let ps: Vec<String> = ts.iter().map(|t| self.pattern(t, d, sc)).collect();
                format!("({})", ps.join(", "))
            }
            T::Struct(i) => {
                self.feat("pat-struct");
                let fts = self.structs[*i].fields.clone();
                let ps: Vec<String> = fts.iter().enumerate().map(|(k, ft)| format!("f{}: {}", k, self.pattern(ft, d, sc))).collect();
                format!("S{} {{ {} }}", i, ps.join(", "))
            }
            T::Enum(i) => {
                self.feat("pat-enum");
                let vi = self.rng.below(self.enums[*i].variants.len());
                let payload = self.enums[*i].variants[vi].clone();
                if payload.is_empty() {
                    format!("E{}::V{}_{}", i, i, vi)
                } else {
                    let ps: Vec<String> = payload.iter().map(|p| self.pattern(p, d, sc)).collect();
                    format!("E{}::V{}_{}({})", i, i, vi, ps.join(", "))
                }
            }
            T::Opt(inner) => {
                self.feat("pat-generic-enum");
                if self.rng.chance(1, 3) { "Opt::Non".into() } else { format!("Opt::Som({})", self.pattern(inner, d, sc)) }
            }
            _ => {
                let v = self.fresh("pv");
                sc.push((v.clone(), t.clone()));
                v
            }
        }
    }

    fn expr_nopre(&mut self, t: &T, scope: &Scope, depth: usize) -> String {
        let mut pre = String::new();
        let e = self.expr(t, scope, depth, &mut pre);
        if pre.is_empty() { e } else { format!("{{ {}{} }}", pre, e) }
    }

    /// an expression that needs no preparatory statements (operand positions where hoisting
    /// statements in front would change what is evaluated, e.g. the right side of `&&`)
    fn pure_expr(&mut self, t: &T, scope: &Scope, depth: usize) -> String {
        let mut pre = String::new();
        let e = self.expr(t, scope, depth, &mut pre);
        if pre.is_empty() {
            return e;
        }
        let mut pre2 = String::new();
        let l = self.leaf(t, scope, &mut pre2);
        if pre2.is_empty() { l } else { "true".into() }
    }

    fn arm_body(&mut self, t: &T, scope: &Scope, depth: usize) -> String {
        if self.rng.chance(1, 2) { self.block(t, scope, depth) } else { self.expr_nopre(t, scope, depth) }
    }

    /// forms specific to the type
    fn typed_expr(&mut self, t: &T, scope: &Scope, d: usize, pre: &mut String) -> String {
        match t {
            t if Self::is_int(t) => {
                if self.rng.chance(1, 8) && *t == T::I32 {
                    self.feat("string_len");
                    let s = self.expr(&T::Str, scope, d, pre);
                    return format!("string_len({})", s);
                }
                if self.rng.chance(1, 8) && *t == T::I32 {
                    self.feat("vec_len");
                    let v = self.expr(&T::Vec(Box::new(T::I32)), scope, d, pre);
                    return format!("vec_len({})", v);
                }
                let a = self.expr(t, scope, d, pre);
                let b = self.expr(t, scope, d, pre);
                match self.rng.below(5) {
                    0 => {
                        self.feat("arith-add");
                        format!("({} + {})", a, b)
                    }
                    1 => {
                        self.feat("arith-sub");
                        format!("({} - {})", a, b)
                    }
                    2 => {
                        self.feat("arith-mul");
                        format!("({} * {})", a, b)
                    }
                    3 => {
                        // division by a value that cannot be zero
                        self.feat("arith-div");
                        let lit = self.int_lit(t);
                        let nz = if lit.starts_with('0') { format!("3{}", &lit[1..]) } else { lit };
                        format!("({} / {})", a, nz)
                    }
                    _ => {
                        if matches!(t, T::I32 | T::I8 | T::I64) {
                            self.feat("arith-neg");
                            format!("(-{})", a)
                        } else {
                            format!("({} + {})", a, b)
                        }
                    }
                }
            }
            T::Bool => match self.rng.below(6) {
                0 => {
                    self.feat("cmp");
                    let it = self.base_ty();
                    let it = if Self::is_int(&it) { it } else { T::I32 };
                    let a = self.expr(&it, scope, d, pre);
                    let b = self.expr(&it, scope, d, pre);
                    let op = ["<", ">", "<=", ">=", "==", "!="][self.rng.below(6)];
                    format!("({} {} {})", a, op, b)
                }
                1 => {
                    self.feat("logic-and");
                    let a = self.expr(&T::Bool, scope, d, pre);
                    let b = self.pure_expr(&T::Bool, scope, d);
                    format!("({} && {})", a, b)
                }
                2 => {
                    self.feat("logic-or");
                    let a = self.expr(&T::Bool, scope, d, pre);
                    let b = self.pure_expr(&T::Bool, scope, d);
                    format!("({} || {})", a, b)
                }
                3 => {
                    self.feat("logic-not");
                    let a = self.expr(&T::Bool, scope, d, pre);
                    format!("(!{})", a)
                }
                4 => {
                    self.feat("str-eq");
                    let a = self.expr(&T::Str, scope, d, pre);
                    let b = self.expr(&T::Str, scope, d, pre);
                    format!("({} == {})", a, b)
                }
                _ => self.leaf(t, scope, pre),
            },
            T::Str => match self.rng.below(5) {
                0 => {
                    self.feat("str-concat");
                    let a = self.expr(&T::Str, scope, d, pre);
                    let b = self.expr(&T::Str, scope, d, pre);
                    format!("({} + {})", a, b)
                }
                1 | 2 => {
                    self.feat("to_string");
                    let it = self.base_ty();
                    let it = if it == T::Str { T::I32 } else { it };
                    let a = self.expr(&it, scope, d, pre);
                    format!("{}({})", Self::to_string_fn(&it), a)
                }
                3 if self.cfg.traits && !self.show_impls.is_empty() => {
                    self.feat("trait-call");
                    let st = self.rng.pick(&self.show_impls.clone()).clone();
                    let a = self.expr(&st, scope, d, pre);
                    let tv = self.fresh("sv");
                    write!(pre, "let {}: {} = {}; ", tv, self.ty_text(&st), a).unwrap();
                    match self.rng.below(4) {
                        0 => format!("Show::show({})", tv),
                        1 => format!("show_twice({})", tv),
                        2 => {
                            self.feat("dyn-call");
                            let v = self.fresh("dy");
                            write!(pre, "let {}: dyn Show = {}; ", v, tv).unwrap();
                            format!("Show::show({})", v)
                        }
                        _ if matches!(st, T::Struct(_) | T::Enum(_)) => format!("{}.show()", tv),
                        _ => format!("Show::show({})", tv),
                    }
                }
                _ => self.leaf(t, scope, pre),
            },
            T::Unit => {
                if self.cfg.effects && self.rng.chance(1, 2) {
                    self.feat("print");
                    let s = self.expr(&T::Str, scope, d, pre);
                    format!("string_println({})", s)
                } else {
                    "()".into()
                }
            }
            T::Tuple(ts) => {
                self.feat("tuple");
                let items: Vec<String> = ts.clone().iter().map(|t| self.expr(t, scope, d, pre)).collect();
                format!("({})", items.join(", "))
            }
            T::Struct(i) => {
                self.feat("struct-lit");
                let fts = self.structs[*i].fields.clone();
                let fields: Vec<String> =
                    fts.iter().enumerate().map(|(k, ft)| format!("f{}: {}", k, self.expr(ft, scope, d, pre))).collect();
                format!("S{} {{ {} }}", i, fields.join(", "))
            }
            T::Enum(i) => {
                self.feat("enum-ctor");
                let vi = self.rng.below(self.enums[*i].variants.len());
                let payload = self.enums[*i].variants[vi].clone();
                if payload.is_empty() {
                    format!("E{}::V{}_{}", i, i, vi)
                } else {
                    let args: Vec<String> = payload.iter().map(|p| self.expr(p, scope, d, pre)).collect();
                    format!("E{}::V{}_{}({})", i, i, vi, args.join(", "))
                }
            }
            T::Opt(inner) => {
                self.feat("generic-enum");
                if self.rng.chance(1, 3) {
                    // annotate so that the type argument is determined
                    let v = self.fresh("o");
                    write!(pre, "let {}: {} = Opt::Non; ", v, self.ty_text(t)).unwrap();
                    v
                } else {
                    let a = self.expr(inner, scope, d, pre);
                    format!("Opt::Som({})", a)
                }
            }
            T::Arr(e, n) => {
                self.feat("array-lit");
                let items: Vec<String> = (0..*n).map(|_| self.expr(e, scope, d, pre)).collect();
                if self.rng.chance(1, 3) {
                    let v = self.expr(e, scope, d, pre);
                    let i = self.rng.below(*n);
                    self.feat("array_set");
                    if self.cfg.wildcard_arrays {
                        // the builtin's result type carries a wildcard length (known finding): own stream
                        format!("array_set([{}], {}, {})", items.join(", "), i, v)
                    } else {
                        let name = self.fresh("as");
                        write!(pre, "let {}: {} = array_set([{}], {}, {}); ", name, self.ty_text(t), items.join(", "), i, v).unwrap();
                        name
                    }
                } else {
                    format!("[{}]", items.join(", "))
                }
            }
            T::Vec(e) => {
                self.feat("vec");
                let v0 = self.fresh("v");
                write!(pre, "let {}: {} = vec_new(); ", v0, self.ty_text(t)).unwrap();
                let mut cur = v0;
                for _ in 0..self.rng.below(3) {
                    let x = self.expr(e, scope, d, pre);
                    let nx = self.fresh("v");
                    write!(pre, "let {} = vec_push({}, {}); ", nx, cur, x).unwrap();
                    cur = nx;
                }
                cur
            }
            T::Ref(e) => {
                self.feat("ref");
                let a = self.expr(e, scope, d, pre);
                format!("ref({})", a)
            }
            T::Fn(ps, r) => {
                self.feat("closure-value");
                let mut sc = scope.clone();
                let mut names = Vec::new();
                for p in ps {
                    let n = self.fresh("c");
                    sc.push((n.clone(), p.clone()));
                    names.push(format!("{}: {}", n, self.ty_text(p)));
                }
                let body = self.expr_nopre(r, &sc, d);
                format!("|{}| {}", names.join(", "), body)
            }
            _ => self.leaf(t, scope, pre),
        }
    }

    fn leaf(&mut self, t: &T, scope: &Scope, pre: &mut String) -> String {
        match t {
            t if Self::is_int(t) => self.int_lit(t),
            T::Bool => if self.rng.chance(1, 2) { "true".into() } else { "false".into() },
            T::Str => format!("\"{}\"", ["a", "bc", "", "x y", "goml"][self.rng.below(5)]),
            T::Unit => "()".into(),
            other => self.typed_expr(other, scope, 0, pre),
        }
    }

    /// `{ stmts; tail }` of type `t`
    fn block(&mut self, t: &T, scope: &Scope, depth: usize) -> String {
        let mut sc = scope.clone();
        let mut s = String::from("{ ");
        let n = self.rng.below(3);
        for _ in 0..n {
            self.stmt(&mut sc, depth, &mut s);
        }
        let mut pre = String::new();
        let tail = self.expr(t, &sc, depth, &mut pre);
        write!(s, "{}{} }}", pre, tail).unwrap();
        s
    }

    fn stmt(&mut self, sc: &mut Scope, depth: usize, s: &mut String) {
        match self.rng.below(10) {
            0 | 1 if self.cfg.effects => {
                self.feat("print-stmt");
                let mut pre = String::new();
                let e = self.expr(&T::Str, sc, depth.min(1), &mut pre);
                write!(s, "{}let _ = string_println({}); ", pre, e).unwrap();
            }
            2 => {
                // counted loop over a ref
                self.feat("while");
                let c = self.fresh("i");
                let lim = 1 + self.rng.below(3);
                let mut pre = String::new();
                let body_e = if self.cfg.effects { self.expr(&T::Str, sc, depth.min(1), &mut pre) } else { "\"\"".into() };
                write!(
                    s,
                    "let {c} = ref(0); while ref_get({c}) < {lim} {{ {pre}let _ = string_print({e}); let _ = ref_set({c}, ref_get({c}) + 1); }}; ",
                    c = c,
                    lim = lim,
                    pre = pre,
                    e = body_e
                )
                .unwrap();
                sc.push((c, T::Ref(Box::new(T::I32))));
            }
            3 if !sc.iter().any(|(_, t)| matches!(t, T::Tuple(_))) => {}
            3 => {
                // destructuring let of a tuple in scope
                let (name, ty) = sc.iter().find(|(_, t)| matches!(t, T::Tuple(_))).cloned().unwrap();
                if let T::Tuple(ts) = ty {
                    self.feat("let-destructure");
                    let mut pats = Vec::new();
                    for t in &ts {
                        let v = self.fresh("d");
                        sc.push((v.clone(), t.clone()));
                        pats.push(v);
                    }
                    write!(s, "let ({}) = {}; ", pats.join(", "), name).unwrap();
                }
            }
            5 | 6 if self.cfg.traits => {
                // an effectful trait method called for effect in every call form and statement position
                self.feat("effect-method-call");
                let recv_ty = if self.rng.chance(1, 2) { T::I32 } else { T::Struct(0) };
                let mut pre = String::new();
                let v = self.expr(&recv_ty, sc, depth.min(1), &mut pre);
                let x = self.fresh("pk");
                write!(s, "{}let {}: {} = {}; ", pre, x, self.ty_text(&recv_ty), v).unwrap();
                let call = match self.rng.below(4) {
                    0 => format!("Poke::poke({})", x),
                    1 => format!("poke_via({})", x),
                    2 => {
                        let d = self.fresh("pd");
                        write!(s, "let {}: dyn Poke = {}; ", d, x).unwrap();
                        format!("Poke::poke({})", d)
                    }
                    _ => format!("Poke::poke({})", x),
                };
                match self.rng.below(5) {
                    0 => write!(s, "{}; ", call).unwrap(),
                    1 => write!(s, "let _ = {}; ", call).unwrap(),
                    2 => {
                        // tail of a loop body
                        let c = self.fresh("i");
                        write!(s, "let {c} = ref(0); while ref_get({c}) < 2 {{ let _ = ref_set({c}, ref_get({c}) + 1); {call} }}; ", c = c, call = call).unwrap();
                    }
                    3 => {
                        // tail of a branch that is the tail of a loop body
                        let c = self.fresh("i");
                        write!(s, "let {c} = ref(0); while ref_get({c}) < 2 {{ let _ = ref_set({c}, ref_get({c}) + 1); if ref_get({c}) > 1 {{ {call} }} else {{ () }} }}; ", c = c, call = call).unwrap();
                    }
                    _ => {
                        // tail of a match arm evaluated for effect
                        write!(s, "let _ = match ref_get(ref(1)) {{ 0 => (), _ => {call}, }}; ", call = call).unwrap();
                    }
                }
            }
            4 if self.cfg.go_stmt => {
                self.feat("go");
                let mut pre = String::new();
                let e = self.expr(&T::Str, sc, 0, &mut pre);
                write!(s, "{}go || {{ string_println({}) }}; ", pre, e).unwrap();
            }
            _ => {
                self.feat("let");
                let t = self.data_ty(1);
                let mut pre = String::new();
                let e = self.expr(&t, sc, depth, &mut pre);
                let v = self.fresh("x");
                write!(s, "{}let {} = {}; ", pre, v, e).unwrap();
                sc.push((v, t));
            }
        }
    }

    /// code that prints a value of type `t` held in variable `v`
    fn show(&mut self, t: &T, v: &str, out: &mut String) {
        match t {
            T::Str => write!(out, "let _ = string_println({}); ", v).unwrap(),
            t if !Self::to_string_fn(t).is_empty() => write!(out, "let _ = string_println({}({})); ", Self::to_string_fn(t), v).unwrap(),
            T::Tuple(ts) => {
                let names: Vec<String> = ts.iter().map(|_| self.fresh("s")).collect();
                write!(out, "let ({}) = {}; ", names.join(", "), v).unwrap();
                for (n, t) in names.iter().zip(ts.iter()) {
                    self.show(t, n, out);
                }
            }
            T::Struct(i) => {
                let fts = self.structs[*i].fields.clone();
                for (k, ft) in fts.iter().enumerate() {
                    let n = self.fresh("s");
                    write!(out, "let {} = {}.f{}; ", n, v, k).unwrap();
                    self.show(ft, &n, out);
                }
            }
            T::Enum(i) => {
                let vs = self.enums[*i].variants.clone();
                let mut arms = String::new();
                for (vi, payload) in vs.iter().enumerate() {
                    let names: Vec<String> = payload.iter().map(|_| self.fresh("s")).collect();
                    let mut body = format!("let _ = string_println(\"V{}_{}\"); ", i, vi);
                    for (n, t) in names.iter().zip(payload.iter()) {
                        self.show(t, n, &mut body);
                    }
                    if payload.is_empty() {
                        write!(arms, "E{}::V{}_{} => {{ {}() }}, ", i, i, vi, body).unwrap();
                    } else {
                        write!(arms, "E{}::V{}_{}({}) => {{ {}() }}, ", i, i, vi, names.join(", "), body).unwrap();
                    }
                }
                write!(out, "let _ = match {} {{ {}}}; ", v, arms).unwrap();
            }
            T::Opt(inner) => {
                let n = self.fresh("s");
                let mut body = String::from("let _ = string_println(\"Som\"); ");
                self.show(inner, &n, &mut body);
                write!(out, "let _ = match {} {{ Opt::Som({}) => {{ {}() }}, Opt::Non => {{ string_println(\"Non\") }}, }}; ", v, n, body).unwrap();
            }
            T::Arr(e, n) => {
                for i in 0..*n {
                    let nm = self.fresh("s");
                    write!(out, "let {} = array_get({}, {}); ", nm, v, i).unwrap();
                    self.show(e, &nm, out);
                }
            }
            T::Vec(e) => {
                write!(out, "let _ = string_println(int32_to_string(vec_len({}))); ", v).unwrap();
                let nm = self.fresh("s");
                let mut body = String::new();
                self.show(e, &nm, &mut body);
                write!(out, "let _ = if vec_len({v}) > 0 {{ let {nm} = vec_get({v}, 0); {body}() }} else {{ () }}; ", v = v, nm = nm, body = body).unwrap();
            }
            T::Ref(e) => {
                let nm = self.fresh("s");
                write!(out, "let {} = ref_get({}); ", nm, v).unwrap();
                self.show(e, &nm, out);
            }
            _ => {}
        }
    }

    pub fn program(&mut self) -> String {
        let mut src = String::new();
        // declarations
        let ns = 1 + self.rng.below(2);
        for i in 0..ns {
            let nf = 1 + self.rng.below(3);
            let fields: Vec<T> = (0..nf).map(|_| self.data_ty(0)).collect();
            let txt: Vec<String> = fields.iter().enumerate().map(|(k, t)| format!("f{}: {}", k, self.ty_text(t))).collect();
            writeln!(src, "struct S{} {{ {} }}", i, txt.join(", ")).unwrap();
            self.structs.push(StructD { fields });
        }
        let ne = 1 + self.rng.below(2);
        for i in 0..ne {
            let nv = 2 + self.rng.below(2);
            let mut variants = Vec::new();
            let mut txt = Vec::new();
            for vi in 0..nv {
                let np = self.rng.below(3);
                let payload: Vec<T> = (0..np).map(|_| if self.rng.chance(1, 4) && i > 0 { T::Enum(i - 1) } else { self.data_ty(0) }).collect();
                if payload.is_empty() {
                    txt.push(format!("V{}_{}", i, vi));
                } else {
                    txt.push(format!("V{}_{}({})", i, vi, payload.iter().map(|t| self.ty_text(t)).collect::<Vec<_>>().join(", ")));
                }
                variants.push(payload);
            }
            writeln!(src, "enum E{} {{ {} }}", i, txt.join(", ")).unwrap();
            self.enums.push(EnumD { variants });
        }
        if self.cfg.generics {
            writeln!(src, "enum Opt[T] {{ Non, Som(T) }}").unwrap();
            writeln!(src, "fn pick[T](c: bool, a: T, b: T) -> T {{ if c {{ a }} else {{ b }} }}").unwrap();
        }
        if self.cfg.traits {
            writeln!(src, "trait Show {{ fn show(Self) -> string; }}").unwrap();
            writeln!(src, "impl Show for int32 {{ fn show(self: int32) -> string {{ \"i\" + int32_to_string(self) }} }}").unwrap();
            self.show_impls.push(T::I32);
            writeln!(src, "impl Show for bool {{ fn show(self: bool) -> string {{ if self {{ \"yes\" }} else {{ \"no\" }} }} }}").unwrap();
            self.show_impls.push(T::Bool);
            writeln!(src, "impl Show for S0 {{ fn show(self: S0) -> string {{ \"S0\" }} }}").unwrap();
            self.show_impls.push(T::Struct(0));
            writeln!(src, "impl Show for E0 {{ fn show(self: E0) -> string {{ match self {{ E0::V0_0{} => \"first\", _ => \"other\", }} }} }}",
                if self.enums[0].variants[0].is_empty() { "".to_string() } else { format!("({})", vec!["_"; self.enums[0].variants[0].len()].join(", ")) }).unwrap();
            self.show_impls.push(T::Enum(0));
            writeln!(src, "fn show_twice[T: Show](x: T) -> string {{ Show::show(x) + x.show() }}").unwrap();
            writeln!(src, "trait Poke {{ fn poke(Self) -> unit; }}").unwrap();
            writeln!(src, "impl Poke for int32 {{ fn poke(self: int32) -> unit {{ string_println(\"poke \" + int32_to_string(self)) }} }}").unwrap();
            writeln!(src, "impl Poke for S0 {{ fn poke(self: S0) -> unit {{ string_println(\"poke S0\") }} }}").unwrap();
            writeln!(src, "fn poke_via[T: Poke](x: T) -> unit {{ Poke::poke(x) }}").unwrap();
        }
        // functions; each may call the earlier ones only
        let nf = 2 + self.rng.below(3);
        for i in 0..nf {
            let np = self.rng.below(3);
            let params: Vec<T> = (0..np).map(|_| if self.cfg.closure_flows && self.rng.chance(1, 3) { T::Fn(vec![T::I32], Box::new(T::I32)) } else { self.data_ty(1) }).collect();
            let ret = self.data_ty(1);
            let mut scope: Scope = Vec::new();
            let mut ptxt = Vec::new();
            for (k, p) in params.iter().enumerate() {
                let n = format!("q{}_{}", i, k);
                ptxt.push(format!("{}: {}", n, self.ty_text(p)));
                scope.push((n, p.clone()));
            }
            let depth = self.cfg.max_depth;
            let body = self.block(&ret, &scope, depth);
            writeln!(src, "fn fun{}({}) -> {} {}", i, ptxt.join(", "), self.ty_text(&ret), body).unwrap();
            self.fns.push(FnD { name: format!("fun{}", i), params, ret });
        }
        // main: call every function and print what it returns
        let mut body = String::new();
        for i in 0..self.fns.len() {
            let ps = self.fns[i].params.clone();
            let ret = self.fns[i].ret.clone();
            let name = self.fns[i].name.clone();
            let mut pre = String::new();
            let args: Vec<String> = ps.iter().map(|p| self.expr(p, &Vec::new(), 1, &mut pre)).collect();
            let r = self.fresh("res");
            write!(body, "{}let {} = {}({}); ", pre, r, name, args.join(", ")).unwrap();
            self.show(&ret, &r, &mut body);
        }
        writeln!(src, "fn main() {{ {}() }}", body).unwrap();
        src
    }
}

pub fn gen_program(rng: &mut Rng, cfg: Cfg) -> (String, BTreeMap<&'static str, usize>) {
    let mut g = Gen::new(rng, cfg);
    let src = g.program();
    (src, g.feats)
}
