//! `Cfg.cov_shapes`: program shapes that no generator produced before the coverage audit
//! (`tools/coverage_audit.py`, `docs/COVERAGE.md`): every shape below reaches a match arm / branch of a
//! semantic pass of the compiler that the program streams never executed, although an ACCEPTED program
//! reaches it.  Child module of `progen` (it uses the generator's scope, types and expression generator);
//! `progen.rs` only declares the flag and calls `decls`, `stmt`, `expr`.
//!
//! Every shape is written so that it is OBSERVABLE: operands print a tag when they are evaluated, results
//! are printed, so a dropped / duplicated / reordered / wrongly resolved computation changes stdout.  The
//! statement shapes are also produced inside a loop body and inside a branch (`in_context`), and — because
//! `Gen::stmt` / `Gen::expr` call in here — at function level, in closure bodies, `if` blocks and match arms.
//!
//! Shapes that are known findings elsewhere are avoided: closures are only bound by `let` and called (never
//! passed or stored), struct literals are written in declaration order, floats are exactly representable.
use super::{Gen, Scope, T};
use std::fmt::Write as _;

/// the declarations the shapes use; every name starts with `Cv` / `cv_`.  The attribute forms
/// (`#[inline]`, several attributes, `#![..]`, `#[derive(ToString,)]`) and the declaration forms
/// (methods without `-> type`, a generic method in a trait impl, a bounded generic method in an inherent
/// impl, trait impls on a function type, a trait and a struct sharing a name, a field-less struct, a
/// generic struct with tuple / array / dyn fields, int16 / uint16 in method signatures) are shapes too.
pub(super) fn decls(g: &mut Gen, src: &mut String) {
    g.feat("cov:decls");
    src.push_str(
        r#"#[inline]
trait CvShow { fn show(Self) -> string; }
#[inline]
#[cold(always)]
impl CvShow for int32 { fn show(self: int32) -> string { "i" + int32_to_string(self) } }
impl CvShow for bool { fn show(self: bool) -> string { if self "yes" else "no" } }
impl CvShow for string { fn show(self: string) -> string { "s" + self } }
impl CvShow for (int32) -> int32 { fn show(self: (int32) -> int32) -> string { "fn" + int32_to_string(self(1)) } }
trait CvTag { fn tag(Self) -> string; }
impl CvTag for int32 { fn tag(self: int32) -> string { "ti" } }
impl CvTag for bool { fn tag(self: bool) -> string { "tb" } }
trait CvRun { fn run(Self, int32) -> int32; }
impl CvRun for (int32) -> int32 { fn run(self: (int32) -> int32, x: int32) -> int32 { self(x) + 1 } }
trait CvPoke { fn poke(Self, Ref[int32]); }
impl CvPoke for int32 { fn poke(self: int32, r: Ref[int32]) { ref_set(r, ref_get(r) + self) } }
trait CvSig { fn m8(Self, int8) -> int8; fn pr(Self, int64) -> (Self, int64); }
impl CvSig for int32 { fn m8(self: int32, a: int8) -> int8 { a + 1i8 } fn pr(self: int32, b: int64) -> (int32, int64) { (self + 1, b + 2i64) } }
trait CvSame { fn a(Self) -> int32; }
struct CvSame { v: int32 }
impl CvSame { fn b(self: CvSame) -> int32 { self.v + 1 } }
impl CvSame for int32 { fn a(self: int32) -> int32 { self * 2 } }
enum CvOpt[T] { CvNone, CvSome(T) }
struct CvGs[T] { pair: (T, int32), arr: [T; 2], d: dyn CvShow, opt: CvOpt[T], v: T }
enum CvCol { CvRed, CvBlue }
struct CvPt { x: int32 }
trait CvWide { fn all(Self, int16, uint8, uint32, uint64, float32, float64, string, bool, unit, CvCol, CvPt, dyn CvShow, [int32; 2], Vec[int32], Ref[int32], (int32) -> int32, (Self, int8), CvOpt[int32]) -> uint16; }
impl CvWide for int32 {
    fn all(self: int32, a: int16, b: uint8, c: uint32, d: uint64, e: float32, f: float64, s: string, t: bool, u: unit, col: CvCol, p: CvPt, dy: dyn CvShow, arr: [int32; 2], v: Vec[int32], r: Ref[int32], g: (int32) -> int32, pr: (int32, int8), o: CvOpt[int32]) -> uint16 {
        let _ = string_println(int16_to_string(a) + uint8_to_string(b) + uint32_to_string(c) + uint64_to_string(d) + s + bool_to_string(t) + unit_to_string(u) + float32_to_string(e) + float64_to_string(f) + CvShow::show(dy));
        let k = match col { CvCol::CvRed => 1, CvCol::CvBlue => 2 };
        let _ = string_println(int32_to_string(k + p.x + array_get(arr, 1) + vec_len(v) + ref_get(r) + g(self) + pr.0 + match o { CvOpt::CvSome(z) => z, CvOpt::CvNone => 0 }));
        40000u16 + 30000u16
    }
}
fn cv_wide[T: CvWide](x: T, d: dyn CvShow, y: T) -> uint16 { let v: Vec[int32] = vec_push(vec_new(), 9); x.all(1i16, 2u8, 3u32, 4u64, 0.5f32, 1.5, "s", true, (), CvCol::CvBlue, CvPt { x: 10 }, d, [5, 6], v, ref(7), cv_inc, (y, 8i8), CvOpt::CvSome(100)) }
fn cv_wide2[T: CvWide](x: T, d: dyn CvShow, y: T) -> uint16 { let v: Vec[int32] = vec_new(); CvWide::all(x, 1i16, 2u8, 3u32, 4u64, 0.5f32, 1.5, "t", false, (), CvCol::CvRed, CvPt { x: 20 }, d, [5, 6], v, ref(7), cv_inc, (y, 8i8), CvOpt::CvNone) }
struct CvE {}
#![cv]
#[derive(ToString,)]
struct CvD { x: int32 }
#[inline]
struct CvC { k: int32 }
#[inline]
impl CvC {
    fn bump(self: CvC, r: Ref[int32]) { let _ = ref_set(r, ref_get(r) * 2 + self.k); }
    fn both[T: CvShow + CvTag + CvShow](self: CvC, x: T) -> string { CvShow::show(x) + CvTag::tag(x) + int32_to_string(self.k) }
    fn w16(self: CvC, a: int16, b: uint16) -> uint16 { b + b }
}
impl CvTag for CvC { fn tag[U](self: CvC) -> string { "tc" + int32_to_string(self.k) } }
fn cv_showd(d: dyn CvShow) -> string { CvShow::show(d) }
fn cv_i(s: string, v: int32) -> int32 { let _ = string_println(s); v }
fn cv_s(s: string) -> string { let _ = string_println(s); s }
fn cv_b(s: string, v: bool) -> bool { let _ = string_println(s); v }
fn cv_tick(r: Ref[int32], s: string) -> unit { let _ = string_println(s); ref_set(r, ref_get(r) + 1) }
fn cv_idg[T](x: T) -> T { x }
fn cv_snd[A, B](a: A, b: B) -> B { b }
fn cv_lab[T](d: dyn CvShow, x: T) -> T { let _ = string_println(CvShow::show(d)); x }
fn cv_inc(x: int32) -> int32 { x + 1 }
fn cv_via[T: CvSig](x: T, a: int8) -> int8 { x.m8(a) }
fn cv_via2[T: CvSig](x: T, b: int64) -> int64 { let (_, r) = CvSig::pr(x, b); r }
"#,
    );
}

/// a typed variable whose value can be coerced to `dyn CvShow` at a call (an un-annotated binding or a
/// literal has an inference variable for a type and is refused by the coercion)
fn dyn_source(g: &mut Gen, scope: &Scope, out: &mut String) -> String {
    let v = g.fresh("cvd");
    match g.rng.below(3) {
        0 => {
            let mut pre = String::new();
            let e = g.expr(&T::I32, scope, 0, &mut pre);
            write!(out, "{}let {}: int32 = {}; ", pre, v, e).unwrap();
        }
        1 => {
            let mut pre = String::new();
            let e = g.expr(&T::Bool, scope, 0, &mut pre);
            write!(out, "{}let {}: bool = {}; ", pre, v, e).unwrap();
        }
        _ => {
            let mut pre = String::new();
            let e = g.expr(&T::Str, scope, 0, &mut pre);
            write!(out, "{}let {}: string = {}; ", pre, v, e).unwrap();
        }
    }
    v
}

/// may `t` be written as `t -> t` (a function type whose single parameter has no parentheses)?
fn bare_param_ok(t: &T) -> bool {
    matches!(t, T::I32 | T::I8 | T::U8 | T::I64 | T::U32 | T::Bool | T::Str | T::Struct(_) | T::Enum(_))
}

fn has_fn(t: &T) -> bool {
    match t {
        T::Fn(..) => true,
        T::Tuple(ts) => ts.iter().any(has_fn),
        T::Opt(a) | T::Arr(a, _) | T::Vec(a) | T::Ref(a) | T::Bx(a) | T::Lst(a) => has_fn(a),
        T::Pr(a, b) => has_fn(a) || has_fn(b),
        _ => false,
    }
}

/// an expression of type `t` in a surface / typing form the other generators never write
pub(super) fn expr(g: &mut Gen, t: &T, scope: &Scope, d: usize, pre: &mut String) -> Option<String> {
    // function values flowing through data are C02's known findings: not here
    if has_fn(t) {
        return None;
    }
    let tag = g.fresh("cv");
    match g.rng.below(9) {
        // `if c a else b` with bare-expression branches (lower.rs: branch is not a block); only the taken branch runs
        0 => {
            let (a, b) = match t {
                T::I32 => (format!("cv_i(\"{}t\", {})", tag, g.rng.below(9)), format!("cv_i(\"{}e\", {})", tag, g.rng.below(9))),
                T::Str => (format!("cv_s(\"{}t\")", tag), format!("cv_s(\"{}e\")", tag)),
                T::Bool => (format!("cv_b(\"{}t\", true)", tag), format!("cv_b(\"{}e\", false)", tag)),
                _ => return None,
            };
            g.feat("cov:if-bare-branches");
            let c = g.fresh("cvc");
            let ce = g.expr(&T::Bool, scope, d, pre);
            write!(pre, "let {} = {}; ", c, ce).unwrap();
            Some(if g.rng.chance(1, 2) { format!("if {} {} else {}", c, a, b) } else { format!("if {} {} else {{ {} }}", c, a, b) })
        }
        // `else if` chain (the else branch is not a block) and `else <expr>`
        1 => {
            g.feat("cov:else-if-chain");
            let c1 = g.expr(&T::Bool, scope, d, pre);
            let c2 = g.expr(&T::Bool, scope, d, pre);
            let a = g.block(t, scope, d);
            let b = g.block(t, scope, d);
            let c = g.block(t, scope, d);
            Some(format!("if {} {} else if {} {} else {}", c1, a, c2, b, c))
        }
        // a closure with an un-annotated parameter under an expected function type; the type written without
        // parentheses when the grammar allows (`int32 -> int32`)
        2 => {
            g.feat("cov:closure-unannotated-param-checked");
            let f = g.fresh("cvf");
            let p = g.fresh("cvp");
            let tt = g.ty_text(t);
            let fty = if bare_param_ok(t) && g.rng.chance(1, 2) { format!("{} -> {}", tt, tt) } else { format!("({}) -> {}", tt, tt) };
            let arg = g.expr(t, scope, d, pre);
            write!(pre, "let {}: {} = |{}| {{ let _ = string_println(\"{}\"); {} }}; ", f, fty, p, tag, p).unwrap();
            Some(format!("{}({})", f, arg))
        }
        // a value of a function type without parameters: the body runs at the call, not at the binding
        3 => {
            g.feat("cov:nullary-fn-type");
            let k = g.fresh("cvk");
            let mut inner = String::new();
            let body = g.expr(t, scope, d, &mut inner);
            write!(pre, "let {}: () -> {} = || {{ let _ = string_println(\"{} body\"); {}{} }}; let _ = string_println(\"{} bound\"); ", k, g.ty_text(t), tag, inner, body, tag).unwrap();
            Some(format!("{}()", k))
        }
        // a generic struct whose fields are a tuple, an array and a trait object next to a plain `T`: built once,
        // read by a pattern (tuple and dyn fields) and by field access (array and plain field)
        4 => {
            g.feat("cov:generic-struct-field-types");
            let dv = dyn_source(g, scope, pre);
            let e1 = g.expr(t, scope, d, pre);
            let e2 = g.expr(t, scope, d, pre);
            let e3 = g.expr(t, scope, d, pre);
            let e4 = g.expr(t, scope, d, pre);
            let (gs, pa, gd) = (g.fresh("cvg"), g.fresh("cvq"), g.fresh("cvq"));
            let e5 = g.expr(t, scope, d, pre);
            write!(pre, "let {gs} = CvGs {{ pair: ({e1}, cv_i(\"{tag} pair\", 7)), arr: [{e2}, {e3}], d: {dv}, opt: CvOpt::CvSome({e5}), v: {e4} }}; ", gs = gs, e1 = e1, e2 = e2, e3 = e3, e4 = e4, e5 = e5, dv = dv, tag = tag).unwrap();
            write!(pre, "let CvGs {{ pair: ({pa}, _), arr: _, d: {gd}, opt: _, v: _ }} = {gs}; let _ = string_println(cv_showd({gd})); ", pa = pa, gd = gd, gs = gs).unwrap();
            Some(match g.rng.below(4) {
                0 => pa,
                1 => format!("array_get({}.arr, {})", gs, g.rng.below(2)),
                2 => format!("match {gs}.opt {{ CvOpt::CvSome(o) => o, CvOpt::CvNone => {gs}.v }}", gs = gs),
                _ => format!("{}.v", gs),
            })
        }
        // an argument of a generic function that is coerced to a trait object at the call
        5 => {
            g.feat("cov:dyn-coercion-as-generic-argument");
            let dv = dyn_source(g, scope, pre);
            let e = g.expr(t, scope, d, pre);
            Some(format!("cv_lab({}, {})", dv, e))
        }
        // a `go` expression (unit) as the argument of a generic function
        6 if g.cfg.go_stmt => {
            g.feat("cov:go-as-generic-argument");
            let e = g.expr(t, scope, d, pre);
            Some(format!("cv_snd(go || {{ string_println(\"{} spawned\") }}, {})", tag, e))
        }
        // generic instances at the integer widths and float types no other generator instantiates at
        7 => {
            let (lit, show) = match g.rng.below(5) {
                0 => ("7i16", "int16_to_string"),
                1 => ("40000u16", "uint16_to_string"),
                2 => ("9000000000u64", "uint64_to_string"),
                3 => ("1.5", "float64_to_string"),
                _ => ("0.25f32", "float32_to_string"),
            };
            if *t != T::Str {
                return None;
            }
            g.feat("cov:generic-instance-at-rare-width");
            Some(format!("{}(cv_snd(cv_s(\"{}\"), cv_idg({})))", show, tag, lit))
        }
        // trait-method signatures mentioning int8 / int64 / a tuple with Self; `x.m(..)` on a bounded type parameter
        _ => match t {
            T::I8 => {
                g.feat("cov:trait-sig-types");
                let a = g.expr(&T::I8, scope, d, pre);
                let x = g.expr(&T::I32, scope, d, pre);
                Some(format!("cv_via({}, {})", x, a))
            }
            T::I64 => {
                g.feat("cov:trait-sig-types");
                let a = g.expr(&T::I64, scope, d, pre);
                let x = g.expr(&T::I32, scope, d, pre);
                Some(format!("cv_via2({}, {})", x, a))
            }
            _ => None,
        },
    }
}

/// one closed statement sequence of a shape; `tag` makes its prints unique
fn shape_stmt(g: &mut Gen, sc: &Scope, which: usize, s: &mut String) {
    let tag = g.fresh("cv");
    match which {
        // `while` whose body is a bare expression (a call), not a block
        0 => {
            g.feat("cov:while-bare-body");
            let i = g.fresh("cvi");
            let n = 1 + g.rng.below(3);
            write!(s, "let {i} = ref(0); while ref_get({i}) < {n} cv_tick({i}, \"{tag}\"); let _ = string_println(int32_to_string(ref_get({i}))); ", i = i, n = n, tag = tag).unwrap();
        }
        // `while` whose condition is a literal or a plain variable (the body must not run)
        1 => {
            g.feat("cov:while-immediate-condition");
            let b = g.fresh("cvb");
            let mut pre = String::new();
            let e = g.expr(&T::Bool, sc, 0, &mut pre);
            write!(s, "{pre}let {b} = {e} && false; while {b} {{ let _ = string_println(\"{tag} never\"); }}; while false {{ let _ = string_println(\"{tag} never2\"); }}; ", pre = pre, b = b, e = e, tag = tag).unwrap();
        }
        // methods declared without `-> type` (trait signature, trait impl, inherent impl), called as statements
        2 => {
            g.feat("cov:methods-without-result-type");
            let r = g.fresh("cvr");
            let mut pre = String::new();
            let e = g.expr(&T::I32, sc, 0, &mut pre);
            let k = g.rng.below(5);
            write!(s, "{pre}let {r} = ref({e}); CvPoke::poke({k}, {r}); CvC {{ k: {k} }}.bump({r}); let _ = string_println(\"{tag} \" + int32_to_string(ref_get({r}))); ", pre = pre, r = r, e = e, k = k, tag = tag).unwrap();
        }
        // a field-less struct: literal, `let` pattern, match pattern
        3 => {
            g.feat("cov:fieldless-struct-pattern");
            let e = g.fresh("cve");
            write!(s, "let {e} = CvE {{}}; let CvE {{}} = {e}; let _ = match {e} {{ CvE {{}} => string_println(\"{tag} fieldless\") }}; ", e = e, tag = tag).unwrap();
        }
        // a named function coerced to `dyn Trait` (trait impl on a function type); trait method on a receiver of function type
        4 => {
            g.feat("cov:fn-value-to-dyn");
            let (d, f) = (g.fresh("cvd"), g.fresh("cvf"));
            let mut pre = String::new();
            let e = g.expr(&T::I32, sc, 0, &mut pre);
            write!(s, "{pre}let {d}: dyn CvRun = cv_inc; let {f}: (int32) -> int32 = cv_inc; let _ = string_println(\"{tag} \" + int32_to_string(CvRun::run({d}, {e})) + CvShow::show({f})); ", pre = pre, d = d, f = f, e = e, tag = tag).unwrap();
        }
        // a bounded generic method of an inherent impl (bound set with a repeated trait), a generic method of a trait
        // impl, int16 / uint16 in a method signature
        5 => {
            g.feat("cov:generic-methods-in-impls");
            let c = g.fresh("cvc");
            let k = g.rng.below(9);
            let arg = if g.rng.chance(1, 2) { format!("{}", g.rng.below(9)) } else { "true".to_string() };
            write!(s, "let {c} = CvC {{ k: {k} }}; let _ = string_println(\"{tag} \" + {c}.both({arg}) + CvTag::tag({c}) + uint16_to_string({c}.w16(1i16, 40000u16))); ", c = c, k = k, arg = arg, tag = tag).unwrap();
        }
        // a trait and a struct that share their name: `Name::m` for the inherent method and for the trait method
        6 => {
            g.feat("cov:trait-and-struct-same-name");
            let mut pre = String::new();
            let e = g.expr(&T::I32, sc, 0, &mut pre);
            let v = g.fresh("cvs");
            write!(s, "{pre}let {v} = CvSame {{ v: {e} }}; let _ = string_println(\"{tag} \" + int32_to_string(CvSame::b({v})) + \" \" + int32_to_string(CvSame::a({e})) + \" \" + int32_to_string({v}.b())); ", pre = pre, v = v, e = e, tag = tag).unwrap();
        }
        // closures with un-annotated parameters bound by an un-annotated `let` (types fixed by the body / the call)
        7 => {
            g.feat("cov:closure-unannotated-param-inferred");
            let (f, h) = (g.fresh("cvf"), g.fresh("cvh"));
            let mut pre = String::new();
            let e = g.expr(&T::I32, sc, 0, &mut pre);
            write!(s, "{pre}let {f} = |x| x + 10; let {h} = |p, q: string| q + int32_to_string(p); let _ = string_println({h}({f}({e}), \"{tag} \")); ", pre = pre, f = f, h = h, e = e, tag = tag).unwrap();
        }
        // a derive next to other attributes, with a trailing comma in its list
        8 => {
            g.feat("cov:derive-attribute-forms");
            let mut pre = String::new();
            let e = g.expr(&T::I32, sc, 0, &mut pre);
            write!(s, "{pre}let _ = string_println(\"{tag} \" + CvD {{ x: {e} }}.to_string()); ", pre = pre, e = e, tag = tag).unwrap();
        }
        // a trait method whose signature mentions every kind of type next to `Self` (also `Self` inside a tuple), called
        // on a receiver of type-parameter type as `x.all(..)` and as `CvWide::all(x, ..)`
        9 => {
            g.feat("cov:trait-sig-every-type");
            let mut pre = String::new();
            let dv = dyn_source(g, sc, &mut pre);
            let e = g.expr(&T::I32, sc, 0, &mut pre);
            let f = if g.rng.chance(1, 2) { "cv_wide" } else { "cv_wide2" };
            write!(s, "{pre}let _ = string_println(\"{tag} \" + uint16_to_string({f}({e}, {dv}, {k}))); ", pre = pre, tag = tag, f = f, e = e, dv = dv, k = g.rng.below(9)).unwrap();
        }
        // `go` bound by `let` and followed by statements, `go` as the tail of a branch evaluated for effect and as a value
        _ => {
            g.feat("cov:go-positions");
            let u = g.fresh("cvu");
            write!(
                s,
                "let {u} = go || {{ string_println(\"{tag} let-go\") }}; let _ = string_println(\"{tag} after \" + unit_to_string({u})); let _ = if ref_get(ref(1)) > 0 {{ go || {{ string_println(\"{tag} branch-go\") }} }} else {{ () }}; let {u}m = match ref_get(ref(2)) {{ 2 => go || {{ string_println(\"{tag} arm-go\") }}, _ => () }}; let _ = string_println(unit_to_string({u}m)); ",
                u = u,
                tag = tag
            )
            .unwrap();
        }
    }
}

/// a statement of one of the shapes: at the current level, as the body of a two-round loop (followed and
/// preceded by statements, and for `go` also as the loop's tail), or inside a branch taken at run time
pub(super) fn stmt(g: &mut Gen, sc: &mut Scope, _depth: usize, s: &mut String) {
    let n = if g.cfg.go_stmt { 11 } else { 10 };
    let which = g.rng.below(n);
    let mut body = String::new();
    shape_stmt(g, sc, which, &mut body);
    match g.rng.below(4) {
        0 => {
            g.feat("cov:ctx-loop-body");
            let i = g.fresh("cvl");
            let tail = if which == 10 { format!("go || {{ string_println(\"{} loop-tail-go\") }}", i) } else { "()".to_string() };
            write!(s, "let {i} = ref(0); while ref_get({i}) < 2 {{ let _ = ref_set({i}, ref_get({i}) + 1); {body}let _ = string_println(\"{i} round\"); {tail} }}; ", i = i, body = body, tail = tail).unwrap();
        }
        1 => {
            g.feat("cov:ctx-branch");
            let mut pre = String::new();
            let c = g.expr(&T::Bool, sc, 0, &mut pre);
            write!(s, "{pre}let _ = if {c} {{ {body}() }} else {{ string_println(\"cv else\") }}; ", pre = pre, c = c, body = body).unwrap();
        }
        _ => s.push_str(&body),
    }
}
