//! single PRNG (splitmix64); every random choice in the harness derives from it
#[derive(Clone)]
pub struct Rng(pub u64);

impl Rng {
    pub fn new(seed: u64) -> Self {
        Rng(seed.wrapping_mul(0x9E3779B97F4A7C15) ^ 0xD1B54A32D192ED03)
    }
    pub fn next(&mut self) -> u64 {
        self.0 = self.0.wrapping_add(0x9E3779B97F4A7C15);
        let mut z = self.0;
        z = (z ^ (z >> 30)).wrapping_mul(0xBF58476D1CE4E5B9);
        z = (z ^ (z >> 27)).wrapping_mul(0x94D049BB133111EB);
        z ^ (z >> 31)
    }
    pub fn below(&mut self, n: usize) -> usize {
        if n == 0 { 0 } else { (self.next() % n as u64) as usize }
    }
    pub fn chance(&mut self, num: u64, den: u64) -> bool {
        self.next() % den < num
    }
    pub fn pick<'a, T>(&mut self, xs: &'a [T]) -> &'a T {
        &xs[self.below(xs.len())]
    }
    pub fn fork(&mut self, k: u64) -> Rng {
        Rng::new(self.next() ^ k.wrapping_mul(0xA24BAED4963EE407))
    }
}
