//! S-expression writer (the reader lives on the Lean side).
#[derive(Clone, Debug, PartialEq)]
pub enum S {
    A(String),
    L(Vec<S>),
}

pub fn a(s: impl Into<String>) -> S {
    S::A(s.into())
}
pub fn n(v: impl std::fmt::Display) -> S {
    S::A(v.to_string())
}
pub fn l(items: Vec<S>) -> S {
    S::L(items)
}
pub fn tagged(tag: &str, mut items: Vec<S>) -> S {
    let mut v = vec![a(tag)];
    v.append(&mut items);
    S::L(v)
}

fn needs_quote(s: &str) -> bool {
    s.is_empty()
        || s.chars().any(|c| {
            c == ' ' || c == '(' || c == ')' || c == '"' || c == '\\' || (c as u32) < 32
        })
}

fn quote(s: &str, out: &mut String) {
    out.push('"');
    for c in s.chars() {
        match c {
            '"' => out.push_str("\\\""),
            '\\' => out.push_str("\\\\"),
            '\n' => out.push_str("\\n"),
            '\t' => out.push_str("\\t"),
            '\r' => out.push_str("\\r"),
            c => out.push(c),
        }
    }
    out.push('"');
}

impl S {
    pub fn write(&self, out: &mut String) {
        match self {
            S::A(s) => {
                if needs_quote(s) {
                    quote(s, out)
                } else {
                    out.push_str(s)
                }
            }
            S::L(items) => {
                out.push('(');
                for (i, it) in items.iter().enumerate() {
                    if i > 0 {
                        out.push(' ');
                    }
                    it.write(out);
                }
                out.push(')');
            }
        }
    }
    pub fn to_text(&self) -> String {
        let mut s = String::new();
        self.write(&mut s);
        s
    }
}

/// one-line escaping for free text fields in TSV output
pub fn esc_line(s: &str) -> String {
    let mut out = String::new();
    for c in s.chars() {
        match c {
            '\\' => out.push_str("\\\\"),
            '\n' => out.push_str("\\n"),
            '\t' => out.push_str("\\t"),
            '\r' => out.push_str("\\r"),
            c => out.push(c),
        }
    }
    out
}
