//! `gv solve`: constraint queues run through the REAL `Typer::solve` (typer/unify.rs) on a fresh `Typer`, against a
//! type environment compiled by the real pipeline from one fixed prelude program (plus synthetic impl rows, see below).
//!     #ENV TAB <envname> TAB (env (structs …) (impls …))
//!     <id> TAB SOLVE TAB (script <envname> (fresh <n>) (constraints <c>*)) TAB (result …)
//!     #COV TAB key=value;…
//! Every random choice derives from `--seed`.  Types, generators, the cycle check over the real store, the diagnostic
//! classifier and the progress-file / `--skip` mechanism are those of `gv unify` (unify.rs).
use crate::dump;
use crate::rng::Rng;
use crate::sexp::{S, a, l, n, tagged};
use crate::unify::{self as U, Cov};
use crate::util;
use compiler::env::{Constraint, FnOrigin, FnScheme, GlobalTypeEnv, ImplDef, PackageTypeEnv, StructDef};
use compiler::tast::{TastIdent, Ty};
use compiler::typer::Typer;
use indexmap::IndexMap;
use parser::Diagnostics;
use std::collections::{BTreeMap, HashMap};
use std::panic::{AssertUnwindSafe, catch_unwind};

const MAX_VARS: usize = 8;
const MAX_CS: usize = 8;
const MAX_DEPTH: usize = 3;
/// a script one of whose final normal forms would exceed this many nodes is discarded and regenerated
const SIZE_CAP: u64 = 400;

/// the fixed program whose `genv` (built by the real pipeline) is the environment of every script
const PRELUDE: &str = r#"struct P { x: int32, y: string }
struct Bx[T] { v: T, n: int32 }
struct Pr[A, B] { a: A, b: B, f: (A) -> B }
enum Col { Red, Green }
enum Opt[T] { Non, Som(T) }
trait Show { fn show(Self) -> string; }
trait Add2 { fn add2(Self, Self) -> Self; }
trait Two { fn first(Self) -> int32; fn second(Self, bool) -> (Self, string); }
impl Show for int32 { fn show(self: int32) -> string { "i" } }
impl Show for string { fn show(self: string) -> string { self } }
impl Show for P { fn show(self: P) -> string { self.y } }
impl Show for Bx[int32] { fn show(self: Bx[int32]) -> string { "bx" } }
impl Show for Col { fn show(self: Col) -> string { "col" } }
impl Show for (int32, bool) { fn show(self: (int32, bool)) -> string { "t" } }
impl Show for Vec[int32] { fn show(self: Vec[int32]) -> string { "v" } }
impl Show for Pr[int32, string] { fn show(self: Pr[int32, string]) -> string { "pr" } }
impl Add2 for int32 { fn add2(self: int32, o: int32) -> int32 { self + o } }
impl Add2 for string { fn add2(self: string, o: string) -> string { self + o } }
impl Two for int32 { fn first(self: int32) -> int32 { self } fn second(self: int32, b: bool) -> (int32, string) { (self, "s") } }
impl Two for P { fn first(self: P) -> int32 { self.x } fn second(self: P, b: bool) -> (P, string) { (self, "p") } }
fn main() -> unit { () }
"#;

// ------------------------------------------------------------------------------------------------
// types of the environment's vocabulary

fn s(x: &str) -> String {
    x.to_string()
}
fn st(x: &str) -> Ty {
    Ty::TStruct { name: s(x) }
}
fn en(x: &str) -> Ty {
    Ty::TEnum { name: s(x) }
}
fn tp(x: &str) -> Ty {
    Ty::TParam { name: s(x) }
}
fn app(h: Ty, args: Vec<Ty>) -> Ty {
    Ty::TApp { ty: Box::new(h), args }
}
fn bx(t: Ty) -> Ty {
    app(st("Bx"), vec![t])
}
fn pr(x: Ty, y: Ty) -> Ty {
    app(st("Pr"), vec![x, y])
}
fn tup(v: Vec<Ty>) -> Ty {
    Ty::TTuple { typs: v }
}
fn func(ps: Vec<Ty>, r: Ty) -> Ty {
    Ty::TFunc { params: ps, ret_ty: Box::new(r) }
}
fn vecof(t: Ty) -> Ty {
    Ty::TVec { elem: Box::new(t) }
}
fn tv(i: usize) -> Ty {
    U::tv(i)
}

/// concrete types of depth <= 1 (arguments of call sites, instances of scheme parameters)
fn small_conc(rng: &mut Rng) -> Ty {
    match rng.below(12) {
        0..=2 => Ty::TInt32,
        3 | 4 => Ty::TString,
        5 => Ty::TBool,
        6 => st("P"),
        7 => bx(Ty::TInt32),
        8 => en("Col"),
        9 => Ty::TUnit,
        10 => tup(vec![Ty::TInt32, Ty::TBool]),
        _ => vecof(Ty::TInt32),
    }
}

fn conc_leaf(rng: &mut Rng) -> Ty {
    match rng.below(11) {
        0..=2 => Ty::TInt32,
        3 | 4 => Ty::TString,
        5 => Ty::TBool,
        6 => Ty::TUnit,
        7 | 8 => st("P"),
        9 => en("Col"),
        _ => tp("T"),
    }
}

/// a random type over the environment's vocabulary
fn env_ty(rng: &mut Rng, depth: usize, nv: usize, pvar: u64) -> Ty {
    if depth == 0 || rng.chance(30, 100) {
        return if nv > 0 && rng.chance(pvar, 100) { tv(rng.below(nv)) } else { conc_leaf(rng) };
    }
    let d = depth - 1;
    match rng.below(9) {
        0 | 1 => bx(env_ty(rng, d, nv, pvar)),
        2 => pr(env_ty(rng, d, nv, pvar), env_ty(rng, d, nv, pvar)),
        3 | 4 => tup(vec![env_ty(rng, d, nv, pvar), env_ty(rng, d, nv, pvar)]),
        5 => vecof(env_ty(rng, d, nv, pvar)),
        6 => app(en("Opt"), vec![env_ty(rng, d, nv, pvar)]),
        7 => func(vec![env_ty(rng, d, nv, pvar)], env_ty(rng, d, nv, pvar)),
        _ => Ty::TRef { elem: Box::new(env_ty(rng, d, nv, pvar)) },
    }
}

fn tparams_of(t: &Ty, out: &mut Vec<String>) {
    if let Ty::TParam { name } = t {
        if !out.contains(name) {
            out.push(name.clone());
        }
    }
    for c in U::children(t) {
        tparams_of(c, out);
    }
}

fn subst_params(t: &Ty, sub: &BTreeMap<String, Ty>) -> Ty {
    if let Ty::TParam { name } = t {
        return sub.get(name).cloned().unwrap_or_else(|| t.clone());
    }
    let ch: Vec<Ty> = U::children(t).iter().map(|c| subst_params(c, sub)).collect();
    if ch.is_empty() { t.clone() } else { U::rebuild(t, ch) }
}

/// generator-side reading of a struct type (only used to pick scenarios and for the coverage proxy)
fn struct_parts(t: &Ty) -> Option<(String, Vec<Ty>)> {
    match t {
        Ty::TStruct { name } => Some((name.clone(), vec![])),
        Ty::TApp { ty, args } => {
            let (nm, mut xs) = struct_parts(ty)?;
            xs.extend(args.iter().cloned());
            Some((nm, xs))
        }
        _ => None,
    }
}

// ------------------------------------------------------------------------------------------------
// environments

struct ImplRow {
    tr: String,
    self_ty: Ty,
    method: String,
    scheme: Ty,
}

struct Env {
    name: &'static str,
    penv: PackageTypeEnv,
    /// all impl rows, current package first, then every dependency (the order `solve` collects them)
    rows: Vec<ImplRow>,
}

fn scheme(ty: Ty) -> FnScheme {
    FnScheme { type_params: vec![], constraints: (), ty, origin: FnOrigin::User }
}

fn impl_def(methods: Vec<(&str, Ty)>) -> ImplDef {
    let mut m: IndexMap<String, FnScheme> = IndexMap::new();
    for (k, t) in methods {
        m.insert(s(k), scheme(t));
    }
    ImplDef { params: vec![], methods: m }
}

fn rows_of(g: &GlobalTypeEnv, out: &mut Vec<ImplRow>) {
    for ((tr, ty), d) in g.trait_env.trait_impls.iter() {
        for (m, sc) in d.methods.iter() {
            out.push(ImplRow { tr: tr.clone(), self_ty: ty.clone(), method: m.clone(), scheme: sc.ty.clone() });
        }
    }
}

impl Env {
    fn new(name: &'static str, current: GlobalTypeEnv, deps: HashMap<String, GlobalTypeEnv>) -> Env {
        let penv = PackageTypeEnv::new(s("Main"), current, deps);
        let mut rows = Vec::new();
        rows_of(penv.current(), &mut rows);
        for d in penv.deps.values() {
            rows_of(d, &mut rows);
        }
        Env { name, penv, rows }
    }
    fn count(&self, tr: &str, ty: &Ty, m: &str) -> usize {
        self.rows.iter().filter(|r| r.tr == tr && r.self_ty == *ty && r.method == m).count()
    }
    fn unique_rows(&self) -> Vec<&ImplRow> {
        self.rows.iter().filter(|r| self.count(&r.tr, &r.self_ty, &r.method) == 1).collect()
    }
    fn multi_rows(&self) -> Vec<&ImplRow> {
        self.rows.iter().filter(|r| self.count(&r.tr, &r.self_ty, &r.method) > 1).collect()
    }
    /// generator-side struct lookup (only used to pick scenarios and for the coverage proxy): "Main::S" / "Builtin::S"
    /// name the struct S of the current package, "<Dep>::S" is looked up under that full name in the dependency's own
    /// table, any other name (also "Self", "<NoSuchPackage>::S") as it is in the current package
    fn struct_def(&self, nm: &str) -> Option<&StructDef> {
        let cur = self.penv.current().structs();
        if nm == "Self" {
            return cur.get(&TastIdent::new(nm));
        }
        match nm.split_once("::") {
            Some(("Main", rest)) | Some(("Builtin", rest)) => cur.get(&TastIdent::new(rest)),
            Some((pkg, _)) => match self.penv.deps.get(pkg) {
                Some(dep) => dep.structs().get(&TastIdent::new(nm)),
                None => cur.get(&TastIdent::new(nm)),
            },
            None => cur.get(&TastIdent::new(nm)),
        }
    }
    fn arity_ok(&self, t: &Ty) -> bool {
        match struct_parts(t) {
            Some((nm, args)) => self.struct_def(&nm).is_some_and(|d| d.generics.len() == args.len()),
            None => false,
        }
    }
    /// type of field `f` of the struct type `t` (generator side)
    fn field_ty(&self, t: &Ty, f: &str) -> Option<Ty> {
        let (nm, args) = struct_parts(t)?;
        let d = self.struct_def(&nm)?;
        if d.generics.len() != args.len() {
            return None;
        }
        let sub: BTreeMap<String, Ty> = d.generics.iter().map(|g| g.0.clone()).zip(args.iter().cloned()).collect();
        d.fields.iter().find(|(k, _)| k.0 == f).map(|(_, ft)| subst_params(ft, &sub))
    }
    fn field_names(&self, t: &Ty) -> Vec<String> {
        let Some((nm, _)) = struct_parts(t) else { return vec![] };
        match self.struct_def(&nm) {
            Some(d) => d.fields.iter().map(|(k, _)| k.0.clone()).collect(),
            None => vec![],
        }
    }
    fn dump(&self) -> S {
        fn structs_s(g: &GlobalTypeEnv) -> S {
            let v: Vec<S> = g
                .structs()
                .values()
                .map(|d| {
                    let mut gs = vec![a("generics")];
                    gs.extend(d.generics.iter().map(|x| a(&x.0)));
                    let mut f = vec![a("fields")];
                    f.extend(d.fields.iter().map(|(k, t)| l(vec![a(&k.0), dump::ty(t)])));
                    tagged("struct", vec![a(&d.name.0), l(gs), l(f)])
                })
                .collect();
            tagged("structs", v)
        }
        let impls: Vec<S> = self.rows.iter().map(|r| tagged("impl", vec![a(&r.tr), dump::ty(&r.self_ty), a(&r.method), dump::ty(&r.scheme)])).collect();
        // the struct table of every dependency (a name `<Dep>::S` is looked up there)
        let deps: Vec<S> = self.penv.deps.iter().map(|(k, d)| tagged("dep", vec![a(k), structs_s(d)])).collect();
        tagged("env", vec![structs_s(self.penv.current()), tagged("impls", impls), tagged("deps", deps)])
    }
}

fn build_envs() -> Vec<Env> {
    let dir = util::scratch_dir("solve");
    let mut genv = match util::compile_text(&dir, PRELUDE) {
        util::Outcome::Ok(c) => c.genv.clone(),
        util::Outcome::Err(stage, msgs) => {
            eprintln!("gv solve: the prelude does not compile ({}): {}", stage, msgs.join(" | "));
            std::process::exit(3);
        }
        util::Outcome::Panic(m) => {
            eprintln!("gv solve: the pipeline panicked on the prelude: {}", m);
            std::process::exit(3);
        }
    };
    let _ = std::fs::remove_dir_all(&dir);
    // synthetic rows: schemes with type parameters (`inst_ty` makes fresh variables in a definite order), a self type
    // that is a type parameter, and a parameter that occurs in the result only
    let ti = &mut genv.trait_env.trait_impls;
    ti.insert((s("Gen"), bx(Ty::TInt32)), impl_def(vec![("pick", func(vec![bx(Ty::TInt32), tp("T"), tp("U")], tup(vec![tp("U"), tp("T"), tp("T")])))]));
    ti.insert(
        (s("Gen"), st("P")),
        impl_def(vec![("wrap", func(vec![st("P"), tp("T")], bx(tp("T")))), ("mk", func(vec![st("P")], pr(tp("A"), tp("B"))))]),
    );
    ti.insert((s("Gen"), Ty::TInt32), impl_def(vec![("dup", func(vec![Ty::TInt32, vecof(tp("T"))], tup(vec![tp("T"), tp("T")])))]));
    ti.insert((s("Gen"), tp("T")), impl_def(vec![("idp", func(vec![tp("T"), tp("T")], tp("T")))]));
    // the dependency: a duplicate of (Show, int32, show) and of (Add2, string, add2) — the latter with ANOTHER scheme —
    // and one impl that only the dependency has
    let mut dep = GlobalTypeEnv::new_empty();
    let di = &mut dep.trait_env.trait_impls;
    di.insert((s("Show"), Ty::TInt32), impl_def(vec![("show", func(vec![Ty::TInt32], Ty::TString))]));
    di.insert((s("Add2"), Ty::TString), impl_def(vec![("add2", func(vec![Ty::TString, Ty::TInt32], Ty::TString))]));
    di.insert((s("Show"), Ty::TBool), impl_def(vec![("show", func(vec![Ty::TBool], Ty::TString))]));
    di.insert((s("Gen"), st("P")), impl_def(vec![("mk", func(vec![st("P")], pr(tp("A"), tp("B"))))]));
    // structs of the dependency (under their full names, as the real multi-package typer stores them); `Dep::P` has the
    // short name of a struct of the current package and other fields
    dep.insert_struct(StructDef { name: TastIdent::new("Dep::Q"), generics: vec![TastIdent::new("T")], fields: vec![(TastIdent::new("q"), tp("T")), (TastIdent::new("k"), Ty::TString)] });
    dep.insert_struct(StructDef { name: TastIdent::new("Dep::P"), generics: vec![], fields: vec![(TastIdent::new("z"), Ty::TBool), (TastIdent::new("x"), Ty::TString)] });
    let mut deps = HashMap::new();
    deps.insert(s("Dep"), dep);
    vec![Env::new("envM", genv.clone(), HashMap::new()), Env::new("envD", genv, deps)]
}

// ------------------------------------------------------------------------------------------------
// constraints

#[derive(Clone)]
enum C {
    Eq(Ty, Ty),
    Ovl { op: String, tr: String, cs: Ty },
    Field { e: Ty, f: String, r: Ty },
}

impl C {
    fn to_real(&self) -> Constraint {
        match self {
            C::Eq(x, y) => Constraint::TypeEqual(x.clone(), y.clone()),
            C::Ovl { op, tr, cs } => Constraint::Overloaded { op: TastIdent::new(op), trait_name: TastIdent::new(tr), call_site_type: cs.clone() },
            C::Field { e, f, r } => Constraint::StructFieldAccess { expr_ty: e.clone(), field: TastIdent::new(f), result_ty: r.clone() },
        }
    }
    fn types(&self) -> Vec<&Ty> {
        match self {
            C::Eq(x, y) => vec![x, y],
            C::Ovl { cs, .. } => vec![cs],
            C::Field { e, r, .. } => vec![e, r],
        }
    }
}

fn real_s(c: &Constraint) -> S {
    match c {
        Constraint::TypeEqual(x, y) => tagged("eq", vec![dump::ty(x), dump::ty(y)]),
        Constraint::Overloaded { op, trait_name, call_site_type } => tagged("ovl", vec![a(&op.0), a(&trait_name.0), dump::ty(call_site_type)]),
        Constraint::StructFieldAccess { expr_ty, field, result_ty } => tagged("field", vec![dump::ty(expr_ty), a(&field.0), dump::ty(result_ty)]),
    }
}

fn c_s(c: &C) -> S {
    real_s(&c.to_real())
}

fn script_s(env: &Env, nv: usize, cs: &[C]) -> S {
    tagged("script", vec![a(env.name), tagged("fresh", vec![n(nv)]), tagged("constraints", cs.iter().map(c_s).collect())])
}

// ------------------------------------------------------------------------------------------------
// generator

struct G {
    nv: usize,
    notes: Vec<String>,
    /// "happy" scripts only use scenarios that are meant to resolve without a diagnostic
    happy: bool,
}

impl G {
    fn new() -> G {
        G { nv: 0, notes: Vec::new(), happy: false }
    }
    /// a new variable (an existing one once all MAX_VARS are used)
    fn var(&mut self, rng: &mut Rng) -> Ty {
        if self.nv < MAX_VARS {
            self.nv += 1;
            tv(self.nv - 1)
        } else {
            self.notes.push(s("var_budget_reused"));
            tv(rng.below(self.nv))
        }
    }
    fn note(&mut self, x: &str) {
        self.notes.push(s(x));
    }
}

/// random interleaving of the groups; the order inside a group is kept
fn merge(rng: &mut Rng, groups: Vec<Vec<C>>) -> Vec<C> {
    let mut idx = vec![0usize; groups.len()];
    let mut out = Vec::new();
    loop {
        let total: usize = (0..groups.len()).map(|i| groups[i].len() - idx[i]).sum();
        if total == 0 {
            break;
        }
        let mut k = rng.below(total);
        for i in 0..groups.len() {
            let rem = groups[i].len() - idx[i];
            if k < rem {
                out.push(groups[i][idx[i]].clone());
                idx[i] += 1;
                break;
            }
            k -= rem;
        }
    }
    out
}

fn other_than(rng: &mut Rng, t: &Ty) -> Ty {
    for _ in 0..6 {
        let x = small_conc(rng);
        if x != *t {
            return x;
        }
    }
    Ty::TFloat64
}

/// one position of a call site, given the type the impl scheme has there
fn position(rng: &mut Rng, g: &mut G, exact: &Ty, agree: &mut bool) -> Ty {
    let roll = if g.happy { *rng.pick(&[0usize, 0, 0, 60, 60, 95]) } else { rng.below(100) };
    match roll {
        0..=49 => exact.clone(),
        50..=72 => g.var(rng),
        73..=89 => {
            *agree = false;
            other_than(rng, exact)
        }
        _ => {
            if g.nv > 0 && U::node_count(exact) > 1 {
                U::abstract_vars(rng, exact, g.nv, None)
            } else {
                exact.clone()
            }
        }
    }
}

/// call-site type for an impl scheme: `self_cs` in the first position, the other positions per `position`
fn callsite(rng: &mut Rng, g: &mut G, sch: &Ty, self_cs: Ty, exact_only: bool) -> (Ty, Ty) {
    let (ps, ret) = match sch {
        Ty::TFunc { params, ret_ty } => (params.clone(), (**ret_ty).clone()),
        other => (vec![], other.clone()),
    };
    let mut names = Vec::new();
    tparams_of(sch, &mut names);
    let sub: BTreeMap<String, Ty> = names.into_iter().map(|k| (k, small_conc(rng))).collect();
    let mut agree = true;
    let mut out = vec![self_cs];
    for p in ps.iter().skip(1) {
        let e = subst_params(p, &sub);
        out.push(if exact_only { e } else { position(rng, g, &e, &mut agree) });
    }
    let r_exact = subst_params(&ret, &sub);
    let r = if exact_only { r_exact.clone() } else { position(rng, g, &r_exact, &mut agree) };
    if !exact_only && !g.happy && rng.chance(7, 100) {
        agree = false;
        if out.len() > 1 && rng.chance(1, 2) {
            out.pop();
        } else {
            out.push(small_conc(rng));
        }
        g.note("ovl_callsite_arity_changed");
    }
    if !exact_only {
        g.note(if agree { "ovl_callsite_agrees_or_vars" } else { "ovl_callsite_disagrees" });
    }
    (func(out, r), r_exact)
}

/// concrete self types for which (trait, method) has no impl
fn no_impl_self(rng: &mut Rng, env: &Env, tr: &str, m: &str) -> Ty {
    for _ in 0..10 {
        let t = match rng.below(8) {
            0 => Ty::TFloat64,
            1 => bx(Ty::TString),
            2 => tup(vec![Ty::TInt32, Ty::TInt32]),
            3 => vecof(st("P")),
            4 => en("Col"),
            5 => pr(Ty::TString, Ty::TInt32),
            6 => func(vec![Ty::TInt32], Ty::TInt32),
            _ => app(en("Opt"), vec![Ty::TInt32]),
        };
        if env.count(tr, &t, m) == 0 {
            return t;
        }
    }
    Ty::TUint8
}

const OVL_SCEN: [&str; 17] = [
    "one_impl", "one_impl", "one_impl", "no_impl", "tparam_self", "var_earlier", "var_earlier", "var_later", "var_later", "var_never", "nonconcrete_self", "zero_params",
    "non_function", "var_callsite", "multi", "bad_name", "qualified_trait",
];

/// one Overloaded constraint with the eqs its scenario needs (in queue order)
const OVL_SCEN_HAPPY: [&str; 9] = ["one_impl", "one_impl", "one_impl", "var_earlier", "var_earlier", "var_later", "var_later", "tparam_self", "qualified_trait"];

fn ovl_group(rng: &mut Rng, g: &mut G, env: &Env) -> Vec<C> {
    let mut scen = if g.happy { *rng.pick(&OVL_SCEN_HAPPY) } else { *rng.pick(&OVL_SCEN) };
    if scen == "multi" && env.multi_rows().is_empty() {
        scen = "one_impl";
    }
    g.note(&format!("ovl_{}", scen));
    let uniq = env.unique_rows();
    let row = *rng.pick(&uniq);
    let (mut tr, mut op) = (row.tr.clone(), row.method.clone());
    match scen {
        "one_impl" => {
            if tparams_of_vec(&row.scheme) {
                g.note("ovl_scheme_with_tparams");
            }
            let (cs, _) = callsite(rng, g, &row.scheme, row.self_ty.clone(), false);
            vec![C::Ovl { op, tr, cs }]
        }
        "no_impl" => {
            let t = no_impl_self(rng, env, &tr, &op);
            let (cs, _) = callsite(rng, g, &row.scheme, t, false);
            vec![C::Ovl { op, tr, cs }]
        }
        "tparam_self" => {
            // (Gen, T) has an impl; any other (trait, parameter) has none
            if g.happy || rng.chance(1, 2) {
                let (cs, _) = callsite(rng, g, &func(vec![tp("T"), tp("T")], tp("T")), tp("T"), false);
                vec![C::Ovl { op: s("idp"), tr: s("Gen"), cs }]
            } else {
                let name = *rng.pick(&["T", "U"]);
                let (cs, _) = callsite(rng, g, &row.scheme, tp(name), false);
                vec![C::Ovl { op, tr, cs }]
            }
        }
        "var_earlier" | "var_later" | "var_never" => {
            let v = g.var(rng);
            // what the variable is bound to: mostly the type that has the impl
            let bound = match if g.happy { 9 } else { rng.below(10) } {
                0 | 1 => no_impl_self(rng, env, &tr, &op),
                2 => vecof(g.var(rng)), // bound, but to a non-concrete type
                _ => row.self_ty.clone(),
            };
            let (cs, _) = callsite(rng, g, &row.scheme, v.clone(), false);
            let o = C::Ovl { op, tr, cs };
            let e = if rng.chance(1, 2) { C::Eq(v, bound) } else { C::Eq(bound, v) };
            match scen {
                "var_earlier" => vec![e, o],
                "var_later" => vec![o, e],
                _ => vec![o],
            }
        }
        "nonconcrete_self" => {
            let v = g.var(rng);
            let t = match rng.below(4) {
                0 => vecof(v),
                1 => tup(vec![v, Ty::TInt32]),
                2 => bx(v),
                _ => app(v, vec![Ty::TInt32]),
            };
            let (cs, _) = callsite(rng, g, &row.scheme, t, false);
            vec![C::Ovl { op, tr, cs }]
        }
        "zero_params" => {
            let r = if rng.chance(1, 2) { g.var(rng) } else { small_conc(rng) };
            vec![C::Ovl { op, tr, cs: func(vec![], r) }]
        }
        "non_function" => {
            let t = match rng.below(4) {
                0 => Ty::TInt32,
                1 => tup(vec![row.self_ty.clone(), Ty::TString]),
                2 => row.self_ty.clone(),
                _ => vecof(func(vec![row.self_ty.clone()], Ty::TString)),
            };
            vec![C::Ovl { op, tr, cs: t }]
        }
        "var_callsite" => {
            // a variable as the call-site type: unbound, bound to a function type earlier, or only later
            let v = g.var(rng);
            let (cs, _) = callsite(rng, g, &row.scheme, row.self_ty.clone(), false);
            let o = C::Ovl { op, tr, cs: v.clone() };
            match rng.below(4) {
                0 => vec![o],
                1 | 2 => vec![C::Eq(v, cs), o],
                _ => vec![o, C::Eq(v, cs)],
            }
        }
        "multi" => {
            let m = env.multi_rows();
            let r2 = *rng.pick(&m);
            let (cs, _) = callsite(rng, g, &r2.scheme, r2.self_ty.clone(), false);
            vec![C::Ovl { op: r2.method.clone(), tr: r2.tr.clone(), cs }]
        }
        "bad_name" => {
            if rng.chance(1, 2) {
                op = s(*rng.pick(&["shw", "show2", "add"]));
            } else {
                tr = s(*rng.pick(&["Shw", "Display", "Gen2"]));
            }
            let (cs, _) = callsite(rng, g, &row.scheme, row.self_ty.clone(), false);
            vec![C::Ovl { op, tr, cs }]
        }
        _ => {
            // "Main::T" / "Builtin::T" name the trait T of the current package; "Dep::T" stays as it is (no such row)
            let q = if g.happy { *rng.pick(&["Main", "Builtin"]) } else { *rng.pick(&["Main", "Main", "Builtin", "Dep", "Nope", "Self"]) };
            g.note(&format!("ovl_qualified_{}", q));
            let (cs, _) = callsite(rng, g, &row.scheme, row.self_ty.clone(), false);
            vec![C::Ovl { op, tr: if q == "Self" { s("Self") } else { format!("{}::{}", q, tr) }, cs }]
        }
    }
}

fn tparams_of_vec(t: &Ty) -> bool {
    let mut v = Vec::new();
    tparams_of(t, &mut v);
    !v.is_empty()
}

const FIELD_SCEN: [&str; 21] = [
    "P", "bx_int", "bx_var", "pr_str_var", "arity_more", "arity_less", "nested_app", "nested_app", "unknown_struct", "enum", "var_earlier", "var_earlier",
    "var_later", "var_later", "var_never", "non_struct", "var_head", "qualified_name", "pr_fn_field", "qualified_name", "qualified_name",
];

/// one StructFieldAccess constraint with the eqs its scenario needs (in queue order)
const FIELD_SCEN_HAPPY: [&str; 12] =
    ["P", "bx_int", "bx_var", "pr_str_var", "nested_app", "var_earlier", "var_earlier", "var_later", "var_later", "var_head", "pr_fn_field", "qualified_name"];

fn field_group(rng: &mut Rng, g: &mut G, env: &Env) -> Vec<C> {
    let happy = g.happy;
    let scen = if happy { *rng.pick(&FIELD_SCEN_HAPPY) } else { *rng.pick(&FIELD_SCEN) };
    g.note(&format!("field_{}", scen));
    let mut pre: Vec<C> = Vec::new();
    let mut post: Vec<C> = Vec::new();
    // `known`: the struct type the expression has (or will have) as far as the generator knows
    let some_struct = |rng: &mut Rng, g: &mut G| -> Ty {
        match rng.below(if happy { 6 } else { 8 }) {
            0 | 1 => st("P"),
            2 => bx(small_conc(rng)),
            3 => bx(g.var(rng)),
            4 => pr(small_conc(rng), Ty::TString),
            5 => pr(st("P"), bx(Ty::TInt32)),
            6 => app(st("Dep::Q"), vec![small_conc(rng)]),
            _ => st(*rng.pick(&["Dep::P", "Main::P"])),
        }
    };
    let (e, known): (Ty, Option<Ty>) = match scen {
        "P" => (st("P"), Some(st("P"))),
        "bx_int" => (bx(Ty::TInt32), Some(bx(Ty::TInt32))),
        "bx_var" => {
            let t = bx(g.var(rng));
            (t.clone(), Some(t))
        }
        "pr_str_var" => {
            let t = pr(Ty::TString, g.var(rng));
            (t.clone(), Some(t))
        }
        "pr_fn_field" => {
            let t = pr(small_conc(rng), if rng.chance(1, 2) { g.var(rng) } else { Ty::TBool });
            (t.clone(), Some(t))
        }
        "arity_more" => (if rng.chance(1, 2) { app(st("Bx"), vec![Ty::TInt32, Ty::TBool]) } else { app(st("P"), vec![Ty::TInt32]) }, None),
        "arity_less" => (if rng.chance(1, 2) { st("Bx") } else { app(st("Pr"), vec![Ty::TInt32]) }, None),
        "nested_app" => {
            let (x, y) = (small_conc(rng), if rng.chance(1, 3) { g.var(rng) } else { small_conc(rng) });
            match rng.below(if happy { 3 } else { 4 }) {
                0 | 1 => (app(app(st("Pr"), vec![x.clone()]), vec![y.clone()]), Some(pr(x, y))),
                2 => (app(app(st("Pr"), vec![x.clone(), y.clone()]), vec![]), Some(pr(x, y))),
                _ => (app(app(st("Bx"), vec![x]), vec![y]), None), // two arguments in all: arity
            }
        }
        "unknown_struct" => (if rng.chance(1, 2) { st("Qq") } else { app(st("Point_2"), vec![Ty::TInt32]) }, None),
        "enum" => (if rng.chance(1, 2) { en("Col") } else { app(en("Opt"), vec![Ty::TInt32]) }, None),
        "var_earlier" | "var_later" | "var_never" => {
            let v = g.var(rng);
            let (bound, known) = match if happy { 9 } else { rng.below(10) } {
                0 => (Ty::TInt32, None),
                1 => (st("Qq"), None),
                2 => (en("Col"), None),
                _ => {
                    let t = some_struct(rng, g);
                    (t.clone(), Some(t))
                }
            };
            let eq = if rng.chance(1, 2) { C::Eq(v.clone(), bound) } else { C::Eq(bound, v.clone()) };
            match scen {
                "var_earlier" => pre.push(eq),
                "var_later" => post.push(eq),
                _ => {}
            }
            (v, if scen == "var_never" { None } else { known })
        }
        "non_struct" => (
            match rng.below(4) {
                0 => Ty::TInt32,
                1 => tup(vec![st("P"), Ty::TInt32]),
                2 => vecof(st("P")),
                _ => tp("T"),
            },
            None,
        ),
        "var_head" => {
            // `(app ?h int32)`: no struct at the head until ?h is bound
            let h = g.var(rng);
            let e = app(h.clone(), vec![Ty::TInt32]);
            match if happy { 1 + rng.below(2) } else { rng.below(3) } {
                0 => {}
                1 => post.push(C::Eq(h, st("Bx"))),
                _ => pre.push(C::Eq(h, st("Bx"))),
            }
            (e, Some(bx(Ty::TInt32)))
        }
        _ => {
            // the generator-side lookup (`Env::struct_def`) follows the same name resolution, so `known` is the type itself
            let e = match rng.below(if happy { 4 } else { 14 }) {
                0 => st("Main::P"),
                1 => app(st("Builtin::Bx"), vec![Ty::TString]),
                2 => app(st("Main::Pr"), vec![Ty::TInt32, Ty::TBool]),
                3 => st("Builtin::P"),
                4 | 5 => app(st("Dep::Q"), vec![small_conc(rng)]), // the dependency's struct (unknown without the dependency)
                6 => app(st("Dep::Q"), vec![g.var(rng)]),
                7 => st("Dep::Q"),      // arity (with the dependency)
                8 => st("Dep::P"),      // not the P of the current package
                9 => st("Dep::Zz"),     // not in the dependency's table
                10 => app(st("Dep::Bx"), vec![Ty::TString]), // Bx is a struct of the current package only
                11 => st("Self"),
                12 => st("Nope::P"),    // no such package: looked up as it is in the current package
                _ => st("Main::Dep::Q"),
            };
            let nm = struct_parts(&e).map(|(k, _)| k).unwrap_or_default();
            g.note(&format!("field_qualified_{}", nm.replace("::", ".")));
            g.note(if env.struct_def(&nm).is_some() { "field_qualified_found" } else { "field_qualified_not_found" });
            (e.clone(), Some(e))
        }
    };
    // the field
    let names = known.as_ref().map(|k| env.field_names(k)).unwrap_or_default();
    let f = match if happy { *rng.pick(&[0usize, 10, 10, 10, 10, 10]) } else { rng.below(20) } {
        0..=2 => s("completion_placeholder"),
        3..=5 => s(*rng.pick(&["zz", "w", "X"])),
        _ => {
            if scen == "pr_fn_field" {
                s("f")
            } else if names.is_empty() {
                s(*rng.pick(&["x", "v", "a"]))
            } else {
                rng.pick(&names).clone()
            }
        }
    };
    g.note(if f == "completion_placeholder" {
        "field_name_placeholder"
    } else if names.contains(&f) {
        "field_name_existing"
    } else {
        "field_name_missing_or_unknown_struct"
    });
    // the result type
    let exact = known.as_ref().and_then(|k| env.field_ty(k, &f)).or_else(|| if f == "completion_placeholder" { Some(Ty::TUnit) } else { None });
    let r = match (if happy { *rng.pick(&[0usize, 0, 0, 10, 10, 19]) } else { rng.below(20) }, &exact) {
        (0..=9, _) | (_, None) => {
            g.note("field_result_var");
            g.var(rng)
        }
        (10..=13, Some(x)) => {
            g.note("field_result_exact");
            x.clone()
        }
        (14..=16, Some(x)) => {
            g.note("field_result_mismatch");
            other_than(rng, x)
        }
        (_, Some(x)) => {
            // a variable that an earlier eq has bound (to the field type or to something else)
            g.note("field_result_bound_var");
            let v = g.var(rng);
            let t = if happy || rng.chance(2, 3) { x.clone() } else { other_than(rng, x) };
            pre.push(C::Eq(v.clone(), t));
            v
        }
    };
    let mut out = pre;
    out.push(C::Field { e, f, r });
    out.extend(post);
    out
}

/// an eq constraint over the environment's vocabulary (sometimes failing)
fn filler_eq(rng: &mut Rng, g: &mut G) -> C {
    if g.happy {
        let v = g.var(rng);
        let t = env_ty(rng, 2, 0, 0);
        return if rng.chance(1, 2) { C::Eq(v, t) } else { C::Eq(t, v) };
    }
    if g.nv == 0 {
        g.var(rng);
    }
    match rng.below(5) {
        0 | 1 => {
            let t = env_ty(rng, 2, g.nv, 20);
            let v = tv(rng.below(g.nv));
            if rng.chance(1, 2) { C::Eq(v, t) } else { C::Eq(t, v) }
        }
        2 => C::Eq(tv(rng.below(g.nv)), tv(rng.below(g.nv))),
        3 => {
            let t = env_ty(rng, 3, g.nv, 25);
            let m = U::abstract_vars(rng, &t, g.nv, None);
            C::Eq(t, m)
        }
        _ => {
            let t = env_ty(rng, 2, g.nv, 25);
            let m = U::mutate_n(rng, &t, g.nv, None, 1);
            C::Eq(t, m)
        }
    }
}

/// family a: the eq constraints of a `gv unify` script (knots, nested, targeted mismatches, random)
fn gen_eqs(rng: &mut Rng, g: &mut G) -> Vec<C> {
    let (nm, ug) = match rng.below(4) {
        0 => ("knot", U::gen_alias_knot(rng)),
        1 => ("nested", U::gen_nested(rng)),
        2 => {
            let w = rng.below(U::N_MISMATCH);
            ("mismatch", U::gen_mismatch(rng, w))
        }
        _ => ("random", U::gen_random(rng)),
    };
    g.note(&format!("eqs_from_{}", nm));
    g.nv = ug.nv.min(MAX_VARS);
    ug.steps
        .iter()
        .filter_map(|st| match st {
            U::Step::Unify(x, y) => Some(C::Eq(x.clone(), y.clone())),
            _ => None,
        })
        .take(MAX_CS)
        .collect()
}

fn gen_ovl(rng: &mut Rng, g: &mut G, env: &Env) -> Vec<C> {
    let k = 1 + rng.below(3);
    let mut groups: Vec<Vec<C>> = (0..k).map(|_| ovl_group(rng, g, env)).collect();
    for _ in 0..rng.below(3) {
        groups.push(vec![filler_eq(rng, g)]);
    }
    merge(rng, groups)
}

fn gen_field(rng: &mut Rng, g: &mut G, env: &Env) -> Vec<C> {
    let k = 1 + rng.below(3);
    let mut groups: Vec<Vec<C>> = (0..k).map(|_| field_group(rng, g, env)).collect();
    for _ in 0..rng.below(3) {
        groups.push(vec![filler_eq(rng, g)]);
    }
    merge(rng, groups)
}

/// family d: a seed eq and 2..4 links, each consuming the variable the previous one binds
fn chain(rng: &mut Rng, g: &mut G, env: &Env, max_links: usize) -> Vec<C> {
    let seeds = [
        st("P"),
        st("P"),
        bx(Ty::TInt32),
        bx(st("P")),
        pr(st("P"), bx(Ty::TInt32)),
        pr(bx(Ty::TInt32), Ty::TString),
        pr(Ty::TInt32, st("P")),
        Ty::TInt32,
        Ty::TString,
    ];
    let seed = rng.pick(&seeds).clone();
    let v0 = g.var(rng);
    let mut cur_v = v0.clone();
    let mut cur_t = seed.clone();
    let mut links: Vec<C> = Vec::new();
    let want = 2 + rng.below(max_links.saturating_sub(1).max(1));
    let uniq = env.unique_rows();
    for _ in 0..want {
        let fields = env.field_names(&cur_t);
        let rows: Vec<&&ImplRow> = uniq.iter().filter(|r| r.self_ty == cur_t).collect();
        let use_field = !fields.is_empty() && (rows.is_empty() || rng.chance(1, 2));
        if use_field {
            let f = rng.pick(&fields).clone();
            let Some(ft) = env.field_ty(&cur_t, &f) else { break };
            let out = g.var(rng);
            links.push(C::Field { e: cur_v.clone(), f, r: out.clone() });
            g.note("chain_link_field");
            cur_v = out;
            cur_t = ft;
        } else if !rows.is_empty() {
            let row = **rng.pick(&rows);
            let exact_only = rng.chance(3, 4);
            let (cs, r_exact) = callsite(rng, g, &row.scheme, cur_v.clone(), exact_only);
            // the result position is the variable the next link waits for
            let out = g.var(rng);
            let cs = match cs {
                Ty::TFunc { params, .. } => func(params, out.clone()),
                other => other,
            };
            links.push(C::Ovl { op: row.method.clone(), tr: row.tr.clone(), cs });
            g.note("chain_link_ovl");
            if tparams_of_vec(&row.scheme) {
                g.note("chain_link_ovl_scheme_with_tparams");
            }
            cur_v = out;
            cur_t = r_exact;
        } else {
            // dead end: a link that can never be resolved (or resolves to no-instance)
            let out = g.var(rng);
            if rng.chance(1, 2) {
                links.push(C::Field { e: cur_v.clone(), f: s("x"), r: out.clone() });
            } else {
                links.push(C::Ovl { op: s("show"), tr: s("Show"), cs: func(vec![cur_v.clone()], out.clone()) });
            }
            g.note("chain_link_dead_end");
            break;
        }
    }
    g.note(&format!("chain_links_{}", links.len()));
    let mut cs: Vec<C> = Vec::new();
    let seeded = g.happy || !rng.chance(1, 5);
    if seeded {
        cs.push(if rng.chance(1, 2) { C::Eq(v0, seed) } else { C::Eq(seed, v0) });
    } else {
        g.note("chain_without_seed_nothing_unblocks");
    }
    cs.extend(links);
    match rng.below(10) {
        0..=2 => {
            g.note("chain_terminal_agrees");
            cs.push(C::Eq(cur_v, cur_t));
        }
        3 | 4 if !g.happy => {
            g.note("chain_terminal_mismatch");
            let o = other_than(rng, &cur_t);
            cs.push(C::Eq(cur_v, o));
        }
        _ => {}
    }
    match rng.below(10) {
        0..=3 => {
            g.note("chain_order_reversed");
            cs.reverse();
        }
        4..=7 => {
            g.note("chain_order_shuffled");
            U::shuffle(rng, &mut cs);
        }
        _ => g.note("chain_order_forward"),
    }
    cs
}

fn gen_chain(rng: &mut Rng, g: &mut G, env: &Env) -> Vec<C> {
    let mut cs = chain(rng, g, env, 4);
    // sometimes a second, unrelated deferred constraint that nothing ever unblocks
    if cs.len() < MAX_CS && !g.happy && rng.chance(1, 5) {
        let v = g.var(rng);
        let w = g.var(rng);
        let c = if rng.chance(1, 2) { C::Field { e: v, f: s("x"), r: w } } else { C::Ovl { op: s("show"), tr: s("Show"), cs: func(vec![v], w) } };
        let at = rng.below(cs.len() + 1);
        cs.insert(at, c);
        g.note("chain_plus_stuck_constraint");
    }
    cs
}

fn gen_mixed(rng: &mut Rng, g: &mut G, env: &Env) -> Vec<C> {
    g.var(rng);
    let k = 2 + rng.below(3);
    let mut groups: Vec<Vec<C>> = Vec::new();
    for _ in 0..k {
        match rng.below(10) {
            0..=2 => groups.push(vec![filler_eq(rng, g)]),
            3..=5 => groups.push(ovl_group(rng, g, env)),
            6..=8 => groups.push(field_group(rng, g, env)),
            _ => groups.push(chain(rng, g, env, 2)),
        }
    }
    let mut cs = merge(rng, groups);
    if rng.chance(3, 10) {
        g.note("random_fully_shuffled");
        U::shuffle(rng, &mut cs);
    }
    // link the groups: a variable of one constraint reused in another
    if g.nv >= 2 && !g.happy && rng.chance(1, 2) && cs.len() < MAX_CS {
        let (x, y) = (rng.below(g.nv), rng.below(g.nv));
        let at = rng.below(cs.len() + 1);
        cs.insert(at, C::Eq(tv(x), tv(y)));
        g.note("random_alias_eq_inserted");
    }
    cs
}

// ------------------------------------------------------------------------------------------------
// execution on the real typer

fn classify(msg: &str) -> &'static str {
    let c = U::classify(msg);
    if c != "other" {
        return c;
    }
    const HEAD: [(&str, &str); 7] = [
        ("No instance found for trait", "no-instance"),
        ("Multiple instances found", "multiple-instances"),
        ("Overload resolution failed for non-concrete", "overload-non-concrete"),
        ("Overloaded operator", "overload-no-args"),
        ("Overloaded constraint does not involve", "overload-not-func"),
        ("Could not solve all constraints", "unsolved"),
        ("Type inference failed", "inference-failed"),
    ];
    for (p, c) in HEAD.iter() {
        if msg.starts_with(p) {
            return c;
        }
    }
    if msg.starts_with("Struct ") {
        if msg.contains("not found when accessing field") {
            return "struct-not-found";
        }
        if msg.contains("type arguments, but got") {
            return "struct-arity";
        }
        if msg.contains(" has no field ") {
            return "no-field";
        }
    }
    "other"
}

fn new_typer(nv: usize) -> Typer {
    let mut typer = Typer::new(compiler::hir::HirTable::new(compiler::hir::PackageId(0)));
    for i in 0..nv {
        let t = typer.verif_fresh();
        let idx = match &t {
            Ty::TVar(v) => Typer::verif_tvar_index(*v) as usize,
            _ => usize::MAX,
        };
        if idx != i {
            eprintln!("gv solve: verif_fresh returned index {} for variable number {}", idx, i);
            std::process::exit(3);
        }
    }
    typer
}

/// coverage only: how many Overloaded / StructFieldAccess constraints the FIRST pass of `solve` defers.  The eqs and
/// the field constraints met on the way are applied to a scratch real `Typer` (a resolved Overloaded only queues an eq,
/// which has no effect inside the pass)
fn deferred_in_first_pass(env: &Env, nv: usize, cs: &[C]) -> usize {
    catch_unwind(AssertUnwindSafe(|| {
        let mut typer = new_typer(nv);
        let mut d = Diagnostics::new();
        let mut deferred = 0usize;
        for c in cs {
            match c {
                C::Eq(x, y) => {
                    typer.verif_unify(&mut d, x, y);
                }
                C::Ovl { cs, .. } => {
                    if let Ty::TFunc { params, .. } = typer.verif_norm(cs) {
                        if let Some(Ty::TVar(_)) = params.first() {
                            deferred += 1;
                        }
                    }
                }
                C::Field { e, f, r } => {
                    let ne = typer.verif_norm(e);
                    match struct_parts(&ne) {
                        None => deferred += 1,
                        Some(_) => {
                            if let Some(ft) = env.field_ty(&ne, f) {
                                typer.verif_unify(&mut d, r, &ft);
                            } else if f == "completion_placeholder" && env.arity_ok(&ne) {
                                typer.verif_unify(&mut d, r, &Ty::TUnit);
                            }
                        }
                    }
                }
            }
        }
        deferred
    }))
    .unwrap_or(0)
}

enum Run {
    Done(S),
    Oversize,
}

#[derive(Default)]
struct Obs {
    classes: Vec<&'static str>,
    rest: Vec<&'static str>,
    nvars: usize,
    unbound_at_end: usize,
    cyclic: bool,
    panicked: bool,
}

fn run_script(env: &Env, nv: usize, cs: &[C], obs: &mut Obs) -> Run {
    let mut oversize = false;
    let mut result: Option<S> = None;
    let r = catch_unwind(AssertUnwindSafe(|| {
        let mut typer = new_typer(nv);
        for c in cs {
            typer.verif_push_constraint(c.to_real());
        }
        let mut diags = Diagnostics::new();
        typer.solve(&env.penv, &mut diags);
        let classes: Vec<&'static str> = diags.iter().map(|d| classify(d.message())).collect();
        let diag_s = tagged("diags", classes.iter().map(|c| a(*c)).collect());
        obs.classes = classes;
        let rest: Vec<S> = typer.verif_constraints().iter().map(real_s).collect();
        obs.rest = typer
            .verif_constraints()
            .iter()
            .map(|c| match c {
                Constraint::TypeEqual(..) => "eq",
                Constraint::Overloaded { .. } => "ovl",
                Constraint::StructFieldAccess { .. } => "field",
            })
            .collect();
        let nvars = typer.verif_var_count() as usize;
        obs.nvars = nvars;
        // cycle detection over ALL keys of the real store BEFORE any real norm
        if let Some(v) = U::find_cycle(&mut typer, nvars) {
            obs.cyclic = true;
            result = Some(tagged("result", vec![diag_s, tagged("cyclic", vec![n(v)])]));
            return;
        }
        let mut memo = BTreeMap::new();
        let mut biggest = 0u64;
        for i in 0..nvars {
            biggest = biggest.max(U::norm_size(&mut typer, &tv(i), &mut memo));
        }
        if biggest > SIZE_CAP {
            oversize = true;
            return;
        }
        let mut vars: Vec<S> = Vec::new();
        for i in 0..nvars {
            let t = typer.verif_norm(&tv(i));
            if let Ty::TVar(_) = t {
                obs.unbound_at_end += 1;
            }
            vars.push(dump::ty(&t));
        }
        result = Some(tagged("result", vec![diag_s, tagged("rest", rest), tagged("nvars", vec![n(nvars)]), tagged("vars", vars)]));
    }));
    if oversize {
        return Run::Oversize;
    }
    if r.is_err() {
        obs.panicked = true;
        return Run::Done(tagged("result", vec![tagged("panic", vec![])]));
    }
    Run::Done(result.unwrap_or_else(|| tagged("result", vec![tagged("panic", vec![])])))
}

pub fn main(args: &util::Args) {
    util::quiet_panics();
    let short_n = args.rest.iter().position(|x| x == "-n").and_then(|i| args.rest.get(i + 1)).and_then(|x| x.parse::<usize>().ok());
    let total = args.n.or(short_n).unwrap_or(if args.tier == "thorough" { 30000 } else { 3000 });
    // `--skip i,j,…`: script indices not to run (they killed the process in an earlier run: a stack overflow inside the
    // real `solve` cannot be caught in-process).  Before a script runs, its index, id and text go to `<out>/solve.progress`.
    let skip: Vec<usize> = args.rest.iter().position(|x| x == "--skip").and_then(|i| args.rest.get(i + 1))
        .map(|s| s.split(',').filter_map(|x| x.parse().ok()).collect()).unwrap_or_default();
    let _ = std::fs::create_dir_all(&args.out);
    let progress = args.out.join("solve.progress");
    // one handle, rewritten in place (creating the file anew for every script costs milliseconds on a busy disk)
    let mut progress_file = std::fs::File::create(&progress).ok();
    let envs = build_envs();
    let mut out = String::new();
    let mut cov = Cov::default();
    for e in &envs {
        out.push_str(&format!("#ENV\t{}\t{}\n", e.name, e.dump().to_text()));
        cov.add(&format!("env_{}_impl_rows", e.name), e.rows.len() as u64);
        cov.add(&format!("env_{}_structs", e.name), e.penv.current().structs().len() as u64);
        cov.add(&format!("env_{}_dep_structs", e.name), e.penv.deps.values().map(|d| d.structs().len() as u64).sum());
    }
    for i in 0..total {
        if skip.contains(&i) {
            cov.inc("scripts_skipped_on_request");
            continue;
        }
        let mut attempt = 0u64;
        loop {
            let mut root = Rng::new(args.seed ^ 0x501e);
            let mut rng = root.fork(((i as u64) << 8) | attempt);
            // families in fixed proportion: eqs 15%, ovl 25%, field 25%, chain 20%, random 15%
            let sel = i % 20;
            let env = &envs[if rng.chance(2, 5) { 1 } else { 0 }];
            let mut g = G::new();
            g.happy = rng.chance(35, 100);
            let (fam, mut cs) = if sel < 3 {
                ("eqs", gen_eqs(&mut rng, &mut g))
            } else if sel < 8 {
                ("ovl", gen_ovl(&mut rng, &mut g, env))
            } else if sel < 13 {
                ("field", gen_field(&mut rng, &mut g, env))
            } else if sel < 17 {
                ("chain", gen_chain(&mut rng, &mut g, env))
            } else {
                ("random", gen_mixed(&mut rng, &mut g, env))
            };
            if cs.len() > MAX_CS {
                cs.truncate(MAX_CS);
                g.note("queue_truncated");
            }
            // variables the constraints mention must exist
            let mut vs = Vec::new();
            for c in &cs {
                for t in c.types() {
                    U::vars_of(t, &mut vs);
                }
            }
            let used = vs.iter().map(|v| *v as usize + 1).max().unwrap_or(0);
            let nv = g.nv.max(used);
            let too_deep = cs.iter().any(|c| c.types().iter().any(|t| U::depth_of(t) > MAX_DEPTH));
            if nv > MAX_VARS || too_deep || cs.is_empty() {
                cov.inc(if too_deep { "discarded_too_deep" } else { "discarded_budget" });
                attempt += 1;
                if attempt < 200 {
                    continue;
                }
                break;
            }
            let id = format!("sol:{}:{}:{}", fam, args.seed, i);
            let script = script_s(env, nv, &cs).to_text();
            if let Some(f) = progress_file.as_mut() {
                use std::io::{Seek, SeekFrom, Write};
                let line = format!("{}\t{}\t{}\n", i, id, script);
                let _ = f.seek(SeekFrom::Start(0));
                let _ = f.write_all(line.as_bytes());
                let _ = f.set_len(line.len() as u64);
            }
            let mut obs = Obs::default();
            match run_script(env, nv, &cs, &mut obs) {
                Run::Oversize => {
                    cov.inc("discarded_oversize");
                    attempt += 1;
                    if attempt < 200 {
                        continue;
                    }
                    break;
                }
                Run::Done(result) => {
                    out.push_str(&format!("{}\tSOLVE\t{}\t{}\n", id, script, result.to_text()));
                    // ---- coverage
                    cov.inc("scripts");
                    cov.inc(&format!("scripts_{}", fam));
                    cov.inc(&format!("scripts_{}", env.name));
                    if fam != "eqs" {
                        cov.inc(if g.happy { "scripts_mood_happy" } else { "scripts_mood_any" });
                        if g.happy && obs.classes.is_empty() {
                            cov.inc("scripts_mood_happy_without_diagnostic");
                        }
                    }
                    cov.add("constraints", cs.len() as u64);
                    cov.max("max_constraints", cs.len() as u64);
                    cov.max("max_vars", nv as u64);
                    cov.max("max_nvars_after_solve", obs.nvars as u64);
                    let mut kinds = [0usize; 3];
                    for c in &cs {
                        let k = match c {
                            C::Eq(..) => 0,
                            C::Ovl { .. } => 1,
                            C::Field { .. } => 2,
                        };
                        kinds[k] += 1;
                        cov.inc(["ckind_eq", "ckind_ovl", "ckind_field"][k]);
                        for t in c.types() {
                            cov.max("max_type_depth", U::depth_of(t) as u64);
                        }
                    }
                    if kinds.iter().filter(|k| **k > 0).count() == 3 {
                        cov.inc("scripts_with_all_three_kinds");
                    }
                    if obs.panicked {
                        cov.inc("panics");
                    }
                    if obs.cyclic {
                        cov.inc("cyclic_store");
                    }
                    if obs.classes.is_empty() {
                        cov.inc("scripts_without_diagnostic");
                        cov.inc(&format!("{}_without_diagnostic", fam));
                    }
                    cov.max("max_diags", obs.classes.len() as u64);
                    let mut seen: Vec<&str> = Vec::new();
                    for c in &obs.classes {
                        cov.inc(&format!("diag_{}", c));
                        if !seen.contains(c) {
                            seen.push(c);
                            cov.inc(&format!("scripts_with_diag_{}", c));
                        }
                    }
                    // a unify-class diagnostic that follows a resolved Overloaded is the generated eq failing one pass later
                    if !obs.rest.is_empty() {
                        cov.inc("scripts_rest_nonempty");
                        cov.inc(&format!("{}_rest_nonempty", fam));
                        cov.max("max_rest", obs.rest.len() as u64);
                    }
                    for k in &obs.rest {
                        cov.inc(&format!("rest_{}", k));
                    }
                    if obs.nvars > nv {
                        cov.inc("scripts_inst_ty_made_fresh_vars");
                        cov.add("inst_ty_fresh_vars", (obs.nvars - nv) as u64);
                    }
                    if obs.unbound_at_end > 0 {
                        cov.inc("scripts_with_unbound_var_at_end");
                    }
                    let d1 = deferred_in_first_pass(env, nv, &cs);
                    cov.add("deferred_in_first_pass", d1 as u64);
                    if d1 > 0 {
                        cov.inc("scripts_with_deferral_in_first_pass");
                    }
                    if !obs.cyclic && !obs.panicked && d1 > obs.rest.len() {
                        cov.inc("scripts_deferred_then_unblocked_by_later_constraint");
                        cov.inc(&format!("{}_deferred_then_unblocked", fam));
                        cov.add("constraints_deferred_then_unblocked", (d1 - obs.rest.len()) as u64);
                    }
                    for note in &g.notes {
                        cov.inc(note);
                    }
                    break;
                }
            }
        }
    }
    let covrow: Vec<String> = cov.m.iter().map(|(k, v)| format!("{}={}", k, v)).collect();
    out.push_str(&format!("#COV\t{}\n", covrow.join(";")));
    std::fs::write(args.out.join("solve.cases.tsv"), out).unwrap();
    drop(progress_file);
    let _ = std::fs::remove_file(&progress);
}
