//! `gv unify`: scripts of `fresh` / `unify` / `norm` steps run on a fresh REAL `Typer` through the
//! `#[cfg(goml_verif)]` hook of `typer/unify.rs`; one TSV row per script
//!     <id> TAB UNI TAB (script <step>*) TAB (result <r>*)
//! plus one `#COV` row with the distribution of what was generated / observed.
//! Every random choice derives from `--seed`.
use crate::dump;
use crate::rng::Rng;
use crate::sexp::{S, a, n, tagged};
use crate::util;
use compiler::tast::{self, Ty};
use compiler::typer::Typer;
use parser::Diagnostics;
use std::collections::BTreeMap;
use std::panic::{AssertUnwindSafe, catch_unwind};

const MAX_VARS: usize = 8;
const MAX_STEPS: usize = 12;
/// a script whose normal forms would exceed this many nodes (exponential sharing) is discarded and regenerated
const SIZE_CAP: u64 = 400;

const ENUMS: [&str; 3] = ["Opt", "List", "Color_1"];
const STRUCTS: [&str; 3] = ["Pair", "Opt", "Point_2"];
const DYNS: [&str; 3] = ["Show", "Ord_1", "Opt"];
const PARAMS: [&str; 3] = ["T", "U", "A_1"];
const LENS: [usize; 5] = [0, 1, 2, 3, tast::ARRAY_WILDCARD_LEN];

#[derive(Clone)]
pub(crate) enum Step {
    Fresh(usize),
    Unify(Ty, Ty),
    Norm(Ty),
}

fn step_s(s: &Step) -> S {
    match s {
        Step::Fresh(k) => tagged("fresh", vec![n(k)]),
        Step::Unify(l, r) => tagged("unify", vec![dump::ty(l), dump::ty(r)]),
        Step::Norm(t) => tagged("norm", vec![dump::ty(t)]),
    }
}

pub(crate) fn tv(i: usize) -> Ty {
    Typer::verif_tvar(i as u32)
}

fn prims() -> Vec<Ty> {
    vec![
        Ty::TUnit,
        Ty::TBool,
        Ty::TInt8,
        Ty::TInt16,
        Ty::TInt32,
        Ty::TInt64,
        Ty::TUint8,
        Ty::TUint16,
        Ty::TUint32,
        Ty::TUint64,
        Ty::TFloat32,
        Ty::TFloat64,
        Ty::TString,
    ]
}

fn prim(rng: &mut Rng) -> Ty {
    let p = prims();
    p[rng.below(p.len())].clone()
}

fn pk(rng: &mut Rng, xs: &[&str]) -> String {
    xs[rng.below(xs.len())].to_string()
}

fn s(x: &str) -> String {
    x.to_string()
}

/// a leaf that is not a variable
fn nonvar_leaf(rng: &mut Rng) -> Ty {
    match rng.below(10) {
        0..=4 => prim(rng),
        5 => Ty::TEnum { name: pk(rng, &ENUMS) },
        6 => Ty::TStruct { name: pk(rng, &STRUCTS) },
        7 => Ty::TDyn { trait_name: pk(rng, &DYNS) },
        8 => Ty::TParam { name: pk(rng, &PARAMS) },
        _ => Ty::TTuple { typs: vec![] },
    }
}

fn leaf(rng: &mut Rng, nv: usize, pvar: u64) -> Ty {
    if nv > 0 && rng.chance(pvar, 100) { tv(rng.below(nv)) } else { nonvar_leaf(rng) }
}

fn app_head(rng: &mut Rng, nv: usize, pvar: u64) -> Ty {
    match rng.below(8) {
        0..=2 => Ty::TEnum { name: pk(rng, &ENUMS) },
        3..=4 => Ty::TStruct { name: pk(rng, &STRUCTS) },
        5 => Ty::TParam { name: pk(rng, &PARAMS) },
        _ => {
            if nv > 0 && rng.chance(pvar.max(30), 100) {
                tv(rng.below(nv))
            } else {
                Ty::TEnum { name: pk(rng, &ENUMS) }
            }
        }
    }
}

fn list_len(rng: &mut Rng) -> usize {
    // 0..=3, biased to 1..=2
    *rng.pick(&[0usize, 1, 1, 1, 2, 2, 2, 3, 3])
}

/// a random type of depth <= `depth` over the variables 0..nv; `pvar` = percentage of variable leaves
pub(crate) fn gen_ty(rng: &mut Rng, depth: usize, nv: usize, pvar: u64) -> Ty {
    if depth == 0 || rng.chance(22, 100) {
        return leaf(rng, nv, pvar);
    }
    let d = depth - 1;
    match rng.below(9) {
        0 | 1 => {
            let k = list_len(rng);
            Ty::TTuple { typs: (0..k).map(|_| gen_ty(rng, d, nv, pvar)).collect() }
        }
        2 | 3 => {
            let k = list_len(rng);
            Ty::TApp {
                ty: Box::new(app_head(rng, nv, pvar)),
                args: (0..k).map(|_| gen_ty(rng, d, nv, pvar)).collect(),
            }
        }
        4 => Ty::TArray { len: *rng.pick(&LENS), elem: Box::new(gen_ty(rng, d, nv, pvar)) },
        5 => Ty::TVec { elem: Box::new(gen_ty(rng, d, nv, pvar)) },
        6 => Ty::TRef { elem: Box::new(gen_ty(rng, d, nv, pvar)) },
        _ => {
            let k = list_len(rng);
            Ty::TFunc {
                params: (0..k).map(|_| gen_ty(rng, d, nv, pvar)).collect(),
                ret_ty: Box::new(gen_ty(rng, d, nv, pvar)),
            }
        }
    }
}

pub(crate) fn children(t: &Ty) -> Vec<&Ty> {
    match t {
        Ty::TTuple { typs } => typs.iter().collect(),
        Ty::TApp { ty, args } => {
            let mut v: Vec<&Ty> = vec![ty.as_ref()];
            v.extend(args.iter());
            v
        }
        Ty::TArray { elem, .. } | Ty::TVec { elem } | Ty::TRef { elem } => vec![elem.as_ref()],
        Ty::TFunc { params, ret_ty } => {
            let mut v: Vec<&Ty> = params.iter().collect();
            v.push(ret_ty.as_ref());
            v
        }
        _ => vec![],
    }
}

pub(crate) fn rebuild(t: &Ty, mut ch: Vec<Ty>) -> Ty {
    match t {
        Ty::TTuple { .. } => Ty::TTuple { typs: ch },
        Ty::TApp { .. } => {
            let head = ch.remove(0);
            Ty::TApp { ty: Box::new(head), args: ch }
        }
        Ty::TArray { len, .. } => Ty::TArray { len: *len, elem: Box::new(ch.remove(0)) },
        Ty::TVec { .. } => Ty::TVec { elem: Box::new(ch.remove(0)) },
        Ty::TRef { .. } => Ty::TRef { elem: Box::new(ch.remove(0)) },
        Ty::TFunc { .. } => {
            let ret = ch.pop().unwrap();
            Ty::TFunc { params: ch, ret_ty: Box::new(ret) }
        }
        other => other.clone(),
    }
}

pub(crate) fn node_count(t: &Ty) -> usize {
    1 + children(t).iter().map(|c| node_count(c)).sum::<usize>()
}

pub(crate) fn depth_of(t: &Ty) -> usize {
    let ch = children(t);
    match t {
        Ty::TTuple { .. } | Ty::TApp { .. } | Ty::TArray { .. } | Ty::TVec { .. } | Ty::TRef { .. } | Ty::TFunc { .. } => {
            1 + ch.iter().map(|c| depth_of(c)).max().unwrap_or(0)
        }
        _ => 0,
    }
}

pub(crate) fn vars_of(t: &Ty, out: &mut Vec<u32>) {
    if let Ty::TVar(v) = t {
        let i = Typer::verif_tvar_index(*v);
        if !out.contains(&i) {
            out.push(i);
        }
    }
    for c in children(t) {
        vars_of(c, out);
    }
}

/// replace the `target`-th node (pre-order) of `t`; `f` gets the old subtree and the depth budget left
fn replace_at(t: &Ty, counter: &mut usize, target: usize, budget: usize, f: &mut dyn FnMut(&Ty, usize) -> Ty) -> Ty {
    let me = *counter;
    *counter += 1;
    if me == target {
        // skip the subtree's numbering (nothing after it is replaced anyway)
        *counter += node_count(t) - 1;
        return f(t, budget);
    }
    let ch = children(t);
    if ch.is_empty() {
        return t.clone();
    }
    let nb = budget.saturating_sub(1);
    let new: Vec<Ty> = ch.iter().map(|c| replace_at(c, counter, target, nb, f)).collect();
    rebuild(t, new)
}

/// a structural tweak of one node (same kind, different shape/name) or a different type altogether
fn tweak(rng: &mut Rng, t: &Ty, budget: usize, nv: usize) -> Ty {
    let d = budget.saturating_sub(1).min(1);
    match t {
        Ty::TTuple { typs } if rng.chance(2, 3) => {
            let mut v = typs.clone();
            if !v.is_empty() && (v.len() >= 3 || rng.chance(1, 2)) {
                v.remove(rng.below(v.len()));
            } else {
                v.insert(rng.below(v.len() + 1), gen_ty(rng, d, nv, 30));
            }
            Ty::TTuple { typs: v }
        }
        Ty::TFunc { params, ret_ty } if rng.chance(2, 3) => {
            let mut v = params.clone();
            if !v.is_empty() && (v.len() >= 3 || rng.chance(1, 2)) {
                v.remove(rng.below(v.len()));
            } else {
                v.insert(rng.below(v.len() + 1), gen_ty(rng, d, nv, 30));
            }
            Ty::TFunc { params: v, ret_ty: ret_ty.clone() }
        }
        Ty::TApp { ty, args } if rng.chance(2, 3) => {
            let mut v = args.clone();
            if !v.is_empty() && (v.len() >= 3 || rng.chance(1, 2)) {
                v.remove(rng.below(v.len()));
            } else {
                v.insert(rng.below(v.len() + 1), gen_ty(rng, d, nv, 30));
            }
            Ty::TApp { ty: ty.clone(), args: v }
        }
        Ty::TArray { len, elem } if rng.chance(3, 4) => {
            let mut l2 = *rng.pick(&LENS);
            if l2 == *len {
                l2 = if *len == 2 { 3 } else { 2 };
            }
            Ty::TArray { len: l2, elem: elem.clone() }
        }
        Ty::TVec { elem } if rng.chance(1, 2) => {
            if rng.chance(1, 2) { Ty::TRef { elem: elem.clone() } } else { Ty::TArray { len: *rng.pick(&LENS), elem: elem.clone() } }
        }
        Ty::TRef { elem } if rng.chance(1, 2) => Ty::TVec { elem: elem.clone() },
        Ty::TEnum { name } if rng.chance(2, 3) => {
            if rng.chance(1, 2) { Ty::TStruct { name: name.clone() } } else { Ty::TEnum { name: pk(rng, &ENUMS) } }
        }
        Ty::TStruct { name } if rng.chance(2, 3) => {
            if rng.chance(1, 2) { Ty::TEnum { name: name.clone() } } else { Ty::TStruct { name: pk(rng, &STRUCTS) } }
        }
        Ty::TDyn { .. } if rng.chance(2, 3) => Ty::TDyn { trait_name: pk(rng, &DYNS) },
        Ty::TParam { .. } if rng.chance(2, 3) => Ty::TParam { name: pk(rng, &PARAMS) },
        _ => gen_ty(rng, budget.min(1), nv, 25),
    }
}

/// a mutated copy: 1..=3 subtrees replaced by a variable (any of 0..nv, `fresh` preferred when given),
/// or by a different type, or tweaked
pub(crate) fn mutate(rng: &mut Rng, t: &Ty, nv: usize, fresh: Option<usize>) -> Ty {
    let rounds = 1 + rng.below(3);
    mutate_n(rng, t, nv, fresh, rounds)
}

/// replace 1..=3 random subtrees by variables (never the root): the copy still unifies with the original
/// unless a variable is used twice for different subtrees
pub(crate) fn abstract_vars(rng: &mut Rng, t: &Ty, nv: usize, fresh: Option<usize>) -> Ty {
    let mut cur = t.clone();
    if nv == 0 {
        return cur;
    }
    let rounds = 1 + rng.below(3);
    let mut fresh_left = fresh;
    for _ in 0..rounds {
        let total = node_count(&cur);
        if total <= 1 {
            break;
        }
        let target = 1 + rng.below(total - 1);
        let v = match fresh_left.take() {
            Some(f) => f,
            None => rng.below(nv),
        };
        let mut f = |_old: &Ty, _b: usize| -> Ty { tv(v) };
        let mut c = 0usize;
        cur = replace_at(&cur, &mut c, target, 3, &mut f);
    }
    cur
}

pub(crate) fn mutate_n(rng: &mut Rng, t: &Ty, nv: usize, fresh: Option<usize>, rounds: usize) -> Ty {
    let mut cur = t.clone();
    let mut fresh_left = fresh;
    for _ in 0..rounds {
        let total = node_count(&cur);
        let target = rng.below(total);
        let choice = rng.below(100);
        let mut f = |old: &Ty, budget: usize| -> Ty {
            if choice < 20 {
                if let Some(fv) = fresh_left.take() {
                    return tv(fv);
                }
            }
            if choice < 50 && nv > 0 {
                tv(rng.below(nv))
            } else if choice < 80 {
                tweak(rng, old, budget, nv)
            } else {
                gen_ty(rng, budget.min(1), nv, 30)
            }
        };
        let mut c = 0usize;
        cur = replace_at(&cur, &mut c, target, 3, &mut f);
    }
    cur
}

// ------------------------------------------------------------------------------------------------
// contexts: put a pair (l, r) into the same constructor on both sides, with sibling pairs around it

#[derive(Clone, Copy, PartialEq, Debug)]
enum Ctx {
    Tuple,
    Vec,
    Ref,
    Array,
    FnParam,
    FnRet,
    AppArg,
    AppHead,
}
const CTXS: [Ctx; 8] = [Ctx::Tuple, Ctx::Vec, Ctx::Ref, Ctx::Array, Ctx::FnParam, Ctx::FnRet, Ctx::AppArg, Ctx::AppHead];

/// a pair of sibling types that (on an empty store) unify: binds a variable, aliases two, or is identical
fn sibling_pair(rng: &mut Rng, nv: usize, depth: usize) -> (Ty, Ty) {
    let t = gen_ty(rng, depth, nv, 15);
    match rng.below(6) {
        0 | 1 if nv > 0 => (tv(rng.below(nv)), t),
        2 if nv > 0 => (t, tv(rng.below(nv))),
        3 if nv > 1 => (tv(rng.below(nv)), tv(rng.below(nv))),
        _ => (t.clone(), t),
    }
}

/// one-sided siblings (for the knot: only one side is a constructor)
fn sibling(rng: &mut Rng, nv: usize, depth: usize) -> Ty {
    gen_ty(rng, depth, nv, 30)
}

fn wrap_pair(rng: &mut Rng, ctx: Ctx, l: Ty, r: Ty, nv: usize, sib_depth: usize) -> (Ty, Ty) {
    // lists: `before` siblings, the pair, `after` siblings; at most 3 long
    let before = rng.below(3);
    let after = rng.below(3 - before);
    let mut ls = Vec::new();
    let mut rs = Vec::new();
    for _ in 0..before {
        let (x, y) = sibling_pair(rng, nv, sib_depth);
        ls.push(x);
        rs.push(y);
    }
    match ctx {
        Ctx::Tuple | Ctx::FnParam | Ctx::AppArg => {
            ls.push(l);
            rs.push(r);
            for _ in 0..after {
                let (x, y) = sibling_pair(rng, nv, sib_depth);
                ls.push(x);
                rs.push(y);
            }
            match ctx {
                Ctx::Tuple => (Ty::TTuple { typs: ls }, Ty::TTuple { typs: rs }),
                Ctx::FnParam => {
                    let (x, y) = sibling_pair(rng, nv, sib_depth);
                    (Ty::TFunc { params: ls, ret_ty: Box::new(x) }, Ty::TFunc { params: rs, ret_ty: Box::new(y) })
                }
                _ => {
                    let (hx, hy) = if nv > 0 && rng.chance(1, 4) {
                        (tv(rng.below(nv)), app_head(rng, 0, 0))
                    } else {
                        let h = app_head(rng, nv, 10);
                        (h.clone(), h)
                    };
                    (Ty::TApp { ty: Box::new(hx), args: ls }, Ty::TApp { ty: Box::new(hy), args: rs })
                }
            }
        }
        Ctx::FnRet => {
            for _ in 0..after {
                let (x, y) = sibling_pair(rng, nv, sib_depth);
                ls.push(x);
                rs.push(y);
            }
            (Ty::TFunc { params: ls, ret_ty: Box::new(l) }, Ty::TFunc { params: rs, ret_ty: Box::new(r) })
        }
        Ctx::AppHead => {
            for _ in 0..after {
                let (x, y) = sibling_pair(rng, nv, sib_depth);
                ls.push(x);
                rs.push(y);
            }
            (Ty::TApp { ty: Box::new(l), args: ls }, Ty::TApp { ty: Box::new(r), args: rs })
        }
        Ctx::Vec => (Ty::TVec { elem: Box::new(l) }, Ty::TVec { elem: Box::new(r) }),
        Ctx::Ref => (Ty::TRef { elem: Box::new(l) }, Ty::TRef { elem: Box::new(r) }),
        Ctx::Array => {
            let l1 = *rng.pick(&LENS);
            let l2 = if rng.chance(1, 3) { tast::ARRAY_WILDCARD_LEN } else { l1 };
            (Ty::TArray { len: l1, elem: Box::new(l) }, Ty::TArray { len: l2, elem: Box::new(r) })
        }
    }
}

/// one-sided wrapper of `inner` (for knots)
fn wrap_one(rng: &mut Rng, ctx: Ctx, inner: Ty, nv: usize, sib_depth: usize) -> Ty {
    let before = rng.below(3);
    let after = rng.below(3 - before);
    let mut xs: Vec<Ty> = (0..before).map(|_| sibling(rng, nv, sib_depth)).collect();
    match ctx {
        Ctx::Tuple => {
            xs.push(inner);
            xs.extend((0..after).map(|_| sibling(rng, nv, sib_depth)));
            Ty::TTuple { typs: xs }
        }
        Ctx::FnParam => {
            xs.push(inner);
            xs.extend((0..after).map(|_| sibling(rng, nv, sib_depth)));
            Ty::TFunc { params: xs, ret_ty: Box::new(sibling(rng, nv, sib_depth)) }
        }
        Ctx::AppArg => {
            xs.push(inner);
            xs.extend((0..after).map(|_| sibling(rng, nv, sib_depth)));
            Ty::TApp { ty: Box::new(app_head(rng, nv, 10)), args: xs }
        }
        Ctx::FnRet => {
            xs.extend((0..after).map(|_| sibling(rng, nv, sib_depth)));
            Ty::TFunc { params: xs, ret_ty: Box::new(inner) }
        }
        Ctx::AppHead => {
            xs.extend((0..after).map(|_| sibling(rng, nv, sib_depth)));
            Ty::TApp { ty: Box::new(inner), args: xs }
        }
        Ctx::Vec => Ty::TVec { elem: Box::new(inner) },
        Ctx::Ref => Ty::TRef { elem: Box::new(inner) },
        Ctx::Array => Ty::TArray { len: *rng.pick(&LENS), elem: Box::new(inner) },
    }
}

// ------------------------------------------------------------------------------------------------
// script generation

pub(crate) struct Gen {
    pub(crate) steps: Vec<Step>,
    pub(crate) nv: usize,
    swapped: usize,
    unswapped: usize,
    /// family-specific annotations for the coverage row
    pub(crate) notes: Vec<String>,
    /// index of the step that is the knot / the targeted mismatch (if any) and what is aimed at
    aim: Option<(usize, &'static str)>,
}

impl Gen {
    fn new() -> Gen {
        Gen { steps: Vec::new(), nv: 0, swapped: 0, unswapped: 0, notes: Vec::new(), aim: None }
    }
    fn room(&self) -> usize {
        MAX_STEPS.saturating_sub(self.steps.len())
    }
    fn fresh(&mut self, k: usize) {
        let k = k.min(MAX_VARS - self.nv);
        if k == 0 || self.room() == 0 {
            return;
        }
        self.nv += k;
        self.steps.push(Step::Fresh(k));
    }
    /// push a unify step in a random argument order (recorded)
    fn unify(&mut self, rng: &mut Rng, l: Ty, r: Ty) -> usize {
        if rng.chance(1, 2) {
            self.swapped += 1;
            self.steps.push(Step::Unify(r, l));
        } else {
            self.unswapped += 1;
            self.steps.push(Step::Unify(l, r));
        }
        self.steps.len() - 1
    }
    fn norm(&mut self, t: Ty) {
        if self.room() > 0 {
            self.steps.push(Step::Norm(t));
        }
    }
    /// closing `norm` steps: a variable or two and a couple of composite types mentioning the variables
    fn closing_norms(&mut self, rng: &mut Rng, want: usize) {
        let k = want.min(self.room());
        for i in 0..k {
            if self.nv == 0 {
                self.norm(gen_ty(rng, 2, 0, 0));
            } else if i % 2 == 0 {
                let t = match rng.below(4) {
                    0 => Ty::TTuple { typs: vec![tv(rng.below(self.nv)), Ty::TVec { elem: Box::new(tv(rng.below(self.nv))) }] },
                    1 => Ty::TFunc { params: vec![tv(rng.below(self.nv))], ret_ty: Box::new(tv(rng.below(self.nv))) },
                    _ => {
                        let mut t = gen_ty(rng, 2, self.nv, 70);
                        if depth_of(&t) == 0 {
                            t = Ty::TRef { elem: Box::new(tv(rng.below(self.nv))) };
                        }
                        t
                    }
                };
                self.norm(t);
            } else {
                self.norm(tv(rng.below(self.nv)));
            }
        }
    }
}

pub(crate) fn shuffle<T>(rng: &mut Rng, v: &mut Vec<T>) {
    for i in (1..v.len()).rev() {
        let j = rng.below(i + 1);
        v.swap(i, j);
    }
}

/// family 1: alias class, then tie the knot through (another member of) the class
pub(crate) fn gen_alias_knot(rng: &mut Rng) -> Gen {
    let mut g = Gen::new();
    let k = 2 + rng.below(MAX_VARS - 1); // 2..=8
    g.fresh(k);
    let mut all: Vec<usize> = (0..k).collect();
    shuffle(rng, &mut all);
    let indirect = k >= 3 && rng.chance(3, 10);
    let control = !indirect && rng.chance(1, 10) && k >= 3;
    // class size: leave at least one outsider for indirect / control scripts
    let cmax = if indirect || control { k - 1 } else { k };
    let c = 2 + rng.below(cmax - 1); // 2..=cmax
    let members: Vec<usize> = all[..c].to_vec();
    let outsiders: Vec<usize> = all[c..].to_vec();
    // spanning tree of the class in random order and direction, plus re-unifications and self-unifications
    let mut alias: Vec<(usize, usize)> = Vec::new();
    for i in 1..c {
        let j = rng.below(i);
        if rng.chance(1, 2) { alias.push((members[i], members[j])) } else { alias.push((members[j], members[i])) }
    }
    let knot_steps = if indirect { 2 + rng.below(2) } else { 1 };
    let budget = MAX_STEPS - 1 - knot_steps - 1; // keep one closing norm at least
    let mut extras = rng.below(3);
    while alias.len() + extras > budget {
        if extras > 0 { extras -= 1 } else { alias.pop(); }
    }
    for _ in 0..extras {
        if rng.chance(1, 3) {
            let m = *rng.pick(&members);
            alias.push((m, m));
        } else {
            alias.push((*rng.pick(&members), *rng.pick(&members)));
        }
    }
    shuffle(rng, &mut alias);
    // members actually connected (the tree may have been truncated by the budget): recompute the class
    let mut parent: Vec<usize> = (0..k).collect();
    fn find(p: &mut Vec<usize>, x: usize) -> usize {
        let mut x = x;
        while p[x] != x {
            x = p[x];
        }
        x
    }
    for (x, y) in &alias {
        let (rx, ry) = (find(&mut parent, *x), find(&mut parent, *y));
        if rx != ry {
            parent[rx] = ry;
        }
    }
    for (x, y) in &alias {
        g.unify(rng, tv(*x), tv(*y));
    }
    let root0 = find(&mut parent, members[0]);
    let class: Vec<usize> = (0..k).filter(|v| find(&mut parent, *v) == root0).collect();
    let x = *rng.pick(&class);
    let others: Vec<usize> = class.iter().copied().filter(|v| *v != x).collect();
    // the member that closes the knot: another member of the class (rarely the same variable)
    let y = if others.is_empty() || rng.chance(1, 12) { x } else { *rng.pick(&others) };
    let ctx = *rng.pick(&CTXS);
    g.notes.push(format!("knot_ctx_{:?}", ctx));
    if control {
        let o = *rng.pick(&outsiders);
        let t = wrap_one(rng, ctx, tv(o), 0, 1);
        let i = g.unify(rng, tv(x), t);
        g.aim = Some((i, "control-ok"));
        g.notes.push(s("knot_control"));
    } else if indirect {
        // x := C1[b1]; b1 := C2[b2]; …; b_last := C[y]   (b_i outside the class)
        let hops = (knot_steps - 1).min(outsiders.len());
        let mut cur = x;
        for h in 0..hops {
            let b = outsiders[h];
            let c1 = *rng.pick(&CTXS);
            let t = wrap_one(rng, c1, tv(b), 0, 1);
            // go through a random alias of `cur` when it is the class variable
            let lhs = if h == 0 && !others.is_empty() && rng.chance(1, 2) { *rng.pick(&class) } else { cur };
            g.unify(rng, tv(lhs), t);
            cur = b;
        }
        let t = if rng.chance(1, 2) {
            Ty::TTuple { typs: vec![tv(y), Ty::TInt32] }
        } else {
            wrap_one(rng, ctx, tv(y), 0, 1)
        };
        let i = g.unify(rng, tv(cur), t);
        g.aim = Some((i, "occurs"));
        g.notes.push(format!("knot_indirect_{}", hops));
    } else {
        // one or two wrapper levels; siblings may mention any variable
        let mut t = wrap_one(rng, ctx, tv(y), k, 1);
        if rng.chance(1, 3) {
            let c2 = *rng.pick(&CTXS);
            t = wrap_one(rng, c2, t, k, 0);
        }
        let i = g.unify(rng, tv(x), t);
        g.aim = Some((i, "occurs"));
        g.notes.push(s(if x == y { "knot_direct_same_var" } else { "knot_direct_alias" }));
    }
    // norm of the variables (as many as fit), then composites
    let mut vs: Vec<usize> = (0..k).collect();
    shuffle(rng, &mut vs);
    let room = g.room();
    let nvars = room.saturating_sub(1).min(k).min(3);
    for v in vs.iter().take(nvars) {
        g.norm(tv(*v));
    }
    g.closing_norms(rng, 2);
    g
}

/// family 2: nested constructors, right side = mutated copy of the left; follow-up steps on the same store
pub(crate) fn gen_nested(rng: &mut Rng) -> Gen {
    let mut g = Gen::new();
    let k = 1 + rng.below(6); // 1..=6
    g.fresh(k);
    let pvar = *rng.pick(&[10u64, 20, 35]);
    let mut base = gen_ty(rng, 3, g.nv, pvar);
    if depth_of(&base) == 0 {
        base = gen_ty(rng, 3, g.nv, pvar);
    }
    let mut pool: Vec<Ty> = Vec::new();
    // a fresh variable for the copy, created by a separate step
    let fresh = if g.nv < MAX_VARS && rng.chance(1, 2) {
        g.fresh(1);
        Some(g.nv - 1)
    } else {
        None
    };
    // both sides are copies of one base type with different subtrees abstracted to variables, so that the
    // unification succeeds deep and binds several variables; the right side is often damaged on top of that
    let l = abstract_vars(rng, &base, g.nv, None);
    let r = match rng.below(10) {
        0..=4 => abstract_vars(rng, &base, g.nv, fresh),
        5..=6 => {
            let r0 = abstract_vars(rng, &base, g.nv, fresh);
            mutate_n(rng, &r0, g.nv, None, 1)
        }
        _ => mutate(rng, &l, g.nv, fresh),
    };
    pool.push(l.clone());
    pool.push(r.clone());
    g.unify(rng, l, r);
    let more = 2 + rng.below(5);
    for _ in 0..more {
        if g.room() <= 2 {
            break;
        }
        match rng.below(10) {
            0..=3 => {
                // an earlier type against a new mutated copy of it (sees the bindings made so far)
                let base = pool[rng.below(pool.len())].clone();
                let fresh = if g.nv < MAX_VARS && rng.chance(1, 4) {
                    g.fresh(1);
                    Some(g.nv - 1)
                } else {
                    None
                };
                let m = mutate(rng, &base, g.nv, fresh);
                pool.push(m.clone());
                g.unify(rng, base, m);
            }
            4 | 5 => {
                let t = gen_ty(rng, 2, g.nv, 30);
                pool.push(t.clone());
                let v = rng.below(g.nv);
                g.unify(rng, tv(v), t);
            }
            6 => {
                let (x, y) = (rng.below(g.nv), rng.below(g.nv));
                g.unify(rng, tv(x), tv(y));
            }
            7 => {
                let x = pool[rng.below(pool.len())].clone();
                let y = pool[rng.below(pool.len())].clone();
                g.unify(rng, x, y);
            }
            _ => {
                let t = pool[rng.below(pool.len())].clone();
                g.norm(t);
            }
        }
    }
    g.closing_norms(rng, 2);
    g
}

/// the targeted mismatch pairs of family 3: (name, aimed class, l, r)
fn mismatch_pair(rng: &mut Rng, which: usize, nv: usize) -> (&'static str, &'static str, Ty, Ty) {
    let e = |x: &str| Ty::TEnum { name: s(x) };
    let st = |x: &str| Ty::TStruct { name: s(x) };
    let small = |rng: &mut Rng| gen_ty(rng, 0, nv, 20);
    match which {
        0 => {
            let a_ = 0 + rng.below(4);
            let mut b_ = rng.below(4);
            if b_ == a_ {
                b_ = (a_ + 1) % 4;
            }
            let xs: Vec<Ty> = (0..3).map(|_| small(rng)).collect();
            ("tuple-arity", "tuple-len", Ty::TTuple { typs: xs[..a_.min(3)].to_vec() }, Ty::TTuple { typs: xs[..b_.min(3)].to_vec() })
        }
        1 => {
            let a_ = rng.below(4);
            let mut b_ = rng.below(4);
            if b_ == a_ {
                b_ = (a_ + 1) % 4;
            }
            let xs: Vec<Ty> = (0..3).map(|_| small(rng)).collect();
            let ret = small(rng);
            (
                "fn-arity",
                "func-len",
                Ty::TFunc { params: xs[..a_].to_vec(), ret_ty: Box::new(ret.clone()) },
                Ty::TFunc { params: xs[..b_].to_vec(), ret_ty: Box::new(ret) },
            )
        }
        2 => {
            let a_ = rng.below(4);
            let mut b_ = rng.below(4);
            if b_ == a_ {
                b_ = (a_ + 1) % 4;
            }
            let xs: Vec<Ty> = (0..3).map(|_| small(rng)).collect();
            // the heads may differ as well: the argument count is compared first
            let h1 = app_head(rng, nv, 10);
            let h2 = if rng.chance(1, 3) { app_head(rng, nv, 10) } else { h1.clone() };
            ("app-argcount", "app-len", Ty::TApp { ty: Box::new(h1), args: xs[..a_].to_vec() }, Ty::TApp { ty: Box::new(h2), args: xs[..b_].to_vec() })
        }
        3 => {
            let l1 = rng.below(4);
            let mut l2 = rng.below(4);
            if l2 == l1 {
                l2 = (l1 + 1) % 4;
            }
            let el = small(rng);
            ("array-len", "array-len", Ty::TArray { len: l1, elem: Box::new(el.clone()) }, Ty::TArray { len: l2, elem: Box::new(el) })
        }
        4 => {
            let l1 = rng.below(4);
            let el = small(rng);
            (
                "array-wildcard",
                "none",
                Ty::TArray { len: l1, elem: Box::new(el.clone()) },
                Ty::TArray { len: tast::ARRAY_WILDCARD_LEN, elem: Box::new(el) },
            )
        }
        5 => ("enum-name", "ctor-name", e("Opt"), e(if rng.chance(1, 2) { "List" } else { "Color_1" })),
        6 => ("struct-name", "ctor-name", st("Pair"), st(if rng.chance(1, 2) { "Opt" } else { "Point_2" })),
        7 => ("enum-vs-struct", "not-equal", e("Opt"), st("Opt")),
        8 => ("dyn-name", "dyn-name", Ty::TDyn { trait_name: s("Show") }, Ty::TDyn { trait_name: s(if rng.chance(1, 2) { "Ord_1" } else { "Opt" }) }),
        9 => ("param-name", "param-name", Ty::TParam { name: s("T") }, Ty::TParam { name: s(if rng.chance(1, 2) { "U" } else { "A_1" }) }),
        10 => {
            let mut c = gen_ty(rng, 1, 0, 0);
            if let Ty::TParam { .. } = c {
                c = Ty::TInt32;
            }
            ("param-vs-concrete", "param-concrete", Ty::TParam { name: pk(rng, &PARAMS) }, c)
        }
        11 => {
            // binds (when the variable is still free)
            let v = if nv > 0 { tv(rng.below(nv)) } else { Ty::TParam { name: s("T") } };
            ("param-vs-var", "none", Ty::TParam { name: pk(rng, &PARAMS) }, v)
        }
        12 => {
            let p = prims();
            let i = rng.below(p.len());
            let mut j = rng.below(p.len());
            if j == i {
                j = (i + 1) % p.len();
            }
            ("prim-vs-prim", "not-equal", p[i].clone(), p[j].clone())
        }
        13 => {
            // constructor kind against another kind (no param, no var on either side)
            let mk = |rng: &mut Rng, kind: usize| -> Ty {
                let x = gen_ty(rng, 0, 0, 0);
                match kind {
                    0 => Ty::TTuple { typs: vec![x] },
                    1 => Ty::TVec { elem: Box::new(x) },
                    2 => Ty::TRef { elem: Box::new(x) },
                    3 => Ty::TArray { len: *rng.pick(&LENS), elem: Box::new(x) },
                    4 => Ty::TFunc { params: vec![], ret_ty: Box::new(x) },
                    5 => Ty::TApp { ty: Box::new(Ty::TEnum { name: s("Opt") }), args: vec![x] },
                    6 => Ty::TEnum { name: s("Opt") },
                    7 => Ty::TStruct { name: s("Opt") },
                    8 => Ty::TDyn { trait_name: s("Opt") },
                    _ => prim(rng),
                }
            };
            let i = rng.below(10);
            let mut j = rng.below(10);
            if j == i {
                j = (i + 1) % 10;
            }
            ("kind-vs-kind", "not-equal", mk(rng, i), mk(rng, j))
        }
        _ => {
            // app head mismatch with equally many arguments
            let xs: Vec<Ty> = (0..rng.below(3)).map(|_| small(rng)).collect();
            let (h1, h2, aim) = match rng.below(4) {
                0 => (e("Opt"), e("List"), "ctor-name"),
                1 => (st("Pair"), st("Point_2"), "ctor-name"),
                2 => (e("Opt"), st("Opt"), "not-equal"),
                _ => (Ty::TParam { name: s("T") }, e("Opt"), "param-concrete"),
            };
            ("app-head", aim, Ty::TApp { ty: Box::new(h1), args: xs.clone() }, Ty::TApp { ty: Box::new(h2), args: xs })
        }
    }
}
pub(crate) const N_MISMATCH: usize = 15;

/// family 3: one targeted mismatch at a random depth, after a random number of successfully unified siblings
pub(crate) fn gen_mismatch(rng: &mut Rng, which: usize) -> Gen {
    let mut g = Gen::new();
    let k = 1 + rng.below(5);
    g.fresh(k);
    // prelude: a few bindings so that the target step sees bound variables and chains
    let pre = rng.below(3);
    for _ in 0..pre {
        if rng.chance(1, 3) && g.nv > 1 {
            let (x, y) = (rng.below(g.nv), rng.below(g.nv));
            g.unify(rng, tv(x), tv(y));
        } else {
            let t = gen_ty(rng, 1, g.nv, 25);
            let v = rng.below(g.nv);
            g.unify(rng, tv(v), t);
        }
    }
    let (name, aim, mut l, mut r) = mismatch_pair(rng, which, g.nv);
    let d0 = depth_of(&l).max(depth_of(&r));
    let levels = rng.below(3 - d0.min(2) + 1).min(3 - d0.min(3)); // d0 + levels <= 3
    let mut cur = d0;
    for _ in 0..levels {
        let ctx = *rng.pick(&CTXS);
        let (l2, r2) = wrap_pair(rng, ctx, l, r, g.nv, cur.min(1));
        l = l2;
        r = r2;
        cur += 1;
    }
    g.notes.push(format!("mm_{}", name));
    g.notes.push(format!("mm_depth_{}", levels));
    let (lc, rc) = (l.clone(), r.clone());
    let i = g.unify(rng, l, r);
    g.aim = Some((i, aim));
    // the store keeps what was bound before the failure: look at both sides again and retry
    g.norm(lc.clone());
    if rng.chance(1, 2) {
        g.norm(rc.clone());
    }
    if rng.chance(1, 2) {
        g.unify(rng, lc, rc);
    } else {
        let v = rng.below(g.nv);
        let t = gen_ty(rng, 1, g.nv, 25);
        g.unify(rng, tv(v), t);
    }
    g.closing_norms(rng, 2);
    g
}

/// family 4: purely random scripts mixing everything
pub(crate) fn gen_random(rng: &mut Rng) -> Gen {
    let mut g = Gen::new();
    g.fresh(1 + rng.below(4));
    let len = 4 + rng.below(7);
    let mut pool: Vec<Ty> = Vec::new();
    while g.steps.len() < len {
        let c = rng.below(100);
        if c < 8 && g.nv < MAX_VARS {
            g.fresh(1 + rng.below(2));
        } else if c < 25 {
            let (x, y) = (rng.below(g.nv), rng.below(g.nv));
            g.unify(rng, tv(x), tv(y));
        } else if c < 45 {
            let d = 1 + rng.below(3);
            let t = gen_ty(rng, d, g.nv, 35);
            pool.push(t.clone());
            let v = rng.below(g.nv);
            g.unify(rng, tv(v), t);
        } else if c < 70 {
            let base = if !pool.is_empty() && rng.chance(1, 2) { pool[rng.below(pool.len())].clone() } else { gen_ty(rng, 3, g.nv, 35) };
            let m = mutate(rng, &base, g.nv, None);
            pool.push(base.clone());
            pool.push(m.clone());
            g.unify(rng, base, m);
        } else if c < 78 {
            let x = gen_ty(rng, 2, g.nv, 40);
            let y = gen_ty(rng, 2, g.nv, 40);
            g.unify(rng, x, y);
        } else if c < 84 {
            // knot attempt through whatever the store looks like now
            let ctx = *rng.pick(&CTXS);
            let y = rng.below(g.nv);
            let t = wrap_one(rng, ctx, tv(y), g.nv, 1);
            let x = rng.below(g.nv);
            g.unify(rng, tv(x), t);
        } else if c < 90 {
            let w = rng.below(N_MISMATCH);
            let (_, _, l, r) = mismatch_pair(rng, w, g.nv);
            let ctx = *rng.pick(&CTXS);
            let (l, r) = wrap_pair(rng, ctx, l, r, g.nv, 1);
            g.unify(rng, l, r);
        } else {
            let t = if !pool.is_empty() && rng.chance(1, 2) { pool[rng.below(pool.len())].clone() } else { gen_ty(rng, 2, g.nv, 60) };
            g.norm(t);
        }
    }
    g.closing_norms(rng, 2);
    g
}

// ------------------------------------------------------------------------------------------------
// execution on the real typer

pub(crate) fn classify(msg: &str) -> &'static str {
    const TABLE: [(&str, &str); 12] = [
        ("occurs check failed", "occurs"),
        ("Failed to unify type variables", "var-var"),
        ("Failed to unify type variable ", "var-value"),
        ("Tuple types have different lengths", "tuple-len"),
        ("Array types have different lengths", "array-len"),
        ("Function types have different parameter lengths", "func-len"),
        ("Constructor types are different", "ctor-name"),
        ("Dyn trait types are different", "dyn-name"),
        ("Constructor types have different argument lengths", "app-len"),
        ("Type parameters are different", "param-name"),
        ("Cannot unify type parameter", "param-concrete"),
        ("Types are not equal", "not-equal"),
    ];
    for (p, c) in TABLE.iter() {
        if msg.starts_with(p) {
            return c;
        }
    }
    "other"
}

/// own cycle detection on the real store, using only `verif_probe`
pub(crate) fn find_cycle(typer: &mut Typer, nv: usize) -> Option<u32> {
    // 0 = unvisited, 1 = on the DFS stack, 2 = done; indexed by ROOT
    let mut state = vec![0u8; nv];
    fn dfs(typer: &mut Typer, state: &mut Vec<u8>, v: u32) -> Option<u32> {
        let (root, val) = typer.verif_probe(v);
        let r = root as usize;
        if r >= state.len() {
            // a variable the script never created: cannot be followed
            return None;
        }
        match state[r] {
            1 => return Some(v),
            2 => return None,
            _ => {}
        }
        state[r] = 1;
        if let Some(t) = val {
            let mut vs = Vec::new();
            vars_of(&t, &mut vs);
            for w in vs {
                if let Some(c) = dfs(typer, state, w) {
                    return Some(c);
                }
            }
        }
        state[r] = 2;
        None
    }
    for v in 0..nv {
        if let Some(c) = dfs(typer, &mut state, v as u32) {
            return Some(c);
        }
    }
    None
}

/// predicted node count of `norm t` on an ACYCLIC store (saturating), using only `verif_probe`
pub(crate) fn norm_size(typer: &mut Typer, t: &Ty, memo: &mut BTreeMap<u32, u64>) -> u64 {
    if let Ty::TVar(v) = t {
        let i = Typer::verif_tvar_index(*v);
        let (root, val) = typer.verif_probe(i);
        if let Some(x) = memo.get(&root) {
            return *x;
        }
        let sz = match val {
            None => 1,
            Some(b) => norm_size(typer, &b, memo),
        };
        memo.insert(root, sz);
        return sz;
    }
    let mut total = 1u64;
    for c in children(t) {
        total = total.saturating_add(norm_size(typer, c, memo));
        if total > 1_000_000_000 {
            return total;
        }
    }
    total
}

#[derive(Default)]
pub(crate) struct Cov {
    pub(crate) m: BTreeMap<String, u64>,
}
impl Cov {
    pub(crate) fn add(&mut self, k: &str, v: u64) {
        *self.m.entry(k.to_string()).or_insert(0) += v;
    }
    pub(crate) fn inc(&mut self, k: &str) {
        self.add(k, 1);
    }
    pub(crate) fn max(&mut self, k: &str, v: u64) {
        let e = self.m.entry(k.to_string()).or_insert(0);
        if v > *e {
            *e = v;
        }
    }
}

pub(crate) fn kind_name(t: &Ty) -> &'static str {
    match t {
        Ty::TVar(_) => "tvar",
        Ty::TTuple { .. } => "tuple",
        Ty::TEnum { .. } => "enum",
        Ty::TStruct { .. } => "struct",
        Ty::TDyn { .. } => "dyn",
        Ty::TApp { .. } => "app",
        Ty::TArray { .. } => "array",
        Ty::TVec { .. } => "vec",
        Ty::TRef { .. } => "ref",
        Ty::TParam { .. } => "param",
        Ty::TFunc { .. } => "fn",
        _ => "prim",
    }
}

pub(crate) fn count_kinds(t: &Ty, cov: &mut Cov) {
    cov.inc(&format!("k_{}", kind_name(t)));
    if let Ty::TArray { len, .. } = t {
        if *len == tast::ARRAY_WILDCARD_LEN {
            cov.inc("k_array_wildcard");
        }
    }
    if let Ty::TApp { ty, args } = t {
        cov.inc(&format!("k_app_head_{}", kind_name(ty)));
        cov.inc(&format!("k_app_args_{}", args.len()));
    }
    if let Ty::TFunc { params, .. } = t {
        cov.inc(&format!("k_fn_params_{}", params.len()));
    }
    if let Ty::TTuple { typs } = t {
        cov.inc(&format!("k_tuple_len_{}", typs.len()));
    }
    for c in children(t) {
        count_kinds(c, cov);
    }
}

enum Run {
    Done(Vec<S>),
    /// normal forms would be larger than SIZE_CAP: the script is dropped and another one generated
    Oversize,
}

/// what the run observed (folded into the coverage row only when the script is kept)
#[derive(Default)]
struct Obs {
    cov: Cov,
    classes: Vec<(usize, &'static str, bool)>,
    occurs_via_alias: bool,
}

fn store_sig(typer: &mut Typer, nv: usize) -> Vec<(u32, bool)> {
    (0..nv).map(|i| {
        let (r, v) = typer.verif_probe(i as u32);
        (r, v.is_some())
    }).collect()
}

fn run_script(steps: &[Step], obs: &mut Obs) -> Run {
    let mut results: Vec<S> = Vec::new();
    let mut oversize = false;
    let r = catch_unwind(AssertUnwindSafe(|| {
        let mut typer = Typer::new(compiler::hir::HirTable::new(compiler::hir::PackageId(0)));
        let mut nv = 0usize;
        for (si, st) in steps.iter().enumerate() {
            match st {
                Step::Fresh(k) => {
                    for _ in 0..*k {
                        let t = typer.verif_fresh();
                        let idx = match &t {
                            Ty::TVar(v) => Typer::verif_tvar_index(*v) as usize,
                            _ => usize::MAX,
                        };
                        if idx != nv {
                            eprintln!("gv unify: verif_fresh returned index {} for variable number {}", idx, nv);
                            std::process::exit(3);
                        }
                        nv += 1;
                    }
                    obs.cov.inc("steps_fresh");
                    results.push(tagged("fresh", vec![n(nv)]));
                }
                Step::Norm(t) => {
                    // the store is acyclic here (checked after every unify step)
                    let mut memo = BTreeMap::new();
                    if norm_size(&mut typer, t, &mut memo) > SIZE_CAP {
                        oversize = true;
                        return;
                    }
                    obs.cov.inc("steps_norm");
                    let nt = typer.verif_norm(t);
                    if nt != *t {
                        obs.cov.inc("norm_changed");
                    }
                    results.push(tagged("norm", vec![dump::ty(&nt)]));
                }
                Step::Unify(l, r) => {
                    let mut memo = BTreeMap::new();
                    if norm_size(&mut typer, l, &mut memo).saturating_add(norm_size(&mut typer, r, &mut memo)) > SIZE_CAP {
                        oversize = true;
                        return;
                    }
                    // ---- pre-step observations (coverage only)
                    let mut vl = Vec::new();
                    let mut vr = Vec::new();
                    vars_of(l, &mut vl);
                    vars_of(r, &mut vr);
                    let pre = store_sig(&mut typer, nv);
                    let bound_side = vl.iter().chain(vr.iter()).any(|v| (*v as usize) < nv && pre[*v as usize].1);
                    let aliased_side = vl.iter().chain(vr.iter()).any(|v| (*v as usize) < nv && pre[*v as usize].0 != *v);
                    let direct_shared = vl.iter().any(|v| vr.contains(v));
                    let alias_shared = vl.iter().any(|i| vr.iter().any(|j| i != j && pre[*i as usize].0 == pre[*j as usize].0));
                    let mut class_sizes: BTreeMap<u32, u64> = BTreeMap::new();
                    for (root, _) in &pre {
                        *class_sizes.entry(*root).or_insert(0) += 1;
                    }
                    let max_class = class_sizes.values().copied().max().unwrap_or(0);
                    // ---- the real step
                    let mut diags = Diagnostics::new();
                    let ok = typer.verif_unify(&mut diags, l, r);
                    let ndiag = diags.len();
                    let class = match diags.iter().last() {
                        None => "none",
                        Some(d) => classify(d.message()),
                    };
                    // ---- cycle detection BEFORE any real norm
                    if let Some(v) = find_cycle(&mut typer, nv) {
                        obs.cov.inc("cyclic_store");
                        results.push(tagged("cyclic", vec![n(v)]));
                        return;
                    }
                    let mut memo = BTreeMap::new();
                    let mut total = norm_size(&mut typer, l, &mut memo).saturating_add(norm_size(&mut typer, r, &mut memo));
                    for i in 0..nv {
                        total = total.max(norm_size(&mut typer, &tv(i), &mut memo));
                    }
                    if total > SIZE_CAP {
                        oversize = true;
                        return;
                    }
                    let nl = typer.verif_norm(l);
                    let nr = typer.verif_norm(r);
                    let vars: Vec<S> = (0..nv).map(|i| dump::ty(&typer.verif_norm(&tv(i)))).collect();
                    results.push(tagged(
                        "unify",
                        vec![
                            a(if ok { "ok" } else { "fail" }),
                            a(class),
                            n(ndiag),
                            tagged("post", vec![dump::ty(&nl), dump::ty(&nr)]),
                            tagged("vars", vars),
                        ],
                    ));
                    // ---- coverage
                    let post = store_sig(&mut typer, nv);
                    let changed = pre.iter().zip(post.iter()).filter(|(x, y)| x != y).count() as u64;
                    let c = &mut obs.cov;
                    c.inc("steps_unify");
                    c.inc(if ok { "unify_ok" } else { "unify_fail" });
                    c.inc(&format!("class_{}", class));
                    c.inc(&format!("ndiag_{}", ndiag.min(3)));
                    if ok != (ndiag == 0) {
                        c.inc("ok_diag_disagree");
                    }
                    if bound_side {
                        c.inc("unify_bound_var_on_a_side");
                    }
                    if aliased_side {
                        c.inc("unify_aliased_var_on_a_side");
                    }
                    c.max("max_alias_class", max_class);
                    if ok && changed >= 2 {
                        c.inc("ok_changed_2plus_vars");
                    }
                    if ok && changed == 0 {
                        c.inc("ok_changed_no_var");
                    }
                    if !ok && changed > 0 {
                        c.inc("fail_kept_partial_bindings");
                    }
                    if ok && nl != nr {
                        // wildcard array lengths are the only legitimate way to get here
                        c.inc("ok_but_post_sides_differ");
                    }
                    if class == "occurs" {
                        if direct_shared {
                            c.inc("occurs_direct_same_var_both_sides");
                        } else if alias_shared {
                            c.inc("occurs_via_alias_class");
                            obs.occurs_via_alias = true;
                        } else {
                            c.inc("occurs_via_bound_value");
                        }
                    }
                    count_kinds(l, c);
                    count_kinds(r, c);
                    obs.classes.push((si, class, ok));
                }
            }
        }
    }));
    if oversize {
        return Run::Oversize;
    }
    if r.is_err() {
        obs.cov.inc("panics");
        results.push(tagged("panic", vec![]));
    }
    Run::Done(results)
}

pub fn main(args: &util::Args) {
    util::quiet_panics();
    // `--n N` (harness convention) or `-n N`
    let short_n = args.rest.iter().position(|x| x == "-n").and_then(|i| args.rest.get(i + 1)).and_then(|x| x.parse::<usize>().ok());
    let total = args.n.or(short_n).unwrap_or(if args.tier == "thorough" { 40000 } else { 4000 });
    let mut out = String::new();
    let mut cov = Cov::default();
    // `--skip i,j,…`: script indices not to run (the caller found that they kill the process: a stack overflow inside
    // the real `unify`/`norm` cannot be caught in-process).  Before a script runs, its id and text go to
    // `<out>/unify.progress`, so that the caller can name the script that was running when the process died.
    let skip: Vec<usize> = args.rest.iter().position(|x| x == "--skip").and_then(|i| args.rest.get(i + 1))
        .map(|s| s.split(',').filter_map(|x| x.parse().ok()).collect()).unwrap_or_default();
    let _ = std::fs::create_dir_all(&args.out);
    let progress = args.out.join("unify.progress");
    for i in 0..total {
        if skip.contains(&i) {
            cov.inc("scripts_skipped_on_request");
            continue;
        }
        let mut attempt = 0u64;
        loop {
            let mut root = Rng::new(args.seed);
            let mut rng = root.fork(((i as u64) << 8) | attempt);
            // families in fixed proportion: 1 alias-knot 25%, 2 nested 30%, 3 mismatch 25%, 4 random 20%
            let sel = i % 20;
            let (fam, g) = if sel < 5 {
                ("knot", gen_alias_knot(&mut rng))
            } else if sel < 11 {
                ("nested", gen_nested(&mut rng))
            } else if sel < 16 {
                // every mismatch kind in turn
                ("mismatch", gen_mismatch(&mut rng, (i / 20 * 5 + (sel - 11)) % N_MISMATCH))
            } else {
                ("random", gen_random(&mut rng))
            };
            assert!(g.steps.len() <= MAX_STEPS && g.nv <= MAX_VARS, "generator exceeded its budget");
            let mut obs = Obs::default();
            let _ = std::fs::write(&progress, format!("{}\tuni:{}:{}:{}\t{}\n", i, fam, args.seed, i,
                tagged("script", g.steps.iter().map(step_s).collect()).to_text()));
            match run_script(&g.steps, &mut obs) {
                Run::Oversize => {
                    cov.inc("discarded_oversize");
                    attempt += 1;
                    if attempt < 200 {
                        continue;
                    }
                    break;
                }
                Run::Done(results) => {
                    let script = tagged("script", g.steps.iter().map(step_s).collect());
                    let nres = results.len();
                    let result = tagged("result", results);
                    out.push_str(&format!("uni:{}:{}:{}\tUNI\t{}\t{}\n", fam, args.seed, i, script.to_text(), result.to_text()));
                    // coverage
                    cov.inc(&format!("scripts_{}", fam));
                    cov.inc("scripts");
                    cov.add("steps", g.steps.len() as u64);
                    cov.max("max_steps", g.steps.len() as u64);
                    cov.max("max_vars", g.nv as u64);
                    cov.add("arg_order_swapped", g.swapped as u64);
                    cov.add("arg_order_kept", g.unswapped as u64);
                    if nres < g.steps.len() {
                        cov.inc("scripts_stopped_early");
                    }
                    for (k, v) in obs.cov.m.iter() {
                        if k.starts_with("max_") { cov.max(k, *v) } else { cov.add(k, *v) }
                    }
                    if obs.occurs_via_alias {
                        cov.inc("scripts_occurs_via_alias_class");
                    }
                    if obs.classes.iter().any(|(_, c, _)| *c == "occurs") {
                        cov.inc("scripts_with_occurs");
                    }
                    for (_, c, ok) in &obs.classes {
                        cov.inc(&format!("{}_unify_{}", fam, if *ok { "ok" } else { "fail" }));
                        if *c == "occurs" {
                            cov.inc(&format!("{}_occurs", fam));
                        }
                    }
                    for note in &g.notes {
                        cov.inc(note);
                    }
                    if let Some((si, aim)) = g.aim {
                        let got = obs.classes.iter().find(|(s2, _, _)| *s2 == si).map(|(_, c, _)| *c);
                        let want = if aim == "control-ok" { "none" } else { aim };
                        match got {
                            Some(c) if c == want => cov.inc(&format!("{}_aim_hit", fam)),
                            Some(c) => {
                                cov.inc(&format!("{}_aim_missed", fam));
                                cov.inc(&format!("{}_aim_{}_got_{}", fam, want, c));
                            }
                            None => cov.inc(&format!("{}_aim_not_run", fam)),
                        }
                    }
                    break;
                }
            }
        }
    }
    let covrow: Vec<String> = cov.m.iter().map(|(k, v)| format!("{}={}", k, v)).collect();
    out.push_str(&format!("#COV\t{}\n", covrow.join(";")));
    let _ = std::fs::create_dir_all(&args.out);
    std::fs::write(args.out.join("unify.cases.tsv"), out).unwrap();
    let _ = std::fs::remove_file(&progress);
}
