use compiler::pipeline::pipeline::{self, Compilation, CompilationError};
use std::panic::{AssertUnwindSafe, catch_unwind};
use std::path::{Path, PathBuf};

pub struct Args {
    pub seed: u64,
    pub tier: String,
    pub out: PathBuf,
    pub n: Option<usize>,
    pub rest: Vec<String>,
}

pub fn parse_args(args: &[String]) -> Args {
    let mut seed = 1u64;
    let mut tier = "quick".to_string();
    let mut out = verif_root().join(".cache/run");
    let mut n = None;
    let mut rest = Vec::new();
    let mut i = 0;
    while i < args.len() {
        match args[i].as_str() {
            "--seed" => {
                seed = args[i + 1].parse().unwrap_or(1);
                i += 1;
            }
            "--tier" => {
                tier = args[i + 1].clone();
                i += 1;
            }
            "--out" => {
                out = PathBuf::from(&args[i + 1]);
                i += 1;
            }
            "--n" => {
                n = args[i + 1].parse().ok();
                i += 1;
            }
            other => rest.push(other.to_string()),
        }
        i += 1;
    }
    Args { seed, tier, out, n, rest }
}

pub fn stage_of(e: &CompilationError) -> &'static str {
    match e {
        CompilationError::Parser { .. } => "parser",
        CompilationError::Lower { .. } => "lower",
        CompilationError::Typer { .. } => "typer",
        CompilationError::Compile { .. } => "compile",
    }
}

pub enum Outcome {
    Ok(Box<Compilation>),
    Err(&'static str, Vec<String>),
    Panic(String),
}

pub fn panic_message(p: Box<dyn std::any::Any + Send>) -> String {
    if let Some(s) = p.downcast_ref::<&str>() {
        s.to_string()
    } else if let Some(s) = p.downcast_ref::<String>() {
        s.clone()
    } else {
        "<non-string panic>".to_string()
    }
}

/// run the real whole-program pipeline on a single-file program placed in its own directory
pub fn compile_text(dir: &Path, src: &str) -> Outcome {
    let path = dir.join("main.gom");
    let _ = std::fs::create_dir_all(dir);
    let _ = std::fs::write(&path, src);
    let r = catch_unwind(AssertUnwindSafe(|| pipeline::compile(&path, src)));
    match r {
        Ok(Ok(c)) => Outcome::Ok(Box::new(c)),
        Ok(Err(e)) => Outcome::Err(
            stage_of(&e),
            e.diagnostics().iter().map(|d| d.message().to_string()).collect(),
        ),
        Err(p) => Outcome::Panic(panic_message(p)),
    }
}

/// compile a file where it lives (corpus programs, multi-package projects)
pub fn compile_path(path: &Path, src: &str) -> Outcome {
    let r = catch_unwind(AssertUnwindSafe(|| pipeline::compile(path, src)));
    match r {
        Ok(Ok(c)) => Outcome::Ok(Box::new(c)),
        Ok(Err(e)) => Outcome::Err(
            stage_of(&e),
            e.diagnostics().iter().map(|d| d.message().to_string()).collect(),
        ),
        Err(p) => Outcome::Panic(panic_message(p)),
    }
}

pub fn quiet_panics() {
    std::panic::set_hook(Box::new(|_| {}));
}

pub fn scratch_dir(tag: &str) -> PathBuf {
    let base = std::env::var("GV_SCRATCH")
        .unwrap_or_else(|_| verif_root().join(".cache/scratch").to_string_lossy().to_string());
    let p = PathBuf::from(base).join(format!("{}-{}", tag, std::process::id()));
    let _ = std::fs::create_dir_all(&p);
    p
}

/// root of the goml checkout under test (`GV_REPO`, default /repo)
pub fn repo_root() -> PathBuf {
    PathBuf::from(std::env::var("GV_REPO").unwrap_or_else(|_| "/repo".to_string()))
}

/// root of the verification tree (`GV_VERIF`, default /verif)
pub fn verif_root() -> PathBuf {
    PathBuf::from(std::env::var("GV_VERIF").unwrap_or_else(|_| "/verif".to_string()))
}

pub fn corpus_pipeline_dirs() -> Vec<PathBuf> {
    let root = repo_root().join("crates/compiler/src/tests/pipeline");
    let mut v: Vec<PathBuf> = std::fs::read_dir(&root)
        .map(|rd| rd.filter_map(|e| e.ok().map(|e| e.path())).filter(|p| p.join("main.gom").exists()).collect())
        .unwrap_or_default();
    v.sort();
    v
}
