import GomlVerif.Model.Sexp
