import GomlVerif.Model.Pipeline
import GomlVerif.Driver.DecSyntax
import GomlVerif.Driver.C07
import GomlVerif.Driver.C08
import GomlVerif.Driver.C09
/-!
`gomlmodel c01pipe`: the composite middle-end model `Pipeline.stages` (= `anf ∘ lift ∘ mono`,
`Model/Pipeline.lean`) run on the REAL Core dump and compared with the REAL Mono, Lift and ANF
dumps of the same compilation, plus the fragment predicate of `pipeline_preserves`.

Input line: `id<TAB>(prog core)<TAB>(genv (enums …) (structs …))<TAB>(prog mono)<TAB>(prog lift)<TAB>(prog anf)`.
Output: `id<TAB>EQ|EQT|DIFF|UNSUPPORTED<TAB>first differing stage + detail<TAB>IN|IN-FROM-MONO|OUT<TAB>reasons<TAB>stats`
(`IN` = `InPipeFragment`, `IN-FROM-MONO` = only `InLiftAnfFragment`, the fragment of `pipeline_preserves_partial`).

The one number read off the real output is the state of the pipeline-wide `Gensym` when `mono`
returns (an input of the middle end that the Core dump does not carry): the `env<N>` of the first
apply function, or — without closures, when `lift` hands out no name — the smallest let-bound
`t<n>` of the real ANF.
-/
namespace Goml.Driver.C01pipe
open Goml Goml.Driver Goml.Pipeline

def decGenv : Sexp → Option (List EnumDef × List StructDef)
  | .list [.atom "genv", .list (.atom "enums" :: es), .list (.atom "structs" :: ss)] => do
      pure (← optMapM C07.decEnum es, ← optMapM C07.decStruct ss)
  | _ => none

/-- `env<digits>` -/
def envIndex (x : String) : Option Nat :=
  match x.toList with
  | 'e' :: 'n' :: 'v' :: ds => if !ds.isEmpty && ds.all Char.isDigit then (String.ofList ds).toNat? else none
  | _ => none

def startGensym (nUser : Nat) (L A : Prog) : Nat :=
  match ((L.fns.drop nUser).head?.bind (·.params.head?)).bind (fun p => envIndex p.1) with
  | some n => n
  | none =>
    let ts := A.fns.flatMap (fun f => C09.letTmps f.body)
    match ts with
    | [] => 0
    | t :: rest => rest.foldl min t

/-- drop the function name from `whyRejectedProg`'s answer -/
def liftReason (P P' : Prog) : String :=
  let r := C08.whyRejectedProg P P'
  match r.splitOn ":" with
  | _ :: rest@(_ :: _) => ":".intercalate rest
  | _ => r

def reasons (i : PipeIn) : List String :=
  (pipeReasons i).map fun r =>
    if r == "lift:not-direct-flow" then
      match stages i with
      | some s => "lift:" ++ liftReason s.mono s.lift
      | none => r
    else r

def runLine (l : String) : String :=
  match l.splitOn "\t" with
  | [id, core, genv, mono, lift, anf] =>
    match Sexp.parse core, Sexp.parse genv, Sexp.parse mono, Sexp.parse lift, Sexp.parse anf with
    | some sc, some sg, some sm, some sl, some sa =>
      match decProg sc, decGenv sg, decProg sm, decProg sl, decProg sa with
      | some C, some (es, ss), some M, some L, some A =>
        let i : PipeIn := { gensym := startGensym M.fns.length L A, enums := es, structs := ss, prog := C }
        match stages i with
        | none => s!"{id}\tUNSUPPORTED\t{"; ".intercalate (pipeReasons i)}\tOUT\t{"; ".intercalate (pipeReasons i)}\t"
        | some s =>
          let vm := C09.verdict s.mono.fns M.fns
          let vl := C09.verdict s.lift.fns L.fns
          let va := C09.verdict s.anf.fns A.fns
          let verdict :=
            if vm != "EQ" then "DIFF\tmono: " ++ vm
            else if vl != "EQ" then "DIFF\tlift: " ++ vl
            else if va == "EQ" then "EQ\t"
            else if va.startsWith "EQT" then "EQT\tanf: " ++ va
            else "DIFF\tanf: " ++ va
          let inF := inPipeFragment i
          let rs := if inF then [] else reasons i
          let stats := s!"gensym={i.gensym} core_fns={C.fns.length} mono_fns={s.mono.fns.length} lift_fns={s.lift.fns.length} instances={s.pairs.length}"
          let tag := if inF then "IN" else if inLiftAnfFragment i then "IN-FROM-MONO" else "OUT"
          s!"{id}\t{verdict}\t{tag}\t{"; ".intercalate rs}\t{stats}"
      | _, _, _, _, _ => s!"{id}\tdecode-error\t\t\t\t"
    | _, _, _, _, _ => s!"{id}\tparse-error\t\t\t\t"
  | _ => "?\tbad-line\t\t\t\t"

def main : IO Unit := do
  let stdin ← IO.getStdin
  forEachLine stdin fun l => IO.println (runLine l)

end Goml.Driver.C01pipe
