import GomlVerif.Model.Pipeline
import GomlVerif.Driver.DecSyntax
import GomlVerif.Driver.C07
import GomlVerif.Driver.C08
import GomlVerif.Driver.C09
import GomlVerif.Driver.GoComp
/-!
`gomlmodel c01pipe`: the composite middle-end model `Pipeline.stages` (= `anf ∘ lift ∘ mono`,
`Model/Pipeline.lean`) run on the REAL Core dump and compared with the REAL Mono, Lift and ANF
dumps of the same compilation, plus the fragment predicate of `pipeline_preserves`.

Input line: `id<TAB>(prog core)<TAB>(genv (enums …) (structs …))<TAB>(prog mono)<TAB>(prog lift)<TAB>(prog anf)`
`[<TAB>(env …)<TAB>(afile …)<TAB>(gofile …)]` (the last three: `GlobalGoEnv` dump, real annotated ANF, real Go AST; then four
more output columns `annot=…`, `go=…`, `E2E-IN|E2E-OUT`, reasons, `dce=OK|NO` (`Dce.fileDceOK` of the compiled file),
`EMIT-IN|EMIT-OUT` (`inEmitFragment`), DCE reasons — the back half, `Pipeline.backStages`).
Output: `id<TAB>EQ|EQT|DIFF|UNSUPPORTED<TAB>first differing stage + detail<TAB>IN|IN-FROM-MONO|OUT<TAB>reasons<TAB>stats`
(`IN` = `InPipeFragment`, `IN-FROM-MONO` = only `InLiftAnfFragment`, the fragment of `pipeline_preserves_partial`).

The one number read off the real output is the state of the pipeline-wide `Gensym` when `mono`
returns (an input of the middle end that the Core dump does not carry): the `env<N>` of the first
apply function, or — without closures, when `lift` hands out no name — the smallest let-bound
`t<n>` of the real ANF, or — when `anf` hands out none either — the distance between the `ret<N>` of the first function in the real Go file and in the model's.
-/
namespace Goml.Driver.C01pipe
open Goml Goml.Driver Goml.Pipeline

def decGenv : Sexp → Option (List EnumDef × List StructDef)
  | .list [.atom "genv", .list (.atom "enums" :: es), .list (.atom "structs" :: ss)] => do
      pure (← optMapM C07.decEnum es, ← optMapM C07.decStruct ss)
  | _ => none

/-- `env<digits>` -/
def envIndex (x : String) : Option Nat :=
  match x.toList with
  | 'e' :: 'n' :: 'v' :: ds => if !ds.isEmpty && ds.all Char.isDigit then (String.ofList ds).toNat? else none
  | _ => none

/-- `ret<digits>` / `cond<digits>`: the names `go_file` takes from the shared `Gensym` -/
def goGensymIndex (x : String) : Option Nat :=
  let num (ds : List Char) : Option Nat :=
    if !ds.isEmpty && ds.all Char.isDigit then (String.ofList ds).toNat? else none
  match x.toList with
  | 'r' :: 'e' :: 't' :: ds => num ds
  | 'c' :: 'o' :: 'n' :: 'd' :: ds => num ds
  | _ => none

/-- the `ret<N>` of a compiled function (first declaration of its body) -/
def retIndex (f : Go.GFunc) : Option Nat :=
  f.body.findSome? fun
    | .varDecl x _ _ => goGensymIndex x
    | _ => none

/-- how far the real `go_file` numbering is ahead of the model's, read off the first function both
    files have -/
def goOffset (model real : Go.GFile) : Nat :=
  match model.funcs.findSome? (fun f =>
      match retIndex f, (real.findFunc f.name).bind retIndex with
      | some a, some b => some (b - a)
      | _, _ => none) with
  | some d => d
  | none => 0

/-- `none`: neither `lift` nor `anf` took a name from the `Gensym` -/
def startGensym? (nUser : Nat) (L A : Prog) : Option Nat :=
  match ((L.fns.drop nUser).head?.bind (·.params.head?)).bind (fun p => envIndex p.1) with
  | some n => some n
  | none =>
    let ts := A.fns.flatMap (fun f => C09.letTmps f.body)
    match ts with
    | [] => none
    | t :: rest => some (rest.foldl min t)

def startGensym (nUser : Nat) (L A : Prog) : Nat := (startGensym? nUser L A).getD 0

/-- drop the function name from `whyRejectedProg`'s answer -/
def liftReason (P P' : Prog) : String :=
  let r := C08.whyRejectedProg P P'
  match r.splitOn ":" with
  | _ :: rest@(_ :: _) => ":".intercalate rest
  | _ => r

def reasons (i : PipeIn) : List String :=
  (pipeReasons i).map fun r =>
    if r == "lift:not-direct-flow" then
      match stages i with
      | some s => "lift:" ++ liftReason s.mono s.lift
      | none => r
    else r

/-! ### printer of the annotated ANF (comparison of `annotFile` with the real annotations) -/
open Goml.GoCompile (Imm CExpr AExpr AArm ADflt AFn AFile) in
def showI : Imm → String
  | .var x t => s!"(var {x} {reprStr t})"
  | .prim p t => s!"(prim {reprStr p} {reprStr t})"
  | .tag i t => s!"(tag {i} {reprStr t})"

open Goml.GoCompile (Imm CExpr AExpr AArm ADflt AFn AFile) in
mutual
partial def showC : CExpr → String
  | .imm i => showI i
  | .constr c args t => s!"(constr {reprStr c} {" ".intercalate (args.map showI)} {reprStr t})"
  | .tuple is t => s!"(tuple {" ".intercalate (is.map showI)} {reprStr t})"
  | .array is t => s!"(array {" ".intercalate (is.map showI)} {reprStr t})"
  | .matchE sc arms d t =>
    s!"(match {showI sc} ({" ".intercalate (arms.map fun | .mk l b => s!"(arm {showI l} {showA b})")}) {match d with | .none => "none" | .some e => showA e} {reprStr t})"
  | .ite c t e ty => s!"(if {showI c} {showA t} {showA e} {reprStr ty})"
  | .while c b ty => s!"(while {showA c} {showA b} {reprStr ty})"
  | .cget e c i t => s!"(cget {showI e} {reprStr c} {i} {reprStr t})"
  | .un op e t => s!"(un {reprStr op} {showI e} {reprStr t})"
  | .bin op l r t => s!"(bin {reprStr op} {showI l} {showI r} {reprStr t})"
  | .call f args t => s!"(call {showI f} {" ".intercalate (args.map showI)} {reprStr t})"
  | .toDyn tr ft e t => s!"(todyn {tr} {reprStr ft} {showI e} {reprStr t})"
  | .dynCall tr m r args t => s!"(dyncall {tr} {m} {showI r} {" ".intercalate (args.map showI)} {reprStr t})"
  | .go e t => s!"(go {showI e} {reprStr t})"
  | .proj e i t => s!"(proj {showI e} {i} {reprStr t})"
partial def showA : AExpr → String
  | .ret c => showC c
  | .letE x v b t => s!"(let {x} {showC v} {showA b} {reprStr t})"
end

def showAFn (f : Goml.GoCompile.AFn) : String := s!"(fn {f.name} {reprStr f.params} {reprStr f.ret} {showA f.body})"

def cmpAFile (model real : Goml.GoCompile.AFile) : String :=
  if model.length != real.length then s!"DIFF function count {model.length} vs {real.length}" else
  match (model.zip real).findSome? fun (m, r) =>
      let sm := showAFn m
      let sr := showAFn r
      if sm == sr then none else some s!"DIFF fn {r.name} {C09.firstDiff sm sr}" with
  | none => "EQ"
  | some d => C09.clean d

/-- the back half: `annot` (model's re-annotation of its own ANF vs the real annotated ANF), `go`
    (model's emitted file vs the real `go_file` output), `InE2EFragment` and the reason outside -/
def backCols (i : PipeIn) (goenvS aanfS goS : String) : String :=
  match (Sexp.parse goenvS).bind GoComp.decEnv, (Sexp.parse aanfS).bind GoComp.decAFile, (Sexp.parse goS).bind decGFile with
  | some env, some realA, some realGo =>
    let e : E2EIn := { pipe := i, goenv := env }
    match backStages e with
    | none => "annot=UNSUPPORTED\tgo=UNSUPPORTED\tE2E-OUT\tgo:anf-not-annotatable\tdce=NO\tEMIT-OUT\t"
    | some b =>
      let va := cmpAFile b.afile realA
      let vg :=
        if !b.ok then "UNSUPPORTED" else
        match Goml.Driver.Dce.firstDiff b.emitted.items realGo.items with
        | none => "EQ"
        | some d =>
          -- `EQA`: equal once the back-end model is given the REAL annotations (the re-annotation
          -- differs from `anf.rs` on a closure-typed `let`/`if` node: lift.rs leaves the function type
          -- on the node and the environment struct type on its body — C09's `EQT` artefact)
          let viaReal := Goml.Dce.eliminateDeadVars (GoCompile.goFilePreSt env realA b.gensym).1
          if (Goml.Driver.Dce.firstDiff viaReal.items realGo.items).isNone then "EQA:" ++ C09.clean d
          else "DIFF:" ++ C09.clean d
      let inE := inE2EFragment e
      let rs := if inE then [] else (if inPipeFragment i then [] else ["middle-end"]) ++ goReasons e
      -- the DCE contract of the compiled file, and the fragment of `core_to_emitted_go_preserves`
      let dceOk := fragDce b
      let drs := if dceOk then [] else dceReasons e
      let emit := if inE && dceOk then "EMIT-IN" else "EMIT-OUT"
      s!"annot={va}\tgo={vg}\t{if inE then "E2E-IN" else "E2E-OUT"}\t{"; ".intercalate (rs.map fun r => (C09.clean r).replace ";" ",")}\tdce={if dceOk then "OK" else "NO"}\t{emit}\t{"; ".intercalate (drs.map C09.clean)}"
  | a, b, c => s!"annot=decode-error env={a.isSome} aanf={b.isSome} go={c.isSome}\tgo=decode-error\tE2E-OUT\t\tdce=NO\tEMIT-OUT\t"

def runLine (l : String) : String :=
  match l.splitOn "\t" with
  | id :: core :: genv :: mono :: lift :: anf :: more =>
    match Sexp.parse core, Sexp.parse genv, Sexp.parse mono, Sexp.parse lift, Sexp.parse anf with
    | some sc, some sg, some sm, some sl, some sa =>
      match decProg sc, decGenv sg, decProg sm, decProg sl, decProg sa with
      | some C, some (es, ss), some M, some L, some A =>
        let i0 : PipeIn := { gensym := startGensym M.fns.length L A, enums := es, structs := ss, prog := C }
        -- neither `lift` nor `anf` took a name: the counter reaches `go_file` unchanged, read it off the real Go file
        let i : PipeIn :=
          match startGensym? M.fns.length L A, more with
          | none, [goenvS, _, goS] =>
            match (Sexp.parse goenvS).bind GoComp.decEnv, (Sexp.parse goS).bind decGFile with
            | some env, some realGo =>
              match backStages { pipe := i0, goenv := env } with
              | some b => { i0 with gensym := goOffset b.emitted realGo }
              | none => i0
            | _, _ => i0
          | _, _ => i0
        match stages i with
        | none => s!"{id}\tUNSUPPORTED\t{"; ".intercalate (pipeReasons i)}\tOUT\t{"; ".intercalate (pipeReasons i)}\t"
        | some s =>
          let vm := C09.verdict s.mono.fns M.fns
          let vl := C09.verdict s.lift.fns L.fns
          let va := C09.verdict s.anf.fns A.fns
          let verdict :=
            if vm != "EQ" then "DIFF\tmono: " ++ vm
            else if vl != "EQ" then "DIFF\tlift: " ++ vl
            else if va == "EQ" then "EQ\t"
            else if va.startsWith "EQT" then "EQT\tanf: " ++ va
            else "DIFF\tanf: " ++ va
          let inF := inPipeFragment i
          let rs := if inF then [] else reasons i
          let stats := s!"gensym={i.gensym} core_fns={C.fns.length} mono_fns={s.mono.fns.length} lift_fns={s.lift.fns.length} instances={s.pairs.length}"
          let tag := if inF then "IN" else if inLiftAnfFragment i then "IN-FROM-MONO" else "OUT"
          let back := match more with
            | [goenvS, aanfS, goS] => "\t" ++ backCols i goenvS aanfS goS
            | _ => ""
          s!"{id}\t{verdict}\t{tag}\t{"; ".intercalate rs}\t{stats}{back}"
      | _, _, _, _, _ => s!"{id}\tdecode-error\t\t\t\t"
    | _, _, _, _, _ => s!"{id}\tparse-error\t\t\t\t"
  | _ => "?\tbad-line\t\t\t\t"

def main : IO Unit := do
  let stdin ← IO.getStdin
  forEachLine stdin fun l => IO.println (runLine l)

end Goml.Driver.C01pipe
