import GomlVerif.Model.Wt
import GomlVerif.Driver.C07
/-! driver for C03: `(wtcase stage (file …) (enums …) (structs …) (builtins …) (traits …))` →
`ok` or the list of inconsistencies per function, plus the closedness residues for the stages after mono -/
namespace Goml.Driver.C03
open Goml Goml.Wt

def decBuiltin : Sexp → Option (String × Ty)
  | .list [.atom n, t] => do pure (n, ← decTy t)
  | _ => none

def decTrait : Sexp → Option TraitDef
  | .list (.atom "trait" :: .atom n :: ms) => do
      pure { name := n, methods := ← optMapM decBuiltin ms }
  | _ => none

def decWt : Sexp → Option (String × Sig)
  | .list [.atom "wtcase", .atom stage, .list (.atom "file" :: fns), .list (.atom "enums" :: es),
           .list (.atom "structs" :: ss), .list (.atom "builtins" :: bs), .list (.atom "traits" :: ts)] => do
      pure (stage, { fns := ← optMapM decFn fns, enums := ← optMapM C07.decEnum es, structs := ← optMapM C07.decStruct ss,
                     builtins := ← optMapM decBuiltin bs, traits := ← optMapM decTrait ts })
  | _ => none

def dedup (xs : List String) : List String := xs.foldl (fun acc x => if acc.contains x then acc else acc ++ [x]) []

def runLine (l : String) : String :=
  let (id, rest) := splitTab l
  match Sexp.parse rest with
  | none => s!"{id}\tparse-error"
  | some sx =>
    match decWt sx with
    | none => s!"{id}\tdecode-error"
    | some (stage, S) =>
      let bad := S.fns.filterMap fun f =>
        match dedup (fnErrs S f) with
        | [] => none
        | es => some (f.name ++ " => " ++ ", ".intercalate es)
      let open_ := if stage == "core" then [] else S.fns.filterMap fun f =>
        match C07.residue f with
        | [] => none
        | ks => some (f.name ++ ":" ++ ",".intercalate ks)
      -- monomorphic type definitions of the stage environment must be closed too
      let open_ := if stage == "core" then open_ else open_ ++ (C07.defResidues S.enums S.structs)
      let w := if bad.isEmpty then "wt" else "ill"
      let c := if open_.isEmpty then "closed" else "open"
      s!"{id}\t{w}\t{c}\t{" ;; ".intercalate bad}\t{" ;; ".intercalate open_}"

def main : IO Unit := do
  let stdin ← IO.getStdin
  forEachLine stdin fun l => IO.println (runLine l)

end Goml.Driver.C03
