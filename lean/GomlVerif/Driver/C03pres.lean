import GomlVerif.Driver.C03
import GomlVerif.Driver.C09
import GomlVerif.Model.AnfFrag
/-!
`gomlmodel c03pres`: the hypotheses and the conclusions of the preservation theorems
(`Props/C03pres.lean`) evaluated on REAL stage dumps.

Input line: `id<TAB>(pres anf <wtcase lift> <wtcase anf>)` — the Lift dump of a program (input of
`anf_file`) and its ANF dump, each with the signature environment of its stage.
Output, per program: the L1 tie of the pass model (`anfFns` from the counter the pipeline started
with) against the real ANF dump; per function: is it inside the decidable hypothesis
(`inAnfFragment`), is the input `wtFn`, is the model's output `wtFn` (the theorem says: hypothesis ∧
input ⇒ output; a counter-instance would be a broken proof and is reported), closedness in/out.
-/
namespace Goml.Driver.C03pres
open Goml Goml.Wt Goml.Anf Goml.Closed

def count (l : List Bool) : Nat := (l.filter (fun b => b)).length

def startCounter (A : List Fn) : Nat :=
  let ts := A.flatMap (fun f => C09.letTmps f.body)
  match ts with
  | [] => 0
  | t :: rest => rest.foldl min t

def runAnf (id : String) (SL SA : Sig) : String :=
  let s := startCounter SA.fns
  let model := (anfFns SL.fns s).1
  let tie := C09.verdict model SA.fns
  let tieTag := (tie.splitOn " ").headD "?"
  let flags := anfFragFlags SL.fns s
  let rows := (SL.fns.zip model).zip flags
  let wtIn := rows.map fun ((f, _), _) => wtFn SL f
  let wtOut := rows.map fun ((_, g), _) => wtFn SL g
  let wtOutReal := SA.fns.map fun g => wtFn SA g
  let appl := rows.map fun ((f, _), h) => h && wtFn SL f
  let contra := (rows.filter fun ((f, g), h) => h && wtFn SL f && !wtFn SL g).map fun ((f, _), _) => f.name
  let clIn := rows.map fun ((f, _), _) => fnAllTys closedTy f
  let clBoth := rows.map fun ((f, g), _) => fnAllTys closedTy f && fnAllTys closedTy g
  let clContra := (rows.filter fun ((f, g), _) => fnAllTys closedTy f && !fnAllTys closedTy g).map fun ((f, _), _) => f.name
  let notIn := (rows.filter fun (_, h) => !h).map fun ((f, _), _) => f.name
  s!"{id}\tanf\ttie={tieTag}\tstart={s}\tfns={SL.fns.length}\thyp={count flags}\twt_in={count wtIn}\tapplicable={count appl}" ++
  s!"\twt_out_model={count wtOut}\twt_out_real={count wtOutReal}\tcontra={" ".intercalate (contra.take 5)}" ++
  s!"\tclosed_in={count clIn}\tclosed_both={count clBoth}\tclosed_contra={" ".intercalate (clContra.take 5)}" ++
  s!"\tnot_in_hyp={" ".intercalate (notIn.take 5)}"

def runLine (l : String) : String :=
  let (id, rest) := splitTab l
  match Sexp.parse rest with
  | some (.list [.atom "pres", .atom "anf", a, b]) =>
    match C03.decWt a, C03.decWt b with
    | some (_, SL), some (_, SA) => runAnf id SL SA
    | _, _ => s!"{id}\tdecode-error"
  | _ => s!"{id}\tparse-error"

def main : IO Unit := do
  let stdin ← IO.getStdin
  forEachLine stdin fun l => IO.println (runLine l)

end Goml.Driver.C03pres
