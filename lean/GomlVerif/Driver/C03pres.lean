import GomlVerif.Driver.C03
import GomlVerif.Driver.C09
import GomlVerif.Model.AnfFrag
import GomlVerif.Model.C03presMono
import GomlVerif.Model.C03presSig
import GomlVerif.Model.C03presMatch
import GomlVerif.Model.Scoped
import GomlVerif.Model.C03presLift
import GomlVerif.Lemmas.LiftNoClosure
import GomlVerif.Driver.C06
/-!
`gomlmodel c03pres`: the hypotheses and the conclusions of the preservation theorems
(`Props/C03pres.lean`) evaluated on REAL stage dumps.

Input line: `id<TAB>(pres anf <wtcase lift> <wtcase anf>)` — the Lift dump of a program (input of
`anf_file`) and its ANF dump, each with the signature environment of its stage.
Output, per program: the L1 tie of the pass model (`anfFns` from the counter the pipeline started
with) against the real ANF dump; per function: is it inside the decidable hypothesis
(`inAnfFragment`), is the input `wtFn`, is the model's output `wtFn` (the theorem says: hypothesis ∧
input ⇒ output; a counter-instance would be a broken proof and is reported), closedness in/out.
-/
namespace Goml.Driver.C03pres
open Goml Goml.Wt Goml.Anf Goml.Closed

def count (l : List Bool) : Nat := (l.filter (fun b => b)).length

/-- the global names of a stage: the functions of the file, builtins and externs -/
def globals (S : Sig) : List String := S.fns.map (·.name) ++ S.builtins.map (·.1)

def startCounter (A : List Fn) : Nat :=
  let ts := A.flatMap (fun f => C09.letTmps f.body)
  match ts with
  | [] => 0
  | t :: rest => rest.foldl min t

def runAnf (id : String) (SL SA : Sig) : String :=
  let s := startCounter SA.fns
  let model := (anfFns SL.fns s).1
  let tie := C09.verdict model SA.fns
  let tieTag := (tie.splitOn " ").headD "?"
  let flags := anfFragFlags SL.fns s
  let rows := (SL.fns.zip model).zip flags
  let wtIn := rows.map fun ((f, _), _) => wtFn SL f
  let wtOut := rows.map fun ((_, g), _) => wtFn SL g
  let wtOutReal := SA.fns.map fun g => wtFn SA g
  let appl := rows.map fun ((f, _), h) => h && wtFn SL f
  let contra := (rows.filter fun ((f, g), h) => h && wtFn SL f && !wtFn SL g).map fun ((f, _), _) => f.name
  let clIn := rows.map fun ((f, _), _) => fnAllTys closedTy f
  let clBoth := rows.map fun ((f, g), _) => fnAllTys closedTy f && fnAllTys closedTy g
  let clContra := (rows.filter fun ((f, g), _) => fnAllTys closedTy f && !fnAllTys closedTy g).map fun ((f, _), _) => f.name
  let notIn := (rows.filter fun (_, h) => !h).map fun ((f, _), _) => f.name
  -- `EQT` (C09: the type annotation of a reference to a temporary differs) is tolerated only when both outputs are judged alike
  let judgeDiff := if model.length != SA.fns.length then ["function-count"] else
    ((model.zip SA.fns).filter fun (g, r) => wtFn SL g != wtFn SA r).map fun (g, _) => g.name
  let G := globals SL
  let scIn := rows.map fun ((f, _), _) => Scoped.scopedFn G f
  let scAppl := rows.map fun ((f, _), h) => h && Scoped.scopedFn G f
  let scOut := rows.map fun ((_, g), _) => Scoped.scopedFn G g
  let scOutReal := SA.fns.map fun g => Scoped.scopedFn (globals SA) g
  let scContra := (rows.filter fun ((f, g), h) => h && Scoped.scopedFn G f && !Scoped.scopedFn G g).map fun ((f, _), _) => f.name
  -- implementation-level: a scoped Lift function inside the hypothesis whose REAL ANF form is not scoped
  let unscopedReal := if SA.fns.length != SL.fns.length then [] else
    (((SL.fns.zip SA.fns).zip flags).filter fun ((f, g), h) =>
      h && Scoped.scopedFn G f && !Scoped.scopedFn (globals SA) g).map fun ((f, _), _) => f.name
  s!"{id}\tanf\ttie={tieTag}\tstart={s}\tfns={SL.fns.length}\thyp={count flags}\twt_in={count wtIn}\tapplicable={count appl}" ++
  s!"\twt_out_model={count wtOut}\twt_out_real={count wtOutReal}\tcontra={" ".intercalate (contra.take 5)}" ++
  s!"\tclosed_in={count clIn}\tclosed_both={count clBoth}\tclosed_contra={" ".intercalate (clContra.take 5)}" ++
  s!"\tscoped_in={count scIn}\tscoped_applicable={count scAppl}\tscoped_out_model={count scOut}\tscoped_out_real={count scOutReal}" ++
  s!"\tscoped_contra={" ".intercalate (scContra.take 5)}" ++
  s!"\tjudge_diff={" ".intercalate (judgeDiff.take 5)}\tunscoped_real={" ".intercalate (unscopedReal.take 5)}" ++
  s!"\tnot_in_hyp={" ".intercalate (notIn.take 5)}"

/-- `(pres mono <wtcase core> <wtcase mono>)`: the decidable hypotheses of `mono_phase1_preserves_wtProg_partial`
(`sigClosedB`, every generic function `wtFn`, `Mono.presHypProg`) on the REAL Core dump, and its conclusion
re-evaluated on the model's phase-1 output; the real Mono dump (after phase 2) is judged for comparison -/
def runMono (id : String) (SC SM : Sig) (fuel : Nat) : String :=
  let F := Mono.origFns SC.fns
  let closed := sigClosedB SC
  let wtIn := F.map (wtFn SC)
  let wtOutReal := SM.fns.map (wtFn SM)
  match Mono.phase1 fuel SC.fns with
  | none => s!"{id}\tmono\tphase1=fuel\tfns={F.length}"
  | some c' =>
    let hyp := Mono.presHypProg SC fuel SC.fns
    let S' := Mono.presSig SC c'.out
    let wtOut := c'.out.map (wtFn S')
    let appl := closed && wtIn.all (fun b => b) && hyp
    let contra := appl && !(wtOut.all (fun b => b))
    let b2n (b : Bool) : Nat := if b then 1 else 0
    s!"{id}\tmono\tphase1=ok\tfns={F.length}\twt_in={count wtIn}\tsig_closed={b2n closed}\thyp_prog={b2n hyp}" ++
    s!"\tapplicable_prog={b2n appl}\tinstances={c'.out.length}\twt_out_model={count wtOut}" ++
    s!"\treal_fns={SM.fns.length}\twt_out_real={count wtOutReal}\tcontra={if contra then "program" else ""}\tnot_in_hyp={if hyp then "" else "whole-program"}"

/-- functions in the hypothesis of `liftFn_preserves_wt_partial` (closure-free, lifted before any closure type is
registered, recomputed annotations in place), with the state threaded as `liftFns` does; for each: is the model's
output the function itself, is the REAL Lift output (same name) the function itself -/
def stableFns (st : Lift.State) (real : List Fn) : List Fn → Nat × Nat × Nat
  | [] => (0, 0, 0)
  | f :: rest =>
    let r := Lift.liftFn st f
    let (a, b, c) := stableFns r.2 real rest
    if Lift.noClosure f.body && Lift.presHypStableFn st f then
      let same := C09.showFn false r.1 == C09.showFn false f
      let sameReal := match real.find? (·.name == f.name) with
        | some g => C09.showFn false g == C09.showFn false f
        | none => false
      (a + 1, b + (if same then 1 else 0), c + (if sameReal then 1 else 0))
    else (a, b, c)

/-- `(pres lift <wtcase mono> <wtcase lift>)`: the decidable hypotheses of `lift_preserves_scoped`
(`presHypArity` on every body, `scopedFns` of the real Mono dump) and its conclusion re-evaluated on the model's
`liftFile` (any environment: the theorem holds for all), plus `scopedFns` of the REAL Lift dump -/
def runLift (id : String) (SM SL : Sig) : String :=
  let G := globals SM
  let arity := SM.fns.map fun f => Lift.presHypArity f.body
  let scIn := SM.fns.map (Scoped.scopedFn G)
  let appl := arity.all (fun b => b) && scIn.all (fun b => b)
  -- the lifting environment, rebuilt from the Mono dump: the monomorphic definitions (the dump's environment also lists
  -- the generic definitions of genv, which `lambda_lift` never reads)
  let env : Lift.Env := { gensym := 0, funcs := SM.fns.map fun f => (f.name, fnTy f),
                          structs := SM.structs.filter (·.generics.isEmpty), enums := SM.enums.filter (·.generics.isEmpty) }
  let r := Lift.liftFile env SM.fns
  let G' := G ++ r.2.newFns.map (·.name)
  let scOut := r.1.map (Scoped.scopedFn G')
  let scOutReal := SL.fns.map (Scoped.scopedFn (globals SL))
  let contra := appl && !(scOut.all (fun b => b))
  let unscopedReal := if appl then (SL.fns.filter fun g => !Scoped.scopedFn (globals SL) g).map (·.name) else []
  let tyHyp := Lift.presHypEnvTys closedTy env && Lift.presHypFnsTys closedTy SM.fns
  let tyOut := r.1.map (fnAllTys closedTy)
  let tyOutReal := SL.fns.map (fnAllTys closedTy)
  let tyContra := tyHyp && !(tyOut.all (fun b => b))
  let (nStable, nSame, nSameReal) := stableFns (Lift.initState env) SL.fns SM.fns
  let b2n (b : Bool) : Nat := if b then 1 else 0
  s!"{id}\tlift\tfns={SM.fns.length}\thyp_arity={count arity}\tscoped_in={count scIn}\tapplicable_prog={b2n appl}" ++
  s!"\tmodel_fns={r.1.length}\tapply_fns={r.2.newFns.length}\tscoped_out_model={count scOut}" ++
  s!"\treal_fns={SL.fns.length}\tscoped_out_real={count scOutReal}\tcontra={if contra then "program" else ""}" ++
  s!"\tclosedty_hyp_prog={b2n tyHyp}\tclosedty_out_model={count tyOut}\tclosedty_out_real={count tyOutReal}" ++
  s!"\tclosed_contra={if tyContra then "program" else ""}" ++
  s!"\twt_partial_applicable={nStable}\twt_partial_model_identity={nSame}\twt_partial_real_identity={nSameReal}" ++
  s!"\tscoped_contra={if nSame != nStable then "wt-partial-identity" else ""}" ++
  s!"\tunscoped_real={" ".intercalate (unscopedReal.take 5)}" ++
  s!"\tnot_in_hyp={if appl then "" else "whole-program"}"

def runLine (l : String) : String :=
  let (id, rest) := splitTab l
  match Sexp.parse rest with
  | some (.list [.atom "pres", .atom "anf", a, b]) =>
    match C03.decWt a, C03.decWt b with
    | some (_, SL), some (_, SA) => runAnf id SL SA
    | _, _ => s!"{id}\tdecode-error"
  | some (.list [.atom "pres", .atom "mono", a, b]) =>
    match C03.decWt a, C03.decWt b with
    | some (_, SC), some (_, SM) => runMono id SC SM 5000
    | _, _ => s!"{id}\tdecode-error"
  | some (.list [.atom "pres", .atom "lift", a, b]) =>
    match C03.decWt a, C03.decWt b with
    | some (_, SM), some (_, SL) => runLift id SM SL
    | _, _ => s!"{id}\tdecode-error"
  | _ => s!"{id}\tparse-error"

def main : IO Unit := do
  let stdin ← IO.getStdin
  forEachLine stdin fun l => IO.println (runLine l)

/-! ### `gomlmodel c03presmatch`: `matchc_preserves_closed` on the REAL match sites (input: `c06.cases.tsv`) -/

open Goml.Match in
/-- one `compile_match` site: the decidable hypotheses (`presHypRows`, `presHypNames`) on the real pattern
matrix, closedness of the MODEL's tree (the theorem's conclusion) and closedness of the REAL Core
expression the compiler emitted for the site -/
def runMatchSite (S : Match.Sig) (site : C06.Site) (real : String × String) : String :=
  let si := C06.mkSite site
  let Γ := ["missing", "string_print", si.x, si.scrutVar]
  let T := [(si.x, si.scrutTy)]
  let hyp := presHypRows S fvE Γ T si.rows && presHypNames T
  let (mk, mclosed) := match compileRows S (measure si.rows + 1) si.ty si.n0 si.rows with
    | some (.ok r) => ("tree", closedE Γ r.1.toExpr)
    | some (.error _) => ("error", true)
    | none => ("fuel", true)
  let (rk, rclosed) := match real.1 with
    | "CORE" =>
      match (Sexp.parse real.2).bind decExpr with
      | some core => ("core", closedE Γ core)
      | none => ("decode-error", true)
    | k => (k.toLower, true)
  let b2n (b : Bool) : Nat := if b then 1 else 0
  s!"hyp={b2n hyp}\tmodel={mk}\tclosed_model={b2n mclosed}\treal={rk}\tclosed_real={b2n rclosed}\tcontra={b2n (hyp && !mclosed)}"

def mainMatch : IO Unit := do
  let stdin ← IO.getStdin
  let sigRef ← IO.mkRef ({ enums := [], structs := [], gen := Match.realGen } : Match.Sig)
  forEachLine stdin fun l => do
    match l.splitOn "\t" with
    | [_, "SIG", sx] =>
      match (Sexp.parse sx).bind C06.decSig with
      | some S => sigRef.set S
      | none => IO.println s!"#sig-decode-error"
    | id :: "SITE" :: sx :: kind :: payload :: _ =>
      match (Sexp.parse sx).bind C06.decSite with
      | some site => IO.println s!"{id}\t{runMatchSite (← sigRef.get) site (kind, payload)}"
      | none => IO.println s!"{id}\tsite-decode-error"
    | _ => pure ()

end Goml.Driver.C03pres
