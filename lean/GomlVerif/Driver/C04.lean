import GomlVerif.Model.ParserFuel
import GomlVerif.Driver.Common
/-! driver for C04: one op sequence per line (`id<TAB>kinds…<TAB>ops…`); prints what the model of
the parser primitives observes after every op and the final event counters -/
namespace Goml.Driver.C04
open Goml Goml.ParserFuel

def tf (b : Bool) : String := if b then "T" else "F"

def repeatLook (n off : Nat) (s : St) : String × St :=
  (List.range n).foldl (fun (acc : String × St) _ => let (k, s') := look acc.2 off; (k, s')) ("", s)

def step (acc : List String × St) (op : String) : List String × St :=
  let (out, s) := acc
  if op == "p" then let (k, s') := peek s; (out ++ [k], s')
  else if op == "a" then (out ++ ["-"], advance s)
  else if op == "w" then (out ++ ["-"], advanceWithError s)
  else if op == "f" then (out ++ [tf (isEof s)], s)
  else if op.startsWith "x:" then (out ++ ["-"], expect s (op.drop 2).toString)
  else if op.startsWith "e:" then let (b, s') := eat s (op.drop 2).toString; (out ++ [tf b], s')
  else if op.startsWith "t:" then let (b, s') := atK s (op.drop 2).toString; (out ++ [tf b], s')
  else if op.startsWith "n" then let (k, s') := nth s ((op.drop 1).toString.toNat?.getD 0); (out ++ [k], s')
  else if op.startsWith "P" then let (k, s') := repeatLook ((op.drop 1).toString.toNat?.getD 0) 0 s; (out ++ [k], s')
  else if op.startsWith "N" then let (k, s') := repeatLook ((op.drop 1).toString.toNat?.getD 0) 1 s; (out ++ [k], s')
  else (out ++ ["?"], s)

def runLine (l : String) : String :=
  match l.splitOn "\t" with
  | [id, kinds, ops] =>
    let toks := (kinds.splitOn " ").filter (· ≠ "")
    let os := (ops.splitOn " ").filter (· ≠ "")
    let (out, s) := os.foldl step ([], init toks)
    s!"{id}\t{" ".intercalate out} A={s.advances} E={s.errors} D={s.stuckDiags}"
  | _ => "?\tparse-error"

def main : IO Unit := do
  let stdin ← IO.getStdin
  forEachLine stdin fun l => IO.println (runLine l)

end Goml.Driver.C04
