import GomlVerif.Model.Resolve
import GomlVerif.Driver.Common
/-! driver for C05: input `(fns (file (ctors x…) (defs y…) (fn ((x tag)…) body)…)…)`, output
    `spec_eq con_ok scoped fresh <use→binder map of the implementation model> <… of the specification>` -/
namespace Goml.Driver.C05
open Goml Goml.Resolve

partial def decPat : Sexp → Option Pat
  | .list [.atom "pv", .atom x, t] => do pure (.var x (← t.nat?))
  | .list (.atom "po" :: ps) => do pure (.other (← optMapM decPat ps))
  | _ => none

def decParam : Sexp → Option (String × Nat)
  | .list [.atom x, t] => do pure (x, ← t.nat?)
  | _ => none

mutual
partial def decExpr : Sexp → Option Expr
  | .list [.atom "v", .atom x, t] => do pure (.var x (← t.nat?))
  | .list (.atom "k" :: .atom x :: t :: args) => do
      pure (.con x (← t.nat?) (← optMapM decExpr args))
  | .list (.atom "n" :: es) => do pure (.node (← optMapM decExpr es))
  | .list (.atom "b" :: items) => do pure (.block (← optMapM decItem items))
  | .list (.atom "m" :: scrut :: arms) => do
      pure (.matchE (← decExpr scrut) (← optMapM decArm arms))
  | .list [.atom "c", .list ps, body] => do
      pure (.closure (← optMapM decParam ps) (← decExpr body))
  | _ => none
partial def decItem : Sexp → Option Item
  | .list [.atom "let", p, v] => do pure (.letI (← decPat p) (← decExpr v))
  | e => do pure (.exprI (← decExpr e))
partial def decArm : Sexp → Option Arm
  | .list [.atom "arm", p, b] => do pure (.mk (← decPat p) (← decExpr b))
  | _ => none
end

def decFn : Sexp → Option (List (String × Nat) × Expr)
  | .list [.atom "fn", .list ps, body] => do pure (← optMapM decParam ps, ← decExpr body)
  | _ => none

/-- id → tag table from bind events, then `use tag → binder tag | C | G | -`, in event order -/
def canon (evs : List Ev) : List (Nat × String) :=
  let binds := evs.filterMap fun | .bind id tag => some (id, tag) | _ => none
  evs.filterMap fun
    | .use tag (.loc id) => some (tag, match binds.find? (·.1 == id) with
        | some b => toString b.2
        | none => "?")
    | .use tag .ctor => some (tag, "C")
    | .use tag .defn => some (tag, "G")
    | .use tag .unbound => some (tag, "-")
    | _ => none

def render (m : List (Nat × String)) : String :=
  " ".intercalate (m.map fun (t, r) => s!"{t}>{r}")

def names (ps : List (String × Nat)) : List String := ps.map (·.1)

def atoms (l : List Sexp) : List String :=
  l.filterMap fun | .atom x => some x | _ => none

structure FileIn where
  G : Globals
  fns : List (List (String × Nat) × Expr)

def decFile : Sexp → Option FileIn
  | .list (.atom "file" :: .list (.atom "ctors" :: cs) :: .list (.atom "defs" :: ds) :: fs) => do
      pure { G := { ctors := atoms cs, defs := atoms ds }, fns := ← optMapM decFn fs }
  | _ => none

def runLine (l : String) : String :=
  let (id, rest) := splitTab l
  match Sexp.parse rest with
  | some (.list (.atom "fns" :: files)) =>
    match optMapM decFile files with
    | some fs =>
      let outs := fs.flatMap fun f => f.fns.map fun (ps, body) =>
        let impl := (resolveFn f.G ps body).out
        let spec := (specFn f.G ps body).evs
        -- lowering called no locally bound name a constructor (hypothesis of `resolve_refines_spec`)
        let conOk := conOkExpr f.G (names ps) body
        -- package-level names are the outermost scope: a local binder of the same name shadows them
        let isSc := scopedExpr (f.G.ctors ++ f.G.defs ++ names ps) body
        let ids := bindIds impl
        let fresh := ids == List.range ids.length
        (canon impl, canon spec, conOk, isSc, fresh)
      let implS := render (outs.flatMap fun (i, _, _, _, _) => i)
      let specS := render (outs.flatMap fun (_, s, _, _, _) => s)
      let allCon := outs.all fun (_, _, c, _, _) => c
      -- `resolve_refines_spec`: under `conOk` the two outputs are equal
      let specOk := outs.all fun (i, s, c, _, _) => !c || i == s
      let allSc := outs.all fun (_, _, _, sc, _) => sc
      let allFresh := outs.all fun (_, _, _, _, f) => f
      s!"{id}\tspec_eq={specOk}\tcon_ok={allCon}\tscoped={allSc}\tfresh={allFresh}\t{implS}\t{specS}"
    | none => s!"{id}\tdecode-error"
  | _ => s!"{id}\tparse-error"

def main : IO Unit := do
  let stdin ← IO.getStdin
  forEachLine stdin fun l => IO.println (runLine l)

end Goml.Driver.C05
