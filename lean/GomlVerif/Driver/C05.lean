import GomlVerif.Model.Resolve
import GomlVerif.Driver.Common
/-! driver for C05: input `(fns (fn (params (x tag)…) body)…)`, output canonical use→binder map -/
namespace Goml.Driver.C05
open Goml Goml.Resolve

partial def decPat : Sexp → Option Pat
  | .list [.atom "pv", .atom x, t] => do pure (.var x (← t.nat?))
  | .list (.atom "po" :: ps) => do pure (.other (← optMapM decPat ps))
  | _ => none

def decParam : Sexp → Option (String × Nat)
  | .list [.atom x, t] => do pure (x, ← t.nat?)
  | _ => none

mutual
partial def decExpr : Sexp → Option Expr
  | .list [.atom "v", .atom x, t] => do pure (.var x (← t.nat?))
  | .list (.atom "n" :: es) => do pure (.node (← optMapM decExpr es))
  | .list (.atom "b" :: items) => do pure (.block (← optMapM decItem items))
  | .list (.atom "m" :: scrut :: arms) => do
      pure (.matchE (← decExpr scrut) (← optMapM decArm arms))
  | .list [.atom "c", .list ps, body] => do
      pure (.closure (← optMapM decParam ps) (← decExpr body))
  | _ => none
partial def decItem : Sexp → Option Item
  | .list [.atom "let", p, v] => do pure (.letI (← decPat p) (← decExpr v))
  | e => do pure (.exprI (← decExpr e))
partial def decArm : Sexp → Option Arm
  | .list [.atom "arm", p, b] => do pure (.mk (← decPat p) (← decExpr b))
  | _ => none
end

def decFn : Sexp → Option (List (String × Nat) × Expr)
  | .list [.atom "fn", .list ps, body] => do pure (← optMapM decParam ps, ← decExpr body)
  | _ => none

/-- id → tag table from bind events, then `use tag → binder tag | none`, in event order -/
def canon (evs : List Ev) : List (Nat × Option Nat) :=
  let binds := evs.filterMap fun | .bind id tag => some (id, tag) | _ => none
  evs.filterMap fun
    | .use tag (some id) => some (tag, (binds.find? (·.1 == id)).map (·.2))
    | .use tag none => some (tag, none)
    | _ => none

def render (m : List (Nat × Option Nat)) : String :=
  " ".intercalate (m.map fun (t, r) => match r with
    | some b => s!"{t}>{b}"
    | none => s!"{t}>-")

def names (ps : List (String × Nat)) : List String := ps.map (·.1)

def runLine (l : String) : String :=
  let (id, rest) := splitTab l
  match Sexp.parse rest with
  | some (.list (.atom "fns" :: .list (.atom "globals" :: gs) :: fs)) =>
    let globals := gs.filterMap Sexp.str?
    match optMapM decFn fs with
    | some fns =>
      let outs := fns.map fun (ps, body) =>
        let impl := (resolveFn ps body).out
        let spec := (specFn ps body).evs
        -- global items behave as an outermost scope: a local binder of the same name shadows them
        let isSc := scopedExpr (globals ++ names ps) body
        (canon impl, canon spec, isSc)
      let implS := render (outs.flatMap fun (i, _, _) => i)
      let specOk := outs.all fun (i, s, _) => i == s
      let allSc := outs.all fun (_, _, sc) => sc
      s!"{id}\tspec_eq={specOk}\tscoped={allSc}\t{implS}"
    | none => s!"{id}\tdecode-error"
  | _ => s!"{id}\tparse-error"

def main : IO Unit := do
  let stdin ← IO.getStdin
  forEachLine stdin fun l => IO.println (runLine l)

end Goml.Driver.C05
