import GomlVerif.Model.Match
import GomlVerif.Driver.DecSyntax
import GomlVerif.Driver.DecSrc
/-!
`gomlmodel c06`: for every match site dumped by `gv c06`
* L1 tie: run `Model/Match.lean` on the site's patterns and compare its Core with the real Core
  up to renaming of bound names;
* property oracle (does not use the compile model): run the REAL Core under `Sem` on every value
  of the scrutinee type up to a depth bound and compare with `firstMatch` on the source patterns;
* check that the hypotheses of `Props/C06.lean` hold on the real input (`conf`, freshness, `leavesOK`).
-/
namespace Goml.Driver.C06
open Goml Goml.Sem Goml.Match

/-! ### decoders -/

partial def decPat : Sexp → Option Pat
  | .list [.atom "pwild", t] => do pure (.wild (← decTy t))
  | .list [.atom "pvar", .atom x, t] => do pure (.var x (← decTy t))
  | .list [.atom "pprim", p, t] => do pure (.prim (← decPrim p) (← decTy t))
  | .list (.atom "ptuple" :: t :: items) => do pure (.tuple (← optMapM decPat items) (← decTy t))
  | .list (.atom "pconstr" :: c :: t :: args) => do pure (.constr (← decCtor c) (← optMapM decPat args) (← decTy t))
  | _ => none

def decVariant : Sexp → Option (String × List Ty)
  | .list (.atom n :: tys) => do pure (n, ← optMapM decTy tys)
  | _ => none

def decEnumDef : Sexp → Option EnumDef
  | .list (.atom "enum" :: .atom n :: .list gens :: vs) => do
      pure { name := n, generics := gens.filterMap Sexp.str?, variants := ← optMapM decVariant vs }
  | _ => none

def decStructDef : Sexp → Option StructDef
  | .list (.atom "struct" :: .atom n :: .list gens :: fs) => do
      pure { name := n, generics := gens.filterMap Sexp.str?, fields := ← optMapM decParamTy fs }
  | _ => none

def decSig : Sexp → Option Sig
  | .list [.atom "sig", .list (.atom "enums" :: es), .list (.atom "structs" :: ss)] => do
      pure { enums := ← optMapM decEnumDef es, structs := ← optMapM decStructDef ss, gen := realGen }
  | _ => none

inductive Site where
  | matchS (var : Option String) (scrutTy : Ty) (arms : List Pat)
  | letBlock (scrutTy : Ty) (pat : Pat)
  | letAlone (scrutTy : Ty) (pat : Pat)

def scrutName : String := "c06scrut"

def decSite : Sexp → Option Site
  | .list [.atom "match", .list [.atom "var", .atom x], t, .list (.atom "arms" :: arms)] => do
      pure (.matchS (some x) (← decTy t) (← optMapM decPat arms))
  | .list [.atom "match", .list [.atom "other", _], t, .list (.atom "arms" :: arms)] => do
      pure (.matchS none (← decTy t) (← optMapM decPat arms))
  | .list [.atom "letblock", _, t, p] => do pure (.letBlock (← decTy t) (← decPat p))
  | .list [.atom "letalone", _, t, p] => do pure (.letAlone (← decTy t) (← decPat p))
  | _ => none

/-! ### marker bodies (must equal what `harness/src/c06.rs::marker` hands to the real compiler) -/

partial def patVars : Pat → List (String × Ty)
  | .var x t => [(x, t)]
  | .tuple ps _ => ps.flatMap patVars
  | .constr _ ps _ => ps.flatMap patVars
  | _ => []

def markerTy (p : Pat) : Ty := .tuple (.int 32 true :: (patVars p).map (·.2))

def markerTag (i : Nat) : String := s!"<{i}>;"

def marker (i : Nat) (p : Pat) : Expr :=
  .letE "_wild"
    (.call .unit (.var "string_print" (.func [.string] .unit)) [.prim (.str (markerTag i))])
    (.tuple (markerTy p) (.prim (.int 32 true i) :: (patVars p).map (fun v => .var v.1 v.2)))

/-! ### equality of Core up to renaming of bound names -/

def lookL (m : List (String × String)) (x : String) : Option String := (m.find? (·.1 == x)).map (·.2)
def lookR (m : List (String × String)) (y : String) : Option String := (m.find? (·.2 == y)).map (·.1)

def varEq (m : List (String × String)) (x y : String) : Bool :=
  match lookL m x, lookR m y with
  | some y', some x' => y' == y && x' == x
  | none, none => x == y
  | _, _ => false

def headVars : List Expr → Option (List String)
  | [] => some []
  | .var x _ :: r => (headVars r).map (x :: ·)
  | _ => none

mutual
partial def aeq (m : List (String × String)) : Expr → Expr → Bool
  | .var x t, .var y u => varEq m x y && t == u
  | .prim p, .prim q => p == q
  | .tag i t, .tag j u => i == j && t == u
  | .constr c t as, .constr d u bs => c == d && t == u && aeqs m as bs
  | .tuple t as, .tuple u bs => t == u && aeqs m as bs
  | .array t as, .array u bs => t == u && aeqs m as bs
  | .closure t ps b, .closure u qs c =>
    t == u && ps.map (·.2) == qs.map (·.2) && aeq ((ps.map (·.1)).zip (qs.map (·.1)) ++ m) b c
  | .letE x v b, .letE y w c => aeq m v w && aeq ((x, y) :: m) b c
  | .matchE t s arms d, .matchE u s' arms' d' =>
    t == u && aeq m s s' && aeqArms m arms arms' &&
    (match d, d' with
     | none, none => true
     | some a, some b => aeq m a b
     | _, _ => false)
  | .ite a b c, .ite a' b' c' => aeq m a a' && aeq m b b' && aeq m c c'
  | .while a b, .while a' b' => aeq m a a' && aeq m b b'
  | .go a, .go a' => aeq m a a'
  | .cget c i t e, .cget c' i' t' e' => c == c' && i == i' && t == t' && aeq m e e'
  | .un o t e, .un o' t' e' => o == o' && t == t' && aeq m e e'
  | .bin o t a b, .bin o' t' a' b' => o == o' && t == t' && aeq m a a' && aeq m b b'
  | .call t f as, .call t' f' as' => t == t' && aeq m f f' && aeqs m as as'
  | .toDyn tr ft t e, .toDyn tr' ft' t' e' => tr == tr' && ft == ft' && t == t' && aeq m e e'
  | .dynCall tr me t r as, .dynCall tr' me' t' r' as' => tr == tr' && me == me' && t == t' && aeq m r r' && aeqs m as as'
  | .traitCall tr me t r as, .traitCall tr' me' t' r' as' => tr == tr' && me == me' && t == t' && aeq m r r' && aeqs m as as'
  | .proj i t e, .proj i' t' e' => i == i' && t == t' && aeq m e e'
  | _, _ => false
partial def aeqs (m : List (String × String)) : List Expr → List Expr → Bool
  | [], [] => true
  | a :: as, b :: bs => aeq m a b && aeqs m as bs
  | _, _ => false
partial def aeqArms (m : List (String × String)) : List Arm → List Arm → Bool
  | [], [] => true
  | .mk l b :: as, .mk l' b' :: bs =>
    (match l, l' with
     | .constr c t xs, .constr c' t' ys =>
       c == c' && t == t' &&
       (match headVars xs, headVars ys with
        | some vx, some vy =>
          vx.length == vy.length && (xs.map (fun | .var _ t => t | _ => .unit) == ys.map (fun | .var _ t => t | _ => .unit))
          && aeq (vx.zip vy ++ m) b b'
        | _, _ => false)
     | _, _ => aeq m l l' && aeq m b b') && aeqArms m as bs
  | _, _ => false
end

/-! ### values of a type, up to a depth bound -/

partial def patInts : Pat → List Int
  | .prim (.int _ _ v) _ => [v]
  | .tuple ps _ => ps.flatMap patInts
  | .constr _ ps _ => ps.flatMap patInts
  | _ => []

partial def patStrs : Pat → List String
  | .prim (.str s) _ => [s]
  | .tuple ps _ => ps.flatMap patStrs
  | .constr _ ps _ => ps.flatMap patStrs
  | _ => []

structure Pool where
  ints : List Int
  strs : List String
  cap : Nat

/-- keep at most `cap` elements, evenly spread (not a prefix, so that every constructor survives) -/
def thin {α : Type} (cap : Nat) (xs : List α) : List α :=
  if xs.length ≤ cap || cap == 0 then xs
  else
    let k := (xs.length + cap - 1) / cap
    ((List.range xs.length).zip xs).filterMap (fun (i, x) => if i % k == 0 then some x else none)

def iroot (k cap : Nat) : Nat :=
  -- largest b ≥ 2 with b^k ≤ cap (at least 2)
  let rec go (b : Nat) (fuel : Nat) : Nat :=
    match fuel with
    | 0 => b
    | fuel + 1 => if (b + 1) ^ k ≤ cap then go (b + 1) fuel else b
  go 2 64

def product (cap : Nat) (lists : List (List Val)) : List (List Val) :=
  let b := iroot lists.length cap
  let rec go : List (List Val) → List (List Val)
    | [] => [[]]
    | vs :: rest =>
      let tails := go rest
      (thin b vs).flatMap (fun v => tails.map (v :: ·))
  go lists

partial def genVals (S : Sig) (pool : Pool) : Nat → Ty → List Val
  | _, .unit => [.unit]
  | _, .bool => [.bool true, .bool false]
  | _, .int b s => (pool.ints.filter (fun v => wrap b s v == v)).map (.int b s ·)
  | _, .string => pool.strs.map .str
  | d, .tuple ts => (product pool.cap (ts.map (genVals S pool d))).map .tuple
  | d, .enum n => enumVals d n []
  | d, .app (.enum n) targs => enumVals d n targs
  | d, .struct n => structVals d n []
  | d, .app (.struct n) targs => structVals d n targs
  | _, .float b => [.float b 1.5]
  | _, _ => [.fn "c06opaque"]
where
  enumVals (d : Nat) (n : String) (targs : List Ty) : List Val :=
    match findEnum S n with
    | none => []
    | some def_ =>
      let σ := def_.generics.zip targs
      ((List.range def_.variants.length).zip def_.variants).flatMap fun (idx, v) =>
        if v.2.isEmpty then [.enumV n idx []]
        else if d == 0 then []
        else ((product pool.cap ((substTys σ v.2).map (genVals S pool (d - 1)))).map (.enumV n idx ·))
  structVals (d : Nat) (n : String) (targs : List Ty) : List Val :=
    match findStruct S n with
    | none => []
    | some def_ =>
      let σ := def_.generics.zip targs
      if d == 0 then [] else
      (product pool.cap ((substTys σ (def_.fields.map (·.2))).map (genVals S pool (d - 1)))).map (.structV n ·)

partial def showVal : Val → String
  | .unit => "()"
  | .bool b => toString b
  | .int _ _ v => toString v
  | .str s => s.quote
  | .float _ x => toString x
  | .tuple vs => "(" ++ ",".intercalate (vs.map showVal) ++ ")"
  | .enumV _ i args => s!"#{i}(" ++ ",".intercalate (args.map showVal) ++ ")"
  | .structV _ fs => "{" ++ ",".intercalate (fs.map showVal) ++ "}"
  | .fn n => "fn:" ++ n
  | _ => "?"

def showRes : Res Val → String
  | .ok v w => s!"ok {w.out} {showVal v}"
  | .fail f w => s!"{failStr f} {w.out}"

/-! ### hypotheses of the theorems, checked on the real input -/

def isGenName (x : String) : Bool :=
  x.startsWith "x" && (x.drop 1).all Char.isDigit && x.length > 1

/-! ### one site -/

def errStr : Err → String
  | .unreachable m => "unreachable:" ++ m
  | .panic m => "panic:" ++ m
  | .nonExhaustiveInt _ => "non-exhaustive-int"

structure SiteIn where
  x : String            -- variable the rows test
  scrutVar : String     -- variable the environment binds
  ty : Ty               -- `ty` handed to compile_rows
  scrutTy : Ty
  rows : List (Row Expr)
  wrapLet : Option Expr -- `let mtmp = e in …`
  n0 : Nat
  /-- expected result for a value, from the source patterns alone -/
  expect : Val → String

/-! ### the patterns AS WRITTEN (surface syntax, `harness/src/astdump.rs`): first-match meaning that
does not go through the typer's elaboration — constructors are resolved by NAME against the type
of the value, struct sub-patterns are bound BY FIELD NAME -/

/-- `x/3` (hir's unique spelling of a local) ↦ `x` -/
def hintOf (x : String) : String := (x.splitOn "/").headD x

def lastSeg (path : List String) : String := path.getLast?.getD ""

/-- does the type name of a value denote the type the pattern's path names (`T`, `Pkg::T`)? -/
def tyNamed (ty seg : String) : Bool := ty == seg || ty.endsWith ("::" ++ seg)

def srcLitMatches (l : Src.Lit) (v : Val) : Bool :=
  match l, v with
  | .unit, .unit => true
  | .bool a, .bool b => a == b
  | .int none text, .int _ _ n => text.toInt? == some n
  | .int (some (b, s)) text, .int b' s' n => b == b' && s == s' && text.toInt? == some n
  | .str a, .str b => a == b
  | _, _ => false

mutual
/-- `vars`: the hints the typed pattern binds (a bare identifier that is not among them is a
    nullary constructor) -/
partial def matchSrc (S : Sig) (vars : List String) : Src.Pat → Val → Option (List (String × Val))
  | .wild, _ => some []
  | .var x, v =>
    if vars.contains x then some [(x, v)]
    else match v with
      | .enumV ty idx args =>
        match findEnum S ty with
        | some d => if (d.variants[idx]?.map (·.1)) == some x && args.isEmpty then some [] else none
        | none => none
      | _ => none
  | .lit l, v => if srcLitMatches l v then some [] else none
  | .tuple ps, v =>
    match v with
    | .tuple vs => if ps.length == vs.length then matchSrcs S vars ps vs else none
    | _ => none
  | .constr path ps, v =>
    match v with
    | .enumV ty idx args =>
      match findEnum S ty with
      | some d =>
        if (d.variants[idx]?.map (·.1)) == some (lastSeg path) && ps.length == args.length
            && (path.length < 2 || tyNamed ty (path.dropLast.getLast?.getD ""))
        then matchSrcs S vars ps args else none
      | none => none
    | _ => none
  | .struct path fps, v =>
    match v with
    | .structV ty vals =>
      if tyNamed ty (lastSeg path) then
        match findStruct S ty with
        | some d => matchSrcFields S vars (d.fields.map (·.1)) vals fps
        | none => none
      else none
    | _ => none
partial def matchSrcs (S : Sig) (vars : List String) : List Src.Pat → List Val → Option (List (String × Val))
  | [], _ => some []
  | _ :: _, [] => none
  | p :: ps, v :: vs => do
    let a ← matchSrc S vars p v
    let b ← matchSrcs S vars ps vs
    pure (a ++ b)
/-- every written field pattern is matched against the field OF THAT NAME -/
partial def matchSrcFields (S : Sig) (vars : List String) (decl : List String) (vals : List Val) :
    List Src.FieldPat → Option (List (String × Val))
  | [] => some []
  | .mk f p :: rest => do
    let i ← decl.findIdx? (· == f)
    let v ← vals[i]?
    let a ← matchSrc S vars p v
    let b ← matchSrcFields S vars decl vals rest
    pure (a ++ b)
end

/-- the marker's result from the bindings of the written pattern: the typed pattern only says
    which variables the marker lists, their values come from the written pattern -/
def expectMarkerSrc (i : Nat) (p : Pat) (σ : List (String × Val)) : String :=
  let vals := (patVars p).map (fun v => (lookupEnv σ (hintOf v.1)).getD (.fn "unbound"))
  s!"ok {markerTag i} {showVal (.tuple (.int 32 true i :: vals))}"

def armsExpectSrc (S : Sig) (arms : List Pat) (written : List Src.Pat) (v : Val) : String :=
  let rec go (i : Nat) : List Pat → List Src.Pat → String
    | p :: ps, w :: ws =>
      match matchSrc S ((patVars p).map (fun x => hintOf x.1)) w v with
      | some σ => expectMarkerSrc i p σ
      | none => go (i + 1) ps ws
    | _, _ => "panic:missing "
  go 0 arms written

def expectMarker (i : Nat) (p : Pat) (σ : List (String × Val)) : String :=
  let vals := (patVars p).map (fun v => (lookupEnv σ v.1).getD (.fn "unbound"))
  s!"ok {markerTag i} {showVal (.tuple (.int 32 true i :: vals))}"

def armsExpect (arms : List Pat) (v : Val) : String :=
  let rec go (i : Nat) : List Pat → String
    | [] => "panic:missing "
    | p :: ps =>
      match matchPat p v with
      | some σ => expectMarker i p σ
      | none => go (i + 1) ps
  go 0 arms

def mkSite : Site → SiteIn
  | .matchS var sty arms =>
    let x := var.getD "mtmp0"
    let rows := (List.range arms.length).zip arms |>.map fun (i, p) =>
      ({ cols := [(x, p)], binds := [], body := marker i p, bodyTy := markerTy p } : Row Expr)
    { x := x, scrutVar := var.getD scrutName, scrutTy := sty,
      ty := (arms.head?.map markerTy).getD .unit, rows := rows,
      wrapLet := if var.isSome then none else some (.var scrutName sty), n0 := if var.isSome then 0 else 1,
      expect := armsExpect arms }
  | .letBlock sty p =>
    let ty := markerTy p
    { x := "mtmp0", scrutVar := scrutName, scrutTy := sty, ty := ty,
      rows := [⟨[("mtmp0", p)], [], marker 0 p, ty⟩, ⟨[("mtmp0", .wild p.ty)], [], emissing ty, ty⟩],
      wrapLet := some (.var scrutName sty), n0 := 1,
      expect := fun v => match matchPat p v with
        | some σ => expectMarker 0 p σ
        | none => "panic:missing " }
  | .letAlone sty p =>
    { x := "mtmp0", scrutVar := scrutName, scrutTy := sty, ty := .unit,
      rows := [⟨[("mtmp0", p)], [], .prim .unit, .unit⟩, ⟨[("mtmp0", .wild p.ty)], [], emissing .unit, .unit⟩],
      wrapLet := some (.var scrutName sty), n0 := 1,
      expect := fun v => match matchPat p v with
        | some _ => "ok  ()"
        | none => "panic:missing " }

def runModel (S : Sig) (si : SiteIn) : M (DT Expr × Expr) :=
  match compileRows S (measure si.rows + 1) si.ty si.n0 si.rows with
  | none => .error (.unreachable "out of fuel")
  | some (.error e) => .error e
  | some (.ok r) =>
    let e := r.1.toExpr
    .ok (r.1, match si.wrapLet with | some s => .letE si.x s e | none => e)

def sitePats (si : SiteIn) : List Pat := si.rows.flatMap (fun r => r.cols.map (·.2))

/-- expected result from the patterns as written (when the site is aligned with the surface syntax) -/
def expectSrc (S : Sig) (site : Site) (written : List Src.Pat) (v : Val) : String :=
  match site, written with
  | .matchS _ _ arms, ws => armsExpectSrc S arms ws v
  | .letBlock _ p, [w] =>
    match matchSrc S ((patVars p).map (fun x => hintOf x.1)) w v with
    | some σ => expectMarkerSrc 0 p σ
    | none => "panic:missing "
  | .letAlone _ p, [w] =>
    match matchSrc S ((patVars p).map (fun x => hintOf x.1)) w v with
    | some _ => "ok  ()"
    | none => "panic:missing "
  | _, _ => "misaligned"

def runSite (S : Sig) (depth cap : Nat) (site : Site) (real : String × String)
    (written : Option (List Src.Pat)) : String :=
  let si := mkSite site
  -- the SOURCE side of the oracle: the written patterns when available, else the typed ones
  let want : Val → String := match written with
    | some ws => expectSrc S site ws
    | none => si.expect
  let model := runModel S si
  let pats := sitePats si
  let pool : Pool :=
    { ints := (pats.flatMap patInts ++ [0, 1, -1, 7, 100, 255, 70000]).eraseDups,
      strs := (pats.flatMap patStrs ++ ["", "c06~other"]).eraseDups, cap := cap }
  let vals := thin cap (genVals S pool depth si.scrutTy)
  let hyp :=
    let nconf := vals.filter (fun v => !(pats.all (fun p => conf S p v)))
    let fresh := !(isGenName si.x)
    let lo := match model with | .ok (t, _) => leavesOK t | .error _ => true
    -- does the typer's elaboration of the patterns mean what the written patterns mean?
    let elabDiff := vals.filter (fun v => want v != si.expect v)
    s!"conf-fail={nconf.length} fresh={fresh} leavesOK={lo} source={if written.isSome then "written" else "typed"} elab-diff={elabDiff.length}"
  match real.1 with
  | "CORE" =>
    match (Sexp.parse real.2).bind decExpr with
    | none => s!"decode-error\tskipped\t0\t{hyp}"
    | some core =>
      let l1 := match model with
        | .ok (_, e) => if aeq [] e core then "eq" else "diff"
        | .error e => "model-error:" ++ errStr e
      -- oracle on the real Core
      let bad := vals.filterMap fun v =>
        let got := showRes (Sem.eval 100000 { fns := [] } [(si.scrutVar, v)] {} core)
        let want := want v
        if got == want then none else some s!"value={showVal v} got=[{got}] want=[{want}]"
      let orc := match bad with
        | [] => "ok"
        | b :: _ => s!"fail:{bad.length}:{b}"
      s!"{l1}\t{orc}\t{vals.length}\t{hyp}"
  | "DIAG" =>
    let l1 := match model with
      | .error (.nonExhaustiveInt _) => if (real.2.splitOn "non-exhaustive match on integer literal").length > 1 then "eq-diag" else "diff-diag"
      | .error e => "model-error:" ++ errStr e
      | .ok _ => "diff:model-accepts"
    -- rejected at compile time: is there a value no arm matches?
    let wit := vals.find? (fun v => want v == "panic:missing ")
    s!"{l1}\trejected\t{vals.length}\t{hyp} unmatched-witness={(wit.map showVal).getD "none"}"
  | "PANIC" =>
    let l1 := match model with
      | .error (.panic m) => "eq-panic:" ++ m
      | .error (.unreachable m) => "eq-panic:" ++ m
      | .error e => "model-error:" ++ errStr e
      | .ok _ => "diff:model-accepts"
    s!"{l1}\tpanic\t{vals.length}\t{hyp}"
  | k => s!"unknown-kind:{k}\tskipped\t0\t{hyp}"

def main : IO Unit := do
  let stdin ← IO.getStdin
  let depth := (← IO.getEnv "GV_C06_DEPTH").bind String.toNat? |>.getD 3
  let cap := (← IO.getEnv "GV_C06_CAP").bind String.toNat? |>.getD 600
  let sigRef ← IO.mkRef ({ enums := [], structs := [], gen := realGen } : Sig)
  forEachLine stdin fun l => do
    match l.splitOn "\t" with
    | [_, "SIG", sx] =>
      match (Sexp.parse sx).bind decSig with
      | some S => sigRef.set S
      | none => IO.println s!"#sig-decode-error"
    | id :: "SITE" :: sx :: kind :: payload :: rest =>
      let written : Option (List Src.Pat) := do
        let w ← rest.head?
        match ← Sexp.parse w with
        | .list (.atom "written" :: ps) => optMapM DecSrc.decPat ps
        | _ => none
      match (Sexp.parse sx).bind decSite with
      | some site => IO.println s!"{id}\t{runSite (← sigRef.get) depth cap site (kind, payload) written}"
      | none => IO.println s!"{id}\tsite-decode-error\tskipped\t0\t"
    | _ => pure ()

end Goml.Driver.C06
