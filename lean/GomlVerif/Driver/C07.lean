import GomlVerif.Model.Mono
import GomlVerif.Driver.DecSyntax
import GomlVerif.Driver.EncSyntax
/-! driver for C07: input `(case (file fn…) (enums …) (structs …))` — the REAL Core file and the
type definitions of `genv`; output the model's Mono program in the format of the real dump:
`ok|panic|fuel <TAB> (mono (file …) (enums …) (structs …) (funcs …)) <TAB> message` -/
namespace Goml.Driver.C07
open Goml Goml.Mono

def decEnum : Sexp → Option EnumDef
  | .list (.atom "enum" :: .atom n :: .list gs :: vs) => do
      let vs' ← optMapM (fun v => match v with
        | .list (.atom vn :: ts) => do pure (vn, ← optMapM decTy ts)
        | _ => none) vs
      pure { name := n, generics := gs.filterMap Sexp.str?, variants := vs' }
  | _ => none

def decStruct : Sexp → Option StructDef
  | .list (.atom "struct" :: .atom n :: .list gs :: fs) => do
      let fs' ← optMapM (fun v => match v with
        | .list [.atom fnm, t] => do pure (fnm, ← decTy t)
        | _ => none) fs
      pure { name := n, generics := gs.filterMap Sexp.str?, fields := fs' }
  | _ => none

structure Case where
  fns : List Fn
  enums : List EnumDef
  structs : List StructDef

def decCase : Sexp → Option Case
  | .list [.atom "case", .list (.atom "file" :: fns), .list (.atom "enums" :: es), .list (.atom "structs" :: ss)] => do
      pure { fns := ← optMapM decFn fns, enums := ← optMapM decEnum es, structs := ← optMapM decStruct ss }
  | _ => none

def encOut (o : Out) : Sexp :=
  .list [.atom "mono", .list (.atom "file" :: o.fns.map encFn), .list (.atom "enums" :: o.monoEnums.map encEnum),
         .list (.atom "structs" :: o.monoStructs.map encStruct),
         .list (.atom "funcs" :: o.funcs.map fun p => .list [.atom p.1, encTy p.2])]

def runLine (fuel : Nat) (l : String) : String :=
  let (id, rest) := splitTab l
  match Sexp.parse rest with
  | none => s!"{id}\tparse-error"
  | some sx =>
    match decCase sx with
    | none => s!"{id}\tdecode-error"
    | some c =>
      match mono fuel 100000 c.enums c.structs c.fns with
      | none => s!"{id}\tfuel\t\t"
      | some o =>
        match o.err with
        | some e => s!"{id}\tpanic\t{encOut o}\t{e}"
        | none => s!"{id}\tok\t{encOut o}\t"

def main : IO Unit := do
  let stdin ← IO.getStdin
  let fuel := (← IO.getEnv "GV_MONO_FUEL").bind String.toNat? |>.getD 5000
  forEachLine stdin fun l => IO.println (runLine fuel l)

end Goml.Driver.C07
