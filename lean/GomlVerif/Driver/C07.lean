import GomlVerif.Model.Mono
import GomlVerif.Model.Closed
import GomlVerif.Model.Sem
import GomlVerif.Driver.DecSyntax
import GomlVerif.Driver.EncSyntax
import GomlVerif.Driver.InherentNames
/-! driver for C07: input `(case (file fn…) (enums …) (structs …))` — the REAL Core file and the
type definitions of `genv`; output the model's Mono program in the format of the real dump:
`ok|panic|fuel <TAB> (mono (file …) (enums …) (structs …) (funcs …)) <TAB> message` -/
namespace Goml.Driver.C07
open Goml Goml.Mono

def decEnum : Sexp → Option EnumDef
  | .list (.atom "enum" :: .atom n :: .list gs :: vs) => do
      let vs' ← optMapM (fun v => match v with
        | .list (.atom vn :: ts) => do pure (vn, ← optMapM decTy ts)
        | _ => none) vs
      pure { name := n, generics := gs.filterMap Sexp.str?, variants := vs' }
  | _ => none

def decStruct : Sexp → Option StructDef
  | .list (.atom "struct" :: .atom n :: .list gs :: fs) => do
      let fs' ← optMapM (fun v => match v with
        | .list [.atom fnm, t] => do pure (fnm, ← decTy t)
        | _ => none) fs
      pure { name := n, generics := gs.filterMap Sexp.str?, fields := fs' }
  | _ => none

structure Case where
  fns : List Fn
  enums : List EnumDef
  structs : List StructDef

def decCase : Sexp → Option Case
  | .list [.atom "case", .list (.atom "file" :: fns), .list (.atom "enums" :: es), .list (.atom "structs" :: ss)] => do
      pure { fns := ← optMapM decFn fns, enums := ← optMapM decEnum es, structs := ← optMapM decStruct ss }
  | _ => none

def encOut (o : Out) : Sexp :=
  .list [.atom "mono", .list (.atom "file" :: o.fns.map encFn), .list (.atom "enums" :: o.monoEnums.map encEnum),
         .list (.atom "structs" :: o.monoStructs.map encStruct),
         .list (.atom "funcs" :: o.funcs.map fun p => .list [.atom p.1, encTy p.2])]

/-- residue kinds of one function of a stage dump: which of `param`/`app`/`tvar`/`traitcall` remain -/
def residue (f : Fn) : List String :=
  -- a type parameter in the *signature* of a function of a monomorphised program (an instance that was
  -- emitted without binding one of its parameters) is told apart from one that occurs only in the body
  (if Closed.fnAllTys Closed.noParam f then []
   else if Closed.allParamTys Closed.noParam f.params && Closed.noParam f.ret then ["param"] else ["param-in-signature"]) ++
  (if Closed.fnAllTys Closed.noApp f then [] else ["app"]) ++
  (if Closed.fnAllTys Closed.noTVar f then [] else ["tvar"]) ++
  (if Closed.noTraitCall f.body then [] else ["traitcall"])

mutual
/-- the type constructor directly above the first `TApp` of a type (`top` = the annotation itself) -/
partial def appUnder (parent : String) : Ty → Option String
  | .app _ _ => some parent
  | .tuple ts => appUnderList "tuple" ts
  | .array _ e => appUnder "array" e
  | .vec e => appUnder "vec" e
  | .ref e => appUnder "ref" e
  | .func ps r => (appUnderList "fn" ps).orElse fun _ => appUnder "fn" r
  | _ => none
partial def appUnderList (parent : String) : List Ty → Option String
  | [] => none
  | t :: ts => (appUnder parent t).orElse fun _ => appUnderList parent ts
end

/-- all annotations of a function, in dump order (enough to locate the first residue) -/
partial def tysOf : Expr → List Ty
  | .var _ t => [t] | .prim _ => [] | .tag _ t => [t]
  | .constr _ t args => t :: args.flatMap tysOf
  | .tuple t items => t :: items.flatMap tysOf
  | .array t items => t :: items.flatMap tysOf
  | .closure t ps b => t :: ps.map (·.2) ++ tysOf b
  | .letE _ v b => tysOf v ++ tysOf b
  | .matchE t s arms d => t :: tysOf s ++ arms.flatMap (fun | .mk l b => tysOf l ++ tysOf b) ++ (match d with | some d => tysOf d | none => [])
  | .ite c t e => tysOf c ++ tysOf t ++ tysOf e
  | .while c b => tysOf c ++ tysOf b
  | .go e => tysOf e
  | .cget _ _ t e => t :: tysOf e
  | .un _ t e => t :: tysOf e
  | .bin _ t l r => t :: tysOf l ++ tysOf r
  | .call t f args => t :: tysOf f ++ args.flatMap tysOf
  | .toDyn _ ft t e => ft :: t :: tysOf e
  | .dynCall _ _ t r args => t :: tysOf r ++ args.flatMap tysOf
  | .traitCall _ _ t r args => t :: tysOf r ++ args.flatMap tysOf
  | .proj _ t e => t :: tysOf e

def appContext (f : Fn) : String :=
  ((f.params.map (·.2) ++ [f.ret] ++ tysOf f.body).findSome? (appUnder "top")).getD "?"

/-- names of the type parameters occurring in a type -/
partial def paramNames : Ty → List String
  | .param n => [n]
  | .tuple ts => ts.flatMap paramNames
  | .app t args => paramNames t ++ args.flatMap paramNames
  | .array _ e => paramNames e
  | .vec e => paramNames e
  | .ref e => paramNames e
  | .func ps r => ps.flatMap paramNames ++ paramNames r
  | _ => []

/-- residues in the field types of the monomorphic type definitions of a stage environment
(`param-in-type-definition(A+B)` names the parameters) -/
def defResidues (es : List EnumDef) (ss : List StructDef) : List String :=
  let kinds (ts : List Ty) : List String :=
    (if ts.all Closed.noParam then [] else ["param-in-type-definition(" ++ "+".intercalate (ts.flatMap paramNames).eraseDups ++ ")"]) ++
    (if ts.all Closed.noApp then [] else ["app-in-type-definition"]) ++
    (if ts.all Closed.noTVar then [] else ["tvar-in-type-definition"])
  (es.filterMap fun d => if !d.generics.isEmpty then none else
    match kinds (d.variants.flatMap (·.2)) with
    | [] => none
    | ks => some ("type " ++ d.name ++ ":" ++ ",".intercalate ks)) ++
  (ss.filterMap fun d => if !d.generics.isEmpty then none else
    match kinds (d.fields.map (·.2)) with
    | [] => none
    | ks => some ("type " ++ d.name ++ ":" ++ ",".intercalate ks))

def closedLine (id : String) (P : Prog) : String :=
  let bad := P.fns.filterMap fun f =>
    match residue f with
    | [] => none
    | ks => some (f.name ++ ":" ++ ",".intercalate ks ++ (if ks.contains "app" then ":under=" ++ appContext f else ""))
  if bad.isEmpty then s!"{id}\tclosed\t" else s!"{id}\topen\t{" ;; ".intercalate bad}"

def escOut (s : String) : String :=
  s.foldl (fun acc c =>
    if c == '\\' then acc ++ "\\\\" else if c == '\n' then acc ++ "\\n"
    else if c == '\t' then acc ++ "\\t" else if c == '\r' then acc ++ "\\r" else acc.push c) ""

def semLine (id : String) (P : Prog) : String :=
  let o := Sem.run 20000000 (resolveInherent P)
  s!"{id}\t{o.status}\t{escOut o.out}\t{" ".intercalate o.externs}"

def runLine (fuel : Nat) (l : String) : String :=
  let (id, rest) := splitTab l
  match Sexp.parse rest with
  | none => s!"{id}\tparse-error"
  | some sx =>
    match sx with
    | .list (.atom "mono" :: _ :: .list (.atom "enums" :: es) :: .list (.atom "structs" :: ss) :: _) =>
      -- `D!id`: the instance definitions mono registered (monoenv.mono_enums / mono_structs)
      match optMapM decEnum es, optMapM decStruct ss with
      | some es, some ss =>
        let bad := defResidues es ss
        if bad.isEmpty then s!"{id}\tclosed\t" else s!"{id}\topen\t{" ;; ".intercalate bad}"
      | _, _ => s!"{id}\tdecode-error"
    | .list (.atom "prog" :: _) =>
      match decProg sx with
      | some P => if id.startsWith "S!" then semLine id P else closedLine id P
      | none => s!"{id}\tdecode-error"
    | _ =>
    match decCase sx with
    | none => s!"{id}\tdecode-error"
    | some c =>
      match mono fuel 100000 c.enums c.structs c.fns with
      | none => s!"{id}\tfuel\t\t"
      | some o =>
        match o.err with
        | some e => s!"{id}\tpanic\t{encOut o}\t{e}"
        | none => s!"{id}\tok\t{encOut o}\t"

def main : IO Unit := do
  let stdin ← IO.getStdin
  let fuel := (← IO.getEnv "GV_MONO_FUEL").bind String.toNat? |>.getD 5000
  forEachLine stdin fun l => IO.println (runLine fuel l)

end Goml.Driver.C07
