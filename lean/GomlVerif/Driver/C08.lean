import GomlVerif.Model.Lift
import GomlVerif.Model.LiftSim
import GomlVerif.Driver.DecSyntax
/-!
`gomlmodel c08`: one line per program, `id<TAB>(liftin …)<TAB>(liftout …)`.
The model lifts the real Mono file in the real pre-lift environment; its output (functions,
closure env structs, user structs after field rewriting, registered function types) is encoded
in the harness's dump format and compared with the real output node by node.
Prints `id<TAB>EQ|DIFF<TAB>first differing path<TAB>stats`.
-/
namespace Goml.Driver.C08
open Goml Goml.Driver Goml.Lift

/-! ### encoders (inverse of `DecSyntax`, same shapes as `harness/src/dump.rs`) -/

def tagged (t : String) (xs : List Sexp) : Sexp := .list (.atom t :: xs)

partial def encTy : Ty → Sexp
  | .unit => .atom "unit" | .bool => .atom "bool" | .string => .atom "string"
  | .int b s => .atom ((if s then "i" else "u") ++ toString b)
  | .float b => .atom ("f" ++ toString b)
  | .tuple ts => tagged "tuple" (ts.map encTy)
  | .enum n => tagged "enum" [.atom n]
  | .struct n => tagged "struct" [.atom n]
  | .dyn n => tagged "dyn" [.atom n]
  | .app t args => tagged "app" (encTy t :: args.map encTy)
  | .array n t => tagged "array" [Sexp.ofNat n, encTy t]
  | .vec t => tagged "vec" [encTy t]
  | .ref t => tagged "ref" [encTy t]
  | .param n => tagged "param" [.atom n]
  | .func ps r => tagged "fn" [.list (ps.map encTy), encTy r]
  | .tvar n => tagged "tvar" [Sexp.ofNat n]

def encPrim : Prim → Sexp
  | .unit => tagged "unit" []
  | .bool b => tagged "bool" [.atom (if b then "true" else "false")]
  | .int b s v => tagged "int" [.atom ((if s then "i" else "u") ++ toString b), .atom (toString v)]
  | .float b r => tagged "float" [.atom (if b == 32 then "f32" else "f64"), .atom (toString r.toNat)]
  | .str s => tagged "str" [.atom s]

def encCtor : Ctor → Sexp
  | .enum t v i => tagged "ce" [.atom t, .atom v, Sexp.ofNat i]
  | .struct t => tagged "cs" [.atom t]

def encUn : UnOp → String
  | .neg => "neg" | .not => "not"

def encBin : BinOp → String
  | .add => "add" | .sub => "sub" | .mul => "mul" | .div => "div" | .and => "and" | .or => "or"
  | .less => "less" | .greater => "greater" | .lessEq => "less_eq" | .greaterEq => "greater_eq"
  | .eq => "eq" | .notEq => "not_eq"

def encParams (ps : List (String × Ty)) : Sexp := .list (ps.map fun p => .list [.atom p.1, encTy p.2])

mutual
partial def encExpr : Expr → Sexp
  | .var x t => tagged "var" [.atom x, encTy t]
  | .prim p => tagged "prim" [encPrim p]
  | .tag i t => tagged "tag" [Sexp.ofNat i, encTy t]
  | .constr c t args => tagged "constr" (encCtor c :: encTy t :: args.map encExpr)
  | .tuple t items => tagged "tuple" (encTy t :: items.map encExpr)
  | .array t items => tagged "array" (encTy t :: items.map encExpr)
  | .closure t ps b => tagged "closure" [encTy t, encParams ps, encExpr b]
  | .letE x v b => tagged "let" [.atom x, encExpr v, encExpr b]
  | .matchE t s arms d =>
    tagged "match" [encTy t, encExpr s, tagged "arms" (arms.map encArm),
      match d with | some d => encExpr d | none => .atom "none"]
  | .ite c t e => tagged "if" [encExpr c, encExpr t, encExpr e]
  | .while c b => tagged "while" [encExpr c, encExpr b]
  | .go e => tagged "go" [encExpr e]
  | .cget c i t e => tagged "cget" [encCtor c, Sexp.ofNat i, encTy t, encExpr e]
  | .un op t e => tagged "un" [.atom (encUn op), encTy t, encExpr e]
  | .bin op t l r => tagged "bin" [.atom (encBin op), encTy t, encExpr l, encExpr r]
  | .call t f args => tagged "call" (encTy t :: encExpr f :: args.map encExpr)
  | .toDyn tr ft t e => tagged "todyn" [.atom tr, encTy ft, encTy t, encExpr e]
  | .dynCall tr m t r args => tagged "dyncall" (.atom tr :: .atom m :: encTy t :: encExpr r :: args.map encExpr)
  | .traitCall tr m t r args => tagged "traitcall" (.atom tr :: .atom m :: encTy t :: encExpr r :: args.map encExpr)
  | .proj i t e => tagged "proj" [Sexp.ofNat i, encTy t, encExpr e]
partial def encArm : Arm → Sexp
  | .mk l b => tagged "arm" [encExpr l, encExpr b]
end

def encFn (f : Fn) : Sexp :=
  tagged "fn" [.atom f.name, .list (f.generics.map .atom), encParams f.params, encTy f.ret, encExpr f.body]

def encStruct (d : StructDef) : Sexp :=
  tagged "struct" [.atom d.name, .list (d.generics.map .atom), encParams d.fields]

def encFuncs (m : List (String × Ty)) : Sexp :=
  tagged "funcs" (m.map fun p => .list [.atom p.1, encTy p.2])

/-! ### decoders of the environment part -/

def decStruct : Sexp → Option StructDef
  | .list [.atom "struct", .atom n, .list gens, .list fs] => do
      pure { name := n, generics := gens.filterMap Sexp.str?, fields := ← optMapM decParamTy fs }
  | _ => none

def decVariant : Sexp → Option (String × List Ty)
  | .list [.atom v, .list ts] => do pure (v, ← optMapM decTy ts)
  | _ => none

def decEnum : Sexp → Option EnumDef
  | .list [.atom "enum", .atom n, .list gens, .list vs] => do
      pure { name := n, generics := gens.filterMap Sexp.str?, variants := ← optMapM decVariant vs }
  | _ => none

def decFile : Sexp → Option (List Fn)
  | .list (.atom "file" :: fns) => optMapM decFn fns
  | _ => none

/-- `(liftin (gensym N) (file …) (funcs …) (structs …) (enums …))` -/
def decLiftIn : Sexp → Option (Lift.Env × List Fn)
  | .list [.atom "liftin", .list [.atom "gensym", g], file, .list (.atom "funcs" :: fs),
           .list (.atom "structs" :: ss), .list (.atom "enums" :: es)] => do
      let fns ← decFile file
      pure ({ gensym := ← g.nat?, funcs := ← optMapM decParamTy fs, structs := ← optMapM decStruct ss,
              enums := ← optMapM decEnum es }, fns)
  | _ => none

/-- first differing position of two S-expressions, as a path of child indices and tags -/
partial def diffSexp (path : String) : Sexp → Sexp → Option String
  | .atom a, .atom b => if a == b then none else some s!"{path}: model `{a}` real `{b}`"
  | .list xs, .list ys =>
    let tag := match xs with | .atom t :: _ => t | _ => ""
    let rec go (i : Nat) : List Sexp → List Sexp → Option String
      | [], [] => none
      | x :: xs, y :: ys =>
        match diffSexp s!"{path}/{tag}[{i}]" x y with
        | some d => some d
        | none => go (i + 1) xs ys
      | xs, ys => some s!"{path}/{tag}: model has {i + xs.length} children, real {i + ys.length}"
    go 0 xs ys
  | .atom a, .list _ => some s!"{path}: model atom `{a}` real list"
  | .list _, .atom b => some s!"{path}: model list real atom `{b}`"

mutual
partial def countClosures : Expr → Nat
  | .closure _ _ b => 1 + countClosures b
  | .constr _ _ as => (as.map countClosures).sum
  | .tuple _ as => (as.map countClosures).sum
  | .array _ as => (as.map countClosures).sum
  | .letE _ v b => countClosures v + countClosures b
  | .matchE _ s arms d => countClosures s + (arms.map countClosuresArm).sum + (match d with | some d => countClosures d | none => 0)
  | .ite c t e => countClosures c + countClosures t + countClosures e
  | .while c b => countClosures c + countClosures b
  | .go e => countClosures e
  | .cget _ _ _ e => countClosures e
  | .un _ _ e => countClosures e
  | .bin _ _ l r => countClosures l + countClosures r
  | .call _ f as => countClosures f + (as.map countClosures).sum
  | .toDyn _ _ _ e => countClosures e
  | .dynCall _ _ _ r as => countClosures r + (as.map countClosures).sum
  | .traitCall _ _ _ r as => countClosures r + (as.map countClosures).sum
  | .proj _ _ e => countClosures e
  | _ => 0
partial def countClosuresArm : Arm → Nat
  | .mk l b => countClosures l + countClosures b
end

def runLine (l : String) : String :=
  match l.splitOn "\t" with
  | [id, inp, outp] =>
    match Sexp.parse inp, Sexp.parse outp with
    | some si, some so =>
      match decLiftIn si with
      | some (env, fns) =>
        let (fs, st) := liftFile env fns
        let model := tagged "liftout" [tagged "file" (fs.map encFn),
          tagged "lifted_structs" (st.liftedStructs.map encStruct),
          tagged "structs" (st.structs.map encStruct), encFuncs st.liftedFuncs]
        let nclo := (fns.map (fun f => countClosures f.body)).sum
        let nleft := (fs.map (fun f => countClosures f.body)).sum
        let stats := s!"closures={nclo} apply_fns={st.newFns.length} closure_nodes_left={nleft}"
        match diffSexp "" model so with
        | none => s!"{id}\tEQ\t\t{stats}"
        | some d => s!"{id}\tDIFF\t{d}\t{stats}"
      | none => s!"{id}\tdecode-error\t\t"
    | _, _ => s!"{id}\tparse-error\t\t"
  | _ => "?\tbad-line\t\t"

def main : IO Unit := do
  let stdin ← IO.getStdin
  forEachLine stdin fun l => IO.println (runLine l)

/-! ### why the validator rejects (reporting only; the verdict itself is `progOk`) -/

def kidsOf : Expr → List Expr
  | .constr _ _ as => as | .tuple _ as => as | .array _ as => as
  | .ite c t e => [c, t, e] | .while c b => [c, b] | .go e => [e] | .cget _ _ _ e => [e]
  | .un _ _ e => [e] | .bin _ _ l r => [l, r] | .call _ f as => f :: as | .toDyn _ _ _ e => [e]
  | .dynCall _ _ _ r as => r :: as | .proj _ _ e => [e]
  | .matchE _ s arms d => s :: arms.map (fun | .mk _ b => b) ++ (match d with | some d => [d] | none => [])
  | _ => []

def ctorName : Expr → String
  | .var .. => "var" | .prim .. => "prim" | .tag .. => "tag" | .constr .. => "constr" | .tuple .. => "tuple"
  | .array .. => "array" | .closure .. => "closure" | .letE .. => "let" | .matchE .. => "match" | .ite .. => "if"
  | .while .. => "while" | .go .. => "go" | .cget .. => "cget" | .un .. => "un" | .bin .. => "bin"
  | .call .. => "call" | .toDyn .. => "todyn" | .dynCall .. => "dyncall" | .traitCall .. => "traitcall" | .proj .. => "proj"

/-- the innermost rejected pair: node kind of the source and of the target expression -/
partial def whyRejected (P P' : Prog) (Γ : SEnv) (S T : List String) (e e' : Expr) : Option String :=
  match simE P P' Γ S T e e' with
  | some _ => none
  | none =>
    let here := some s!"{ctorName e}->{ctorName e'}"
    match e, e' with
    | .letE x v b, .letE _ v' b' =>
      match simE P P' Γ S T v v' with
      | none => (whyRejected P P' Γ S T v v').orElse fun _ => here
      | some s => (whyRejected P P' ((x, s) :: Γ) (x :: S) (x :: T) b b').orElse fun _ => here
    | .closure _ ps body, .constr (.struct n) _ args' =>
      match varNames? args' with
      | some ys =>
        match applyParts P' n ys with
        | some (envp, ps', body') =>
          if ps' == ps.map (·.1) then
            (whyRejected P P' (ys.map (fun y => (y, Γ.get y))) (ps' ++ S) (ys ++ ps' ++ [envp]) body body').orElse fun _ =>
              if fieldsOk P' n 0 (ys.map Γ.get) then some "closure:scope-condition" else some "closure:field-shape"
          else some "closure:apply-params"
        | none => some "closure:no-apply-function"
      | none => some "closure:env-args-not-variables"
    | .call _ (.var x _) _, .call _ (.var g _) _ =>
      if x != g then some "call:rewritten-without-known-closure-type"
      else
        let ks := kidsOf e; let ks' := kidsOf e'
        if ks.length != ks'.length then here
        else ((ks.zip ks').findSome? fun p => whyRejected P P' Γ S T p.1 p.2).orElse fun _ => here
    | _, _ =>
      let ks := kidsOf e; let ks' := kidsOf e'
      if ctorName e != ctorName e' || ks.length != ks'.length then here
      else
        match (ks.zip ks').findSome? fun p => whyRejected P P' Γ S T p.1 p.2 with
        | some r => some r
        | none =>
          match e, e' with
          | .constr (.struct _) _ _, _ => some "constr:field-shape"
          | _, _ => here

def whyRejectedProg (P P' : Prog) : String :=
  match P.fns.findSome? (fun f =>
    match P.findFn f.name, P'.findFn f.name with
    | some f0, some f' =>
      if fnOk P P' f0 f' then none else
        let ps := f0.params.map (·.1)
        some (f.name ++ ":" ++ ((whyRejected P P' [] ps ps f0.body f'.body).getD "return-shape-or-params"))
    | _, _ => some (f.name ++ ":missing-counterpart")) with
  | some r => r
  | none => "impls-or-main"

/-- `gomlmodel c08sim`: `id<TAB>(liftin …)<TAB>(liftout …)<TAB>(impls …)`; runs the `DirectFlow`
    validator on the REAL Mono program and the REAL lifted program -/
def simLine (l : String) : String :=
  match l.splitOn "\t" with
  | [id, inp, outp, impls] =>
    match Sexp.parse inp, Sexp.parse outp, Sexp.parse impls with
    | some si, some (.list [.atom "liftout", file, .list (.atom "lifted_structs" :: ls), .list (.atom "structs" :: ss), _]),
        some (.list (.atom "impls" :: rows)) =>
      match decLiftIn si, decFile file, optMapM decStruct (ls ++ ss) with
      | some (env, fns), some fns', some structs' =>
        let tbl := rows.filterMap decImpl
        let P : Prog := { fns := fns, impls := tbl, structs := env.structs }
        let P' : Prog := { fns := fns', impls := tbl, structs := structs' }
        if progOk P P' then s!"{id}\tACCEPT\t"
        else s!"{id}\tREJECT\t{whyRejectedProg P P'}"
      | _, _, _ => s!"{id}\tdecode-error\t"
    | _, _, _ => s!"{id}\tparse-error\t"
  | _ => "?\tbad-line\t"

def mainSim : IO Unit := do
  let stdin ← IO.getStdin
  forEachLine stdin fun l => IO.println (simLine l)

end Goml.Driver.C08
