import GomlVerif.Model.Anf
import GomlVerif.Model.AnfFrag
import GomlVerif.Driver.DecSyntax
/-!
`gomlmodel c09`: L1 tie of `Model/Anf.lean` with `anf.rs`.

Input line: `id<TAB>(tie <lift prog> <anf prog, fresh Gensym> <anf prog, pipeline>)`.
The model's `anfProg` is applied to the REAL Lift dump and compared, exactly (temporary
names, their numbering and their type annotations included), with
 * the REAL `anf::anf_file` output on a fresh `Gensym` (counter 0), and
 * the ANF stage of the pipeline `Compilation`, whose counter starts where `compile_match`
   and `lift` left it (recovered as the smallest let-bound `t<n>`).
Also reported per program: number of functions, how many lie in `InAnfFragment` (the
hypothesis of `anf_preserves`), whether every output satisfies `isA` and every input `isLift`.
-/
namespace Goml.Driver.C09
open Goml Goml.Anf

def showList (f : α → String) (xs : List α) : String := " ".intercalate (xs.map f)

/-- `t<digits>` -/
def tmpIndex (x : String) : Option Nat :=
  match x.toList with
  | 't' :: ds => if !ds.isEmpty && ds.all Char.isDigit then (String.ofList ds).toNat? else none
  | _ => none

mutual
/-- `er`: do not print the type annotation of references to temporaries -/
partial def showExprE (er : Bool) : Expr → String
  | .var x ty => if er && (tmpIndex x).isSome then s!"(var {x} _)" else s!"(var {x} {reprStr ty})"
  | .prim p => s!"(prim {reprStr p})"
  | .tag i ty => s!"(tag {i} {reprStr ty})"
  | .constr c ty args => s!"(constr {reprStr c} {reprStr ty} {showList (showExprE er) args})"
  | .tuple ty items => s!"(tuple {reprStr ty} {showList (showExprE er) items})"
  | .array ty items => s!"(array {reprStr ty} {showList (showExprE er) items})"
  | .closure ty ps b => s!"(closure {reprStr ty} {reprStr ps} {showExprE er b})"
  | .letE x v b => s!"(let {x} {showExprE er v} {showExprE er b})"
  | .matchE ty s arms d =>
    s!"(match {reprStr ty} {showExprE er s} ({showList (showArmE er) arms}) {match d with | some d => showExprE er d | none => "none"})"
  | .ite c t e => s!"(if {showExprE er c} {showExprE er t} {showExprE er e})"
  | .while c b => s!"(while {showExprE er c} {showExprE er b})"
  | .go e => s!"(go {showExprE er e})"
  | .cget c i ty e => s!"(cget {reprStr c} {i} {reprStr ty} {showExprE er e})"
  | .un op ty e => s!"(un {reprStr op} {reprStr ty} {showExprE er e})"
  | .bin op ty l r => s!"(bin {reprStr op} {reprStr ty} {showExprE er l} {showExprE er r})"
  | .call ty f args => s!"(call {reprStr ty} {showExprE er f} {showList (showExprE er) args})"
  | .toDyn tr ft ty e => s!"(todyn {tr} {reprStr ft} {reprStr ty} {showExprE er e})"
  | .dynCall tr m ty r args => s!"(dyncall {tr} {m} {reprStr ty} {showExprE er r} {showList (showExprE er) args})"
  | .traitCall tr m ty r args => s!"(traitcall {tr} {m} {reprStr ty} {showExprE er r} {showList (showExprE er) args})"
  | .proj i ty e => s!"(proj {i} {reprStr ty} {showExprE er e})"
partial def showArmE (er : Bool) : Arm → String
  | .mk l b => s!"(arm {showExprE er l} {showExprE er b})"
end

def showFn (er : Bool) (f : Fn) : String :=
  s!"(fn {f.name} {reprStr f.params} {reprStr f.ret} {showExprE er f.body})"

mutual
partial def letTmps : Expr → List Nat
  | .letE x v b => (match tmpIndex x with | some n => [n] | none => []) ++ letTmps v ++ letTmps b
  | .matchE _ _ arms d => arms.flatMap (fun | .mk _ b => letTmps b) ++ (match d with | some d => letTmps d | none => [])
  | .ite _ t e => letTmps t ++ letTmps e
  | .while c b => letTmps c ++ letTmps b
  | _ => []
end

def clean (s : String) : String := s.map (fun c => if c == '\t' || c == '\n' then ' ' else c)

def firstDiff (a b : String) : String :=
  let la := a.toList
  let lb := b.toList
  let rec go (i : Nat) : List Char → List Char → Nat
    | x :: xs, y :: ys => if x == y then go (i + 1) xs ys else i
    | _, _ => i
  let i := go 0 la lb
  let lo := i - 60
  s!"at {i}: model=…{String.ofList ((la.drop lo).take 160)}… real=…{String.ofList ((lb.drop lo).take 160)}…"

def cmpFns (er : Bool) (model real : List Fn) : Option String :=
  if model.length != real.length then some s!"function count {model.length} vs {real.length}" else
  (model.zip real).findSome? fun (m, r) =>
    let sm := showFn er m
    let sr := showFn er r
    if sm == sr then none else some s!"fn {r.name} {firstDiff sm sr}"

/-- `EQ`: exact; `EQT`: equal except for the type annotation of references to temporaries (the
    dump does not carry the `ty` field of `ELet`/`EIf`, which `tyOf` recomputes from the body) -/
def verdict (model real : List Fn) : String :=
  match cmpFns false model real with
  | none => "EQ"
  | some d =>
    match cmpFns true model real with
    | none => "EQT " ++ clean d
    | some d' => "DIFF " ++ clean d'

def runLine (l : String) : String :=
  let (id, rest) := splitTab l
  match Sexp.parse rest with
  | some (.list [.atom "tie", lift, anf0, anfp]) =>
    match decProg lift, decProg anf0, decProg anfp with
    | some L, some A0, some AP =>
      let m0 := anfProg L 0
      let r0 := verdict m0.fns A0.fns
      let s := (AP.fns.flatMap (fun f => letTmps f.body)).foldl min (AP.fns.flatMap (fun f => letTmps f.body)).head!
      let s := if (AP.fns.flatMap (fun f => letTmps f.body)).isEmpty then 0 else s
      let mp := anfProg L s
      let rp := verdict mp.fns AP.fns
      let nf := L.fns.length
      let nLift := (L.fns.filter (fun f => isLift f.body)).length
      let nA := (A0.fns.filter (fun f => isA f.body)).length
      let nAP := (AP.fns.filter (fun f => isA f.body)).length
      let frag := (anfFragFlags L.fns s)
      let nFrag := (frag.filter (fun b => b)).length
      let nTemps := (anfFns L.fns 0).2
      let fileFrag := if frag.all (fun b => b) then 1 else 0
      let notIn := ((L.fns.zip frag).filter (fun p => !p.2)).map (fun p => p.1.name)
      s!"{id}\t{r0}\t{rp}\tstart={s}\tfns={nf}\tlift={nLift}\tisA0={nA}\tisAP={nAP}\tfrag={nFrag}\ttemps={nTemps}\tfilefrag={fileFrag}\tnotfrag={" ".intercalate (notIn.take 5)}"
    | _, _, _ => s!"{id}\tdecode-error"
  | _ => s!"{id}\tparse-error"

def main : IO Unit := do
  let stdin ← IO.getStdin
  forEachLine stdin fun l => IO.println (runLine l)

end Goml.Driver.C09
