import GomlVerif.Model.Anf
import GomlVerif.Model.AnfFrag
import GomlVerif.Driver.DecSyntax
/-!
`gomlmodel c09`: L1 tie of `Model/Anf.lean` with `anf.rs`.

Input line: `id<TAB>(tie <lift prog> <anf prog, fresh Gensym> <anf prog, pipeline>)`.
The model's `anfProg` is applied to the REAL Lift dump and compared, exactly (temporary
names, their numbering and their type annotations included), with
 * the REAL `anf::anf_file` output on a fresh `Gensym` (counter 0), and
 * the ANF stage of the pipeline `Compilation`, whose counter starts where `compile_match`
   and `lift` left it (recovered as the smallest let-bound `t<n>`).
Also reported per program: number of functions, how many lie in `InAnfFragment` (the
hypothesis of `anf_preserves`), whether every output satisfies `isA` and every input `isLift`.
-/
namespace Goml.Driver.C09
open Goml Goml.Anf

def showList (f : α → String) (xs : List α) : String := " ".intercalate (xs.map f)

mutual
partial def showExpr : Expr → String
  | .var x ty => s!"(var {x} {reprStr ty})"
  | .prim p => s!"(prim {reprStr p})"
  | .tag i ty => s!"(tag {i} {reprStr ty})"
  | .constr c ty args => s!"(constr {reprStr c} {reprStr ty} {showList showExpr args})"
  | .tuple ty items => s!"(tuple {reprStr ty} {showList showExpr items})"
  | .array ty items => s!"(array {reprStr ty} {showList showExpr items})"
  | .closure ty ps b => s!"(closure {reprStr ty} {reprStr ps} {showExpr b})"
  | .letE x v b => s!"(let {x} {showExpr v} {showExpr b})"
  | .matchE ty s arms d =>
    s!"(match {reprStr ty} {showExpr s} ({showList showArm arms}) {match d with | some d => showExpr d | none => "none"})"
  | .ite c t e => s!"(if {showExpr c} {showExpr t} {showExpr e})"
  | .while c b => s!"(while {showExpr c} {showExpr b})"
  | .go e => s!"(go {showExpr e})"
  | .cget c i ty e => s!"(cget {reprStr c} {i} {reprStr ty} {showExpr e})"
  | .un op ty e => s!"(un {reprStr op} {reprStr ty} {showExpr e})"
  | .bin op ty l r => s!"(bin {reprStr op} {reprStr ty} {showExpr l} {showExpr r})"
  | .call ty f args => s!"(call {reprStr ty} {showExpr f} {showList showExpr args})"
  | .toDyn tr ft ty e => s!"(todyn {tr} {reprStr ft} {reprStr ty} {showExpr e})"
  | .dynCall tr m ty r args => s!"(dyncall {tr} {m} {reprStr ty} {showExpr r} {showList showExpr args})"
  | .traitCall tr m ty r args => s!"(traitcall {tr} {m} {reprStr ty} {showExpr r} {showList showExpr args})"
  | .proj i ty e => s!"(proj {i} {reprStr ty} {showExpr e})"
partial def showArm : Arm → String
  | .mk l b => s!"(arm {showExpr l} {showExpr b})"
end

def showFn (f : Fn) : String :=
  s!"(fn {f.name} {reprStr f.params} {reprStr f.ret} {showExpr f.body})"

/-- `t<digits>` -/
def tmpIndex (x : String) : Option Nat :=
  match x.toList with
  | 't' :: ds => if !ds.isEmpty && ds.all Char.isDigit then (String.ofList ds).toNat? else none
  | _ => none

mutual
partial def letTmps : Expr → List Nat
  | .letE x v b => (match tmpIndex x with | some n => [n] | none => []) ++ letTmps v ++ letTmps b
  | .matchE _ _ arms d => arms.flatMap (fun | .mk _ b => letTmps b) ++ (match d with | some d => letTmps d | none => [])
  | .ite _ t e => letTmps t ++ letTmps e
  | .while c b => letTmps c ++ letTmps b
  | _ => []
end

def firstDiff (a b : String) : String :=
  let la := a.toList
  let lb := b.toList
  let rec go (i : Nat) : List Char → List Char → Nat
    | x :: xs, y :: ys => if x == y then go (i + 1) xs ys else i
    | _, _ => i
  let i := go 0 la lb
  let lo := i - 60
  s!"at {i}: model=…{String.ofList ((la.drop lo).take 160)}… real=…{String.ofList ((lb.drop lo).take 160)}…"

def cmpFns (model real : List Fn) : Option String :=
  if model.length != real.length then some s!"function count {model.length} vs {real.length}" else
  (model.zip real).findSome? fun (m, r) =>
    let sm := showFn m
    let sr := showFn r
    if sm == sr then none else some s!"fn {r.name} {firstDiff sm sr}"

def clean (s : String) : String := s.map (fun c => if c == '\t' || c == '\n' then ' ' else c)

def runLine (l : String) : String :=
  let (id, rest) := splitTab l
  match Sexp.parse rest with
  | some (.list [.atom "tie", lift, anf0, anfp]) =>
    match decProg lift, decProg anf0, decProg anfp with
    | some L, some A0, some AP =>
      let m0 := anfProg L 0
      let r0 := match cmpFns m0.fns A0.fns with | none => "EQ" | some d => "DIFF " ++ clean d
      let s := (AP.fns.flatMap (fun f => letTmps f.body)).foldl min (AP.fns.flatMap (fun f => letTmps f.body)).head!
      let s := if (AP.fns.flatMap (fun f => letTmps f.body)).isEmpty then 0 else s
      let mp := anfProg L s
      let rp := match cmpFns mp.fns AP.fns with | none => "EQ" | some d => "DIFF " ++ clean d
      let nf := L.fns.length
      let nLift := (L.fns.filter (fun f => isLift f.body)).length
      let nA := (A0.fns.filter (fun f => isA f.body)).length
      let nAP := (AP.fns.filter (fun f => isA f.body)).length
      let frag := (anfFragFlags L.fns s)
      let nFrag := (frag.filter (fun b => b)).length
      let nTemps := (anfFns L.fns 0).2
      let fileFrag := if frag.all (fun b => b) then 1 else 0
      let notIn := ((L.fns.zip frag).filter (fun p => !p.2)).map (fun p => p.1.name)
      s!"{id}\t{r0}\t{rp}\tstart={s}\tfns={nf}\tlift={nLift}\tisA0={nA}\tisAP={nAP}\tfrag={nFrag}\ttemps={nTemps}\tfilefrag={fileFrag}\tnotfrag={" ".intercalate (notIn.take 5)}"
    | _, _, _ => s!"{id}\tdecode-error"
  | _ => s!"{id}\tparse-error"

def main : IO Unit := do
  let stdin ← IO.getStdin
  forEachLine stdin fun l => IO.println (runLine l)

end Goml.Driver.C09
