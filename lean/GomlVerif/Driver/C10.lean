import GomlVerif.Model.Num
import GomlVerif.Gen.OpMap
import GomlVerif.Gen.ToString
import GomlVerif.Gen.NumTypes
import GomlVerif.Driver.Common
/-! driver for C10: one case per line (`id<TAB>sexp`), prints what the model + generated tables predict -/
namespace Goml.Driver.C10
open Goml Goml.Num

abbrev IntRow := String × String × String × String × String × String × String

def IntRow.ty (r : IntRow) : String := r.1
def IntRow.kind (r : IntRow) : String := r.2.1
def IntRow.diag (r : IntRow) : String := r.2.2.1
def IntRow.prim (r : IntRow) : String := r.2.2.2.1
def IntRow.rust (r : IntRow) : String := r.2.2.2.2.1
def IntRow.goName (r : IntRow) : String := r.2.2.2.2.2.2

def rowOfTy (ty : String) : Option IntRow := Gen.NumTypes.intTypes.find? (·.ty == ty)
def rowOfName (n : String) : Option IntRow := Gen.NumTypes.intTypes.find? (·.diag == n)
def rowOfPrim (p : String) : Option IntRow := Gen.NumTypes.intTypes.find? (·.prim == p)
def rowOfRust (p : String) : Option IntRow := Gen.NumTypes.intTypes.find? (·.rust == p)

/-- goml type name (as written in source) → Go spelling, through the generated tables -/
def goNameOf (n : String) : String :=
  match rowOfName n with
  | some r => r.goName
  | none =>
    match Gen.NumTypes.floatTypes.find? (·.2.2.2.2 == n) with
    | some f => f.2.2.2.2
    | none => n

/-- `let x[: annot] = <digits><suffix>;` through the modelled pipeline -/
def litOutcome (digits sfx annot : String) : String :=
  let isIntNode (n : String) : Bool := n.startsWith "EInt" || n.startsWith "EUInt"
  match Gen.NumTypes.litForms.find? (fun f => f.1 == sfx && isIntNode f.2.1) with
  | none => "no-such-form"
  | some form =>
    match rowOfTy form.2.2 with
    | none => "no-type-row"
    | some row =>
      match IntTy.ofRust row.rust with
      | none => "no-carrier"
      | some t =>
        let r := checkLit (row.kind == "unsigned") t digits.toList
        let mismatch := annot != "" && (match rowOfName annot with
          | some ar => ar.ty != form.2.2
          | none => true)
        let cls : List String :=
          (match r with
            | .doesNotFit => [s!"fit:{row.diag}"]
            | .invalid => ["invalid"]
            | .accept _ => []) ++ (if mismatch then ["mismatch"] else [])
        if !cls.isEmpty then "reject typer " ++ "+".intercalate cls
        else
          -- the value that reaches Core is built by tast_builder.rs from the same text
          let node := (form.2.1.drop 1).toString
          match Gen.NumTypes.builderInt.find? (·.1 == node) with
          | none => "no-builder-row"
          | some b =>
            match rowOfPrim b.2.1 with
            | none => "no-builder-prim"
            | some brow =>
              match IntTy.ofRust brow.rust with
              | none => "no-builder-carrier"
              | some bt =>
                let v := builderValue (b.2.2.1 == "unsigned") bt digits.toList
                let goName := (rowOfTy b.2.2.2).map (·.goName) |>.getD "?"
                s!"accept prim={b.2.1} val={v} tast={b.2.2.2} goty={goName} golit={String.ofList (goLit v)}"

/-- `match (x : scrut) { <digits><suffix> => … }` through the modelled pipeline (check_pat + tast_builder + compile_match) -/
def patOutcome (digits sfx scrut shape : String) : String :=
  let inferred := ["arith", "let", "closure", "generic", "ifexpr"].contains shape
  match rowOfName scrut with
  | none => "no-scrutinee-type"
  | some srow =>
    -- literal type: the suffix's type, or (unsuffixed) the scrutinee's integer type if it is known when the pattern is
    -- checked, int32 otherwise; the constraint `literal type = scrutinee type` is pushed in every case
    let litTy : Option String :=
      if sfx == "" then some (patTarget (if inferred then none else some srow.ty))
      else (Gen.NumTypes.patForms.find? (·.1 == sfx)).map (·.2.2)
    match litTy.bind rowOfTy with
    | none => "no-literal-type"
    | some row =>
      match IntTy.ofRust row.rust with
      | none => "no-carrier"
      | some t =>
        let r := checkLit (row.kind == "unsigned") t digits.toList
        let cls : List String :=
          (match r with
            | .doesNotFit => [s!"fit:{row.diag}"]
            | .invalid => ["invalid"]
            | .accept _ => []) ++ (if row.ty != srow.ty then ["mismatch"] else [])
        if !cls.isEmpty then "reject typer " ++ "+".intercalate cls
        else
          let built : Option (String × String) :=
            -- tast_builder.rs rebuilds an unsuffixed pattern at the pattern's FINAL type (= the scrutinee's)
            if sfx == "" then patPrimOf Gen.NumTypes.builderPatUnsuffixed srow.ty
            else (Gen.NumTypes.patForms.find? (·.1 == sfx)).bind fun f =>
              (Gen.NumTypes.builderPat.find? (·.1 == f.2.1)).map fun b => (b.2.1, b.2.2.1)
          match built with
          | none => "no-builder-row"
          | some (prim, kind) =>
            -- compile_match extracts the key with `as_<scrutinee type>()`: a Prim of another variant panics
            if prim != srow.prim then "panic expected integer primitive pattern"
            else
              match (rowOfPrim prim).bind (fun b => IntTy.ofRust b.rust) with
              | none => "no-builder-carrier"
              | some bt =>
                let v := builderValue (kind == "unsigned") bt digits.toList
                s!"accept core={prim}:{v}:{srow.ty} cases=var:{srow.goName}/lit:{srow.goName}:{String.ofList (goLit v)}"

def errName : ParseErr → String
  | .empty => "empty" | .invalidDigit => "invalidDigit" | .posOverflow => "posOverflow" | .negOverflow => "negOverflow"

def showVal : Val → String
  | .int v => s!"int {v}"
  | .bool b => s!"bool {b}"
  | .panic => "panic"
  | .illTyped => "illTyped"

def binSym (op : String) : Option String := goSymOf Gen.OpMap.binMap Gen.OpMap.goBinSym op
def unSym (op : String) : Option String := goSymOf Gen.OpMap.unMap Gen.OpMap.goUnSym op

/-- operands arrive as raw 64-bit patterns; both meanings are computed from the same words -/
def evalOutcome (op rust : String) (x y : Nat) : String :=
  match IntTy.ofRust rust with
  | none => "no-type"
  | some t =>
    let a : BitVec t.bits := BitVec.ofNat t.bits x
    let b : BitVec t.bits := BitVec.ofNat t.bits y
    if op == "Neg" then
      match unSym op, UnOp.ofName op with
      | some sym, some u => s!"go={showVal ((goUnInt sym a).denote t)} sem={showVal (semUnInt u t (t.toZ a))}"
      | _, _ => "no-op"
    else
      match binSym op, BinOp.ofName op with
      | some sym, some o =>
        s!"go={showVal ((goBinInt sym t.signed a b).denote t)} sem={showVal (semBinInt o t (t.toZ a) (t.toZ b))}"
      | _, _ => "no-op"

def isCmp (op : String) : Bool :=
  op == "Less" || op == "Greater" || op == "LessEq" || op == "GreaterEq" || op == "Eq" || op == "NotEq"

def opnd (k : Char) (goty : String) : String := if k == 'v' then s!"var:{goty}" else s!"lit:{goty}"

/-- prediction for an operator program: Go operator node, printed symbol, operand kinds and Go types, result type -/
def opOutcome (unary : Bool) (op ty shape : String) : String :=
  let goty := goNameOf ty
  if unary then
    match lookup op Gen.OpMap.unMap, unSym op with
    | some g, some sym => s!"un op={g} sym={sym} arg={opnd (shape.toList.getD 0 'v') goty} ty={goty}"
    | _, _ => "no-op"
  else
    match lookup op Gen.OpMap.binMap, binSym op with
    | some g, some sym =>
      let cs := shape.toList
      let ret := if isCmp op then "bool" else goty
      s!"bin op={g} sym={sym} lhs={opnd (cs.getD 0 'v') goty} rhs={opnd (cs.getD 1 'v') goty} ty={ret}"
    | _, _ => "no-op"

def tostrOutcome (name : String) : String :=
  match Gen.ToString.helpers.find? (·.1 == name) with
  | some h => s!"helper {h.1} {h.2.1} {h.2.2} ok={verbOk h}"
  | none => "no-such-helper"

def runLine (l : String) : String :=
  let (id, rest) := splitTab l
  let unDash (s : String) : String := if s == "-" then "" else s
  match Sexp.parse rest with
  | some (.list [.atom "lit", .atom d, .atom s, .atom an]) => s!"{id}\t{litOutcome d (unDash s) (unDash an)}"
  | some (.list [.atom "neg", .atom d, .atom s]) =>
    -- `-<lit>`: the literal is checked on its own (so `-128i8` is refused), then negated by the Go operator `-`
    let inner := litOutcome d (unDash s) ""
    if inner.startsWith "accept " then
      let goty := ((inner.splitOn " goty=").getD 1 "").takeWhile (· != ' ')
      let golit := ((inner.splitOn " golit=").getD 1 "").takeWhile (· != ' ')
      let core := ((inner.splitOn " goty=").getD 0 "")
      match lookup "Neg" Gen.OpMap.unMap, unSym "Neg" with
      | some g, some sym => s!"{id}\t{core} goop={g} arg=lit:{goty}:{golit} goty={goty} declty={goty} txt={goty}:{sym}{golit}"
      | _, _ => s!"{id}\tno-op"
    else s!"{id}\t{inner}"
  | some (.list [.atom "pat", .atom d, .atom s, .atom sc, .atom sh]) => s!"{id}\t{patOutcome d (unDash s) sc sh}"
  | some (.list [.atom "parse", .atom rust, .atom s]) =>
    match IntTy.ofRust rust with
    | some t =>
      match parseInt t s.toList with
      | .ok v => s!"{id}\tok {v}"
      | .error e => s!"{id}\terr {errName e}"
    | none => s!"{id}\tno-type"
  | some (.list [.atom "eval", .atom op, .atom rust, x, y]) =>
    s!"{id}\t{evalOutcome op rust (x.nat?.getD 0) (y.nat?.getD 0)}"
  | some (.list [.atom "fmt", .atom rust, x]) =>
    match IntTy.ofRust rust with
    | some t => s!"{id}\t{String.ofList (intToDec (t.toZ (BitVec.ofNat t.bits (x.nat?.getD 0))))}"
    | none => s!"{id}\tno-type"
  | some (.list [.atom "tostr", .atom name]) => s!"{id}\t{tostrOutcome name}"
  | some (.list [.atom "binop", .atom op, .atom ty, .atom shape, _, _]) => s!"{id}\t{opOutcome false op ty shape}"
  | some (.list [.atom "unop", .atom op, .atom ty, .atom shape, _, _]) => s!"{id}\t{opOutcome true op ty shape}"
  | _ => s!"{id}\tparse-error"

def main : IO Unit := do
  let stdin ← IO.getStdin
  forEachLine stdin fun l => IO.println (runLine l)

end Goml.Driver.C10
