import GomlVerif.Model.Num
import GomlVerif.Model.GoConst
import GomlVerif.Gen.FloatPrint
import GomlVerif.Gen.OpMap
import GomlVerif.Gen.ToString
import GomlVerif.Gen.NumTypes
import GomlVerif.Driver.Common
/-! driver for C10: one case per line (`id<TAB>sexp`), prints what the model + generated tables predict -/
namespace Goml.Driver.C10
open Goml Goml.Num

abbrev IntRow := String × String × String × String × String × String × String

def IntRow.ty (r : IntRow) : String := r.1
def IntRow.kind (r : IntRow) : String := r.2.1
def IntRow.diag (r : IntRow) : String := r.2.2.1
def IntRow.prim (r : IntRow) : String := r.2.2.2.1
def IntRow.rust (r : IntRow) : String := r.2.2.2.2.1
def IntRow.goName (r : IntRow) : String := r.2.2.2.2.2.2

def rowOfTy (ty : String) : Option IntRow := Gen.NumTypes.intTypes.find? (·.ty == ty)
def rowOfName (n : String) : Option IntRow := Gen.NumTypes.intTypes.find? (·.diag == n)
def rowOfPrim (p : String) : Option IntRow := Gen.NumTypes.intTypes.find? (·.prim == p)
def rowOfRust (p : String) : Option IntRow := Gen.NumTypes.intTypes.find? (·.rust == p)

/-- goml type name (as written in source) → Go spelling, through the generated tables -/
def goNameOf (n : String) : String :=
  match rowOfName n with
  | some r => r.goName
  | none =>
    match Gen.NumTypes.floatTypes.find? (·.2.2.2.2 == n) with
    | some f => f.2.2.2.2
    | none => n

/-- `let x[: annot] = <digits><suffix>;` through the modelled pipeline -/
def litOutcome (digits sfx annot : String) : String :=
  let isIntNode (n : String) : Bool := n.startsWith "EInt" || n.startsWith "EUInt"
  match Gen.NumTypes.litForms.find? (fun f => f.1 == sfx && isIntNode f.2.1) with
  | none => "no-such-form"
  | some form =>
    match rowOfTy form.2.2 with
    | none => "no-type-row"
    | some row =>
      match IntTy.ofRust row.rust with
      | none => "no-carrier"
      | some t =>
        let r := checkLit (row.kind == "unsigned") t digits.toList
        let mismatch := annot != "" && (match rowOfName annot with
          | some ar => ar.ty != form.2.2
          | none => true)
        let cls : List String :=
          (match r with
            | .doesNotFit => [s!"fit:{row.diag}"]
            | .invalid => ["invalid"]
            | .accept _ => []) ++ (if mismatch then ["mismatch"] else [])
        if !cls.isEmpty then "reject typer " ++ "+".intercalate cls
        else
          -- the value that reaches Core is built by tast_builder.rs from the same text
          let node := (form.2.1.drop 1).toString
          match Gen.NumTypes.builderInt.find? (·.1 == node) with
          | none => "no-builder-row"
          | some b =>
            match rowOfPrim b.2.1 with
            | none => "no-builder-prim"
            | some brow =>
              match IntTy.ofRust brow.rust with
              | none => "no-builder-carrier"
              | some bt =>
                let v := builderValue (b.2.2.1 == "unsigned") bt digits.toList
                let goName := (rowOfTy b.2.2.2).map (·.goName) |>.getD "?"
                s!"accept prim={b.2.1} val={v} tast={b.2.2.2} goty={goName} golit={String.ofList (goLit v)}"

/-- `match (x : scrut) { <digits><suffix> => … }` through the modelled pipeline (check_pat + tast_builder + compile_match) -/
def patOutcome (digits sfx scrut shape : String) : String :=
  let inferred := ["arith", "let", "closure", "generic", "ifexpr"].contains shape
  match rowOfName scrut with
  | none => "no-scrutinee-type"
  | some srow =>
    -- literal type: the suffix's type, or (unsuffixed) the scrutinee's integer type if it is known when the pattern is
    -- checked, int32 otherwise; the constraint `literal type = scrutinee type` is pushed in every case
    let litTy : Option String :=
      if sfx == "" then some (patTarget (if inferred then none else some srow.ty))
      else (Gen.NumTypes.patForms.find? (·.1 == sfx)).map (·.2.2)
    match litTy.bind rowOfTy with
    | none => "no-literal-type"
    | some row =>
      match IntTy.ofRust row.rust with
      | none => "no-carrier"
      | some t =>
        let r := checkLit (row.kind == "unsigned") t digits.toList
        let cls : List String :=
          (match r with
            | .doesNotFit => [s!"fit:{row.diag}"]
            | .invalid => ["invalid"]
            | .accept _ => []) ++ (if row.ty != srow.ty then ["mismatch"] else [])
        if !cls.isEmpty then "reject typer " ++ "+".intercalate cls
        else
          let built : Option (String × String) :=
            -- tast_builder.rs rebuilds an unsuffixed pattern at the pattern's FINAL type (= the scrutinee's)
            if sfx == "" then patPrimOf Gen.NumTypes.builderPatUnsuffixed srow.ty
            else (Gen.NumTypes.patForms.find? (·.1 == sfx)).bind fun f =>
              (Gen.NumTypes.builderPat.find? (·.1 == f.2.1)).map fun b => (b.2.1, b.2.2.1)
          match built with
          | none => "no-builder-row"
          | some (prim, kind) =>
            -- compile_match extracts the key with `as_<scrutinee type>()`: a Prim of another variant panics
            if prim != srow.prim then "panic expected integer primitive pattern"
            else
              match (rowOfPrim prim).bind (fun b => IntTy.ofRust b.rust) with
              | none => "no-builder-carrier"
              | some bt =>
                let v := builderValue (kind == "unsigned") bt digits.toList
                s!"accept core={prim}:{v}:{srow.ty} cases=var:{srow.goName}/lit:{srow.goName}:{String.ofList (goLit v)}"

def errName : ParseErr → String
  | .empty => "empty" | .invalidDigit => "invalidDigit" | .posOverflow => "posOverflow" | .negOverflow => "negOverflow"

def showVal : Val → String
  | .int v => s!"int {v}"
  | .bool b => s!"bool {b}"
  | .panic => "panic"
  | .illTyped => "illTyped"

def binSym (op : String) : Option String := goSymOf Gen.OpMap.binMap Gen.OpMap.goBinSym op
def unSym (op : String) : Option String := goSymOf Gen.OpMap.unMap Gen.OpMap.goUnSym op

/-- operands arrive as raw 64-bit patterns; both meanings are computed from the same words -/
def evalOutcome (op rust : String) (x y : Nat) : String :=
  match IntTy.ofRust rust with
  | none => "no-type"
  | some t =>
    let a : BitVec t.bits := BitVec.ofNat t.bits x
    let b : BitVec t.bits := BitVec.ofNat t.bits y
    if op == "Neg" then
      match unSym op, UnOp.ofName op with
      | some sym, some u => s!"go={showVal ((goUnInt sym a).denote t)} sem={showVal (semUnInt u t (t.toZ a))}"
      | _, _ => "no-op"
    else
      match binSym op, BinOp.ofName op with
      | some sym, some o =>
        s!"go={showVal ((goBinInt sym t.signed a b).denote t)} sem={showVal (semBinInt o t (t.toZ a) (t.toZ b))}"
      | _, _ => "no-op"

def isCmp (op : String) : Bool :=
  op == "Less" || op == "Greater" || op == "LessEq" || op == "GreaterEq" || op == "Eq" || op == "NotEq"

def opnd (k : Char) (goty : String) : String := if k == 'v' then s!"var:{goty}" else s!"lit:{goty}"

/-- prediction for an operator program: Go operator node, printed symbol, operand kinds and Go types, result type -/
def opOutcome (unary : Bool) (op ty shape : String) : String :=
  let goty := goNameOf ty
  if unary then
    match lookup op Gen.OpMap.unMap, unSym op with
    | some g, some sym => s!"un op={g} sym={sym} arg={opnd (shape.toList.getD 0 'v') goty} ty={goty}"
    | _, _ => "no-op"
  else
    match lookup op Gen.OpMap.binMap, binSym op with
    | some g, some sym =>
      let cs := shape.toList
      let ret := if isCmp op then "bool" else goty
      s!"bin op={g} sym={sym} lhs={opnd (cs.getD 0 'v') goty} rhs={opnd (cs.getD 1 'v') goty} ty={ret}"
    | _, _ => "no-op"

def tostrOutcome (name : String) : String :=
  match Gen.ToString.helpers.find? (·.1 == name) with
  | some h => s!"helper {h.1} {h.2.1} {h.2.2} ok={verbOk h}"
  | none => "no-such-helper"

/-! ### constant-aware evaluation of the REAL printed Go text (parsed by `goparse::parse_go_raw`, literal texts kept)

`Model/GoConst` supplies the semantics (exact constant expressions, one rounding at the typed use, IEEE operations on
bits); this is only the walk over the S-expression of the emitted functions `g`, `f`, `main0`. -/
namespace GoEval
open Goml.GoConst

inductive V where
  | flt (ty : String) (bits : Nat)
  | bool (b : Bool)
  | const (c : CVal)
  | other
  deriving Inhabited

def errName : CErr → String
  | .divisionByZero => "division-by-zero" | .overflows => "constant-overflows-type" | .notRepresentable => "not-representable"
  | .badLiteral => "bad-literal" | .mismatched => "mismatched-operands"

def hexOf (n : Nat) : String := String.ofList (Nat.toDigits 16 n)

def showV : V → String
  | .flt ty b => s!"{ty} {hexOf b}"
  | .bool b => s!"bool {b}"
  | .const (.int v) => s!"const-int {v}"
  | .const (.flt q) => s!"const-float {q.num}/{q.den}"
  | .const (.bool b) => s!"bool {b}"
  | .other => "other"

/-- the one conversion of a value at a typed position -/
def convert (ty : String) : V → Except String V
  | .const c =>
    if ty == "bool" then (match c with | .bool b => .ok (.bool b) | _ => .error "go-compile-error mismatched-operands")
    else match convertFloat ty c with
      | .ok b => .ok (.flt ty b)
      | .error e => .error s!"go-compile-error {errName e}"
  | v => .ok v

def isCmpSym (s : String) : Bool := s == "<" || s == "<=" || s == ">" || s == ">=" || s == "==" || s == "!="

def binV (sym : String) (a b : V) : Except String V :=
  match a, b with
  | .const x, .const y =>
    match constBin sym x y with
    | .ok v => .ok (.const v)
    | .error e => .error s!"go-compile-error {errName e}"
  | .flt ty x, .flt _ y =>
    match fmtOf ty with
    | some (p, eb) =>
      if isCmpSym sym then (match ieeeCmp p eb sym x y with | some r => .ok (.bool r) | none => .error "run-time-inf-or-nan")
      else (match ieeeBin p eb sym x y with | some r => .ok (.flt ty r) | none => .error "run-time-inf-or-nan")
    | none => .error "not-a-float-type"
  | .bool x, .bool y =>
    if sym == "&&" then .ok (.bool (x && y)) else if sym == "||" then .ok (.bool (x || y))
    else if sym == "==" then .ok (.bool (x == y)) else if sym == "!=" then .ok (.bool (x != y)) else .error "bad-bool-op"
  | _, _ => .error "operands-not-evaluable"

structure Fn where
  name : String
  params : List (String × String)
  ret : String
  body : List Sexp

def decFn : Sexp → Option Fn
  | .list [.atom "func", .atom n, .list ps, .atom ret, .list body] =>
    some { name := n, ret := ret, body := body,
           params := ps.filterMap fun | .list [.atom x, .atom t] => some (x, t) | _ => none }
  | _ => none

abbrev Env := List (String × String × V)   -- name, declared type, value

def zeroOf (ty : String) : V :=
  if ty == "float32" || ty == "float64" then .flt ty 0 else if ty == "bool" then .bool false else .other

mutual
partial def evalE (fns : List Fn) (env : Env) : Sexp → Except String V
  | .list [.atom "num", .atom t] =>
    match litVal t with
    | .ok c => .ok (.const c)
    | .error e => .error s!"go-compile-error {errName e}"
  | .list [.atom "var", .atom x] =>
    if x == "true" then .ok (.bool true) else if x == "false" then .ok (.bool false)
    else match env.find? (·.1 == x) with
      | some (_, _, v) => .ok v
      | none => .error s!"unbound {x}"
  | .list [.atom "paren", e] => evalE fns env e
  | .list [.atom "un", .atom "neg", e] => do
    match ← evalE fns env e with
    | .const (.int v) => pure (.const (.int (-v)))
    | .const (.flt q) => pure (.const (.flt q.neg))
    | .flt ty b => match fmtOf ty with
      | some (p, eb) => pure (.flt ty (ieeeNeg p eb b))
      | none => throw "not-a-float-type"
    | _ => throw "bad-neg"
  | .list [.atom "un", .atom "not", e] => do
    match ← evalE fns env e with
    | .bool b => pure (.bool (!b))
    | .const (.bool b) => pure (.const (.bool (!b)))
    | _ => throw "bad-not"
  | .list [.atom "bin", .atom sym, l, r] => do
    let a ← evalE fns env l
    let b ← evalE fns env r
    -- an untyped constant operand next to a typed one is converted to that type first
    match a, b with
    | .flt ty _, .const _ => binV sym a (← convert ty b)
    | .const _, .flt ty _ => binV sym (← convert ty a) b
    | .bool _, .const _ => binV sym a (← convert "bool" b)
    | .const _, .bool _ => binV sym (← convert "bool" a) b
    | _, _ => binV sym a b
  | .list (.atom "call" :: .list [.atom "var", .atom f] :: args) => do
    match fns.find? (·.name == f) with
    | none => pure .other
    | some fn =>
      let vs ← (fn.params.zip args).mapM fun ((x, t), a) => do
        let v ← evalE fns env a
        pure (x, t, ← convert t v)
      match ← exec fns fn.ret vs fn.body with
      | (_, some v) => pure v
      | (_, none) => throw "no-return"
  | _ => .ok .other

/-- statements in order; `some v` = the function returned `v` (converted to the result type `ret`) -/
partial def exec (fns : List Fn) (ret : String) (env : Env) : List Sexp → Except String (Env × Option V)
  | [] => .ok (env, none)
  | st :: rest => do
    match st with
    | .list [.atom "vardecl", .atom x, .atom t, .atom "none"] => exec fns ret ((x, t, zeroOf t) :: env) rest
    | .list [.atom "vardecl", .atom x, .atom t, e] =>
      let v ← convert t (← evalE fns env e)
      exec fns ret ((x, t, v) :: env) rest
    | .list [.atom "assign", .list [.atom "var", .atom x], e] =>
      let t := ((env.find? (·.1 == x)).map (·.2.1)).getD "?"
      let v ← convert t (← evalE fns env e)
      exec fns ret (env.map fun (n, ty, old) => if n == x then (n, ty, v) else (n, ty, old)) rest
    | .list [.atom "return", e] =>
      let v ← convert ret (← evalE fns env e)
      pure (env, some v)
    | .list [.atom "if", c, .list th, el] =>
      let cv ← convert "bool" (← evalE fns env c)
      let branch := match cv with
        | .bool true => th
        | _ => (match el with | .list es => es | _ => [])
      match ← exec fns ret env branch with
      | (env', some v) => pure (env', some v)
      | (env', none) => exec fns ret (env'.drop (env'.length - env.length)) rest
    | _ => exec fns ret env rest
end

/-- static part of Go's rules: every operator whose operands are all literals is evaluated (and must convert to the
    program's float type `ty`) even in code that is never executed -/
partial def constTree : Sexp → Option CExpr
  | .list [.atom "num", .atom t] => some (.lit t)
  | .list [.atom "paren", e] => (constTree e).map .paren
  | .list [.atom "un", .atom "neg", e] => (constTree e).map .neg
  | .list [.atom "bin", .atom sym, l, r] => do pure (.bin sym (← constTree l) (← constTree r))
  | _ => none

partial def staticErrors (ty : String) : Sexp → List String
  | sx@(.list xs) =>
    match constTree sx with
    | some ce =>
      match constEval ce with
      | .error e => [s!"go-compile-error {errName e}"]
      | .ok (.bool _) => []
      | .ok v => (match convertFloat ty v with | .error e => [s!"go-compile-error {errName e}"] | .ok _ => [])
    | none => xs.flatMap (staticErrors ty)
  | _ => []

/-- number of operators in the largest all-literal operator tree (ANF must keep this ≤ 1) -/
partial def constOps : CExpr → Nat
  | .lit _ => 0 | .neg e => constOps e | .paren e => constOps e | .bin _ l r => 1 + constOps l + constOps r

partial def maxConstOps : Sexp → Nat
  | sx@(.list xs) =>
    match constTree sx with
    | some ce => constOps ce
    | none => xs.foldl (fun m x => max m (maxConstOps x)) 0
  | _ => 0

/-- value of the call `f(…)` in `main0`, under Go's constant rules -/
def runFile (ty : String) (file : Sexp) : String :=
  match file with
  | .list (.atom "gofile" :: items) =>
    let fns := items.filterMap decFn
    let errs := items.flatMap (staticErrors ty)
    let ops := items.foldl (fun m x => max m (maxConstOps x)) 0
    let res :=
      match errs with
      | e :: _ => e
      | [] =>
        match fns.find? (fun (fn : Fn) => fn.name == "main0") with
        | none => "no-main0"
        | some m =>
          let call : Option Sexp := m.body.findSome? fun (st : Sexp) =>
            match st with
            | Sexp.list [Sexp.atom "vardecl", _, _, c@(Sexp.list (Sexp.atom "call" :: Sexp.list [Sexp.atom "var", Sexp.atom "f"] :: _))] => some c
            | _ => none
          match call with
          | none => "no-call-of-f"
          | some c =>
            match evalE fns [] c with
            | .ok v => showV v
            | .error e => e
    s!"{res} constops={ops}"
  | _ => "not-a-gofile"

end GoEval

def fprintOutcome : String :=
  " ".intercalate (Gen.FloatPrint.literalText.map fun r => s!"{r.1}={r.2}")

/-- how Go reads one numeric token: kind, and the float32 / float64 it becomes at a typed position -/
def golitOutcome (text : String) : String :=
  let cs := text.toList
  if !Goml.GoConst.isFloatText cs && cs.length > 1 && cs.head? == some '0' then "octal-int" else
  match Goml.GoConst.litValL cs with
  | .error _ => "bad"
  | .ok v =>
    let bitsAt (ty : String) : String :=
      match Goml.GoConst.convertFloat ty v with
      | .ok b => GoEval.hexOf b
      | .error _ => "overflow"
    let kind := match v with | .int _ => "int" | .flt _ => "float" | .bool _ => "bool"
    s!"{kind} f32={bitsAt "float32"} f64={bitsAt "float64"}"

def runLine (l : String) : String :=
  let (id, rest) := splitTab l
  let unDash (s : String) : String := if s == "-" then "" else s
  match Sexp.parse rest with
  | some (.list [.atom "lit", .atom d, .atom s, .atom an]) => s!"{id}\t{litOutcome d (unDash s) (unDash an)}"
  | some (.list [.atom "neg", .atom d, .atom s]) =>
    -- `-<lit>`: the literal is checked on its own (so `-128i8` is refused), then negated by the Go operator `-`
    let inner := litOutcome d (unDash s) ""
    if inner.startsWith "accept " then
      let goty := ((inner.splitOn " goty=").getD 1 "").takeWhile (· != ' ')
      let golit := ((inner.splitOn " golit=").getD 1 "").takeWhile (· != ' ')
      let core := ((inner.splitOn " goty=").getD 0 "")
      match lookup "Neg" Gen.OpMap.unMap, unSym "Neg" with
      | some g, some sym => s!"{id}\t{core} goop={g} arg=lit:{goty}:{golit} goty={goty} declty={goty} txt={goty}:{sym}{golit}"
      | _, _ => s!"{id}\tno-op"
    else s!"{id}\t{inner}"
  | some (.list [.atom "pat", .atom d, .atom s, .atom sc, .atom sh]) => s!"{id}\t{patOutcome d (unDash s) sc sh}"
  | some (.list [.atom "goeval", .atom ty, file]) => s!"{id}\t{GoEval.runFile ty file}"
  | some (.list [.atom "fround", .atom ty, .atom text]) =>
    match Goml.GoConst.litBits ty text with
    | some b => s!"{id}\t{GoEval.hexOf b}"
    | none => s!"{id}\tnone"
  | some (.list [.atom "fprint"]) => s!"{id}\t{fprintOutcome}"
  | some (.list [.atom "golit", .atom text]) => s!"{id}\t{golitOutcome text}"
  | some (.list [.atom "parse", .atom rust, .atom s]) =>
    match IntTy.ofRust rust with
    | some t =>
      match parseInt t s.toList with
      | .ok v => s!"{id}\tok {v}"
      | .error e => s!"{id}\terr {errName e}"
    | none => s!"{id}\tno-type"
  | some (.list [.atom "eval", .atom op, .atom rust, x, y]) =>
    s!"{id}\t{evalOutcome op rust (x.nat?.getD 0) (y.nat?.getD 0)}"
  | some (.list [.atom "fmt", .atom rust, x]) =>
    match IntTy.ofRust rust with
    | some t => s!"{id}\t{String.ofList (intToDec (t.toZ (BitVec.ofNat t.bits (x.nat?.getD 0))))}"
    | none => s!"{id}\tno-type"
  | some (.list [.atom "tostr", .atom name]) => s!"{id}\t{tostrOutcome name}"
  | some (.list [.atom "binop", .atom op, .atom ty, .atom shape, _, _]) => s!"{id}\t{opOutcome false op ty shape}"
  | some (.list [.atom "unop", .atom op, .atom ty, .atom shape, _, _]) => s!"{id}\t{opOutcome true op ty shape}"
  | _ => s!"{id}\tparse-error"

def main : IO Unit := do
  let stdin ← IO.getStdin
  forEachLine stdin fun l => IO.println (runLine l)

end Goml.Driver.C10
