import GomlVerif.Model.Pratt
import GomlVerif.Model.PrattGrammar
import GomlVerif.Model.StrLit
import GomlVerif.Driver.Common
/-! driver for C11.
`id<TAB>print<TAB>tree`  → `id<TAB>text<TAB>model parse of printMin<TAB>wf=…`
`id<TAB>parse<TAB>text`  → `id<TAB>model parse of the space-separated tokens`
`id<TAB>str<TAB>hex of the characters between the quotes` → `id<TAB>hex of the decoded value | REJECT`
trees: `(v x) (i 12) (u neg e) (b add l r) (c f a…) (f e x) (p e 0)` -/
namespace Goml.Driver.C11
open Goml Goml.Pratt Goml.Gen.BindingPower

def unName : UnOp → String
  | .neg => "neg" | .not => "not"
def binName : BinOp → String
  | .or => "or" | .and => "and" | .eq => "eq" | .ne => "ne" | .lt => "lt" | .gt => "gt"
  | .le => "le" | .ge => "ge" | .add => "add" | .sub => "sub" | .mul => "mul" | .div => "div"
def unOfName (s : String) : Option UnOp := [UnOp.neg, .not].find? (unName · == s)
def binOfName (s : String) : Option BinOp :=
  [BinOp.or, .and, .eq, .ne, .lt, .gt, .le, .ge, .add, .sub, .mul, .div].find? (binName · == s)

partial def dec : Sexp → Option Ast
  | .list [.atom "v", .atom x] => some (.var x)
  | .list [.atom "i", .atom s] => some (.lit s.toList)
  | .list [.atom "u", .atom o, e] => do pure (.un (← unOfName o) (← dec e))
  | .list [.atom "b", .atom o, l, r] => do pure (.bin (← binOfName o) (← dec l) (← dec r))
  | .list (.atom "c" :: f :: args) => do pure (.call (← dec f) (← optMapM dec args))
  | .list [.atom "f", e, .atom x] => do pure (.field (← dec e) x)
  | .list [.atom "p", e, n] => do pure (.proj (← dec e) (← n.nat?))
  | _ => none

partial def enc : Ast → Sexp
  | .var x => .list [.atom "v", .atom x]
  | .lit s => .list [.atom "i", .atom (String.ofList s)]
  | .un o e => .list [.atom "u", .atom (unName o), enc e]
  | .bin o l r => .list [.atom "b", .atom (binName o), enc l, enc r]
  | .call f args => .list (.atom "c" :: enc f :: args.map enc)
  | .field e x => .list [.atom "f", enc e, .atom x]
  | .proj e n => .list [.atom "p", enc e, .atom (toString n)]

def tokOfText (w : String) : Tok :=
  if w == ")" then .rparen
  else if w == "," then .comma
  else match TK.all.find? (·.spelling == w) with
    | some k => .op k
    | none =>
      -- `#name` stands for a rigid primary expression (any literal, tuple, array, struct literal, if, match …):
      -- for the Pratt loop and for lowering it behaves like an integer literal
      if w.all Char.isDigit || w.startsWith "#" then .int w.toList else .ident w

def showParse (r : Option Ast) : String :=
  match r with
  | some a => toString (enc a)
  | none => "ERR"

def hexOf (cs : List Char) : String := " ".intercalate (cs.map fun c => toString c.toNat)
def unhex (s : String) : List Char :=
  (s.splitOn " ").filterMap fun w => w.toNat?.map Char.ofNat

def runLine (l : String) : String :=
  let (id, rest) := splitTab l
  let (cmd, arg) := splitTab rest
  if cmd == "print" then
    match Sexp.parse arg >>= dec with
    | some t =>
      let ts := printMin t 0
      s!"{id}\t{render ts}\t{showParse (parse ts)}\twf={wf t}\tgrammar={Goml.PrattGrammar.agrees ts} accepted={(parseCst ts).isSome}"
    | none => s!"{id}\tdecode-error"
  else if cmd == "parse" then
    let ts := (arg.splitOn " ").filter (· != "") |>.map tokOfText
    s!"{id}\t{showParse (parse ts)}\tgrammar={Goml.PrattGrammar.agrees ts} accepted={(parseCst ts).isSome}"
  else if cmd == "str" then
    match StrLit.lowerStr (unhex arg) with
    | some v => s!"{id}\t{hexOf v}"
    | none => s!"{id}\tREJECT"
  else if cmd == "mstr" then
    match StrLit.lowerMultiline (unhex arg) with
    | some v => s!"{id}\t{hexOf v}"
    | none => s!"{id}\tREJECT"
  else s!"{id}\tunknown-command"

def main : IO Unit := do
  let stdin ← IO.getStdin
  forEachLine stdin fun l => IO.println (runLine l)

end Goml.Driver.C11
