import GomlVerif.Model.Tree
import GomlVerif.Model.Grammar
import GomlVerif.Driver.Common
/-! C12 driver. One case per line:

  `id<TAB>L<TAB>hex(text)<TAB>k:len,k:len,…`                      (real tokens: kind, byte length)
  `id<TAB>T<TAB>hex(text)<TAB>k:len,…<TAB>O<k>[+fwd],C,A,E<hex>,…` (… and the real parser events)

Answer: `id<TAB>EQ|DIFF <why>` for the lexer; for `T` additionally
`<TAB>tree<TAB>diag ranges<TAB>hypothesis flags`. The error-token lengths given to
`lexAll` are the real ones (that length is a parameter of the model). -/
namespace Goml.Driver.C12
open Goml Goml.Lex Goml.Tree

def hexVal (c : Char) : Nat :=
  if '0' ≤ c ∧ c ≤ '9' then c.toNat - 48 else if 'a' ≤ c ∧ c ≤ 'f' then c.toNat - 87 else 0

def unhex (s : String) : ByteArray := Id.run do
  let mut out := ByteArray.empty
  let mut hi : Option Nat := none
  for c in s.toList do
    match hi with
    | none => hi := some (hexVal c)
    | some h => out := out.push (UInt8.ofNat (h * 16 + hexVal c)); hi := none
  return out

def hexDigit (n : Nat) : Char := if n < 10 then Char.ofNat (48 + n) else Char.ofNat (87 + n)

def hexOfChars (cs : List Char) : String :=
  String.ofList ((utf8s cs).flatMap fun b => [hexDigit (b / 16), hexDigit (b % 16)])

def parseToks (s : String) : List (Nat × Nat) :=
  if s.isEmpty then [] else
  (s.splitOn ",").filterMap fun t =>
    match t.splitOn ":" with
    | [k, n] => some (k.toNat!, n.toNat!)
    | _ => none

def parseEvents (s : String) : List Ev :=
  if s.isEmpty then [] else
  (s.splitOn ",").filterMap fun e =>
    match e.toList with
    | 'C' :: _ => some .close
    | 'A' :: _ => some .advance
    | 'E' :: rest => some (.error (String.fromUTF8? (unhex (String.ofList rest)) |>.getD "?"))
    | 'O' :: rest =>
        match (String.ofList rest).splitOn "+" with
        | [k] => some (.op k.toNat! none)
        | [k, f] => some (.op k.toNat! (some f.toNat!))
        | _ => none
    | _ => none

/-- cut `cs` into the real tokens (byte lengths); `none` if a token ends inside a scalar -/
def sliceToks : List Char → List (Nat × Nat) → Option (List Tok)
  | [], [] => some []
  | _ :: _, [] => none
  | cs, (k, n) :: rest => do
      let c ← charsOfBytes cs n
      let ts ← sliceToks (cs.drop c) rest
      pure (⟨k, cs.take c⟩ :: ts)

/-- (scalar offset, scalar length) of the real error tokens -/
def errTable (err : Nat) : Nat → List Tok → List (Nat × Nat)
  | _, [] => []
  | pos, t :: ts =>
      (if t.kind == err then [(pos, t.text.length)] else []) ++ errTable err (pos + t.text.length) ts

def showTok (t : Tok) : String := s!"{t.kind}:{hexOfChars t.text}"

def firstDiff : Nat → List Tok → List Tok → String
  | i, [], [] => s!"none at {i}"
  | i, a :: _, [] => s!"token {i}: model {showTok a}, real <end>"
  | i, [], b :: _ => s!"token {i}: model <end>, real {showTok b}"
  | i, a :: as, b :: bs => if a = b then firstDiff (i + 1) as bs else s!"token {i}: model {showTok a}, real {showTok b}"

def lexCheck (cs : List Char) (real : List Tok) : String :=
  let tbl := errTable genRules.errorKind 0 real
  let errLen : List Char → Nat → Nat := fun _ pos => (tbl.lookup pos).getD 1
  match lexAll genRules errLen cs with
  | .ok ts => if ts = real then "EQ" else "DIFF " ++ firstDiff 0 ts real
  | .stuck ts p => s!"DIFF model stuck at {p} after {ts.length} tokens"
  | .panic ts p => s!"DIFF model: invalid bump at {p} after {ts.length} tokens"

mutual
partial def render : Tree → String
  | .node k ch => "(" ++ toString k ++ renderList ch ++ ")"
  | .leaf k t => toString k ++ ":" ++ hexOfChars t
partial def renderList : List Tree → String
  | [] => ""
  | t :: ts => " " ++ render t ++ renderList ts
end

def showRange : Option (Nat × Nat) → String
  | none => "-"
  | some (a, b) => s!"{a}..{b}"

def showEv : Ev → String
  | .op k none => s!"O{k}"
  | .op k (some f) => s!"O{k}+{f}"
  | .close => "C"
  | .advance => "A"
  | .error m => "E<" ++ m ++ ">"

def evDiff : Nat → List Ev → List Ev → String
  | i, [], [] => s!"none at {i}"
  | i, a :: _, [] => s!"event {i}: model {showEv a}, real <end>"
  | i, [], b :: _ => s!"event {i}: model <end>, real {showEv b}"
  | i, a :: as, b :: bs => if a = b then evDiff (i + 1) as bs else s!"event {i}: model {showEv a}, real {showEv b}"

/-- round 11: the grammar model (`Model/Grammar.lean`) on the kinds of the real non-trivia tokens must
produce exactly the real `Parser.events` -/
def grammarCheck (evs : List Ev) (real : List Tok) : String × String :=
  let kinds := (real.filter fun t => !isTrivia t.kind).map (·.kind)
  let s := Goml.Grammar.parseItems kinds
  let mevs := Goml.Grammar.flatL s.out
  if s.oof then (s!"gram=OOF trace={s.trace}", "model ran out of its call budget")
  else if mevs = evs then (s!"gram=EQ trace={s.trace}", "")
  else (s!"gram=DIFF trace={s.trace}", evDiff 0 mevs evs)

def treeCheck (evs : List Ev) (real : List Tok) : String :=
  let flags :=
    match resolve evs with
    | some revs => s!"balanced={balancedFrom 0 revs} advances={advances revs} nontrivia={nonTrivia real}"
    | none => "balanced=false advances=0 nontrivia=0 resolve=none"
  match buildTree evs real with
  | none => s!"PANIC\t\t{flags}"
  | some b =>
      let ds := ";".intercalate (b.diags.map fun d => showRange d.range)
      let lossless := decide ((leaves b.tree) = real)
      let g := grammarCheck evs real
      s!"{render b.tree}\t{ds}\t{flags} dropped={b.dropped.length} lossless={lossless} {g.1}\t{g.2}"

def handle (line : String) : IO Unit := do
  match line.splitOn "\t" with
  | id :: mode :: hex :: toks :: rest =>
      let bytes := unhex hex
      match String.fromUTF8? bytes with
      | none => IO.println s!"{id}\tDIFF input is not UTF-8"
      | some str =>
          let cs := str.toList
          if utf8s cs != bytes.toList.map (·.toNat) then
            IO.println s!"{id}\tDIFF model utf8 encoder disagrees with String.toUTF8"
          else
          match sliceToks cs (parseToks toks) with
          | none => IO.println s!"{id}\tDIFF real tokens do not tile the text on char boundaries"
          | some real =>
              let lx := lexCheck cs real
              if mode == "T" then
                let evs := parseEvents (rest.headD "")
                IO.println s!"{id}\t{lx}\t{treeCheck evs real}"
              else IO.println s!"{id}\t{lx}"
  | _ => IO.println s!"?\tDIFF malformed line"

def main : IO Unit := do
  let stdin ← IO.getStdin
  forEachLine stdin handle

end Goml.Driver.C12
