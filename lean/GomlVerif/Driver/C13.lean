import GomlVerif.Model.Graph
import GomlVerif.Driver.Common
/-! driver for C13: `(disk (P state…)…)` → discovery order, dependency order, ids;
    `(graph (P (imports…))…)` → dependency order -/
namespace Goml.Driver.C13
open Goml Goml.Graph

def names (tag : String) (xs : List Pkg) : Sexp := .list (.atom tag :: xs.map .atom)

def loadWord : Load → String
  | .unreadable => "unreadable" | .noFiles => "no-files" | .parse => "parse"
  | .fileMismatch => "file-mismatch" | .unit _ _ => "unit"

def errSexp : Err → Sexp
  | .load _ .parse => .list [.atom "err", .atom "parse"]
  | .load p why => .list [.atom "err", .atom "load", .atom p, .atom (loadWord why)]
  | .rootNotMain f => .list [.atom "err", .atom "root-not-main", .atom f]
  | .declMismatch d f => .list [.atom "err", .atom "decl-mismatch", .atom d, .atom f]
  | .cycle path => .list (.atom "err" :: .atom "cycle" :: path.map .atom)
  | .missing p d => .list [.atom "err", .atom "missing", .atom p, .atom d]
  | .notFound p => .list [.atom "err", .atom "not-found", .atom p]
  | .fuel => .list [.atom "err", .atom "fuel"]

def decLoad : List Sexp → Option Load
  | [.atom "missing"] => some .unreadable
  | [.atom "empty"] => some .noFiles
  | [.atom "parse"] => some .parse
  | [.atom "file-mismatch"] => some .fileMismatch
  | [.atom "unit", .atom d, .list imps] => some (.unit d (imps.filterMap Sexp.str?))
  | _ => none

def decDisk (xs : List Sexp) : Option Disk :=
  optMapM (fun
    | .list (.atom p :: st) => (decLoad st).map fun l => (p, l)
    | _ => none) xs

def decGraph (xs : List Sexp) : Option (List (Pkg × List Pkg)) :=
  optMapM (fun
    | .list [.atom p, .list imps] => some (p, imps.filterMap Sexp.str?)
    | _ => none) xs

/-- the iteration discipline of the compiler under test (`Gen/PackageIds.importsOrdered`): with a
    `HashSet` the model has no single prediction; the driver then prints the sorted one and the
    check reports the tie as not applicable -/
def iterOf (disk : Disk) : Pkg → List Pkg := btreeIter disk.importsOf

def runLine (l : String) : String :=
  let (id, rest) := splitTab l
  match Sexp.parse rest with
  | some (.list (.atom "disk" :: xs)) =>
    match decDisk xs with
    | some disk =>
      match plan disk (iterOf disk) (fun ks => ks) with
      | .ok p =>
        let ids := Sexp.list (.atom "ids" :: p.ids.map fun (n, i) => .list [.atom n, Sexp.ofNat i])
        s!"{id}\t{Sexp.list [.atom "ok", names "disc" p.linkOrder, names "topo" p.checkOrder, ids]}"
      | .error e => s!"{id}\t{errSexp e}"
    | none => s!"{id}\tparse-error"
  | some (.list (.atom "graph" :: xs)) =>
    match decGraph xs with
    | some tbl =>
      let g : Graph := { names := tbl.map (·.1), imports := fun p => ((tbl.lookup p).getD []) }
      match topoSort g with
      | .ok o => s!"{id}\t{Sexp.list [.atom "ok", names "topo" o]}"
      | .error e => s!"{id}\t{errSexp e}"
    | none => s!"{id}\tparse-error"
  | _ => s!"{id}\tparse-error"

def main : IO Unit := do
  let stdin ← IO.getStdin
  forEachLine stdin fun l => IO.println (runLine l)

end Goml.Driver.C13
