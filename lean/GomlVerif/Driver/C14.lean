import GomlVerif.Model.Alpha
import GomlVerif.Model.Exports
import GomlVerif.Gen.Exports
import GomlVerif.Gen.Runtime
import GomlVerif.Driver.Common
import GomlVerif.Driver.DecSyntax
/-!
driver for C14: `(equiv <separate prog> <whole prog>)` →
  `equiv verified`       the verified validator `Alpha.validate` accepts (`validate_sound` applies; closures included)
  `equiv unverified why` only the unverified structural comparison (renamed function = function) accepts;
                         `why` = the first conjunct of `validFn` that fails
  `differ <function>`    neither does
The renaming tried is the one the two pipelines differ by: every temporary of a function shifted
by the offset between the first temporaries of the two bodies.
-/
namespace Goml.Driver.C14
open Goml Goml.Alpha

def prefixes : List String := Goml.Gen.gensymPrefixes.map String.ofList

def offsetOf (fS fW : Fn) : Nat :=
  match firstTemp prefixes fS.body, firstTemp prefixes fW.body with
  | some a, some b => b - a
  | _, _ => 0

/-! ### `(linkenv <g0> (<pkg> …) <separate genv> <whole genv>)`: the link environment of both ways is what
`Exports.applyAll` of the packages' exports (in the order given) computes, at the level of lookups -/

open Goml.Exports in
def decMap : Sexp → Option (String × IMap)
  | .list (.atom f :: entries) =>
    (entries.mapM fun (x : Sexp) =>
      match x with
      | .list [.atom k, .atom v] => some (k, v)
      | _ => none).map fun es => (f, es)
  | _ => none

open Goml.Exports in
def decEnv : Sexp → Option (List (String × IMap))
  | .list ms => ms.mapM decMap
  | _ => none

open Goml.Exports in
def linkenv (g0 : List (String × IMap)) (pkgs : List (String × List (String × IMap))) (sep whole : List (String × IMap)) : String :=
  let maps := Goml.Gen.Exports.envMaps
  let applied := Goml.Gen.Exports.appliedMaps
  -- hypotheses of `applyAll_perm`, on the real exports
  let notWf := pkgs.findSome? fun (p, e) => (e.find? fun (_, m) => !keysDistinct (m.map (·.1))).map fun (f, _) => s!"{p}:{f}"
  let clash := pkgs.findSome? fun (p1, e1) => pkgs.findSome? fun (p2, e2) =>
    if p1 == p2 then none else
    maps.findSome? fun f => ((ofList e1 f).find? fun (k, v) =>
      match IMap.lookup (ofList e2 f) k with
      | some v2 => v2 != v
      | none => false).map fun (k, _) => s!"{p1}/{p2}:{f}:{k}"
  match notWf, clash with
  | some w, _ => s!"differ\tduplicate-key-in-exports\t{w}"
  | _, some c => s!"differ\ttwo-packages-export-the-same-key-differently\t{c}"
  | none, none =>
    let M := applyAll applied (pkgs.map fun (_, e) => ofList e) (ofList g0)
    let bad := maps.find? fun f => !(IMap.agree (M f) (ofList sep f) && IMap.agree (M f) (ofList whole f))
    let unknown := (sep ++ whole ++ g0).find? fun (f, _) => !maps.contains f
    match bad, unknown with
    | some f, _ => s!"differ\tlookup-differs\t{f}\tsep={IMap.agree (M f) (ofList sep f)}\twhole={IMap.agree (M f) (ofList whole f)}"
    | _, some (f, _) => s!"differ\tmap-not-in-env.rs\t{f}"
    | none, none =>
      let nkeys := (maps.map fun f => (M f).length).foldl (· + ·) 0
      -- entries of the packages themselves (every package also re-exports the builtins of `g0`)
      let npk := (pkgs.map fun (_, e) => (e.map fun (f, m) => (m.filter fun (k, _) => (IMap.lookup (ofList g0 f) k).isNone).length).foldl (· + ·) 0).foldl (· + ·) 0
      let sameOrder := maps.all fun f => (M f).map (·.1) == (ofList sep f).map (·.1)
      s!"ok\tmaps={maps.length}\tkeys={nkeys}\tpkgkeys={npk}\tpkgs={pkgs.length}\tsame-iteration-order-as-separate={sameOrder}"

def runLine (l : String) : String :=
  let (id, rest) := splitTab l
  match Sexp.parse rest with
  | some (.list [.atom "linkenv", g0, .list pkgs, sep, whole]) =>
    let dpk := pkgs.mapM fun (x : Sexp) =>
      match x with
      | .list [.atom p, e] => (decEnv e).map fun e => (p, e)
      | _ => none
    match decEnv g0, dpk, decEnv sep, decEnv whole with
    | some g0, some pkgs, some sep, some whole => s!"{id}\tlinkenv\t{linkenv g0 pkgs sep whole}"
    | _, _, _, _ => s!"{id}\tdecode-error"
  | some (.list [.atom "equiv", s, w]) =>
    match decProg s, decProg w with
    | some S, some W =>
      let offs : List (String × Nat) := S.fns.map fun f =>
        (f.name, match W.findFn f.name with | some g => offsetOf f g | none => 0)
      let σs : String → String → String := fun fname =>
        shift prefixes ((offs.find? (·.1 == fname)).map (·.2) |>.getD 0)
      let names : List (String × List String) := S.fns.map fun f => (f.name, f.params.map (·.1) ++ namesOfE f.body)
      let Ns : String → List String := fun fname => (names.find? (·.1 == fname)).map (·.2) |>.getD []
      let nclos := (S.fns.filter fun f => !cfE f.body).length
      if validate σs Ns S W then s!"{id}\tequiv\tverified\tfns={S.fns.length}\tmoved={(offs.filter (·.2 != 0)).length}\twith-closures={nclos}"
      else
        -- unverified fallback: the renamed function is the function, and the name sets agree
        let bad := S.fns.find? fun f =>
          match W.findFn f.name with
          | some g => !eqFn (renFn (σs f.name) f) g
          | none => true
        let extra := W.fns.find? fun g => (S.findFn g.name).isNone
        -- why the verified validator said no (first failing conjunct of the first failing function)
        let why : String :=
          match S.fns.find? (fun f => match W.findFn f.name with
              | some g => !validFn (σs f.name) (Ns f.name) f g
              | none => true) with
          | some f =>
            match W.findFn f.name with
            | none => "no-twin"
            | some g =>
              let σ := σs f.name
              let N := Ns f.name
              if !(f.params.map (fun p => σ p.1) == g.params.map (·.1)) then "params"
              else if !aeE σ f.body g.body then "shape"
              else if !injOn σ N then "not-injective"
              else if !(inE N f.body && f.params.all (fun p => N.contains p.1)) then "names"
              else if !scC (fun x => σ x != x) [] f.body then "moved-name-not-let-bound-or-closure-param"
              else "?"
          | none => if !implsAgree W.impls S.impls then "impls" else "extra-or-duplicate-function"
        match bad, extra with
        | none, none => s!"{id}\tequiv\tunverified\t{why}\tfns={S.fns.length}\twith-closures={nclos}"
        | some f, _ => s!"{id}\tdiffer\t{f.name}"
        | none, some g => s!"{id}\tdiffer\textra:{g.name}"
    | _, _ => s!"{id}\tdecode-error"
  | _ => s!"{id}\tparse-error"

def main : IO Unit := do
  let stdin ← IO.getStdin
  forEachLine stdin fun l => IO.println (runLine l)

end Goml.Driver.C14
