import GomlVerif.Model.Alpha
import GomlVerif.Gen.Runtime
import GomlVerif.Driver.Common
import GomlVerif.Driver.DecSyntax
/-!
driver for C14: `(equiv <separate prog> <whole prog>)` →
  `equiv closure-free`   the verified validator `Alpha.validate` accepts (`validate_sound` applies)
  `equiv has-closures`   only the unverified structural comparison (renamed function = function) accepts
  `differ <function>`    neither does
The renaming tried is the one the two pipelines differ by: every temporary of a function shifted
by the offset between the first temporaries of the two bodies.
-/
namespace Goml.Driver.C14
open Goml Goml.Alpha

def prefixes : List String := Goml.Gen.gensymPrefixes.map String.ofList

def offsetOf (fS fW : Fn) : Nat :=
  match firstTemp prefixes fS.body, firstTemp prefixes fW.body with
  | some a, some b => b - a
  | _, _ => 0

def runLine (l : String) : String :=
  let (id, rest) := splitTab l
  match Sexp.parse rest with
  | some (.list [.atom "equiv", s, w]) =>
    match decProg s, decProg w with
    | some S, some W =>
      let offs : List (String × Nat) := S.fns.map fun f =>
        (f.name, match W.findFn f.name with | some g => offsetOf f g | none => 0)
      let σs : String → String → String := fun fname =>
        shift prefixes ((offs.find? (·.1 == fname)).map (·.2) |>.getD 0)
      let names : List (String × List String) := S.fns.map fun f => (f.name, f.params.map (·.1) ++ namesOfE f.body)
      let Ns : String → List String := fun fname => (names.find? (·.1 == fname)).map (·.2) |>.getD []
      if validate σs Ns S W then s!"{id}\tequiv\tclosure-free\tfns={S.fns.length}\tmoved={(offs.filter (·.2 != 0)).length}"
      else
        -- unverified fallback: the renamed function is the function, and the name sets agree
        let bad := S.fns.find? fun f =>
          match W.findFn f.name with
          | some g => !eqFn (renFn (σs f.name) f) g
          | none => true
        let extra := W.fns.find? fun g => (S.findFn g.name).isNone
        match bad, extra with
        | none, none =>
          if S.fns.all (fun f => cfE f.body) then s!"{id}\tdiffer\tvalidator-rejects-closure-free-program"
          else s!"{id}\tequiv\thas-closures\tfns={S.fns.length}"
        | some f, _ => s!"{id}\tdiffer\t{f.name}"
        | none, some g => s!"{id}\tdiffer\textra:{g.name}"
    | _, _ => s!"{id}\tdecode-error"
  | _ => s!"{id}\tparse-error"

def main : IO Unit := do
  let stdin ← IO.getStdin
  forEachLine stdin fun l => IO.println (runLine l)

end Goml.Driver.C14
