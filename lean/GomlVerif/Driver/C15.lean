import GomlVerif.Model.Link
import GomlVerif.Driver.Common
/-! driver for C15: one history per line; prints the predicted outcome of every operation -/
namespace Goml.Driver.C15
open Goml Goml.Link

/-- an injective hash for execution: the view rendered as text, read as a base-256 numeral -/
def encode (v : View) : String :=
  s!"{v.version}|{v.abi}|{v.pkg.length}:{v.pkg}|{v.content}|" ++
    ";".intercalate (v.deps.map fun (d, h) => s!"{d.length}:{d}={h}")

def H (v : View) : Hash := (encode v).toUTF8.foldl (fun a b => a * 256 + b.toNat + 1) 0

def errClass : Err → String
  | .missingInterface _ => "missing-interface"
  | .badInterface _ => "bad-interface"
  | .missingCore _ => "missing-core"
  | .invalidCore _ => "invalid-core"
  | .duplicate _ => "duplicate"
  | .noMain => "no-main"
  | .noInputs => "no-inputs"
  | .missingDep _ _ => "missing-dep"
  | .stale _ _ => "stale"

def field? : String → Option Field
  | "format_version" => some .version | "compiler_abi" => some .abi | "package" => some .pkg
  | "exports" => some .content | "deps" => some .deps | "interface_hash" => some .hash
  | "core.format_version" => some .coreVersion | "core.compiler_abi" => some .coreAbi
  | "core.package" => some .corePkg | "core.deps" => some .coreDeps | "core.core_ir" => some .coreBody
  | _ => none

/-- `<field>.older`: the same field set to the next SMALLER number (an artefact of an earlier format
    version / ABI) — the harness skips the operation when the value is already 0 -/
def olderField? (f : String) : Option Field :=
  if f.endsWith ".older" then
    match field? (f.dropRight 6) with
    | some .version => some .version | some .abi => some .abi
    | some .coreVersion => some .coreVersion | some .coreAbi => some .coreAbi
    | _ => none
  else none

def olderCorruption? (f : Field) (i : Iface) (c : Option Core) : Option Corruption :=
  let cur : Nat := match f with
    | .version => i.view.version | .abi => i.view.abi
    | .coreVersion => (c.map (·.version)).getD 0 | .coreAbi => (c.map (·.abi)).getD 0
    | _ => 0
  if cur == 0 then none else some { field := f, nat := cur - 1 }

def mkCorruption (f : Field) (i : Iface) (c : Option Core) : Corruption :=
  match f with
  | .version => { field := f, nat := i.view.version + 1 }
  | .abi => { field := f, nat := i.view.abi + 6 }
  | .pkg => { field := f, str := i.view.pkg ++ "Zz" }
  | .content => { field := f, nat := i.view.content + 1000 }
  | .deps => { field := f, deps := ("Zz", 1) :: i.view.deps }
  | .hash => { field := f, nat := i.hash + 1 }
  | .coreVersion => { field := f, nat := (c.map (·.version)).getD 0 + 1 }
  | .coreAbi => { field := f, nat := (c.map (·.abi)).getD 0 + 6 }
  | .corePkg => { field := f, str := (c.map (·.pkg)).getD "" ++ "Zz" }
  | .coreDeps => { field := f, deps := ("Zz", 1) :: (c.map (·.deps)).getD [] }
  | .coreBody => { field := f, nat := (c.map (·.body)).getD 0 + 1000 }

structure Run where
  st : St
  hashes : List Hash := []
  out : List String := []

def hashId (r : Run) (h : Hash) : Run × String :=
  match r.hashes.findIdx? (· == h) with
  | some i => (r, s!"h{i}")
  | none => ({ r with hashes := r.hashes ++ [h] }, s!"h{r.hashes.length}")

def emit (r : Run) (s : String) : Run := { r with out := r.out ++ [s] }

def doOp (r : Run) : Sexp → Run
  | .list [.atom "edit-body", .atom p, v] =>
    emit { r with st := step H r.st (.editBody p (v.nat?.getD 0)) } "ok"
  | .list [.atom "edit-iface", .atom p, v] =>
    emit { r with st := step H r.st (.editIface p (v.nat?.getD 0)) } "ok"
  | .list [.atom "check", .atom p] =>
    match check H r.st p with
    | .ok s' =>
      let (r', id) := hashId { r with st := s' } ((s'.ifaceFile p).map (·.hash) |>.getD 0)
      emit r' s!"ok {id}"
    | .error e => emit r s!"err {errClass e}"
  | .list [.atom "build", .atom p] =>
    match build H r.st p with
    | .ok s' =>
      let (r', id) := hashId { r with st := s' } ((s'.ifaceFile p).map (·.hash) |>.getD 0)
      emit r' s!"ok {id}"
    | .error e => emit r s!"err {errClass e}"
  | .list (.atom "link" :: ps) =>
    match link H r.st (ps.filterMap Sexp.str?) with
    | .ok _ => emit r "ok"
    | .error e => emit r s!"err {errClass e}"
  | .list [.atom "corrupt-iface", .atom p, .atom f] =>
    match olderField? f, field? f, r.st.ifaceFile p with
    | some fld, _, some i =>
      if i.tainted then emit r "ok"
      else match olderCorruption? fld i none with
        | some k => emit { r with st := step H r.st (.corruptIfaceFile p k) } "ok"
        | none => emit r "skip"
    | none, some fld, some i =>
      emit { r with st := step H r.st (.corruptIfaceFile p (mkCorruption fld i none)) } "ok"
    | _, _, _ => emit r "skip"
  | .list [.atom "corrupt-core", .atom p, .atom "core.deps.current"] =>
    -- the core's own dependency table rewritten to the hashes the dependencies export now
    match r.st.coreFile p with
    | some c =>
      let newDeps := c.deps.map fun (d, h) => (d, ((r.st.ifaceFile d).map (·.hash)).getD h)
      if c.tainted then emit r "ok"
      else if newDeps == c.deps then emit r "skip"
      else emit { r with st := step H r.st (.corruptCoreFile p { field := .coreDeps, deps := newDeps }) } "ok"
    | none => emit r "skip"
  | .list [.atom "corrupt-core", .atom p, .atom "core.deps.drop"] =>
    match r.st.coreFile p with
    | some c =>
      if c.tainted then emit r "ok"
      else if c.deps.isEmpty then emit r "skip"
      else emit { r with st := step H r.st (.corruptCoreFile p { field := .coreDeps, deps := [] }) } "ok"
    | none => emit r "skip"
  | .list [.atom "corrupt-core", .atom p, .atom f] =>
    match olderField? f, field? f, r.st.coreFile p with
    | some fld, _, some c =>
      if c.tainted then emit r "ok"
      else match olderCorruption? fld c.iface (some c) with
        | some k => emit { r with st := step H r.st (.corruptCoreFile p k) } "ok"
        | none => emit r "skip"
    | none, some fld, some c =>
      emit { r with st := step H r.st (.corruptCoreFile p (mkCorruption fld c.iface (some c))) } "ok"
    | _, _, _ => emit r "skip"
  | .list [.atom "foreign-iface", .atom p, ver, abi] =>
    emit { r with st := step H r.st (.foreignIface p (ver.nat?.getD 0) (abi.nat?.getD 0)) } "ok"
  | _ => emit r "bad-op"

/-- `PackageUnit.imports` is a `BTreeSet<String>` (anchor: `Gen.importsOrdered`, C13): whatever the
    order of the `import` lines, the dependencies are loaded in ascending name order -/
def insName (x : Pkg) : List Pkg → List Pkg
  | [] => [x]
  | y :: ys => if x < y then x :: y :: ys else if x == y then y :: ys else y :: insName x ys

def sortNames (l : List Pkg) : List Pkg := l.foldr insName []

def runLine (l : String) : String :=
  let (id, rest) := splitTab l
  match Sexp.parse rest with
  | some (.list [.atom "history", .list (.atom "imports" :: imps), .list (.atom "ops" :: ops)]) =>
    let table : List (Pkg × List Pkg) := imps.filterMap fun
      | .list (.atom p :: ds) => some (p, sortNames (ds.filterMap Sexp.str?))
      | _ => none
    let imports : Pkg → List Pkg := fun p => ((table.find? (·.1 == p)).map (·.2)).getD []
    let r := ops.foldl doOp { st := init imports }
    s!"{id}\t" ++ " | ".intercalate r.out
  | _ => s!"{id}\tparse-error"

def main : IO Unit := do
  let stdin ← IO.getStdin
  forEachLine stdin fun l => IO.println (runLine l)

end Goml.Driver.C15
