import GomlVerif.Model.Visibility
import GomlVerif.Driver.C13
/-! driver for C16: one generated world per line → `(accept)`, `(reject cls…)` or `(reject (graph err))` -/
namespace Goml.Driver.C16
open Goml Goml.Graph Goml.Vis

def decForm : String → Option Form
  | "fn" => some .fn | "ty" => some .ty | "lit" => some .lit | "ctor" => some .ctor
  | "bound" => some .bound | "dyn" => some .dynT | "unq" => some .unq | "nofn" => some .nofn
  | "smeth" => some .smeth | "sself" => some .sself | "tmeth" => some .tmeth | "flow" => some .flow
  | _ => none

def decShape : String → Option Shape
  | "nom" => some .nom | "prim" => some .prim | "vec" => some .vec | "ref" => some .ref | "tup" => some .tup
  | "arr" => some .arr | "fun" => some .fn | "dyn" => some .dynT | "gen" => some .gen
  | _ => none

def decItem : Sexp → Option (Sum Use ImplD)
  | .list [.atom "use", f, .atom form, .atom target, .atom q, .atom via] => do
    pure (.inl { file := ← f.nat?, form := ← decForm form, target := target, qual := q == "q",
                 via := if via == "-" then "" else via })
  | .list [.atom "impl", f, .atom kind, .atom tr, .atom shape, .atom head, .atom arg, .atom which] => do
    pure (.inr { file := ← f.nat?, inherent := kind == "inherent", tr := tr, shape := ← decShape shape,
                 head := if head == "-" then "" else head, arg := if arg == "-" then "" else arg, which := which })
  | _ => none

def decPkg : Sexp → Option ((Pkg × Load) × PkgSrc)
  | .list [.atom p, .list st, .list (.atom "imports" :: imps), .list (.atom "items" :: items)] => do
    let imports := imps.filterMap Sexp.str?
    let its ← optMapM decItem items
    let load : Load ← match st with
      | [.atom "ok"] => some (.unit p imports)
      | [.atom "declares", .atom d] => some (.unit d imports)
      | [.atom "missing"] => some .unreadable
      | [.atom "file-mismatch"] => some .fileMismatch
      | _ => none
    let uses := its.filterMap fun | .inl u => some u | _ => none
    let impls := its.filterMap fun | .inr d => some d | _ => none
    pure ((p, load), { name := p, imports := imports, uses := uses, impls := impls })
  | _ => none

def clsWord : Cls → String
  | .notImported => "not-imported" | .unresolved => "unresolved" | .orphan => "orphan"
  | .dupLocal => "dup-local" | .dupCross => "dup-cross" | .inherentNonLocal => "inherent-nonlocal"

def allCls : List Cls := [.dupCross, .dupLocal, .inherentNonLocal, .notImported, .orphan, .unresolved]

def runLine (l : String) : String :=
  let (id, rest) := splitTab l
  match Sexp.parse rest with
  | some (.list (.atom "world" :: ps)) =>
    match optMapM decPkg ps with
    | some xs =>
      let w : World := { disk := xs.map (·.1), srcs := xs.map (·.2) }
      match check w (btreeIter w.disk.importsOf) (fun ks => ks) with
      | .error e => s!"{id}\t{Sexp.list [.atom "reject", .list [.atom "graph", C13.errSexp e]]}"
      | .ok [] => s!"{id}\t(accept)"
      | .ok cls =>
        let present := allCls.filter fun c => cls.contains c
        s!"{id}\t{Sexp.list (.atom "reject" :: present.map fun c => .atom (clsWord c))}"
    | none => s!"{id}\tparse-error"
  | _ => s!"{id}\tparse-error"

def main : IO Unit := do
  let stdin ← IO.getStdin
  forEachLine stdin fun l => IO.println (runLine l)

end Goml.Driver.C16
