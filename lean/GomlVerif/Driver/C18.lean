import GomlVerif.Model.Derive
import GomlVerif.Model.Sem
import GomlVerif.Driver.Common
import GomlVerif.Driver.SemRun
/-!
driver for C18.

* `(case (derive json|nojson string|nostring) (defs …) (vals (T v) …))`
  → `id  model  <stdout the model predicts>  <accepted: yes|no>  <scoped: yes|no>`
* `(oracle (defs …) (vals (T v) …) (lines (l cp…) …))` — the JSON lines a real program printed
  → `id  oracle  ok|fail  <first failing line>  <why>  <canonical parse of every line>`
-/
namespace Goml.Driver.C18
open Goml Goml.Derive

def decFTy : Sexp → Option FTy
  | .atom "unit" => some .unit
  | .atom "bool" => some .bool
  | .atom "string" => some .string
  | .atom "other" => some .other
  | .list [.atom "int", b, .atom s] => do pure (.int (← b.nat?) (s == "s"))
  | .list [.atom "float", b] => do pure (.float (← b.nat?))
  | .list [.atom "named", .atom n] => some (.named n)
  | _ => none

def decDef : Sexp → Option Def
  | .list (.atom "struct" :: .atom n :: fs) => do
    let fields ← optMapM (fun
      | .list [.atom f, t] => do pure (f, ← decFTy t)
      | _ => none) fs
    pure (.struct n 0 fields)
  | .list (.atom "enum" :: .atom n :: vs) => do
    let variants ← optMapM (fun
      | .list (.atom v :: ts) => do pure (v, ← optMapM decFTy ts)
      | _ => none) vs
    pure (.enum n 0 variants)
  | _ => none

def charOf (s : Sexp) : Option Char := do
  let n ← s.nat?
  if h : n.isValidChar then some (Char.ofNatAux n h) else none

partial def decVal (bitsOf : Option Nat) : Sexp → Option Val
  | .atom "unit" => some .unit
  | .list [.atom "bool", .atom b] => some (.bool (b == "true"))
  | .list [.atom "int", v] => do pure (.int (← v.int?))
  | .list [.atom "float", bits, r] => do
    let b ← bits.nat?
    let x := Float.ofBits (← r.nat?).toUInt64
    let _ := bitsOf
    pure (.float (Goml.Sem.showFloat b (Goml.Sem.roundF b x)).toList)
  | .list (.atom "str" :: cps) => do pure (.str (← optMapM charOf cps))
  | .list (.atom "struct" :: .atom n :: vs) => do pure (.struct n (← optMapM (decVal none) vs))
  | .list (.atom "enum" :: .atom n :: idx :: vs) => do pure (.enum n (← idx.nat?) (← optMapM (decVal none) vs))
  | _ => none

def decTopVal : Sexp → Option (String × Val)
  | .list [.atom t, v] => do pure (t, ← decVal none v)
  | _ => none

def str (cs : List Char) : String := String.ofList cs

partial def canon : Json → String
  | .null => "Z"
  | .bool true => "T"
  | .bool false => "F"
  | .num t => "N<" ++ str t ++ ">"
  | .str s => "S[" ++ ",".intercalate (s.map fun c => toString c.toNat) ++ "]"
  | .arr xs => "A[" ++ ",".intercalate (xs.map canon) ++ "]"
  | .obj ms => "O{" ++ ",".intercalate (ms.map fun | .mk k v => canon (.str k) ++ ":" ++ canon v) ++ "}"

partial def jsonBeq : Json → Json → Bool
  | a, b => canon a == canon b

partial def gexprSexp : GExpr → Sexp
  | .lit s => .list [.atom "lit", .atom s]
  | .var x => .list [.atom "var", .atom x]
  | .callFn f a => .list [.atom "callfn", .atom f, gexprSexp a]
  | .callMethod r m => .list [.atom "callm", gexprSexp r, .atom m]
  | .concat l r => .list [.atom "concat", gexprSexp l, gexprSexp r]

def methodSexp (m : GMethod) : Sexp :=
  .list ([.atom "method", .atom m.name, .list [.atom m.param], .atom "string"] ++
    m.arms.map fun a => .list [.atom "arm", .list (a.patPath.map .atom), .list (a.patFields.map .atom),
      .list (a.binders.map .atom), gexprSexp a.body])

/-- what `derive::expand` appends: per definition `expandImpls` of its attributes (when the case gives
    none for a definition: the single derive attribute of the program) -/
def derivedSexp (wantJson wantString : Bool) (attrs : List (String × List String)) (Δ : Defs) : Sexp :=
  let dflt : List (List Char) :=
    [("#[derive(" ++ ", ".intercalate ((if wantJson then ["ToJson"] else []) ++ (if wantString then ["ToString"] else [])) ++ ")]").toList]
  .list (.atom "derived" :: Δ.flatMap fun d =>
    let as := match attrs.find? (·.1 == d.name) with
      | some (_, xs) => xs.map String.toList
      | none => dflt
    (expandImplsSrc bindFresh as d).map fun m => Sexp.list [.atom "impl", .atom d.name, methodSexp m])

def decAttrs : Sexp → Option (String × List String)
  | .list (.atom n :: xs) => some (n, xs.filterMap Sexp.str?)
  | _ => none

def modelLine (id : String) (flags defs vals : List Sexp) (attrs : List Sexp := []) : String :=
  match optMapM decDef defs, optMapM decTopVal vals with
  | some Δ, some vs =>
    let wantJson := flags.contains (.atom "json")
    let wantString := flags.contains (.atom "string")
    let typed := vs.all fun (t, v) => hasTy Δ (.named t) v
    let js := if wantJson then vs.map fun (_, v) => str (toJson Δ v) ++ "\n" else []
    let ss := if wantString then vs.map fun (_, v) => str (Derive.toString Δ v) ++ "\n" else []
    let acc := Δ.all fun d => accepts Δ d && namesOk d
    let sc := Δ.all fun d => (genJson bindFresh d).scoped && (genString bindFresh d).scoped
    let scOld := Δ.all fun d => (genJson bindFieldName d).scoped && (genString bindFieldName d).scoped
    if typed then
      s!"{id}\tmodel\t{SemRun.escOut (String.join (js ++ ss))}\t{if acc then "yes" else "no"}\t{if sc then "yes" else "no"}\t{if scOld then "yes" else "no"}\t{derivedSexp wantJson wantString (attrs.filterMap decAttrs) Δ}"
    else s!"{id}\tmodel-error\tvalue does not have its type"
  | _, _ => s!"{id}\tparse-error"

def oracleLine (id : String) (defs vals lines : List Sexp) : String :=
  match optMapM decDef defs, optMapM decTopVal vals,
      optMapM (fun | .list (.atom "l" :: cps) => optMapM charOf cps | _ => none) lines with
  | some Δ, some vs, some ls =>
    let rec go (k : Nat) : List (String × Val) → List (List Char) → Option (Nat × String)
      | [], [] => none
      | (_, v) :: vs, l :: ls =>
        match jsonRead l with
        | none => some (k, "not-json")
        | some j => if jsonBeq j (encode Δ v) then go (k + 1) vs ls else some (k, "wrong-structure")
      | _, _ => some (k, "line-count")
    let parsed := ";".intercalate (ls.map fun l => match jsonRead l with | some j => canon j | none => "!")
    match go 0 vs ls with
    | none => s!"{id}\toracle\tok\t\t\t{parsed}"
    | some (k, why) => s!"{id}\toracle\tfail\t{k}\t{why}\t{parsed}"
  | _, _, _ => s!"{id}\tparse-error"

def runLine (l : String) : String :=
  let (id, rest) := splitTab l
  match Sexp.parse rest with
  | some (.list [.atom "case", .list (.atom "derive" :: flags), .list (.atom "defs" :: defs), .list (.atom "vals" :: vals)]) =>
    modelLine id flags defs vals
  | some (.list [.atom "case", .list (.atom "derive" :: flags), .list (.atom "defs" :: defs), .list (.atom "vals" :: vals), .list (.atom "attrs" :: attrs)]) =>
    modelLine id flags defs vals attrs
  | some (.list (.atom "attrprobe" :: as)) =>
    let xs := (as.filterMap Sexp.str?).map String.toList
    s!"{id}\tattrs\t{if derivesTraitSrc xs "ToJson".toList then "yes" else "no"}\t{if derivesTraitSrc xs "ToString".toList then "yes" else "no"}"
  | some (.list [.atom "hygiene", .atom method, .atom top, .list (.atom "case" :: _ :: .list (.atom "defs" :: defs) :: _)]) =>
    match optMapM decDef defs with
    | some Δ =>
      let ok := Δ.all fun d => ((if method == "to_json" then genJson bindFresh d else genString bindFresh d).hygienic [top])
      s!"{id}\thygiene\t{if ok then "hygienic" else "captured"}"
    | none => s!"{id}\tparse-error"
  | some (.list [.atom "oracle", .list (.atom "defs" :: defs), .list (.atom "vals" :: vals), .list (.atom "lines" :: lines)]) =>
    oracleLine id defs vals lines
  | some (.list [.atom "fmt", size, bits]) =>
    match size.nat?, bits.nat? with
    | some b, some r => s!"{id}\tfmt\t{Goml.Sem.showFloat b (Goml.Sem.roundF b (Float.ofBits r.toUInt64))}"
    | _, _ => s!"{id}\tparse-error"
  | _ => s!"{id}\tparse-error"

def main : IO Unit := do
  let stdin ← IO.getStdin
  forEachLine stdin fun l => IO.println (runLine l)

end Goml.Driver.C18
