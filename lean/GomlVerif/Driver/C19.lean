import GomlVerif.Model.Mangle
import GomlVerif.Driver.Common
/-! driver for C19 (and the naming part of C17): one encoder case per line -/
namespace Goml.Driver.C19
open Goml Goml.Mangle Goml.Gen

def primOfTag (s : String) : Option Prim := Prim.all.find? (fun p => primTag p == s)

partial def decodeTy : Sexp → Option Ty
  | .atom s => (primOfTag s).map Ty.prim
  | .list [.atom "var", n] => n.nat?.map Ty.tvar
  | .list (.atom "tuple" :: ts) => (optMapM decodeTy ts).map Ty.ttuple
  | .list [.atom "enum", .atom n] => some (.tenum n.toList)
  | .list [.atom "struct", .atom n] => some (.tstruct n.toList)
  | .list [.atom "dyn", .atom n] => some (.tdyn n.toList)
  | .list [.atom "app", t, .list args] => do
    let t' ← decodeTy t
    let as ← optMapM decodeTy args
    pure (.tapp t' as)
  | .list [.atom "array", n, e] => do
    let len ← n.nat?
    let e' ← decodeTy e
    pure (.tarray len e')
  | .list [.atom "vec", e] => (decodeTy e).map Ty.tvec
  | .list [.atom "ref", e] => (decodeTy e).map Ty.tref
  | .list [.atom "param", .atom n] => some (.tparam n.toList)
  | .list [.atom "func", .list ps, r] => do
    let ps' ← optMapM decodeTy ps
    let r' ← decodeTy r
    pure (.tfunc ps' r')
  | _ => none

def str (n : Name) : String := String.ofList n
def guarded (ok : Bool) (n : Name) : String := if ok then str n else "PANIC"

def decodeSubst : List Sexp → Option (List (Name × Ty))
  | [] => some []
  | .list [.atom k, t] :: rest => do
    let t' ← decodeTy t
    let r ← decodeSubst rest
    pure ((k.toList, t') :: r)
  | _ => none

def decodeEnums (xs : List Sexp) : List (Name × List Name) :=
  xs.filterMap fun
    | .list (.atom e :: vs) => some (e.toList, (vs.filterMap Sexp.str?).map String.toList)
    | _ => none

def runCase : Sexp → String
  | .list [.atom "ident", .atom s] => str (goIdent s.toList)
  | .list [.atom "ty", t, .atom tr, .atom m] =>
    match decodeTy t with
    | none => "bad-type"
    | some ty =>
      let eo := encodeOk ty
      "\t".intercalate [
        guarded eo (encodeTy ty),
        guarded (goTypeNameOk ty) (goTypeNameFor ty),
        str (tyCompact ty),
        str (traitImplFnName tr.toList ty m.toList),
        guarded (inherentOk ty) (inherentMethodFnName ty m.toList),
        guarded eo (refStructName ty),
        guarded eo (helperFnName "ref_get".toList ty)]
  | .list [.atom "implgo", .atom tr, t, .atom m] =>
    match decodeTy t with
    | some ty => str (compileFnName (traitImplFnName tr.toList ty m.toList))
    | none => "bad-type"
  | .list [.atom "inhgo", t, .atom m] =>
    match decodeTy t with
    | some ty => guarded (inherentOk ty) (compileFnName (inherentMethodFnName ty m.toList))
    | none => "bad-type"
  | .list [.atom "specgo", .atom orig, .list subst] =>
    match decodeSubst subst with
    | some s => str (compileFnName (specNameFor orig.toList s))
    | none => "bad-subst"
  | .list [.atom "monotygo", .atom name, .list args] =>
    match optMapM decodeTy args with
    | some as => str (goIdent (monoTypeName name.toList as))
    | none => "bad-args"
  | .list [.atom "tyname", t] =>
    match decodeTy t with
    | some ty => guarded (goTypeNameOk ty) (goTypeNameFor ty)
    | none => "bad-type"
  | .list [.atom "refstruct", t] =>
    match decodeTy t with
    | some ty => guarded (encodeOk ty) (refStructName ty)
    | none => "bad-type"
  | .list [.atom "helper", .atom pfx, t] =>
    match decodeTy t with
    | some ty => guarded (encodeOk ty) (helperFnName pfx.toList ty)
    | none => "bad-type"
  | .list [.atom "dyncallee", .list enums, .list structs, .atom tr, t, .atom m] =>
    match decodeTy t with
    | none => "bad-type"
    | some ty =>
      let en := (enums.filterMap Sexp.str?).map String.toList
      let st := (structs.filterMap Sexp.str?).map String.toList
      let cty := collapseTy (fun n => en.contains n) (fun n => st.contains n) ty
      "\t".intercalate [str (dynWrapperCallee (fun n => en.contains n) (fun n => st.contains n) tr.toList ty m.toList),
        guarded (encodeOk cty) (dynVtableCtorName tr.toList cty), guarded (encodeOk cty) (dynWrapName tr.toList cty m.toList)]
  | .list [.atom "calltarget", .atom tr, t, .atom m] =>
    match decodeTy t with
    | none => "bad-type"
    | some ty =>
      match coreCallTarget tr.toList ty m.toList with
      | .direct f => "direct\t" ++ str f
      | .traitCall tr' m' => "traitcall\t" ++ str tr' ++ "\t" ++ str m'
  | .list [.atom "monocallee", .list subst, .atom tr, t, .atom m] =>
    match decodeTy t, decodeSubst subst with
    | some ty, some σ => str (monoCallee σ tr.toList ty m.toList)
    | _, _ => "bad-case"
  | .list [.atom "inh", t, .atom m] =>
    match decodeTy t with
    | some ty => guarded (inherentOk ty) (inherentMethodFnName ty m.toList)
    | none => "bad-type"
  | .list [.atom "marker", .atom e] => str (enumMarkerMethod e.toList)
  | .list [.atom "spec", .atom orig, .list subst] =>
    match decodeSubst subst with
    | some s => str (specNameFor orig.toList s)
    | none => "bad-subst"
  | .list [.atom "monoty", .atom name, .list args] =>
    match optMapM decodeTy args with
    | some as => str (monoTypeName name.toList as)
    | none => "bad-args"
  | .list [.atom "variant", .list enums, .list structs, .atom e, .atom v] =>
    str (variantStructName (decodeEnums enums) ((structs.filterMap Sexp.str?).map String.toList) e.toList v.toList)
  | .list [.atom "closure", .atom hint, id] =>
    let h := sanitizeEnvName hint.toList
    let env := closureEnvName h (id.nat?.getD 0)
    str env ++ "\t" ++ str (goIdent (closureApplyName env))
  | .list [.atom "closure-field", .atom name, idx] => str (closureFieldName name.toList (idx.nat?.getD 0))
  | .list [.atom "local", .atom hint, idx] => str (goLocal hint.toList (idx.nat?.getD 0))
  | .list [.atom "fn", .atom name] => str (compileFnName name.toList)
  | .list [.atom "dyn", .atom tr, t, .atom m] =>
    match decodeTy t with
    | none => "bad-type"
    | some ty =>
      "\t".intercalate [str (dynStructName tr.toList), str (dynVtableStructName tr.toList),
        guarded (encodeOk ty) (dynVtableCtorName tr.toList ty), guarded (encodeOk ty) (dynWrapName tr.toList ty m.toList),
        str (goIdent (traitImplFnName tr.toList ty m.toList))]
  | _ => "bad-case"

def runLine (l : String) : String :=
  let (id, rest) := splitTab l
  match Sexp.parse rest with
  | some s => s!"{id}\t{runCase s}"
  | none => s!"{id}\tparse-error"

def main : IO Unit := do
  let stdin ← IO.getStdin
  forEachLine stdin fun l => IO.println (runLine l)

end Goml.Driver.C19
