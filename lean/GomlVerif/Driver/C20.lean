import GomlVerif.Model.Query
import GomlVerif.Gen.QueryGlue
import GomlVerif.Driver.Common
/-! driver for C20: one text per line (`id<TAB>hex bytes<TAB>Kind:len …<TAB>l,c l,c …`);
prints for every position what the model computes -/
namespace Goml.Driver.C20
open Goml Goml.Query

def hexVal (c : Char) : Nat :=
  if '0' ≤ c && c ≤ '9' then c.toNat - 48
  else if 'a' ≤ c && c ≤ 'f' then c.toNat - 87
  else 0

def unhex : List Char → List Nat
  | a :: b :: rest => (hexVal a * 16 + hexVal b) :: unhex rest
  | _ => []

def parseTok (s : String) : Tok :=
  match s.splitOn ":" with
  | [k, n] => ⟨k, n.toNat?.getD 0⟩
  | _ => ⟨s, 0⟩

def showOpt : Option Nat → String
  | some n => toString n
  | none => "none"

def showTokenAt : TokenAt → String
  | .none => "N"
  | .single i => s!"S{i}"
  | .between i j => s!"B{i}/{j}"

def onePos (t : Text) (toks : List Tok) (ph : Text) (p : String) : String :=
  match p.splitOn "," with
  | [l, c] =>
    let line := l.toNat?.getD 0
    let col := c.toNat?.getD 0
    let raw := rawOffset t line col
    let chk := offsetAt Gen.queryGlue t line col
    let tok := match raw with
      | some o => match rowanTokenAt toks o with
        | some ta => showTokenAt ta
        | none => "-"
      | none => "-"
    let hov := match chk with
      | some o => match rowanTokenAt toks o with
        | some ta => showOpt (hoverPick toks ta)
        | none => "BAD"
      | none => "none"
    let d := match dotPrepare Gen.queryGlue ph t line col with
      | some pr => s!"d{pr.anchor}{if pr.inserted then "+" else ""}"
      | none => "-"
    let k := match colonPrepare Gen.queryGlue ph t line col with
      | some pr => s!"k{pr.anchor}{if pr.inserted then "+" else ""}"
      | none => "-"
    s!"{showOpt raw},{showOpt chk},{tok},{hov},{d},{k}"
  | _ => "bad-position"

def runLine (l : String) : String :=
  match l.splitOn "\t" with
  | [id, hex, toks, poss] =>
    let t := unhex hex.toList
    let tk := (toks.splitOn " ").filter (· ≠ "") |>.map parseTok
    let ph := Gen.completionPlaceholder.toUTF8.toList.map (·.toNat)
    let ps := (poss.splitOn " ").filter (· ≠ "")
    s!"{id}\t" ++ " ".intercalate (ps.map (onePos t tk ph))
  | _ => "?\tparse-error"

def main : IO Unit := do
  let stdin ← IO.getStdin
  forEachLine stdin fun l => IO.println (runLine l)

end Goml.Driver.C20
