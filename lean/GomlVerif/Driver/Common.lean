import GomlVerif.Model.Sexp
/-! line-protocol plumbing shared by all drivers: one case per line, `id<TAB>sexp` -/
namespace Goml.Driver
open Goml

partial def forEachLine (h : IO.FS.Stream) (f : String → IO Unit) : IO Unit := do
  let line ← h.getLine
  if line.isEmpty then return ()
  let l := (line.dropEndWhile (fun c => c == '\n' || c == '\r')).toString
  if !l.isEmpty then f l
  forEachLine h f

/-- split `id<TAB>rest` -/
def splitTab (l : String) : String × String :=
  match l.splitOn "\t" with
  | [] => ("", "")
  | [a] => (a, "")
  | a :: rest => (a, "\t".intercalate rest)

def optMapM {α β} (f : α → Option β) : List α → Option (List β)
  | [] => some []
  | x :: xs => do let y ← f x; let ys ← optMapM f xs; pure (y :: ys)

end Goml.Driver
