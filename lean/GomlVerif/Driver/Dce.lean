import GomlVerif.Model.Dce
import GomlVerif.Model.GoSem
import GomlVerif.Model.GoCheck
import GomlVerif.Driver.DecGo
/-!
`gomlmodel dce`: one line per case `id<TAB>fuel<TAB>input-sexp<TAB>impl-output-sexp`.
Prints `id<TAB>tie<TAB>in-report<TAB>out-report<TAB>gocheck-in<TAB>gocheck-out<TAB>sem-in<TAB>sem-out`:
* tie: the model's `eliminateDeadVars input` against the implementation's output (both through
  the same encoder) — `EQ` or `DIFF:<first differing item>`;
* reports: the specification-side checks of `Model/Dce.lean` (Go's unused / undeclared rules for
  locals, statement-context rule, unused imports, calls of functions that no longer exist, the
  contract predicates) — evaluated on the real input and the real output, never on the model's;
* gocheck: the codes `Go.check` reports; sem: `Go.Sem.runGo` outcome.
-/
namespace Goml.Driver.Dce
open Goml Goml.Go Goml.Dce

/-! encoder: the mirror image of `harness/src/godump.rs` -/
partial def encTy : GTy → Sexp
  | .void => .atom "void" | .unit => .atom "unit" | .bool => .atom "bool" | .string => .atom "string"
  | .int 8 true => .atom "i8" | .int 16 true => .atom "i16" | .int 32 true => .atom "i32"
  | .int 64 true => .atom "i64" | .int 8 false => .atom "u8" | .int 16 false => .atom "u16"
  | .int 32 false => .atom "u32" | .int 64 false => .atom "u64"
  | .int b s => .list [.atom "int?", .atom (toString b), .atom (toString s)]
  | .float 32 => .atom "f32" | .float 64 => .atom "f64"
  | .float b => .list [.atom "float?", .atom (toString b)]
  | .struct n fs => .list (.atom "struct" :: .atom n :: fs.map fun (f, t) => .list [.atom f, encTy t])
  | .ptr t => .list [.atom "ptr", encTy t]
  | .func ps r => .list [.atom "fn", .list (ps.map encTy), encTy r]
  | .name n => .list [.atom "name", .atom n]
  | .array n t => .list [.atom "array", .atom (toString n), encTy t]
  | .slice t => .list [.atom "slice", encTy t]

def encUn : GUn → String
  | .neg => "neg" | .not => "not" | .addr => "addr" | .deref => "deref"

def encBin : GBin → String
  | .add => "add" | .sub => "sub" | .mul => "mul" | .div => "div" | .less => "less"
  | .greater => "greater" | .lessEq => "less_eq" | .greaterEq => "greater_eq" | .eq => "eq"
  | .notEq => "not_eq" | .and => "and" | .or => "or"

mutual
partial def encExpr : GExpr → Sexp
  | .nil t => .list [.atom "nil", encTy t]
  | .voidv t => .list [.atom "voidv", encTy t]
  | .unitv t => .list [.atom "unitv", encTy t]
  | .var x t => .list [.atom "var", .atom x, encTy t]
  | .bool b => .list [.atom "bool", .atom (if b then "true" else "false")]
  | .int v t => .list [.atom "int", .atom v, encTy t]
  | .float v t => .list [.atom "float", .atom (toString v.toNat), encTy t]
  | .str s => .list [.atom "str", .atom s]
  | .call t f args => .list (.atom "call" :: encTy t :: encExpr f :: args.map encExpr)
  | .un op t e => .list [.atom "un", .atom (encUn op), encTy t, encExpr e]
  | .bin op t l r => .list [.atom "bin", .atom (encBin op), encTy t, encExpr l, encExpr r]
  | .field f t o => .list [.atom "field", .atom f, encTy t, encExpr o]
  | .index t a i => .list [.atom "index", encTy t, encExpr a, encExpr i]
  | .cast t e => .list [.atom "cast", encTy t, encExpr e]
  | .slit t fs => .list (.atom "slit" :: encTy t :: fs.map fun | .mk n e => .list [.atom n, encExpr e])
  | .alit t es => .list (.atom "alit" :: encTy t :: es.map encExpr)
  | .blocke t ss e => .list [.atom "blocke", encTy t, .list (ss.map encStmt), encOptE e]
partial def encOptE : Option GExpr → Sexp
  | some e => encExpr e
  | none => .atom "none"
partial def encBlock (b : List GStmt) : Sexp := .list (b.map encStmt)
partial def encOptB : Option (List GStmt) → Sexp
  | some b => encBlock b
  | none => .atom "none"
partial def encStmt : GStmt → Sexp
  | .expr e => .list [.atom "expr", encExpr e]
  | .go c => .list [.atom "go", encExpr c]
  | .varDecl x t v => .list [.atom "vardecl", .atom x, encTy t, encOptE v]
  | .assign x v => .list [.atom "assign", .atom x, encExpr v]
  | .fieldAssign t v => .list [.atom "fassign", encExpr t, encExpr v]
  | .ptrAssign p v => .list [.atom "passign", encExpr p, encExpr v]
  | .indexAssign a i v => .list [.atom "iassign", encExpr a, encExpr i, encExpr v]
  | .ret e => .list [.atom "return", encOptE e]
  | .ite c t e => .list [.atom "if", encExpr c, encBlock t, encOptB e]
  | .loop b => .list [.atom "loop", encBlock b]
  | .brk => .list [.atom "break"]
  | .switch e cs d =>
    .list [.atom "switch", encExpr e, .list (cs.map fun | .mk v b => .list [encExpr v, encBlock b]), encOptB d]
  | .tswitch bind e cs d =>
    .list [.atom "tswitch", .atom (bind.getD "_"), encExpr e,
      .list (cs.map fun | .mk t b => .list [encTy t, encBlock b]), encOptB d]
end

def encParams (ps : List (String × GTy)) : Sexp := .list (ps.map fun (x, t) => .list [.atom x, encTy t])

def encItem : GItem → Sexp
  | .package n => .list [.atom "package", .atom n]
  | .imports specs => .list (.atom "import" :: specs.map fun (al, p) => .list [.atom al, .atom p])
  | .interface n ms =>
    .list [.atom "interface", .atom n, .list (ms.map fun (m, ps, r) =>
      .list [.atom m, encParams ps, match r with | some t => encTy t | none => .atom "none"])]
  | .structDef n fs ms =>
    .list [.atom "structdef", .atom n, encParams fs, .list (ms.map fun m =>
      .list [.atom "method", .atom m.recvName, encTy m.recvTy, .atom m.name, encParams m.params, encBlock m.body])]
  | .alias n t => .list [.atom "alias", .atom n, encTy t]
  | .func f =>
    .list [.atom "func", .atom f.name, encParams f.params,
      match f.ret with | some t => encTy t | none => .atom "none", encBlock f.body]

def itemLabel : GItem → String
  | .package n => "package " ++ n
  | .imports _ => "import"
  | .interface n _ => "interface " ++ n
  | .structDef n _ _ => "struct " ++ n
  | .alias n _ => "alias " ++ n
  | .func f => "func " ++ f.name

/-- first item on which the two files differ -/
def firstDiff : List GItem → List GItem → Option String
  | [], [] => none
  | a :: as, b :: bs =>
    if (encItem a).toStr == (encItem b).toStr then firstDiff as bs
    else some (itemLabel a ++ " / " ++ itemLabel b)
  | a :: _, [] => some (itemLabel a ++ " / <missing>")
  | [], b :: _ => some ("<missing> / " ++ itemLabel b)

def join (xs : List String) : String := ",".intercalate xs

/-- names read anywhere in the function bodies of a file -/
def fileReads (F : GFile) : Names :=
  F.funcs.foldl (fun acc f => uni acc (readsStmts f.body)) []

/-- imports no `pkg.name` reference uses (independent of `pkgsExpr`) -/
def unusedImportsSpec (F : GFile) : Names :=
  let reads := fileReads F ++ F.items.flatMap fun
    | .structDef _ _ ms => ms.flatMap fun m => readsStmts m.body
    | _ => []
  (importNames F).filter fun p => !(reads.any fun x => pkgPrefix x == some p)

/-- functions of the input that the output references but no longer defines -/
def danglingRefs (inp out : GFile) : Names :=
  let inFns := inp.funcs.map (·.name)
  let outFns := out.funcs.map (·.name)
  (fileReads out).filter fun x => inFns.contains x && !outFns.contains x

def report (F : GFile) : String :=
  let rs := F.funcs.map reportFn
  let unused := rs.flatMap fun r => r.unused.map (r.name ++ ":" ++ ·)
  let scope := rs.flatMap fun r => r.scope.map (r.name ++ ":" ++ ·)
  let ctx := F.funcs.flatMap fun f => (stmtCtxErrs f.body).map (f.name ++ ":" ++ ·)
  let bad (p : FnReport → Bool) := (rs.filter (fun r => !p r)).map (·.name)
  s!"unused={join unused};scope={join scope};stmtctx={join ctx};imports={join (unusedImportsSpec F)};" ++
  s!"shape={join (bad (·.shape))};semStrict={join (bad (·.semStrict))};semStatic={join (bad (·.semStatic))};" ++
  s!"hasMain={(F.findFunc "main").isSome}"

def gocheckCodes (F : GFile) : String :=
  let errs := check F
  join ((errs.filter fun e => ["unused-variable", "unused-import", "undeclared", "redeclared",
      "expression-statement-not-a-call"].contains e.code).map fun e => s!"{e.code}|{e.site}|{e.detail}")

def escOut (s : String) : String :=
  s.foldl (fun acc c =>
    if c == '\\' then acc ++ "\\\\" else if c == '\n' then acc ++ "\\n"
    else if c == '\t' then acc ++ "\\t" else if c == '\r' then acc ++ "\\r" else acc.push c) ""

def semOutcome (fuel : Nat) (F : GFile) : String :=
  let o := runGo fuel F
  s!"{o.status}|{escOut o.out}|{" ".intercalate o.externs}"

def runLine (fuel0 : Nat) (l : String) : String :=
  match l.splitOn "\t" with
  | [id, fuelS, inp, out] =>
    let fuel := fuelS.toNat?.getD fuel0
    match (Sexp.parse inp).bind decGFile, (Sexp.parse out).bind decGFile with
    | some fi, some fo =>
      let m := eliminateDeadVars fi
      let tie := match firstDiff m.items fo.items with
        | none => "EQ"
        | some d => "DIFF:" ++ d
      let dangling := join (danglingRefs fi fo)
      s!"{id}\t{tie}\t{report fi}\t{report fo};dangling={dangling}\t{gocheckCodes fi}\t{gocheckCodes fo}\t{semOutcome fuel fi}\t{semOutcome fuel fo}"
    | _, _ => s!"{id}\tdecode-error"
  | _ => "?\tbad-line"

def main : IO Unit := do
  let stdin ← IO.getStdin
  let fuel := (← IO.getEnv "GV_FUEL").bind String.toNat? |>.getD 2000000
  forEachLine stdin fun l => IO.println (runLine fuel l)

end Goml.Driver.Dce
