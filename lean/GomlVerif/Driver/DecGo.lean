import GomlVerif.Model.Go
import GomlVerif.Driver.Common
/-! decoders for `harness/src/godump.rs` -/
namespace Goml.Driver
open Goml Goml.Go

mutual
partial def decGTy : Sexp → Option GTy
  | .atom "void" => some .void | .atom "unit" => some .unit | .atom "bool" => some .bool
  | .atom "string" => some .string
  | .atom "i8" => some (.int 8 true) | .atom "i16" => some (.int 16 true)
  | .atom "i32" => some (.int 32 true) | .atom "i64" => some (.int 64 true)
  | .atom "u8" => some (.int 8 false) | .atom "u16" => some (.int 16 false)
  | .atom "u32" => some (.int 32 false) | .atom "u64" => some (.int 64 false)
  | .atom "f32" => some (.float 32) | .atom "f64" => some (.float 64)
  | .list (.atom "struct" :: .atom n :: fs) => do pure (.struct n (← optMapM decGParam fs))
  | .list [.atom "ptr", t] => do pure (.ptr (← decGTy t))
  | .list [.atom "fn", .list ps, r] => do pure (.func (← optMapM decGTy ps) (← decGTy r))
  | .list [.atom "name", .atom n] => some (.name n)
  | .list [.atom "array", n, t] => do pure (.array (← n.nat?) (← decGTy t))
  | .list [.atom "slice", t] => do pure (.slice (← decGTy t))
  | _ => none
partial def decGParam : Sexp → Option (String × GTy)
  | .list [.atom x, t] => do pure (x, ← decGTy t)
  | _ => none
end

def decGUn : String → Option GUn
  | "neg" => some .neg | "not" => some .not | "addr" => some .addr | "deref" => some .deref | _ => none

def decGBin : String → Option GBin
  | "add" => some .add | "sub" => some .sub | "mul" => some .mul | "div" => some .div
  | "less" => some .less | "greater" => some .greater | "less_eq" => some .lessEq
  | "greater_eq" => some .greaterEq | "eq" => some .eq | "not_eq" => some .notEq
  | "and" => some .and | "or" => some .or | _ => none

mutual
partial def decGExpr : Sexp → Option GExpr
  | .list [.atom "nil", t] => do pure (.nil (← decGTy t))
  | .list [.atom "voidv", t] => do pure (.voidv (← decGTy t))
  | .list [.atom "unitv", t] => do pure (.unitv (← decGTy t))
  | .list [.atom "var", .atom x, t] => do pure (.var x (← decGTy t))
  | .list [.atom "bool", .atom b] => some (.bool (b == "true"))
  | .list [.atom "int", .atom v, t] => do pure (.int v (← decGTy t))
  | .list [.atom "float", v, t] => do pure (.float (UInt64.ofNat (← v.nat?)) (← decGTy t))
  | .list [.atom "str", .atom s] => some (.str s)
  | .list (.atom "call" :: t :: f :: args) => do
      pure (.call (← decGTy t) (← decGExpr f) (← optMapM decGExpr args))
  | .list [.atom "un", .atom op, t, e] => do pure (.un (← decGUn op) (← decGTy t) (← decGExpr e))
  | .list [.atom "bin", .atom op, t, l, r] => do
      pure (.bin (← decGBin op) (← decGTy t) (← decGExpr l) (← decGExpr r))
  | .list [.atom "field", .atom f, t, o] => do pure (.field f (← decGTy t) (← decGExpr o))
  | .list [.atom "index", t, a, i] => do pure (.index (← decGTy t) (← decGExpr a) (← decGExpr i))
  | .list [.atom "cast", t, e] => do pure (.cast (← decGTy t) (← decGExpr e))
  | .list (.atom "slit" :: t :: fs) => do pure (.slit (← decGTy t) (← optMapM decGField fs))
  | .list (.atom "alit" :: t :: es) => do pure (.alit (← decGTy t) (← optMapM decGExpr es))
  | .list [.atom "blocke", t, .list ss, e] => do
      let oe ← match e with
        | .atom "none" => pure none
        | e => do pure (some (← decGExpr e))
      pure (.blocke (← decGTy t) (← optMapM decGStmt ss) oe)
  | _ => none
partial def decGField : Sexp → Option GField
  | .list [.atom f, e] => do pure (.mk f (← decGExpr e))
  | _ => none
partial def decOptE : Sexp → Option (Option GExpr)
  | .atom "none" => some none
  | e => do pure (some (← decGExpr e))
partial def decBlock : Sexp → Option (List GStmt)
  | .list ss => optMapM decGStmt ss
  | _ => none
partial def decOptBlock : Sexp → Option (Option (List GStmt))
  | .atom "none" => some none
  | b => do pure (some (← decBlock b))
partial def decGStmt : Sexp → Option GStmt
  | .list [.atom "expr", e] => do pure (.expr (← decGExpr e))
  | .list [.atom "go", e] => do pure (.go (← decGExpr e))
  | .list [.atom "vardecl", .atom x, t, v] => do pure (.varDecl x (← decGTy t) (← decOptE v))
  | .list [.atom "assign", .atom x, v] => do pure (.assign x (← decGExpr v))
  | .list [.atom "fassign", t, v] => do pure (.fieldAssign (← decGExpr t) (← decGExpr v))
  | .list [.atom "passign", p, v] => do pure (.ptrAssign (← decGExpr p) (← decGExpr v))
  | .list [.atom "iassign", a, i, v] => do pure (.indexAssign (← decGExpr a) (← decGExpr i) (← decGExpr v))
  | .list [.atom "return", e] => do pure (.ret (← decOptE e))
  | .list [.atom "if", c, t, e] => do pure (.ite (← decGExpr c) (← decBlock t) (← decOptBlock e))
  | .list [.atom "loop", b] => do pure (.loop (← decBlock b))
  | .list [.atom "break"] => some .brk
  | .list [.atom "switch", e, .list cases, d] => do
      let cs ← optMapM (fun
        | .list [v, b] => do pure (GCase.mk (← decGExpr v) (← decBlock b))
        | _ => none) cases
      pure (.switch (← decGExpr e) cs (← decOptBlock d))
  | .list [.atom "tswitch", .atom b, e, .list cases, d] => do
      let cs ← optMapM (fun
        | .list [t, body] => do pure (GTCase.mk (← decGTy t) (← decBlock body))
        | _ => none) cases
      pure (.tswitch (if b == "_" then none else some b) (← decGExpr e) cs (← decOptBlock d))
  | _ => none
end

def decGItem : Sexp → Option GItem
  | .list [.atom "package", .atom n] => some (.package n)
  | .list (.atom "import" :: specs) =>
      some (.imports (specs.filterMap fun | .list [.atom a, .atom p] => some (a, p) | _ => none))
  | .list [.atom "interface", .atom n, .list ms] => do
      let ms ← optMapM (fun
        | .list [.atom m, .list ps, r] => do
            let ro ← match r with
              | .atom "none" => pure none
              | r => do pure (some (← decGTy r))
            pure (m, ← optMapM decGParam ps, ro)
        | _ => none) ms
      pure (.interface n ms)
  | .list [.atom "structdef", .atom n, .list fs, .list ms] => do
      let ms ← optMapM (fun
        | .list [.atom "method", .atom rn, rt, .atom m, .list ps, b] => do
            pure ({ recvName := rn, recvTy := ← decGTy rt, name := m, params := ← optMapM decGParam ps,
                    body := ← decBlock b } : GMethod)
        | _ => none) ms
      pure (.structDef n (← optMapM decGParam fs) ms)
  | .list [.atom "alias", .atom n, t] => do pure (.alias n (← decGTy t))
  | .list [.atom "func", .atom n, .list ps, r, b] => do
      let ro ← match r with
        | .atom "none" => pure none
        | r => do pure (some (← decGTy r))
      pure (.func { name := n, params := ← optMapM decGParam ps, ret := ro, body := ← decBlock b })
  | _ => none

def decGFile : Sexp → Option GFile
  | .list (.atom "gofile" :: items) => do pure { items := ← optMapM decGItem items }
  | _ => none

end Goml.Driver
