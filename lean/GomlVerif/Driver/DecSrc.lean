import GomlVerif.Model.SrcSyntax
import GomlVerif.Driver.Common
/-! S-expression decoder for the surface-syntax dump (`harness/src/astdump.rs`) -/
namespace Goml.Driver.DecSrc
open Goml Goml.Src Goml.Driver

def atoms (xs : List Sexp) : Option (List String) := optMapM Sexp.str? xs

def intKind : String → Option (Nat × Bool)
  | "i8" => some (8, true) | "i16" => some (16, true) | "i32" => some (32, true) | "i64" => some (64, true)
  | "u8" => some (8, false) | "u16" => some (16, false) | "u32" => some (32, false) | "u64" => some (64, false)
  | _ => none

partial def decTy : Sexp → Option TyE
  | .atom "unit" => some .unit | .atom "bool" => some .bool | .atom "string" => some .string
  | .atom "f32" => some (.float 32) | .atom "f64" => some (.float 64)
  | .atom k => (intKind k).map (fun (b, s) => .int b s)
  | .list (.atom "tuple" :: ts) => do pure (.tuple (← optMapM decTy ts))
  | .list (.atom "con" :: segs) => do pure (.con (← atoms segs))
  | .list (.atom "dyn" :: segs) => do pure (.dyn (← atoms segs))
  | .list (.atom "app" :: t :: args) => do pure (.app (← decTy t) (← optMapM decTy args))
  | .list [.atom "array", n, t] => do pure (.array (← n.nat?) (← decTy t))
  | .list [.atom "fnty", .list ps, r] => do pure (.func (← optMapM decTy ps) (← decTy r))
  | _ => none

def decOptTy : Sexp → Option (Option TyE)
  | .list [.atom "none"] => some none
  | .list [.atom "some", t] => do pure (some (← decTy t))
  | _ => none

def decPath : Sexp → Option (List String)
  | .list (.atom "path" :: segs) => atoms segs
  | _ => none

def decSuffix (s : String) : Option (Option (Nat × Bool)) :=
  if s == "none" then some none else (intKind s).map some

partial def decPat : Sexp → Option Pat
  | .list [.atom "pvar", .atom x] => some (.var x)
  | .list [.atom "pwild"] => some .wild
  | .list [.atom "punit"] => some (.lit .unit)
  | .list [.atom "pbool", .atom b] => some (.lit (.bool (b == "true")))
  | .list [.atom "pint", .atom sfx, .atom text] => do pure (.lit (.int (← decSuffix sfx) text))
  | .list [.atom "pstr", .atom s] => some (.lit (.str s))
  | .list (.atom "pconstr" :: p :: args) => do pure (.constr (← decPath p) (← optMapM decPat args))
  | .list (.atom "pstruct" :: p :: fields) => do
      let fs ← optMapM (fun f => match f with
        | .list [.atom n, q] => do pure (FieldPat.mk n (← decPat q))
        | _ => none) fields
      pure (.struct (← decPath p) fs)
  | .list (.atom "ptuple" :: ps) => do pure (.tuple (← optMapM decPat ps))
  | _ => none

def decUn : String → Option UnOp
  | "neg" => some .neg | "not" => some .not | _ => none

def decBin : String → Option BinOp
  | "add" => some .add | "sub" => some .sub | "mul" => some .mul | "div" => some .div
  | "and" => some .and | "or" => some .or | "less" => some .less | "greater" => some .greater
  | "less_eq" => some .lessEq | "greater_eq" => some .greaterEq | "eq" => some .eq | "not_eq" => some .notEq
  | _ => none

partial def decExpr : Sexp → Option Expr
  | .list (.atom "path" :: segs) => do pure (.path (← atoms segs))
  | .list [.atom "unit"] => some (.lit .unit)
  | .list [.atom "bool", .atom b] => some (.lit (.bool (b == "true")))
  | .list [.atom "int", .atom sfx, .atom text] => do pure (.lit (.int (← decSuffix sfx) text))
  | .list [.atom "float", .atom sfx, .atom text, bits] => do
      let s ← (if sfx == "none" then some none else if sfx == "f32" then some (some 32) else if sfx == "f64" then some (some 64) else none)
      pure (.lit (.float s text (UInt64.ofNat (← bits.nat?))))
  | .list [.atom "str", .atom s] => some (.lit (.str s))
  | .list (.atom "constr" :: p :: args) => do pure (.constr (← decPath p) (← optMapM decExpr args))
  | .list (.atom "structlit" :: p :: fields) => do
      let fs ← optMapM (fun f => match f with
        | .list [.atom n, e] => do pure (FieldInit.mk n (← decExpr e))
        | _ => none) fields
      pure (.structLit (← decPath p) fs)
  | .list (.atom "tuple" :: items) => do pure (.tuple (← optMapM decExpr items))
  | .list (.atom "array" :: items) => do pure (.array (← optMapM decExpr items))
  | .list [.atom "let", p, ann, v] => do pure (.letE (← decPat p) (← decOptTy ann) (← decExpr v))
  | .list [.atom "closure", .list ps, body] => do
      let params ← optMapM (fun p => match p with
        | .list [.atom x, t] => do pure (x, ← decOptTy t)
        | _ => none) ps
      pure (.closure params (← decExpr body))
  | .list (.atom "match" :: s :: arms) => do
      let as ← optMapM (fun a => match a with
        | .list [.atom "arm", p, b] => do pure (Arm.mk (← decPat p) (← decExpr b))
        | _ => none) arms
      pure (.matchE (← decExpr s) as)
  | .list [.atom "if", c, t, e] => do pure (.ite (← decExpr c) (← decExpr t) (← decExpr e))
  | .list [.atom "while", c, b] => do pure (.while (← decExpr c) (← decExpr b))
  | .list [.atom "go", e] => do pure (.go (← decExpr e))
  | .list (.atom "call" :: f :: args) => do pure (.call (← decExpr f) (← optMapM decExpr args))
  | .list [.atom "un", .atom op, e] => do pure (.un (← decUn op) (← decExpr e))
  | .list [.atom "bin", .atom op, l, r] => do pure (.bin (← decBin op) (← decExpr l) (← decExpr r))
  | .list [.atom "proj", e, i] => do pure (.proj (← decExpr e) (← i.nat?))
  | .list [.atom "field", e, .atom f] => do pure (.field (← decExpr e) f)
  | .list (.atom "block" :: es) => do pure (.block (← optMapM decExpr es))
  | _ => none

def decParams : Sexp → Option (List (String × TyE))
  | .list (.atom "params" :: ps) => optMapM (fun p => match p with
      | .list [.atom x, t] => do pure (x, ← decTy t)
      | _ => none) ps
  | _ => none

def decGenerics : Sexp → Option (List String)
  | .list (.atom "generics" :: gs) => atoms gs
  | _ => none

def decFn : Sexp → Option FnDef
  | .list [.atom "fn", .atom name, _attrs, gens, .list (.atom "bounds" :: bs), ps, ret, body] => do
      let bounds ← optMapM (fun b => match b with
        | .list (.atom g :: paths) => do pure (g, ← optMapM decPath paths)
        | _ => none) bs
      pure { name := name, generics := ← decGenerics gens, bounds := bounds, params := ← decParams ps,
             ret := ← decOptTy ret, body := ← decExpr body }
  | _ => none

def decItem : Sexp → Option Item
  | s@(.list (.atom "fn" :: _)) => do pure (.fn (← decFn s))
  | .list [.atom "enum", .atom name, _attrs, gens, .list (.atom "variants" :: vs)] => do
      let variants ← optMapM (fun v => match v with
        | .list (.atom n :: ts) => do pure (n, ← optMapM decTy ts)
        | _ => none) vs
      pure (.enum { name := name, generics := ← decGenerics gens, variants := variants })
  | .list [.atom "struct", .atom name, _attrs, gens, .list (.atom "fields" :: fs)] => do
      let fields ← optMapM (fun f => match f with
        | .list [.atom n, t] => do pure (n, ← decTy t)
        | _ => none) fs
      pure (.struct { name := name, generics := ← decGenerics gens, fields := fields })
  | .list [.atom "trait", .atom name, _attrs, .list (.atom "sigs" :: ss)] => do
      let sigs ← optMapM (fun s => match s with
        | .list [.atom m, .list ps, r] => do pure (m, ← optMapM decTy ps, ← decTy r)
        | _ => none) ss
      pure (.trait { name := name, sigs := sigs })
  | .list [.atom "impl", _attrs, gens, tr, forTy, .list (.atom "methods" :: ms)] => do
      let trn ← match tr with
        | .list [.atom "none"] => some none
        | .list [.atom "some", p] => do pure (some (← decPath p))
        | _ => none
      pure (.impl { generics := ← decGenerics gens, traitName := trn, forTy := ← decTy forTy,
                    methods := ← optMapM decFn ms })
  | .list [.atom "externgo", .atom pkg, .atom sym, .atom name, _explicit, ps, _ret] => do
      pure (.extern { kind := "go", name := name, goPackage := pkg, goSymbol := sym, arity := (← decParams ps).length })
  | .list [.atom "externtype", .atom name] => some (.externType name)
  | .list [.atom "externbuiltin", .atom name, ps, _ret] => do
      pure (.extern { kind := "builtin", name := name, arity := (← decParams ps).length })
  | _ => none

def decFile : Sexp → Option File
  | .list (.atom "file" :: .list [.atom "package", .atom p] :: .list (.atom "imports" :: imps) :: items) => do
      pure { package := p, imports := ← atoms imps, items := ← optMapM decItem items }
  | _ => none

/-- `(srcprog (file …) …)` -/
def decProg : Sexp → Option Prog
  | .list (.atom "srcprog" :: files) => do pure { files := ← optMapM decFile files }
  | _ => none

end Goml.Driver.DecSrc
