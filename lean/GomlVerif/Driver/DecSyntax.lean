import GomlVerif.Model.Syntax
import GomlVerif.Driver.Common
/-! S-expression decoders for the unified IR dump (`harness/src/dump.rs`) -/
namespace Goml.Driver
open Goml

partial def decTy : Sexp → Option Ty
  | .atom "unit" => some .unit | .atom "bool" => some .bool | .atom "string" => some .string
  | .atom "i8" => some (.int 8 true) | .atom "i16" => some (.int 16 true)
  | .atom "i32" => some (.int 32 true) | .atom "i64" => some (.int 64 true)
  | .atom "u8" => some (.int 8 false) | .atom "u16" => some (.int 16 false)
  | .atom "u32" => some (.int 32 false) | .atom "u64" => some (.int 64 false)
  | .atom "f32" => some (.float 32) | .atom "f64" => some (.float 64)
  | .list (.atom "tuple" :: ts) => do pure (.tuple (← optMapM decTy ts))
  | .list [.atom "enum", .atom n] => some (.enum n)
  | .list [.atom "struct", .atom n] => some (.struct n)
  | .list [.atom "dyn", .atom n] => some (.dyn n)
  | .list (.atom "app" :: t :: args) => do pure (.app (← decTy t) (← optMapM decTy args))
  | .list [.atom "array", n, t] => do pure (.array (← n.nat?) (← decTy t))
  | .list [.atom "vec", t] => do pure (.vec (← decTy t))
  | .list [.atom "ref", t] => do pure (.ref (← decTy t))
  | .list [.atom "param", .atom n] => some (.param n)
  | .list [.atom "fn", .list ps, r] => do pure (.func (← optMapM decTy ps) (← decTy r))
  | .list [.atom "tvar", n] => some (.tvar (n.nat?.getD 0))
  | _ => none

def intKind : String → Option (Nat × Bool)
  | "i8" => some (8, true) | "i16" => some (16, true) | "i32" => some (32, true) | "i64" => some (64, true)
  | "u8" => some (8, false) | "u16" => some (16, false) | "u32" => some (32, false) | "u64" => some (64, false)
  | _ => none

def decPrim : Sexp → Option Prim
  | .list [.atom "unit"] => some .unit
  | .list [.atom "bool", .atom b] => some (.bool (b == "true"))
  | .list [.atom "int", .atom k, v] => do
      let (b, s) ← intKind k
      pure (.int b s (← v.int?))
  | .list [.atom "float", .atom k, v] => do
      pure (.float (if k == "f32" then 32 else 64) (UInt64.ofNat (← v.nat?)))
  | .list [.atom "str", .atom s] => some (.str s)
  | _ => none

def decCtor : Sexp → Option Ctor
  | .list [.atom "ce", .atom t, .atom v, i] => do pure (.enum t v (← i.nat?))
  | .list [.atom "cs", .atom t] => some (.struct t)
  | _ => none

def decUn : String → Option UnOp
  | "neg" => some .neg | "not" => some .not | _ => none

def decBin : String → Option BinOp
  | "add" => some .add | "sub" => some .sub | "mul" => some .mul | "div" => some .div
  | "and" => some .and | "or" => some .or | "less" => some .less | "greater" => some .greater
  | "less_eq" => some .lessEq | "greater_eq" => some .greaterEq | "eq" => some .eq | "not_eq" => some .notEq
  | _ => none

def decParamTy : Sexp → Option (String × Ty)
  | .list [.atom x, t] => do pure (x, ← decTy t)
  | _ => none

mutual
partial def decExpr : Sexp → Option Expr
  | .list [.atom "var", .atom x, t] => do pure (.var x (← decTy t))
  | .list [.atom "prim", p] => do pure (.prim (← decPrim p))
  | .list [.atom "tag", i, t] => do pure (.tag (← i.nat?) (← decTy t))
  | .list (.atom "constr" :: c :: t :: args) => do
      pure (.constr (← decCtor c) (← decTy t) (← optMapM decExpr args))
  | .list (.atom "tuple" :: t :: items) => do pure (.tuple (← decTy t) (← optMapM decExpr items))
  | .list (.atom "array" :: t :: items) => do pure (.array (← decTy t) (← optMapM decExpr items))
  | .list [.atom "closure", t, .list ps, body] => do
      pure (.closure (← decTy t) (← optMapM decParamTy ps) (← decExpr body))
  | .list [.atom "let", .atom x, v, b] => do pure (.letE x (← decExpr v) (← decExpr b))
  | .list [.atom "match", t, s, .list (.atom "arms" :: arms), d] => do
      let dflt ← match d with
        | .atom "none" => pure none
        | d => do pure (some (← decExpr d))
      pure (.matchE (← decTy t) (← decExpr s) (← optMapM decArm arms) dflt)
  | .list [.atom "if", c, t, e] => do pure (.ite (← decExpr c) (← decExpr t) (← decExpr e))
  | .list [.atom "while", c, b] => do pure (.while (← decExpr c) (← decExpr b))
  | .list [.atom "go", e] => do pure (.go (← decExpr e))
  | .list [.atom "cget", c, i, t, e] => do pure (.cget (← decCtor c) (← i.nat?) (← decTy t) (← decExpr e))
  | .list [.atom "un", .atom op, t, e] => do pure (.un (← decUn op) (← decTy t) (← decExpr e))
  | .list [.atom "bin", .atom op, t, l, r] => do
      pure (.bin (← decBin op) (← decTy t) (← decExpr l) (← decExpr r))
  | .list (.atom "call" :: t :: f :: args) => do
      pure (.call (← decTy t) (← decExpr f) (← optMapM decExpr args))
  | .list [.atom "todyn", .atom tr, ft, t, e] => do
      pure (.toDyn tr (← decTy ft) (← decTy t) (← decExpr e))
  | .list (.atom "dyncall" :: .atom tr :: .atom m :: t :: r :: args) => do
      pure (.dynCall tr m (← decTy t) (← decExpr r) (← optMapM decExpr args))
  | .list (.atom "traitcall" :: .atom tr :: .atom m :: t :: r :: args) => do
      pure (.traitCall tr m (← decTy t) (← decExpr r) (← optMapM decExpr args))
  | .list [.atom "proj", i, t, e] => do pure (.proj (← i.nat?) (← decTy t) (← decExpr e))
  | _ => none
partial def decArm : Sexp → Option Arm
  | .list [.atom "arm", l, b] => do pure (.mk (← decExpr l) (← decExpr b))
  | _ => none
end

def decFn : Sexp → Option Fn
  | .list [.atom "fn", .atom name, .list gens, .list ps, ret, body] => do
      pure { name := name, generics := gens.filterMap Sexp.str?, params := ← optMapM decParamTy ps,
             ret := ← decTy ret, body := ← decExpr body }
  | _ => none

def decImpl : Sexp → Option (String × String × String × String)
  | .list [.atom tr, .atom key, .atom m, .atom f] => some (tr, key, m, f)
  | _ => none

/-- `(prog (file fn…) (impls (trait key method fn)…))` -/
def decProg : Sexp → Option Prog
  | .list [.atom "prog", .list (.atom "file" :: fns), .list (.atom "impls" :: impls)] => do
      pure { fns := ← optMapM decFn fns, impls := impls.filterMap decImpl }
  | _ => none

end Goml.Driver
