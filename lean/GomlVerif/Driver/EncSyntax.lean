import GomlVerif.Model.Syntax
import GomlVerif.Driver.Common
/-! S-expression printers for the unified IR — the inverse of `DecSyntax`, the same format as
`harness/src/dump.rs`, so that a model's output can be compared with a real dump as text -/
namespace Goml.Driver
open Goml

private def tg (t : String) (xs : List Sexp) : Sexp := .list (.atom t :: xs)

partial def encTy : Ty → Sexp
  | .unit => .atom "unit" | .bool => .atom "bool" | .string => .atom "string"
  | .int b s => .atom ((if s then "i" else "u") ++ toString b)
  | .float b => .atom ("f" ++ toString b)
  | .tuple ts => tg "tuple" (ts.map encTy)
  | .enum n => tg "enum" [.atom n]
  | .struct n => tg "struct" [.atom n]
  | .dyn n => tg "dyn" [.atom n]
  | .app t args => tg "app" (encTy t :: args.map encTy)
  | .array n t => tg "array" [Sexp.ofNat n, encTy t]
  | .vec t => tg "vec" [encTy t]
  | .ref t => tg "ref" [encTy t]
  | .param n => tg "param" [.atom n]
  | .func ps r => tg "fn" [.list (ps.map encTy), encTy r]
  | .tvar n => tg "tvar" [Sexp.ofNat n]

def encPrim : Prim → Sexp
  | .unit => tg "unit" []
  | .bool b => tg "bool" [.atom (if b then "true" else "false")]
  | .int b s v => tg "int" [.atom ((if s then "i" else "u") ++ toString b), .atom (toString v)]
  | .float b r => tg "float" [.atom ("f" ++ toString b), .atom (toString r.toNat)]
  | .str s => tg "str" [.atom s]

def encCtor : Ctor → Sexp
  | .enum t v i => tg "ce" [.atom t, .atom v, Sexp.ofNat i]
  | .struct t => tg "cs" [.atom t]

def encUn : UnOp → String
  | .neg => "neg" | .not => "not"

def encBin : BinOp → String
  | .add => "add" | .sub => "sub" | .mul => "mul" | .div => "div" | .and => "and" | .or => "or"
  | .less => "less" | .greater => "greater" | .lessEq => "less_eq" | .greaterEq => "greater_eq"
  | .eq => "eq" | .notEq => "not_eq"

def encParams (ps : List (String × Ty)) : Sexp := .list (ps.map fun p => .list [.atom p.1, encTy p.2])

mutual
partial def encExpr : Expr → Sexp
  | .var x t => tg "var" [.atom x, encTy t]
  | .prim p => tg "prim" [encPrim p]
  | .tag i t => tg "tag" [Sexp.ofNat i, encTy t]
  | .constr c t args => tg "constr" (encCtor c :: encTy t :: args.map encExpr)
  | .tuple t items => tg "tuple" (encTy t :: items.map encExpr)
  | .array t items => tg "array" (encTy t :: items.map encExpr)
  | .closure t ps b => tg "closure" [encTy t, encParams ps, encExpr b]
  | .letE x v b => tg "let" [.atom x, encExpr v, encExpr b]
  | .matchE t s arms d => tg "match" [encTy t, encExpr s, tg "arms" (arms.map encArm),
      match d with | some d => encExpr d | none => .atom "none"]
  | .ite c t e => tg "if" [encExpr c, encExpr t, encExpr e]
  | .while c b => tg "while" [encExpr c, encExpr b]
  | .go e => tg "go" [encExpr e]
  | .cget c i t e => tg "cget" [encCtor c, Sexp.ofNat i, encTy t, encExpr e]
  | .un op t e => tg "un" [.atom (encUn op), encTy t, encExpr e]
  | .bin op t l r => tg "bin" [.atom (encBin op), encTy t, encExpr l, encExpr r]
  | .call t f args => tg "call" (encTy t :: encExpr f :: args.map encExpr)
  | .toDyn tr ft t e => tg "todyn" [.atom tr, encTy ft, encTy t, encExpr e]
  | .dynCall tr m t r args => tg "dyncall" (.atom tr :: .atom m :: encTy t :: encExpr r :: args.map encExpr)
  | .traitCall tr m t r args => tg "traitcall" (.atom tr :: .atom m :: encTy t :: encExpr r :: args.map encExpr)
  | .proj i t e => tg "proj" [Sexp.ofNat i, encTy t, encExpr e]
partial def encArm : Arm → Sexp
  | .mk l b => tg "arm" [encExpr l, encExpr b]
end

def encFn (f : Fn) : Sexp :=
  tg "fn" [.atom f.name, .list (f.generics.map Sexp.atom), encParams f.params, encTy f.ret, encExpr f.body]

def encEnum (d : EnumDef) : Sexp :=
  tg "enum" (.atom d.name :: .list (d.generics.map Sexp.atom) :: d.variants.map fun v => .list (.atom v.1 :: v.2.map encTy))

def encStruct (d : StructDef) : Sexp :=
  tg "struct" (.atom d.name :: .list (d.generics.map Sexp.atom) :: d.fields.map fun f => .list [.atom f.1, encTy f.2])

end Goml.Driver
