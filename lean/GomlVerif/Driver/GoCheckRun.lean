import GomlVerif.Model.GoCheck
import GomlVerif.Driver.DecGo
/-! `gomlmodel gocheck`: run `Go.check` on dumped Go files -/
namespace Goml.Driver.GoCheckRun
open Goml Goml.Go

/-- `reprStr` of a long type wraps at 120 columns; the protocol is one answer per line -/
def oneLine (s : String) : String :=
  " ".intercalate ((s.splitOn "\n").map fun part => String.ofList (part.toList.dropWhile (· == ' ')))

def runLine (l : String) : String :=
  let (id, rest) := splitTab l
  match Sexp.parse rest with
  | some sx =>
    match decGFile sx with
    | some F =>
      let errs := check F
      if errs.isEmpty then s!"{id}\tok\t"
      else s!"{id}\terr\t" ++ " ;; ".intercalate (errs.map fun e => s!"{e.code}|{e.site}|{oneLine e.detail}")
    | none => s!"{id}\tdecode-error\t"
  | none => s!"{id}\tparse-error\t"

def main : IO Unit := do
  let stdin ← IO.getStdin
  forEachLine stdin fun l => IO.println (runLine l)

end Goml.Driver.GoCheckRun
