import GomlVerif.Model.GoCompile
import GomlVerif.Model.GoFrag
import GomlVerif.Model.GoTyping
import GomlVerif.Model.GoFragTyped
import GomlVerif.Model.Dce
import GomlVerif.Driver.DecSyntax
import GomlVerif.Driver.DecGo
import GomlVerif.Driver.Dce
/-!
`gomlmodel gocomp`: one line per program
`id<TAB>offset<TAB>env<TAB>annotated-anf<TAB>go(fresh counter)<TAB>go(pipeline)[<TAB>(impls (trait key method fn)…)]`.
Prints `id<TAB>fresh<TAB>pipe<TAB>fns<TAB>frag` where
* `fresh` / `pipe`: `EQ` or `DIFF:<first differing item>` or `UNSUPPORTED` — the model
  `eliminateDeadVars (goFilePre env file n)` against the real `go_file` output, all items, in order
  (`n = 0` for the fresh run, `n = offset` for the pipeline's own output);
* `fns`: per ANF function `name=EQ|DIFF|UNSUPPORTED|PRUNED`, comma separated (fresh run);
* `frag`: per ANF function `name=in` (`in(typed)` when also `stdFn` and `typedTablesOK`: the typing half of T2 applies) or
  `name=<reason outside InGoFragment>`;
* `typed`: per Go function of the real file `name=AGREE|DISAGREE(…)|SKIP` — the total mirror `GoTyping.fnOKT` of
  `Go.check`'s typing rules against `Go.check` itself.
-/
namespace Goml.Driver.GoComp
open Goml Goml.Go Goml.GoCompile

def decImm : Sexp → Option Imm
  | .list [.atom "var", .atom x, t] => do pure (.var x (← decTy t))
  | .list [.atom "prim", p, t] => do pure (.prim (← decPrim p) (← decTy t))
  | .list [.atom "tag", i, t] => do pure (.tag (← i.nat?) (← decTy t))
  | _ => none

mutual
partial def decC : Sexp → Option CExpr
  | .list [.atom "imm", i] => do pure (.imm (← decImm i))
  | .list (.atom "constr" :: c :: t :: args) => do pure (.constr (← decCtor c) (← optMapM decImm args) (← decTy t))
  | .list (.atom "tuple" :: t :: items) => do pure (.tuple (← optMapM decImm items) (← decTy t))
  | .list (.atom "array" :: t :: items) => do pure (.array (← optMapM decImm items) (← decTy t))
  | .list [.atom "match", t, s, .list (.atom "arms" :: arms), d] => do
      let dflt ← match d with
        | .atom "none" => pure ADflt.none
        | d => do pure (ADflt.some (← decA d))
      pure (.matchE (← decImm s) (← optMapM decArm arms) dflt (← decTy t))
  | .list [.atom "if", t, c, th, el] => do pure (.ite (← decImm c) (← decA th) (← decA el) (← decTy t))
  | .list [.atom "while", t, c, b] => do pure (.while (← decA c) (← decA b) (← decTy t))
  | .list [.atom "cget", c, i, t, e] => do pure (.cget (← decImm e) (← decCtor c) (← i.nat?) (← decTy t))
  | .list [.atom "un", .atom op, t, e] => do pure (.un (← decUn op) (← decImm e) (← decTy t))
  | .list [.atom "bin", .atom op, t, l, r] => do pure (.bin (← decBin op) (← decImm l) (← decImm r) (← decTy t))
  | .list (.atom "call" :: t :: f :: args) => do pure (.call (← decImm f) (← optMapM decImm args) (← decTy t))
  | .list [.atom "todyn", .atom tr, ft, t, e] => do pure (.toDyn tr (← decTy ft) (← decImm e) (← decTy t))
  | .list (.atom "dyncall" :: .atom tr :: .atom m :: t :: r :: args) => do
      pure (.dynCall tr m (← decImm r) (← optMapM decImm args) (← decTy t))
  | .list [.atom "go", t, e] => do pure (.go (← decImm e) (← decTy t))
  | .list [.atom "proj", i, t, e] => do pure (.proj (← decImm e) (← i.nat?) (← decTy t))
  | _ => none
partial def decA : Sexp → Option AExpr
  | .list [.atom "ret", c] => do pure (.ret (← decC c))
  | .list [.atom "let", .atom x, t, v, b] => do pure (.letE x (← decC v) (← decA b) (← decTy t))
  | _ => none
partial def decArm : Sexp → Option AArm
  | .list [.atom "arm", l, b] => do pure (.mk (← decImm l) (← decA b))
  | _ => none
end

def decAFn : Sexp → Option AFn
  | .list [.atom "fn", .atom name, .list ps, ret, body] => do
      pure { name := name, params := ← optMapM decParamTy ps, ret := ← decTy ret, body := ← decA body }
  | _ => none

def decAFile : Sexp → Option AFile
  | .list (.atom "afile" :: fns) => optMapM decAFn fns
  | _ => none

def decNames (xs : List Sexp) : List String := xs.filterMap Sexp.str?

def decStructDef : Sexp → Option StructDef
  | .list [.atom "struct", .atom n, .list gs, .list fs] => do
      pure { name := n, generics := decNames gs, fields := ← optMapM decParamTy fs }
  | _ => none

def decEnumDef : Sexp → Option EnumDef
  | .list [.atom "enum", .atom n, .list gs, .list vs] => do
      let vs ← optMapM (fun
        | .list [.atom v, .list ts] => do pure (v, ← optMapM decTy ts)
        | _ => none) vs
      pure { name := n, generics := decNames gs, variants := vs }
  | _ => none

def decEnv : Sexp → Option Env
  | .list [.atom "env", .list (.atom "structs" :: ss), .list (.atom "lookup" :: ls), .list (.atom "enums" :: es),
           .list (.atom "traits" :: ts), .list (.atom "externfns" :: xfs), .list (.atom "externtys" :: xts),
           .list (.atom "apply" :: aps)] => do
      let traits ← optMapM (fun
        | .list (.atom n :: ms) => do
            pure (n, ← optMapM (fun | .list [.atom m, t] => do pure (m, ← decTy t) | _ => none) ms)
        | _ => none) ts
      let xfs ← optMapM (fun | .list [.atom n, .atom p, .atom g] => some (n, p, g) | _ => none) xfs
      let xts ← optMapM (fun
        | .list [.atom n, .atom g, .atom "none"] => some (n, g, none)
        | .list [.atom n, .atom g, .list [.atom p]] => some (n, g, some p)
        | _ => none) xts
      let aps ← optMapM (fun
        | .list [.atom n, .atom "none"] => some (n, none)
        | .list [.atom n, .list [t]] => do pure (n, some (← decTy t))
        | _ => none) aps
      pure { structs := ← optMapM decStructDef ss, structsLookup := ← optMapM decStructDef ls,
             enums := ← optMapM decEnumDef es, traits := traits, externFns := xfs, externTys := xts, applyTys := aps }
  | _ => none

open Goml.Driver.Dce (encItem itemLabel firstDiff)

/-- the model of `go_file`: the back end, then dead-code elimination -/
def goFile (env : Env) (file : AFile) (n : Nat) : Option GFile :=
  (goFilePre env file n).map Goml.Dce.eliminateDeadVars

def tie (env : Env) (file : AFile) (n : Nat) (real : GFile) : String :=
  match goFile env file n with
  | none => "UNSUPPORTED"
  | some m =>
    match firstDiff m.items real.items with
    | none => "EQ"
    | some d => "DIFF:" ++ d

def sameFn (a b : GFunc) : Bool := (encItem (.func a)).toStr == (encItem (.func b)).toStr

/-- per ANF function: is its compiled, DCE'd form the function of that name in the real file -/
def perFn (env : Env) (file : AFile) (real : GFile) : List String :=
  let model := goFile env file 0
  -- counters in file order, to know which function clears the `ok` flag
  let rec go (st : St) : List AFn → List String
    | [] => []
    | f :: rest =>
      let r := compileFn env { n := st.n, ok := true } f
      let name := fnName f.name
      let verdict :=
        if !r.2.ok then "UNSUPPORTED"
        else
          match model with
          | none => "UNSUPPORTED-FILE"
          | some m =>
            match m.findFunc name, real.findFunc name with
            | some a, some b => if sameFn a b then "EQ" else "DIFF"
            | none, none => "PRUNED"
            | _, _ => "DIFF"
      (f.name ++ "=" ++ verdict) :: go r.2 rest
  go { n := 0, ok := true } file

/-- per ANF function: `in` (inside `InGoFragment`, fresh counter), `in(dyn)` (inside `InGoFragmentD` only: with trait
    objects, and the program's dispatch table passes `implsOK`; `in(dyn:impls?)` when it does not or no table was given),
    or the reason it is outside both -/
def fragInfo (env : Env) (file : AFile) (impls : Option (List (String × String × String × String))) : List String :=
  let G := Goml.GoFrag.goodFns env file 0
  let closed := Goml.GoFrag.closedOK env file 0 G
  let GD := Goml.GoFrag.goodFnsD env file 0
  let closedD := Goml.GoFrag.closedOKD env file 0 GD
  let iok := match impls with
    | some t => Goml.GoFrag.implsOK env file GD { fns := file.map AFn.toFn, impls := t }
    | none => false
  let tt := Goml.GoFrag.typedTablesOK env file 0
  let rec go (st : St) : List AFn → List String
    | [] => []
    | f :: rest =>
      (f.name ++ "=" ++
        (if closed && G.contains f.name then (if tt && Goml.GoFrag.stdFn env file f then "in(typed)" else "in")
         else match Goml.GoFrag.outsideReason env file 0 GD closedD st f with
          | none => if iok then "in(dyn)" else "in(dyn:impls?)"
          | some r => r)) ::
        go (compileFn env st f).2 rest
  go { n := 0, ok := true } file

def clean (s : String) : String := s.map fun c => if c == '\t' || c == '\n' || c == ',' then ' ' else c

def runCase (id off envS anfS freshS pipeS : String) (implsS : Option String) : String :=
  match (Sexp.parse envS).bind decEnv, (Sexp.parse anfS).bind decAFile,
        (Sexp.parse freshS).bind decGFile, (Sexp.parse pipeS).bind decGFile with
  | some env, some file, some fresh, some pipe =>
    let t1 := tie env file 0 fresh
    let t2 := match off.toNat? with
      | some n => tie env file n pipe
      | none => "SKIP"
    let typed := (Goml.GoTyping.tieFile fresh).map fun p => clean p.1 ++ "=" ++ clean p.2
    let impls := match implsS.bind Sexp.parse with
      | some (.list (.atom "impls" :: rows)) => some (rows.filterMap decImpl)
      | _ => none
    s!"{id}\t{clean t1}\t{clean t2}\t{",".intercalate ((perFn env file fresh).map clean)}\t{",".intercalate ((fragInfo env file impls).map clean)}\t{",".intercalate typed}"
  | e, f, g, p => s!"{id}\tdecode-error env={e.isSome} anf={f.isSome} fresh={g.isSome} pipe={p.isSome}"

def runLine (l : String) : String :=
  match l.splitOn "\t" with
  | [id, off, envS, anfS, freshS, pipeS] => runCase id off envS anfS freshS pipeS none
  | [id, off, envS, anfS, freshS, pipeS, implsS] => runCase id off envS anfS freshS pipeS (some implsS)
  | _ => "?\tbad-line"

def main : IO Unit := do
  let stdin ← IO.getStdin
  forEachLine stdin fun l => IO.println (runLine l)

end Goml.Driver.GoComp
