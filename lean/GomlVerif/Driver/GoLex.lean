import GomlVerif.Model.GoPrint
import GomlVerif.Driver.DecGo
import GomlVerif.Driver.GoPP
/-! `gomlmodel golex`: Go's lexer of `Model/GoLex.lean` applied to the REAL printed text of an item.
    in: `id<TAB>(gofile item…)<TAB>real text at width 120 (escaped)`;
    out: `id<TAB>ok<TAB>verdict<TAB>tokens<TAB>semicolons<TAB>wf<TAB>qualified<TAB>token dump` where verdict = `eq` when
    `lex text` is exactly `expectToks false` of the model's `Doc.pieces` (qualified names split at the dots),
    `wf` = every piece satisfies `Tok.wf` (the hypotheses of `lex_render_tokens`), and the dump (kind:text, strings
    decoded, joined by U+0001) is what harness/src/goparse.rs's tokenizer must also return. -/
namespace Goml.Driver.GoLexD
open Goml Goml.Go Goml.GoPrint

def unescLine : List Char → List Char
  | '\\' :: 'n' :: r => '\n' :: unescLine r
  | '\\' :: 't' :: r => '\t' :: unescLine r
  | '\\' :: 'r' :: r => '\r' :: unescLine r
  | '\\' :: '\\' :: r => '\\' :: unescLine r
  | c :: r => c :: unescLine r
  | [] => []

def dumpTok (t : GoLex.LTok) : Option String :=
  match t.kind with
  | .ident | .kw => some ("i:" ++ String.ofList t.text)
  | .num => some ("n:" ++ String.ofList t.text)
  | .sym => some ("y:" ++ String.ofList t.text)
  | .semi => none
  | .str =>
    match t.text with
    | _ :: b => (match lexStr .normal b with | some (v, _) => some ("s:" ++ String.ofList v) | none => some "s?")
    | [] => some "s?"

def runLine (l : String) : String :=
  let (id, rest) := splitTab l
  let (dump, text) := splitTab rest
  match Sexp.parse dump with
  | some sx =>
    match decGFile sx with
    | some F =>
      let d := intersperse (.hardline ++ .hardline) (F.items.map itemDoc)
      let ps := d.pieces
      let want := expectToks false (ps.flatMap Piece.split)
      let qual := (ps.flatMap Piece.split).length != ps.length
      match GoLex.lex (unescLine text.toList) with
      | some got =>
        let verdict := if got == want then "eq" else "differ"
        let nsemi := (got.filter fun t => t.kind == .semi).length
        let dump := String.intercalate "\x01" (got.filterMap dumpTok)
        s!"{id}\tok\t{verdict}\t{got.length - nsemi}\t{nsemi}\t{piecesWf ps}\t{qual}\t{GoPP.escLine dump}"
      | none => s!"{id}\tok\tlex-error\t0\t0\t{piecesWf ps}\t{qual}\t"
    | none => s!"{id}\tdecode-error"
  | none => s!"{id}\tparse-error"

def main : IO Unit := do
  let stdin ← IO.getStdin
  forEachLine stdin fun l => IO.println (runLine l)

end Goml.Driver.GoLexD
