import GomlVerif.Model.GoPrint
import GomlVerif.Driver.DecGo
/-! `gomlmodel gopp`: the model's text (`Goml.GoPrint.printItem`) of every top-level item of a dumped Go file, at
    widths 40 / 80 / 120, plus the model-side verdicts on the item (`ParenFree`, `GlueFree`). Line protocol:
    in `id<TAB>(gofile item…)`, out `id<TAB>ok<TAB>text40<TAB>text80<TAB>text120<TAB>parenfree<TAB>gluefree<TAB>roots<TAB>roots-in-theorem-subset` with the
    items of the file joined as `File::to_doc` joins them. -/
namespace Goml.Driver.GoPP
open Goml Goml.Go Goml.GoPrint

def escLine (s : String) : String :=
  String.ofList (s.toList.flatMap fun c =>
    if c == '\\' then ['\\', '\\'] else if c == '\n' then ['\\', 'n'] else if c == '\t' then ['\\', 't']
    else if c == '\r' then ['\\', 'r'] else [c])

def runLine (l : String) : String :=
  let (id, rest) := splitTab l
  match Sexp.parse rest with
  | some sx =>
    match decGFile sx with
    | some F =>
      let t (w : Nat) := escLine (render w (intersperse (.hardline ++ .hardline) (F.items.map itemDoc)))
      let pf := F.items.all itemParenFree
      let gf := F.items.all fun it => glueFree (itemDoc it).pieces
      let roots := F.items.flatMap itemRoots
      let inSub := (roots.filter fun e => inSubset e && exprParenFree e).length
      s!"{id}\tok\t{t 40}\t{t 80}\t{t 120}\t{pf}\t{gf}\t{roots.length}\t{inSub}"
    | none => s!"{id}\tdecode-error"
  | none => s!"{id}\tparse-error"

def main : IO Unit := do
  let stdin ← IO.getStdin
  forEachLine stdin fun l => IO.println (runLine l)

end Goml.Driver.GoPP
