import GomlVerif.Model.Grammar
import GomlVerif.Driver.Common
/-! `gomlmodel grammar`: first the table of modelled grammar functions
(`F<TAB>rust name<TAB>fn id or -<TAB>loop ids`), then, for every input line `id<TAB>k,k,…` (kinds of the
non-trivia tokens), `id<TAB>oof<TAB>events` with the events written as the C12 harness writes them. -/
namespace Goml.Driver.Grammar
open Goml Goml.Grammar Goml.Tree

def showEv : Ev → String
  | .op k none => s!"O{k}"
  | .op k (some f) => s!"O{k}+{f}"
  | .close => "C"
  | .advance => "A"
  | .error m => "E<" ++ m ++ ">"

def handle (line : String) : IO Unit := do
  match line.splitOn "\t" with
  | [id, ks] =>
      let kinds := if ks.isEmpty then [] else (ks.splitOn ",").map String.toNat!
      let s := parseItems kinds
      IO.println s!"{id}\t{s.oof}\t{",".intercalate ((flatL s.out).map showEv)}"
  | _ => IO.println "?\tmalformed"

def main : IO Unit := do
  for r in fnTable do
    let fid := match r.2.1 with | some f => toString f.id | none => "-"
    IO.println s!"F\t{r.1}\t{fid}\t{",".intercalate (r.2.2.map fun f => toString f.id)}"
  let stdin ← IO.getStdin
  forEachLine stdin handle

end Goml.Driver.Grammar
