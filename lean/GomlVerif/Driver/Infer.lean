import GomlVerif.Model.Infer
import GomlVerif.Model.InferSpec
import GomlVerif.Model.Wt
import GomlVerif.Driver.Solve
/-! driver for the model of the typer's constraint generation: lines `id<TAB>(fn NAME (n0 K) (params …) (ret ty)
(funs …) (env …) (body EXPR))` are answered with `id<TAB>(result …)` in the format of `harness/src/infer.rs`
(`gv infer`) -/
namespace Goml.Driver.Infer
open Goml Goml.Unify Goml.Infer Goml.Driver.Unify Goml.Driver.Solve

private def tg (t : String) (xs : List Sexp) : Sexp := .list (.atom t :: xs)

def decBinOp : String → Option BinOp
  | "lesseq" => some .lessEq | "greatereq" => some .greaterEq | "noteq" => some .notEq
  | s => decBin s

partial def decPat : Sexp → Option IPat
  | .list [.atom "pvar", x] => do pure (.var (← x.nat?))
  | .list [.atom "pwild"] => some .wild
  | .list [.atom "punit"] => some .unit
  | .list [.atom "pbool"] => some .bool
  | .list [.atom "pint"] => some .int
  | .list [.atom "pstr"] => some .str
  | .list [.atom "ptint", t] => do pure (.tint (← decTy t))
  | .list (.atom "ptuple" :: ps) => do pure (.tuple (← optMapM decPat ps))
  | .list (.atom "pconstr" :: .list [.atom "ctor", t, k] :: ps) => do
      pure (.constr (some (some (← decTy t, ← k.nat?))) (← optMapM decPat ps))
  | .list (.atom "pconstr" :: .list [.atom "noctor"] :: ps) => do pure (.constr (some none) (← optMapM decPat ps))
  | .list (.atom "pconstr" :: .list [.atom "ambiguous"] :: ps) => do pure (.constr none (← optMapM decPat ps))
  | _ => none

def decName : Sexp → Option NameRes
  | .list [.atom "local", x] => do pure (.loc (← x.nat?))
  | .list [.atom "def", .atom h] => some (.defn h)
  | .list [.atom "builtin", .atom h] => some (.builtin h)
  | .list [.atom "unres", .atom n] => some (.unres (some n))
  | .list [.atom "unres"] => some (.unres none)
  | _ => none

def decCParam : Sexp → Option (Nat × Option Ty)
  | .list [x] => do pure (← x.nat?, none)
  | .list [x, t] => do pure (← x.nat?, some (← decTy t))
  | _ => none

mutual
partial def decE : Sexp → Option IExpr
  | .list [.atom "lit", i, t] => do pure (.lit (← i.nat?) (← decTy t))
  | .list [.atom "name", i, r] => do pure (.name (← i.nat?) (← decName r))
  | .list (.atom "tuple" :: i :: es) => do pure (.tuple (← i.nat?) (← optMapM decE es))
  | .list [.atom "closure", i, .list (.atom "params" :: ps), b] => do
      pure (.closure (← i.nat?) (← optMapM decCParam ps) (← decE b))
  | .list [.atom "let", i, p, .list [.atom "ann", t], v] => do
      pure (.letE (← i.nat?) (← decPat p) (some (← decTy t)) (← decE v))
  | .list [.atom "let", i, p, .list [.atom "noann"], v] => do
      pure (.letE (← i.nat?) (← decPat p) none (← decE v))
  | .list (.atom "block" :: i :: es) => do pure (.block (← i.nat?) (← optMapM decE es))
  | .list [.atom "if", i, c, t, e] => do pure (.ite (← i.nat?) (← decE c) (← decE t) (← decE e))
  | .list [.atom "while", i, c, b] => do pure (.while (← i.nat?) (← decE c) (← decE b))
  | .list (.atom "call" :: i :: f :: args) => do pure (.call (← i.nat?) (← decE f) (← optMapM decE args))
  | .list [.atom "un", i, .atom op, e] => do pure (.un (← i.nat?) (← decUn op) (← decE e))
  | .list [.atom "bin", i, .atom op, l, r] => do pure (.bin (← i.nat?) (← decBinOp op) (← decE l) (← decE r))
  | .list [.atom "proj", i, e, k] => do pure (.proj (← i.nat?) (← decE e) (← k.nat?))
  | .list [.atom "field", i, e, .atom f] => do pure (.field (← i.nat?) (← decE e) f)
  | .list (.atom "match" :: i :: sc :: arms) => do pure (.matchE (← i.nat?) (← decE sc) (← optMapM decArm arms))
  | .list (.atom "mcall" :: i :: fi :: recv :: .atom m :: args) => do
      pure (.mcall (← i.nat?) (← fi.nat?) (← decE recv) m (← optMapM decE args))
  | .list (.atom "scall" :: i :: fi :: .atom tn :: .atom m :: args) => do
      pure (.scall (← i.nat?) (← fi.nat?) tn m (← optMapM decE args))
  | .list (.atom "array" :: i :: es) => do pure (.array (← i.nat?) (← optMapM decE es))
  | .list (.atom "constr" :: i :: .list [.atom "ctor", t, k] :: es) => do
      pure (.constr (← i.nat?) (some (some (← decTy t, ← k.nat?))) (← optMapM decE es))
  | .list (.atom "slit" :: i :: .list [.atom "ctor", t, k] :: .list (.atom "idxs" :: ks) :: es) => do
      pure (.slit (← i.nat?) (some (← decTy t, ← k.nat?)) (← optMapM Sexp.nat? ks) (← optMapM decE es))
  | .list (.atom "slit" :: i :: .list [.atom "noctor"] :: .list (.atom "idxs" :: ks) :: es) => do
      pure (.slit (← i.nat?) none (← optMapM Sexp.nat? ks) (← optMapM decE es))
  | .list (.atom "constr" :: i :: .list [.atom "noctor"] :: es) => do pure (.constr (← i.nat?) (some none) (← optMapM decE es))
  | .list (.atom "constr" :: i :: .list [.atom "ambiguous"] :: es) => do pure (.constr (← i.nat?) none (← optMapM decE es))
  | _ => none
partial def decArm : Sexp → Option IArm
  | .list [.atom "arm", p, b] => do pure (.mk (← decPat p) (← decE b))
  | _ => none
end

def decParam : Sexp → Option (Nat × Ty)
  | .list [x, t] => do pure (← x.nat?, ← decTy t)
  | _ => none

def decFun : Sexp → Option (String × Ty)
  | .list [.atom n, t] => do pure (n, ← decTy t)
  | _ => none

structure Case where
  n0 : Nat
  params : List (Nat × Ty)
  ret : Ty
  G : GEnv
  body : IExpr

def decImplRow : Sexp → Option (ImplKey × String × Ty)
  | .list [.atom "exact", k, .atom m, t] => do pure (.exact (← decTy k), m, ← decTy t)
  | .list [.atom "constr", .atom c, .atom m, t] => do pure (.constr c, m, ← decTy t)
  | _ => none

def decCase : Sexp → Option Case
  | .list [.atom "fn", _, .list [.atom "n0", k], .list (.atom "params" :: ps), .list [.atom "ret", r],
           .list (.atom "funs" :: fs), env, .list (.atom "inherent" :: rows), .list (.atom "enums" :: ens),
           .list [.atom "body", b]] => do
      pure { n0 := ← k.nat?, params := ← optMapM decParam ps, ret := ← decTy r,
             G := { funs := ← optMapM decFun fs, env := ← decEnv env, inherent := ← optMapM decImplRow rows,
                    enums := ← optMapM Sexp.str? ens }, body := ← decE b }
  | .list [.atom "fn", _, .list [.atom "n0", k], .list (.atom "params" :: ps), .list [.atom "ret", r],
           .list (.atom "funs" :: fs), env, .list [.atom "body", b]] => do
      pure { n0 := ← k.nat?, params := ← optMapM decParam ps, ret := ← decTy r,
             G := { funs := ← optMapM decFun fs, env := ← decEnv env }, body := ← decE b }
  | _ => none

/-- the table `results.expr_tys`: last write wins; kept sorted by id -/
def insertRec (i : Nat) (t : Ty) : List (Nat × Ty) → List (Nat × Ty)
  | [] => [(i, t)]
  | (j, u) :: rest => if i < j then (i, t) :: (j, u) :: rest else if i = j then (i, t) :: rest else (j, u) :: insertRec i t rest

def table (recs : List (Nat × Ty)) : List (Nat × Ty) := recs.foldl (fun acc p => insertRec p.1 p.2 acc) []

def encRec (p : Nat × Ty) : Sexp := .list [Sexp.ofNat p.1, encTy p.2]

def runCase (c : Case) : Sexp :=
  let σ0 : Store := { Store.empty with n := c.n0 }
  match genFn c.G c.params c.ret c.body σ0 with
  | none => tg "result" [tg "stuck" []]
  | some (_, s) =>
    let tab := table s.recs
    let pre := [tg "n1" [Sexp.ofNat s.σ.n], tg "queue" (s.cs.map encConstraint),
                tg "gdiags" (s.diags.map fun d => .atom d.name), tg "pre" (tab.map encRec)]
    match solve c.G.env FUEL s.σ s.cs with
    | .noFuel => tg "result" (pre ++ [tg "nofuel" []])
    | .noRounds => tg "result" (pre ++ [tg "norounds" []])
    | .done σ' sd rest =>
      let vars := mapO (fun i => normF FUEL σ' (.tvar (c.n0 + i))) (List.range (σ'.n - c.n0))
      match vars with
      | none => tg "result" (pre ++ [tg "cyclic" []])
      | some vs =>
        let fin := tab.map fun p => .list [Sexp.ofNat p.1, tyOr (substF FUEL σ' p.2)]
        tg "result" (pre ++ [tg "sdiags" (sd.map fun d => .atom d.name), tg "rest" (rest.map encConstraint),
                             tg "n2" [Sexp.ofNat σ'.n], tg "vars" (vs.map encTy), tg "final" fin])

/-! ### Stage-3 oracle: the declarative judgement evaluated on the REAL final types (no model of inference) -/

def lookupT (tab : List (Nat × Ty)) (i : Nat) : Option Ty := lookupScope i tab

/-- a pattern annotated from the type it is matched against -/
partial def annotPat : IPat → Ty → TPat
  | .var x, vty => .var x vty
  | .wild, vty => .wild vty
  | .unit, _ => .lit .unit .unit
  | .bool, _ => .lit .bool .bool
  | .int, vty => .lit (if isIntegerTy vty then vty else .int 32 true) vty
  | .str, _ => .lit .string .string
  | .tint k, _ => .lit k k
  | .constr _ ps, vty => .constr (ps.map fun p => annotPat p .unit) vty
  | .tuple ps, vty =>
    let tys := match vty with
      | .tuple tys => if tys.length = ps.length then tys else ps.map fun _ => Ty.unit
      | _ => ps.map fun _ => Ty.unit
    let tps := (ps.zip tys).map fun (p, t) => annotPat p t
    .tuple tps (.tuple (ptysOf tps))

def idOf : IExpr → Nat
  | .lit i _ | .name i _ | .tuple i _ | .closure i _ _ | .letE i _ _ _ | .block i _ | .ite i _ _ _ | .while i _ _
  | .call i _ _ | .un i _ _ | .bin i _ _ _ | .proj i _ _ | .field i _ _ | .matchE i _ _ => i
  | .mcall i _ _ _ _ | .scall i _ _ _ _ | .array i _ | .constr i _ _ | .slit i _ _ _ => i

mutual
/-- the tree of the body with the REAL final type of every node (`none`: a node without a recorded type) -/
partial def annot (tab : List (Nat × Ty)) : IExpr → Option TExpr
  | .lit i _ => do pure (.prim (← lookupT tab i))
  | .name i r => do
      let ty ← lookupT tab i
      match r with
      | .loc x => pure (.lvar x ty)
      | .defn h => pure (.gvar h ty)
      | .unres (some h) => pure (.gvar h ty)
      | _ => pure (.err ty)
  | .tuple i items => do pure (.tuple (← optMapM (annot tab) items) (← lookupT tab i))
  | .closure i params body => do
      let ty ← lookupT tab i
      let pts := match ty with
        | .func ps _ => if ps.length = params.length then ps else []
        | _ => []
      if pts.length ≠ params.length then none
      pure (.closure ((params.map (·.1)).zip pts) (← annot tab body) ty)
  | .letE _ p ann v => do
      let tv ← annot tab v
      let vty := ann.getD tv.ty
      pure (.letE (annotPat p vty) vty tv)
  | .block i es => do
      if es.isEmpty then pure (.prim (← lookupT tab i))
      else pure (.block (← optMapM (annot tab) es) (← lookupT tab i))
  | .ite i c t e => do pure (.ite (← annot tab c) (← annot tab t) (← annot tab e) (← lookupT tab i))
  | .while _ c b => do pure (.while (← annot tab c) (← annot tab b))
  | .call i f args => do pure (.call (← annot tab f) (← optMapM (annot tab) args) (← lookupT tab i))
  | .un i op e => do pure (.un op (← annot tab e) (← lookupT tab i))
  | .bin i op l r => do pure (.bin op (← annot tab l) (← annot tab r) (← lookupT tab i))
  | .proj i e k => do pure (.proj (← annot tab e) k (← lookupT tab i))
  | .field i e f => do pure (.field (← annot tab e) f (← lookupT tab i))
  | .mcall _ _ _ _ _ => none
  | .scall _ _ _ _ _ => none
  | .array _ _ => none
  | .constr _ _ _ => none
  | .slit _ _ _ _ => none
  | .matchE i sc arms => do
      let ts ← annot tab sc
      pure (.matchE ts (← optMapM (annotArm tab ts.ty) arms) (← lookupT tab i))
partial def annotArm (tab : List (Nat × Ty)) (sty : Ty) : IArm → Option TArm
  | .mk p b => do pure (.mk (annotPat p sty) (← annot tab b))
end

def oblName : Obl → String
  | .rel _ _ => "rel" | .same _ _ => "same" | .bound _ _ => "bound" | .inst _ _ => "inst"
  | .projOk _ _ _ => "proj" | .fld _ _ _ => "field" | .bad => "error-node"

def encObl : Obl → Sexp
  | .rel a b => tg "rel" [encTy a, encTy b]
  | .same a b => tg "same" [encTy a, encTy b]
  | .bound x t => tg "bound" [Sexp.ofNat x, encTy t]
  | .inst n t => tg "inst" [.atom n, encTy t]
  | .projOk a i t => tg "proj" [encTy a, Sexp.ofNat i, encTy t]
  | .fld a f t => tg "field" [encTy a, .atom f, encTy t]
  | .bad => tg "error-node" []

/-- an obligation on final types: `inst` = an instance of the signature by matching; a field access =
the struct table instantiated at the type arguments -/
def checkReal (E : Unify.Env) (bs : List (Nat × Ty)) (funs : List (String × Ty)) : Obl → Bool
  | .inst n ty => match lookupAssoc n funs with
    | some sch => Wt.instOf sch ty
    | none => false
  | .fld e f r => match decomposeStruct e with
    | some (name, args) =>
      match (resolveTypeName E name).2.find? (fun sd => sd.name == (resolveTypeName E name).1) with
      | some sd => match instantiateField sd args f with
        | .ok fty => Match.tyEqB fty r
        | .error _ => false
      | none => false
    | none => false
  | o => checkB Match.tyEqB bs funs o

mutual
partial def hasTVar : Ty → Bool
  | .tvar _ => true
  | .tuple ts => ts.any hasTVar
  | .app t args => hasTVar t || args.any hasTVar
  | .array _ e => hasTVar e
  | .vec e => hasTVar e
  | .ref e => hasTVar e
  | .func ps r => ps.any hasTVar || hasTVar r
  | _ => false
end

/-- `(realwt ok)` / `(realwt (fail OBL…))` / `(realwt untyped)` -/
def realWt (c : Case) (final : List (Nat × Ty)) : Sexp :=
  match annot final c.body with
  | none => tg "realwt" [.atom "untyped"]
  | some t =>
    let bs := c.params ++ binders t
    let os := obls t ++ [.rel t.ty c.ret]
    let bad := os.filter fun o => !checkReal c.G.env bs c.G.funs o
    let unres := final.any fun p => hasTVar p.2
    if bad.isEmpty && !unres then tg "realwt" [.atom "ok"]
    else tg "realwt" [tg "fail" ((bad.take 3).map encObl ++ (if unres then [.atom "unresolved-variable"] else []))]

def decRecs : Sexp → Option (List (Nat × Ty))
  | .list (.atom "final" :: rs) => optMapM (fun r => match r with
      | .list [i, t] => do pure (← i.nat?, ← decTy t)
      | _ => none) rs
  | _ => none

/-- the certificate of `infer_sound_partial` evaluated on the model's own run -/
def certOf (c : Case) : Sexp :=
  match genFn c.G c.params c.ret c.body { Store.empty with n := c.n0 } with
  | none => tg "cert" [.atom "stuck"]
  | some (t, s) =>
    let os := obls t ++ [.rel t.ty c.ret]
    let nofield := os.all fun o => match o with | .fld _ _ _ => false | _ => true
    let noerr := os.all fun o => match o with | .bad => false | _ => true
    if !nofield then tg "cert" [.atom "field"]
    else if !noerr then tg "cert" [.atom "error-node"]
    else tg "cert" [.atom (if justB s.cs (c.params ++ binders t) c.G.funs os then "true" else "false")]

def runLine (l : String) : String :=
  let (id, rest) := splitTab l
  let (inp, fin) := splitTab rest
  match Sexp.parse inp with
  | some sx =>
    match decCase sx with
    | some c =>
      let base := s!"{id}\t{runCase c}\t{certOf c}"
      if fin.isEmpty then base
      else match (Sexp.parse fin).bind decRecs with
        | some final => s!"{base}\t{realWt c final}"
        | none => s!"{base}\t(realwt decode-error)"
    | none => s!"{id}\tdecode-error"
  | none => s!"{id}\tparse-error"

def main : IO Unit := do
  let stdin ← IO.getStdin
  forEachLine stdin fun l => IO.println (runLine l)

end Goml.Driver.Infer
