import GomlVerif.Model.Infer
import GomlVerif.Driver.Solve
/-! driver for the model of the typer's constraint generation: lines `id<TAB>(fn NAME (n0 K) (params …) (ret ty)
(funs …) (env …) (body EXPR))` are answered with `id<TAB>(result …)` in the format of `harness/src/infer.rs`
(`gv infer`) -/
namespace Goml.Driver.Infer
open Goml Goml.Unify Goml.Infer Goml.Driver.Unify Goml.Driver.Solve

private def tg (t : String) (xs : List Sexp) : Sexp := .list (.atom t :: xs)

def decBinOp : String → Option BinOp
  | "lesseq" => some .lessEq | "greatereq" => some .greaterEq | "noteq" => some .notEq
  | s => decBin s

partial def decPat : Sexp → Option IPat
  | .list [.atom "pvar", x] => do pure (.var (← x.nat?))
  | .list [.atom "pwild"] => some .wild
  | .list [.atom "punit"] => some .unit
  | .list [.atom "pbool"] => some .bool
  | .list [.atom "pint"] => some .int
  | .list [.atom "pstr"] => some .str
  | .list (.atom "ptuple" :: ps) => do pure (.tuple (← optMapM decPat ps))
  | _ => none

def decName : Sexp → Option NameRes
  | .list [.atom "local", x] => do pure (.loc (← x.nat?))
  | .list [.atom "def", .atom h] => some (.defn h)
  | .list [.atom "builtin", .atom h] => some (.builtin h)
  | .list [.atom "unres", .atom n] => some (.unres (some n))
  | .list [.atom "unres"] => some (.unres none)
  | _ => none

def decCParam : Sexp → Option (Nat × Option Ty)
  | .list [x] => do pure (← x.nat?, none)
  | .list [x, t] => do pure (← x.nat?, some (← decTy t))
  | _ => none

mutual
partial def decE : Sexp → Option IExpr
  | .list [.atom "lit", i, t] => do pure (.lit (← i.nat?) (← decTy t))
  | .list [.atom "name", i, r] => do pure (.name (← i.nat?) (← decName r))
  | .list (.atom "tuple" :: i :: es) => do pure (.tuple (← i.nat?) (← optMapM decE es))
  | .list [.atom "closure", i, .list (.atom "params" :: ps), b] => do
      pure (.closure (← i.nat?) (← optMapM decCParam ps) (← decE b))
  | .list [.atom "let", i, p, .list [.atom "ann", t], v] => do
      pure (.letE (← i.nat?) (← decPat p) (some (← decTy t)) (← decE v))
  | .list [.atom "let", i, p, .list [.atom "noann"], v] => do
      pure (.letE (← i.nat?) (← decPat p) none (← decE v))
  | .list (.atom "block" :: i :: es) => do pure (.block (← i.nat?) (← optMapM decE es))
  | .list [.atom "if", i, c, t, e] => do pure (.ite (← i.nat?) (← decE c) (← decE t) (← decE e))
  | .list [.atom "while", i, c, b] => do pure (.while (← i.nat?) (← decE c) (← decE b))
  | .list (.atom "call" :: i :: f :: args) => do pure (.call (← i.nat?) (← decE f) (← optMapM decE args))
  | .list [.atom "un", i, .atom op, e] => do pure (.un (← i.nat?) (← decUn op) (← decE e))
  | .list [.atom "bin", i, .atom op, l, r] => do pure (.bin (← i.nat?) (← decBinOp op) (← decE l) (← decE r))
  | .list [.atom "proj", i, e, k] => do pure (.proj (← i.nat?) (← decE e) (← k.nat?))
  | .list [.atom "field", i, e, .atom f] => do pure (.field (← i.nat?) (← decE e) f)
  | .list (.atom "match" :: i :: sc :: arms) => do pure (.matchE (← i.nat?) (← decE sc) (← optMapM decArm arms))
  | _ => none
partial def decArm : Sexp → Option IArm
  | .list [.atom "arm", p, b] => do pure (.mk (← decPat p) (← decE b))
  | _ => none
end

def decParam : Sexp → Option (Nat × Ty)
  | .list [x, t] => do pure (← x.nat?, ← decTy t)
  | _ => none

def decFun : Sexp → Option (String × Ty)
  | .list [.atom n, t] => do pure (n, ← decTy t)
  | _ => none

structure Case where
  n0 : Nat
  params : List (Nat × Ty)
  ret : Ty
  G : GEnv
  body : IExpr

def decCase : Sexp → Option Case
  | .list [.atom "fn", _, .list [.atom "n0", k], .list (.atom "params" :: ps), .list [.atom "ret", r],
           .list (.atom "funs" :: fs), env, .list [.atom "body", b]] => do
      pure { n0 := ← k.nat?, params := ← optMapM decParam ps, ret := ← decTy r,
             G := { funs := ← optMapM decFun fs, env := ← decEnv env }, body := ← decE b }
  | _ => none

/-- the table `results.expr_tys`: last write wins; kept sorted by id -/
def insertRec (i : Nat) (t : Ty) : List (Nat × Ty) → List (Nat × Ty)
  | [] => [(i, t)]
  | (j, u) :: rest => if i < j then (i, t) :: (j, u) :: rest else if i = j then (i, t) :: rest else (j, u) :: insertRec i t rest

def table (recs : List (Nat × Ty)) : List (Nat × Ty) := recs.foldl (fun acc p => insertRec p.1 p.2 acc) []

def encRec (p : Nat × Ty) : Sexp := .list [Sexp.ofNat p.1, encTy p.2]

def runCase (c : Case) : Sexp :=
  let σ0 : Store := { Store.empty with n := c.n0 }
  match genFn c.G c.params c.ret c.body σ0 with
  | none => tg "result" [tg "stuck" []]
  | some (_, s) =>
    let tab := table s.recs
    let pre := [tg "n1" [Sexp.ofNat s.σ.n], tg "queue" (s.cs.map encConstraint),
                tg "gdiags" (s.diags.map fun d => .atom d.name), tg "pre" (tab.map encRec)]
    match solve c.G.env FUEL s.σ s.cs with
    | .noFuel => tg "result" (pre ++ [tg "nofuel" []])
    | .noRounds => tg "result" (pre ++ [tg "norounds" []])
    | .done σ' sd rest =>
      let vars := mapO (fun i => normF FUEL σ' (.tvar (c.n0 + i))) (List.range (σ'.n - c.n0))
      match vars with
      | none => tg "result" (pre ++ [tg "cyclic" []])
      | some vs =>
        let fin := tab.map fun p => .list [Sexp.ofNat p.1, tyOr (substF FUEL σ' p.2)]
        tg "result" (pre ++ [tg "sdiags" (sd.map fun d => .atom d.name), tg "rest" (rest.map encConstraint),
                             tg "n2" [Sexp.ofNat σ'.n], tg "vars" (vs.map encTy), tg "final" fin])

def runLine (l : String) : String :=
  let (id, rest) := splitTab l
  match Sexp.parse rest with
  | some sx =>
    match decCase sx with
    | some c => s!"{id}\t{runCase c}"
    | none => s!"{id}\tdecode-error"
  | none => s!"{id}\tparse-error"

def main : IO Unit := do
  let stdin ← IO.getStdin
  forEachLine stdin fun l => IO.println (runLine l)

end Goml.Driver.Infer
