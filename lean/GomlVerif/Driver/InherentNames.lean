import GomlVerif.Model.Syntax
import GomlVerif.Driver.Common
/-!
Core-level meaning of the name of an inherent method call (driver-side, used before a dumped IR
program is run under `Sem`, which looks functions up by name).

compile_match.rs names the callee of `recv.m(…)` / `Type::m(…)` after the *receiver type at the call
site*: `inherent#Base#<receiver type>#m`.  The typer (`TraitEnv::lookup_inherent_method`) resolved the
call to the impl block for exactly that receiver type when there is one (`impl Cell[int32]`), and
otherwise to the generic impl of the base type (`impl[T] Cell[T]`, whose functions are named
`inherent#Cell#Cell[T]#m`).  So a call-site name that is defined means that definition, and one that
is not means the generic definition with the same base type and method.  This is written here from
the typer's rule, independently of `Model/Mono.lean` and of mono.rs.
-/
namespace Goml.Driver
open Goml

mutual
/-- rename function references (driver-side helper for running Core under `Sem`) -/
partial def mapVars (f : String → String) : Expr → Expr
  | .var x t => .var (f x) t
  | .prim p => .prim p
  | .tag i t => .tag i t
  | .constr c t args => .constr c t (args.map (mapVars f))
  | .tuple t items => .tuple t (items.map (mapVars f))
  | .array t items => .array t (items.map (mapVars f))
  | .closure t ps b => .closure t ps (mapVars f b)
  | .letE x v b => .letE x (mapVars f v) (mapVars f b)
  | .matchE t s arms d => .matchE t (mapVars f s) (arms.map fun | .mk l b => .mk (mapVars f l) (mapVars f b)) (d.map (mapVars f))
  | .ite c t e => .ite (mapVars f c) (mapVars f t) (mapVars f e)
  | .while c b => .while (mapVars f c) (mapVars f b)
  | .go e => .go (mapVars f e)
  | .cget c i t e => .cget c i t (mapVars f e)
  | .un op t e => .un op t (mapVars f e)
  | .bin op t l r => .bin op t (mapVars f l) (mapVars f r)
  | .call t g args => .call t (mapVars f g) (args.map (mapVars f))
  | .toDyn tr ft t e => .toDyn tr ft t (mapVars f e)
  | .dynCall tr m t r args => .dynCall tr m t (mapVars f r) (args.map (mapVars f))
  | .traitCall tr m t r args => .traitCall tr m t (mapVars f r) (args.map (mapVars f))
  | .proj i t e => .proj i t (mapVars f e)
end

/-- `inherent#Base#Type#method` ↦ `(Base, method)` -/
def inherentParts (n : String) : Option (String × String) :=
  match n.splitOn "#" with
  | ["inherent", base, _ty, m] => some (base, m)
  | _ => none

/-- the generic impl function of `(base, method)`: a function with type parameters whose name has these parts -/
def genericInherent (fns : List Fn) (base m : String) : Option Fn :=
  (fns.filter fun f => !f.generics.isEmpty && inherentParts f.name == some (base, m)).getLast?

/-- exact definition first, generic impl of the base type otherwise (`lookup_inherent_method`) -/
def resolveInherent (P : Prog) : Prog :=
  let defined := P.fns.map (·.name)
  let f (x : String) : String :=
    if defined.contains x then x
    else match inherentParts x with
      | some (b, m) => match genericInherent P.fns b m with
        | some g => g.name
        | none => x
      | none => x
  { P with fns := P.fns.map fun fn => { fn with body := mapVars f fn.body } }

end Goml.Driver
