import GomlVerif.Model.Lower
import GomlVerif.Driver.Common
/-! driver for the CST→AST lowering tie.
`id<TAB>cst` → `id<TAB>(ok <file>)|(none) (diags …)<TAB>flags` — the same shape `gv lower` prints for the real
`ast::lower::lower`; the file is printed exactly as `harness/src/astdump.rs` prints an `ast::File`. -/
namespace Goml.Driver.Lower
open Goml Goml.Src Goml.Lower

partial def decCst : Sexp → Option Cst
  | .list (.atom "n" :: .atom k :: cs) => do pure (.node k (← optMapM decCst cs))
  | .list [.atom "t", .atom k, .atom text] => some (.tok k text none)
  | .list [.atom "t", .atom k, .atom text, .atom "err"] => some (.tok k text none)
  | .list [.atom "t", .atom k, .atom text, .atom dbg, bits] => do pure (.tok k text (some (dbg, ← bits.nat?)))
  | _ => none

def tagged (t : String) (xs : List Sexp) : Sexp := .list (.atom t :: xs)
def sopt : Option Sexp → Sexp
  | some s => tagged "some" [s]
  | none => tagged "none" []
def spath (p : List String) : Sexp := tagged "path" (p.map .atom)

partial def sTy : TyE → Sexp
  | .unit => .atom "unit" | .bool => .atom "bool" | .string => .atom "string"
  | .int b s => .atom ((if s then "i" else "u") ++ toString b)
  | .float b => .atom ("f" ++ toString b)
  | .tuple ts => tagged "tuple" (ts.map sTy)
  | .con p => tagged "con" (p.map .atom)
  | .dyn p => tagged "dyn" (p.map .atom)
  | .app t args => tagged "app" (sTy t :: args.map sTy)
  | .array n e => tagged "array" [.atom (toString n), sTy e]
  | .func ps r => tagged "fnty" [.list (ps.map sTy), sTy r]

def sSuffix : Option (Nat × Bool) → Sexp
  | none => .atom "none"
  | some (b, s) => .atom ((if s then "i" else "u") ++ toString b)

partial def sPat : Pat → Sexp
  | .var x => tagged "pvar" [.atom x]
  | .wild => tagged "pwild" []
  | .lit .unit => tagged "punit" []
  | .lit (.bool b) => tagged "pbool" [.atom (if b then "true" else "false")]
  | .lit (.int sfx text) => tagged "pint" [sSuffix sfx, .atom text]
  | .lit (.str s) => tagged "pstr" [.atom s]
  | .lit (.float _ _ _) => tagged "pfloat" []
  | .constr p args => tagged "pconstr" (spath p :: args.map sPat)
  | .struct p fields => tagged "pstruct" (spath p :: fields.map fun f => .list [.atom f.name, sPat f.pat])
  | .tuple ps => tagged "ptuple" (ps.map sPat)

def unName : UnOp → String
  | .neg => "neg" | .not => "not"
def binName : BinOp → String
  | .add => "add" | .sub => "sub" | .mul => "mul" | .div => "div" | .and => "and" | .or => "or"
  | .less => "less" | .greater => "greater" | .lessEq => "less_eq" | .greaterEq => "greater_eq"
  | .eq => "eq" | .notEq => "not_eq"

partial def sExpr : Expr → Sexp
  | .path p => spath p
  | .lit .unit => tagged "unit" []
  | .lit (.bool b) => tagged "bool" [.atom (if b then "true" else "false")]
  | .lit (.int sfx text) => tagged "int" [sSuffix sfx, .atom text]
  | .lit (.float sfx text bits) =>
    tagged "float" [.atom (match sfx with | none => "none" | some b => "f" ++ toString b), .atom text, .atom (toString bits.toNat)]
  | .lit (.str s) => tagged "str" [.atom s]
  | .constr p args => tagged "constr" (spath p :: args.map sExpr)
  | .structLit p fields => tagged "structlit" (spath p :: fields.map fun f => .list [.atom f.name, sExpr f.expr])
  | .tuple items => tagged "tuple" (items.map sExpr)
  | .array items => tagged "array" (items.map sExpr)
  | .letE p ann v => tagged "let" [sPat p, sopt (ann.map sTy), sExpr v]
  | .closure ps body => tagged "closure" [.list (ps.map fun (x, t) => .list [.atom x, sopt (t.map sTy)]), sExpr body]
  | .matchE s arms => tagged "match" (sExpr s :: arms.map fun | .mk p b => tagged "arm" [sPat p, sExpr b])
  | .ite c t e => tagged "if" [sExpr c, sExpr t, sExpr e]
  | .while c b => tagged "while" [sExpr c, sExpr b]
  | .go e => tagged "go" [sExpr e]
  | .call f args => tagged "call" (sExpr f :: args.map sExpr)
  | .un op e => tagged "un" [.atom (unName op), sExpr e]
  | .bin op l r => tagged "bin" [.atom (binName op), sExpr l, sExpr r]
  | .proj e i => tagged "proj" [sExpr e, .atom (toString i)]
  | .field e x => tagged "field" [sExpr e, .atom x]
  | .block es => tagged "block" (es.map sExpr)

def sParams (ps : List (String × TyE)) : Sexp := tagged "params" (ps.map fun (x, t) => .list [.atom x, sTy t])
def sAttrs (xs : List String) : Sexp := tagged "attrs" (xs.map .atom)
def sIdents (t : String) (xs : List String) : Sexp := tagged t (xs.map .atom)

def sFn (f : FnDef) : Sexp :=
  tagged "fn" [.atom f.name, sAttrs f.attrs, sIdents "generics" f.generics,
    tagged "bounds" (f.bounds.map fun (g, bs) => .list (.atom g :: bs.map spath)),
    sParams f.params, sopt (f.ret.map sTy), sExpr f.body]

def sItem : Item → Sexp
  | .fn f => sFn f
  | .enum d => tagged "enum" [.atom d.name, sAttrs d.attrs, sIdents "generics" d.generics,
      tagged "variants" (d.variants.map fun (v, ts) => .list (.atom v :: ts.map sTy))]
  | .struct d => tagged "struct" [.atom d.name, sAttrs d.attrs, sIdents "generics" d.generics,
      tagged "fields" (d.fields.map fun (f, t) => .list [.atom f, sTy t])]
  | .trait d => tagged "trait" [.atom d.name, sAttrs d.attrs,
      tagged "sigs" (d.sigs.map fun (m, ps, r) => .list [.atom m, .list (ps.map sTy), sTy r])]
  | .impl b => tagged "impl" [sAttrs b.attrs, sIdents "generics" b.generics, sopt (b.traitName.map spath), sTy b.forTy,
      tagged "methods" (b.methods.map sFn)]
  | .extern x =>
    if x.kind == "go" then
      tagged "externgo" [.atom x.goPackage, .atom x.goSymbol, .atom x.name,
        .atom (if x.explicitSymbol then "true" else "false"), sParams x.params, sopt (x.ret.map sTy)]
    else tagged "externbuiltin" [.atom x.name, sParams x.params, sopt (x.ret.map sTy)]
  | .externType name => tagged "externtype" [.atom name]

def sFile (f : File) : Sexp :=
  tagged "file" (tagged "package" [.atom f.package] :: sIdents "imports" f.imports :: f.items.map sItem)

def runLine (l : String) : String :=
  let (id, arg) := splitTab l
  match Sexp.parse arg >>= decCst with
  | none => s!"{id}\tdecode-error"
  | some c =>
    let r := lowerFile c
    let head := match r.ast with
      | some f => tagged "ok" [sFile f]
      | none => tagged "none" []
    let flags := s!"stuck={r.st.stuck} starved={r.st.starved} locals={r.st.locals.length}"
    s!"{id}\t{head} {tagged "diags" (r.st.diags.map .atom)}\t{flags}"

def main : IO Unit := do
  let stdin ← IO.getStdin
  forEachLine stdin fun l => IO.println (runLine l)

end Goml.Driver.Lower
