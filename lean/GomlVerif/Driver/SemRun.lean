import GomlVerif.Model.Sem
import GomlVerif.Driver.DecSyntax
import GomlVerif.Model.GoSem
import GomlVerif.Driver.DecGo
import GomlVerif.Driver.InherentNames
/-! `gomlmodel sem`: run a dumped IR program under `Sem`; prints status and escaped stdout -/
namespace Goml.Driver.SemRun
open Goml Goml.Sem

def escOut (s : String) : String :=
  s.foldl (fun acc c =>
    if c == '\\' then acc ++ "\\\\" else if c == '\n' then acc ++ "\\n"
    else if c == '\t' then acc ++ "\\t" else if c == '\r' then acc ++ "\\r" else acc.push c) ""

def runLine (fuel : Nat) (l : String) (capPolicy : Nat := 0) (eager : Bool := true) : String :=
  let (id, rest) := splitTab l
  match Sexp.parse rest with
  | some sx =>
    match sx with
    | .list (.atom "gofile" :: _) =>
      match decGFile sx with
      | some F =>
        let o := Goml.Go.runGo fuel F "main" eager capPolicy
        s!"{id}\t{o.status}\t{escOut o.out}\t{" ".intercalate o.externs}"
      | none => s!"{id}\tdecode-error\t\t"
    | _ =>
    match decProg sx with
    | some P =>
      -- call-site names of inherent methods of generic impls are mapped to their definition (Core only; a no-op later)
      let o := run fuel (resolveInherent P) (eager := eager)
      s!"{id}\t{o.status}\t{escOut o.out}\t{" ".intercalate o.externs}"
    | none => s!"{id}\tdecode-error\t\t"
  | none => s!"{id}\tparse-error\t\t"

def main : IO Unit := do
  let stdin ← IO.getStdin
  let fuel := (← IO.getEnv "GV_FUEL").bind String.toNat? |>.getD 20000000
  let cap := (← IO.getEnv "GV_CAP").bind String.toNat? |>.getD 0
  -- schedule for `go`: GV_EAGER=0 never runs a spawned activation (the spawner finishes first)
  let eager := (← IO.getEnv "GV_EAGER") != some "0"
  forEachLine stdin fun l => IO.println (runLine fuel l cap eager)

end Goml.Driver.SemRun
