import GomlVerif.Model.Solve
import GomlVerif.Driver.Unify
/-! driver for the model of `Typer::solve`: lines `#ENV<TAB>name<TAB>(env …)` register an environment,
lines `id<TAB>(script envname (fresh n) (constraints …))` are answered with `id<TAB>(result …)` in the
format of `harness/src/solve.rs` (`gv solve`) -/
namespace Goml.Driver.Solve
open Goml Goml.Unify Goml.Driver.Unify

private def tg (t : String) (xs : List Sexp) : Sexp := .list (.atom t :: xs)

def decField : Sexp → Option (String × Ty)
  | .list [.atom n, t] => do pure (n, ← decTy t)
  | _ => none

def decStructDef : Sexp → Option Unify.StructDef
  | .list [.atom "struct", .atom n, .list (.atom "generics" :: gs), .list (.atom "fields" :: fs)] => do
      pure ({ name := n, generics := ← optMapM Sexp.str? gs, fields := ← optMapM decField fs } : Unify.StructDef)
  | _ => none

def decImpl : Sexp → Option (String × Ty × String × Ty)
  | .list [.atom "impl", .atom tr, self, .atom m, ty] => do pure (tr, ← decTy self, m, ← decTy ty)
  | _ => none

def decDep : Sexp → Option (String × List Unify.StructDef)
  | .list [.atom "dep", .atom n, .list (.atom "structs" :: ss)] => do pure (n, ← optMapM decStructDef ss)
  | _ => none

def decEnv : Sexp → Option Env
  | .list [.atom "env", .list (.atom "structs" :: ss), .list (.atom "impls" :: is)] => do
      pure { structs := ← optMapM decStructDef ss, impls := ← optMapM decImpl is }
  | .list [.atom "env", .list (.atom "structs" :: ss), .list (.atom "impls" :: is), .list (.atom "deps" :: ds)] => do
      pure { structs := ← optMapM decStructDef ss, impls := ← optMapM decImpl is, deps := ← optMapM decDep ds }
  | _ => none

def decConstraint : Sexp → Option Constraint
  | .list [.atom "eq", l, r] => do pure (.eq (← decTy l) (← decTy r))
  | .list [.atom "ovl", .atom op, .atom tr, t] => do pure (.ovl op tr (← decTy t))
  | .list [.atom "field", e, .atom f, r] => do pure (.field (← decTy e) f (← decTy r))
  | _ => none

def encConstraint : Constraint → Sexp
  | .eq l r => tg "eq" [encTy l, encTy r]
  | .ovl op tr t => tg "ovl" [.atom op, .atom tr, encTy t]
  | .field e f r => tg "field" [encTy e, .atom f, encTy r]

def runScript (E : Env) (n : Nat) (cs : List Constraint) : Sexp :=
  let σ0 := (List.range n).foldl (fun s _ => s.fresh) Store.empty
  match solve E FUEL σ0 cs with
  | .noFuel => tg "result" [tg "nofuel" []]
  | .noRounds => tg "result" [tg "norounds" []]
  | .done σ diags rest =>
    let ds := tg "diags" (diags.map fun d => .atom d.name)
    match varsNF σ with
    | none => tg "result" [ds, tg "cyclic" [Sexp.ofNat 0]]
    | some nfs => tg "result" [ds, tg "rest" (rest.map encConstraint), tg "nvars" [Sexp.ofNat σ.n], tg "vars" (nfs.map encTy)]

def runLine (envs : List (String × Env)) (l : String) : String :=
  let (id, rest) := splitTab l
  match Sexp.parse rest with
  | some (.list [.atom "script", .atom en, .list [.atom "fresh", k], .list (.atom "constraints" :: cs)]) =>
    match envs.find? (·.1 == en), optMapM decConstraint cs with
    | some (_, E), some cs => s!"{id}\t{runScript E (k.nat?.getD 0) cs}"
    | none, _ => s!"{id}\tunknown-env"
    | _, none => s!"{id}\tdecode-error"
  | _ => s!"{id}\tparse-error"

def main : IO Unit := do
  let stdin ← IO.getStdin
  let envs ← IO.mkRef ([] : List (String × Env))
  forEachLine stdin fun l => do
    let (id, rest) := splitTab l
    if id == "#ENV" then
      let (name, e) := splitTab rest
      match (Sexp.parse e).bind decEnv with
      | some E => envs.modify (· ++ [(name, E)])
      | none => IO.println s!"#ENV\t{name}\tdecode-error"
    else
      IO.println (runLine (← envs.get) l)

end Goml.Driver.Solve
