import GomlVerif.Model.SrcSem
import GomlVerif.Driver.DecSrc
import GomlVerif.Driver.SemRun
/-! `gomlmodel srcsem`: run a dumped SURFACE program (`(srcprog …)`) under `Src.run`;
    prints `id<TAB>status<TAB>escaped stdout<TAB>extern events` like `gomlmodel sem` -/
namespace Goml.Driver.SrcRun
open Goml Goml.Driver

def runLine (fuel : Nat) (l : String) (litDecl : Bool := false) : String :=
  let (id, rest) := splitTab l
  match Sexp.parse rest with
  | some sx =>
    match DecSrc.decProg sx with
    | some P =>
      let o := Src.run fuel P "main" true litDecl
      s!"{id}\t{o.status}\t{SemRun.escOut o.out}\t{" ".intercalate o.externs}"
    | none => s!"{id}\tdecode-error\t\t"
  | none => s!"{id}\tparse-error\t\t"

def main : IO Unit := do
  let stdin ← IO.getStdin
  let fuel := (← IO.getEnv "GV_FUEL").bind String.toNat? |>.getD 20000000
  -- GV_SRC_LITORDER=decl: the `litDeclOrder` semantics parameter (attribution runs only)
  let litDecl := (← IO.getEnv "GV_SRC_LITORDER") == some "decl"
  forEachLine stdin fun l => IO.println (runLine fuel l litDecl)

end Goml.Driver.SrcRun
