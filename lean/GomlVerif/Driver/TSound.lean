import GomlVerif.Model.ValTy
import GomlVerif.Model.C03presSig
import GomlVerif.Driver.DecSyntax
import GomlVerif.Driver.C03
import GomlVerif.Driver.C01pipe
import GomlVerif.Driver.InherentNames
/-!
`gomlmodel tsound`: type soundness of `Sem` on REAL Core dumps (C03 / C07 / C01).

Input line: `id<TAB>(prog core)<TAB>(genv (enums …) (structs …))<TAB>(builtins …)<TAB>(traits …)`.
Output: `id<TAB>wt|ill<TAB>FRAG-IN|FRAG-OUT<TAB>why<TAB>concrete sites<TAB>of those dispatchOk<TAB>other sites<TAB>`
`status of Sem.run<TAB>status of the KEY-CHECKED run<TAB>AGREE|DISAGREE|SKIP<TAB>static sites in Mono<TAB>status of Sem.run(mono)<TAB>`
`status of the RE-VIRTUALISED Mono run<TAB>AGREE|DISAGREE|SKIP`; the input has a sixth column `(prog mono)`.

* `FRAG-IN`: `sigClosedB S && ValTy.okProg S P true` — the hypothesis of `sem_preserves_types_store_partial` (the
  fragment with the reference builtins; `sem_preserves_types_partial` is the reference-free special case).
* the key-checked run is the oracle for `traitcall_static_dispatch` on every program, inside the fragment or
  not: every `ETraitCall` whose receiver is annotated with a concrete type `τ` is made to look its
  implementation up under the trait name `Tr@key(τ)`, and the dispatch table gets a row `(Tr@k, k, m, f)` for every
  row `(Tr, k, m, f)`; `Sem` finds the row iff the key of the RUNTIME value equals the key of the STATIC
  annotation, and is stuck with `no impl of Tr@k for k'` otherwise.  The outcome must equal the plain run's.
-/
namespace Goml.Driver.TSound
open Goml Goml.Driver Goml.ValTy Goml.Wt Goml.Mono

mutual
partial def tagE : Expr → Expr
  | .var x t => .var x t
  | .prim p => .prim p
  | .tag i t => .tag i t
  | .constr c t args => .constr c t (args.map tagE)
  | .tuple t items => .tuple t (items.map tagE)
  | .array t items => .array t (items.map tagE)
  | .closure t ps b => .closure t ps (tagE b)
  | .letE x v b => .letE x (tagE v) (tagE b)
  | .matchE t s arms d => .matchE t (tagE s) (arms.map tagA) (d.map tagE)
  | .ite c t e => .ite (tagE c) (tagE t) (tagE e)
  | .while c b => .while (tagE c) (tagE b)
  | .go e => .go (tagE e)
  | .cget c i t e => .cget c i t (tagE e)
  | .un op t e => .un op t (tagE e)
  | .bin op t l r => .bin op t (tagE l) (tagE r)
  | .call t f args => .call t (tagE f) (args.map tagE)
  | .toDyn tr ft t e => .toDyn tr ft t (tagE e)
  | .dynCall tr m t r args => .dynCall tr m t (tagE r) (args.map tagE)
  | .traitCall tr m t r args =>
    let tr' := if concreteTy (getTy r) then tr ++ "@" ++ Sem.tyKey (getTy r) else tr
    .traitCall tr' m t (tagE r) (args.map tagE)
  | .proj i t e => .proj i t (tagE e)
partial def tagA : Arm → Arm
  | .mk l b => .mk l (tagE b)
end

/-- the MONO side of the oracle: `mono.rs` has replaced every `ETraitCall` by a direct call of
    `trait_impl#Tr#ty#m`, chosen from the STATIC type.  Every such call whose callee `f` is an implementation row of the
    dispatch table is turned back into a trait call under the trait name `Tr@k`, `k` the key of the declared type of
    `f`'s first parameter: `Sem` then dispatches on the key of the RUNTIME receiver and finds `f` iff that key is `k`. -/
def revirt (I : List (String × String × String × String)) : Expr → Option Expr
  | .call t (.var f _) (r :: args) =>
    match I.find? (fun row => row.2.2.2 == f) with
    | some row => some (.traitCall row.1 row.2.2.1 t r args)
    | none => none
  | _ => none

/-- rows `(Tr@k, k, m, f)` for every function `f` of the (Mono) program that is an implementation row `(Tr, _, m, f)` and
    whose first parameter has the concrete type of key `k` -/
def staticRows (P : Prog) : List (String × String × String × String) :=
  P.impls.filterMap fun row =>
    match P.findFn row.2.2.2 with
    | some g =>
      match g.params with
      | (_, τ) :: _ => if concreteTy τ then some (row.1 ++ "@" ++ Sem.tyKey τ, Sem.tyKey τ, row.2.2.1, g.name) else none
      | [] => none
    | none => none

mutual
partial def revE (I : List (String × String × String × String)) (e : Expr) : Expr :=
  let e' := match e with
    | .constr c t args => .constr c t (args.map (revE I))
    | .tuple t items => .tuple t (items.map (revE I))
    | .array t items => .array t (items.map (revE I))
    | .closure t ps b => .closure t ps (revE I b)
    | .letE x v b => .letE x (revE I v) (revE I b)
    | .matchE t s arms d => .matchE t (revE I s) (arms.map (revA I)) (d.map (revE I))
    | .ite c t e => .ite (revE I c) (revE I t) (revE I e)
    | .while c b => .while (revE I c) (revE I b)
    | .go e => .go (revE I e)
    | .cget c i t e => .cget c i t (revE I e)
    | .un op t e => .un op t (revE I e)
    | .bin op t l r => .bin op t (revE I l) (revE I r)
    | .call t f args => .call t (revE I f) (args.map (revE I))
    | .toDyn tr ft t e => .toDyn tr ft t (revE I e)
    | .dynCall tr m t r args => .dynCall tr m t (revE I r) (args.map (revE I))
    | .traitCall tr m t r args => .traitCall tr m t (revE I r) (args.map (revE I))
    | .proj i t e => .proj i t (revE I e)
    | e => e
  (revirt I e').getD e'
partial def revA (I : List (String × String × String × String)) : Arm → Arm
  | .mk l b => .mk l (revE I b)
end

/-- number of direct calls of dispatch-table functions -/
partial def staticSites (I : List (String × String × String × String)) (e : Expr) : Nat :=
  let kids : List Expr := match e with
    | .constr _ _ as | .tuple _ as | .array _ as => as
    | .closure _ _ b => [b]
    | .letE _ v b => [v, b]
    | .matchE _ s arms d => s :: arms.map (fun | .mk _ b => b) ++ d.toList
    | .ite c t e => [c, t, e]
    | .while c b => [c, b]
    | .go e | .cget _ _ _ e | .un _ _ e | .proj _ _ e | .toDyn _ _ _ e => [e]
    | .bin _ _ l r => [l, r]
    | .call _ f as => f :: as
    | .dynCall _ _ _ r as | .traitCall _ _ _ r as => r :: as
    | _ => []
  (kids.map (staticSites I)).foldl (· + ·) (if (revirt I e).isSome then 1 else 0)

def revProg (P : Prog) : Prog :=
  let I := staticRows P
  { P with
    fns := P.fns.map (fun f => { f with body := revE I f.body })
    impls := P.impls ++ I }

def tagProg (P : Prog) : Prog :=
  { P with
    fns := P.fns.map (fun f => { f with body := tagE f.body })
    impls := P.impls ++ P.impls.map (fun r => (r.1 ++ "@" ++ r.2.1, r.2.1, r.2.2.1, r.2.2.2)) }

/-- (concrete sites, of those with `dispatchOk`, other sites) -/
partial def sites (P : Prog) : Expr → Nat × Nat × Nat
  | .traitCall tr m t r args =>
    let sub := (r :: args).foldl (fun a e => let s := sites P e; (a.1 + s.1, a.2.1 + s.2.1, a.2.2 + s.2.2)) (0, 0, 0)
    if concreteTy (getTy r) then
      (sub.1 + 1, sub.2.1 + (if dispatchOk P tr m (getTy r) (getTys args) t then 1 else 0), sub.2.2)
    else (sub.1, sub.2.1, sub.2.2 + 1)
  | e =>
    let kids : List Expr := match e with
      | .constr _ _ as | .tuple _ as | .array _ as => as
      | .closure _ _ b => [b]
      | .letE _ v b => [v, b]
      | .matchE _ s arms d => s :: arms.map (fun | .mk _ b => b) ++ d.toList
      | .ite c t e => [c, t, e]
      | .while c b => [c, b]
      | .go e | .cget _ _ _ e | .un _ _ e | .proj _ _ e | .toDyn _ _ _ e => [e]
      | .bin _ _ l r => [l, r]
      | .call _ f as => f :: as
      | .dynCall _ _ _ r as => r :: as
      | _ => []
    kids.foldl (fun a e => let s := sites P e; (a.1 + s.1, a.2.1 + s.2.1, a.2.2 + s.2.2)) (0, 0, 0)

def decBuiltins : Sexp → Option (List (String × Ty))
  | .list (.atom "builtins" :: bs) => optMapM C03.decBuiltin bs
  | _ => none

def decTraits : Sexp → Option (List TraitDef)
  | .list (.atom "traits" :: ts) => optMapM C03.decTrait ts
  | _ => none

def runLine (fuel : Nat) (l : String) : String :=
  match l.splitOn "\t" with
  | [id, core, genv, bs, ts, mono] =>
    match (Sexp.parse core).bind decProg, (Sexp.parse genv).bind C01pipe.decGenv,
          (Sexp.parse bs).bind decBuiltins, (Sexp.parse ts).bind decTraits, (Sexp.parse mono).bind decProg with
    | some P0, some (es, ss), some builtins, some traits, some M =>
      let P := resolveInherent P0
      let S : Sig := { fns := P.fns, enums := es, structs := ss, builtins := builtins, traits := traits }
      let wt := wtProg S
      let inF := sigClosedB S && okProg S P true
      let why := if inF then "" else if !sigClosedB S then "sig-not-closed" else (whyProg S P true).getD "?"
      let st := P.fns.foldl (fun a f => let s := sites P f.body; (a.1 + s.1, a.2.1 + s.2.1, a.2.2 + s.2.2)) (0, 0, 0)
      let o := Sem.run fuel P
      let o' := Sem.run fuel (tagProg P)
      let verdict :=
        if st.1 == 0 then "SKIP"
        else if o == o' then "AGREE" else "DISAGREE"
      -- Mono: static choice of `mono.rs` against the runtime key of the receiver
      let nStatic := M.fns.foldl (fun a f => a + staticSites (staticRows M) f.body) 0
      let om := Sem.run fuel M
      let om' := if nStatic == 0 then om else Sem.run fuel (revProg M)
      let mverdict :=
        if nStatic == 0 then "SKIP" else if om == om' then "AGREE" else "DISAGREE"
      s!"{id}\t{if wt then "wt" else "ill"}\t{if inF then "FRAG-IN" else "FRAG-OUT"}\t{C09.clean why}\t{st.1}\t{st.2.1}\t{st.2.2}\t{C09.clean o.status}\t{C09.clean o'.status}\t{verdict}\t{nStatic}\t{C09.clean om.status}\t{C09.clean om'.status}\t{mverdict}"
    | a, b, c, d, e => s!"{id}\tdecode-error core={a.isSome} genv={b.isSome} builtins={c.isSome} traits={d.isSome} mono={e.isSome}"
  | _ => "?\tbad-line"

def main : IO Unit := do
  let stdin ← IO.getStdin
  let fuel := (← IO.getEnv "GV_FUEL").bind String.toNat? |>.getD 2000000
  forEachLine stdin fun l => IO.println (runLine fuel l)

end Goml.Driver.TSound
