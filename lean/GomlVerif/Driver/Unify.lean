import GomlVerif.Model.Unify
import GomlVerif.Driver.DecSyntax
import GomlVerif.Driver.EncSyntax
/-! driver for the unifier model: one script per line, `id<TAB>(script (fresh n) (unify l r) (norm t) …)`;
prints `id<TAB>(result …)` in the format of `harness/src/unify.rs` (`gv unify`) -/
namespace Goml.Driver.Unify
open Goml Goml.Unify

def FUEL : Nat := 3000

private def tg (t : String) (xs : List Sexp) : Sexp := .list (.atom t :: xs)

def tyOr (o : Option Ty) : Sexp :=
  match o with
  | some t => encTy t
  | none => .atom "NOFUEL"

/-- normal forms of all variables; `none` if one of them runs out of fuel (the store is cyclic) -/
def varsNF (σ : Store) : Option (List Ty) := mapO (fun i => normF FUEL σ (.tvar i)) (List.range σ.n)

/-- runs the steps; stops after a step that leaves a cyclic store -/
def runSteps : Store → List Sexp → List Sexp → List Sexp
  | _, [], acc => acc.reverse
  | σ, s :: rest, acc =>
    match s with
    | .list [.atom "fresh", k] =>
      let σ' := (List.range (k.nat?.getD 0)).foldl (fun s _ => s.fresh) σ
      runSteps σ' rest (tg "fresh" [Sexp.ofNat σ'.n] :: acc)
    | .list [.atom "unify", l, r] =>
      match decTy l, decTy r with
      | some l, some r =>
        match unifyF FUEL σ l r with
        | none => (tg "nofuel" [] :: acc).reverse
        | some (d, σ') =>
          match varsNF σ' with
          | none => (tg "cyclic" [Sexp.ofNat 0] :: acc).reverse
          | some nfs =>
            let o := tg "unify" [
              .atom (if d.isNone then "ok" else "fail"),
              .atom (match d with | none => "none" | some d => d.name),
              Sexp.ofNat (if d.isNone then 0 else 1),
              tg "post" [tyOr (normF FUEL σ' l), tyOr (normF FUEL σ' r)],
              tg "vars" (nfs.map encTy)]
            runSteps σ' rest (o :: acc)
      | _, _ => (tg "decode-error" [] :: acc).reverse
    | .list [.atom "norm", t] =>
      match decTy t with
      | some t => runSteps σ rest (tg "norm" [tyOr (normF FUEL σ t)] :: acc)
      | none => (tg "decode-error" [] :: acc).reverse
    | _ => (tg "decode-error" [] :: acc).reverse

def runLine (l : String) : String :=
  let (id, rest) := splitTab l
  match Sexp.parse rest with
  | some (.list (.atom "script" :: steps)) => s!"{id}\t{tg "result" (runSteps Store.empty steps [])}"
  | _ => s!"{id}\tparse-error"

def main : IO Unit := do
  let stdin ← IO.getStdin
  forEachLine stdin fun l => IO.println (runLine l)

end Goml.Driver.Unify
