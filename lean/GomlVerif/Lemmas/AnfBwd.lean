import GomlVerif.Lemmas.AnfFwd
/-!
Backward simulation: whatever the ANF chain evaluates to, the source expression evaluates to as
well — unless the source expression goes wrong ("no rule" failure), which ANF may report at a
different point (an ill-typed operand is detected only after the other operands have been
named).
-/
namespace Goml.Anf
open Goml Goml.Sem

variable (P : Prog)

/-- the source expression hits a "no rule" failure -/
def Wrong (e : Expr) (ρ : Env) (w : World) : Prop := ∃ s w', Ev P e ρ w (.fail (.stuck s) w')
def WrongL (es : List Expr) (ρ : Env) (w : World) : Prop := ∃ s w', EvL P es ρ w (.fail (.stuck s) w')

theorem wrong_of_stuck {P : Prog} {e : Expr} {ρ : Env} {w : World} {y : Res Val} (h : Ev P e ρ w y) (hs : Stuck y) :
    Wrong P e ρ w := by
  cases y with
  | ok v w' => simp at hs
  | fail f w' =>
    cases f with
    | stuck s => exact ⟨s, w', h⟩
    | panic k => simp [Stuck] at hs
    | fuel => simp [Stuck] at hs

theorem and_true_res (b : Val) (w : World) :
    (∃ y, b = .bool y ∧ exceptRes (binop .and (.bool true) b) w = .ok b w) ∨
      Stuck (exceptRes (binop .and (.bool true) b) w) := by
  cases b <;> simp [binop, exceptRes]

theorem or_false_res (b : Val) (w : World) :
    (∃ y, b = .bool y ∧ exceptRes (binop .or (.bool false) b) w = .ok b w) ∨
      Stuck (exceptRes (binop .or (.bool false) b) w) := by
  cases b <;> simp [binop, exceptRes]

def BW (e : Expr) : Prop :=
  ∀ (n N : Nat) (D : List String) (ρ ρ' : Env) (w : World) (r : Res Val),
    Hyp D e n N → Agree D ρ ρ' →
    RB (EvB P (dec e n).L ρ' w) (fun ρ1 w1 => Ev P (dec e n).c ρ1 w1) r → Ev P e ρ w r ∨ Wrong P e ρ w

def BWTop (e : Expr) : Prop :=
  ∀ (n N : Nat) (D : List String) (ρ ρ' : Env) (w : World) (r : Res Val),
    Hyp D e n N → Agree D ρ ρ' → Ev P (anf e n ret).1 ρ' w r → Ev P e ρ w r ∨ Wrong P e ρ w

/-- what the operand must have evaluated to, given how its binding chain ended -/
def immRes (c : Expr) : Res Env → Res Val
  | .fail f w => .fail f w
  | .ok ρ1 w1 => .ok (atomVal ρ1 c) w1

def listRes (cs : List Expr) : Res Env → Res (List Val)
  | .fail f w => .fail f w
  | .ok ρ1 w1 => .ok (cs.map (atomVal ρ1)) w1

def BWImm (e : Expr) : Prop :=
  ∀ (n N : Nat) (D : List String) (ρ ρ' : Env) (w : World) (out : Res Env),
    frag e = true → (∀ x ∈ names e, x ∉ D) → (∀ m, n ≤ m → m < N → tmpName m ∉ names e) →
    (decImm e n).n ≤ N → Agree D ρ ρ' → EvB P (decImm e n).L ρ' w out →
    Ev P e ρ w (immRes (decImm e n).c out) ∨ Wrong P e ρ w

def BWL (es : List Expr) : Prop :=
  ∀ (n N : Nat) (D : List String) (ρ ρ' : Env) (w : World) (out : Res Env),
    HypL D es n N → Agree D ρ ρ' → EvB P (decList es n).L ρ' w out →
    EvL P es ρ w (listRes (decList es n).cs out) ∨ WrongL P es ρ w

theorem bw_top {e : Expr} (h : BW P e) : BWTop P e := by
  intro n N D ρ ρ' w r hy ha he
  rw [anf_ret] at he
  exact h n N D ρ ρ' w r hy ha (ev_wrap.1 he)

theorem bw_imm {e : Expr} (h : BW P e) : BWImm P e := by
  intro n N D ρ ρ' w out hf hd hfr hb ha he
  cases hat : isAtom e
  · rw [decImm_nonatom hat] at hb he ⊢
    simp only at hb he ⊢
    have hy : Hyp D e (n+1) N := ⟨hf, hd, fun m h1 h2 => hfr m (by omega) h2, hb⟩
    rcases evB_snoc.1 he with ⟨f, w', h1, rfl⟩ | ⟨ρ0, w0, h1, h2⟩
    · exact h (n+1) N D ρ ρ' w _ hy ha (Or.inl ⟨f, w', h1, rfl⟩)
    · rcases h2 with ⟨f, w', h3, rfl⟩ | ⟨v, w1, h3, rfl⟩
      · exact h (n+1) N D ρ ρ' w _ hy ha (Or.inr ⟨ρ0, w0, h1, h3⟩)
      · have := h (n+1) N D ρ ρ' w _ hy ha (Or.inr ⟨ρ0, w0, h1, h3⟩)
        simpa [immRes, atomVal, lookupVal_cons_self] using this
  · rw [decImm_atom hat] at he ⊢
    simp only at he ⊢
    cases he
    left
    rw [ev_atom hat]
    simp only [immRes]
    rw [atomVal_congr (ρ := ρ) (ρ' := ρ') (fun x hx => ha x (hd x hx))]

theorem wrongL_cons_head {e : Expr} {rest : List Expr} {ρ : Env} {w : World} (h : Wrong P e ρ w) :
    WrongL P (e :: rest) ρ w := by
  obtain ⟨s, w', h⟩ := h
  exact ⟨s, w', evL_cons.2 (Or.inl ⟨_, w', h, rfl⟩)⟩

theorem wrongL_cons_tail {e : Expr} {rest : List Expr} {ρ : Env} {w w1 : World} {v : Val}
    (he : Ev P e ρ w (.ok v w1)) (h : WrongL P rest ρ w1) : WrongL P (e :: rest) ρ w := by
  obtain ⟨s, w', h⟩ := h
  exact ⟨s, w', evL_cons.2 (Or.inr ⟨v, w1, he, Or.inl ⟨_, w', h, rfl⟩⟩)⟩

theorem bwL_nil : BWL P [] := by
  intro n N D ρ ρ' w out _ _ he
  cases he
  exact Or.inl (evL_nil.2 rfl)

theorem bwL_cons {e : Expr} {rest : List Expr} (he : BWImm P e) (hr : BWL P rest) : BWL P (e :: rest) := by
  intro n N D ρ ρ' w out hy ha hev
  have hyt := hypL_tail hy
  obtain ⟨hf, hd, hfr, hb⟩ := hy
  simp only [fragList, Bool.and_eq_true] at hf
  obtain ⟨⟨⟨hf1, hf2⟩, hf3⟩, hf4⟩ := hf
  have hm1 := decImm_mono e n
  have hm2 := decList_mono rest (decImm e n).n
  have hbe : (decImm e n).n ≤ N := by simp only [decList] at hb; unfold decImm at *; omega
  have hbr : (decList rest (decImm e n).n).n ≤ N := by simpa [decList, decImm] using hb
  have hde : ∀ x ∈ names e, x ∉ D := fun x hx => hd x (by simp [namesList, hx])
  have hfre : ∀ m, n ≤ m → m < N → tmpName m ∉ names e :=
    fun m h1 h2 hm => hfr m h1 h2 (by simp [namesList, hm])
  have hev' : EvB P ((decImm e n).L ++ (decList rest (decImm e n).n).L) ρ' w out := hev
  show EvL P (e :: rest) ρ w (listRes ((decImm e n).c :: (decList rest (decImm e n).n).cs) out) ∨ _
  rcases evB_append.1 hev' with ⟨f, w', h1, rfl⟩ | ⟨ρ1, w1, h1, h2⟩
  · rcases he n N D ρ ρ' w _ hf1 hde hfre hbe ha h1 with h3 | h3
    · exact Or.inl (evL_cons.2 (Or.inl ⟨f, w', h3, rfl⟩))
    · exact Or.inr (wrongL_cons_head P h3)
  · rcases he n N D ρ ρ' w _ hf1 hde hfre hbe ha h1 with h3 | h3
    · have ha1 : Agree (D ++ keys (decImm e n).L) ρ ρ1 := evB_agree h1 ha
      simp only [immRes] at h3
      rcases hr _ N _ ρ ρ1 w1 out hyt ha1 h2 with h4 | h4
      · left
        cases out with
        | fail f w' =>
          exact evL_cons.2 (Or.inr ⟨_, w1, h3, Or.inl ⟨f, w', h4, rfl⟩⟩)
        | ok ρ2 w2 =>
          simp only [listRes, List.map_cons] at h4 ⊢
          rw [atom_stable hf4 hfr hbr h2]
          exact evL_cons.2 (Or.inr ⟨_, w1, h3, Or.inr ⟨_, w2, h4, rfl⟩⟩)
      · exact Or.inr (wrongL_cons_tail P h3 h4)
    · exact Or.inr (wrongL_cons_head P h3)

/-- a node that evaluates its operands left to right and then applies `H` to their values -/
theorem bw_ops {e : Expr} {ops : List Expr} {H : List Val → World → Res Val → Prop} {mk : List Expr → Expr}
    (hL : BWL P ops)
    (hdec : ∀ n, (dec e n).L = (decList ops n).L ∧ (dec e n).c = mk (decList ops n).cs ∧ (dec e n).n = (decList ops n).n)
    (hhyp : ∀ D n N, Hyp D e n N → HypL D ops n N)
    (hsrc : ∀ ρ w r, RB (EvL P ops ρ w) H r → Ev P e ρ w r ∨ Wrong P e ρ w)
    (htgt : ∀ n ρ w r, Ev P (mk (decList ops n).cs) ρ w r → RB (EvL P (decList ops n).cs ρ w) H r) :
    BW P e := by
  intro n N D ρ ρ' w r hy ha he
  obtain ⟨hd1, hd2, _⟩ := hdec n
  rw [hd1, hd2] at he
  have hwr : WrongL P ops ρ w → Wrong P e ρ w := by
    rintro ⟨s, w', h⟩
    rcases hsrc ρ w _ (Or.inl ⟨_, w', h, rfl⟩) with h1 | h1
    · exact ⟨s, w', h1⟩
    · exact h1
  rcases he with ⟨f, w', h1, rfl⟩ | ⟨ρ1, w1, h1, h2⟩
  · rcases hL n N D ρ ρ' w _ (hhyp D n N hy) ha h1 with h3 | h3
    · exact hsrc ρ w _ (Or.inl ⟨f, w', h3, rfl⟩)
    · exact Or.inr (hwr h3)
  · rcases hL n N D ρ ρ' w _ (hhyp D n N hy) ha h1 with h3 | h3
    · simp only [listRes] at h3
      rcases htgt n ρ1 w1 r h2 with ⟨f, w', h4, _⟩ | ⟨vs, w', h4, h5⟩
      · rw [evL_atoms (decList_cs_atoms ops n)] at h4; cases h4
      · rw [evL_atoms (decList_cs_atoms ops n)] at h4; cases h4
        exact hsrc ρ w r (Or.inr ⟨_, w1, h3, h5⟩)
    · exact Or.inr (hwr h3)

/-- `while` is a congruence for the backward direction -/
theorem while_bw {c b c' b' : Expr} {ρ ρ' : Env}
    (hc : ∀ w r, Ev P c' ρ' w r → Ev P c ρ w r ∨ Wrong P c ρ w)
    (hb : ∀ w r, Ev P b' ρ' w r → Ev P b ρ w r ∨ Wrong P b ρ w) :
    ∀ w r, Ev P (.while c' b') ρ' w r → Ev P (.while c b) ρ w r ∨ Wrong P (.while c b) ρ w := by
  intro w r ⟨n, h, hnf⟩
  simp only at h
  induction n generalizing w r with
  | zero => simp only [eval_zero] at h; subst h; simp at hnf
  | succ n ih =>
    rw [eval_while_succ] at h
    cases hcv : eval n P ρ' w c' with
    | fail f w1 =>
      rw [hcv] at h; simp only [Res.bind] at h; subst h
      have hnf' : NF (Res.fail (α := Val) f w1) := hnf
      rcases hc w _ ⟨n, hcv, hnf'⟩ with h1 | ⟨s, w', h1⟩
      · exact Or.inl (ev_while.2 (Or.inl ⟨f, w1, h1, rfl⟩))
      · exact Or.inr ⟨s, w', ev_while.2 (Or.inl ⟨_, w', h1, rfl⟩)⟩
    | ok v w1 =>
      rw [hcv] at h; simp only [Res.bind] at h
      rcases hc w _ ⟨n, hcv, by simp⟩ with hc' | ⟨s, w', h1⟩
      · unfold whileG at h
        split at h
        · cases hbv : eval n P ρ' w1 b' with
          | fail f w2 =>
            rw [hbv] at h; simp only [Res.bind] at h; subst h
            have hnf' : NF (Res.fail (α := Val) f w2) := hnf
            rcases hb w1 _ ⟨n, hbv, hnf'⟩ with h1 | ⟨s, w', h1⟩
            · exact Or.inl (ev_while.2 (Or.inr ⟨_, w1, hc', Or.inl ⟨f, w2, h1, rfl⟩⟩))
            · exact Or.inr ⟨s, w', ev_while.2 (Or.inr ⟨_, w1, hc', Or.inl ⟨_, w', h1, rfl⟩⟩)⟩
          | ok u w2 =>
            rw [hbv] at h; simp only [Res.bind] at h
            rcases hb w1 _ ⟨n, hbv, by simp⟩ with hb' | ⟨s, w', h1⟩
            · rcases ih w2 r h hnf with h2 | ⟨s, w', h2⟩
              · exact Or.inl (ev_while.2 (Or.inr ⟨_, w1, hc', Or.inr ⟨u, w2, hb', h2⟩⟩))
              · exact Or.inr ⟨s, w', ev_while.2 (Or.inr ⟨_, w1, hc', Or.inr ⟨u, w2, hb', h2⟩⟩)⟩
            · exact Or.inr ⟨s, w', ev_while.2 (Or.inr ⟨_, w1, hc', Or.inl ⟨_, w', h1, rfl⟩⟩)⟩
        · subst h
          exact Or.inl (ev_while.2 (Or.inr ⟨_, w1, hc', rfl⟩))
        · subst h
          refine Or.inl (ev_while.2 (Or.inr ⟨_, w1, hc', ?_⟩))
          unfold whileK; split <;> simp_all
      · exact Or.inr ⟨s, w', ev_while.2 (Or.inl ⟨_, w', h1, rfl⟩)⟩

end Goml.Anf
