import GomlVerif.Lemmas.AnfBwd
import GomlVerif.Lemmas.AnfFwdCases
/-!
Backward simulation, node by node.
-/
namespace Goml.Anf
open Goml Goml.Sem

variable (P : Prog)

theorem bw_var (x : String) (ty : Ty) : BW P (.var x ty) := by
  intro n N D ρ ρ' w r hy ha he
  rcases he with ⟨f, w', h, _⟩ | ⟨ρ1, w1, h, h2⟩
  · cases h
  · cases h
    have h2' : Ev P (.var x ty) ρ' w r := h2
    rw [ev_var] at h2'; subst h2'
    left
    rw [ev_var, lookupVal_congr (ha x (hy.dis x (by simp [names])))]

theorem bw_prim (p : Prim) : BW P (.prim p) := by
  intro n N D ρ ρ' w r _ _ he
  rcases he with ⟨f, w', h, _⟩ | ⟨ρ1, w1, h, h2⟩
  · cases h
  · cases h
    have h2' : Ev P (.prim p) ρ' w r := h2
    rw [ev_prim] at h2'; subst h2'
    exact Or.inl (ev_prim.2 rfl)

/-- one operand, then a head -/
theorem bw_op1 {e0 e : Expr} {K : Val → World → Res Val → Prop} {mk1 : Expr → Expr}
    (he : BW P e)
    (hdec : ∀ n, dec e0 n = ⟨(decImm e n).L, mk1 (decImm e n).c, (decImm e n).n⟩)
    (hfrag : frag e0 = frag e) (hnames : names e0 = names e)
    (hsrc : ∀ ρ w r, Ev P e0 ρ w r ↔ RB (Ev P e ρ w) K r)
    (htgt : ∀ i ρ w r, Ev P (mk1 i) ρ w r ↔ RB (Ev P i ρ w) K r) : BW P e0 := by
  intro n N D ρ ρ' w r hy ha hev
  obtain ⟨hf, hd, hfr, hb⟩ := hy
  rw [hdec] at hb hev
  simp only at hb hev
  rw [hfrag] at hf; rw [hnames] at hd hfr
  have hwr : Wrong P e ρ w → Wrong P e0 ρ w := by
    rintro ⟨s, w', h⟩; exact ⟨s, w', (hsrc ρ w _).2 (Or.inl ⟨_, w', h, rfl⟩)⟩
  rcases hev with ⟨f, w', h1, rfl⟩ | ⟨ρ1, w1, h1, h2⟩
  · rcases bw_imm P he n N D ρ ρ' w _ hf hd hfr hb ha h1 with h3 | h3
    · exact Or.inl ((hsrc ρ w _).2 (Or.inl ⟨f, w', h3, rfl⟩))
    · exact Or.inr (hwr h3)
  · rcases bw_imm P he n N D ρ ρ' w _ hf hd hfr hb ha h1 with h3 | h3
    · simp only [immRes] at h3
      rcases (htgt _ ρ1 w1 r).1 h2 with ⟨f, w', h4, _⟩ | ⟨v, w', h4, h5⟩
      · rw [ev_atom (decImm_c_atom e n)] at h4; cases h4
      · rw [ev_atom (decImm_c_atom e n)] at h4; cases h4
        exact Or.inl ((hsrc ρ w r).2 (Or.inr ⟨_, w1, h3, h5⟩))
    · exact Or.inr (hwr h3)

theorem bw_un {op : UnOp} {ty : Ty} {e : Expr} (he : BW P e) : BW P (.un op ty e) :=
  bw_op1 P (mk1 := fun i => .un op ty i) he (fun n => rfl) (by simp [frag]) (by simp [names])
    (fun _ _ _ => ev_un) (fun _ _ _ _ => ev_un)

theorem bw_cget {c : Ctor} {idx : Nat} {ty : Ty} {e : Expr} (he : BW P e) : BW P (.cget c idx ty e) :=
  bw_op1 P (mk1 := fun i => .cget c idx ty i) he (fun n => rfl) (by simp [frag]) (by simp [names])
    (fun _ _ _ => ev_cget) (fun _ _ _ _ => ev_cget)

theorem bw_proj {idx : Nat} {ty : Ty} {e : Expr} (he : BW P e) : BW P (.proj idx ty e) :=
  bw_op1 P (mk1 := fun i => .proj idx ty i) he (fun n => rfl) (by simp [frag]) (by simp [names])
    (fun _ _ _ => ev_proj) (fun _ _ _ _ => ev_proj)

theorem bw_toDyn {tr : String} {forTy ty : Ty} {e : Expr} (he : BW P e) : BW P (.toDyn tr forTy ty e) :=
  bw_op1 P (mk1 := fun i => .toDyn tr forTy ty i) he (fun n => rfl) (by simp [frag]) (by simp [names])
    (fun _ _ _ => ev_toDyn) (fun _ _ _ _ => ev_toDyn)

theorem bw_go {e : Expr} (he : BW P e) : BW P (.go e) :=
  bw_op1 P (mk1 := fun i => .go i) he (fun n => rfl) (by simp [frag]) (by simp [names])
    (fun _ _ _ => ev_go) (fun _ _ _ _ => ev_go)

theorem bw_tuple {ty : Ty} {items : List Expr} (hL : BWL P items) : BW P (.tuple ty items) :=
  bw_ops P (mk := fun cs => .tuple ty cs) (H := fun vs w r => r = .ok (.tuple vs) w) hL
    (fun n => ⟨rfl, rfl, rfl⟩)
    (fun D n N hy => ⟨by simpa [frag] using hy.frag, by simpa [names] using hy.dis,
      by simpa [names] using hy.fresh, hy.bound⟩)
    (fun _ _ _ h => Or.inl (ev_tuple.2 h)) (fun _ _ _ _ h => ev_tuple.1 h)

theorem bw_array {ty : Ty} {items : List Expr} (hL : BWL P items) : BW P (.array ty items) :=
  bw_ops P (mk := fun cs => .array ty cs) (H := fun vs w r => r = .ok (.array vs) w) hL
    (fun n => ⟨rfl, rfl, rfl⟩)
    (fun D n N hy => ⟨by simpa [frag] using hy.frag, by simpa [names] using hy.dis,
      by simpa [names] using hy.fresh, hy.bound⟩)
    (fun _ _ _ h => Or.inl (ev_array.2 h)) (fun _ _ _ _ h => ev_array.1 h)

theorem bw_constr {c : Ctor} {ty : Ty} {args : List Expr}
    (h : ∀ tn vn idx, c = .enum tn vn idx → args ≠ []) (hL : BWL P args) : BW P (.constr c ty args) :=
  bw_ops P (mk := fun cs => .constr c ty cs) (H := fun vs w r => r = .ok (mkCtor c vs) w) hL
    (fun n => by rw [dec_constr_general h]; exact ⟨rfl, rfl, rfl⟩)
    (fun D n N hy => ⟨by have := hy.frag; simp only [frag, Bool.and_eq_true] at this; exact this.2,
      by simpa [names] using hy.dis, by simpa [names] using hy.fresh,
      by have := hy.bound; rw [dec_constr_general h] at this; exact this⟩)
    (fun _ _ _ h => Or.inl (ev_constr.2 h)) (fun _ _ _ _ h => ev_constr.1 h)

theorem bw_constr_nullary {tn vn : String} {idx : Nat} {ty : Ty} : BW P (.constr (.enum tn vn idx) ty []) := by
  intro n N D ρ ρ' w r hy _ he
  have hf := hy.frag
  simp only [frag, fragList, Bool.and_true, beq_iff_eq] at hf
  rcases he with ⟨f, w', h, _⟩ | ⟨ρ1, w1, h, h2⟩
  · cases h
  · cases h
    have h2' : Ev P (.tag idx ty) ρ' w r := h2
    rw [ev_tag, hf] at h2'; subst h2'
    left
    rw [ev_constr, rb_evL_nil]; rfl

theorem bw_call {ty : Ty} {f : Expr} {args : List Expr} (hL : BWL P (f :: args)) : BW P (.call ty f args) :=
  bw_ops P (mk := fun cs => match cs with | fi :: is => .call ty fi is | [] => .prim .unit) (H := callH P) hL
    (fun n => ⟨rfl, rfl, rfl⟩)
    (fun D n N hy => ⟨by simpa [frag, fragList] using hy.frag, by simpa [names, namesList] using hy.dis,
      by simpa [names, namesList] using hy.fresh, hy.bound⟩)
    (fun _ _ _ h => Or.inl (ev_call_ops.2 h)) (fun _ _ _ _ h => ev_call_ops.1 h)

theorem bw_dynCall {tr m : String} {ty : Ty} {recv : Expr} {args : List Expr} (hL : BWL P (recv :: args)) :
    BW P (.dynCall tr m ty recv args) :=
  bw_ops P (mk := fun cs => match cs with | ri :: is => .dynCall tr m ty ri is | [] => .prim .unit)
    (H := dynH P tr m) hL
    (fun n => ⟨rfl, rfl, rfl⟩)
    (fun D n N hy => ⟨by simpa [frag, fragList] using hy.frag, by simpa [names, namesList] using hy.dis,
      by simpa [names, namesList] using hy.fresh, hy.bound⟩)
    (fun _ _ _ h => dyn_src_bw h)
    (fun n _ _ _ h => (dyn_tgt (decImm_c_atom recv n) (decList_cs_atoms args _)).1 h)

theorem bw_bin_plain {op : BinOp} {ty : Ty} {l r : Expr}
    (hc : ((op == .and || op == .or) && !trivialRhs r) = false) (hL : BWL P [l, r]) : BW P (.bin op ty l r) := by
  have hcase : isAtom r = true ∨ (op ≠ .and ∧ op ≠ .or) := by
    cases hr : isAtom r
    · right; rw [trivialRhs_eq_isAtom, hr] at hc
      cases op <;> first | exact ⟨by decide, by decide⟩ | (exfalso; revert hc; decide)
    · left; rfl
  refine bw_ops P (mk := fun cs => match cs with | [li, ri] => .bin op ty li ri | _ => .prim .unit)
    (H := binH op) hL ?_ ?_ (fun _ _ _ h => Or.inl ((ev_bin_ops hcase).2 h)) ?_
  · intro n
    simp [dec, hc, decList, decImm]
  · intro D n N hy
    refine ⟨?_, ?_, ?_, ?_⟩
    · have := hy.frag
      simp only [frag, Bool.and_eq_true] at this
      simp only [fragList, Bool.and_eq_true, bndList, namesList, List.append_nil, disj_nil_left, disj_nil_right,
        and_true]
      exact ⟨⟨⟨this.1.1.1, this.1.1.2⟩, this.1.2⟩, this.2⟩
    · simpa [names, namesList] using hy.dis
    · simpa [names, namesList] using hy.fresh
    · have := hy.bound
      simp only [dec, hc, Bool.false_eq_true, if_false] at this
      simpa [decList, decImm] using this
  · intro n ρ w x h
    exact (ev_bin_ops (Or.inl (decImm_c_atom r _))).1 h

/-! ### nodes with sub-expressions in tail position -/

theorem bw_letE {x : String} {v b : Expr} (hv : BW P v) (hb : BW P b) : BW P (.letE x v b) := by
  intro n N D ρ ρ' w r hy ha hev
  have hf := hy.frag
  simp only [frag, Bool.and_eq_true] at hf
  obtain ⟨⟨hfv, hfb⟩, hdj⟩ := hf
  have hm1 := dec_mono v n
  have hm2 := dec_mono b (dec v n).n
  have hbd := hy.bound
  simp only [dec] at hbd
  have hyv : Hyp D v n N := hyp_child0 hy hfv (fun x hx => by simp [names, hx]) (Nat.le_refl _) (by omega)
  have hyb : Hyp (D ++ keys (dec v n).L) b (dec v n).n N :=
    hyp_child hy hfb (fun x hx => by simp [names, hx]) (dec_keys v n) hdj (Nat.le_refl _) (by omega) hm1 hbd
  have hev' : RB (EvB P ((dec v n).L ++ (x, (dec v n).c) :: (dec b (dec v n).n).L) ρ' w)
    (fun ρ1 w1 => Ev P (dec b (dec v n).n).c ρ1 w1) r := hev
  have hwr : Wrong P v ρ w → Wrong P (.letE x v b) ρ w := by
    rintro ⟨s, w', h⟩; exact ⟨s, w', ev_letE.2 (Or.inl ⟨_, w', h, rfl⟩)⟩
  -- split the chain at the binding of `x`
  have key : ∀ (out : Res Env), EvB P ((dec v n).L ++ (x, (dec v n).c) :: (dec b (dec v n).n).L) ρ' w out →
      (∃ f w', out = .fail f w' ∧ RB (EvB P (dec v n).L ρ' w) (fun ρ1 w1 => Ev P (dec v n).c ρ1 w1) (.fail f w')) ∨
      (∃ ρ1 w0 vv w1, EvB P (dec v n).L ρ' w (.ok ρ1 w0) ∧ Ev P (dec v n).c ρ1 w0 (.ok vv w1) ∧
        EvB P (dec b (dec v n).n).L ((x, vv) :: ρ1) w1 out) := by
    intro out h
    rcases evB_append.1 h with ⟨f, w', h1, rfl⟩ | ⟨ρ1, w0, h1, h2⟩
    · exact Or.inl ⟨f, w', rfl, Or.inl ⟨f, w', h1, rfl⟩⟩
    · rcases h2 with ⟨f, w', h3, rfl⟩ | ⟨vv, w1, h3, h4⟩
      · exact Or.inl ⟨f, w', rfl, Or.inr ⟨ρ1, w0, h1, h3⟩⟩
      · exact Or.inr ⟨ρ1, w0, vv, w1, h1, h3, h4⟩
  -- the body, once `v` has a value
  have body : ∀ ρ1 w0 vv w1, EvB P (dec v n).L ρ' w (.ok ρ1 w0) → Ev P (dec v n).c ρ1 w0 (.ok vv w1) →
      RB (EvB P (dec b (dec v n).n).L ((x, vv) :: ρ1) w1) (fun ρ2 w2 => Ev P (dec b (dec v n).n).c ρ2 w2) r →
      Ev P (.letE x v b) ρ w r ∨ Wrong P (.letE x v b) ρ w := by
    intro ρ1 w0 vv w1 h1 h3 h5
    rcases hv n N D ρ ρ' w _ hyv ha (Or.inr ⟨ρ1, w0, h1, h3⟩) with h6 | h6
    · have ha1 : Agree (D ++ keys (dec v n).L) ((x, vv) :: ρ) ((x, vv) :: ρ1) := (evB_agree h1 ha).cons x vv
      rcases hb _ N _ _ _ w1 r hyb ha1 h5 with h7 | ⟨s, w', h7⟩
      · exact Or.inl (ev_letE.2 (Or.inr ⟨vv, w1, h6, h7⟩))
      · exact Or.inr ⟨s, w', ev_letE.2 (Or.inr ⟨vv, w1, h6, h7⟩)⟩
    · exact Or.inr (hwr h6)
  rcases hev' with ⟨f, w', h1, rfl⟩ | ⟨ρ2, w2, h1, h2⟩
  · rcases key _ h1 with ⟨f', w'', h3, h4⟩ | ⟨ρ1, w0, vv, w1, h3, h4, h5⟩
    · cases h3
      rcases hv n N D ρ ρ' w _ hyv ha h4 with h6 | h6
      · exact Or.inl (ev_letE.2 (Or.inl ⟨f, w', h6, rfl⟩))
      · exact Or.inr (hwr h6)
    · exact body ρ1 w0 vv w1 h3 h4 (Or.inl ⟨f, w', h5, rfl⟩)
  · rcases key _ h1 with ⟨f', w'', h3, _⟩ | ⟨ρ1, w0, vv, w1, h3, h4, h5⟩
    · cases h3
    · exact body ρ1 w0 vv w1 h3 h4 (Or.inr ⟨ρ2, w2, h5, h2⟩)

theorem bw_ite {c t e : Expr} (hc : BW P c) (ht : BW P t) (he : BW P e) : BW P (.ite c t e) := by
  intro n N D ρ ρ' w r hy ha hev
  have hf := hy.frag
  simp only [frag, Bool.and_eq_true] at hf
  obtain ⟨⟨⟨hfc, hft⟩, hfe⟩, hdj⟩ := hf
  obtain ⟨hdjt, hdje⟩ := disj_append_right hdj
  have hm1 := decImm_mono c n
  have hm2 := dec_mono t (decImm c n).n
  have hm3 := dec_mono e (dec t (decImm c n).n).n
  have hbd := hy.bound
  simp only [dec, anf_ret] at hbd
  have hbd' : (dec e (dec t (decImm c n).n).n).n ≤ N := hbd
  have hyt : Hyp (D ++ keys (decImm c n).L) t (decImm c n).n N :=
    hyp_child hy hft (fun x hx => by simp [names, hx]) (decImm_keys c n) hdjt (Nat.le_refl _) (by omega) hm1 (by omega)
  have hye : Hyp (D ++ keys (decImm c n).L) e (dec t (decImm c n).n).n N :=
    hyp_child hy hfe (fun x hx => by simp [names, hx]) (decImm_keys c n) hdje (Nat.le_refl _) (by omega) (by omega) hbd'
  have hev' : RB (EvB P (decImm c n).L ρ' w)
    (fun ρ1 w1 => Ev P (.ite (decImm c n).c (anf t (decImm c n).n ret).1
      (anf e (anf t (decImm c n).n ret).2 ret).1) ρ1 w1) r := hev
  have hci := bw_imm P hc n N D ρ ρ' w
  have hdc : ∀ x ∈ names c, x ∉ D := fun x hx => hy.dis x (by simp [names, hx])
  have hfrc : ∀ m, n ≤ m → m < N → tmpName m ∉ names c := fun m a b hm => hy.fresh m a b (by simp [names, hm])
  have hwr : Wrong P c ρ w → Wrong P (.ite c t e) ρ w := by
    rintro ⟨s, w', h⟩; exact ⟨s, w', ev_ite.2 (Or.inl ⟨_, w', h, rfl⟩)⟩
  rcases hev' with ⟨f, w', h1, rfl⟩ | ⟨ρ1, w1, h1, h2⟩
  · rcases hci _ hfc hdc hfrc (by omega) ha h1 with h3 | h3
    · exact Or.inl (ev_ite.2 (Or.inl ⟨f, w', h3, rfl⟩))
    · exact Or.inr (hwr h3)
  · rcases hci _ hfc hdc hfrc (by omega) ha h1 with h3 | h3
    · simp only [immRes] at h3
      have ha1 := evB_agree h1 ha
      rcases ev_ite.1 h2 with ⟨f, w', h4, _⟩ | ⟨v, w', h4, h5⟩
      · rw [ev_atom (decImm_c_atom c n)] at h4; cases h4
      · rw [ev_atom (decImm_c_atom c n)] at h4; cases h4
        have hcnt : (anf t (decImm c n).n ret).2 = (dec t (decImm c n).n).n := by rw [anf_ret]
        rw [hcnt] at h5
        generalize atomVal ρ1 (decImm c n).c = v at h3 h5
        unfold iteK at h5
        split at h5
        · rcases bw_top P ht _ N _ _ _ w1 r hyt ha1 h5 with h6 | ⟨s, w', h6⟩
          · exact Or.inl (ev_ite.2 (Or.inr ⟨_, w1, h3, h6⟩))
          · exact Or.inr ⟨s, w', ev_ite.2 (Or.inr ⟨_, w1, h3, h6⟩)⟩
        · rcases bw_top P he _ N _ _ _ w1 r hye ha1 h5 with h6 | ⟨s, w', h6⟩
          · exact Or.inl (ev_ite.2 (Or.inr ⟨_, w1, h3, h6⟩))
          · exact Or.inr ⟨s, w', ev_ite.2 (Or.inr ⟨_, w1, h3, h6⟩)⟩
        · subst h5
          refine Or.inl (ev_ite.2 (Or.inr ⟨_, w1, h3, ?_⟩))
          unfold iteK; split <;> simp_all
    · exact Or.inr (hwr h3)

theorem bw_while {c b : Expr} (hc : BW P c) (hb : BW P b) : BW P (.while c b) := by
  intro n N D ρ ρ' w r hy ha hev
  have hf := hy.frag
  simp only [frag, Bool.and_eq_true] at hf
  have hm1 := dec_mono c n
  have hm2 := dec_mono b (dec c n).n
  have hbd := hy.bound
  simp only [dec, anf_ret] at hbd
  have hyc : Hyp D c n N := hyp_child0 hy hf.1 (fun x hx => by simp [names, hx]) (Nat.le_refl _) (by omega)
  have hyb : Hyp D b (dec c n).n N := hyp_child0 hy hf.2 (fun x hx => by simp [names, hx]) hm1 hbd
  rcases hev with ⟨f, w', h, _⟩ | ⟨ρ1, w1, h, h2⟩
  · cases h
  · cases h
    have h2' : Ev P (.while (anf c n ret).1 (anf b (anf c n ret).2 ret).1) ρ' w r := h2
    have hcnt : (anf c n ret).2 = (dec c n).n := by rw [anf_ret]
    rw [hcnt] at h2'
    exact while_bw P (fun w r h => bw_top P hc n N D ρ ρ' w r hyc ha h)
      (fun w r h => bw_top P hb _ N D ρ ρ' w r hyb ha h) w r h2'

/-- `a && b` / `a || b` with a complex right operand: lowered to `if` -/
theorem bw_bin_lowered {op : BinOp} {ty : Ty} {l r : Expr}
    (hc : ((op == .and || op == .or) && !trivialRhs r) = true) (hl : BW P l) (hr : BW P r) :
    BW P (.bin op ty l r) := by
  intro n N D ρ ρ' w x hy ha hev
  have hf := hy.frag
  simp only [frag, Bool.and_eq_true] at hf
  obtain ⟨⟨⟨hfl, hfr⟩, hdj⟩, _⟩ := hf
  have hm1 := decImm_mono l n
  have hm2 := dec_mono r (decImm l n).n
  have hbd := hy.bound
  obtain ⟨hop, hat⟩ := lowered_iff.1 hc
  have hcnt : (anf r (decImm l n).n ret).2 = (dec r (decImm l n).n).n := by rw [anf_ret]
  have hbd' : (dec r (decImm l n).n).n ≤ N := by
    rcases hop with rfl | rfl
    · rw [dec_and_lowered hat] at hbd; rw [← hcnt]; exact hbd
    · rw [dec_or_lowered hat] at hbd; rw [← hcnt]; exact hbd
  have hyr : Hyp (D ++ keys (decImm l n).L) r (decImm l n).n N :=
    hyp_child hy hfr (fun x hx => by simp [names, hx]) (decImm_keys l n) hdj (Nat.le_refl _) (by omega) hm1 hbd'
  have hli := bw_imm P hl n N D ρ ρ' w
  have hdl : ∀ x ∈ names l, x ∉ D := fun x hx => hy.dis x (by simp [names, hx])
  have hfrl : ∀ m, n ≤ m → m < N → tmpName m ∉ names l := fun m a b hm => hy.fresh m a b (by simp [names, hm])
  have hdecL : (dec (.bin op ty l r) n).L = (decImm l n).L := by
    rcases hop with rfl | rfl
    · rw [dec_and_lowered hat]
    · rw [dec_or_lowered hat]
  rw [hdecL] at hev
  have hwr : Wrong P l ρ w → Wrong P (.bin op ty l r) ρ w := by
    rintro ⟨s, w', h⟩; exact ⟨s, w', ev_bin.2 (Or.inl ⟨_, w', h, rfl⟩)⟩
  rcases hev with ⟨f, w', h1, rfl⟩ | ⟨ρ1, w1, h1, h2⟩
  · rcases hli _ hfl hdl hfrl (by omega) ha h1 with h3 | h3
    · exact Or.inl (ev_bin.2 (Or.inl ⟨f, w', h3, rfl⟩))
    · exact Or.inr (hwr h3)
  · rcases hli _ hfl hdl hfrl (by omega) ha h1 with h3 | h3
    · simp only [immRes] at h3
      have ha1 := evB_agree h1 ha
      have hatom : ∀ y, Ev P (decImm l n).c ρ1 w1 y → y = .ok (atomVal ρ1 (decImm l n).c) w1 :=
        fun y h => (ev_atom (decImm_c_atom l n)).1 h
      -- the branch in the target is the right operand in the source
      have hrhs : ∀ y, Ev P (anf r (decImm l n).n ret).1 ρ1 w1 y → Ev P r ρ w1 y ∨ Wrong P r ρ w1 :=
        fun y h => bw_top P hr _ N _ _ _ w1 _ hyr ha1 h
      generalize atomVal ρ1 (decImm l n).c = a at h3 hatom
      -- source-side rule once the left operand has value `a`
      have src : ∀ y, binK P op r ρ a w1 y → Ev P (.bin op ty l r) ρ w y :=
        fun y hk => ev_bin.2 (Or.inr ⟨a, w1, h3, hk⟩)
      rcases hop with rfl | rfl
      · -- &&
        rw [dec_and_lowered hat] at h2
        rcases ev_ite.1 h2 with ⟨f, w', h4, _⟩ | ⟨v, w', h4, h5⟩
        · cases hatom _ h4
        · cases hatom _ h4
          unfold iteK at h5
          cases a with
          | bool bv =>
            cases bv with
            | false =>
              simp only at h5
              rw [ev_prim] at h5; subst h5
              exact Or.inl (src _ (by simp [binK, scVal, primVal]))
            | true =>
              simp only at h5
              rcases hrhs _ h5 with h6 | ⟨s, w', h6⟩
              · cases x with
                | fail f w2 =>
                  exact Or.inl (src _ (by simp only [binK, scVal, logicalNonBool]; exact Or.inl ⟨f, w2, h6, rfl⟩))
                | ok b w2 =>
                  rcases and_true_res b w2 with ⟨y, rfl, he⟩ | hst
                  · refine Or.inl (src _ ?_)
                    simp only [binK, scVal, logicalNonBool]
                    exact Or.inr ⟨_, w2, h6, he.symm⟩
                  · refine Or.inr (wrong_of_stuck (src (exceptRes (binop .and (.bool true) b) w2) ?_) hst)
                    simp only [binK, scVal, logicalNonBool]
                    exact Or.inr ⟨_, w2, h6, rfl⟩
              · refine Or.inr ⟨s, w', src _ ?_⟩
                simp only [binK, scVal, logicalNonBool]
                exact Or.inl ⟨_, w', h6, rfl⟩
          | _ =>
            refine Or.inr (wrong_of_stuck (src (.fail (.stuck "logical operator on a non-boolean") w1) ?_) (by simp))
            simp [binK, scVal, logicalNonBool, binOp_beq]
      · -- ||
        rw [dec_or_lowered hat] at h2
        rcases ev_ite.1 h2 with ⟨f, w', h4, _⟩ | ⟨v, w', h4, h5⟩
        · cases hatom _ h4
        · cases hatom _ h4
          unfold iteK at h5
          cases a with
          | bool bv =>
            cases bv with
            | true =>
              simp only at h5
              rw [ev_prim] at h5; subst h5
              exact Or.inl (src _ (by simp [binK, scVal, primVal]))
            | false =>
              simp only at h5
              rcases hrhs _ h5 with h6 | ⟨s, w', h6⟩
              · cases x with
                | fail f w2 =>
                  exact Or.inl (src _ (by simp only [binK, scVal, logicalNonBool]; exact Or.inl ⟨f, w2, h6, rfl⟩))
                | ok b w2 =>
                  rcases or_false_res b w2 with ⟨y, rfl, he⟩ | hst
                  · refine Or.inl (src _ ?_)
                    simp only [binK, scVal, logicalNonBool]
                    exact Or.inr ⟨_, w2, h6, he.symm⟩
                  · refine Or.inr (wrong_of_stuck (src (exceptRes (binop .or (.bool false) b) w2) ?_) hst)
                    simp only [binK, scVal, logicalNonBool]
                    exact Or.inr ⟨_, w2, h6, rfl⟩
              · refine Or.inr ⟨s, w', src _ ?_⟩
                simp only [binK, scVal, logicalNonBool]
                exact Or.inl ⟨_, w', h6, rfl⟩
          | _ =>
            refine Or.inr (wrong_of_stuck (src (.fail (.stuck "logical operator on a non-boolean") w1) ?_) (by simp))
            simp [binK, scVal, logicalNonBool, binOp_beq]
    · exact Or.inr (hwr h3)

/-! ### `match` -/

/-- the arm selection goes wrong in the source -/
def WrongA (ρ : Env) (w : World) (v : Val) (arms : List Arm) (d : Option Expr) : Prop :=
  ∃ s w', EvA P ρ w v arms d (.fail (.stuck s) w')

def BWD (d : Option Expr) : Prop :=
  ∀ (n N : Nat) (D : List String) (ρ ρ' : Env) (w : World) (v : Val) (r : Res Val),
    HypD D d n N → Agree D ρ ρ' → EvA P ρ' w v [] (anfDflt d n).1 r →
    EvA P ρ w v [] d r ∨ WrongA P ρ w v [] d

def BWA (arms : List Arm) : Prop :=
  ∀ (d : Option Expr), BWD P d →
  ∀ (n N : Nat) (D : List String) (ρ ρ' : Env) (w : World) (v : Val) (r : Res Val),
    HypA D arms d n N → Agree D ρ ρ' →
    EvA P ρ' w v (anfArms arms n).1 (anfDflt d (anfArms arms n).2).1 r →
    EvA P ρ w v arms d r ∨ WrongA P ρ w v arms d

theorem bwD_none : BWD P none := by
  intro n N D ρ ρ' w v r _ _ h
  have h' : EvA P ρ' w v [] none r := h
  rw [evA_nil_none] at h'
  exact Or.inl (evA_nil_none.2 h')

theorem bwD_some {e : Expr} (he : BW P e) : BWD P (some e) := by
  intro n N D ρ ρ' w v r hy ha h
  have h' : EvA P ρ' w v [] (some (anf e n ret).1) r := h
  rw [evA_nil_some] at h'
  have hye : Hyp D e n N := ⟨hy.frag, hy.dis, hy.fresh, by have := hy.bound; simpa [anfDflt, anf_ret] using this⟩
  rcases bw_top P he n N D ρ ρ' w r hye ha h' with h1 | ⟨s, w', h1⟩
  · exact Or.inl (evA_nil_some.2 h1)
  · exact Or.inr ⟨s, w', evA_nil_some.2 h1⟩

theorem bwA_nil : BWA P [] := by
  intro d hd n N D ρ ρ' w v r hy ha h
  exact hd n N D ρ ρ' w v r ⟨hy.fragD, fun x hx => hy.dis x (by simp [namesArms, hx]),
    fun m a b hm => hy.fresh m a b (by simp [namesArms, hm]), hy.bound⟩ ha h

theorem bwA_cons {lhs body : Expr} {rest : List Arm} (hb : BW P body) (hr : BWA P rest) :
    BWA P (.mk lhs body :: rest) := by
  intro d hd n N D ρ ρ' w v r hy ha h
  have hf := hy.fragA
  simp only [fragArms, Bool.and_eq_true] at hf
  have hm1 := dec_mono body n
  have hm2 := anfArms_mono rest (dec body n).n
  have hm3 := anfDflt_mono d (anfArms rest (dec body n).n).2
  have hbd := hy.bound
  simp only [anfArms, anf_ret] at hbd
  have hyb : Hyp D body n N :=
    ⟨hf.1.2, fun x hx => hy.dis x (by simp [namesArms, hx]),
      fun m a b hm => hy.fresh m a b (by simp [namesArms, hm]), by omega⟩
  have hyr : HypA D rest d (dec body n).n N :=
    ⟨hf.2, hy.fragD, fun x hx => hy.dis x (by
        simp only [namesArms, List.mem_append] at hx ⊢; rcases hx with hx | hx <;> simp [hx]),
      fun m a b hm => hy.fresh m (by omega) b (by
        simp only [namesArms, List.mem_append] at hm ⊢; rcases hm with hm | hm <;> simp [hm]), hbd⟩
  simp only [anfArms, anf_ret] at h
  rw [evA_cons, armMatches_armHead] at h
  unfold WrongA
  simp only [evA_cons]
  split at h
  · rename_i hm
    simp only [hm, if_true]
    have h' : Ev P (anf body n ret).1 ρ' w r := by rw [anf_ret]; exact h
    rcases bw_top P hb n N D ρ ρ' w r hyb ha h' with h1 | ⟨s, w', h1⟩
    · exact Or.inl h1
    · exact Or.inr ⟨s, w', h1⟩
  · rename_i hm
    simp only [hm]
    exact hr d hd _ N D ρ ρ' w v r hyr ha h

theorem bw_matchE {ty : Ty} {s : Expr} {arms : List Arm} {d : Option Expr}
    (hs' : BW P s) (hA : BWA P arms) (hD : BWD P d) : BW P (.matchE ty s arms d) := by
  intro n N D ρ ρ' w r hy ha hev
  have hf := hy.frag
  simp only [frag, Bool.and_eq_true] at hf
  obtain ⟨⟨⟨hfs, hfa⟩, hfd⟩, hdj⟩ := hf
  have hm1 := decImm_mono s n
  have hm2 := anfArms_mono arms (decImm s n).n
  have hm3 := anfDflt_mono d (anfArms arms (decImm s n).n).2
  have hbd := hy.bound
  simp only [dec] at hbd
  have hbd' : (anfDflt d (anfArms arms (decImm s n).n).2).2 ≤ N := hbd
  have hyA : HypA (D ++ keys (decImm s n).L) arms d (decImm s n).n N := by
    refine ⟨hfa, hfd, ?_, ?_, hbd'⟩
    · intro x hx
      simp only [List.mem_append, not_or]
      refine ⟨hy.dis x (by simp only [names, List.mem_append] at hx ⊢; exact Or.inr hx), fun hk => ?_⟩
      exact keyOk_not_mem (decImm_keys s n x hk) hdj
        (fun m a b hm => hy.fresh m a b (by simp only [names, List.mem_append] at hm ⊢; exact Or.inr hm))
        (Nat.le_refl n) (by omega) hx
    · intro m a b hm
      exact hy.fresh m (by omega) b (by simp only [names, List.mem_append] at hm ⊢; exact Or.inr hm)
  have hev' : RB (EvB P (decImm s n).L ρ' w)
    (fun ρ1 w1 => Ev P (.matchE ty (decImm s n).c (anfArms arms (decImm s n).n).1
      (anfDflt d (anfArms arms (decImm s n).n).2).1) ρ1 w1) r := hev
  have hsi := bw_imm P hs' n N D ρ ρ' w
  have hds : ∀ x ∈ names s, x ∉ D := fun x hx => hy.dis x (by simp [names, hx])
  have hfrs : ∀ m, n ≤ m → m < N → tmpName m ∉ names s := fun m a b hm => hy.fresh m a b (by simp [names, hm])
  have hwr : Wrong P s ρ w → Wrong P (.matchE ty s arms d) ρ w := by
    rintro ⟨s', w', h⟩; exact ⟨s', w', ev_matchE.2 (Or.inl ⟨_, w', h, rfl⟩)⟩
  rcases hev' with ⟨f, w', h1, rfl⟩ | ⟨ρ1, w1, h1, h2⟩
  · rcases hsi _ hfs hds hfrs (by omega) ha h1 with h3 | h3
    · exact Or.inl (ev_matchE.2 (Or.inl ⟨f, w', h3, rfl⟩))
    · exact Or.inr (hwr h3)
  · rcases hsi _ hfs hds hfrs (by omega) ha h1 with h3 | h3
    · simp only [immRes] at h3
      have ha1 := evB_agree h1 ha
      rcases ev_matchE.1 h2 with ⟨f, w', h4, _⟩ | ⟨v, w', h4, h5⟩
      · rw [ev_atom (decImm_c_atom s n)] at h4; cases h4
      · rw [ev_atom (decImm_c_atom s n)] at h4; cases h4
        rcases hA d hD _ N _ ρ ρ1 w1 _ r hyA ha1 h5 with h6 | ⟨s', w', h6⟩
        · exact Or.inl (ev_matchE.2 (Or.inr ⟨_, w1, h3, h6⟩))
        · exact Or.inr ⟨s', w', ev_matchE.2 (Or.inr ⟨_, w1, h3, h6⟩)⟩
    · exact Or.inr (hwr h3)

/-! ### all nodes -/

mutual
theorem bw : ∀ (e : Expr), BW P e
  | .var x ty => bw_var P x ty
  | .prim p => bw_prim P p
  | .tag idx ty => fun _ _ _ _ _ _ _ hy => by have := hy.frag; simp [frag] at this
  | .closure ty ps b => fun _ _ _ _ _ _ _ hy => by have := hy.frag; simp [frag] at this
  | .traitCall tr m ty recv args => fun _ _ _ _ _ _ _ hy => by have := hy.frag; simp [frag] at this
  | .constr (.enum tn vn idx) ty [] => bw_constr_nullary P
  | .constr (.struct sn) ty [] => bw_constr P (fun _ _ _ h => by cases h) (bwL [])
  | .constr c ty (a :: as) => bw_constr P (fun _ _ _ _ => by simp) (bwL (a :: as))
  | .tuple ty items => bw_tuple P (bwL items)
  | .array ty items => bw_array P (bwL items)
  | .letE x v b => bw_letE P (bw v) (bw b)
  | .ite c t e => bw_ite P (bw c) (bw t) (bw e)
  | .while c b => bw_while P (bw c) (bw b)
  | .go e => bw_go P (bw e)
  | .matchE ty s arms d => bw_matchE P (bw s) (bwA arms) (bwD d)
  | .cget c idx ty e => bw_cget P (bw e)
  | .un op ty e => bw_un P (bw e)
  | .bin op ty l r => by
    cases hc : ((op == .and || op == .or) && !trivialRhs r)
    · exact bw_bin_plain P hc (bwL_cons P (bw_imm P (bw l)) (bwL_cons P (bw_imm P (bw r)) (bwL_nil P)))
    · exact bw_bin_lowered P hc (bw l) (bw r)
  | .call ty f args => bw_call P (bwL_cons P (bw_imm P (bw f)) (bwL args))
  | .toDyn tr forTy ty e => bw_toDyn P (bw e)
  | .dynCall tr m ty recv args => bw_dynCall P (bwL_cons P (bw_imm P (bw recv)) (bwL args))
  | .proj idx ty e => bw_proj P (bw e)
theorem bwL : ∀ (es : List Expr), BWL P es
  | [] => bwL_nil P
  | e :: rest => bwL_cons P (bw_imm P (bw e)) (bwL rest)
theorem bwA : ∀ (arms : List Arm), BWA P arms
  | [] => bwA_nil P
  | .mk lhs body :: rest => bwA_cons P (bw body) (bwA rest)
theorem bwD : ∀ (d : Option Expr), BWD P d
  | none => bwD_none P
  | some e => bwD_some P (bw e)
end

end Goml.Anf
