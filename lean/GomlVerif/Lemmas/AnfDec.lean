import GomlVerif.Model.Anf
import GomlVerif.Model.AnfFrag
/-!
Direct-style reading of the CPS functions of `Model/Anf.lean`: `anf e n k` is a chain of
`let` bindings `(dec e n).L` around `k` applied to the final complex expression `(dec e n).c`
and the counter `(dec e n).n` (`anf_eq_dec`).  All semantic reasoning is done on `dec`.
-/
namespace Goml.Anf
open Goml

abbrev Binds := List (String × Expr)

def wrap : Binds → Expr → Expr
  | [], c => c
  | (x, v) :: L, c => .letE x v (wrap L c)

theorem wrap_append (L1 L2 : Binds) (c : Expr) : wrap (L1 ++ L2) c = wrap L1 (wrap L2 c) := by
  induction L1 with
  | nil => rfl
  | cons p L ih => obtain ⟨x, v⟩ := p; simp only [List.cons_append, wrap, ih]

structure Dec where
  L : Binds
  c : Expr
  n : Nat

structure DecL where
  L : Binds
  cs : List Expr
  n : Nat

/-- `immK` in direct style -/
def decImmK (e : Expr) (self : Nat → Dec) (n : Nat) : Dec :=
  match e with
  | .var x ty => ⟨[], .var x ty, n⟩
  | .prim p => ⟨[], .prim p, n⟩
  | e =>
    let r := self (n + 1)
    ⟨r.L ++ [(tmpName n, r.c)], .var (tmpName n) (tyOf e), r.n⟩

mutual
def dec (e : Expr) (n : Nat) : Dec :=
  match e with
  | .var x ty => ⟨[], .var x ty, n⟩
  | .prim p => ⟨[], .prim p, n⟩
  | .constr c ty args =>
    match c, args with
    | .enum _ _ idx, [] => ⟨[], .tag idx ty, n⟩
    | _, _ => let r := decList args n; ⟨r.L, .constr c ty r.cs, r.n⟩
  | .tuple ty items => let r := decList items n; ⟨r.L, .tuple ty r.cs, r.n⟩
  | .array ty items => let r := decList items n; ⟨r.L, .array ty r.cs, r.n⟩
  | .letE x v b =>
    let rv := dec v n
    let rb := dec b rv.n
    ⟨rv.L ++ (x, rv.c) :: rb.L, rb.c, rb.n⟩
  | .ite c t e =>
    let rc := decImmK c (dec c) n
    let rt := anf t rc.n ret
    let re := anf e rt.2 ret
    ⟨rc.L, .ite rc.c rt.1 re.1, re.2⟩
  | .while c b =>
    let rc := anf c n ret
    let rb := anf b rc.2 ret
    ⟨[], .while rc.1 rb.1, rb.2⟩
  | .go e => let r := decImmK e (dec e) n; ⟨r.L, .go r.c, r.n⟩
  | .matchE ty s arms dflt =>
    let rs := decImmK s (dec s) n
    let ra := anfArms arms rs.n
    let rd := anfDflt dflt ra.2
    ⟨rs.L, .matchE ty rs.c ra.1 rd.1, rd.2⟩
  | .cget c idx ty e => let r := decImmK e (dec e) n; ⟨r.L, .cget c idx ty r.c, r.n⟩
  | .un op ty e => let r := decImmK e (dec e) n; ⟨r.L, .un op ty r.c, r.n⟩
  | .bin op ty l r =>
    if (op == .and || op == .or) && !isAtom r then
      let rl := decImmK l (dec l) n
      if op == .and then
        let rt := anf r rl.n ret
        ⟨rl.L, .ite rl.c rt.1 (.prim (.bool false)), rt.2⟩
      else
        let re := anf r rl.n ret
        ⟨rl.L, .ite rl.c (.prim (.bool true)) re.1, re.2⟩
    else
      let rl := decImmK l (dec l) n
      let rr := decImmK r (dec r) rl.n
      ⟨rl.L ++ rr.L, .bin op ty rl.c rr.c, rr.n⟩
  | .call ty f args =>
    let rf := decImmK f (dec f) n
    let ra := decList args rf.n
    ⟨rf.L ++ ra.L, .call ty rf.c ra.cs, ra.n⟩
  | .toDyn tr forTy ty e => let r := decImmK e (dec e) n; ⟨r.L, .toDyn tr forTy ty r.c, r.n⟩
  | .dynCall tr m ty recv args =>
    let rr := decImmK recv (dec recv) n
    let ra := decList args rr.n
    ⟨rr.L ++ ra.L, .dynCall tr m ty rr.c ra.cs, ra.n⟩
  | .proj idx ty e => let r := decImmK e (dec e) n; ⟨r.L, .proj idx ty r.c, r.n⟩
  | .tag idx ty => ⟨[], .tag idx ty, n⟩
  | .closure ty ps b => ⟨[], .closure ty ps b, n⟩
  | .traitCall tr m ty recv args => ⟨[], .traitCall tr m ty recv args, n⟩

def decList (es : List Expr) (n : Nat) : DecL :=
  match es with
  | [] => ⟨[], [], n⟩
  | e :: rest =>
    let r := decImmK e (dec e) n
    let rr := decList rest r.n
    ⟨r.L ++ rr.L, r.c :: rr.cs, rr.n⟩
end

def decImm (e : Expr) (n : Nat) : Dec := decImmK e (dec e) n

/-- the shape every continuation application takes -/
def plug (L : Binds) (r : Expr × Nat) : Expr × Nat := (wrap L r.1, r.2)

theorem immK_eq (e : Expr) (n : Nat) (k : Kont Expr)
    (h : ∀ n k, anf e n k = plug (dec e n).L (k (dec e n).c (dec e n).n)) :
    immK e (anf e) n k = plug (decImm e n).L (k (decImm e n).c (decImm e n).n) := by
  unfold immK decImm decImmK
  split
  · rfl
  · rfl
  · rw [h]
    simp only [plug, wrap_append, wrap]

mutual
theorem anf_eq_dec : ∀ (e : Expr) (n : Nat) (k : Kont Expr),
    anf e n k = plug (dec e n).L (k (dec e n).c (dec e n).n)
  | .var x ty, n, k => by simp [anf, dec, plug, wrap]
  | .prim p, n, k => by simp [anf, dec, plug, wrap]
  | .tag idx ty, n, k => by simp [anf, dec, plug, wrap]
  | .closure ty ps b, n, k => by simp [anf, dec, plug, wrap]
  | .traitCall tr m ty recv args, n, k => by simp [anf, dec, plug, wrap]
  | .constr (.enum tn vn idx) ty [], n, k => by simp [anf, dec, plug, wrap]
  | .constr (.struct sn) ty [], n, k => by
    simp only [anf, dec, anfList_eq_dec []]
  | .constr c ty (a :: as), n, k => by
    simp only [anf, dec, anfList_eq_dec (a :: as)]
  | .tuple ty items, n, k => by rw [anf, dec, anfList_eq_dec items]
  | .array ty items, n, k => by rw [anf, dec, anfList_eq_dec items]
  | .letE x v b, n, k => by
    rw [anf, dec, anf_eq_dec v]
    simp only [anf_eq_dec b, plug, wrap_append, wrap]
  | .ite c t e, n, k => by
    rw [anf, dec, immK_eq c _ _ (anf_eq_dec c)]; rfl
  | .while c b, n, k => by rw [anf, dec]; simp [plug, wrap]
  | .go e, n, k => by rw [anf, dec, immK_eq e _ _ (anf_eq_dec e)]; rfl
  | .matchE ty s arms dflt, n, k => by rw [anf, dec, immK_eq s _ _ (anf_eq_dec s)]; rfl
  | .cget c idx ty e, n, k => by rw [anf, dec, immK_eq e _ _ (anf_eq_dec e)]; rfl
  | .un op ty e, n, k => by rw [anf, dec, immK_eq e _ _ (anf_eq_dec e)]; rfl
  | .bin op ty l r, n, k => by
    rw [anf, dec]
    split
    · rw [immK_eq l _ _ (anf_eq_dec l)]
      split <;> rfl
    · rw [immK_eq l _ _ (anf_eq_dec l), immK_eq r _ _ (anf_eq_dec r)]
      simp only [plug, wrap_append, decImm]
  | .call ty f args, n, k => by
    rw [anf, dec, immK_eq f _ _ (anf_eq_dec f), anfList_eq_dec args]
    simp only [plug, wrap_append, decImm]
  | .toDyn tr forTy ty e, n, k => by rw [anf, dec, immK_eq e _ _ (anf_eq_dec e)]; rfl
  | .dynCall tr m ty recv args, n, k => by
    rw [anf, dec, immK_eq recv _ _ (anf_eq_dec recv), anfList_eq_dec args]
    simp only [plug, wrap_append, decImm]
  | .proj idx ty e, n, k => by rw [anf, dec, immK_eq e _ _ (anf_eq_dec e)]; rfl

theorem anfList_eq_dec : ∀ (es : List Expr) (n : Nat) (k : Kont (List Expr)),
    anfList es n k = plug (decList es n).L (k (decList es n).cs (decList es n).n)
  | [], n, k => by simp [anfList, decList, plug, wrap]
  | e :: rest, n, k => by
    rw [anfList, decList, immK_eq e _ _ (anf_eq_dec e), anfList_eq_dec rest]
    simp only [plug, wrap_append, decImm]
end

/-- top level: `anf e n ret` is the `let` chain around the final expression -/
theorem anf_ret (e : Expr) (n : Nat) : anf e n ret = (wrap (dec e n).L (dec e n).c, (dec e n).n) := by
  rw [anf_eq_dec]; rfl

end Goml.Anf
