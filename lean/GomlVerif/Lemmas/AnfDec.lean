import GomlVerif.Model.Anf
import GomlVerif.Model.AnfFrag
/-!
Direct-style reading of the CPS functions of `Model/Anf.lean`: `anf e n k` is a chain of
`let` bindings `(dec e n).L` around `k` applied to the final complex expression `(dec e n).c`
and the counter `(dec e n).n` (`anf_eq_dec`).  All semantic reasoning is done on `dec`.
-/
namespace Goml.Anf
open Goml

/-- the guard of the `&&` / `||` arm accepts exactly the operands that have nothing to evaluate
    (checked against the table regenerated from `anf.rs`, and `anf_imm`'s own notion of immediate) -/
theorem trivialRhs_eq_isAtom (e : Expr) : trivialRhs e = isAtom e := by
  cases e <;> simp only [trivialRhs, liftKind, isAtom] <;> decide

theorem immKinds_is_isAtom (e : Expr) : Gen.immKinds.contains (liftKind e) = isAtom e := by
  cases e <;> simp only [liftKind, isAtom] <;> decide

abbrev Binds := List (String × Expr)

def wrap : Binds → Expr → Expr
  | [], c => c
  | (x, v) :: L, c => .letE x v (wrap L c)

theorem wrap_append (L1 L2 : Binds) (c : Expr) : wrap (L1 ++ L2) c = wrap L1 (wrap L2 c) := by
  induction L1 with
  | nil => rfl
  | cons p L ih => obtain ⟨x, v⟩ := p; simp only [List.cons_append, wrap, ih]

structure Dec where
  L : Binds
  c : Expr
  n : Nat

structure DecL where
  L : Binds
  cs : List Expr
  n : Nat

/-- `immK` in direct style -/
def decImmK (e : Expr) (self : Nat → Dec) (n : Nat) : Dec :=
  match e with
  | .var x ty => ⟨[], .var x ty, n⟩
  | .prim p => ⟨[], .prim p, n⟩
  | e =>
    let r := self (n + 1)
    ⟨r.L ++ [(tmpName n, r.c)], .var (tmpName n) (tyOf e), r.n⟩

mutual
def dec (e : Expr) (n : Nat) : Dec :=
  match e with
  | .var x ty => ⟨[], .var x ty, n⟩
  | .prim p => ⟨[], .prim p, n⟩
  | .constr c ty args =>
    match c, args with
    | .enum _ _ idx, [] => ⟨[], .tag idx ty, n⟩
    | _, _ => let r := decList args n; ⟨r.L, .constr c ty r.cs, r.n⟩
  | .tuple ty items => let r := decList items n; ⟨r.L, .tuple ty r.cs, r.n⟩
  | .array ty items => let r := decList items n; ⟨r.L, .array ty r.cs, r.n⟩
  | .letE x v b =>
    let rv := dec v n
    let rb := dec b rv.n
    ⟨rv.L ++ (x, rv.c) :: rb.L, rb.c, rb.n⟩
  | .ite c t e =>
    let rc := decImmK c (dec c) n
    let rt := anf t rc.n ret
    let re := anf e rt.2 ret
    ⟨rc.L, .ite rc.c rt.1 re.1, re.2⟩
  | .while c b =>
    let rc := anf c n ret
    let rb := anf b rc.2 ret
    ⟨[], .while rc.1 rb.1, rb.2⟩
  | .go e => let r := decImmK e (dec e) n; ⟨r.L, .go r.c, r.n⟩
  | .matchE ty s arms dflt =>
    let rs := decImmK s (dec s) n
    let ra := anfArms arms rs.n
    let rd := anfDflt dflt ra.2
    ⟨rs.L, .matchE ty rs.c ra.1 rd.1, rd.2⟩
  | .cget c idx ty e => let r := decImmK e (dec e) n; ⟨r.L, .cget c idx ty r.c, r.n⟩
  | .un op ty e => let r := decImmK e (dec e) n; ⟨r.L, .un op ty r.c, r.n⟩
  | .bin op ty l r =>
    if (op == .and || op == .or) && !trivialRhs r then
      let rl := decImmK l (dec l) n
      if op == .and then
        let rt := anf r rl.n ret
        ⟨rl.L, .ite rl.c rt.1 (.prim (.bool false)), rt.2⟩
      else
        let re := anf r rl.n ret
        ⟨rl.L, .ite rl.c (.prim (.bool true)) re.1, re.2⟩
    else
      let rl := decImmK l (dec l) n
      let rr := decImmK r (dec r) rl.n
      ⟨rl.L ++ rr.L, .bin op ty rl.c rr.c, rr.n⟩
  | .call ty f args =>
    let rf := decImmK f (dec f) n
    let ra := decList args rf.n
    ⟨rf.L ++ ra.L, .call ty rf.c ra.cs, ra.n⟩
  | .toDyn tr forTy ty e => let r := decImmK e (dec e) n; ⟨r.L, .toDyn tr forTy ty r.c, r.n⟩
  | .dynCall tr m ty recv args =>
    let rr := decImmK recv (dec recv) n
    let ra := decList args rr.n
    ⟨rr.L ++ ra.L, .dynCall tr m ty rr.c ra.cs, ra.n⟩
  | .proj idx ty e => let r := decImmK e (dec e) n; ⟨r.L, .proj idx ty r.c, r.n⟩
  | .tag idx ty => ⟨[], .tag idx ty, n⟩
  | .closure ty ps b => ⟨[], .closure ty ps b, n⟩
  | .traitCall tr m ty recv args => ⟨[], .traitCall tr m ty recv args, n⟩

def decList (es : List Expr) (n : Nat) : DecL :=
  match es with
  | [] => ⟨[], [], n⟩
  | e :: rest =>
    let r := decImmK e (dec e) n
    let rr := decList rest r.n
    ⟨r.L ++ rr.L, r.c :: rr.cs, rr.n⟩
end

def decImm (e : Expr) (n : Nat) : Dec := decImmK e (dec e) n

/-- the shape every continuation application takes -/
def plug (L : Binds) (r : Expr × Nat) : Expr × Nat := (wrap L r.1, r.2)

theorem immK_eq (e : Expr) (n : Nat) (k : Kont Expr)
    (h : ∀ n k, anf e n k = plug (dec e n).L (k (dec e n).c (dec e n).n)) :
    immK e (anf e) n k = plug (decImm e n).L (k (decImm e n).c (decImm e n).n) := by
  unfold immK decImm decImmK
  split
  · rfl
  · rfl
  · rw [h]
    simp only [plug, wrap_append, wrap]

mutual
theorem anf_eq_dec : ∀ (e : Expr) (n : Nat) (k : Kont Expr),
    anf e n k = plug (dec e n).L (k (dec e n).c (dec e n).n)
  | .var x ty, n, k => by simp [anf, dec, plug, wrap]
  | .prim p, n, k => by simp [anf, dec, plug, wrap]
  | .tag idx ty, n, k => by simp [anf, dec, plug, wrap]
  | .closure ty ps b, n, k => by simp [anf, dec, plug, wrap]
  | .traitCall tr m ty recv args, n, k => by simp [anf, dec, plug, wrap]
  | .constr (.enum tn vn idx) ty [], n, k => by simp [anf, dec, plug, wrap]
  | .constr (.struct sn) ty [], n, k => by
    simp only [anf, dec, anfList_eq_dec []]
  | .constr c ty (a :: as), n, k => by
    simp only [anf, dec, anfList_eq_dec (a :: as)]
  | .tuple ty items, n, k => by rw [anf, dec, anfList_eq_dec items]
  | .array ty items, n, k => by rw [anf, dec, anfList_eq_dec items]
  | .letE x v b, n, k => by
    rw [anf, dec, anf_eq_dec v]
    simp only [anf_eq_dec b, plug, wrap_append, wrap]
  | .ite c t e, n, k => by
    rw [anf, dec, immK_eq c _ _ (anf_eq_dec c)]; rfl
  | .while c b, n, k => by rw [anf, dec]; simp [plug, wrap]
  | .go e, n, k => by rw [anf, dec, immK_eq e _ _ (anf_eq_dec e)]; rfl
  | .matchE ty s arms dflt, n, k => by rw [anf, dec, immK_eq s _ _ (anf_eq_dec s)]; rfl
  | .cget c idx ty e, n, k => by rw [anf, dec, immK_eq e _ _ (anf_eq_dec e)]; rfl
  | .un op ty e, n, k => by rw [anf, dec, immK_eq e _ _ (anf_eq_dec e)]; rfl
  | .bin op ty l r, n, k => by
    rw [anf, dec]
    split
    · rw [immK_eq l _ _ (anf_eq_dec l)]
      split <;> rfl
    · rw [immK_eq l _ _ (anf_eq_dec l), immK_eq r _ _ (anf_eq_dec r)]
      simp only [plug, wrap_append, decImm]
  | .call ty f args, n, k => by
    rw [anf, dec, immK_eq f _ _ (anf_eq_dec f), anfList_eq_dec args]
    simp only [plug, wrap_append, decImm]
  | .toDyn tr forTy ty e, n, k => by rw [anf, dec, immK_eq e _ _ (anf_eq_dec e)]; rfl
  | .dynCall tr m ty recv args, n, k => by
    rw [anf, dec, immK_eq recv _ _ (anf_eq_dec recv), anfList_eq_dec args]
    simp only [plug, wrap_append, decImm]
  | .proj idx ty e, n, k => by rw [anf, dec, immK_eq e _ _ (anf_eq_dec e)]; rfl

theorem anfList_eq_dec : ∀ (es : List Expr) (n : Nat) (k : Kont (List Expr)),
    anfList es n k = plug (decList es n).L (k (decList es n).cs (decList es n).n)
  | [], n, k => by simp [anfList, decList, plug, wrap]
  | e :: rest, n, k => by
    rw [anfList, decList, immK_eq e _ _ (anf_eq_dec e), anfList_eq_dec rest]
    simp only [plug, wrap_append, decImm]
end

/-- top level: `anf e n ret` is the `let` chain around the final expression -/
theorem anf_ret (e : Expr) (n : Nat) : anf e n ret = (wrap (dec e n).L (dec e n).c, (dec e n).n) := by
  rw [anf_eq_dec]; rfl

/-! ### counters only grow -/

theorem decImm_mono_of (e : Expr) (n : Nat) (h : ∀ n, n ≤ (dec e n).n) : n ≤ (decImm e n).n := by
  unfold decImm decImmK
  split
  · exact Nat.le_refl _
  · exact Nat.le_refl _
  · have := h (n + 1); simp only; omega

mutual
theorem dec_mono : ∀ (e : Expr) (n : Nat), n ≤ (dec e n).n
  | .var x ty, n => by simp [dec]
  | .prim p, n => by simp [dec]
  | .tag idx ty, n => by simp [dec]
  | .closure ty ps b, n => by simp [dec]
  | .traitCall tr m ty recv args, n => by simp [dec]
  | .constr (.enum tn vn idx) ty [], n => by simp [dec]
  | .constr (.struct sn) ty [], n => by simp [dec, decList]
  | .constr c ty (a :: as), n => by
    have := decList_mono (a :: as) n
    simp only [dec]; exact this
  | .tuple ty items, n => by simp only [dec]; exact decList_mono items n
  | .array ty items, n => by simp only [dec]; exact decList_mono items n
  | .letE x v b, n => by
    have h1 := dec_mono v n
    have h2 := dec_mono b (dec v n).n
    simp only [dec]; omega
  | .ite c t e, n => by
    have h1 := decImm_mono_of c n (dec_mono c)
    have h2 := dec_mono t (decImm c n).n
    have h3 := dec_mono e (dec t (decImm c n).n).n
    simp only [dec, anf_ret]; unfold decImm at *; omega
  | .while c b, n => by
    have h1 := dec_mono c n
    have h2 := dec_mono b (dec c n).n
    simp only [dec, anf_ret]; omega
  | .go e, n => by simp only [dec]; exact decImm_mono_of e n (dec_mono e)
  | .matchE ty s arms dflt, n => by
    have h1 := decImm_mono_of s n (dec_mono s)
    have h2 := anfArms_mono arms (decImm s n).n
    have h3 := anfDflt_mono dflt (anfArms arms (decImm s n).n).2
    simp only [dec]; unfold decImm at *; omega
  | .cget c idx ty e, n => by simp only [dec]; exact decImm_mono_of e n (dec_mono e)
  | .un op ty e, n => by simp only [dec]; exact decImm_mono_of e n (dec_mono e)
  | .bin op ty l r, n => by
    have h1 := decImm_mono_of l n (dec_mono l)
    have h2 := dec_mono r (decImm l n).n
    have h3 := decImm_mono_of r (decImm l n).n (dec_mono r)
    simp only [dec]; unfold decImm at *
    split
    · split <;> simp only [anf_ret] <;> omega
    · simp only; omega
  | .call ty f args, n => by
    have h1 := decImm_mono_of f n (dec_mono f)
    have h2 := decList_mono args (decImm f n).n
    simp only [dec]; unfold decImm at *; omega
  | .toDyn tr forTy ty e, n => by simp only [dec]; exact decImm_mono_of e n (dec_mono e)
  | .dynCall tr m ty recv args, n => by
    have h1 := decImm_mono_of recv n (dec_mono recv)
    have h2 := decList_mono args (decImm recv n).n
    simp only [dec]; unfold decImm at *; omega
  | .proj idx ty e, n => by simp only [dec]; exact decImm_mono_of e n (dec_mono e)

theorem decList_mono : ∀ (es : List Expr) (n : Nat), n ≤ (decList es n).n
  | [], n => by simp [decList]
  | e :: rest, n => by
    have h1 := decImm_mono_of e n (dec_mono e)
    have h2 := decList_mono rest (decImm e n).n
    simp only [decList]; unfold decImm at *; omega

theorem anfArms_mono : ∀ (arms : List Arm) (n : Nat), n ≤ (anfArms arms n).2
  | [], n => by simp [anfArms]
  | .mk lhs body :: rest, n => by
    have h1 := dec_mono body n
    have h2 := anfArms_mono rest (dec body n).n
    simp only [anfArms, anf_ret]; omega

theorem anfDflt_mono : ∀ (d : Option Expr) (n : Nat), n ≤ (anfDflt d n).2
  | none, n => by simp [anfDflt]
  | some e, n => by
    have h1 := dec_mono e n
    simp only [anfDflt, anf_ret]; omega
end

theorem decImm_mono (e : Expr) (n : Nat) : n ≤ (decImm e n).n := decImm_mono_of e n (dec_mono e)

/-! ### which names a binding chain binds -/

def keys (L : Binds) : List String := L.map Prod.fst

@[simp] theorem keys_nil : keys [] = [] := rfl
@[simp] theorem keys_cons (x : String) (v : Expr) (L : Binds) : keys ((x, v) :: L) = x :: keys L := rfl
@[simp] theorem keys_append (L1 L2 : Binds) : keys (L1 ++ L2) = keys L1 ++ keys L2 := by
  simp [keys]

/-- `x` is a `let`-bound name from `bs` or one of the temporaries `t<n>` … `t<n'-1>` -/
def KeyOk (bs : List String) (n n' : Nat) (x : String) : Prop :=
  x ∈ bs ∨ ∃ m, n ≤ m ∧ m < n' ∧ x = tmpName m

theorem KeyOk.weaken {bs bs' : List String} {n n' n0 n1 : Nat} {x : String} (h : KeyOk bs n n' x)
    (hbs : ∀ y, y ∈ bs → y ∈ bs') (h0 : n0 ≤ n) (h1 : n' ≤ n1) : KeyOk bs' n0 n1 x := by
  rcases h with h | ⟨m, hm1, hm2, hm3⟩
  · exact Or.inl (hbs _ h)
  · exact Or.inr ⟨m, by omega, by omega, hm3⟩

theorem decImm_keys_of (e : Expr) (n : Nat)
    (h : ∀ n x, x ∈ keys (dec e n).L → KeyOk (bnd e) n (dec e n).n x) (x : String)
    (hx : x ∈ keys (decImm e n).L) : KeyOk (bnd e) n (decImm e n).n x := by
  unfold decImm decImmK at hx ⊢
  split at hx
  · simp at hx
  · simp at hx
  · simp only [keys_append, keys_cons, keys_nil, List.mem_append, List.mem_singleton] at hx
    have hm := dec_mono e (n + 1)
    rcases hx with hx | hx
    · exact (h (n + 1) x hx).weaken (fun _ hy => hy) (by omega) (Nat.le_refl _)
    · exact Or.inr ⟨n, Nat.le_refl _, by simp only; omega, hx⟩

mutual
theorem dec_keys : ∀ (e : Expr) (n : Nat) (x : String), x ∈ keys (dec e n).L → KeyOk (bnd e) n (dec e n).n x
  | .var _ _, n, x, hx => by simp [dec] at hx
  | .prim p, n, x, hx => by simp [dec] at hx
  | .tag idx ty, n, x, hx => by simp [dec] at hx
  | .closure ty ps b, n, x, hx => by simp [dec] at hx
  | .traitCall tr m ty recv args, n, x, hx => by simp [dec] at hx
  | .constr (.enum tn vn idx) ty [], n, x, hx => by simp [dec] at hx
  | .constr (.struct sn) ty [], n, x, hx => by simp [dec, decList] at hx
  | .constr c ty (a :: as), n, x, hx => by
    simp only [dec] at hx ⊢
    exact (decList_keys (a :: as) n x hx).weaken (fun y hy => by simpa [bnd] using hy) (Nat.le_refl _) (Nat.le_refl _)
  | .tuple ty items, n, x, hx => by
    simp only [dec] at hx ⊢
    exact (decList_keys items n x hx).weaken (fun y hy => by simpa [bnd] using hy) (Nat.le_refl _) (Nat.le_refl _)
  | .array ty items, n, x, hx => by
    simp only [dec] at hx ⊢
    exact (decList_keys items n x hx).weaken (fun y hy => by simpa [bnd] using hy) (Nat.le_refl _) (Nat.le_refl _)
  | .letE y v b, n, x, hx => by
    have h1 := dec_mono v n
    have h2 := dec_mono b (dec v n).n
    simp only [dec, keys_append, keys_cons, List.mem_append, List.mem_cons] at hx ⊢
    rcases hx with hx | hx | hx
    · exact (dec_keys v n x hx).weaken (fun z hz => by simp [bnd, hz]) (Nat.le_refl _) (by omega)
    · exact Or.inl (by simp [bnd, hx])
    · exact (dec_keys b _ x hx).weaken (fun z hz => by simp [bnd, hz]) (by omega) (Nat.le_refl _)
  | .ite c t e, n, x, hx => by
    have h1 := decImm_mono c n
    have h2 := dec_mono t (decImm c n).n
    have h3 := dec_mono e (dec t (decImm c n).n).n
    simp only [dec] at hx ⊢
    refine (decImm_keys_of c n (dec_keys c) x hx).weaken (fun z hz => by simp [bnd, hz]) (Nat.le_refl _) ?_
    simp only [anf_ret]; unfold decImm at *; omega
  | .while c b, n, x, hx => by simp [dec] at hx
  | .go e, n, x, hx => by
    simp only [dec] at hx ⊢
    exact (decImm_keys_of e n (dec_keys e) x hx).weaken (fun z hz => by simpa [bnd] using hz) (Nat.le_refl _) (Nat.le_refl _)
  | .matchE ty s arms dflt, n, x, hx => by
    have h1 := decImm_mono s n
    have h2 := anfArms_mono arms (decImm s n).n
    have h3 := anfDflt_mono dflt (anfArms arms (decImm s n).n).2
    simp only [dec] at hx ⊢
    refine (decImm_keys_of s n (dec_keys s) x hx).weaken (fun z hz => by simp [bnd, hz]) (Nat.le_refl _) ?_
    unfold decImm at *; omega
  | .cget c idx ty e, n, x, hx => by
    simp only [dec] at hx ⊢
    exact (decImm_keys_of e n (dec_keys e) x hx).weaken (fun z hz => by simpa [bnd] using hz) (Nat.le_refl _) (Nat.le_refl _)
  | .un op ty e, n, x, hx => by
    simp only [dec] at hx ⊢
    exact (decImm_keys_of e n (dec_keys e) x hx).weaken (fun z hz => by simpa [bnd] using hz) (Nat.le_refl _) (Nat.le_refl _)
  | .bin op ty l r, n, x, hx => by
    have h1 := decImm_mono l n
    have h2 := dec_mono r (decImm l n).n
    have h3 := decImm_mono r (decImm l n).n
    simp only [dec] at hx ⊢
    split at hx
    · rename_i hc
      simp only [hc, if_true]
      have hx' : x ∈ keys (decImm l n).L := by
        unfold decImm; split at hx <;> exact hx
      refine (decImm_keys_of l n (dec_keys l) x hx').weaken (fun z hz => by simp [bnd, hz]) (Nat.le_refl _) ?_
      unfold decImm at *
      split <;> simp only [anf_ret] <;> omega
    · rename_i hc
      simp only [hc]
      simp only [keys_append, List.mem_append] at hx
      rcases hx with hx | hx
      · refine (decImm_keys_of l n (dec_keys l) x hx).weaken (fun z hz => by simp [bnd, hz]) (Nat.le_refl _) ?_
        unfold decImm at *; simp only [Bool.false_eq_true, if_false]; omega
      · refine (decImm_keys_of r _ (dec_keys r) x hx).weaken (fun z hz => by simp [bnd, hz]) ?_ ?_
        · unfold decImm at *; omega
        · simp only [Bool.false_eq_true, if_false]; exact Nat.le_refl _
  | .call ty f args, n, x, hx => by
    have h1 := decImm_mono f n
    have h2 := decList_mono args (decImm f n).n
    simp only [dec, keys_append, List.mem_append] at hx ⊢
    rcases hx with hx | hx
    · refine (decImm_keys_of f n (dec_keys f) x hx).weaken (fun z hz => by simp [bnd, hz]) (Nat.le_refl _) ?_
      unfold decImm at *; omega
    · refine (decList_keys args _ x hx).weaken (fun z hz => by simp [bnd, hz]) ?_ (Nat.le_refl _)
      unfold decImm at *; omega
  | .toDyn tr forTy ty e, n, x, hx => by
    simp only [dec] at hx ⊢
    exact (decImm_keys_of e n (dec_keys e) x hx).weaken (fun z hz => by simpa [bnd] using hz) (Nat.le_refl _) (Nat.le_refl _)
  | .dynCall tr m ty recv args, n, x, hx => by
    have h1 := decImm_mono recv n
    have h2 := decList_mono args (decImm recv n).n
    simp only [dec, keys_append, List.mem_append] at hx ⊢
    rcases hx with hx | hx
    · refine (decImm_keys_of recv n (dec_keys recv) x hx).weaken (fun z hz => by simp [bnd, hz]) (Nat.le_refl _) ?_
      unfold decImm at *; omega
    · refine (decList_keys args _ x hx).weaken (fun z hz => by simp [bnd, hz]) ?_ (Nat.le_refl _)
      unfold decImm at *; omega
  | .proj idx ty e, n, x, hx => by
    simp only [dec] at hx ⊢
    exact (decImm_keys_of e n (dec_keys e) x hx).weaken (fun z hz => by simpa [bnd] using hz) (Nat.le_refl _) (Nat.le_refl _)

theorem decList_keys : ∀ (es : List Expr) (n : Nat) (x : String),
    x ∈ keys (decList es n).L → KeyOk (bndList es) n (decList es n).n x
  | [], n, x, hx => by simp [decList] at hx
  | e :: rest, n, x, hx => by
    have h1 := decImm_mono e n
    have h2 := decList_mono rest (decImm e n).n
    simp only [decList, keys_append, List.mem_append] at hx ⊢
    rcases hx with hx | hx
    · refine (decImm_keys_of e n (dec_keys e) x hx).weaken (fun z hz => by simp [bndList, hz]) (Nat.le_refl _) ?_
      unfold decImm at *; omega
    · refine (decList_keys rest _ x hx).weaken (fun z hz => by simp [bndList, hz]) ?_ (Nat.le_refl _)
      unfold decImm at *; omega
end

theorem decImm_keys (e : Expr) (n : Nat) (x : String) (hx : x ∈ keys (decImm e n).L) :
    KeyOk (bnd e) n (decImm e n).n x := decImm_keys_of e n (dec_keys e) x hx

end Goml.Anf
