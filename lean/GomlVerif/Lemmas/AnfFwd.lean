import GomlVerif.Lemmas.AnfHyp
import GomlVerif.Lemmas.SemOps
/-!
Forward simulation: whatever the source expression evaluates to (other than "no rule"), the
ANF chain evaluates to as well.
-/
namespace Goml.Anf
open Goml Goml.Sem

variable (P : Prog)

/-- forward statement for an expression in non-tail position (bindings, then the final expression) -/
def FW (e : Expr) : Prop :=
  ∀ (n N : Nat) (D : List String) (ρ ρ' : Env) (w : World) (r : Res Val),
    Hyp D e n N → Agree D ρ ρ' → Ev P e ρ w r → ¬Stuck r →
    RB (EvB P (dec e n).L ρ' w) (fun ρ1 w1 => Ev P (dec e n).c ρ1 w1) r

/-- forward statement for a branch / body / function body -/
def FWTop (e : Expr) : Prop :=
  ∀ (n N : Nat) (D : List String) (ρ ρ' : Env) (w : World) (r : Res Val),
    Hyp D e n N → Agree D ρ ρ' → Ev P e ρ w r → ¬Stuck r → Ev P (anf e n ret).1 ρ' w r

/-- forward statement for an operand: bindings, then an atom with the operand's value -/
def FWImm (e : Expr) : Prop :=
  ∀ (n N : Nat) (D : List String) (ρ ρ' : Env) (w : World) (r : Res Val),
    frag e = true → (∀ x ∈ names e, x ∉ D) → (∀ m, n ≤ m → m < N → tmpName m ∉ names e) →
    (decImm e n).n ≤ N → Agree D ρ ρ' → Ev P e ρ w r → ¬Stuck r →
    RB (EvB P (decImm e n).L ρ' w) (fun ρ1 w1 r => r = .ok (atomVal ρ1 (decImm e n).c) w1) r

def FWL (es : List Expr) : Prop :=
  ∀ (n N : Nat) (D : List String) (ρ ρ' : Env) (w : World) (r : Res (List Val)),
    HypL D es n N → Agree D ρ ρ' → EvL P es ρ w r → ¬Stuck r →
    RB (EvB P (decList es n).L ρ' w) (fun ρ1 w1 r => r = .ok ((decList es n).cs.map (atomVal ρ1)) w1) r

theorem fw_top {e : Expr} (h : FW P e) : FWTop P e := by
  intro n N D ρ ρ' w r hy ha he hs
  rw [anf_ret]
  exact ev_wrap.2 (h n N D ρ ρ' w r hy ha he hs)

theorem fw_imm {e : Expr} (h : FW P e) : FWImm P e := by
  intro n N D ρ ρ' w r hf hd hfr hb ha he hs
  cases hat : isAtom e
  · -- a complex operand: name it
    rw [decImm_nonatom hat] at hb ⊢
    simp only at hb ⊢
    have hy : Hyp D e (n+1) N := ⟨hf, hd, fun m h1 h2 => hfr m (by omega) h2, hb⟩
    rcases h (n+1) N D ρ ρ' w r hy ha he hs with ⟨f, w', h1, rfl⟩ | ⟨ρ0, w0, h1, h2⟩
    · exact Or.inl ⟨f, w', evB_snoc.2 (Or.inl ⟨f, w', h1, rfl⟩), rfl⟩
    · cases r with
      | fail f w' =>
        exact Or.inl ⟨f, w', evB_snoc.2 (Or.inr ⟨ρ0, w0, h1, Or.inl ⟨f, w', h2, rfl⟩⟩), rfl⟩
      | ok v w' =>
        refine Or.inr ⟨(tmpName n, v) :: ρ0, w', evB_snoc.2 (Or.inr ⟨ρ0, w0, h1, Or.inr ⟨v, w', h2, rfl⟩⟩), ?_⟩
        simp only [atomVal, lookupVal_cons_self]
  · rw [decImm_atom hat]
    simp only
    rw [ev_atom hat] at he
    subst he
    refine Or.inr ⟨ρ', w, rfl, ?_⟩
    rw [atomVal_congr (ρ := ρ) (ρ' := ρ') (fun x hx => ha x (hd x hx))]

/-- a node that evaluates its operands left to right and then applies `H` to their values -/
theorem fw_ops {e : Expr} {ops : List Expr} {H : List Val → World → Res Val → Prop} {mk : List Expr → Expr}
    (hL : FWL P ops)
    (hdec : ∀ n, (dec e n).L = (decList ops n).L ∧ (dec e n).c = mk (decList ops n).cs ∧ (dec e n).n = (decList ops n).n)
    (hhyp : ∀ D n N, Hyp D e n N → HypL D ops n N)
    (hsrc : ∀ ρ w r, Ev P e ρ w r → ¬Stuck r → RB (EvL P ops ρ w) H r)
    (htgt : ∀ n ρ w r, RB (EvL P (decList ops n).cs ρ w) H r → Ev P (mk (decList ops n).cs) ρ w r) :
    FW P e := by
  intro n N D ρ ρ' w r hy ha he hs
  obtain ⟨hd1, hd2, _⟩ := hdec n
  rw [hd1, hd2]
  rcases hsrc ρ w r he hs with ⟨f, w', h1, rfl⟩ | ⟨vs, w1, h1, h2⟩
  · have hs' : ¬Stuck (Res.fail (α := List Val) f w') := fun h => hs ((Stuck_fail_iff f w' w').1 h)
    rcases hL n N D ρ ρ' w _ (hhyp D n N hy) ha h1 hs' with ⟨f', w'', h3, h4⟩ | ⟨ρ1, w1, _, h4⟩
    · cases h4; exact Or.inl ⟨f, w', h3, rfl⟩
    · cases h4
  · rcases hL n N D ρ ρ' w _ (hhyp D n N hy) ha h1 (by simp) with ⟨f', w'', _, h4⟩ | ⟨ρ1, w1', h3, h4⟩
    · cases h4
    · cases h4
      refine Or.inr ⟨ρ1, w1, h3, htgt n ρ1 w1 r ?_⟩
      exact Or.inr ⟨_, w1, (evL_atoms (decList_cs_atoms ops n)).2 rfl, h2⟩

theorem hypL_tail {D : List String} {e : Expr} {rest : List Expr} {n N : Nat} (hy : HypL D (e :: rest) n N) :
    HypL (D ++ keys (decImm e n).L) rest (decImm e n).n N := by
  obtain ⟨hf, hd, hfr, hb⟩ := hy
  simp only [fragList, Bool.and_eq_true] at hf
  obtain ⟨⟨⟨hf1, hf2⟩, hf3⟩, hf4⟩ := hf
  have hm1 := decImm_mono e n
  refine ⟨hf2, ?_, ?_, ?_⟩
  · intro x hx
    simp only [List.mem_append, not_or]
    refine ⟨hd x (by simp [namesList, hx]), fun hk => ?_⟩
    have hb' : (decImm e n).n ≤ N := by
      have := decList_mono rest (decImm e n).n
      simp only [decList] at hb; unfold decImm at *; omega
    exact keyOk_not_mem (decImm_keys e n x hk) hf3
      (fun m h1 h2 hm => hfr m h1 h2 (by simp [namesList, hm])) (Nat.le_refl n) hb' hx
  · intro m h1 h2 hm
    exact hfr m (by omega) h2 (by simp [namesList, hm])
  · simpa [decList, decImm] using hb

theorem fwL_cons {e : Expr} {rest : List Expr} (he : FWImm P e) (hr : FWL P rest) : FWL P (e :: rest) := by
  intro n N D ρ ρ' w r hy ha hev hs
  have hyt := hypL_tail hy
  obtain ⟨hf, hd, hfr, hb⟩ := hy
  simp only [fragList, Bool.and_eq_true] at hf
  obtain ⟨⟨⟨hf1, hf2⟩, hf3⟩, hf4⟩ := hf
  have hm1 := decImm_mono e n
  have hm2 := decList_mono rest (decImm e n).n
  have hbe : (decImm e n).n ≤ N := by simp only [decList] at hb; unfold decImm at *; omega
  have hbr : (decList rest (decImm e n).n).n ≤ N := by simpa [decList, decImm] using hb
  have hde : ∀ x ∈ names e, x ∉ D := fun x hx => hd x (by simp [namesList, hx])
  have hfre : ∀ m, n ≤ m → m < N → tmpName m ∉ names e :=
    fun m h1 h2 hm => hfr m h1 h2 (by simp [namesList, hm])
  show RB (EvB P ((decImm e n).L ++ (decList rest (decImm e n).n).L) ρ' w)
    (fun ρ1 w1 r => r = .ok (((decImm e n).c :: (decList rest (decImm e n).n).cs).map (atomVal ρ1)) w1) r
  rcases evL_cons.1 hev with ⟨f, w', h1, rfl⟩ | ⟨v, w1, h1, h2⟩
  · have hs' : ¬Stuck (Res.fail (α := Val) f w') := fun h => hs ((Stuck_fail_iff f w' w').1 h)
    rcases he n N D ρ ρ' w _ hf1 hde hfre hbe ha h1 hs' with ⟨f', w'', h3, h4⟩ | ⟨_, _, _, h4⟩
    · cases h4; exact Or.inl ⟨f, w', evB_append.2 (Or.inl ⟨f, w', h3, rfl⟩), rfl⟩
    · cases h4
  · rcases he n N D ρ ρ' w _ hf1 hde hfre hbe ha h1 (by simp) with ⟨_, _, _, h4⟩ | ⟨ρ1, w1', h3, h4⟩
    · cases h4
    · cases h4
      have ha1 : Agree (D ++ keys (decImm e n).L) ρ ρ1 := evB_agree h3 ha
      rcases h2 with ⟨f, w', h5, rfl⟩ | ⟨vs, w2, h5, rfl⟩
      · have hs' : ¬Stuck (Res.fail (α := List Val) f w') := fun h => hs ((Stuck_fail_iff f w' w').1 h)
        rcases hr _ N _ ρ ρ1 w1 _ hyt ha1 h5 hs' with ⟨f', w'', h6, h7⟩ | ⟨_, _, _, h7⟩
        · cases h7
          exact Or.inl ⟨f, w', evB_append.2 (Or.inr ⟨ρ1, w1, h3, h6⟩), rfl⟩
        · cases h7
      · rcases hr _ N _ ρ ρ1 w1 _ hyt ha1 h5 (by simp) with ⟨_, _, _, h7⟩ | ⟨ρ2, w2', h6, h7⟩
        · cases h7
        · cases h7
          refine Or.inr ⟨ρ2, w2, evB_append.2 (Or.inr ⟨ρ1, w1, h3, h6⟩), ?_⟩
          simp only [List.map_cons]
          rw [atom_stable hf4 hfr hbr h6]

theorem fwL_nil : FWL P [] := by
  intro n N D ρ ρ' w r _ _ hev _
  rw [evL_nil] at hev
  subst hev
  exact Or.inr ⟨ρ', w, rfl, rfl⟩

theorem NF_of_bind_fail {α β} {f : Fail} {w : World} (h : NF (Res.fail (α := β) f w)) :
    NF (Res.fail (α := α) f w) := by rw [NF_fail] at h ⊢; exact h

/-- `while` is a congruence for the forward direction -/
theorem while_fw {c b c' b' : Expr} {ρ ρ' : Env}
    (hc : ∀ w r, Ev P c ρ w r → ¬Stuck r → Ev P c' ρ' w r)
    (hb : ∀ w r, Ev P b ρ w r → ¬Stuck r → Ev P b' ρ' w r) :
    ∀ w r, Ev P (.while c b) ρ w r → ¬Stuck r → Ev P (.while c' b') ρ' w r := by
  intro w r ⟨n, h, hnf⟩ hs
  simp only at h
  induction n generalizing w r with
  | zero => simp only [eval_zero] at h; subst h; simp at hnf
  | succ n ih =>
    rw [eval_while_succ] at h
    cases hcv : eval n P ρ w c with
    | fail f w1 =>
      rw [hcv] at h; simp only [Res.bind] at h; subst h
      have hnf' : NF (Res.fail (α := Val) f w1) := hnf
      exact ev_while.2 (Or.inl ⟨f, w1, hc w _ ⟨n, hcv, hnf'⟩ hs, rfl⟩)
    | ok v w1 =>
      rw [hcv] at h; simp only [Res.bind] at h
      have hc' := hc w _ ⟨n, hcv, by simp⟩ (by simp)
      unfold whileG at h
      split at h
      · -- true: run the body, then loop
        cases hbv : eval n P ρ w1 b with
        | fail f w2 =>
          rw [hbv] at h; simp only [Res.bind] at h; subst h
          have hnf' : NF (Res.fail (α := Val) f w2) := hnf
          exact ev_while.2 (Or.inr ⟨_, w1, hc', Or.inl ⟨f, w2, hb w1 _ ⟨n, hbv, hnf'⟩ hs, rfl⟩⟩)
        | ok u w2 =>
          rw [hbv] at h; simp only [Res.bind] at h
          have hb' := hb w1 _ ⟨n, hbv, by simp⟩ (by simp)
          exact ev_while.2 (Or.inr ⟨_, w1, hc', Or.inr ⟨u, w2, hb', ih w2 r h hnf hs⟩⟩)
      · subst h
        exact ev_while.2 (Or.inr ⟨_, w1, hc', rfl⟩)
      · subst h; simp at hs

end Goml.Anf
