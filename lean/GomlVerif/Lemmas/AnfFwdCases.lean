import GomlVerif.Lemmas.AnfFwd
/-!
Forward simulation, node by node.
-/
namespace Goml.Anf
open Goml Goml.Sem

variable (P : Prog)

theorem fw_var (x : String) (ty : Ty) : FW P (.var x ty) := by
  intro n N D ρ ρ' w r hy ha he _
  rw [ev_var] at he; subst he
  refine Or.inr ⟨ρ', w, rfl, ?_⟩
  show Ev P (.var x ty) ρ' w _
  rw [ev_var, lookupVal_congr (ha x (hy.dis x (by simp [names])))]

theorem fw_prim (p : Prim) : FW P (.prim p) := by
  intro n N D ρ ρ' w r _ _ he _
  rw [ev_prim] at he; subst he
  exact Or.inr ⟨ρ', w, rfl, ev_prim.2 rfl⟩

/-- one operand, then a head -/
theorem fw_op1 {e0 e : Expr} {K : Val → World → Res Val → Prop} {mk1 : Expr → Expr}
    (he : FW P e)
    (hdec : ∀ n, dec e0 n = ⟨(decImm e n).L, mk1 (decImm e n).c, (decImm e n).n⟩)
    (hfrag : frag e0 = frag e) (hnames : names e0 = names e)
    (hsrc : ∀ ρ w r, Ev P e0 ρ w r ↔ RB (Ev P e ρ w) K r)
    (htgt : ∀ i ρ w r, Ev P (mk1 i) ρ w r ↔ RB (Ev P i ρ w) K r) : FW P e0 := by
  intro n N D ρ ρ' w r hy ha hev hs
  obtain ⟨hf, hd, hfr, hb⟩ := hy
  rw [hdec] at hb ⊢
  simp only at hb ⊢
  rw [hfrag] at hf; rw [hnames] at hd hfr
  rcases (hsrc ρ w r).1 hev with ⟨f, w', h1, rfl⟩ | ⟨v, w1, h1, h2⟩
  · have hs' : ¬Stuck (Res.fail (α := Val) f w') := hs
    rcases fw_imm P he n N D ρ ρ' w _ hf hd hfr hb ha h1 hs' with ⟨f', w'', h3, h4⟩ | ⟨_, _, _, h4⟩
    · cases h4; exact Or.inl ⟨f, w', h3, rfl⟩
    · cases h4
  · rcases fw_imm P he n N D ρ ρ' w _ hf hd hfr hb ha h1 (by simp) with ⟨_, _, _, h4⟩ | ⟨ρ1, w1', h3, h4⟩
    · cases h4
    · cases h4
      refine Or.inr ⟨ρ1, w1, h3, (htgt _ ρ1 w1 r).2 (Or.inr ⟨_, w1, (ev_atom (decImm_c_atom e n)).2 rfl, h2⟩)⟩

theorem fw_un {op : UnOp} {ty : Ty} {e : Expr} (he : FW P e) : FW P (.un op ty e) :=
  fw_op1 P (mk1 := fun i => .un op ty i) he (fun n => rfl) (by simp [frag]) (by simp [names])
    (fun _ _ _ => ev_un) (fun _ _ _ _ => ev_un)

theorem fw_cget {c : Ctor} {idx : Nat} {ty : Ty} {e : Expr} (he : FW P e) : FW P (.cget c idx ty e) :=
  fw_op1 P (mk1 := fun i => .cget c idx ty i) he (fun n => rfl) (by simp [frag]) (by simp [names])
    (fun _ _ _ => ev_cget) (fun _ _ _ _ => ev_cget)

theorem fw_proj {idx : Nat} {ty : Ty} {e : Expr} (he : FW P e) : FW P (.proj idx ty e) :=
  fw_op1 P (mk1 := fun i => .proj idx ty i) he (fun n => rfl) (by simp [frag]) (by simp [names])
    (fun _ _ _ => ev_proj) (fun _ _ _ _ => ev_proj)

theorem fw_toDyn {tr : String} {forTy ty : Ty} {e : Expr} (he : FW P e) : FW P (.toDyn tr forTy ty e) :=
  fw_op1 P (mk1 := fun i => .toDyn tr forTy ty i) he (fun n => rfl) (by simp [frag]) (by simp [names])
    (fun _ _ _ => ev_toDyn) (fun _ _ _ _ => ev_toDyn)

theorem fw_go {e : Expr} (he : FW P e) : FW P (.go e) :=
  fw_op1 P (mk1 := fun i => .go i) he (fun n => rfl) (by simp [frag]) (by simp [names])
    (fun _ _ _ => ev_go) (fun _ _ _ _ => ev_go)

/-! ### operand lists -/

theorem fw_tuple {ty : Ty} {items : List Expr} (hL : FWL P items) : FW P (.tuple ty items) :=
  fw_ops P (mk := fun cs => .tuple ty cs) (H := fun vs w r => r = .ok (.tuple vs) w) hL
    (fun n => ⟨rfl, rfl, rfl⟩)
    (fun D n N hy => ⟨by simpa [frag] using hy.frag, by simpa [names] using hy.dis,
      by simpa [names] using hy.fresh, hy.bound⟩)
    (fun _ _ _ h _ => ev_tuple.1 h) (fun _ _ _ _ h => ev_tuple.2 h)

theorem fw_array {ty : Ty} {items : List Expr} (hL : FWL P items) : FW P (.array ty items) :=
  fw_ops P (mk := fun cs => .array ty cs) (H := fun vs w r => r = .ok (.array vs) w) hL
    (fun n => ⟨rfl, rfl, rfl⟩)
    (fun D n N hy => ⟨by simpa [frag] using hy.frag, by simpa [names] using hy.dis,
      by simpa [names] using hy.fresh, hy.bound⟩)
    (fun _ _ _ h _ => ev_array.1 h) (fun _ _ _ _ h => ev_array.2 h)

theorem dec_constr_general {c : Ctor} {ty : Ty} {args : List Expr}
    (h : ∀ tn vn idx, c = .enum tn vn idx → args ≠ []) (n : Nat) :
    dec (.constr c ty args) n = ⟨(decList args n).L, .constr c ty (decList args n).cs, (decList args n).n⟩ := by
  cases c with
  | struct sn => cases args <;> rfl
  | enum tn vn idx =>
    cases args with
    | nil => exact absurd rfl (h tn vn idx rfl)
    | cons a as => rfl

theorem fw_constr {c : Ctor} {ty : Ty} {args : List Expr}
    (h : ∀ tn vn idx, c = .enum tn vn idx → args ≠ []) (hL : FWL P args) : FW P (.constr c ty args) :=
  fw_ops P (mk := fun cs => .constr c ty cs) (H := fun vs w r => r = .ok (mkCtor c vs) w) hL
    (fun n => by rw [dec_constr_general h]; exact ⟨rfl, rfl, rfl⟩)
    (fun D n N hy => ⟨by have := hy.frag; simp only [frag, Bool.and_eq_true] at this; exact this.2,
      by simpa [names] using hy.dis, by simpa [names] using hy.fresh,
      by have := hy.bound; rw [dec_constr_general h] at this; exact this⟩)
    (fun _ _ _ h _ => ev_constr.1 h) (fun _ _ _ _ h => ev_constr.2 h)

theorem fw_constr_nullary {tn vn : String} {idx : Nat} {ty : Ty} : FW P (.constr (.enum tn vn idx) ty []) := by
  intro n N D ρ ρ' w r hy _ he _
  have hf := hy.frag
  simp only [frag, fragList, Bool.and_true, beq_iff_eq] at hf
  rw [ev_constr, rb_evL_nil] at he
  subst he
  refine Or.inr ⟨ρ', w, rfl, ?_⟩
  show Ev P (.tag idx ty) ρ' w _
  rw [ev_tag, hf]; rfl

theorem fw_call {ty : Ty} {f : Expr} {args : List Expr} (hL : FWL P (f :: args)) : FW P (.call ty f args) :=
  fw_ops P (mk := fun cs => match cs with | fi :: is => .call ty fi is | [] => .prim .unit) (H := callH P) hL
    (fun n => ⟨rfl, rfl, rfl⟩)
    (fun D n N hy => ⟨by simpa [frag, fragList] using hy.frag, by simpa [names, namesList] using hy.dis,
      by simpa [names, namesList] using hy.fresh, hy.bound⟩)
    (fun _ _ _ h _ => ev_call_ops.1 h)
    (fun _ _ _ _ h => ev_call_ops.2 h)

theorem fw_dynCall {tr m : String} {ty : Ty} {recv : Expr} {args : List Expr} (hL : FWL P (recv :: args)) :
    FW P (.dynCall tr m ty recv args) :=
  fw_ops P (mk := fun cs => match cs with | ri :: is => .dynCall tr m ty ri is | [] => .prim .unit)
    (H := dynH P tr m) hL
    (fun n => ⟨rfl, rfl, rfl⟩)
    (fun D n N hy => ⟨by simpa [frag, fragList] using hy.frag, by simpa [names, namesList] using hy.dis,
      by simpa [names, namesList] using hy.fresh, hy.bound⟩)
    (fun _ _ _ h hs => dyn_src_fw h hs)
    (fun n _ _ _ h => (dyn_tgt (decImm_c_atom recv n) (decList_cs_atoms args _)).2 h)

theorem fw_bin_plain {op : BinOp} {ty : Ty} {l r : Expr}
    (hc : ((op == .and || op == .or) && !trivialRhs r) = false) (hL : FWL P [l, r]) : FW P (.bin op ty l r) := by
  have hcase : isAtom r = true ∨ (op ≠ .and ∧ op ≠ .or) := by
    cases hr : isAtom r
    · right; rw [trivialRhs_eq_isAtom, hr] at hc
      cases op <;> first | exact ⟨by decide, by decide⟩ | (exfalso; revert hc; decide)
    · left; rfl
  refine fw_ops P (mk := fun cs => match cs with | [li, ri] => .bin op ty li ri | _ => .prim .unit)
    (H := binH op) hL ?_ ?_ (fun _ _ _ h _ => (ev_bin_ops hcase).1 h) ?_
  · intro n
    simp [dec, hc, decList, decImm]
  · intro D n N hy
    refine ⟨?_, ?_, ?_, ?_⟩
    · have := hy.frag
      simp only [frag, Bool.and_eq_true] at this
      simp only [fragList, Bool.and_eq_true, bndList, namesList, List.append_nil, disj_nil_left, disj_nil_right,
        and_true]
      exact ⟨⟨⟨this.1.1.1, this.1.1.2⟩, this.1.2⟩, this.2⟩
    · simpa [names, namesList] using hy.dis
    · simpa [names, namesList] using hy.fresh
    · have := hy.bound
      simp only [dec, hc, Bool.false_eq_true, if_false] at this
      simpa [decList, decImm] using this
  · intro n ρ w x h
    exact (ev_bin_ops (Or.inl (decImm_c_atom r _))).2 h

/-! ### nodes with sub-expressions in tail position -/

theorem hyp_child {D : List String} {e : Expr} {n N : Nat} (hy : Hyp D e n N) {child : Expr} {L : Binds}
    {bs : List String} {n0 n1 n' : Nat} (hfc : frag child = true) (hsub : ∀ x ∈ names child, x ∈ names e)
    (hk : ∀ x ∈ keys L, KeyOk bs n0 n1 x) (hdj : disj bs (names child) = true) (h0 : n ≤ n0) (h1 : n1 ≤ N)
    (hn' : n ≤ n') (hb : (dec child n').n ≤ N) : Hyp (D ++ keys L) child n' N := by
  refine ⟨hfc, ?_, ?_, hb⟩
  · intro x hx
    simp only [List.mem_append, not_or]
    refine ⟨hy.dis x (hsub x hx), fun hkx => ?_⟩
    exact keyOk_not_mem (hk x hkx) hdj (fun m hm1 hm2 hm => hy.fresh m hm1 hm2 (hsub _ hm)) h0 h1 hx
  · intro m hm1 hm2 hm
    exact hy.fresh m (by omega) hm2 (hsub _ hm)

theorem hyp_child0 {D : List String} {e : Expr} {n N : Nat} (hy : Hyp D e n N) {child : Expr} {n' : Nat}
    (hfc : frag child = true) (hsub : ∀ x ∈ names child, x ∈ names e) (hn' : n ≤ n')
    (hb : (dec child n').n ≤ N) : Hyp D child n' N :=
  ⟨hfc, fun x hx => hy.dis x (hsub x hx), fun m hm1 hm2 hm => hy.fresh m (by omega) hm2 (hsub _ hm), hb⟩

theorem fw_letE {x : String} {v b : Expr} (hv : FW P v) (hb : FW P b) : FW P (.letE x v b) := by
  intro n N D ρ ρ' w r hy ha hev hs
  have hf := hy.frag
  simp only [frag, Bool.and_eq_true] at hf
  obtain ⟨⟨hfv, hfb⟩, hdj⟩ := hf
  have hm1 := dec_mono v n
  have hm2 := dec_mono b (dec v n).n
  have hbd := hy.bound
  simp only [dec] at hbd
  have hyv : Hyp D v n N := hyp_child0 hy hfv (fun x hx => by simp [names, hx]) (Nat.le_refl _) (by omega)
  have hyb : Hyp (D ++ keys (dec v n).L) b (dec v n).n N :=
    hyp_child hy hfb (fun x hx => by simp [names, hx]) (dec_keys v n) hdj (Nat.le_refl _) (by omega) hm1 hbd
  show RB (EvB P ((dec v n).L ++ (x, (dec v n).c) :: (dec b (dec v n).n).L) ρ' w)
    (fun ρ1 w1 => Ev P (dec b (dec v n).n).c ρ1 w1) r
  rcases ev_letE.1 hev with ⟨f, w', h1, rfl⟩ | ⟨vv, w1, h1, h2⟩
  · rcases hv n N D ρ ρ' w _ hyv ha h1 hs with ⟨f', w'', h3, h4⟩ | ⟨ρ1, w0, h3, h4⟩
    · cases h4; exact Or.inl ⟨f, w', evB_append.2 (Or.inl ⟨f, w', h3, rfl⟩), rfl⟩
    · exact Or.inl ⟨f, w', evB_append.2 (Or.inr ⟨ρ1, w0, h3, Or.inl ⟨f, w', h4, rfl⟩⟩), rfl⟩
  · rcases hv n N D ρ ρ' w _ hyv ha h1 (by simp) with ⟨f', w'', _, h4⟩ | ⟨ρ1, w0, h3, h4⟩
    · cases h4
    · have ha1 : Agree (D ++ keys (dec v n).L) ((x, vv) :: ρ) ((x, vv) :: ρ1) := (evB_agree h3 ha).cons x vv
      rcases hb _ N _ _ _ w1 r hyb ha1 h2 hs with ⟨f, w', h5, rfl⟩ | ⟨ρ2, w2, h5, h6⟩
      · exact Or.inl ⟨f, w', evB_append.2 (Or.inr ⟨ρ1, w0, h3, Or.inr ⟨vv, w1, h4, h5⟩⟩), rfl⟩
      · exact Or.inr ⟨ρ2, w2, evB_append.2 (Or.inr ⟨ρ1, w0, h3, Or.inr ⟨vv, w1, h4, h5⟩⟩), h6⟩

theorem fw_ite {c t e : Expr} (hc : FW P c) (ht : FW P t) (he : FW P e) : FW P (.ite c t e) := by
  intro n N D ρ ρ' w r hy ha hev hs
  have hf := hy.frag
  simp only [frag, Bool.and_eq_true] at hf
  obtain ⟨⟨⟨hfc, hft⟩, hfe⟩, hdj⟩ := hf
  obtain ⟨hdjt, hdje⟩ := disj_append_right hdj
  have hm1 := decImm_mono c n
  have hm2 := dec_mono t (decImm c n).n
  have hm3 := dec_mono e (dec t (decImm c n).n).n
  have hbd := hy.bound
  simp only [dec, anf_ret] at hbd
  have hbd' : (dec e (dec t (decImm c n).n).n).n ≤ N := hbd
  have hyt : Hyp (D ++ keys (decImm c n).L) t (decImm c n).n N :=
    hyp_child hy hft (fun x hx => by simp [names, hx]) (decImm_keys c n) hdjt (Nat.le_refl _) (by omega) hm1 (by omega)
  have hye : Hyp (D ++ keys (decImm c n).L) e (dec t (decImm c n).n).n N :=
    hyp_child hy hfe (fun x hx => by simp [names, hx]) (decImm_keys c n) hdje (Nat.le_refl _) (by omega) (by omega) hbd'
  show RB (EvB P (decImm c n).L ρ' w)
    (fun ρ1 w1 => Ev P (.ite (decImm c n).c (anf t (decImm c n).n ret).1
      (anf e (anf t (decImm c n).n ret).2 ret).1) ρ1 w1) r
  have hci := fw_imm P hc n N D ρ ρ' w
  rcases ev_ite.1 hev with ⟨f, w', h1, rfl⟩ | ⟨v, w1, h1, h2⟩
  · rcases hci _ hfc (fun x hx => hy.dis x (by simp [names, hx]))
      (fun m a b hm => hy.fresh m a b (by simp [names, hm])) (by omega) ha h1 hs with ⟨f', w'', h3, h4⟩ | ⟨_, _, _, h4⟩
    · cases h4; exact Or.inl ⟨f, w', h3, rfl⟩
    · cases h4
  · rcases hci _ hfc (fun x hx => hy.dis x (by simp [names, hx]))
      (fun m a b hm => hy.fresh m a b (by simp [names, hm])) (by omega) ha h1 (by simp) with ⟨_, _, _, h4⟩ | ⟨ρ1, w1', h3, h4⟩
    · cases h4
    · cases h4
      have ha1 := evB_agree h3 ha
      refine Or.inr ⟨ρ1, w1, h3, ev_ite.2 (Or.inr ⟨_, w1, (ev_atom (decImm_c_atom c n)).2 rfl, ?_⟩)⟩
      unfold iteK at h2 ⊢
      split at h2
      · exact fw_top P ht _ N _ _ _ w1 r hyt ha1 h2 hs
      · have hcnt : (anf t (decImm c n).n ret).2 = (dec t (decImm c n).n).n := by rw [anf_ret]
        rw [hcnt]
        exact fw_top P he _ N _ _ _ w1 r hye ha1 h2 hs
      · subst h2; simp at hs

theorem fw_while {c b : Expr} (hc : FW P c) (hb : FW P b) : FW P (.while c b) := by
  intro n N D ρ ρ' w r hy ha hev hs
  have hf := hy.frag
  simp only [frag, Bool.and_eq_true] at hf
  have hm1 := dec_mono c n
  have hm2 := dec_mono b (dec c n).n
  have hbd := hy.bound
  simp only [dec, anf_ret] at hbd
  have hyc : Hyp D c n N := hyp_child0 hy hf.1 (fun x hx => by simp [names, hx]) (Nat.le_refl _) (by omega)
  have hyb : Hyp D b (dec c n).n N := hyp_child0 hy hf.2 (fun x hx => by simp [names, hx]) hm1 hbd
  refine Or.inr ⟨ρ', w, rfl, ?_⟩
  show Ev P (.while (anf c n ret).1 (anf b (anf c n ret).2 ret).1) ρ' w r
  have hcnt : (anf c n ret).2 = (dec c n).n := by rw [anf_ret]
  rw [hcnt]
  exact while_fw P (fun w r h hs => fw_top P hc n N D ρ ρ' w r hyc ha h hs)
    (fun w r h hs => fw_top P hb _ N D ρ ρ' w r hyb ha h hs) w r hev hs

/-- `a && b` / `a || b` with a complex right operand: lowered to `if` -/
theorem fw_bin_lowered {op : BinOp} {ty : Ty} {l r : Expr}
    (hc : ((op == .and || op == .or) && !trivialRhs r) = true) (hl : FW P l) (hr : FW P r) :
    FW P (.bin op ty l r) := by
  intro n N D ρ ρ' w x hy ha hev hs
  have hf := hy.frag
  simp only [frag, Bool.and_eq_true] at hf
  obtain ⟨⟨⟨hfl, hfr⟩, hdj⟩, _⟩ := hf
  have hm1 := decImm_mono l n
  have hm2 := dec_mono r (decImm l n).n
  have hbd := hy.bound
  obtain ⟨hop, hat⟩ := lowered_iff.1 hc
  have hcnt : (anf r (decImm l n).n ret).2 = (dec r (decImm l n).n).n := by rw [anf_ret]
  have hbd' : (dec r (decImm l n).n).n ≤ N := by
    rcases hop with rfl | rfl
    · rw [dec_and_lowered hat] at hbd; rw [← hcnt]; exact hbd
    · rw [dec_or_lowered hat] at hbd; rw [← hcnt]; exact hbd
  have hyr : Hyp (D ++ keys (decImm l n).L) r (decImm l n).n N :=
    hyp_child hy hfr (fun x hx => by simp [names, hx]) (decImm_keys l n) hdj (Nat.le_refl _) (by omega) hm1 hbd'
  have hli := fw_imm P hl n N D ρ ρ' w
  have hdl : ∀ x ∈ names l, x ∉ D := fun x hx => hy.dis x (by simp [names, hx])
  have hfrl : ∀ m, n ≤ m → m < N → tmpName m ∉ names l := fun m a b hm => hy.fresh m a b (by simp [names, hm])
  have hdecL : (dec (.bin op ty l r) n).L = (decImm l n).L := by
    rcases hop with rfl | rfl
    · rw [dec_and_lowered hat]
    · rw [dec_or_lowered hat]
  rw [hdecL]
  rcases ev_bin.1 hev with ⟨f, w', h1, rfl⟩ | ⟨a, w1, h1, h2⟩
  · rcases hli _ hfl hdl hfrl (by omega) ha h1 hs with ⟨f', w'', h3, h4⟩ | ⟨_, _, _, h4⟩
    · cases h4; exact Or.inl ⟨f, w', h3, rfl⟩
    · cases h4
  · rcases hli _ hfl hdl hfrl (by omega) ha h1 (by simp) with ⟨_, _, _, h4⟩ | ⟨ρ1, w1', h3, h4⟩
    · cases h4
    · cases h4
      have ha1 := evB_agree h3 ha
      have hatom : Ev P (decImm l n).c ρ1 w1 (.ok (atomVal ρ1 (decImm l n).c) w1) :=
        (ev_atom (decImm_c_atom l n)).2 rfl
      refine Or.inr ⟨ρ1, w1, h3, ?_⟩
      generalize atomVal ρ1 (decImm l n).c = a at h2 hatom
      -- what the right operand does in the source is what the branch does in the target
      have hrhs : ∀ b w2, Ev P r ρ w1 (.ok b w2) → Ev P (anf r (decImm l n).n ret).1 ρ1 w1 (.ok b w2) :=
        fun b w2 h => fw_top P hr _ N _ _ _ w1 _ hyr ha1 h (by simp)
      have hrhsf : ∀ f w2, Ev P r ρ w1 (.fail f w2) → ¬Stuck (Res.fail (α := Val) f w2) →
          Ev P (anf r (decImm l n).n ret).1 ρ1 w1 (.fail f w2) :=
        fun f w2 h hs => fw_top P hr _ N _ _ _ w1 _ hyr ha1 h hs
      unfold binK at h2
      rcases hop with rfl | rfl
      · -- &&
        rw [dec_and_lowered hat]
        cases a with
        | bool bv =>
          cases bv with
          | false =>
            simp only [scVal] at h2; subst h2
            exact ev_ite.2 (Or.inr ⟨_, w1, hatom, ev_prim.2 rfl⟩)
          | true =>
            simp only [scVal, logicalNonBool] at h2
            rcases h2 with ⟨f, w2, h5, rfl⟩ | ⟨b, w2, h5, rfl⟩
            · exact ev_ite.2 (Or.inr ⟨_, w1, hatom, hrhsf f w2 h5 hs⟩)
            · cases b with
              | bool y =>
                have : exceptRes (binop .and (.bool true) (.bool y)) w2 = .ok (.bool y) w2 := by
                  simp [binop, exceptRes]
                rw [this]
                exact ev_ite.2 (Or.inr ⟨_, w1, hatom, hrhs _ w2 h5⟩)
              | _ => simp [binop, exceptRes] at hs
        | _ => simp [scVal, logicalNonBool] at h2; subst h2; simp at hs
      · -- ||
        rw [dec_or_lowered hat]
        cases a with
        | bool bv =>
          cases bv with
          | true =>
            simp only [scVal] at h2; subst h2
            exact ev_ite.2 (Or.inr ⟨_, w1, hatom, ev_prim.2 rfl⟩)
          | false =>
            simp only [scVal, logicalNonBool] at h2
            rcases h2 with ⟨f, w2, h5, rfl⟩ | ⟨b, w2, h5, rfl⟩
            · exact ev_ite.2 (Or.inr ⟨_, w1, hatom, hrhsf f w2 h5 hs⟩)
            · cases b with
              | bool y =>
                have : exceptRes (binop .or (.bool false) (.bool y)) w2 = .ok (.bool y) w2 := by
                  simp [binop, exceptRes]
                rw [this]
                exact ev_ite.2 (Or.inr ⟨_, w1, hatom, hrhs _ w2 h5⟩)
              | _ => simp [binop, exceptRes] at hs
        | _ => simp [scVal, logicalNonBool] at h2; subst h2; simp at hs

/-! ### `match` -/

def FWD (d : Option Expr) : Prop :=
  ∀ (n N : Nat) (D : List String) (ρ ρ' : Env) (w : World) (v : Val) (r : Res Val),
    HypD D d n N → Agree D ρ ρ' → EvA P ρ w v [] d r → ¬Stuck r → EvA P ρ' w v [] (anfDflt d n).1 r

def FWA (arms : List Arm) : Prop :=
  ∀ (d : Option Expr), FWD P d →
  ∀ (n N : Nat) (D : List String) (ρ ρ' : Env) (w : World) (v : Val) (r : Res Val),
    HypA D arms d n N → Agree D ρ ρ' → EvA P ρ w v arms d r → ¬Stuck r →
    EvA P ρ' w v (anfArms arms n).1 (anfDflt d (anfArms arms n).2).1 r

theorem fwD_none : FWD P none := by
  intro n N D ρ ρ' w v r _ _ h _
  rw [evA_nil_none] at h
  exact evA_nil_none.2 h

theorem fwD_some {e : Expr} (he : FW P e) : FWD P (some e) := by
  intro n N D ρ ρ' w v r hy ha h hs
  rw [evA_nil_some] at h
  have hye : Hyp D e n N := ⟨hy.frag, hy.dis, hy.fresh, by have := hy.bound; simpa [anfDflt, anf_ret] using this⟩
  exact evA_nil_some.2 (fw_top P he n N D ρ ρ' w r hye ha h hs)

theorem fwA_nil : FWA P [] := by
  intro d hd n N D ρ ρ' w v r hy ha h hs
  exact hd n N D ρ ρ' w v r ⟨hy.fragD, fun x hx => hy.dis x (by simp [namesArms, hx]),
    fun m a b hm => hy.fresh m a b (by simp [namesArms, hm]), hy.bound⟩ ha h hs

theorem fwA_cons {lhs body : Expr} {rest : List Arm} (hb : FW P body) (hr : FWA P rest) :
    FWA P (.mk lhs body :: rest) := by
  intro d hd n N D ρ ρ' w v r hy ha h hs
  have hf := hy.fragA
  simp only [fragArms, Bool.and_eq_true] at hf
  have hm1 := dec_mono body n
  have hm2 := anfArms_mono rest (dec body n).n
  have hm3 := anfDflt_mono d (anfArms rest (dec body n).n).2
  have hbd := hy.bound
  simp only [anfArms, anf_ret] at hbd
  have hyb : Hyp D body n N :=
    ⟨hf.1.2, fun x hx => hy.dis x (by simp [namesArms, hx]),
      fun m a b hm => hy.fresh m a b (by simp [namesArms, hm]), by omega⟩
  have hyr : HypA D rest d (dec body n).n N :=
    ⟨hf.2, hy.fragD, fun x hx => hy.dis x (by
        simp only [namesArms, List.mem_append] at hx ⊢; rcases hx with hx | hx <;> simp [hx]),
      fun m a b hm => hy.fresh m (by omega) b (by
        simp only [namesArms, List.mem_append] at hm ⊢; rcases hm with hm | hm <;> simp [hm]), hbd⟩
  rw [evA_cons] at h
  simp only [anfArms, anf_ret]
  rw [evA_cons, armMatches_armHead]
  split
  · rename_i hm; rw [if_pos hm] at h
    have := fw_top P hb n N D ρ ρ' w r hyb ha h hs
    rw [anf_ret] at this; exact this
  · rename_i hm; rw [if_neg hm] at h
    exact hr d hd _ N D ρ ρ' w v r hyr ha h hs

theorem fw_matchE {ty : Ty} {s : Expr} {arms : List Arm} {d : Option Expr}
    (hs' : FW P s) (hA : FWA P arms) (hD : FWD P d) : FW P (.matchE ty s arms d) := by
  intro n N D ρ ρ' w r hy ha hev hs
  have hf := hy.frag
  simp only [frag, Bool.and_eq_true] at hf
  obtain ⟨⟨⟨hfs, hfa⟩, hfd⟩, hdj⟩ := hf
  have hm1 := decImm_mono s n
  have hm2 := anfArms_mono arms (decImm s n).n
  have hm3 := anfDflt_mono d (anfArms arms (decImm s n).n).2
  have hbd := hy.bound
  simp only [dec] at hbd
  have hbd' : (anfDflt d (anfArms arms (decImm s n).n).2).2 ≤ N := hbd
  have hyA : HypA (D ++ keys (decImm s n).L) arms d (decImm s n).n N := by
    refine ⟨hfa, hfd, ?_, ?_, hbd'⟩
    · intro x hx
      simp only [List.mem_append, not_or]
      refine ⟨hy.dis x (by simp only [names, List.mem_append] at hx ⊢; exact Or.inr hx), fun hk => ?_⟩
      exact keyOk_not_mem (decImm_keys s n x hk) hdj
        (fun m a b hm => hy.fresh m a b (by simp only [names, List.mem_append] at hm ⊢; exact Or.inr hm))
        (Nat.le_refl n) (by omega) hx
    · intro m a b hm
      exact hy.fresh m (by omega) b (by simp only [names, List.mem_append] at hm ⊢; exact Or.inr hm)
  show RB (EvB P (decImm s n).L ρ' w)
    (fun ρ1 w1 => Ev P (.matchE ty (decImm s n).c (anfArms arms (decImm s n).n).1
      (anfDflt d (anfArms arms (decImm s n).n).2).1) ρ1 w1) r
  have hsi := fw_imm P hs' n N D ρ ρ' w
  have hds : ∀ x ∈ names s, x ∉ D := fun x hx => hy.dis x (by simp [names, hx])
  have hfrs : ∀ m, n ≤ m → m < N → tmpName m ∉ names s := fun m a b hm => hy.fresh m a b (by simp [names, hm])
  rcases ev_matchE.1 hev with ⟨f, w', h1, rfl⟩ | ⟨v, w1, h1, h2⟩
  · rcases hsi _ hfs hds hfrs (by omega) ha h1 hs with ⟨f', w'', h3, h4⟩ | ⟨_, _, _, h4⟩
    · cases h4; exact Or.inl ⟨f, w', h3, rfl⟩
    · cases h4
  · rcases hsi _ hfs hds hfrs (by omega) ha h1 (by simp) with ⟨_, _, _, h4⟩ | ⟨ρ1, w1', h3, h4⟩
    · cases h4
    · cases h4
      have ha1 := evB_agree h3 ha
      refine Or.inr ⟨ρ1, w1, h3, ev_matchE.2 (Or.inr ⟨_, w1, (ev_atom (decImm_c_atom s n)).2 rfl, ?_⟩)⟩
      exact hA d hD _ N _ ρ ρ1 w1 _ r hyA ha1 h2 hs

/-! ### all nodes -/

mutual
theorem fw : ∀ (e : Expr), FW P e
  | .var x ty => fw_var P x ty
  | .prim p => fw_prim P p
  | .tag idx ty => fun _ _ _ _ _ _ _ hy => by have := hy.frag; simp [frag] at this
  | .closure ty ps b => fun _ _ _ _ _ _ _ hy => by have := hy.frag; simp [frag] at this
  | .traitCall tr m ty recv args => fun _ _ _ _ _ _ _ hy => by have := hy.frag; simp [frag] at this
  | .constr (.enum tn vn idx) ty [] => fw_constr_nullary P
  | .constr (.struct sn) ty [] => fw_constr P (fun _ _ _ h => by cases h) (fwL [])
  | .constr c ty (a :: as) => fw_constr P (fun _ _ _ _ => by simp) (fwL (a :: as))
  | .tuple ty items => fw_tuple P (fwL items)
  | .array ty items => fw_array P (fwL items)
  | .letE x v b => fw_letE P (fw v) (fw b)
  | .ite c t e => fw_ite P (fw c) (fw t) (fw e)
  | .while c b => fw_while P (fw c) (fw b)
  | .go e => fw_go P (fw e)
  | .matchE ty s arms d => fw_matchE P (fw s) (fwA arms) (fwD d)
  | .cget c idx ty e => fw_cget P (fw e)
  | .un op ty e => fw_un P (fw e)
  | .bin op ty l r => by
    cases hc : ((op == .and || op == .or) && !trivialRhs r)
    · exact fw_bin_plain P hc (fwL_cons P (fw_imm P (fw l)) (fwL_cons P (fw_imm P (fw r)) (fwL_nil P)))
    · exact fw_bin_lowered P hc (fw l) (fw r)
  | .call ty f args => fw_call P (fwL_cons P (fw_imm P (fw f)) (fwL args))
  | .toDyn tr forTy ty e => fw_toDyn P (fw e)
  | .dynCall tr m ty recv args => fw_dynCall P (fwL_cons P (fw_imm P (fw recv)) (fwL args))
  | .proj idx ty e => fw_proj P (fw e)
theorem fwL : ∀ (es : List Expr), FWL P es
  | [] => fwL_nil P
  | e :: rest => fwL_cons P (fw_imm P (fw e)) (fwL rest)
theorem fwA : ∀ (arms : List Arm), FWA P arms
  | [] => fwA_nil P
  | .mk lhs body :: rest => fwA_cons P (fw body) (fwA rest)
theorem fwD : ∀ (d : Option Expr), FWD P d
  | none => fwD_none P
  | some e => fwD_some P (fw e)
end

end Goml.Anf
