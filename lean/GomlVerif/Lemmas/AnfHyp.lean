import GomlVerif.Lemmas.AnfSem
/-!
The side conditions of the ANF proof and how they pass from a node to its parts.
-/
namespace Goml.Anf
open Goml Goml.Sem

theorem disj_iff {xs ys : List String} : disj xs ys = true ↔ ∀ x ∈ xs, x ∉ ys := by
  simp [disj]

theorem disj_nil_left (ys : List String) : disj [] ys = true := by simp [disj]
theorem disj_nil_right (xs : List String) : disj xs [] = true := by simp [disj]

theorem disj_append_right {xs ys zs : List String} (h : disj xs (ys ++ zs) = true) :
    disj xs ys = true ∧ disj xs zs = true := by
  rw [disj_iff] at h
  constructor <;> rw [disj_iff] <;> intro x hx hm
  · exact h x hx (by simp [hm])
  · exact h x hx (by simp [hm])

mutual
theorem bnd_sub_names : ∀ (e : Expr) (x : String), x ∈ bnd e → x ∈ names e
  | .var _ _, x, h => by simp [bnd] at h
  | .prim _, x, h => by simp [bnd] at h
  | .tag _ _, x, h => by simp [bnd] at h
  | .closure _ _ _, x, h => by simp [bnd] at h
  | .traitCall _ _ _ _ _, x, h => by simp [bnd] at h
  | .constr _ _ args, x, h => by simp only [bnd, names] at h ⊢; exact bndList_sub_names args x h
  | .tuple _ items, x, h => by simp only [bnd, names] at h ⊢; exact bndList_sub_names items x h
  | .array _ items, x, h => by simp only [bnd, names] at h ⊢; exact bndList_sub_names items x h
  | .letE y v b, x, h => by
    simp only [bnd, names, List.mem_cons, List.mem_append] at h ⊢
    rcases h with h | h | h
    · exact Or.inl h
    · exact Or.inr (Or.inl (bnd_sub_names v x h))
    · exact Or.inr (Or.inr (bnd_sub_names b x h))
  | .matchE _ s arms d, x, h => by
    simp only [bnd, names, List.mem_append] at h ⊢
    rcases h with h | h | h
    · exact Or.inl (bnd_sub_names s x h)
    · exact Or.inr (Or.inl (bndArms_sub_names arms x h))
    · exact Or.inr (Or.inr (bndDflt_sub_names d x h))
  | .ite c t e, x, h => by
    simp only [bnd, names, List.mem_append] at h ⊢
    rcases h with h | h | h
    · exact Or.inl (bnd_sub_names c x h)
    · exact Or.inr (Or.inl (bnd_sub_names t x h))
    · exact Or.inr (Or.inr (bnd_sub_names e x h))
  | .while c b, x, h => by
    simp only [bnd, names, List.mem_append] at h ⊢
    rcases h with h | h
    · exact Or.inl (bnd_sub_names c x h)
    · exact Or.inr (bnd_sub_names b x h)
  | .go e, x, h => by simp only [bnd, names] at h ⊢; exact bnd_sub_names e x h
  | .cget _ _ _ e, x, h => by simp only [bnd, names] at h ⊢; exact bnd_sub_names e x h
  | .un _ _ e, x, h => by simp only [bnd, names] at h ⊢; exact bnd_sub_names e x h
  | .toDyn _ _ _ e, x, h => by simp only [bnd, names] at h ⊢; exact bnd_sub_names e x h
  | .proj _ _ e, x, h => by simp only [bnd, names] at h ⊢; exact bnd_sub_names e x h
  | .bin _ _ l r, x, h => by
    simp only [bnd, names, List.mem_append] at h ⊢
    rcases h with h | h
    · exact Or.inl (bnd_sub_names l x h)
    · exact Or.inr (bnd_sub_names r x h)
  | .call _ f args, x, h => by
    simp only [bnd, names, List.mem_append] at h ⊢
    rcases h with h | h
    · exact Or.inl (bnd_sub_names f x h)
    · exact Or.inr (bndList_sub_names args x h)
  | .dynCall _ _ _ r args, x, h => by
    simp only [bnd, names, List.mem_append] at h ⊢
    rcases h with h | h
    · exact Or.inl (bnd_sub_names r x h)
    · exact Or.inr (bndList_sub_names args x h)
theorem bndList_sub_names : ∀ (es : List Expr) (x : String), x ∈ bndList es → x ∈ namesList es
  | [], x, h => by simp [bndList] at h
  | e :: rest, x, h => by
    simp only [bndList, namesList, List.mem_append] at h ⊢
    rcases h with h | h
    · exact Or.inl (bnd_sub_names e x h)
    · exact Or.inr (bndList_sub_names rest x h)
theorem bndArms_sub_names : ∀ (arms : List Arm) (x : String), x ∈ bndArms arms → x ∈ namesArms arms
  | [], x, h => by simp [bndArms] at h
  | .mk lhs body :: rest, x, h => by
    simp only [bndArms, namesArms, List.mem_append] at h ⊢
    rcases h with h | h
    · exact Or.inr (Or.inl (bnd_sub_names body x h))
    · exact Or.inr (Or.inr (bndArms_sub_names rest x h))
theorem bndDflt_sub_names : ∀ (d : Option Expr) (x : String), x ∈ bndDflt d → x ∈ namesDflt d
  | none, x, h => by simp [bndDflt] at h
  | some e, x, h => by simp only [bndDflt, namesDflt] at h ⊢; exact bnd_sub_names e x h
end

/-- a name bound by a sibling's chain does not occur in `ys` -/
theorem keyOk_not_mem {bs ys : List String} {n n' n'' N : Nat} {x : String} (hk : KeyOk bs n' n'' x)
    (hd : disj bs ys = true) (hf : ∀ m, n ≤ m → m < N → tmpName m ∉ ys) (h1 : n ≤ n') (h2 : n'' ≤ N) :
    x ∉ ys := by
  rcases hk with hk | ⟨m, hm1, hm2, rfl⟩
  · exact disj_iff.1 hd x hk
  · exact hf m (by omega) (by omega)

theorem decImm_atom {e : Expr} (h : isAtom e = true) (n : Nat) : decImm e n = ⟨[], e, n⟩ := by
  cases e <;> simp [isAtom] at h <;> rfl

theorem decImm_nonatom {e : Expr} (h : isAtom e = false) (n : Nat) :
    decImm e n = ⟨(dec e (n+1)).L ++ [(tmpName n, (dec e (n+1)).c)], .var (tmpName n) (tyOf e), (dec e (n+1)).n⟩ := by
  cases e <;> simp [isAtom] at h <;> rfl

theorem decImm_c_atom (e : Expr) (n : Nat) : isAtom (decImm e n).c = true := by
  cases h : isAtom e
  · rw [decImm_nonatom h]; rfl
  · rw [decImm_atom h]; exact h

theorem decList_cs_atoms : ∀ (es : List Expr) (n : Nat), ∀ i ∈ (decList es n).cs, isAtom i = true
  | [], n, i, hi => by simp [decList] at hi
  | e :: rest, n, i, hi => by
    simp only [decList, List.mem_cons] at hi
    rcases hi with rfl | hi
    · exact decImm_c_atom e n
    · exact decList_cs_atoms rest _ i hi

theorem decImm_c_names (e : Expr) (n : Nat) (x : String) (hx : x ∈ names (decImm e n).c) :
    (isAtom e = true ∧ x ∈ names e) ∨ (isAtom e = false ∧ x = tmpName n ∧ n < (decImm e n).n) := by
  cases h : isAtom e
  · rw [decImm_nonatom h] at hx ⊢
    simp only [names, List.mem_singleton] at hx
    have := dec_mono e (n + 1)
    exact Or.inr ⟨rfl, hx, by simp only; omega⟩
  · rw [decImm_atom h] at hx
    exact Or.inl ⟨rfl, hx⟩

/-- the atom standing for an operand keeps its value while the later operands are named -/
theorem atom_stable {P : Prog} {e : Expr} {rest : List Expr} {n N : Nat} {ρ1 ρ2 : Env} {w1 w2 : World}
    (hd : disj (bndList rest) (names e) = true)
    (hfr : ∀ m, n ≤ m → m < N → tmpName m ∉ namesList (e :: rest))
    (hb : (decList rest (decImm e n).n).n ≤ N)
    (h : EvB P (decList rest (decImm e n).n).L ρ1 w1 (.ok ρ2 w2)) :
    atomVal ρ2 (decImm e n).c = atomVal ρ1 (decImm e n).c := by
  apply atomVal_congr
  intro x hx
  apply evB_lookup h
  intro hk
  have hko := decList_keys rest _ x hk
  have hm1 := decImm_mono e n
  have hm2 := decList_mono rest (decImm e n).n
  rcases decImm_c_names e n x hx with ⟨_, hxe⟩ | ⟨_, rfl, hlt⟩
  · refine keyOk_not_mem hko hd (fun m h1 h2 hm => hfr m h1 h2 ?_) hm1 hb hxe
    simp [namesList, hm]
  · rcases hko with hko | ⟨m, hm1', hm2', hm3⟩
    · exact hfr n (Nat.le_refl _) (by omega) (by simp [namesList, bndList_sub_names rest _ hko])
    · have := tmpName_inj hm3; omega

/-- side conditions for `e` transformed from counter `n`, evaluated in an environment that may
    differ from the source environment on the names in `D`; all temporaries stay below `N` -/
structure Hyp (D : List String) (e : Expr) (n N : Nat) : Prop where
  frag : frag e = true
  dis : ∀ x ∈ names e, x ∉ D
  fresh : ∀ m, n ≤ m → m < N → tmpName m ∉ names e
  bound : (dec e n).n ≤ N

structure HypL (D : List String) (es : List Expr) (n N : Nat) : Prop where
  frag : fragList es = true
  dis : ∀ x ∈ namesList es, x ∉ D
  fresh : ∀ m, n ≤ m → m < N → tmpName m ∉ namesList es
  bound : (decList es n).n ≤ N

theorem binOp_beq (a b : BinOp) : (a == b) = decide (a = b) := by
  cases a <;> cases b <;> rfl

theorem lowered_iff {op : BinOp} {r : Expr} :
    ((op == .and || op == .or) && !trivialRhs r) = true ↔ ((op = .and ∨ op = .or) ∧ isAtom r = false) := by
  simp [binOp_beq, trivialRhs_eq_isAtom]

theorem dec_and_lowered {ty : Ty} {l r : Expr} (h : isAtom r = false) (n : Nat) :
    dec (.bin .and ty l r) n =
      ⟨(decImm l n).L, .ite (decImm l n).c (anf r (decImm l n).n ret).1 (.prim (.bool false)),
        (anf r (decImm l n).n ret).2⟩ := by
  simp [dec, trivialRhs_eq_isAtom, h, binOp_beq, decImm]

theorem dec_or_lowered {ty : Ty} {l r : Expr} (h : isAtom r = false) (n : Nat) :
    dec (.bin .or ty l r) n =
      ⟨(decImm l n).L, .ite (decImm l n).c (.prim (.bool true)) (anf r (decImm l n).n ret).1,
        (anf r (decImm l n).n ret).2⟩ := by
  simp [dec, trivialRhs_eq_isAtom, h, binOp_beq, decImm]

structure HypD (D : List String) (d : Option Expr) (n N : Nat) : Prop where
  frag : fragDflt d = true
  dis : ∀ x ∈ namesDflt d, x ∉ D
  fresh : ∀ m, n ≤ m → m < N → tmpName m ∉ namesDflt d
  bound : (anfDflt d n).2 ≤ N

structure HypA (D : List String) (arms : List Arm) (d : Option Expr) (n N : Nat) : Prop where
  fragA : fragArms arms = true
  fragD : fragDflt d = true
  dis : ∀ x ∈ namesArms arms ++ namesDflt d, x ∉ D
  fresh : ∀ m, n ≤ m → m < N → tmpName m ∉ namesArms arms ++ namesDflt d
  bound : (anfDflt d (anfArms arms n).2).2 ≤ N

theorem armMatches_armHead (lhs : Expr) (v : Val) : armMatches (armHead lhs) v = armMatches lhs v := by
  cases lhs <;> try rfl
  rename_i c ty args
  cases c <;> try rfl
  cases v <;> rfl

end Goml.Anf
