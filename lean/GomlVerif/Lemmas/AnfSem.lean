import GomlVerif.Lemmas.SemEv
import GomlVerif.Lemmas.AnfDec
import Std.Data.String.ToNat
/-!
Semantic toolkit for the ANF proof: environments that agree outside a set of names, evaluation
of a chain of bindings (`EvB`), atoms, and freshness of the generated temporaries.
-/
namespace Goml.Anf
open Goml Goml.Sem

theorem tmpName_inj {a b : Nat} (h : tmpName a = tmpName b) : a = b := by
  unfold tmpName at h
  have h2 : ("t" ++ toString a).toList = ("t" ++ toString b).toList := by rw [h]
  simp only [String.toList_append] at h2
  have h3 := List.append_cancel_left h2
  have h4 : toString a = toString b := String.toList_inj.1 h3
  exact Nat.repr_injective h4

/-! ### environments -/

theorem lookupEnv_cons (y : String) (v : Val) (ρ : Env) (x : String) :
    lookupEnv ((y, v) :: ρ) x = if y == x then some v else lookupEnv ρ x := by
  unfold lookupEnv
  simp only [List.find?_cons]
  cases h : (y == x) <;> simp

theorem lookupEnv_cons_ne {y : String} {v : Val} {ρ : Env} {x : String} (h : y ≠ x) :
    lookupEnv ((y, v) :: ρ) x = lookupEnv ρ x := by
  rw [lookupEnv_cons]; simp [h]

theorem lookupVal_cons_self (y : String) (v : Val) (ρ : Env) : lookupVal ((y, v) :: ρ) y = v := by
  unfold lookupVal; rw [lookupEnv_cons]; simp

theorem lookupVal_congr {ρ ρ' : Env} {x : String} (h : lookupEnv ρ x = lookupEnv ρ' x) :
    lookupVal ρ x = lookupVal ρ' x := by
  unfold lookupVal; rw [h]

/-- the two environments give every name outside `D` the same meaning -/
def Agree (D : List String) (ρ ρ' : Env) : Prop := ∀ x, x ∉ D → lookupEnv ρ x = lookupEnv ρ' x

theorem Agree.mono {D D' : List String} {ρ ρ' : Env} (h : Agree D ρ ρ') (hD : ∀ x, x ∈ D → x ∈ D') :
    Agree D' ρ ρ' := fun x hx => h x (fun hx' => hx (hD x hx'))

theorem Agree.cons {D : List String} {ρ ρ' : Env} (h : Agree D ρ ρ') (y : String) (v : Val) :
    Agree D ((y, v) :: ρ) ((y, v) :: ρ') := by
  intro x hx
  rw [lookupEnv_cons, lookupEnv_cons]
  split
  · rfl
  · exact h x hx

theorem Agree.refl (D : List String) (ρ : Env) : Agree D ρ ρ := fun _ _ => rfl

/-! ### atoms -/

def atomVal (ρ : Env) : Expr → Val
  | .var x _ => lookupVal ρ x
  | .prim p => primVal p
  | _ => .unit

theorem ev_atom {P : Prog} {i : Expr} {ρ : Env} {w : World} {r : Res Val} (h : isAtom i = true) :
    Ev P i ρ w r ↔ r = .ok (atomVal ρ i) w := by
  cases i <;> simp [isAtom] at h
  · exact ev_var
  · exact ev_prim

theorem evL_atoms {P : Prog} : ∀ {is : List Expr} {ρ : Env} {w : World} {r : Res (List Val)},
    (∀ i ∈ is, isAtom i = true) → (EvL P is ρ w r ↔ r = .ok (is.map (atomVal ρ)) w)
  | [], ρ, w, r, _ => by rw [evL_nil]; rfl
  | i :: is, ρ, w, r, h => by
    have hi : isAtom i = true := h i (by simp)
    have his : ∀ j ∈ is, isAtom j = true := fun j hj => h j (by simp [hj])
    rw [evL_cons]
    constructor
    · rintro (⟨f, w', h1, _⟩ | ⟨a, w', h1, h2⟩)
      · rw [ev_atom hi] at h1; cases h1
      · rw [ev_atom hi] at h1; cases h1
        rcases h2 with ⟨f, w'', h3, _⟩ | ⟨vs, w'', h3, h4⟩
        · rw [evL_atoms his] at h3; cases h3
        · rw [evL_atoms his] at h3; cases h3
          simpa using h4
    · intro hr
      refine Or.inr ⟨atomVal ρ i, w, (ev_atom hi).2 rfl, Or.inr ⟨is.map (atomVal ρ), w, (evL_atoms his).2 rfl, ?_⟩⟩
      simpa using hr

theorem atomVal_congr {ρ ρ' : Env} {i : Expr} (h : ∀ x ∈ names i, lookupEnv ρ x = lookupEnv ρ' x) :
    atomVal ρ i = atomVal ρ' i := by
  cases i <;> simp only [atomVal]
  exact lookupVal_congr (h _ (by simp [names]))

/-! ### evaluating a chain of bindings -/

/-- run the bindings in order; the result is the extended environment -/
def EvB (P : Prog) : Binds → Env → World → Res Env → Prop
  | [], ρ, w, out => out = .ok ρ w
  | (x, c) :: L, ρ, w, out => RB (Ev P c ρ w) (fun v w' => EvB P L ((x, v) :: ρ) w') out

theorem evB_nil {P ρ w out} : EvB P [] ρ w out ↔ out = .ok ρ w := Iff.rfl

theorem evB_cons {P x c L ρ w out} :
    EvB P ((x, c) :: L) ρ w out ↔ RB (Ev P c ρ w) (fun v w' => EvB P L ((x, v) :: ρ) w') out := Iff.rfl

theorem evB_append {P : Prog} : ∀ {L1 L2 : Binds} {ρ : Env} {w : World} {out : Res Env},
    EvB P (L1 ++ L2) ρ w out ↔ RB (EvB P L1 ρ w) (fun ρ1 w1 => EvB P L2 ρ1 w1) out
  | [], L2, ρ, w, out => by
    simp only [List.nil_append, RB, evB_nil]
    constructor
    · intro h; exact Or.inr ⟨ρ, w, rfl, h⟩
    · rintro (⟨f, w', h, _⟩ | ⟨ρ1, w1, h, h2⟩)
      · cases h
      · cases h; exact h2
  | (x, c) :: L1, L2, ρ, w, out => by
    simp only [List.cons_append, evB_cons]
    constructor
    · rintro (⟨f, w', h, rfl⟩ | ⟨v, w', h, h2⟩)
      · exact Or.inl ⟨f, w', Or.inl ⟨f, w', h, rfl⟩, rfl⟩
      · rw [evB_append] at h2
        rcases h2 with ⟨f, w'', h3, rfl⟩ | ⟨ρ1, w1, h3, h4⟩
        · exact Or.inl ⟨f, w'', Or.inr ⟨v, w', h, h3⟩, rfl⟩
        · exact Or.inr ⟨ρ1, w1, Or.inr ⟨v, w', h, h3⟩, h4⟩
    · rintro (⟨f, w', h, rfl⟩ | ⟨ρ1, w1, h, h2⟩)
      · rcases h with ⟨f', w'', h3, h4⟩ | ⟨v, w'', h3, h4⟩
        · cases h4; exact Or.inl ⟨f, w', h3, rfl⟩
        · exact Or.inr ⟨v, w'', h3, evB_append.2 (Or.inl ⟨f, w', h4, rfl⟩)⟩
      · rcases h with ⟨f', w'', h3, h4⟩ | ⟨v, w'', h3, h4⟩
        · cases h4
        · exact Or.inr ⟨v, w'', h3, evB_append.2 (Or.inr ⟨ρ1, w1, h4, h2⟩)⟩

theorem evB_snoc {P L x c ρ w out} :
    EvB P (L ++ [(x, c)]) ρ w out ↔
      RB (EvB P L ρ w) (fun ρ1 w1 => RB (Ev P c ρ1 w1) (fun v w' out => out = .ok ((x, v) :: ρ1) w')) out := by
  rw [evB_append]; rfl

theorem ev_wrap {P : Prog} : ∀ {L : Binds} {c : Expr} {ρ : Env} {w : World} {r : Res Val},
    Ev P (wrap L c) ρ w r ↔ RB (EvB P L ρ w) (fun ρ1 w1 => Ev P c ρ1 w1) r
  | [], c, ρ, w, r => by
    simp only [wrap, RB, evB_nil]
    constructor
    · intro h; exact Or.inr ⟨ρ, w, rfl, h⟩
    · rintro (⟨f, w', h, _⟩ | ⟨ρ1, w1, h, h2⟩)
      · cases h
      · cases h; exact h2
  | (x, v) :: L, c, ρ, w, r => by
    simp only [wrap, ev_letE]
    constructor
    · rintro (⟨f, w', h, rfl⟩ | ⟨vv, w', h, h2⟩)
      · exact Or.inl ⟨f, w', Or.inl ⟨f, w', h, rfl⟩, rfl⟩
      · rw [ev_wrap] at h2
        rcases h2 with ⟨f, w'', h3, rfl⟩ | ⟨ρ1, w1, h3, h4⟩
        · exact Or.inl ⟨f, w'', Or.inr ⟨vv, w', h, h3⟩, rfl⟩
        · exact Or.inr ⟨ρ1, w1, Or.inr ⟨vv, w', h, h3⟩, h4⟩
    · rintro (⟨f, w', h, rfl⟩ | ⟨ρ1, w1, h, h2⟩)
      · rcases h with ⟨f', w'', h3, h4⟩ | ⟨vv, w'', h3, h4⟩
        · cases h4; exact Or.inl ⟨f, w', h3, rfl⟩
        · exact Or.inr ⟨vv, w'', h3, ev_wrap.2 (Or.inl ⟨f, w', h4, rfl⟩)⟩
      · rcases h with ⟨f', w'', h3, h4⟩ | ⟨vv, w'', h3, h4⟩
        · cases h4
        · exact Or.inr ⟨vv, w'', h3, ev_wrap.2 (Or.inr ⟨ρ1, w1, h4, h2⟩)⟩

/-- the bindings only touch their own names -/
theorem evB_lookup {P : Prog} : ∀ {L : Binds} {ρ ρ1 : Env} {w w1 : World},
    EvB P L ρ w (.ok ρ1 w1) → ∀ x, x ∉ keys L → lookupEnv ρ1 x = lookupEnv ρ x
  | [], ρ, ρ1, w, w1, h, x, _ => by cases h; rfl
  | (y, c) :: L, ρ, ρ1, w, w1, h, x, hx => by
    simp only [keys_cons, List.mem_cons, not_or] at hx
    rcases h with ⟨f, w', _, h2⟩ | ⟨v, w', _, h2⟩
    · cases h2
    · rw [evB_lookup h2 x hx.2, lookupEnv_cons_ne (fun h => hx.1 h.symm)]

theorem evB_agree {P : Prog} {L : Binds} {D : List String} {ρ ρ' ρ1 : Env} {w w1 : World}
    (h : EvB P L ρ' w (.ok ρ1 w1)) (ha : Agree D ρ ρ') : Agree (D ++ keys L) ρ ρ1 := by
  intro x hx
  simp only [List.mem_append, not_or] at hx
  rw [evB_lookup h x hx.2]
  exact ha x hx.1

/-- a result that is the "no rule" failure -/
def Stuck {α} : Res α → Prop
  | .fail (.stuck _) _ => True
  | _ => False

@[simp] theorem Stuck_ok {α} (a : α) (w : World) : Stuck (Res.ok a w) = False := rfl
@[simp] theorem Stuck_stuck {α} (s : String) (w : World) : Stuck (Res.fail (α := α) (.stuck s) w) = True := rfl
theorem Stuck_fail_iff {α β} (f : Fail) (w w' : World) :
    Stuck (Res.fail (α := α) f w) ↔ Stuck (Res.fail (α := β) f w') := by
  cases f <;> simp [Stuck]

end Goml.Anf
