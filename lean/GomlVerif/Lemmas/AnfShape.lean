import GomlVerif.Lemmas.AnfDec
/-!
The output of `anf` lies in the ANF sub-language (`isA`): a `let` chain whose right-hand sides
and final expression have only immediate operands.
-/
namespace Goml.Anf
open Goml

def allC (L : Binds) : Bool := L.all (fun p => isC p.2)

@[simp] theorem allC_nil : allC [] = true := rfl
@[simp] theorem allC_append (L1 L2 : Binds) : allC (L1 ++ L2) = (allC L1 && allC L2) := by
  simp [allC, List.all_append]
@[simp] theorem allC_cons (x : String) (v : Expr) (L : Binds) : allC ((x, v) :: L) = (isC v && allC L) := by
  simp [allC]

theorem isA_of_isC {c : Expr} (h : isC c = true) : isA c = true := by
  cases c <;> simp_all [isA, isC]

theorem isA_wrap (L : Binds) (c : Expr) : isA (wrap L c) = (allC L && isA c) := by
  induction L with
  | nil => simp [wrap]
  | cons p L ih => obtain ⟨x, v⟩ := p; simp [wrap, isA, ih, Bool.and_assoc]

theorem isImm_of_atom {e : Expr} (h : isAtom e = true) : isImm e = true := by
  cases e <;> simp_all [isAtom, isImm]

theorem isC_of_atom {e : Expr} (h : isAtom e = true) : isC e = true := by
  cases e <;> simp_all [isAtom, isC]

theorem decImm_shape_of (e : Expr) (n : Nat)
    (h : ∀ n, allC (dec e n).L = true ∧ isC (dec e n).c = true) :
    allC (decImm e n).L = true ∧ isImm (decImm e n).c = true := by
  unfold decImm decImmK
  split
  · simp [isImm]
  · simp [isImm]
  · have := h (n + 1)
    simp [this.1, this.2, isImm]

theorem isImm_armHead {lhs : Expr} (h : isArmHead lhs = true) : isImm (armHead lhs) = true := by
  cases lhs <;> simp_all [isArmHead, armHead, isImm]
  rename_i c ty args
  cases c <;> simp_all [isArmHead, armHead, isImm]

mutual
theorem dec_shape : ∀ (e : Expr) (n : Nat), isLift e = true → allC (dec e n).L = true ∧ isC (dec e n).c = true
  | .var _ _, n, _ => by simp [dec, isC]
  | .prim _, n, _ => by simp [dec, isC]
  | .tag _ _, n, h => by simp [isLift] at h
  | .closure _ _ _, n, h => by simp [isLift] at h
  | .traitCall _ _ _ _ _, n, h => by simp [isLift] at h
  | .constr (.enum tn vn idx) ty [], n, _ => by simp [dec, isC]
  | .constr (.struct sn) ty [], n, _ => by simp [dec, decList, isC]
  | .constr c ty (a :: as), n, h => by
    simp only [isLift] at h
    have := decList_shape (a :: as) n h
    simp only [dec, isC]; exact this
  | .tuple ty items, n, h => by
    simp only [isLift] at h
    have := decList_shape items n h
    simp only [dec, isC]; exact this
  | .array ty items, n, h => by
    simp only [isLift] at h
    have := decList_shape items n h
    simp only [dec, isC]; exact this
  | .letE x v b, n, h => by
    simp only [isLift, Bool.and_eq_true] at h
    have h1 := dec_shape v n h.1
    have h2 := dec_shape b (dec v n).n h.2
    simp [dec, h1.1, h1.2, h2.1, h2.2]
  | .ite c t e, n, h => by
    simp only [isLift, Bool.and_eq_true] at h
    have h1 := decImm_shape_of c n (fun n => dec_shape c n h.1.1)
    have h2 := dec_shape t (decImm c n).n h.1.2
    have h3 := dec_shape e (dec t (decImm c n).n).n h.2
    unfold decImm at h1 h2 h3
    simp [dec, isC, anf_ret, isA_wrap, h1.1, h1.2, h2.1, h3.1, isA_of_isC h2.2, isA_of_isC h3.2]
  | .while c b, n, h => by
    simp only [isLift, Bool.and_eq_true] at h
    have h1 := dec_shape c n h.1
    have h2 := dec_shape b (dec c n).n h.2
    simp [dec, isC, anf_ret, isA_wrap, h1.1, h2.1, isA_of_isC h1.2, isA_of_isC h2.2]
  | .go e, n, h => by
    simp only [isLift] at h
    have h1 := decImm_shape_of e n (fun n => dec_shape e n h)
    unfold decImm at h1
    simp [dec, isC, h1.1, h1.2]
  | .matchE ty s arms dflt, n, h => by
    simp only [isLift, Bool.and_eq_true] at h
    have h1 := decImm_shape_of s n (fun n => dec_shape s n h.1.1)
    have h2 := anfArms_shape arms (decImm s n).n h.1.2
    have h3 := anfDflt_shape dflt (anfArms arms (decImm s n).n).2 h.2
    unfold decImm at h1 h2 h3
    simp [dec, isC, h1.1, h1.2, h2, h3]
  | .cget c idx ty e, n, h => by
    simp only [isLift] at h
    have h1 := decImm_shape_of e n (fun n => dec_shape e n h)
    unfold decImm at h1
    simp [dec, isC, h1.1, h1.2]
  | .un op ty e, n, h => by
    simp only [isLift] at h
    have h1 := decImm_shape_of e n (fun n => dec_shape e n h)
    unfold decImm at h1
    simp [dec, isC, h1.1, h1.2]
  | .bin op ty l r, n, h => by
    simp only [isLift, Bool.and_eq_true] at h
    have h1 := decImm_shape_of l n (fun n => dec_shape l n h.1)
    have h2 := decImm_shape_of r (decImm l n).n (fun n => dec_shape r n h.2)
    have h3 := dec_shape r (decImm l n).n h.2
    unfold decImm at h1 h2 h3
    simp only [dec]
    split
    · have hp1 : isA (.prim (.bool false)) = true := by simp [isA, isC]
      have hp2 : isA (.prim (.bool true)) = true := by simp [isA, isC]
      split <;> simp [isC, anf_ret, isA_wrap, h1.1, h1.2, h3.1, isA_of_isC h3.2, hp1, hp2]
    · simp [isC, h1.1, h1.2, h2.1, h2.2]
  | .call ty f args, n, h => by
    simp only [isLift, Bool.and_eq_true] at h
    have h1 := decImm_shape_of f n (fun n => dec_shape f n h.1)
    have h2 := decList_shape args (decImm f n).n h.2
    unfold decImm at h1 h2
    simp [dec, isC, h1.1, h1.2, h2.1, h2.2]
  | .toDyn tr forTy ty e, n, h => by
    simp only [isLift] at h
    have h1 := decImm_shape_of e n (fun n => dec_shape e n h)
    unfold decImm at h1
    simp [dec, isC, h1.1, h1.2]
  | .dynCall tr m ty recv args, n, h => by
    simp only [isLift, Bool.and_eq_true] at h
    have h1 := decImm_shape_of recv n (fun n => dec_shape recv n h.1)
    have h2 := decList_shape args (decImm recv n).n h.2
    unfold decImm at h1 h2
    simp [dec, isC, h1.1, h1.2, h2.1, h2.2]
  | .proj idx ty e, n, h => by
    simp only [isLift] at h
    have h1 := decImm_shape_of e n (fun n => dec_shape e n h)
    unfold decImm at h1
    simp [dec, isC, h1.1, h1.2]

theorem decList_shape : ∀ (es : List Expr) (n : Nat), isLiftList es = true →
    allC (decList es n).L = true ∧ (decList es n).cs.all isImm = true
  | [], n, _ => by simp [decList]
  | e :: rest, n, h => by
    simp only [isLiftList, Bool.and_eq_true] at h
    have h1 := decImm_shape_of e n (fun n => dec_shape e n h.1)
    have h2 := decList_shape rest (decImm e n).n h.2
    unfold decImm at h1 h2
    simp [decList, h1.1, h1.2, h2.1, h2.2]

theorem anfArms_shape : ∀ (arms : List Arm) (n : Nat), isLiftArms arms = true → isArms (anfArms arms n).1 = true
  | [], n, _ => by simp [anfArms, isArms]
  | .mk lhs body :: rest, n, h => by
    simp only [isLiftArms, Bool.and_eq_true] at h
    have h1 := dec_shape body n h.1.2
    have h2 := anfArms_shape rest (dec body n).n h.2
    simp [anfArms, isArms, anf_ret, isA_wrap, isImm_armHead h.1.1, h1.1, isA_of_isC h1.2, h2]

theorem anfDflt_shape : ∀ (d : Option Expr) (n : Nat), isLiftDflt d = true → isDflt (anfDflt d n).1 = true
  | none, n, _ => by simp [anfDflt, isDflt]
  | some e, n, h => by
    simp only [isLiftDflt] at h
    have h1 := dec_shape e n h
    simp [anfDflt, isDflt, anf_ret, isA_wrap, h1.1, isA_of_isC h1.2]
end

end Goml.Anf
