import GomlVerif.Model.SrcSem
/-! helper lemmas for `Props/C01src.lean`: binding lists and association lists under permutation -/
namespace Goml.Src
open List

/-- two optional binding lists agree up to the order of the bindings -/
def OptPerm : Option Env → Option Env → Prop
  | none, none => True
  | some a, some b => a.Perm b
  | _, _ => False

theorem OptPerm.refl : (a : Option Env) → OptPerm a a
  | none => trivial
  | some _ => List.Perm.refl _

theorem OptPerm.trans {a b c : Option Env} (h1 : OptPerm a b) (h2 : OptPerm b c) : OptPerm a c := by
  cases a <;> cases b <;> cases c <;> simp_all [OptPerm]
  exact List.Perm.trans h1 h2

/-- both succeed, concatenating what they bind -/
def comb : Option Env → Option Env → Option Env
  | some x, some y => some (x ++ y)
  | _, _ => none

/-- one written field pattern against the field OF THAT NAME -/
def fieldMatch (T : Tab) (pkg : String) (decl : List String) (vals : List Val) : FieldPat → Option Env
  | .mk f p => (fieldOf decl vals f).bind (matchPat T pkg p)

theorem matchFields_nil (T : Tab) (pkg : String) (decl : List String) (vals : List Val) :
    matchFields T pkg decl vals [] = some [] := by
  rw [matchFields]

theorem matchFields_cons (T : Tab) (pkg : String) (decl : List String) (vals : List Val)
    (fp : FieldPat) (rest : List FieldPat) :
    matchFields T pkg decl vals (fp :: rest) =
      comb (fieldMatch T pkg decl vals fp) (matchFields T pkg decl vals rest) := by
  cases fp with
  | mk f p =>
    rw [matchFields]
    simp only [fieldMatch]
    cases fieldOf decl vals f with
    | none => rfl
    | some v =>
      simp only [Option.bind]
      cases matchPat T pkg p v with
      | none => rfl
      | some bs =>
        cases matchFields T pkg decl vals rest with
        | none => rfl
        | some bs' => rfl

theorem comb_congr (a : Option Env) {b c : Option Env} (h : OptPerm b c) : OptPerm (comb a b) (comb a c) := by
  cases a <;> cases b <;> cases c <;> simp_all [OptPerm, comb]
  exact List.Perm.append_left _ h

theorem comb_swap (a b c : Option Env) : OptPerm (comb b (comb a c)) (comb a (comb b c)) := by
  cases a <;> cases b <;> cases c <;> simp [OptPerm, comb]
  rename_i x y z
  -- y ++ (x ++ z) ~ x ++ (y ++ z)
  rw [← List.append_assoc, ← List.append_assoc]
  exact List.Perm.append_right z List.perm_append_comm

theorem matchFields_perm (T : Tab) (pkg : String) (decl : List String) (vals : List Val)
    {fs fs' : List FieldPat} (h : fs.Perm fs') :
    OptPerm (matchFields T pkg decl vals fs) (matchFields T pkg decl vals fs') := by
  induction h with
  | nil => exact OptPerm.refl _
  | cons a _ ih => rw [matchFields_cons, matchFields_cons]; exact comb_congr _ ih
  | swap a b l => rw [matchFields_cons, matchFields_cons, matchFields_cons, matchFields_cons]; exact comb_swap _ _ _
  | trans _ _ ih1 ih2 => exact OptPerm.trans ih1 ih2

/-- in an association list with distinct keys, what a key finds does not depend on the order -/
theorem find_perm {α : Type} {l l' : List (String × α)} (h : l.Perm l')
    (nd : (l.map (·.1)).Nodup) (x : String) :
    l.find? (·.1 == x) = l'.find? (·.1 == x) := by
  induction h with
  | nil => rfl
  | cons a _ ih =>
    simp only [List.map_cons, List.nodup_cons] at nd
    simp only [List.find?_cons, ih nd.2]
  | swap a b l =>
    simp only [List.map_cons, List.nodup_cons, List.mem_cons, not_or] at nd
    simp only [List.find?_cons]
    by_cases ha : (a.1 == x) = true <;> by_cases hb : (b.1 == x) = true <;> simp [ha, hb]
    -- both keys equal `x`: excluded by distinctness
    have h1 : a.1 = x := by simpa using ha
    have h2 : b.1 = x := by simpa using hb
    exact absurd (h2.trans h1.symm) nd.1.1
  | trans h1 _ ih1 ih2 =>
    have nd2 := (List.Perm.nodup_iff (h1.map (·.1))).mp nd
    rw [ih1 nd, ih2 nd2]

end Goml.Src
