import GomlVerif.Lemmas.ProgAnf
import GomlVerif.Lemmas.WtSubst
/-!
ANF preserves the type-consistency judgement `Wt.errs … = []` and closedness of annotations
(C03 proper, pass `anf.rs`).  All reasoning is on the direct-style reading `dec` of the CPS
functions (`Lemmas/AnfDec.lean`): `anf e n k = wrap (dec e n).L (k (dec e n).c …)`.

Typed-context invariant: the chain `(dec e n).L` is typed left to right (`errsB`), each
binding extends the context with the type of its right-hand side (`extΓ`), and the final
expression is typed in the extended context with the type of the source expression.  Contexts may
differ from the source context on a set `D` of names that do not occur in the expression
(`AgreeT`), exactly as environments do in the semantic proof (`Lemmas/AnfFwd.lean`).
-/
namespace Goml.Anf
open Goml Goml.Wt

theorem primTy_eq (p : Prim) : Anf.primTy p = Mono.primTy p := by cases p <;> rfl

theorem tyOf_eq_getTy : ∀ (e : Expr), tyOf e = Mono.getTy e
  | .var _ _ => rfl
  | .prim p => primTy_eq p
  | .tag _ _ => rfl
  | .constr _ _ _ => rfl
  | .tuple _ _ => rfl
  | .array _ _ => rfl
  | .closure _ _ _ => rfl
  | .letE _ _ b => by simp only [tyOf, Mono.getTy]; exact tyOf_eq_getTy b
  | .matchE _ _ _ _ => rfl
  | .ite _ t _ => by simp only [tyOf, Mono.getTy]; exact tyOf_eq_getTy t
  | .while _ _ => rfl
  | .go _ => rfl
  | .cget _ _ _ _ => rfl
  | .un _ _ _ => rfl
  | .bin _ _ _ _ => rfl
  | .call _ _ _ => rfl
  | .toDyn _ _ _ _ => rfl
  | .dynCall _ _ _ _ _ => rfl
  | .traitCall _ _ _ _ _ => rfl
  | .proj _ _ _ => rfl

/-! ### the judgement reads the context only at the names of the expression -/

theorem lookupVar_cons (k : String) (v : Ty) (Γ : TyEnv) (x : String) :
    lookupVar ((k, v) :: Γ) x = if k == x then some v else lookupVar Γ x := rfl

theorem lookupVar_cons_congr {Γ Γ' : TyEnv} {x : String} (k : String) (v : Ty)
    (h : lookupVar Γ x = lookupVar Γ' x) : lookupVar ((k, v) :: Γ) x = lookupVar ((k, v) :: Γ') x := by
  simp only [lookupVar_cons, h]

theorem lookupVar_bindAll_congr (x : String) : ∀ (ps : List (String × Ty)) (Γ Γ' : TyEnv),
    lookupVar Γ x = lookupVar Γ' x → lookupVar (bindAll ps Γ) x = lookupVar (bindAll ps Γ') x
  | [], _, _, h => h
  | p :: rest, Γ, Γ', h => by
    simp only [bindAll]
    exact lookupVar_bindAll_congr x rest _ _ (lookupVar_cons_congr p.1 p.2 h)

variable (S : Sig)

mutual
theorem errs_agree : ∀ (e : Expr) (Γ Γ' : TyEnv),
    (∀ x ∈ names e, lookupVar Γ x = lookupVar Γ' x) → errs S Γ e = errs S Γ' e
  | .var x ty, Γ, Γ', h => by simp only [errs]; rw [h x (by simp [names])]
  | .prim _, _, _, _ => rfl
  | .tag _ _, _, _, _ => rfl
  | .constr c ty args, Γ, Γ', h => by
    simp only [errs]; rw [errsList_agree args Γ Γ' (fun x hx => h x (by simpa [names] using hx))]
  | .tuple ty items, Γ, Γ', h => by
    simp only [errs]; rw [errsList_agree items Γ Γ' (fun x hx => h x (by simpa [names] using hx))]
  | .array ty items, Γ, Γ', h => by
    simp only [errs]; rw [errsList_agree items Γ Γ' (fun x hx => h x (by simpa [names] using hx))]
  | .closure ty ps body, Γ, Γ', h => by
    simp only [errs]
    rw [errs_agree body (bindAll ps Γ) (bindAll ps Γ')
      (fun x hx => lookupVar_bindAll_congr x ps Γ Γ' (h x (by simp [names, hx])))]
  | .letE y v b, Γ, Γ', h => by
    simp only [errs]
    rw [errs_agree v Γ Γ' (fun x hx => h x (by simp [names, hx])),
      errs_agree b ((y, Mono.getTy v) :: Γ) ((y, Mono.getTy v) :: Γ')
        (fun x hx => lookupVar_cons_congr y _ (h x (by simp [names, hx])))]
  | .matchE ty s arms none, Γ, Γ', h => by
    simp only [errs]
    rw [errs_agree s Γ Γ' (fun x hx => h x (by simp [names, hx])),
      errsArms_agree arms Γ Γ' _ _ (fun x hx => h x (by simp [names, hx]))]
  | .matchE ty s arms (some d), Γ, Γ', h => by
    simp only [errs]
    rw [errs_agree s Γ Γ' (fun x hx => h x (by simp [names, hx])),
      errsArms_agree arms Γ Γ' _ _ (fun x hx => h x (by simp [names, hx])),
      errs_agree d Γ Γ' (fun x hx => h x (by simp [names, namesDflt, hx]))]
  | .ite c t e, Γ, Γ', h => by
    simp only [errs]
    rw [errs_agree c Γ Γ' (fun x hx => h x (by simp [names, hx])),
      errs_agree t Γ Γ' (fun x hx => h x (by simp [names, hx])),
      errs_agree e Γ Γ' (fun x hx => h x (by simp [names, hx]))]
  | .while c b, Γ, Γ', h => by
    simp only [errs]
    rw [errs_agree c Γ Γ' (fun x hx => h x (by simp [names, hx])),
      errs_agree b Γ Γ' (fun x hx => h x (by simp [names, hx]))]
  | .go e, Γ, Γ', h => by
    simp only [errs]; exact errs_agree e Γ Γ' (fun x hx => h x (by simpa [names] using hx))
  | .cget c idx ty e, Γ, Γ', h => by
    simp only [errs]; rw [errs_agree e Γ Γ' (fun x hx => h x (by simpa [names] using hx))]
  | .un op ty e, Γ, Γ', h => by
    simp only [errs]; rw [errs_agree e Γ Γ' (fun x hx => h x (by simpa [names] using hx))]
  | .bin op ty l r, Γ, Γ', h => by
    simp only [errs]
    rw [errs_agree l Γ Γ' (fun x hx => h x (by simp [names, hx])),
      errs_agree r Γ Γ' (fun x hx => h x (by simp [names, hx]))]
  | .call ty f args, Γ, Γ', h => by
    simp only [errs]
    rw [errs_agree f Γ Γ' (fun x hx => h x (by simp [names, hx])),
      errsList_agree args Γ Γ' (fun x hx => h x (by simp [names, hx]))]
  | .toDyn tr forTy ty e, Γ, Γ', h => by
    simp only [errs]; rw [errs_agree e Γ Γ' (fun x hx => h x (by simpa [names] using hx))]
  | .dynCall tr m ty recv args, Γ, Γ', h => by
    simp only [errs]
    rw [errs_agree recv Γ Γ' (fun x hx => h x (by simp [names, hx])),
      errsList_agree args Γ Γ' (fun x hx => h x (by simp [names, hx]))]
  | .traitCall tr m ty recv args, Γ, Γ', h => by
    simp only [errs]
    rw [errs_agree recv Γ Γ' (fun x hx => h x (by simp [names, hx])),
      errsList_agree args Γ Γ' (fun x hx => h x (by simp [names, hx]))]
  | .proj idx ty e, Γ, Γ', h => by
    simp only [errs]; rw [errs_agree e Γ Γ' (fun x hx => h x (by simpa [names] using hx))]
theorem errsList_agree : ∀ (es : List Expr) (Γ Γ' : TyEnv),
    (∀ x ∈ namesList es, lookupVar Γ x = lookupVar Γ' x) → errsList S Γ es = errsList S Γ' es
  | [], _, _, _ => rfl
  | e :: rest, Γ, Γ', h => by
    simp only [errsList]
    rw [errs_agree e Γ Γ' (fun x hx => h x (by simp [namesList, hx])),
      errsList_agree rest Γ Γ' (fun x hx => h x (by simp [namesList, hx]))]
theorem errsArms_agree : ∀ (arms : List Arm) (Γ Γ' : TyEnv) (st rt : Ty),
    (∀ x ∈ namesArms arms, lookupVar Γ x = lookupVar Γ' x) → errsArms S Γ st rt arms = errsArms S Γ' st rt arms
  | [], _, _, _, _, _ => rfl
  | .mk lhs body :: rest, Γ, Γ', st, rt, h => by
    simp only [errsArms]
    rw [errs_agree body Γ Γ' (fun x hx => h x (by simp [namesArms, hx])),
      errsArms_agree rest Γ Γ' st rt (fun x hx => h x (by simp [namesArms, hx]))]
end

/-! ### typing a chain of bindings -/

/-- the context after the bindings of `L` -/
def extΓ : Binds → TyEnv → TyEnv
  | [], Γ => Γ
  | (x, v) :: L, Γ => extΓ L ((x, Mono.getTy v) :: Γ)

/-- the inconsistencies of the right-hand sides of `L`, each in the context of the bindings before it -/
def errsB (S : Sig) : TyEnv → Binds → List String
  | _, [] => []
  | Γ, (x, v) :: L => errs S Γ v ++ errsB S ((x, Mono.getTy v) :: Γ) L

theorem extΓ_append : ∀ (L1 L2 : Binds) (Γ : TyEnv), extΓ (L1 ++ L2) Γ = extΓ L2 (extΓ L1 Γ)
  | [], _, _ => rfl
  | (x, v) :: L1, L2, Γ => by simp only [List.cons_append, extΓ]; exact extΓ_append L1 L2 _

theorem errsB_append : ∀ (L1 L2 : Binds) (Γ : TyEnv),
    errsB S Γ (L1 ++ L2) = errsB S Γ L1 ++ errsB S (extΓ L1 Γ) L2
  | [], _, _ => rfl
  | (x, v) :: L1, L2, Γ => by
    simp only [List.cons_append, errsB, extΓ, errsB_append L1 L2, List.append_assoc]

theorem errs_wrap : ∀ (L : Binds) (c : Expr) (Γ : TyEnv),
    errs S Γ (wrap L c) = errsB S Γ L ++ errs S (extΓ L Γ) c
  | [], _, _ => rfl
  | (x, v) :: L, c, Γ => by simp only [wrap, errs, errsB, extΓ, errs_wrap L c, List.append_assoc]

theorem getTy_wrap : ∀ (L : Binds) (c : Expr), Mono.getTy (wrap L c) = Mono.getTy c
  | [], _ => rfl
  | (x, v) :: L, c => by simp only [wrap, Mono.getTy]; exact getTy_wrap L c

theorem lookup_extΓ : ∀ (L : Binds) (Γ : TyEnv) (x : String), x ∉ keys L → lookupVar (extΓ L Γ) x = lookupVar Γ x
  | [], _, _, _ => rfl
  | (y, v) :: L, Γ, x, h => by
    simp only [keys_cons, List.mem_cons, not_or] at h
    simp only [extΓ]
    rw [lookup_extΓ L _ x h.2, lookupVar_cons]
    have : (y == x) = false := by simpa using fun e => h.1 e.symm
    simp [this]

/-- the contexts agree outside `D` -/
def AgreeT (D : List String) (Γ Γ' : TyEnv) : Prop := ∀ x, x ∉ D → lookupVar Γ x = lookupVar Γ' x

theorem AgreeT.ext {D : List String} {Γ Γ' : TyEnv} (h : AgreeT D Γ Γ') (L : Binds) :
    AgreeT (D ++ keys L) Γ (extΓ L Γ') := by
  intro x hx
  simp only [List.mem_append, not_or] at hx
  rw [lookup_extΓ L Γ' x hx.2]; exact h x hx.1

theorem AgreeT.cons {D : List String} {Γ Γ' : TyEnv} (h : AgreeT D Γ Γ') (y : String) (t : Ty) :
    AgreeT D ((y, t) :: Γ) ((y, t) :: Γ') := fun x hx => lookupVar_cons_congr y t (h x hx)

theorem AgreeT.mono {D D' : List String} {Γ Γ' : TyEnv} (h : AgreeT D Γ Γ') (hD : ∀ x, x ∈ D → x ∈ D') :
    AgreeT D' Γ Γ' := fun x hx => h x (fun hd => hx (hD x hd))

theorem errs_of_agree {D : List String} {Γ Γ' : TyEnv} {e : Expr} (ha : AgreeT D Γ Γ')
    (hd : ∀ x ∈ names e, x ∉ D) (h : errs S Γ e = []) : errs S Γ' e = [] := by
  rw [← errs_agree S e Γ Γ' (fun x hx => ha x (hd x hx))]; exact h

theorem getTys_length : ∀ (es : List Expr), (Mono.getTys es).length = es.length
  | [] => rfl
  | _ :: rest => by simp [Mono.getTys, getTys_length rest]

/-! ### statements -/

/-- an expression in non-tail position: the bindings are consistent, and the final expression is
    consistent in the extended context and has the type of the source expression -/
def WT (e : Expr) : Prop :=
  ∀ (n N : Nat) (D : List String) (Γ Γ' : TyEnv), Hyp D e n N → AgreeT D Γ Γ' → errs S Γ e = [] →
    errsB S Γ' (dec e n).L = [] ∧ errs S (extΓ (dec e n).L Γ') (dec e n).c = [] ∧
      Mono.getTy (dec e n).c = Mono.getTy e

/-- a branch / loop part / function body -/
def WTTop (e : Expr) : Prop :=
  ∀ (n N : Nat) (D : List String) (Γ Γ' : TyEnv), Hyp D e n N → AgreeT D Γ Γ' → errs S Γ e = [] →
    errs S Γ' (anf e n ret).1 = [] ∧ Mono.getTy (anf e n ret).1 = Mono.getTy e

/-- an operand: the atom that stands for it has the operand's type in the extended context -/
def WTImm (e : Expr) : Prop :=
  ∀ (n N : Nat) (D : List String) (Γ Γ' : TyEnv),
    frag e = true → (∀ x ∈ names e, x ∉ D) → (∀ m, n ≤ m → m < N → tmpName m ∉ names e) →
    (decImm e n).n ≤ N → AgreeT D Γ Γ' → errs S Γ e = [] →
    errsB S Γ' (decImm e n).L = [] ∧ errs S (extΓ (decImm e n).L Γ') (decImm e n).c = [] ∧
      Mono.getTy (decImm e n).c = Mono.getTy e

def WTL (es : List Expr) : Prop :=
  ∀ (n N : Nat) (D : List String) (Γ Γ' : TyEnv), HypL D es n N → AgreeT D Γ Γ' → errsList S Γ es = [] →
    errsB S Γ' (decList es n).L = [] ∧ errsList S (extΓ (decList es n).L Γ') (decList es n).cs = [] ∧
      Mono.getTys (decList es n).cs = Mono.getTys es

theorem wt_top {e : Expr} (h : WT S e) : WTTop S e := by
  intro n N D Γ Γ' hy ha he
  obtain ⟨h1, h2, h3⟩ := h n N D Γ Γ' hy ha he
  rw [anf_ret]
  simp only [errs_wrap, getTy_wrap, h1, h2, h3, List.append_nil, and_self]

theorem wt_imm {e : Expr} (h : WT S e) : WTImm S e := by
  intro n N D Γ Γ' hf hd hfr hb ha he
  cases hat : isAtom e
  · rw [decImm_nonatom hat] at hb ⊢
    simp only at hb ⊢
    have hy : Hyp D e (n+1) N := ⟨hf, hd, fun m h1 h2 => hfr m (by omega) h2, hb⟩
    obtain ⟨h1, h2, h3⟩ := h (n+1) N D Γ Γ' hy ha he
    refine ⟨?_, ?_, ?_⟩
    · rw [errsB_append, h1]; simp [errsB, h2]
    · rw [extΓ_append]
      simp only [extΓ, errs, lookupVar_cons, beq_self_eq_true, if_true, check_nil]
      rw [h3, tyOf_eq_getTy]; exact Mono.tyBeq_refl _
    · simp only [Mono.getTy]; exact tyOf_eq_getTy e
  · rw [decImm_atom hat]
    exact ⟨rfl, errs_of_agree S ha hd he, rfl⟩

theorem wtL_nil : WTL S [] := by
  intro n N D Γ Γ' _ _ _
  exact ⟨rfl, rfl, rfl⟩

/-- the atom standing for an operand is not rebound while the later operands are named -/
theorem imm_not_rebound {e : Expr} {rest : List Expr} {n N : Nat}
    (hd : disj (bndList rest) (names e) = true)
    (hfr : ∀ m, n ≤ m → m < N → tmpName m ∉ namesList (e :: rest))
    (hb : (decList rest (decImm e n).n).n ≤ N) (x : String) (hx : x ∈ names (decImm e n).c) :
    x ∉ keys (decList rest (decImm e n).n).L := by
  intro hk
  have hko := decList_keys rest _ x hk
  have hm1 := decImm_mono e n
  have hm2 := decList_mono rest (decImm e n).n
  rcases decImm_c_names e n x hx with ⟨_, hxe⟩ | ⟨_, rfl, hlt⟩
  · refine keyOk_not_mem hko hd (fun m h1 h2 hm => hfr m h1 h2 ?_) hm1 hb hxe
    simp [namesList, hm]
  · rcases hko with hko | ⟨m, hm1', hm2', hm3⟩
    · exact hfr n (Nat.le_refl _) (by omega) (by simp [namesList, bndList_sub_names rest _ hko])
    · have := tmpName_inj hm3; omega

theorem wtL_cons {e : Expr} {rest : List Expr} (he : WTImm S e) (hr : WTL S rest) : WTL S (e :: rest) := by
  intro n N D Γ Γ' hy ha hev
  have hyt := hypL_tail hy
  obtain ⟨hf, hd, hfr, hb⟩ := hy
  simp only [fragList, Bool.and_eq_true] at hf
  obtain ⟨⟨⟨hf1, hf2⟩, hf3⟩, hf4⟩ := hf
  have hm1 := decImm_mono e n
  have hm2 := decList_mono rest (decImm e n).n
  have hbe : (decImm e n).n ≤ N := by simp only [decList] at hb; unfold decImm at *; omega
  have hbr : (decList rest (decImm e n).n).n ≤ N := by simpa [decList, decImm] using hb
  have hde : ∀ x ∈ names e, x ∉ D := fun x hx => hd x (by simp [namesList, hx])
  have hfre : ∀ m, n ≤ m → m < N → tmpName m ∉ names e :=
    fun m h1 h2 hm => hfr m h1 h2 (by simp [namesList, hm])
  simp only [errsList, List.append_eq_nil_iff] at hev
  obtain ⟨a1, a2, a3⟩ := he n N D Γ Γ' hf1 hde hfre hbe ha hev.1
  obtain ⟨b1, b2, b3⟩ := hr _ N _ Γ _ hyt (ha.ext (decImm e n).L) hev.2
  show errsB S Γ' ((decImm e n).L ++ (decList rest (decImm e n).n).L) = [] ∧
    errsList S (extΓ ((decImm e n).L ++ (decList rest (decImm e n).n).L) Γ')
      ((decImm e n).c :: (decList rest (decImm e n).n).cs) = [] ∧
    Mono.getTys ((decImm e n).c :: (decList rest (decImm e n).n).cs) = Mono.getTys (e :: rest)
  refine ⟨by rw [errsB_append, a1, b1]; rfl, ?_, by simp only [Mono.getTys, a3, b3]⟩
  rw [extΓ_append]
  simp only [errsList, List.append_eq_nil_iff]
  refine ⟨?_, b2⟩
  rw [errs_agree S _ _ (extΓ (decImm e n).L Γ')
    (fun x hx => lookup_extΓ _ _ x (imm_not_rebound hf4 hfr hbr x hx))]
  exact a2

/-- a node that names its operands left to right and then checks its annotation against their types -/
theorem wt_ops {e : Expr} {ops : List Expr} {mk : List Expr → Expr}
    (hL : WTL S ops)
    (hdec : ∀ n, (dec e n).L = (decList ops n).L ∧ (dec e n).c = mk (decList ops n).cs ∧ (dec e n).n = (decList ops n).n)
    (hhyp : ∀ D n N, Hyp D e n N → HypL D ops n N)
    (hsrc : ∀ Γ, errs S Γ e = [] → errsList S Γ ops = [])
    (htgt : ∀ Γ Γ1 cs, errs S Γ e = [] → errsList S Γ1 cs = [] → Mono.getTys cs = Mono.getTys ops →
      errs S Γ1 (mk cs) = [] ∧ Mono.getTy (mk cs) = Mono.getTy e) : WT S e := by
  intro n N D Γ Γ' hy ha he
  obtain ⟨hd1, hd2, _⟩ := hdec n
  rw [hd1, hd2]
  obtain ⟨h1, h2, h3⟩ := hL n N D Γ Γ' (hhyp D n N hy) ha (hsrc Γ he)
  obtain ⟨h4, h5⟩ := htgt Γ _ _ he h2 h3
  exact ⟨h1, h4, h5⟩

theorem hypL_single {D : List String} {e0 e : Expr} {n N : Nat} (hfrag : frag e0 = frag e) (hnames : names e0 = names e)
    (hdec : (dec e0 n).n = (decImm e n).n) (hy : Hyp D e0 n N) : HypL D [e] n N := by
  obtain ⟨hf, hd, hfr, hb⟩ := hy
  rw [hfrag] at hf; rw [hnames] at hd hfr
  refine ⟨by simp [fragList, hf, bndList, namesList, disj_nil_left, disj_nil_right], by simpa [namesList] using hd,
    by simpa [namesList] using hfr, ?_⟩
  rw [hdec] at hb
  simpa [decList, decImm] using hb

theorem getTys_single {cs : List Expr} {e : Expr} (h : Mono.getTys cs = Mono.getTys [e]) :
    ∃ i, cs = [i] ∧ Mono.getTy i = Mono.getTy e := by
  match cs, h with
  | [i], h => simp only [Mono.getTys, List.cons.injEq, and_true] at h; exact ⟨i, rfl, h⟩
  | [], h => simp [Mono.getTys] at h
  | _ :: _ :: _, h => simp [Mono.getTys] at h

/-- one operand, then a head whose check reads only the operand's type -/
theorem wt_op1 {e0 e : Expr} {mk1 : Expr → Expr} (he : WT S e)
    (hdec : ∀ n, dec e0 n = ⟨(decImm e n).L, mk1 (decImm e n).c, (decImm e n).n⟩)
    (hfrag : frag e0 = frag e) (hnames : names e0 = names e)
    (hsrc : ∀ Γ, errs S Γ e0 = [] → errs S Γ e = [])
    (htgt : ∀ Γ Γ1 i, errs S Γ e0 = [] → errs S Γ1 i = [] → Mono.getTy i = Mono.getTy e →
      errs S Γ1 (mk1 i) = [] ∧ Mono.getTy (mk1 i) = Mono.getTy e0) : WT S e0 := by
  intro n N D Γ Γ' hy ha hev
  obtain ⟨hf, hd, hfr, hb⟩ := hy
  rw [hdec] at hb ⊢
  simp only at hb ⊢
  rw [hfrag] at hf; rw [hnames] at hd hfr
  obtain ⟨h1, h2, h3⟩ := wt_imm S he n N D Γ Γ' hf hd hfr hb ha (hsrc Γ hev)
  obtain ⟨h4, h5⟩ := htgt Γ _ _ hev h2 h3
  exact ⟨h1, h4, h5⟩

end Goml.Anf
