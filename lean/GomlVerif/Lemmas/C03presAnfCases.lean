import GomlVerif.Lemmas.C03presAnf
/-!
ANF preserves `Wt.errs … = []`, node by node (same case split as `Lemmas/AnfFwdCases.lean`).
-/
namespace Goml.Anf
open Goml Goml.Wt

variable (S : Sig)

theorem wt_var (x : String) (ty : Ty) : WT S (.var x ty) := by
  intro n N D Γ Γ' hy ha he
  show errsB S Γ' [] = [] ∧ errs S (extΓ [] Γ') (.var x ty) = [] ∧ _
  exact ⟨rfl, errs_of_agree S ha hy.dis he, rfl⟩

theorem wt_prim (p : Prim) : WT S (.prim p) := by
  intro n N D Γ Γ' _ _ _
  exact ⟨rfl, rfl, rfl⟩

/-! ### one operand -/

theorem wt_un {op : UnOp} {ty : Ty} {e : Expr} (he : WT S e) : WT S (.un op ty e) :=
  wt_op1 S (mk1 := fun i => .un op ty i) he (fun n => rfl) (by simp [frag]) (by simp [names])
    (fun Γ h => by simp only [errs, List.append_eq_nil_iff] at h; exact h.1)
    (fun Γ Γ1 i h hi ht => by
      refine ⟨?_, rfl⟩
      simp only [errs, List.append_eq_nil_iff] at h ⊢
      rw [ht]; exact ⟨hi, h.2⟩)

theorem wt_cget {c : Ctor} {idx : Nat} {ty : Ty} {e : Expr} (he : WT S e) : WT S (.cget c idx ty e) :=
  wt_op1 S (mk1 := fun i => .cget c idx ty i) he (fun n => rfl) (by simp [frag]) (by simp [names])
    (fun Γ h => by simp only [errs, List.append_eq_nil_iff] at h; exact h.1)
    (fun Γ Γ1 i h hi ht => by
      refine ⟨?_, rfl⟩
      simp only [errs, List.append_eq_nil_iff] at h ⊢
      rw [ht]; exact ⟨hi, h.2⟩)

theorem wt_proj {idx : Nat} {ty : Ty} {e : Expr} (he : WT S e) : WT S (.proj idx ty e) :=
  wt_op1 S (mk1 := fun i => .proj idx ty i) he (fun n => rfl) (by simp [frag]) (by simp [names])
    (fun Γ h => by simp only [errs, List.append_eq_nil_iff] at h; exact h.1)
    (fun Γ Γ1 i h hi ht => by
      refine ⟨?_, rfl⟩
      simp only [errs, List.append_eq_nil_iff] at h ⊢
      rw [ht]; exact ⟨hi, h.2⟩)

theorem wt_toDyn {tr : String} {forTy ty : Ty} {e : Expr} (he : WT S e) : WT S (.toDyn tr forTy ty e) :=
  wt_op1 S (mk1 := fun i => .toDyn tr forTy ty i) he (fun n => rfl) (by simp [frag]) (by simp [names])
    (fun Γ h => by simp only [errs, List.append_eq_nil_iff] at h; exact h.1.1)
    (fun Γ Γ1 i h hi ht => by
      refine ⟨?_, rfl⟩
      simp only [errs, List.append_eq_nil_iff] at h ⊢
      rw [ht]; exact ⟨⟨hi, h.1.2⟩, h.2⟩)

theorem wt_go {e : Expr} (he : WT S e) : WT S (.go e) :=
  wt_op1 S (mk1 := fun i => .go i) he (fun n => rfl) (by simp [frag]) (by simp [names])
    (fun Γ h => by simpa only [errs] using h)
    (fun Γ Γ1 i h hi ht => ⟨by simpa only [errs] using hi, rfl⟩)

/-! ### operand lists -/

theorem wt_tuple {ty : Ty} {items : List Expr} (hL : WTL S items) : WT S (.tuple ty items) :=
  wt_ops S (mk := fun cs => .tuple ty cs) hL (fun n => ⟨rfl, rfl, rfl⟩)
    (fun D n N hy => ⟨by simpa [frag] using hy.frag, by simpa [names] using hy.dis,
      by simpa [names] using hy.fresh, hy.bound⟩)
    (fun Γ h => by simp only [errs, List.append_eq_nil_iff] at h; exact h.1)
    (fun Γ Γ1 cs h hcs ht => by
      refine ⟨?_, rfl⟩
      simp only [errs, List.append_eq_nil_iff] at h ⊢
      rw [ht]; exact ⟨hcs, h.2⟩)

theorem wt_array {ty : Ty} {items : List Expr} (hL : WTL S items) : WT S (.array ty items) :=
  wt_ops S (mk := fun cs => .array ty cs) hL (fun n => ⟨rfl, rfl, rfl⟩)
    (fun D n N hy => ⟨by simpa [frag] using hy.frag, by simpa [names] using hy.dis,
      by simpa [names] using hy.fresh, hy.bound⟩)
    (fun Γ h => by simp only [errs, List.append_eq_nil_iff] at h; exact h.1)
    (fun Γ Γ1 cs h hcs ht => by
      refine ⟨?_, rfl⟩
      have hlen : cs.length = items.length := by rw [← getTys_length cs, ht, getTys_length]
      simp only [errs, List.append_eq_nil_iff] at h ⊢
      refine ⟨hcs, ?_⟩
      cases ty <;> simp at h
      rename_i k el
      obtain ⟨_, h1, h2⟩ := h
      simp only [check_nil] at h1 h2
      simp only [List.append_eq_nil_iff, check_nil, ht, hlen]
      exact ⟨h1, h2⟩)

theorem wt_constr {c : Ctor} {ty : Ty} {args : List Expr}
    (h : ∀ tn vn idx, c = .enum tn vn idx → args ≠ []) (hL : WTL S args) : WT S (.constr c ty args) :=
  wt_ops S (mk := fun cs => .constr c ty cs) hL
    (fun n => by rw [dec_constr_general h]; exact ⟨rfl, rfl, rfl⟩)
    (fun D n N hy => ⟨by have := hy.frag; simp only [frag, Bool.and_eq_true] at this; exact this.2,
      by simpa [names] using hy.dis, by simpa [names] using hy.fresh,
      by have := hy.bound; rw [dec_constr_general h] at this; exact this⟩)
    (fun Γ h => by simp only [errs, List.append_eq_nil_iff] at h; exact h.1)
    (fun Γ Γ1 cs h hcs ht => by
      refine ⟨?_, rfl⟩
      simp only [errs, List.append_eq_nil_iff] at h ⊢
      rw [ht]; exact ⟨hcs, h.2⟩)

theorem wt_constr_nullary {tn vn : String} {idx : Nat} {ty : Ty} : WT S (.constr (.enum tn vn idx) ty []) := by
  intro n N D Γ Γ' _ _ _
  show errsB S Γ' [] = [] ∧ errs S (extΓ [] Γ') (.tag idx ty) = [] ∧ _
  exact ⟨rfl, rfl, rfl⟩

theorem wt_call {ty : Ty} {f : Expr} {args : List Expr} (hL : WTL S (f :: args)) : WT S (.call ty f args) :=
  wt_ops S (mk := fun cs => match cs with | fi :: is => .call ty fi is | [] => .prim .unit) hL
    (fun n => ⟨rfl, rfl, rfl⟩)
    (fun D n N hy => ⟨by simpa [frag, fragList] using hy.frag, by simpa [names, namesList] using hy.dis,
      by simpa [names, namesList] using hy.fresh, hy.bound⟩)
    (fun Γ h => by
      simp only [errs, errsList, List.append_eq_nil_iff] at h ⊢; exact h.1)
    (fun Γ Γ1 cs h hcs ht => by
      match cs, hcs, ht with
      | [], _, ht => simp [Mono.getTys] at ht
      | fi :: is, hcs, ht =>
        simp only [Mono.getTys, List.cons.injEq] at ht
        refine ⟨?_, rfl⟩
        simp only [errs, errsList, List.append_eq_nil_iff] at h hcs ⊢
        rw [ht.1, ht.2]; exact ⟨hcs, h.2⟩)

theorem wt_dynCall {tr m : String} {ty : Ty} {recv : Expr} {args : List Expr} (hL : WTL S (recv :: args)) :
    WT S (.dynCall tr m ty recv args) :=
  wt_ops S (mk := fun cs => match cs with | ri :: is => .dynCall tr m ty ri is | [] => .prim .unit) hL
    (fun n => ⟨rfl, rfl, rfl⟩)
    (fun D n N hy => ⟨by simpa [frag, fragList] using hy.frag, by simpa [names, namesList] using hy.dis,
      by simpa [names, namesList] using hy.fresh, hy.bound⟩)
    (fun Γ h => by
      simp only [errs, errsList, List.append_eq_nil_iff] at h ⊢; exact h.1.1)
    (fun Γ Γ1 cs h hcs ht => by
      match cs, hcs, ht with
      | [], _, ht => simp [Mono.getTys] at ht
      | ri :: is, hcs, ht =>
        simp only [Mono.getTys, List.cons.injEq] at ht
        refine ⟨?_, rfl⟩
        simp only [errs, errsList, List.append_eq_nil_iff] at h hcs ⊢
        rw [ht.1, ht.2]; exact ⟨⟨hcs, h.1.2⟩, h.2⟩)

theorem wt_bin_plain {op : BinOp} {ty : Ty} {l r : Expr}
    (hc : ((op == .and || op == .or) && !trivialRhs r) = false) (hL : WTL S [l, r]) : WT S (.bin op ty l r) := by
  refine wt_ops S (mk := fun cs => match cs with | [li, ri] => .bin op ty li ri | _ => .prim .unit) hL ?_ ?_ ?_ ?_
  · intro n
    simp [dec, hc, decList, decImm]
  · intro D n N hy
    refine ⟨?_, ?_, ?_, ?_⟩
    · have := hy.frag
      simp only [frag, Bool.and_eq_true] at this
      simp only [fragList, Bool.and_eq_true, bndList, namesList, List.append_nil, disj_nil_left, disj_nil_right,
        and_true]
      exact ⟨⟨⟨this.1.1.1, this.1.1.2⟩, this.1.2⟩, this.2⟩
    · simpa [names, namesList] using hy.dis
    · simpa [names, namesList] using hy.fresh
    · have := hy.bound
      simp only [dec, hc, Bool.false_eq_true, if_false] at this
      simpa [decList, decImm] using this
  · intro Γ h
    simp only [errs, errsList, List.append_eq_nil_iff, List.append_nil] at h ⊢; exact h.1
  · intro Γ Γ1 cs h hcs ht
    match cs, hcs, ht with
    | [li, ri], hcs, ht =>
      simp only [Mono.getTys, List.cons.injEq, and_true] at ht
      refine ⟨?_, rfl⟩
      simp only [errs, errsList, List.append_eq_nil_iff, List.append_nil] at h hcs ⊢
      rw [ht.1, ht.2]; exact ⟨hcs, h.2⟩
    | [], _, ht => simp [Mono.getTys] at ht
    | [_], _, ht => simp [Mono.getTys] at ht
    | _ :: _ :: _ :: _, _, ht => simp [Mono.getTys] at ht

/-! ### nodes with sub-expressions in tail position -/

theorem wt_letE {x : String} {v b : Expr} (hv : WT S v) (hb : WT S b) : WT S (.letE x v b) := by
  intro n N D Γ Γ' hy ha hev
  have hf := hy.frag
  simp only [frag, Bool.and_eq_true] at hf
  obtain ⟨⟨hfv, hfb⟩, hdj⟩ := hf
  have hm1 := dec_mono v n
  have hm2 := dec_mono b (dec v n).n
  have hbd := hy.bound
  simp only [dec] at hbd
  have hyv : Hyp D v n N := hyp_child0 hy hfv (fun x hx => by simp [names, hx]) (Nat.le_refl _) (by omega)
  have hyb : Hyp (D ++ keys (dec v n).L) b (dec v n).n N :=
    hyp_child hy hfb (fun x hx => by simp [names, hx]) (dec_keys v n) hdj (Nat.le_refl _) (by omega) hm1 hbd
  simp only [errs, List.append_eq_nil_iff] at hev
  obtain ⟨a1, a2, a3⟩ := hv n N D Γ Γ' hyv ha hev.1
  have ha1 : AgreeT (D ++ keys (dec v n).L) ((x, Mono.getTy v) :: Γ)
      ((x, Mono.getTy (dec v n).c) :: extΓ (dec v n).L Γ') := by
    rw [a3]; exact (ha.ext _).cons x _
  obtain ⟨b1, b2, b3⟩ := hb _ N _ _ _ hyb ha1 hev.2
  show errsB S Γ' ((dec v n).L ++ (x, (dec v n).c) :: (dec b (dec v n).n).L) = [] ∧
    errs S (extΓ ((dec v n).L ++ (x, (dec v n).c) :: (dec b (dec v n).n).L) Γ') (dec b (dec v n).n).c = [] ∧
    Mono.getTy (dec b (dec v n).n).c = Mono.getTy (.letE x v b)
  refine ⟨?_, ?_, b3⟩
  · rw [errsB_append]; simp only [errsB, a1, a2, b1, List.append_nil]
  · rw [extΓ_append]; simp only [extΓ]; exact b2

theorem wt_ite {c t e : Expr} (hc : WT S c) (ht : WT S t) (he : WT S e) : WT S (.ite c t e) := by
  intro n N D Γ Γ' hy ha hev
  have hf := hy.frag
  simp only [frag, Bool.and_eq_true] at hf
  obtain ⟨⟨⟨hfc, hft⟩, hfe⟩, hdj⟩ := hf
  obtain ⟨hdjt, hdje⟩ := disj_append_right hdj
  have hm1 := decImm_mono c n
  have hm2 := dec_mono t (decImm c n).n
  have hm3 := dec_mono e (dec t (decImm c n).n).n
  have hbd := hy.bound
  simp only [dec, anf_ret] at hbd
  have hbd' : (dec e (dec t (decImm c n).n).n).n ≤ N := hbd
  have hyt : Hyp (D ++ keys (decImm c n).L) t (decImm c n).n N :=
    hyp_child hy hft (fun x hx => by simp [names, hx]) (decImm_keys c n) hdjt (Nat.le_refl _) (by omega) hm1 (by omega)
  have hye : Hyp (D ++ keys (decImm c n).L) e (dec t (decImm c n).n).n N :=
    hyp_child hy hfe (fun x hx => by simp [names, hx]) (decImm_keys c n) hdje (Nat.le_refl _) (by omega) (by omega) hbd'
  simp only [errs, List.append_eq_nil_iff, checkEq_nil] at hev
  obtain ⟨⟨⟨⟨ec, et⟩, ee⟩, hcb⟩, hte⟩ := hev
  obtain ⟨a1, a2, a3⟩ := wt_imm S hc n N D Γ Γ' hfc (fun x hx => hy.dis x (by simp [names, hx]))
    (fun m a b hm => hy.fresh m a b (by simp [names, hm])) (by omega) ha ec
  have ha1 := ha.ext (decImm c n).L
  obtain ⟨t1, t2⟩ := wt_top S ht _ N _ Γ _ hyt ha1 et
  obtain ⟨e1, e2⟩ := wt_top S he _ N _ Γ _ hye ha1 ee
  have hcnt : (anf t (decImm c n).n ret).2 = (dec t (decImm c n).n).n := by rw [anf_ret]
  show errsB S Γ' (decImm c n).L = [] ∧
    errs S (extΓ (decImm c n).L Γ') (.ite (decImm c n).c (anf t (decImm c n).n ret).1
      (anf e (anf t (decImm c n).n ret).2 ret).1) = [] ∧
    Mono.getTy (.ite (decImm c n).c (anf t (decImm c n).n ret).1
      (anf e (anf t (decImm c n).n ret).2 ret).1) = Mono.getTy (.ite c t e)
  rw [hcnt]
  refine ⟨a1, ?_, ?_⟩
  · simp only [errs, List.append_eq_nil_iff, checkEq_nil]
    exact ⟨⟨⟨⟨a2, t1⟩, e1⟩, by rw [a3, hcb]⟩, by rw [t2, e2, hte]⟩
  · simp only [Mono.getTy]; exact t2

theorem wt_while {c b : Expr} (hc : WT S c) (hb : WT S b) : WT S (.while c b) := by
  intro n N D Γ Γ' hy ha hev
  have hf := hy.frag
  simp only [frag, Bool.and_eq_true] at hf
  have hm1 := dec_mono c n
  have hm2 := dec_mono b (dec c n).n
  have hbd := hy.bound
  simp only [dec, anf_ret] at hbd
  have hyc : Hyp D c n N := hyp_child0 hy hf.1 (fun x hx => by simp [names, hx]) (Nat.le_refl _) (by omega)
  have hyb : Hyp D b (dec c n).n N := hyp_child0 hy hf.2 (fun x hx => by simp [names, hx]) hm1 hbd
  simp only [errs, List.append_eq_nil_iff, checkEq_nil] at hev
  obtain ⟨⟨ec, eb⟩, hcb⟩ := hev
  obtain ⟨c1, c2⟩ := wt_top S hc n N D Γ Γ' hyc ha ec
  obtain ⟨b1, _⟩ := wt_top S hb _ N D Γ Γ' hyb ha eb
  have hcnt : (anf c n ret).2 = (dec c n).n := by rw [anf_ret]
  show errsB S Γ' [] = [] ∧
    errs S (extΓ [] Γ') (.while (anf c n ret).1 (anf b (anf c n ret).2 ret).1) = [] ∧
    Mono.getTy (.while (anf c n ret).1 (anf b (anf c n ret).2 ret).1) = Mono.getTy (.while c b)
  rw [hcnt]
  refine ⟨rfl, ?_, rfl⟩
  simp only [extΓ, errs, List.append_eq_nil_iff, checkEq_nil]
  exact ⟨⟨c1, b1⟩, by rw [c2, hcb]⟩

/-- `a && b` / `a || b` with a complex right operand: lowered to `if`, whose branches are `bool` -/
theorem wt_bin_lowered {op : BinOp} {ty : Ty} {l r : Expr}
    (hc : ((op == .and || op == .or) && !trivialRhs r) = true) (hl : WT S l) (hr : WT S r) :
    WT S (.bin op ty l r) := by
  intro n N D Γ Γ' hy ha hev
  have hf := hy.frag
  simp only [frag, Bool.and_eq_true] at hf
  obtain ⟨⟨⟨hfl, hfr⟩, hdj⟩, _⟩ := hf
  have hm1 := decImm_mono l n
  have hm2 := dec_mono r (decImm l n).n
  have hbd := hy.bound
  obtain ⟨hop, hat⟩ := lowered_iff.1 hc
  have hcnt : (anf r (decImm l n).n ret).2 = (dec r (decImm l n).n).n := by rw [anf_ret]
  have hbd' : (dec r (decImm l n).n).n ≤ N := by
    rcases hop with rfl | rfl
    · rw [dec_and_lowered hat] at hbd; rw [← hcnt]; exact hbd
    · rw [dec_or_lowered hat] at hbd; rw [← hcnt]; exact hbd
  have hyr : Hyp (D ++ keys (decImm l n).L) r (decImm l n).n N :=
    hyp_child hy hfr (fun x hx => by simp [names, hx]) (decImm_keys l n) hdj (Nat.le_refl _) (by omega) hm1 hbd'
  have hdl : ∀ x ∈ names l, x ∉ D := fun x hx => hy.dis x (by simp [names, hx])
  have hfrl : ∀ m, n ≤ m → m < N → tmpName m ∉ names l := fun m a b hm => hy.fresh m a b (by simp [names, hm])
  simp only [errs, List.append_eq_nil_iff, check_nil] at hev
  obtain ⟨⟨el, er⟩, hok⟩ := hev
  obtain ⟨a1, a2, a3⟩ := wt_imm S hl n N D Γ Γ' hfl hdl hfrl (by omega) ha el
  have ha1 := ha.ext (decImm l n).L
  obtain ⟨r1, r2⟩ := wt_top S hr _ N _ Γ _ hyr ha1 er
  rcases hop with rfl | rfl
  · rw [dec_and_lowered hat]
    simp only [binopOk, Bool.and_eq_true] at hok
    have hA := (Mono.tyBeq_iff _ _).1 hok.1.1
    have hB := (Mono.tyBeq_iff _ _).1 hok.1.2
    have hT := (Mono.tyBeq_iff _ _).1 hok.2
    refine ⟨a1, ?_, ?_⟩
    · simp only [errs, List.append_eq_nil_iff, checkEq_nil, Mono.getTy, Mono.primTy, List.append_nil]
      exact ⟨⟨⟨a2, r1⟩, by rw [a3, hA]⟩, by rw [r2, hB]⟩
    · simp only [Mono.getTy]; rw [r2, hB, hT]
  · rw [dec_or_lowered hat]
    simp only [binopOk, Bool.and_eq_true] at hok
    have hA := (Mono.tyBeq_iff _ _).1 hok.1.1
    have hB := (Mono.tyBeq_iff _ _).1 hok.1.2
    have hT := (Mono.tyBeq_iff _ _).1 hok.2
    refine ⟨a1, ?_, ?_⟩
    · simp only [errs, List.append_eq_nil_iff, checkEq_nil, Mono.getTy, Mono.primTy, List.append_nil]
      exact ⟨⟨⟨a2, r1⟩, by rw [a3, hA]⟩, by rw [r2, hB]⟩
    · simp only [Mono.getTy, Mono.primTy]; rw [hT]

/-! ### `match` -/

/-- the check `errsArms` makes on an arm head -/
def headErrs (S : Sig) (st : Ty) (lhs : Expr) : List String :=
  match lhs with
  | .constr c ty args =>
    checkEq ty st "arm:constructor-type" ++
    (match fieldTys S c ty with
     | none => ["arm:no-such-constructor-at-this-type"]
     | some fts => check (Mono.tysBeq fts (Mono.getTys args)) ("arm:field-types|" ++ diffClasses fts (Mono.getTys args)))
  | .prim p => checkEq (Mono.primTy p) st "arm:literal-type"
  | .tag _ ty => checkEq ty st "arm:tag-type"
  | _ => ["arm:head"]

theorem errsArms_cons (Γ : TyEnv) (st rt : Ty) (lhs body : Expr) (rest : List Arm) :
    errsArms S Γ st rt (.mk lhs body :: rest) =
      headErrs S st lhs ++ errs S Γ body ++ checkEq (Mono.getTy body) rt "arm:body-type" ++ errsArms S Γ st rt rest := by
  cases lhs <;> simp only [errsArms, headErrs]
  rename_i c ty args
  cases fieldTys S c ty <;> rfl

/-- an enum constructor head becomes its tag; the check on a tag is part of the check on the constructor -/
theorem headErrs_armHead (st : Ty) (lhs : Expr) (h : headErrs S st lhs = []) : headErrs S st (armHead lhs) = [] := by
  cases lhs <;> try exact h
  rename_i c ty args
  cases c with
  | struct sn => exact h
  | enum tn vn idx =>
    simp only [headErrs, List.append_eq_nil_iff, checkEq_nil] at h
    simp only [armHead, headErrs, checkEq_nil]
    exact h.1

def WTA (arms : List Arm) : Prop :=
  ∀ (n N : Nat) (D : List String) (Γ Γ' : TyEnv) (st rt : Ty),
    fragArms arms = true → (∀ x ∈ namesArms arms, x ∉ D) →
    (∀ m, n ≤ m → m < N → tmpName m ∉ namesArms arms) → (anfArms arms n).2 ≤ N →
    AgreeT D Γ Γ' → errsArms S Γ st rt arms = [] → errsArms S Γ' st rt (anfArms arms n).1 = []

theorem wtA_nil : WTA S [] := by
  intro n N D Γ Γ' st rt _ _ _ _ _ _
  rfl

theorem wtA_cons {lhs body : Expr} {rest : List Arm} (hb : WT S body) (hr : WTA S rest) :
    WTA S (.mk lhs body :: rest) := by
  intro n N D Γ Γ' st rt hf hd hfr hbd ha hev
  simp only [fragArms, Bool.and_eq_true] at hf
  have hm1 := dec_mono body n
  have hm2 := anfArms_mono rest (dec body n).n
  simp only [anfArms, anf_ret] at hbd
  have hyb : Hyp D body n N :=
    ⟨hf.1.2, fun x hx => hd x (by simp [namesArms, hx]),
      fun m a b hm => hfr m a b (by simp [namesArms, hm]), by omega⟩
  rw [errsArms_cons] at hev
  simp only [List.append_eq_nil_iff, checkEq_nil] at hev
  obtain ⟨⟨⟨h1, h2⟩, h3⟩, h4⟩ := hev
  obtain ⟨b1, b2⟩ := wt_top S hb n N D Γ Γ' hyb ha h2
  have r := hr (dec body n).n N D Γ Γ' st rt hf.2 (fun x hx => hd x (by simp [namesArms, hx]))
    (fun m a b hm => hfr m (by omega) b (by simp [namesArms, hm])) hbd ha h4
  have hcnt : (anf body n ret).2 = (dec body n).n := by rw [anf_ret]
  show errsArms S Γ' st rt (.mk (armHead lhs) (anf body n ret).1 :: (anfArms rest (anf body n ret).2).1) = []
  rw [hcnt, errsArms_cons]
  simp only [List.append_eq_nil_iff, checkEq_nil]
  exact ⟨⟨⟨headErrs_armHead S st lhs h1, b1⟩, by rw [b2, h3]⟩, r⟩

theorem wt_matchE {ty : Ty} {s : Expr} {arms : List Arm} {d : Option Expr}
    (hs' : WT S s) (hA : WTA S arms) (hD : ∀ e, d = some e → WT S e) : WT S (.matchE ty s arms d) := by
  intro n N D Γ Γ' hy ha hev
  have hf := hy.frag
  simp only [frag, Bool.and_eq_true] at hf
  obtain ⟨⟨⟨hfs, hfa⟩, hfd⟩, hdj⟩ := hf
  have hm1 := decImm_mono s n
  have hm2 := anfArms_mono arms (decImm s n).n
  have hm3 := anfDflt_mono d (anfArms arms (decImm s n).n).2
  have hbd := hy.bound
  simp only [dec] at hbd
  have hbd' : (anfDflt d (anfArms arms (decImm s n).n).2).2 ≤ N := hbd
  have hdisAD : ∀ x ∈ namesArms arms ++ namesDflt d, x ∉ D ++ keys (decImm s n).L := by
    intro x hx
    simp only [List.mem_append, not_or]
    refine ⟨hy.dis x (by simp only [names, List.mem_append] at hx ⊢; exact Or.inr hx), fun hk => ?_⟩
    exact keyOk_not_mem (decImm_keys s n x hk) hdj
      (fun m a b hm => hy.fresh m a b (by simp only [names, List.mem_append] at hm ⊢; exact Or.inr hm))
      (Nat.le_refl n) (by omega) hx
  have hfrAD : ∀ m, (decImm s n).n ≤ m → m < N → tmpName m ∉ namesArms arms ++ namesDflt d := by
    intro m a b hm
    exact hy.fresh m (by omega) b (by simp only [names, List.mem_append] at hm ⊢; exact Or.inr hm)
  have hds : ∀ x ∈ names s, x ∉ D := fun x hx => hy.dis x (by simp [names, hx])
  have hfrs : ∀ m, n ≤ m → m < N → tmpName m ∉ names s := fun m a b hm => hy.fresh m a b (by simp [names, hm])
  have ha1 := ha.ext (decImm s n).L
  have hAr : ∀ st rt, errsArms S Γ st rt arms = [] →
      errsArms S (extΓ (decImm s n).L Γ') st rt (anfArms arms (decImm s n).n).1 = [] := fun st rt h =>
    hA (decImm s n).n N _ Γ _ st rt hfa (fun x hx => hdisAD x (by simp [hx]))
      (fun m a b hm => hfrAD m a b (by simp [hm])) (by omega) ha1 h
  cases d with
  | none =>
    simp only [errs, List.append_eq_nil_iff] at hev
    obtain ⟨es, ea⟩ := hev
    obtain ⟨a1, a2, a3⟩ := wt_imm S hs' n N D Γ Γ' hfs hds hfrs (by omega) ha es
    show errsB S Γ' (decImm s n).L = [] ∧
      errs S (extΓ (decImm s n).L Γ') (.matchE ty (decImm s n).c (anfArms arms (decImm s n).n).1 none) = [] ∧ _
    refine ⟨a1, ?_, rfl⟩
    simp only [errs, List.append_eq_nil_iff]
    exact ⟨a2, by rw [a3]; exact hAr _ _ ea⟩
  | some d0 =>
    simp only [errs, List.append_eq_nil_iff, checkEq_nil] at hev
    obtain ⟨⟨⟨es, ea⟩, ed⟩, hdt⟩ := hev
    obtain ⟨a1, a2, a3⟩ := wt_imm S hs' n N D Γ Γ' hfs hds hfrs (by omega) ha es
    have hyd : Hyp (D ++ keys (decImm s n).L) d0 (anfArms arms (decImm s n).n).2 N :=
      ⟨hfd, fun x hx => hdisAD x (by simp [namesDflt, hx]),
        fun m a b hm => hfrAD m (by omega) b (by simp [namesDflt, hm]),
        by simpa [anfDflt, anf_ret] using hbd'⟩
    obtain ⟨d1, d2⟩ := wt_top S (hD d0 rfl) _ N _ Γ _ hyd ha1 ed
    show errsB S Γ' (decImm s n).L = [] ∧
      errs S (extΓ (decImm s n).L Γ') (.matchE ty (decImm s n).c (anfArms arms (decImm s n).n).1
        (some (anf d0 (anfArms arms (decImm s n).n).2 ret).1)) = [] ∧ _
    refine ⟨a1, ?_, rfl⟩
    simp only [errs, List.append_eq_nil_iff, checkEq_nil]
    exact ⟨⟨⟨a2, by rw [a3]; exact hAr _ _ ea⟩, d1⟩, by rw [d2, hdt]⟩

/-! ### all nodes -/

mutual
theorem wt_all : ∀ (e : Expr), WT S e
  | .var x ty => wt_var S x ty
  | .prim p => wt_prim S p
  | .tag idx ty => fun _ _ _ _ _ hy => by have := hy.frag; simp [frag] at this
  | .closure ty ps b => fun _ _ _ _ _ hy => by have := hy.frag; simp [frag] at this
  | .traitCall tr m ty recv args => fun _ _ _ _ _ hy => by have := hy.frag; simp [frag] at this
  | .constr (.enum tn vn idx) ty [] => wt_constr_nullary S
  | .constr (.struct sn) ty [] => wt_constr S (fun _ _ _ h => by cases h) (wtL_all [])
  | .constr c ty (a :: as) => wt_constr S (fun _ _ _ _ => by simp) (wtL_all (a :: as))
  | .tuple ty items => wt_tuple S (wtL_all items)
  | .array ty items => wt_array S (wtL_all items)
  | .letE x v b => wt_letE S (wt_all v) (wt_all b)
  | .ite c t e => wt_ite S (wt_all c) (wt_all t) (wt_all e)
  | .while c b => wt_while S (wt_all c) (wt_all b)
  | .go e => wt_go S (wt_all e)
  | .matchE ty s arms d => wt_matchE S (wt_all s) (wtA_all arms) (wtD_all d)
  | .cget c idx ty e => wt_cget S (wt_all e)
  | .un op ty e => wt_un S (wt_all e)
  | .bin op ty l r => by
    cases hc : ((op == .and || op == .or) && !trivialRhs r)
    · exact wt_bin_plain S hc (wtL_cons S (wt_imm S (wt_all l)) (wtL_cons S (wt_imm S (wt_all r)) (wtL_nil S)))
    · exact wt_bin_lowered S hc (wt_all l) (wt_all r)
  | .call ty f args => wt_call S (wtL_cons S (wt_imm S (wt_all f)) (wtL_all args))
  | .toDyn tr forTy ty e => wt_toDyn S (wt_all e)
  | .dynCall tr m ty recv args => wt_dynCall S (wtL_cons S (wt_imm S (wt_all recv)) (wtL_all args))
  | .proj idx ty e => wt_proj S (wt_all e)
theorem wtL_all : ∀ (es : List Expr), WTL S es
  | [] => wtL_nil S
  | e :: rest => wtL_cons S (wt_imm S (wt_all e)) (wtL_all rest)
theorem wtA_all : ∀ (arms : List Arm), WTA S arms
  | [] => wtA_nil S
  | .mk lhs body :: rest => wtA_cons S (wt_all body) (wtA_all rest)
theorem wtD_all : ∀ (d : Option Expr) (e : Expr), d = some e → WT S e
  | none, _, h => by cases h
  | some e, _, h => (Option.some.inj h) ▸ wt_all e
end

end Goml.Anf
