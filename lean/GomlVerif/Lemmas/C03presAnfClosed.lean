import GomlVerif.Lemmas.AnfHyp
import GomlVerif.Model.Closed
/-!
ANF introduces no new type annotation except the type of the expression a temporary names:
if every annotation of `e` satisfies `p` (and `p` holds of `unit` and the literal types, which
`tyOf` may return), every annotation of `anf e` does.  No side condition on names is needed.
-/
namespace Goml.Anf
open Goml Goml.Closed

/-- what `tyOf` may produce without reading an annotation -/
structure PBase (p : Ty → Bool) : Prop where
  unit : p .unit = true
  prim : ∀ q, p (Anf.primTy q) = true

variable (p : Ty → Bool)

def allB : Binds → Bool
  | [] => true
  | (_, v) :: L => allTys p v && allB L

theorem allB_append : ∀ (L1 L2 : Binds), allB p (L1 ++ L2) = (allB p L1 && allB p L2)
  | [], _ => by simp [allB]
  | (x, v) :: L1, L2 => by simp only [List.cons_append, allB, allB_append L1 L2, Bool.and_assoc]

theorem allTys_wrap : ∀ (L : Binds) (c : Expr), allTys p (wrap L c) = (allB p L && allTys p c)
  | [], c => by simp [wrap, allB]
  | (x, v) :: L, c => by simp only [wrap, allTys, allB, allTys_wrap L c, Bool.and_assoc]

theorem allTys_tyOf (hp : PBase p) : ∀ (e : Expr), allTys p e = true → p (tyOf e) = true
  | .var _ _, h => by simpa [allTys, tyOf] using h
  | .prim q, _ => hp.prim q
  | .tag _ _, h => by simpa [allTys, tyOf] using h
  | .constr _ _ _, h => by simp only [allTys, Bool.and_eq_true] at h; exact h.1
  | .tuple _ _, h => by simp only [allTys, Bool.and_eq_true] at h; exact h.1
  | .array _ _, h => by simp only [allTys, Bool.and_eq_true] at h; exact h.1
  | .closure _ _ _, h => by simp only [allTys, Bool.and_eq_true] at h; exact h.1.1
  | .letE _ _ b, h => by
    simp only [allTys, Bool.and_eq_true] at h; simp only [tyOf]; exact allTys_tyOf hp b h.2
  | .matchE _ _ _ none, h => by simp only [allTys, Bool.and_eq_true] at h; exact h.1.1
  | .matchE _ _ _ (some _), h => by simp only [allTys, Bool.and_eq_true] at h; exact h.1.1.1
  | .ite _ t _, h => by
    simp only [allTys, Bool.and_eq_true] at h; simp only [tyOf]; exact allTys_tyOf hp t h.1.2
  | .while _ _, _ => hp.unit
  | .go _, _ => hp.unit
  | .cget _ _ _ _, h => by simp only [allTys, Bool.and_eq_true] at h; exact h.1
  | .un _ _ _, h => by simp only [allTys, Bool.and_eq_true] at h; exact h.1
  | .bin _ _ _ _, h => by simp only [allTys, Bool.and_eq_true] at h; exact h.1.1
  | .call _ _ _, h => by simp only [allTys, Bool.and_eq_true] at h; exact h.1.1
  | .toDyn _ _ _ _, h => by simp only [allTys, Bool.and_eq_true] at h; exact h.1.2
  | .dynCall _ _ _ _ _, h => by simp only [allTys, Bool.and_eq_true] at h; exact h.1.1
  | .traitCall _ _ _ _ _, h => by simp only [allTys, Bool.and_eq_true] at h; exact h.1.1
  | .proj _ _ _, h => by simp only [allTys, Bool.and_eq_true] at h; exact h.1

/-- statement for one expression, any counter -/
def CL (e : Expr) : Prop :=
  ∀ n, allTys p e = true → allB p (dec e n).L = true ∧ allTys p (dec e n).c = true

theorem cl_top {e : Expr} (h : CL p e) (n : Nat) (he : allTys p e = true) : allTys p (anf e n ret).1 = true := by
  rw [anf_ret, allTys_wrap]
  have := h n he
  simp [this.1, this.2]

theorem cl_imm (hp : PBase p) {e : Expr} (h : CL p e) (n : Nat) (he : allTys p e = true) :
    allB p (decImm e n).L = true ∧ allTys p (decImm e n).c = true := by
  cases hat : isAtom e
  · rw [decImm_nonatom hat]
    have := h (n + 1) he
    simp only [allB_append, allB, allTys, this.1, this.2, Bool.and_true, true_and]
    exact allTys_tyOf p hp e he
  · rw [decImm_atom hat]; exact ⟨rfl, he⟩

mutual
theorem dec_allTys (hp : PBase p) : ∀ (e : Expr), CL p e
  | .var _ _, n, h => by simpa [dec, allB] using h
  | .prim _, n, h => by simp [dec, allB, allTys]
  | .tag _ _, n, h => by simpa [dec, allB] using h
  | .closure _ _ _, n, h => by simpa [dec, allB] using h
  | .traitCall _ _ _ _ _, n, h => by simpa [dec, allB] using h
  | .constr (.enum tn vn idx) ty [], n, h => by
    simp only [allTys, Bool.and_eq_true] at h
    simp [dec, allB, allTys, h.1]
  | .constr (.struct sn) ty [], n, h => by
    simp only [allTys, Bool.and_eq_true] at h
    simp [dec, decList, allB, allTys, allTysList, h.1]
  | .constr c ty (a :: as), n, h => by
    simp only [allTys, Bool.and_eq_true] at h
    have := decList_allTys hp (a :: as) n h.2
    simp only [dec, allTys, Bool.and_eq_true]; exact ⟨this.1, h.1, this.2⟩
  | .tuple ty items, n, h => by
    simp only [allTys, Bool.and_eq_true] at h
    have := decList_allTys hp items n h.2
    simp only [dec, allTys, Bool.and_eq_true]; exact ⟨this.1, h.1, this.2⟩
  | .array ty items, n, h => by
    simp only [allTys, Bool.and_eq_true] at h
    have := decList_allTys hp items n h.2
    simp only [dec, allTys, Bool.and_eq_true]; exact ⟨this.1, h.1, this.2⟩
  | .letE x v b, n, h => by
    simp only [allTys, Bool.and_eq_true] at h
    have h1 := dec_allTys hp v n h.1
    have h2 := dec_allTys hp b (dec v n).n h.2
    simp only [dec, allB_append, allB, Bool.and_eq_true]
    exact ⟨⟨h1.1, h1.2, h2.1⟩, h2.2⟩
  | .ite c t e, n, h => by
    simp only [allTys, Bool.and_eq_true] at h
    have h1 := cl_imm p hp (dec_allTys hp c) n h.1.1
    have h2 := cl_top p (dec_allTys hp t) (decImm c n).n h.1.2
    have h3 := cl_top p (dec_allTys hp e) (anf t (decImm c n).n ret).2 h.2
    unfold decImm at h1 h2 h3
    simp only [dec, allTys, Bool.and_eq_true]
    exact ⟨h1.1, ⟨h1.2, h2⟩, h3⟩
  | .while c b, n, h => by
    simp only [allTys, Bool.and_eq_true] at h
    have h1 := cl_top p (dec_allTys hp c) n h.1
    have h2 := cl_top p (dec_allTys hp b) (anf c n ret).2 h.2
    simp only [dec, allTys, allB, Bool.and_eq_true]
    exact ⟨trivial, h1, h2⟩
  | .go e, n, h => by
    simp only [allTys] at h
    have := cl_imm p hp (dec_allTys hp e) n h
    unfold decImm at this
    simp only [dec, allTys]; exact this
  | .matchE ty s arms none, n, h => by
    simp only [allTys, Bool.and_eq_true] at h
    have h1 := cl_imm p hp (dec_allTys hp s) n h.1.2
    have h2 := anfArms_allTys hp arms (decImm s n).n h.2
    unfold decImm at h1 h2
    simp only [dec, anfDflt, allTys, Bool.and_eq_true]
    exact ⟨h1.1, ⟨h.1.1, h1.2⟩, h2⟩
  | .matchE ty s arms (some d), n, h => by
    simp only [allTys, Bool.and_eq_true] at h
    have h1 := cl_imm p hp (dec_allTys hp s) n h.1.1.2
    have h2 := anfArms_allTys hp arms (decImm s n).n h.1.2
    have h3 := cl_top p (dec_allTys hp d) (anfArms arms (decImm s n).n).2 h.2
    unfold decImm at h1 h2 h3
    simp only [dec, anfDflt, allTys, Bool.and_eq_true]
    exact ⟨h1.1, ⟨⟨h.1.1.1, h1.2⟩, h2⟩, h3⟩
  | .cget c idx ty e, n, h => by
    simp only [allTys, Bool.and_eq_true] at h
    have := cl_imm p hp (dec_allTys hp e) n h.2
    unfold decImm at this
    simp only [dec, allTys, Bool.and_eq_true]; exact ⟨this.1, h.1, this.2⟩
  | .un op ty e, n, h => by
    simp only [allTys, Bool.and_eq_true] at h
    have := cl_imm p hp (dec_allTys hp e) n h.2
    unfold decImm at this
    simp only [dec, allTys, Bool.and_eq_true]; exact ⟨this.1, h.1, this.2⟩
  | .bin op ty l r, n, h => by
    simp only [allTys, Bool.and_eq_true] at h
    have h1 := cl_imm p hp (dec_allTys hp l) n h.1.2
    have h2 := cl_imm p hp (dec_allTys hp r) (decImm l n).n h.2
    have h3 := cl_top p (dec_allTys hp r) (decImm l n).n h.2
    unfold decImm at h1 h2 h3
    simp only [dec]
    split
    · split
      · simp only [allTys, Bool.and_eq_true]; exact ⟨h1.1, ⟨h1.2, h3⟩, trivial⟩
      · simp only [allTys, Bool.and_eq_true]; exact ⟨h1.1, ⟨h1.2, trivial⟩, h3⟩
    · simp only [allB_append, allTys, Bool.and_eq_true]
      exact ⟨⟨h1.1, h2.1⟩, ⟨h.1.1, h1.2⟩, h2.2⟩
  | .call ty f args, n, h => by
    simp only [allTys, Bool.and_eq_true] at h
    have h1 := cl_imm p hp (dec_allTys hp f) n h.1.2
    have h2 := decList_allTys hp args (decImm f n).n h.2
    unfold decImm at h1 h2
    simp only [dec, allB_append, allTys, Bool.and_eq_true]
    exact ⟨⟨h1.1, h2.1⟩, ⟨h.1.1, h1.2⟩, h2.2⟩
  | .toDyn tr forTy ty e, n, h => by
    simp only [allTys, Bool.and_eq_true] at h
    have := cl_imm p hp (dec_allTys hp e) n h.2
    unfold decImm at this
    simp only [dec, allTys, Bool.and_eq_true]; exact ⟨this.1, ⟨h.1.1, h.1.2⟩, this.2⟩
  | .dynCall tr m ty recv args, n, h => by
    simp only [allTys, Bool.and_eq_true] at h
    have h1 := cl_imm p hp (dec_allTys hp recv) n h.1.2
    have h2 := decList_allTys hp args (decImm recv n).n h.2
    unfold decImm at h1 h2
    simp only [dec, allB_append, allTys, Bool.and_eq_true]
    exact ⟨⟨h1.1, h2.1⟩, ⟨h.1.1, h1.2⟩, h2.2⟩
  | .proj idx ty e, n, h => by
    simp only [allTys, Bool.and_eq_true] at h
    have := cl_imm p hp (dec_allTys hp e) n h.2
    unfold decImm at this
    simp only [dec, allTys, Bool.and_eq_true]; exact ⟨this.1, h.1, this.2⟩
theorem decList_allTys (hp : PBase p) : ∀ (es : List Expr) (n : Nat), allTysList p es = true →
    allB p (decList es n).L = true ∧ allTysList p (decList es n).cs = true
  | [], n, _ => by simp [decList, allB, allTysList]
  | e :: rest, n, h => by
    simp only [allTysList, Bool.and_eq_true] at h
    have h1 := cl_imm p hp (dec_allTys hp e) n h.1
    have h2 := decList_allTys hp rest (decImm e n).n h.2
    unfold decImm at h1 h2
    simp only [decList, allB_append, allTysList, Bool.and_eq_true]
    exact ⟨⟨h1.1, h2.1⟩, h1.2, h2.2⟩
theorem anfArms_allTys (hp : PBase p) : ∀ (arms : List Arm) (n : Nat), allTysArms p arms = true →
    allTysArms p (anfArms arms n).1 = true
  | [], n, _ => by simp [anfArms, allTysArms]
  | .mk lhs body :: rest, n, h => by
    simp only [allTysArms, Bool.and_eq_true] at h
    have h1 := cl_top p (dec_allTys hp body) n h.1.2
    have h2 := anfArms_allTys hp rest (anf body n ret).2 h.2
    have h0 : allTys p (armHead lhs) = true := by
      cases lhs <;> try exact h.1.1
      rename_i c ty args
      cases c with
      | struct sn => exact h.1.1
      | enum tn vn idx =>
        have := h.1.1
        simp only [allTys, Bool.and_eq_true] at this
        simpa [armHead, allTys] using this.1
    simp only [anfArms, allTysArms, Bool.and_eq_true]
    exact ⟨⟨h0, h1⟩, h2⟩
end

/-! ### no `ETraitCall` is built -/

def ntcB : Binds → Bool
  | [] => true
  | (_, v) :: L => noTraitCall v && ntcB L

theorem ntcB_append : ∀ (L1 L2 : Binds), ntcB (L1 ++ L2) = (ntcB L1 && ntcB L2)
  | [], _ => by simp [ntcB]
  | (x, v) :: L1, L2 => by simp only [List.cons_append, ntcB, ntcB_append L1 L2, Bool.and_assoc]

theorem noTraitCall_wrap : ∀ (L : Binds) (c : Expr), noTraitCall (wrap L c) = (ntcB L && noTraitCall c)
  | [], c => by simp [wrap, ntcB]
  | (x, v) :: L, c => by simp only [wrap, noTraitCall, ntcB, noTraitCall_wrap L c, Bool.and_assoc]

def NT (e : Expr) : Prop :=
  ∀ n, noTraitCall e = true → ntcB (dec e n).L = true ∧ noTraitCall (dec e n).c = true

theorem nt_top {e : Expr} (h : NT e) (n : Nat) (he : noTraitCall e = true) : noTraitCall (anf e n ret).1 = true := by
  rw [anf_ret, noTraitCall_wrap]
  have := h n he
  simp [this.1, this.2]

theorem nt_imm {e : Expr} (h : NT e) (n : Nat) (he : noTraitCall e = true) :
    ntcB (decImm e n).L = true ∧ noTraitCall (decImm e n).c = true := by
  cases hat : isAtom e
  · rw [decImm_nonatom hat]
    have := h (n + 1) he
    simp [ntcB_append, ntcB, noTraitCall, this.1, this.2]
  · rw [decImm_atom hat]; exact ⟨rfl, he⟩

mutual
theorem dec_ntc : ∀ (e : Expr), NT e
  | .var _ _, n, _ => by simp [dec, ntcB, noTraitCall]
  | .prim _, n, _ => by simp [dec, ntcB, noTraitCall]
  | .tag _ _, n, _ => by simp [dec, ntcB, noTraitCall]
  | .closure _ _ _, n, h => by simpa [dec, ntcB] using h
  | .traitCall _ _ _ _ _, n, h => by simp [noTraitCall] at h
  | .constr (.enum tn vn idx) ty [], n, _ => by simp [dec, ntcB, noTraitCall]
  | .constr (.struct sn) ty [], n, _ => by simp [dec, decList, ntcB, noTraitCall, noTraitCallList]
  | .constr c ty (a :: as), n, h => by
    simp only [noTraitCall] at h
    have := decList_ntc (a :: as) n h
    simp only [dec, noTraitCall]; exact this
  | .tuple ty items, n, h => by
    simp only [noTraitCall] at h
    have := decList_ntc items n h
    simp only [dec, noTraitCall]; exact this
  | .array ty items, n, h => by
    simp only [noTraitCall] at h
    have := decList_ntc items n h
    simp only [dec, noTraitCall]; exact this
  | .letE x v b, n, h => by
    simp only [noTraitCall, Bool.and_eq_true] at h
    have h1 := dec_ntc v n h.1
    have h2 := dec_ntc b (dec v n).n h.2
    simp only [dec, ntcB_append, ntcB, Bool.and_eq_true]
    exact ⟨⟨h1.1, h1.2, h2.1⟩, h2.2⟩
  | .ite c t e, n, h => by
    simp only [noTraitCall, Bool.and_eq_true] at h
    have h1 := nt_imm (dec_ntc c) n h.1.1
    have h2 := nt_top (dec_ntc t) (decImm c n).n h.1.2
    have h3 := nt_top (dec_ntc e) (anf t (decImm c n).n ret).2 h.2
    unfold decImm at h1 h2 h3
    simp only [dec, noTraitCall, Bool.and_eq_true]
    exact ⟨h1.1, ⟨h1.2, h2⟩, h3⟩
  | .while c b, n, h => by
    simp only [noTraitCall, Bool.and_eq_true] at h
    have h1 := nt_top (dec_ntc c) n h.1
    have h2 := nt_top (dec_ntc b) (anf c n ret).2 h.2
    simp only [dec, noTraitCall, ntcB, Bool.and_eq_true]
    exact ⟨trivial, h1, h2⟩
  | .go e, n, h => by
    simp only [noTraitCall] at h
    have := nt_imm (dec_ntc e) n h
    unfold decImm at this
    simp only [dec, noTraitCall]; exact this
  | .matchE ty s arms none, n, h => by
    simp only [noTraitCall, Bool.and_eq_true] at h
    have h1 := nt_imm (dec_ntc s) n h.1
    have h2 := anfArms_ntc arms (decImm s n).n h.2
    unfold decImm at h1 h2
    simp only [dec, anfDflt, noTraitCall, Bool.and_eq_true]
    exact ⟨h1.1, h1.2, h2⟩
  | .matchE ty s arms (some d), n, h => by
    simp only [noTraitCall, Bool.and_eq_true] at h
    have h1 := nt_imm (dec_ntc s) n h.1.1
    have h2 := anfArms_ntc arms (decImm s n).n h.1.2
    have h3 := nt_top (dec_ntc d) (anfArms arms (decImm s n).n).2 h.2
    unfold decImm at h1 h2 h3
    simp only [dec, anfDflt, noTraitCall, Bool.and_eq_true]
    exact ⟨h1.1, ⟨h1.2, h2⟩, h3⟩
  | .cget c idx ty e, n, h => by
    simp only [noTraitCall] at h
    have := nt_imm (dec_ntc e) n h
    unfold decImm at this
    simp only [dec, noTraitCall]; exact this
  | .un op ty e, n, h => by
    simp only [noTraitCall] at h
    have := nt_imm (dec_ntc e) n h
    unfold decImm at this
    simp only [dec, noTraitCall]; exact this
  | .bin op ty l r, n, h => by
    simp only [noTraitCall, Bool.and_eq_true] at h
    have h1 := nt_imm (dec_ntc l) n h.1
    have h2 := nt_imm (dec_ntc r) (decImm l n).n h.2
    have h3 := nt_top (dec_ntc r) (decImm l n).n h.2
    unfold decImm at h1 h2 h3
    simp only [dec]
    split
    · split
      · simp only [noTraitCall, Bool.and_eq_true]; exact ⟨h1.1, ⟨h1.2, h3⟩, trivial⟩
      · simp only [noTraitCall, Bool.and_eq_true]; exact ⟨h1.1, ⟨h1.2, trivial⟩, h3⟩
    · simp only [ntcB_append, noTraitCall, Bool.and_eq_true]
      exact ⟨⟨h1.1, h2.1⟩, h1.2, h2.2⟩
  | .call ty f args, n, h => by
    simp only [noTraitCall, Bool.and_eq_true] at h
    have h1 := nt_imm (dec_ntc f) n h.1
    have h2 := decList_ntc args (decImm f n).n h.2
    unfold decImm at h1 h2
    simp only [dec, ntcB_append, noTraitCall, Bool.and_eq_true]
    exact ⟨⟨h1.1, h2.1⟩, h1.2, h2.2⟩
  | .toDyn tr forTy ty e, n, h => by
    simp only [noTraitCall] at h
    have := nt_imm (dec_ntc e) n h
    unfold decImm at this
    simp only [dec, noTraitCall]; exact this
  | .dynCall tr m ty recv args, n, h => by
    simp only [noTraitCall, Bool.and_eq_true] at h
    have h1 := nt_imm (dec_ntc recv) n h.1
    have h2 := decList_ntc args (decImm recv n).n h.2
    unfold decImm at h1 h2
    simp only [dec, ntcB_append, noTraitCall, Bool.and_eq_true]
    exact ⟨⟨h1.1, h2.1⟩, h1.2, h2.2⟩
  | .proj idx ty e, n, h => by
    simp only [noTraitCall] at h
    have := nt_imm (dec_ntc e) n h
    unfold decImm at this
    simp only [dec, noTraitCall]; exact this
theorem decList_ntc : ∀ (es : List Expr) (n : Nat), noTraitCallList es = true →
    ntcB (decList es n).L = true ∧ noTraitCallList (decList es n).cs = true
  | [], n, _ => by simp [decList, ntcB, noTraitCallList]
  | e :: rest, n, h => by
    simp only [noTraitCallList, Bool.and_eq_true] at h
    have h1 := nt_imm (dec_ntc e) n h.1
    have h2 := decList_ntc rest (decImm e n).n h.2
    unfold decImm at h1 h2
    simp only [decList, ntcB_append, noTraitCallList, Bool.and_eq_true]
    exact ⟨⟨h1.1, h2.1⟩, h1.2, h2.2⟩
theorem anfArms_ntc : ∀ (arms : List Arm) (n : Nat), noTraitCallArms arms = true →
    noTraitCallArms (anfArms arms n).1 = true
  | [], n, _ => by simp [anfArms, noTraitCallArms]
  | .mk lhs body :: rest, n, h => by
    simp only [noTraitCallArms, Bool.and_eq_true] at h
    have h1 := nt_top (dec_ntc body) n h.1.2
    have h2 := anfArms_ntc rest (anf body n ret).2 h.2
    have h0 : noTraitCall (armHead lhs) = true := by
      cases lhs <;> try exact h.1.1
      rename_i c ty args
      cases c with
      | struct sn => exact h.1.1
      | enum tn vn idx => simp [armHead, noTraitCall]
    simp only [anfArms, noTraitCallArms, Bool.and_eq_true]
    exact ⟨⟨h0, h1⟩, h2⟩
end

end Goml.Anf
