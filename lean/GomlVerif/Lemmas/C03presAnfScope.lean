import GomlVerif.Lemmas.ProgAnf
import GomlVerif.Model.Scoped
/-!
ANF preserves scope closedness (`Scoped.unbound … = []`), independently of types: every
temporary is bound by the chain before its use and no source variable leaves, or is captured by,
a widened `let`.  Same structure as `Lemmas/C03presAnf*.lean` with a set of bound names in place of
the typed context.
-/
namespace Goml.Anf
open Goml Goml.Scoped

theorem mem_cons_congr {B B' : List String} {x : String} (k : String) (h : x ∈ B ↔ x ∈ B') :
    x ∈ k :: B ↔ x ∈ k :: B' := by simp only [List.mem_cons, h]

theorem mem_append_congr {B B' : List String} {x : String} (ps : List String) (h : x ∈ B ↔ x ∈ B') :
    x ∈ ps ++ B ↔ x ∈ ps ++ B' := by simp only [List.mem_append, h]

mutual
theorem unbound_agree : ∀ (e : Expr) (B B' : List String),
    (∀ x ∈ names e, (x ∈ B ↔ x ∈ B')) → unbound B e = unbound B' e
  | .var x ty, B, B', h => by
    have hx := h x (by simp [names])
    simp only [unbound]
    by_cases hb : x ∈ B
    · simp [hb, hx.1 hb]
    · have hb' : x ∉ B' := fun h' => hb (hx.2 h')
      simp [hb, hb']
  | .prim _, _, _, _ => rfl
  | .tag _ _, _, _, _ => rfl
  | .constr c ty args, B, B', h => by
    simp only [unbound]; exact unboundList_agree args B B' (fun x hx => h x (by simpa [names] using hx))
  | .tuple ty items, B, B', h => by
    simp only [unbound]; exact unboundList_agree items B B' (fun x hx => h x (by simpa [names] using hx))
  | .array ty items, B, B', h => by
    simp only [unbound]; exact unboundList_agree items B B' (fun x hx => h x (by simpa [names] using hx))
  | .closure ty ps body, B, B', h => by
    simp only [unbound]
    exact unbound_agree body _ _ (fun x hx => mem_append_congr _ (h x (by simp [names, hx])))
  | .letE y v b, B, B', h => by
    simp only [unbound]
    rw [unbound_agree v B B' (fun x hx => h x (by simp [names, hx])),
      unbound_agree b (y :: B) (y :: B') (fun x hx => mem_cons_congr y (h x (by simp [names, hx])))]
  | .matchE ty s arms none, B, B', h => by
    simp only [unbound]
    rw [unbound_agree s B B' (fun x hx => h x (by simp [names, hx])),
      unboundArms_agree arms B B' (fun x hx => h x (by simp [names, hx]))]
  | .matchE ty s arms (some d), B, B', h => by
    simp only [unbound]
    rw [unbound_agree s B B' (fun x hx => h x (by simp [names, hx])),
      unboundArms_agree arms B B' (fun x hx => h x (by simp [names, hx])),
      unbound_agree d B B' (fun x hx => h x (by simp [names, namesDflt, hx]))]
  | .ite c t e, B, B', h => by
    simp only [unbound]
    rw [unbound_agree c B B' (fun x hx => h x (by simp [names, hx])),
      unbound_agree t B B' (fun x hx => h x (by simp [names, hx])),
      unbound_agree e B B' (fun x hx => h x (by simp [names, hx]))]
  | .while c b, B, B', h => by
    simp only [unbound]
    rw [unbound_agree c B B' (fun x hx => h x (by simp [names, hx])),
      unbound_agree b B B' (fun x hx => h x (by simp [names, hx]))]
  | .go e, B, B', h => by
    simp only [unbound]; exact unbound_agree e B B' (fun x hx => h x (by simpa [names] using hx))
  | .cget c idx ty e, B, B', h => by
    simp only [unbound]; exact unbound_agree e B B' (fun x hx => h x (by simpa [names] using hx))
  | .un op ty e, B, B', h => by
    simp only [unbound]; exact unbound_agree e B B' (fun x hx => h x (by simpa [names] using hx))
  | .bin op ty l r, B, B', h => by
    simp only [unbound]
    rw [unbound_agree l B B' (fun x hx => h x (by simp [names, hx])),
      unbound_agree r B B' (fun x hx => h x (by simp [names, hx]))]
  | .call ty f args, B, B', h => by
    simp only [unbound]
    rw [unbound_agree f B B' (fun x hx => h x (by simp [names, hx])),
      unboundList_agree args B B' (fun x hx => h x (by simp [names, hx]))]
  | .toDyn tr forTy ty e, B, B', h => by
    simp only [unbound]; exact unbound_agree e B B' (fun x hx => h x (by simpa [names] using hx))
  | .dynCall tr m ty recv args, B, B', h => by
    simp only [unbound]
    rw [unbound_agree recv B B' (fun x hx => h x (by simp [names, hx])),
      unboundList_agree args B B' (fun x hx => h x (by simp [names, hx]))]
  | .traitCall tr m ty recv args, B, B', h => by
    simp only [unbound]
    rw [unbound_agree recv B B' (fun x hx => h x (by simp [names, hx])),
      unboundList_agree args B B' (fun x hx => h x (by simp [names, hx]))]
  | .proj idx ty e, B, B', h => by
    simp only [unbound]; exact unbound_agree e B B' (fun x hx => h x (by simpa [names] using hx))
theorem unboundList_agree : ∀ (es : List Expr) (B B' : List String),
    (∀ x ∈ namesList es, (x ∈ B ↔ x ∈ B')) → unboundList B es = unboundList B' es
  | [], _, _, _ => rfl
  | e :: rest, B, B', h => by
    simp only [unboundList]
    rw [unbound_agree e B B' (fun x hx => h x (by simp [namesList, hx])),
      unboundList_agree rest B B' (fun x hx => h x (by simp [namesList, hx]))]
theorem unboundArms_agree : ∀ (arms : List Arm) (B B' : List String),
    (∀ x ∈ namesArms arms, (x ∈ B ↔ x ∈ B')) → unboundArms B arms = unboundArms B' arms
  | [], _, _, _ => rfl
  | .mk lhs body :: rest, B, B', h => by
    simp only [unboundArms]
    rw [unbound_agree body B B' (fun x hx => h x (by simp [namesArms, hx])),
      unboundArms_agree rest B B' (fun x hx => h x (by simp [namesArms, hx]))]
end

/-! ### a chain of bindings -/

def extB : Binds → List String → List String
  | [], B => B
  | (x, _) :: L, B => extB L (x :: B)

def unbB : List String → Binds → List String
  | _, [] => []
  | B, (x, v) :: L => unbound B v ++ unbB (x :: B) L

theorem extB_append : ∀ (L1 L2 : Binds) (B : List String), extB (L1 ++ L2) B = extB L2 (extB L1 B)
  | [], _, _ => rfl
  | (x, v) :: L1, L2, B => by simp only [List.cons_append, extB]; exact extB_append L1 L2 _

theorem unbB_append : ∀ (L1 L2 : Binds) (B : List String),
    unbB B (L1 ++ L2) = unbB B L1 ++ unbB (extB L1 B) L2
  | [], _, _ => rfl
  | (x, v) :: L1, L2, B => by
    simp only [List.cons_append, unbB, extB, unbB_append L1 L2, List.append_assoc]

theorem unbound_wrap : ∀ (L : Binds) (c : Expr) (B : List String),
    unbound B (wrap L c) = unbB B L ++ unbound (extB L B) c
  | [], _, _ => rfl
  | (x, v) :: L, c, B => by simp only [wrap, unbound, unbB, extB, unbound_wrap L c, List.append_assoc]

theorem mem_extB : ∀ (L : Binds) (B : List String) (x : String), x ∉ keys L → (x ∈ extB L B ↔ x ∈ B)
  | [], _, _, _ => Iff.rfl
  | (y, v) :: L, B, x, h => by
    simp only [keys_cons, List.mem_cons, not_or] at h
    simp only [extB]
    rw [mem_extB L _ x h.2]
    simp [h.1]

def AgreeS (D : List String) (B B' : List String) : Prop := ∀ x, x ∉ D → (x ∈ B ↔ x ∈ B')

theorem AgreeS.ext {D B B' : List String} (h : AgreeS D B B') (L : Binds) : AgreeS (D ++ keys L) B (extB L B') := by
  intro x hx
  simp only [List.mem_append, not_or] at hx
  rw [mem_extB L B' x hx.2]; exact h x hx.1

theorem AgreeS.cons {D B B' : List String} (h : AgreeS D B B') (y : String) : AgreeS D (y :: B) (y :: B') :=
  fun x hx => mem_cons_congr y (h x hx)

theorem unbound_of_agree {D B B' : List String} {e : Expr} (ha : AgreeS D B B')
    (hd : ∀ x ∈ names e, x ∉ D) (h : unbound B e = []) : unbound B' e = [] := by
  rw [← unbound_agree e B B' (fun x hx => ha x (hd x hx))]; exact h

/-! ### statements -/

def SC (e : Expr) : Prop :=
  ∀ (n N : Nat) (D B B' : List String), Hyp D e n N → AgreeS D B B' → unbound B e = [] →
    unbB B' (dec e n).L = [] ∧ unbound (extB (dec e n).L B') (dec e n).c = []

def SCTop (e : Expr) : Prop :=
  ∀ (n N : Nat) (D B B' : List String), Hyp D e n N → AgreeS D B B' → unbound B e = [] →
    unbound B' (anf e n ret).1 = []

def SCImm (e : Expr) : Prop :=
  ∀ (n N : Nat) (D B B' : List String),
    frag e = true → (∀ x ∈ names e, x ∉ D) → (∀ m, n ≤ m → m < N → tmpName m ∉ names e) →
    (decImm e n).n ≤ N → AgreeS D B B' → unbound B e = [] →
    unbB B' (decImm e n).L = [] ∧ unbound (extB (decImm e n).L B') (decImm e n).c = []

def SCL (es : List Expr) : Prop :=
  ∀ (n N : Nat) (D B B' : List String), HypL D es n N → AgreeS D B B' → unboundList B es = [] →
    unbB B' (decList es n).L = [] ∧ unboundList (extB (decList es n).L B') (decList es n).cs = []

theorem sc_top {e : Expr} (h : SC e) : SCTop e := by
  intro n N D B B' hy ha he
  obtain ⟨h1, h2⟩ := h n N D B B' hy ha he
  rw [anf_ret]
  simp only [unbound_wrap, h1, h2, List.append_nil]

theorem sc_imm {e : Expr} (h : SC e) : SCImm e := by
  intro n N D B B' hf hd hfr hb ha he
  cases hat : isAtom e
  · rw [decImm_nonatom hat] at hb ⊢
    simp only at hb ⊢
    have hy : Hyp D e (n+1) N := ⟨hf, hd, fun m h1 h2 => hfr m (by omega) h2, hb⟩
    obtain ⟨h1, h2⟩ := h (n+1) N D B B' hy ha he
    refine ⟨?_, ?_⟩
    · rw [unbB_append, h1]; simp [unbB, h2]
    · rw [extB_append]; simp [extB, unbound]
  · rw [decImm_atom hat]
    exact ⟨rfl, unbound_of_agree ha hd he⟩

theorem scL_nil : SCL [] := by
  intro n N D B B' _ _ _
  exact ⟨rfl, rfl⟩

theorem imm_not_rebound' {e : Expr} {rest : List Expr} {n N : Nat}
    (hd : disj (bndList rest) (names e) = true)
    (hfr : ∀ m, n ≤ m → m < N → tmpName m ∉ namesList (e :: rest))
    (hb : (decList rest (decImm e n).n).n ≤ N) (x : String) (hx : x ∈ names (decImm e n).c) :
    x ∉ keys (decList rest (decImm e n).n).L := by
  intro hk
  have hko := decList_keys rest _ x hk
  have hm1 := decImm_mono e n
  have hm2 := decList_mono rest (decImm e n).n
  rcases decImm_c_names e n x hx with ⟨_, hxe⟩ | ⟨_, rfl, hlt⟩
  · refine keyOk_not_mem hko hd (fun m h1 h2 hm => hfr m h1 h2 ?_) hm1 hb hxe
    simp [namesList, hm]
  · rcases hko with hko | ⟨m, hm1', hm2', hm3⟩
    · exact hfr n (Nat.le_refl _) (by omega) (by simp [namesList, bndList_sub_names rest _ hko])
    · have := tmpName_inj hm3; omega

theorem scL_cons {e : Expr} {rest : List Expr} (he : SCImm e) (hr : SCL rest) : SCL (e :: rest) := by
  intro n N D B B' hy ha hev
  have hyt := hypL_tail hy
  obtain ⟨hf, hd, hfr, hb⟩ := hy
  simp only [fragList, Bool.and_eq_true] at hf
  obtain ⟨⟨⟨hf1, hf2⟩, hf3⟩, hf4⟩ := hf
  have hm1 := decImm_mono e n
  have hm2 := decList_mono rest (decImm e n).n
  have hbe : (decImm e n).n ≤ N := by simp only [decList] at hb; unfold decImm at *; omega
  have hbr : (decList rest (decImm e n).n).n ≤ N := by simpa [decList, decImm] using hb
  have hde : ∀ x ∈ names e, x ∉ D := fun x hx => hd x (by simp [namesList, hx])
  have hfre : ∀ m, n ≤ m → m < N → tmpName m ∉ names e :=
    fun m h1 h2 hm => hfr m h1 h2 (by simp [namesList, hm])
  simp only [unboundList, List.append_eq_nil_iff] at hev
  obtain ⟨a1, a2⟩ := he n N D B B' hf1 hde hfre hbe ha hev.1
  obtain ⟨b1, b2⟩ := hr _ N _ B _ hyt (ha.ext (decImm e n).L) hev.2
  show unbB B' ((decImm e n).L ++ (decList rest (decImm e n).n).L) = [] ∧
    unboundList (extB ((decImm e n).L ++ (decList rest (decImm e n).n).L) B')
      ((decImm e n).c :: (decList rest (decImm e n).n).cs) = []
  refine ⟨by rw [unbB_append, a1, b1]; rfl, ?_⟩
  rw [extB_append]
  simp only [unboundList, List.append_eq_nil_iff]
  refine ⟨?_, b2⟩
  rw [unbound_agree _ _ (extB (decImm e n).L B')
    (fun x hx => mem_extB _ _ x (imm_not_rebound' hf4 hfr hbr x hx))]
  exact a2

theorem sc_ops {e : Expr} {ops : List Expr} {mk : List Expr → Expr}
    (hL : SCL ops)
    (hdec : ∀ n, (dec e n).L = (decList ops n).L ∧ (dec e n).c = mk (decList ops n).cs ∧ (dec e n).n = (decList ops n).n)
    (hhyp : ∀ D n N, Hyp D e n N → HypL D ops n N)
    (hsrc : ∀ B, unbound B e = [] → unboundList B ops = [])
    (htgt : ∀ B1 cs, unboundList B1 cs = [] → unbound B1 (mk cs) = []) : SC e := by
  intro n N D B B' hy ha he
  obtain ⟨hd1, hd2, _⟩ := hdec n
  rw [hd1, hd2]
  obtain ⟨h1, h2⟩ := hL n N D B B' (hhyp D n N hy) ha (hsrc B he)
  exact ⟨h1, htgt _ _ h2⟩

theorem sc_op1 {e0 e : Expr} {mk1 : Expr → Expr} (he : SC e)
    (hdec : ∀ n, dec e0 n = ⟨(decImm e n).L, mk1 (decImm e n).c, (decImm e n).n⟩)
    (hfrag : frag e0 = frag e) (hnames : names e0 = names e)
    (hsrc : ∀ B, unbound B e0 = unbound B e)
    (htgt : ∀ B1 i, unbound B1 (mk1 i) = unbound B1 i) : SC e0 := by
  intro n N D B B' hy ha hev
  obtain ⟨hf, hd, hfr, hb⟩ := hy
  rw [hdec] at hb ⊢
  simp only at hb ⊢
  rw [hfrag] at hf; rw [hnames] at hd hfr
  rw [hsrc] at hev
  obtain ⟨h1, h2⟩ := sc_imm he n N D B B' hf hd hfr hb ha hev
  exact ⟨h1, by rw [htgt]; exact h2⟩

/-! ### nodes -/

theorem sc_var (x : String) (ty : Ty) : SC (.var x ty) := by
  intro n N D B B' hy ha he
  show unbB B' [] = [] ∧ unbound (extB [] B') (.var x ty) = []
  exact ⟨rfl, unbound_of_agree ha hy.dis he⟩

theorem sc_prim (p : Prim) : SC (.prim p) := by
  intro n N D B B' _ _ _
  exact ⟨rfl, rfl⟩

theorem sc_un {op : UnOp} {ty : Ty} {e : Expr} (he : SC e) : SC (.un op ty e) :=
  sc_op1 (mk1 := fun i => .un op ty i) he (fun n => rfl) (by simp [frag]) (by simp [names]) (fun _ => rfl) (fun _ _ => rfl)
theorem sc_cget {c : Ctor} {idx : Nat} {ty : Ty} {e : Expr} (he : SC e) : SC (.cget c idx ty e) :=
  sc_op1 (mk1 := fun i => .cget c idx ty i) he (fun n => rfl) (by simp [frag]) (by simp [names]) (fun _ => rfl) (fun _ _ => rfl)
theorem sc_proj {idx : Nat} {ty : Ty} {e : Expr} (he : SC e) : SC (.proj idx ty e) :=
  sc_op1 (mk1 := fun i => .proj idx ty i) he (fun n => rfl) (by simp [frag]) (by simp [names]) (fun _ => rfl) (fun _ _ => rfl)
theorem sc_toDyn {tr : String} {forTy ty : Ty} {e : Expr} (he : SC e) : SC (.toDyn tr forTy ty e) :=
  sc_op1 (mk1 := fun i => .toDyn tr forTy ty i) he (fun n => rfl) (by simp [frag]) (by simp [names]) (fun _ => rfl) (fun _ _ => rfl)
theorem sc_go {e : Expr} (he : SC e) : SC (.go e) :=
  sc_op1 (mk1 := fun i => .go i) he (fun n => rfl) (by simp [frag]) (by simp [names]) (fun _ => rfl) (fun _ _ => rfl)

theorem sc_tuple {ty : Ty} {items : List Expr} (hL : SCL items) : SC (.tuple ty items) :=
  sc_ops (mk := fun cs => .tuple ty cs) hL (fun n => ⟨rfl, rfl, rfl⟩)
    (fun D n N hy => ⟨by simpa [frag] using hy.frag, by simpa [names] using hy.dis,
      by simpa [names] using hy.fresh, hy.bound⟩)
    (fun B h => h) (fun B1 cs h => h)

theorem sc_array {ty : Ty} {items : List Expr} (hL : SCL items) : SC (.array ty items) :=
  sc_ops (mk := fun cs => .array ty cs) hL (fun n => ⟨rfl, rfl, rfl⟩)
    (fun D n N hy => ⟨by simpa [frag] using hy.frag, by simpa [names] using hy.dis,
      by simpa [names] using hy.fresh, hy.bound⟩)
    (fun B h => h) (fun B1 cs h => h)

theorem sc_constr {c : Ctor} {ty : Ty} {args : List Expr}
    (h : ∀ tn vn idx, c = .enum tn vn idx → args ≠ []) (hL : SCL args) : SC (.constr c ty args) :=
  sc_ops (mk := fun cs => .constr c ty cs) hL
    (fun n => by rw [dec_constr_general h]; exact ⟨rfl, rfl, rfl⟩)
    (fun D n N hy => ⟨by have := hy.frag; simp only [frag, Bool.and_eq_true] at this; exact this.2,
      by simpa [names] using hy.dis, by simpa [names] using hy.fresh,
      by have := hy.bound; rw [dec_constr_general h] at this; exact this⟩)
    (fun B h => h) (fun B1 cs h => h)

theorem sc_constr_nullary {tn vn : String} {idx : Nat} {ty : Ty} : SC (.constr (.enum tn vn idx) ty []) := by
  intro n N D B B' _ _ _
  show unbB B' [] = [] ∧ unbound (extB [] B') (.tag idx ty) = []
  exact ⟨rfl, rfl⟩

theorem sc_call {ty : Ty} {f : Expr} {args : List Expr} (hL : SCL (f :: args)) : SC (.call ty f args) :=
  sc_ops (mk := fun cs => match cs with | fi :: is => .call ty fi is | [] => .prim .unit) hL
    (fun n => ⟨rfl, rfl, rfl⟩)
    (fun D n N hy => ⟨by simpa [frag, fragList] using hy.frag, by simpa [names, namesList] using hy.dis,
      by simpa [names, namesList] using hy.fresh, hy.bound⟩)
    (fun B h => by simpa only [unbound, unboundList] using h)
    (fun B1 cs h => by
      match cs, h with
      | [], _ => rfl
      | fi :: is, h => simpa only [unbound, unboundList] using h)

theorem sc_dynCall {tr m : String} {ty : Ty} {recv : Expr} {args : List Expr} (hL : SCL (recv :: args)) :
    SC (.dynCall tr m ty recv args) :=
  sc_ops (mk := fun cs => match cs with | ri :: is => .dynCall tr m ty ri is | [] => .prim .unit) hL
    (fun n => ⟨rfl, rfl, rfl⟩)
    (fun D n N hy => ⟨by simpa [frag, fragList] using hy.frag, by simpa [names, namesList] using hy.dis,
      by simpa [names, namesList] using hy.fresh, hy.bound⟩)
    (fun B h => by simpa only [unbound, unboundList] using h)
    (fun B1 cs h => by
      match cs, h with
      | [], _ => rfl
      | ri :: is, h => simpa only [unbound, unboundList] using h)

theorem sc_bin_plain {op : BinOp} {ty : Ty} {l r : Expr}
    (hc : ((op == .and || op == .or) && !trivialRhs r) = false) (hL : SCL [l, r]) : SC (.bin op ty l r) := by
  refine sc_ops (mk := fun cs => match cs with | [li, ri] => .bin op ty li ri | _ => .prim .unit) hL ?_ ?_ ?_ ?_
  · intro n
    simp [dec, hc, decList, decImm]
  · intro D n N hy
    refine ⟨?_, ?_, ?_, ?_⟩
    · have := hy.frag
      simp only [frag, Bool.and_eq_true] at this
      simp only [fragList, Bool.and_eq_true, bndList, namesList, List.append_nil, disj_nil_left, disj_nil_right,
        and_true]
      exact ⟨⟨⟨this.1.1.1, this.1.1.2⟩, this.1.2⟩, this.2⟩
    · simpa [names, namesList] using hy.dis
    · simpa [names, namesList] using hy.fresh
    · have := hy.bound
      simp only [dec, hc, Bool.false_eq_true, if_false] at this
      simpa [decList, decImm] using this
  · intro B h
    simpa only [unbound, unboundList, List.append_nil] using h
  · intro B1 cs h
    match cs, h with
    | [li, ri], h => simpa only [unbound, unboundList, List.append_nil] using h
    | [], _ => rfl
    | [_], _ => rfl
    | _ :: _ :: _ :: _, _ => rfl

theorem sc_letE {x : String} {v b : Expr} (hv : SC v) (hb : SC b) : SC (.letE x v b) := by
  intro n N D B B' hy ha hev
  have hf := hy.frag
  simp only [frag, Bool.and_eq_true] at hf
  obtain ⟨⟨hfv, hfb⟩, hdj⟩ := hf
  have hm1 := dec_mono v n
  have hm2 := dec_mono b (dec v n).n
  have hbd := hy.bound
  simp only [dec] at hbd
  have hyv : Hyp D v n N := hyp_child0 hy hfv (fun x hx => by simp [names, hx]) (Nat.le_refl _) (by omega)
  have hyb : Hyp (D ++ keys (dec v n).L) b (dec v n).n N :=
    hyp_child hy hfb (fun x hx => by simp [names, hx]) (dec_keys v n) hdj (Nat.le_refl _) (by omega) hm1 hbd
  simp only [unbound, List.append_eq_nil_iff] at hev
  obtain ⟨a1, a2⟩ := hv n N D B B' hyv ha hev.1
  obtain ⟨b1, b2⟩ := hb _ N _ _ _ hyb ((ha.ext (dec v n).L).cons x) hev.2
  show unbB B' ((dec v n).L ++ (x, (dec v n).c) :: (dec b (dec v n).n).L) = [] ∧
    unbound (extB ((dec v n).L ++ (x, (dec v n).c) :: (dec b (dec v n).n).L) B') (dec b (dec v n).n).c = []
  refine ⟨?_, ?_⟩
  · rw [unbB_append]; simp only [unbB, a1, a2, b1, List.append_nil]
  · rw [extB_append]; simp only [extB]; exact b2

theorem sc_ite {c t e : Expr} (hc : SC c) (ht : SC t) (he : SC e) : SC (.ite c t e) := by
  intro n N D B B' hy ha hev
  have hf := hy.frag
  simp only [frag, Bool.and_eq_true] at hf
  obtain ⟨⟨⟨hfc, hft⟩, hfe⟩, hdj⟩ := hf
  obtain ⟨hdjt, hdje⟩ := disj_append_right hdj
  have hm1 := decImm_mono c n
  have hm2 := dec_mono t (decImm c n).n
  have hm3 := dec_mono e (dec t (decImm c n).n).n
  have hbd := hy.bound
  simp only [dec, anf_ret] at hbd
  have hbd' : (dec e (dec t (decImm c n).n).n).n ≤ N := hbd
  have hyt : Hyp (D ++ keys (decImm c n).L) t (decImm c n).n N :=
    hyp_child hy hft (fun x hx => by simp [names, hx]) (decImm_keys c n) hdjt (Nat.le_refl _) (by omega) hm1 (by omega)
  have hye : Hyp (D ++ keys (decImm c n).L) e (dec t (decImm c n).n).n N :=
    hyp_child hy hfe (fun x hx => by simp [names, hx]) (decImm_keys c n) hdje (Nat.le_refl _) (by omega) (by omega) hbd'
  simp only [unbound, List.append_eq_nil_iff] at hev
  obtain ⟨⟨ec, et⟩, ee⟩ := hev
  obtain ⟨a1, a2⟩ := sc_imm hc n N D B B' hfc (fun x hx => hy.dis x (by simp [names, hx]))
    (fun m a b hm => hy.fresh m a b (by simp [names, hm])) (by omega) ha ec
  have ha1 := ha.ext (decImm c n).L
  have t1 := sc_top ht _ N _ B _ hyt ha1 et
  have e1 := sc_top he _ N _ B _ hye ha1 ee
  have hcnt : (anf t (decImm c n).n ret).2 = (dec t (decImm c n).n).n := by rw [anf_ret]
  show unbB B' (decImm c n).L = [] ∧
    unbound (extB (decImm c n).L B') (.ite (decImm c n).c (anf t (decImm c n).n ret).1
      (anf e (anf t (decImm c n).n ret).2 ret).1) = []
  rw [hcnt]
  refine ⟨a1, ?_⟩
  simp only [unbound, List.append_eq_nil_iff]
  exact ⟨⟨a2, t1⟩, e1⟩

theorem sc_while {c b : Expr} (hc : SC c) (hb : SC b) : SC (.while c b) := by
  intro n N D B B' hy ha hev
  have hf := hy.frag
  simp only [frag, Bool.and_eq_true] at hf
  have hm1 := dec_mono c n
  have hm2 := dec_mono b (dec c n).n
  have hbd := hy.bound
  simp only [dec, anf_ret] at hbd
  have hyc : Hyp D c n N := hyp_child0 hy hf.1 (fun x hx => by simp [names, hx]) (Nat.le_refl _) (by omega)
  have hyb : Hyp D b (dec c n).n N := hyp_child0 hy hf.2 (fun x hx => by simp [names, hx]) hm1 hbd
  simp only [unbound, List.append_eq_nil_iff] at hev
  have c1 := sc_top hc n N D B B' hyc ha hev.1
  have b1 := sc_top hb _ N D B B' hyb ha hev.2
  have hcnt : (anf c n ret).2 = (dec c n).n := by rw [anf_ret]
  show unbB B' [] = [] ∧
    unbound (extB [] B') (.while (anf c n ret).1 (anf b (anf c n ret).2 ret).1) = []
  rw [hcnt]
  refine ⟨rfl, ?_⟩
  simp only [extB, unbound, List.append_eq_nil_iff]
  exact ⟨c1, b1⟩

theorem sc_bin_lowered {op : BinOp} {ty : Ty} {l r : Expr}
    (hc : ((op == .and || op == .or) && !trivialRhs r) = true) (hl : SC l) (hr : SC r) :
    SC (.bin op ty l r) := by
  intro n N D B B' hy ha hev
  have hf := hy.frag
  simp only [frag, Bool.and_eq_true] at hf
  obtain ⟨⟨⟨hfl, hfr⟩, hdj⟩, _⟩ := hf
  have hm1 := decImm_mono l n
  have hm2 := dec_mono r (decImm l n).n
  have hbd := hy.bound
  obtain ⟨hop, hat⟩ := lowered_iff.1 hc
  have hcnt : (anf r (decImm l n).n ret).2 = (dec r (decImm l n).n).n := by rw [anf_ret]
  have hbd' : (dec r (decImm l n).n).n ≤ N := by
    rcases hop with rfl | rfl
    · rw [dec_and_lowered hat] at hbd; rw [← hcnt]; exact hbd
    · rw [dec_or_lowered hat] at hbd; rw [← hcnt]; exact hbd
  have hyr : Hyp (D ++ keys (decImm l n).L) r (decImm l n).n N :=
    hyp_child hy hfr (fun x hx => by simp [names, hx]) (decImm_keys l n) hdj (Nat.le_refl _) (by omega) hm1 hbd'
  have hdl : ∀ x ∈ names l, x ∉ D := fun x hx => hy.dis x (by simp [names, hx])
  have hfrl : ∀ m, n ≤ m → m < N → tmpName m ∉ names l := fun m a b hm => hy.fresh m a b (by simp [names, hm])
  simp only [unbound, List.append_eq_nil_iff] at hev
  obtain ⟨el, er⟩ := hev
  obtain ⟨a1, a2⟩ := sc_imm hl n N D B B' hfl hdl hfrl (by omega) ha el
  have r1 := sc_top hr _ N _ B _ hyr (ha.ext (decImm l n).L) er
  rcases hop with rfl | rfl
  · rw [dec_and_lowered hat]
    refine ⟨a1, ?_⟩
    simp only [unbound, List.append_eq_nil_iff, List.append_nil]
    exact ⟨a2, r1⟩
  · rw [dec_or_lowered hat]
    refine ⟨a1, ?_⟩
    simp only [unbound, List.append_eq_nil_iff, List.append_nil]
    exact ⟨a2, r1⟩

def SCA (arms : List Arm) : Prop :=
  ∀ (n N : Nat) (D B B' : List String),
    fragArms arms = true → (∀ x ∈ namesArms arms, x ∉ D) →
    (∀ m, n ≤ m → m < N → tmpName m ∉ namesArms arms) → (anfArms arms n).2 ≤ N →
    AgreeS D B B' → unboundArms B arms = [] → unboundArms B' (anfArms arms n).1 = []

theorem scA_nil : SCA [] := by
  intro n N D B B' _ _ _ _ _ _
  rfl

theorem scA_cons {lhs body : Expr} {rest : List Arm} (hb : SC body) (hr : SCA rest) :
    SCA (.mk lhs body :: rest) := by
  intro n N D B B' hf hd hfr hbd ha hev
  simp only [fragArms, Bool.and_eq_true] at hf
  have hm1 := dec_mono body n
  have hm2 := anfArms_mono rest (dec body n).n
  simp only [anfArms, anf_ret] at hbd
  have hyb : Hyp D body n N :=
    ⟨hf.1.2, fun x hx => hd x (by simp [namesArms, hx]),
      fun m a b hm => hfr m a b (by simp [namesArms, hm]), by omega⟩
  simp only [unboundArms, List.append_eq_nil_iff] at hev
  have b1 := sc_top hb n N D B B' hyb ha hev.1
  have r := hr (dec body n).n N D B B' hf.2 (fun x hx => hd x (by simp [namesArms, hx]))
    (fun m a b hm => hfr m (by omega) b (by simp [namesArms, hm])) hbd ha hev.2
  have hcnt : (anf body n ret).2 = (dec body n).n := by rw [anf_ret]
  show unboundArms B' (.mk (armHead lhs) (anf body n ret).1 :: (anfArms rest (anf body n ret).2).1) = []
  rw [hcnt]
  simp only [unboundArms, List.append_eq_nil_iff]
  exact ⟨b1, r⟩

theorem sc_matchE {ty : Ty} {s : Expr} {arms : List Arm} {d : Option Expr}
    (hs' : SC s) (hA : SCA arms) (hD : ∀ e, d = some e → SC e) : SC (.matchE ty s arms d) := by
  intro n N D B B' hy ha hev
  have hf := hy.frag
  simp only [frag, Bool.and_eq_true] at hf
  obtain ⟨⟨⟨hfs, hfa⟩, hfd⟩, hdj⟩ := hf
  have hm1 := decImm_mono s n
  have hm2 := anfArms_mono arms (decImm s n).n
  have hm3 := anfDflt_mono d (anfArms arms (decImm s n).n).2
  have hbd := hy.bound
  simp only [dec] at hbd
  have hbd' : (anfDflt d (anfArms arms (decImm s n).n).2).2 ≤ N := hbd
  have hdisAD : ∀ x ∈ namesArms arms ++ namesDflt d, x ∉ D ++ keys (decImm s n).L := by
    intro x hx
    simp only [List.mem_append, not_or]
    refine ⟨hy.dis x (by simp only [names, List.mem_append] at hx ⊢; exact Or.inr hx), fun hk => ?_⟩
    exact keyOk_not_mem (decImm_keys s n x hk) hdj
      (fun m a b hm => hy.fresh m a b (by simp only [names, List.mem_append] at hm ⊢; exact Or.inr hm))
      (Nat.le_refl n) (by omega) hx
  have hfrAD : ∀ m, (decImm s n).n ≤ m → m < N → tmpName m ∉ namesArms arms ++ namesDflt d := by
    intro m a b hm
    exact hy.fresh m (by omega) b (by simp only [names, List.mem_append] at hm ⊢; exact Or.inr hm)
  have hds : ∀ x ∈ names s, x ∉ D := fun x hx => hy.dis x (by simp [names, hx])
  have hfrs : ∀ m, n ≤ m → m < N → tmpName m ∉ names s := fun m a b hm => hy.fresh m a b (by simp [names, hm])
  have ha1 := ha.ext (decImm s n).L
  have hAr : unboundArms B arms = [] →
      unboundArms (extB (decImm s n).L B') (anfArms arms (decImm s n).n).1 = [] := fun h =>
    hA (decImm s n).n N _ B _ hfa (fun x hx => hdisAD x (by simp [hx]))
      (fun m a b hm => hfrAD m a b (by simp [hm])) (by omega) ha1 h
  cases d with
  | none =>
    simp only [unbound, List.append_eq_nil_iff] at hev
    obtain ⟨es, ea⟩ := hev
    obtain ⟨a1, a2⟩ := sc_imm hs' n N D B B' hfs hds hfrs (by omega) ha es
    show unbB B' (decImm s n).L = [] ∧
      unbound (extB (decImm s n).L B') (.matchE ty (decImm s n).c (anfArms arms (decImm s n).n).1 none) = []
    refine ⟨a1, ?_⟩
    simp only [unbound, List.append_eq_nil_iff]
    exact ⟨a2, hAr ea⟩
  | some d0 =>
    simp only [unbound, List.append_eq_nil_iff] at hev
    obtain ⟨⟨es, ea⟩, ed⟩ := hev
    obtain ⟨a1, a2⟩ := sc_imm hs' n N D B B' hfs hds hfrs (by omega) ha es
    have hyd : Hyp (D ++ keys (decImm s n).L) d0 (anfArms arms (decImm s n).n).2 N :=
      ⟨hfd, fun x hx => hdisAD x (by simp [namesDflt, hx]),
        fun m a b hm => hfrAD m (by omega) b (by simp [namesDflt, hm]),
        by simpa [anfDflt, anf_ret] using hbd'⟩
    have d1 := sc_top (hD d0 rfl) _ N _ B _ hyd ha1 ed
    show unbB B' (decImm s n).L = [] ∧
      unbound (extB (decImm s n).L B') (.matchE ty (decImm s n).c (anfArms arms (decImm s n).n).1
        (some (anf d0 (anfArms arms (decImm s n).n).2 ret).1)) = []
    refine ⟨a1, ?_⟩
    simp only [unbound, List.append_eq_nil_iff]
    exact ⟨⟨a2, hAr ea⟩, d1⟩

mutual
theorem sc_all : ∀ (e : Expr), SC e
  | .var x ty => sc_var x ty
  | .prim p => sc_prim p
  | .tag idx ty => fun _ _ _ _ _ hy => by have := hy.frag; simp [frag] at this
  | .closure ty ps b => fun _ _ _ _ _ hy => by have := hy.frag; simp [frag] at this
  | .traitCall tr m ty recv args => fun _ _ _ _ _ hy => by have := hy.frag; simp [frag] at this
  | .constr (.enum tn vn idx) ty [] => sc_constr_nullary
  | .constr (.struct sn) ty [] => sc_constr (fun _ _ _ h => by cases h) (scL_all [])
  | .constr c ty (a :: as) => sc_constr (fun _ _ _ _ => by simp) (scL_all (a :: as))
  | .tuple ty items => sc_tuple (scL_all items)
  | .array ty items => sc_array (scL_all items)
  | .letE x v b => sc_letE (sc_all v) (sc_all b)
  | .ite c t e => sc_ite (sc_all c) (sc_all t) (sc_all e)
  | .while c b => sc_while (sc_all c) (sc_all b)
  | .go e => sc_go (sc_all e)
  | .matchE ty s arms d => sc_matchE (sc_all s) (scA_all arms) (scD_all d)
  | .cget c idx ty e => sc_cget (sc_all e)
  | .un op ty e => sc_un (sc_all e)
  | .bin op ty l r => by
    cases hc : ((op == .and || op == .or) && !trivialRhs r)
    · exact sc_bin_plain hc (scL_cons (sc_imm (sc_all l)) (scL_cons (sc_imm (sc_all r)) scL_nil))
    · exact sc_bin_lowered hc (sc_all l) (sc_all r)
  | .call ty f args => sc_call (scL_cons (sc_imm (sc_all f)) (scL_all args))
  | .toDyn tr forTy ty e => sc_toDyn (sc_all e)
  | .dynCall tr m ty recv args => sc_dynCall (scL_cons (sc_imm (sc_all recv)) (scL_all args))
  | .proj idx ty e => sc_proj (sc_all e)
theorem scL_all : ∀ (es : List Expr), SCL es
  | [] => scL_nil
  | e :: rest => scL_cons (sc_imm (sc_all e)) (scL_all rest)
theorem scA_all : ∀ (arms : List Arm), SCA arms
  | [] => scA_nil
  | .mk _ body :: rest => scA_cons (sc_all body) (scA_all rest)
theorem scD_all : ∀ (d : Option Expr) (e : Expr), d = some e → SC e
  | none, _, h => by cases h
  | some e, _, h => (Option.some.inj h) ▸ sc_all e
end

end Goml.Anf
