import GomlVerif.Lemmas.C03presAnf
/-!
The judgement `Wt.errs` reads the function table of the signature only through the *headers*
(name, generics, parameters, result type) of its functions; `anf_file` rewrites bodies only, so
the Lift-stage signature and the ANF-stage signature judge every expression alike.
-/
namespace Goml.Anf
open Goml Goml.Wt Goml.Mono

/-- what `findCallee` and `fnTy` read of a function -/
def hdr (f : Fn) : String × List String × List (String × Ty) × Ty := (f.name, f.generics, f.params, f.ret)

theorem fnTy_of_hdr {f g : Fn} (h : hdr f = hdr g) : fnTy f = fnTy g := by
  simp only [hdr, Prod.mk.injEq] at h
  simp only [fnTy, h.2.2.1, h.2.2.2]

theorem anfFns_hdr : ∀ (fns : List Fn) (n : Nat), (anfFns fns n).1.map hdr = fns.map hdr
  | [], _ => rfl
  | f :: rest, n => by
    simp only [anfFns, List.map_cons, anfFns_hdr rest]
    rfl

theorem findFn_hdr {F F' : List Fn} (h : F'.map hdr = F.map hdr) (x : String) :
    (findFn F' x).map hdr = (findFn F x).map hdr := by
  have key : ∀ G : List Fn, (findFn G x).map hdr = (G.map hdr).find? (fun p => p.1 == x) := by
    intro G
    simp only [findFn, List.find?_map]
    rfl
  rw [key, key, h]

theorem inherentIndex_hdr {F F' : List Fn} (h : F'.map hdr = F.map hdr) (b m : String) :
    (inherentIndex F' b m).map hdr = (inherentIndex F b m).map hdr := by
  have key : ∀ G : List Fn, (inherentIndex G b m).map hdr =
      ((G.map hdr).filter fun p => !p.2.1.isEmpty && p.1.startsWith "inherent#" &&
        (match parseInherent p.1 with
         | some (b', m') => b' == b && m' == m
         | none => false)).getLast? := by
    intro G
    simp only [inherentIndex, List.filter_map, List.getLast?_map]
    rfl
  rw [key, key, h]

theorem findCallee_hdr {F F' : List Fn} (h : F'.map hdr = F.map hdr) (x : String) :
    (findCallee F' x).map hdr = (findCallee F x).map hdr := by
  have h1 := findFn_hdr h x
  simp only [findCallee, Gen.calleeLookupOrder, List.findSome?, lookupBy]
  cases hf : findFn F x with
  | some f =>
    rw [hf] at h1
    cases hf' : findFn F' x with
    | none => rw [hf'] at h1; cases h1
    | some f' => rw [hf'] at h1; simpa using h1
  | none =>
    rw [hf] at h1
    cases hf' : findFn F' x with
    | some f' => rw [hf'] at h1; cases h1
    | none =>
      simp only
      cases hp : parseInherent x with
      | none => rfl
      | some bm =>
        obtain ⟨b, m⟩ := bm
        have h2 := inherentIndex_hdr h b m
        cases hi : inherentIndex F b m <;> cases hi' : inherentIndex F' b m <;>
          simp only [hi, hi'] at h2 ⊢ <;> first | rfl | exact h2 | (cases h2)

/-- the judgement of a variable node depends on the function table through headers only -/
theorem errs_var_hdr (S : Sig) (F' : List Fn) (h : F'.map hdr = S.fns.map hdr) (Γ : TyEnv) (x : String) (ty : Ty) :
    errs { S with fns := F' } Γ (.var x ty) = errs S Γ (.var x ty) := by
  have hc := findCallee_hdr h x
  simp only [errs]
  cases hl : lookupVar Γ x with
  | some t => rfl
  | none =>
    simp only
    cases hf : findCallee S.fns x with
    | some f =>
      rw [hf] at hc
      cases hf' : findCallee F' x with
      | none => rw [hf'] at hc; cases hc
      | some f' =>
        rw [hf'] at hc
        have : hdr f' = hdr f := by simpa using hc
        simp only [fnTy_of_hdr this]
    | none =>
      rw [hf] at hc
      cases hf' : findCallee F' x with
      | some f' => rw [hf'] at hc; cases hc
      | none => rfl

variable (S : Sig) (F' : List Fn) (h : F'.map hdr = S.fns.map hdr)

include h in
mutual
theorem errs_hdr : ∀ (e : Expr) (Γ : TyEnv), errs { S with fns := F' } Γ e = errs S Γ e
  | .var x ty, Γ => errs_var_hdr S F' h Γ x ty
  | .prim _, _ => rfl
  | .tag _ _, _ => rfl
  | .constr c ty args, Γ => by simp only [errs, errsList_hdr args Γ]; rfl
  | .tuple ty items, Γ => by simp only [errs, errsList_hdr items Γ]
  | .array ty items, Γ => by simp only [errs, errsList_hdr items Γ]
  | .closure ty ps body, Γ => by simp only [errs, errs_hdr body]
  | .letE y v b, Γ => by simp only [errs, errs_hdr v, errs_hdr b]
  | .matchE ty s arms none, Γ => by simp only [errs, errs_hdr s, errsArms_hdr arms]
  | .matchE ty s arms (some d), Γ => by simp only [errs, errs_hdr s, errsArms_hdr arms, errs_hdr d]
  | .ite c t e, Γ => by simp only [errs, errs_hdr c, errs_hdr t, errs_hdr e]
  | .while c b, Γ => by simp only [errs, errs_hdr c, errs_hdr b]
  | .go e, Γ => by simp only [errs, errs_hdr e]
  | .cget c idx ty e, Γ => by simp only [errs, errs_hdr e]; rfl
  | .un op ty e, Γ => by simp only [errs, errs_hdr e]
  | .bin op ty l r, Γ => by simp only [errs, errs_hdr l, errs_hdr r]
  | .call ty f args, Γ => by simp only [errs, errs_hdr f, errsList_hdr args]
  | .toDyn tr forTy ty e, Γ => by simp only [errs, errs_hdr e]
  | .dynCall tr m ty recv args, Γ => by simp only [errs, errs_hdr recv, errsList_hdr args]; rfl
  | .traitCall tr m ty recv args, Γ => by simp only [errs, errs_hdr recv, errsList_hdr args]; rfl
  | .proj idx ty e, Γ => by simp only [errs, errs_hdr e]
theorem errsList_hdr : ∀ (es : List Expr) (Γ : TyEnv), errsList { S with fns := F' } Γ es = errsList S Γ es
  | [], _ => rfl
  | e :: rest, Γ => by simp only [errsList, errs_hdr e, errsList_hdr rest]
theorem errsArms_hdr : ∀ (arms : List Arm) (Γ : TyEnv) (st rt : Ty),
    errsArms { S with fns := F' } Γ st rt arms = errsArms S Γ st rt arms
  | [], _, _, _ => rfl
  | .mk lhs body :: rest, Γ, st, rt => by
    simp only [errsArms, errs_hdr body, errsArms_hdr rest]
    rfl
end

end Goml.Anf
