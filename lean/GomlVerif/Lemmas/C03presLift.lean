import GomlVerif.Model.C03presLift
import GomlVerif.Model.Scoped
import GomlVerif.Model.Wt
import GomlVerif.Lemmas.LiftCaptures
import GomlVerif.Lemmas.LiftNoClosure
import GomlVerif.Lemmas.LiftExamples
/-!
C03 (preservation) for the lambda-lifting model `Lift.*`:

* `lift_preserves_closed` (+ `lift_preserves_closed_fv`, `lift_preserves_scoped`): every function the
  pass emits is scope-closed; `closure_site_vars_in_scope`, `apply_fn_fv`, `fvB_rebind_iff`: the
  closure site and the generated apply function;
* `lift_preserves_allTys` (+ `lift_preserves_closedTy`): every annotation the pass writes satisfies
  the annotation predicate of the input;
* `lift_preserves_wt_partial` (+ `liftFn_preserves_wt_partial`): the closure-free part is returned
  unchanged, hence `Wt.errs` is; closures are excluded (known finding
  `closure-struct-vs-function-type`).
-/
namespace Goml.Lift
open Goml Goml.Scoped

/-! ## scope membership -/

theorem layerGet_isSome (l : Layer) (y : String) : (layerGet l y).isSome = l.any (·.1 == y) := by
  unfold layerGet
  induction l with
  | nil => rfl
  | cons p ps ih =>
    simp only [List.find?_cons, List.any_cons]
    cases h : (p.1 == y) with
    | true => rfl
    | false => simpa using ih

theorem any_map_replace (l : Layer) (k y : String) (e : ScopeEntry) :
    (l.map (fun p => if (p.1 == k) = true then (k, e) else p)).any (·.1 == y) = l.any (·.1 == y) := by
  induction l with
  | nil => rfl
  | cons p ps ih =>
    simp only [List.map_cons, List.any_cons, ih]
    congr 1
    by_cases hp : (p.1 == k) = true
    · rw [if_pos hp]
      have : p.1 = k := by simpa using hp
      rw [this]
    · rw [if_neg hp]

theorem any_layerInsert (l : Layer) (k : String) (e : ScopeEntry) (y : String) :
    (layerInsert l k e).any (·.1 == y) = (y == k || l.any (·.1 == y)) := by
  unfold layerInsert
  by_cases hk : l.any (·.1 == k) = true
  · rw [if_pos hk, any_map_replace]
    by_cases hy : y = k
    · subst hy; rw [hk]; simp
    · have : (y == k) = false := by simpa using hy
      rw [this]; rfl
  · rw [if_neg hk]
    rw [List.any_append]
    simp only [List.any_cons, List.any_nil, Bool.or_false]
    rw [Bool.or_comm]
    congr 1
    rw [Bool.beq_comm]

theorem has_mk_cons (l : Layer) (rest : List Layer) (y : String) :
    (Scope.mk (l :: rest)).has y = (l.any (·.1 == y) || (Scope.mk rest).has y) := by
  unfold Scope.has Scope.get
  simp only [List.findSome?_cons]
  rw [← layerGet_isSome]
  cases h : layerGet l y with
  | none => simp
  | some v => simp

theorem has_insert (s : Scope) (k : String) (e : ScopeEntry) (y : String) (hne : s.layers ≠ []) :
    (s.insert k e).has y = (y == k || s.has y) := by
  cases s with
  | mk layers =>
    cases layers with
    | nil => exact absurd rfl hne
    | cons l rest =>
      show (Scope.mk (layerInsert l k e :: rest)).has y = _
      rw [has_mk_cons, has_mk_cons, any_layerInsert, Bool.or_assoc]

theorem insert_layers_ne (s : Scope) (k : String) (e : ScopeEntry) (hne : s.layers ≠ []) :
    (s.insert k e).layers ≠ [] := by
  cases s with
  | mk layers =>
    cases layers with
    | nil => exact absurd rfl hne
    | cons l rest => intro h; cases h

theorem pushLayer_layers_ne (s : Scope) : s.pushLayer.layers ≠ [] := by
  intro h; cases h

theorem has_pushLayer (s : Scope) (y : String) : s.pushLayer.has y = s.has y := by
  cases s with
  | mk layers =>
    show (Scope.mk ([] :: layers)).has y = _
    rw [has_mk_cons]; rfl

theorem has_let (s : Scope) (x : String) (e : ScopeEntry) (y : String) :
    (s.pushLayer.insert x e).has y = (y == x || s.has y) := by
  rw [has_insert _ _ _ _ (pushLayer_layers_ne s), has_pushLayer]

theorem has_foldl_insert (F : String × Ty → ScopeEntry) : ∀ (ps : List (String × Ty)) (s : Scope) (y : String),
    s.layers ≠ [] →
    ((ps.foldl (fun s p => s.insert p.1 (F p)) s).has y = ((ps.map (·.1)).contains y || s.has y)) ∧
    (ps.foldl (fun s p => s.insert p.1 (F p)) s).layers ≠ []
  | [], s, y, h => by simp [h]
  | p :: ps, s, y, h => by
    have ih := has_foldl_insert F ps (s.insert p.1 (F p)) y (insert_layers_ne _ _ _ h)
    simp only [List.foldl_cons, List.map_cons, List.contains_cons]
    refine ⟨?_, ih.2⟩
    rw [ih.1, has_insert _ _ _ _ h]
    cases (List.map (fun x => x.fst) ps).contains y <;> cases (y == p.1) <;> simp

theorem has_new (y : String) : Scope.new.has y = false := by
  unfold Scope.new
  rw [has_mk_cons]; rfl

theorem lowered_names : ∀ (ps : List (String × Ty)) (ts : List Ty), ps.length ≤ ts.length →
    (loweredParams ps ts).map (·.1) = ps.map (·.1)
  | [], _, _ => by cases ‹List Ty› <;> rfl
  | (x, t) :: ps, [], h => by simp at h
  | (x, t) :: ps, t' :: ts, h => by
    simp only [loweredParams, List.map_cons]
    rw [lowered_names ps ts (by simpa using h)]

theorem has_closureScope (st : State) (sc : Scope) (params : List (String × Ty)) (ty : Ty) (y : String) :
    (closureScope st sc params ty).has y =
      (((loweredParams params (funcParts ty).1).map (·.1)).contains y || sc.has y) := by
  unfold closureScope
  rw [(has_foldl_insert (fun p => { ty := p.2, closureStruct := st.closureStructForTy p.2 }) _ _ y
    (pushLayer_layers_ne sc)).1, has_pushLayer]

/-! ## name lists that are bound or global -/

/-- every name is in scope or global -/
def OkN (G : String → Prop) (sc : Scope) (l : List String) : Prop := ∀ x ∈ l, sc.has x = true ∨ G x

theorem OkN_nil {G sc} : OkN G sc [] := by intro x h; cases h

theorem OkN_append {G sc} {l₁ l₂ : List String} : OkN G sc (l₁ ++ l₂) ↔ OkN G sc l₁ ∧ OkN G sc l₂ := by
  unfold OkN
  constructor
  · intro h; exact ⟨fun x hx => h x (List.mem_append_left _ hx), fun x hx => h x (List.mem_append_right _ hx)⟩
  · rintro ⟨h1, h2⟩ x hx
    rcases List.mem_append.mp hx with hx | hx
    · exact h1 x hx
    · exact h2 x hx

/-- entering a binder list `ns`: `sc'` extends `sc` by exactly `ns` -/
theorem OkN_enter {G} {sc sc' : Scope} {ns : List String} {l : List String}
    (hs : ∀ y, sc'.has y = (ns.contains y || sc.has y))
    (h : OkN G sc (l.filter (fun y => !ns.contains y))) : OkN G sc' l := by
  intro x hx
  by_cases hn : ns.contains x = true
  · left; rw [hs, hn]; rfl
  · have hn' : ns.contains x = false := by simpa using hn
    rcases h x (List.mem_filter.mpr ⟨hx, by rw [hn']; rfl⟩) with h | h
    · left; rw [hs, h]; simp
    · exact Or.inr h

/-- leaving a binder list -/
theorem OkN_leave {G} {sc sc' : Scope} {ns : List String} {l : List String}
    (hs : ∀ y, sc'.has y = (ns.contains y || sc.has y))
    (h : OkN G sc' l) : OkN G sc (l.filter (fun y => !ns.contains y)) := by
  intro x hx
  rcases List.mem_filter.mp hx with ⟨hx, hn⟩
  have hn' : ns.contains x = false := by simpa using hn
  rcases h x hx with h | h
  · left; rw [hs, hn'] at h; simpa using h
  · exact Or.inr h

theorem filter_ne_eq (x : String) (l : List String) :
    l.filter (fun y => !(y == x)) = l.filter (fun y => ![x].contains y) := by
  apply List.filter_congr
  intro y _
  by_cases h : y = x <;> simp [h]

theorem has_let' (s : Scope) (x : String) (e : ScopeEntry) :
    ∀ y, (s.pushLayer.insert x e).has y = ([x].contains y || s.has y) := by
  intro y; rw [has_let]; by_cases h : y = x <;> simp [h]

/-! ## free variables, match-arm heads not counted -/

mutual
/-- free variables as `fv`, except that the head of a match arm (a pattern whose variables are
    placeholders re-bound in the arm body) contributes nothing -/
def fvB : Expr → List String
  | .var x _ => [x]
  | .prim _ => []
  | .tag _ _ => []
  | .constr _ _ args => fvBList args
  | .tuple _ items => fvBList items
  | .array _ items => fvBList items
  | .closure _ ps body => (fvB body).filter (fun y => !(ps.map (·.1)).contains y)
  | .letE x v b => fvB v ++ (fvB b).filter (fun y => !(y == x))
  | .matchE _ s arms d => fvB s ++ fvBArms arms ++ (match d with | some d => fvB d | none => [])
  | .ite c t e => fvB c ++ fvB t ++ fvB e
  | .while c b => fvB c ++ fvB b
  | .go e => fvB e
  | .cget _ _ _ e => fvB e
  | .un _ _ e => fvB e
  | .bin _ _ l r => fvB l ++ fvB r
  | .call _ f args => fvB f ++ fvBList args
  | .toDyn _ _ _ e => fvB e
  | .dynCall _ _ _ recv args => fvB recv ++ fvBList args
  | .traitCall _ _ _ recv args => fvB recv ++ fvBList args
  | .proj _ _ e => fvB e
def fvBList : List Expr → List String
  | [] => []
  | e :: es => fvB e ++ fvBList es
def fvBArms : List Arm → List String
  | [] => []
  | .mk _ body :: rest => fvB body ++ fvBArms rest
end

theorem sub_app {a a' b b' : List String} (h1 : a ⊆ a') (h2 : b ⊆ b') : a ++ b ⊆ a' ++ b' := by
  intro x hx
  rcases List.mem_append.mp hx with hx | hx
  · exact List.mem_append_left _ (h1 hx)
  · exact List.mem_append_right _ (h2 hx)

theorem sub_filter {a a' : List String} (p : String → Bool) (h : a ⊆ a') : a.filter p ⊆ a'.filter p := by
  intro x hx
  rcases List.mem_filter.mp hx with ⟨hx, hp⟩
  exact List.mem_filter.mpr ⟨h hx, hp⟩

mutual
theorem fvB_sub : ∀ (e : Expr), fvB e ⊆ fv e
  | .var x _ => by simp [fvB, fv]
  | .prim _ => by simp [fvB, fv]
  | .tag _ _ => by simp [fvB, fv]
  | .constr _ _ args => by simp only [fvB, fv]; exact fvBList_sub args
  | .tuple _ items => by simp only [fvB, fv]; exact fvBList_sub items
  | .array _ items => by simp only [fvB, fv]; exact fvBList_sub items
  | .closure _ ps body => by simp only [fvB, fv]; exact sub_filter _ (fvB_sub body)
  | .letE x v b => by simp only [fvB, fv]; exact sub_app (fvB_sub v) (sub_filter _ (fvB_sub b))
  | .matchE _ s arms d => by
    cases d with
    | none => simp only [fvB, fv]; exact sub_app (sub_app (fvB_sub s) (fvBArms_sub arms)) (List.Subset.refl _)
    | some d => simp only [fvB, fv]; exact sub_app (sub_app (fvB_sub s) (fvBArms_sub arms)) (fvB_sub d)
  | .ite c t e => by simp only [fvB, fv]; exact sub_app (sub_app (fvB_sub c) (fvB_sub t)) (fvB_sub e)
  | .while c b => by simp only [fvB, fv]; exact sub_app (fvB_sub c) (fvB_sub b)
  | .go e => by simp only [fvB, fv]; exact fvB_sub e
  | .cget _ _ _ e => by simp only [fvB, fv]; exact fvB_sub e
  | .un _ _ e => by simp only [fvB, fv]; exact fvB_sub e
  | .bin _ _ l r => by simp only [fvB, fv]; exact sub_app (fvB_sub l) (fvB_sub r)
  | .call _ f args => by simp only [fvB, fv]; exact sub_app (fvB_sub f) (fvBList_sub args)
  | .toDyn _ _ _ e => by simp only [fvB, fv]; exact fvB_sub e
  | .dynCall _ _ _ recv args => by simp only [fvB, fv]; exact sub_app (fvB_sub recv) (fvBList_sub args)
  | .traitCall _ _ _ recv args => by simp only [fvB, fv]; exact sub_app (fvB_sub recv) (fvBList_sub args)
  | .proj _ _ e => by simp only [fvB, fv]; exact fvB_sub e
theorem fvBList_sub : ∀ (es : List Expr), fvBList es ⊆ fvList es
  | [] => by simp [fvBList, fvList]
  | e :: es => by simp only [fvBList, fvList]; exact sub_app (fvB_sub e) (fvBList_sub es)
theorem fvBArms_sub : ∀ (arms : List Arm), fvBArms arms ⊆ fvArms arms
  | [] => by simp [fvBArms, fvArms]
  | .mk lhs body :: rest => by
    simp only [fvBArms, fvArms]
    intro x hx
    rcases List.mem_append.mp hx with hx | hx
    · exact List.mem_append_left _ (List.mem_append_right _ (fvB_sub body hx))
    · exact List.mem_append_right _ (fvBArms_sub rest hx)
end

/-! ## free variables of what `finishClosure` builds -/

theorem fvList_vars (caps : List (String × Ty)) :
    fvBList (caps.map (fun p => Expr.var p.1 p.2)) = caps.map (·.1) := by
  induction caps with
  | nil => rfl
  | cons p ps ih => simp [fvBList, fvB, ih]

/-- free variables of the rebinding chain: the environment parameter, and free variables of the
    body that are not rebound -/
theorem fv_rebind_sub (sn ep : String) (ety : Ty) (body : Expr) :
    ∀ (caps : List (String × Ty)) (i : Nat) (x : String),
      x ∈ fvB (rebind sn ep ety body i caps) → x = ep ∨ (x ∈ fvB body ∧ x ∉ caps.map (·.1))
  | [], i, x, h => by
    right; exact ⟨by simpa [rebind] using h, by simp⟩
  | (c, t) :: rest, i, x, h => by
    simp only [rebind, fvB, List.mem_append, List.mem_singleton, List.mem_filter] at h
    rcases h with h | ⟨h, hne⟩
    · exact Or.inl h
    · rcases fv_rebind_sub sn ep ety body rest (i + 1) x h with h | ⟨h1, h2⟩
      · exact Or.inl h
      · right
        refine ⟨h1, ?_⟩
        simp only [List.map_cons, List.mem_cons, not_or]
        exact ⟨by simpa using hne, h2⟩

/-! ## what `finishClosure` returns -/

theorem finishClosure_fst (st : State) (sc : Scope) (params : List (String × Ty)) (ty : Ty)
    (hint : Option String) (body : Expr) :
    (finishClosure st sc params ty hint body).1 =
      .constr (.struct (structNameFor hint st.nextId)) (.struct (structNameFor hint st.nextId))
        ((collectCaptured sc ((loweredParams params (funcParts ty).1).map (·.1)) [] body).map
          (fun p => .var p.1 p.2)) := rfl

theorem finishClosure_newFns (st : State) (sc : Scope) (params : List (String × Ty)) (ty : Ty)
    (hint : Option String) (body : Expr) :
    (finishClosure st sc params ty hint body).2.2.newFns = st.newFns ++
      [{ name := applyFnName (structNameFor hint st.nextId), generics := [],
         params := (Consts.envParamPrefix ++ toString st.gensym, .struct (structNameFor hint st.nextId)) ::
           loweredParams params (funcParts ty).1,
         ret := (funcParts ty).2,
         body := rebind (structNameFor hint st.nextId) (Consts.envParamPrefix ++ toString st.gensym)
           (.struct (structNameFor hint st.nextId)) body 0
           (collectCaptured sc ((loweredParams params (funcParts ty).1).map (·.1)) [] body) }] := rfl

theorem finishClosure_closureTypes (st : State) (sc : Scope) (params : List (String × Ty)) (ty : Ty)
    (hint : Option String) (body : Expr) :
    (finishClosure st sc params ty hint body).2.2.closureTypes =
      assocInsert st.closureTypes (structNameFor hint st.nextId) (applyFnName (structNameFor hint st.nextId)) := rfl

theorem mem_assocInsert {β : Type} (m : List (String × β)) (k : String) (v : β) (p : String × β)
    (h : p ∈ assocInsert m k v) : p ∈ m ∨ p = (k, v) := by
  unfold assocInsert at h
  split at h
  · rcases List.mem_map.mp h with ⟨q, hq, he⟩
    split at he
    · exact Or.inr he.symm
    · exact Or.inl (he ▸ hq)
  · rcases List.mem_append.mp h with h | h
    · exact Or.inl h
    · exact Or.inr (by simpa using h)

theorem mem_of_assocGet {β : Type} (m : List (String × β)) (k : String) (v : β)
    (h : assocGet m k = some v) : ∃ p ∈ m, p.2 = v := by
  unfold assocGet at h
  cases hf : m.find? (·.1 == k) with
  | none => rw [hf] at h; cases h
  | some p =>
    rw [hf] at h
    exact ⟨p, List.mem_of_find?_eq_some hf, by simpa using h⟩

/-- `collect_captured` misses nothing and invents nothing (`captures_mem` of Props/C08) -/
theorem captured_mem (sc : Scope) (params : List String) (body : Expr) (x : String) :
    x ∈ (collectCaptured sc params [] body).map (·.1) ↔ x ∈ fv body ∧ x ∉ params ∧ sc.has x = true := by
  rw [collect_eq, foldl_captureStep_names]
  show x ∈ List.foldl dedupStep [] _ ↔ _
  rw [mem_foldl_dedupStep]
  simp only [notIn, List.not_mem_nil, false_or, List.mem_filter, Bool.not_eq_true', List.contains_eq_mem,
    decide_eq_false_iff_not]
  constructor
  · rintro ⟨⟨a, b⟩, c⟩; exact ⟨a, b, c⟩
  · rintro ⟨a, b, c⟩; exact ⟨⟨a, b⟩, c⟩

/-! ## the state invariant -/

/-- all free variables of the function body are parameters of the function or global -/
def FnClosed (G : String → Prop) (f : Fn) : Prop := ∀ x ∈ fvB f.body, x ∈ f.params.map (·.1) ∨ G x

/-- every apply function generated so far is closed, and every apply function registered in
    `closure_types` (the names the call rewriting inserts) has been generated -/
def Inv (G : String → Prop) (st : State) : Prop :=
  (∀ f ∈ st.newFns, FnClosed G f) ∧ (∀ p ∈ st.closureTypes, ∃ f ∈ st.newFns, f.name = p.2)

/-- the names of the generated apply functions count as global -/
def NamesOk (G : String → Prop) (st : State) : Prop := ∀ f ∈ st.newFns, G f.name

theorem NamesOk_of_sub {G} {st st' : State} (h : st.newFns ⊆ st'.newFns) (hn : NamesOk G st') : NamesOk G st :=
  fun f hf => hn f (h hf)

theorem Inv_of_eq {G} {st st' : State} (h1 : st'.newFns = st.newFns) (h2 : st'.closureTypes = st.closureTypes)
    (h : Inv G st) : Inv G st' := by
  unfold Inv; rw [h1, h2]; exact h

@[simp] theorem updateStruct_closureTypes (st : State) (n : String) (cfs : List (Option String)) :
    (st.updateStruct n cfs).closureTypes = st.closureTypes := by
  unfold State.updateStruct; split <;> rfl

/-- **The closure site**: the environment constructor mentions only variables that are in scope
    at the site. -/
theorem closure_site_vars_in_scope (st : State) (sc : Scope) (params : List (String × Ty)) (ty : Ty)
    (hint : Option String) (body : Expr) :
    ∀ x ∈ fvB (finishClosure st sc params ty hint body).1, sc.has x = true := by
  intro x hx
  rw [finishClosure_fst] at hx
  simp only [fvB, fvList_vars] at hx
  exact ((captured_mem sc _ body x).mp hx).2.2

/-- **The apply function**: every free variable of the generated body is the environment
    parameter, a (lowered) closure parameter, or a free variable of the lifted closure body that
    is not in scope at the site (every in-scope one is captured and re-bound by `let x = env.<i>`). -/
theorem apply_fn_fv (sc : Scope) (sn ep : String) (ety : Ty) (lowered : List String) (body : Expr) (x : String)
    (hx : x ∈ fvB (rebind sn ep ety body 0 (collectCaptured sc lowered [] body))) :
    x = ep ∨ x ∈ lowered ∨ (x ∈ fvB body ∧ x ∉ lowered ∧ sc.has x = false) := by
  rcases fv_rebind_sub sn ep ety body _ 0 x hx with h | ⟨h1, h2⟩
  · exact Or.inl h
  · by_cases hl : x ∈ lowered
    · exact Or.inr (Or.inl hl)
    · right; right
      refine ⟨h1, hl, ?_⟩
      cases hs : sc.has x with
      | false => rfl
      | true => exact absurd ((captured_mem sc lowered body x).mpr ⟨fvB_sub body h1, hl, hs⟩) h2

theorem finishClosure_sub (st : State) (sc : Scope) (params : List (String × Ty)) (ty : Ty)
    (hint : Option String) (body : Expr) :
    st.newFns ⊆ (finishClosure st sc params ty hint body).2.2.newFns := by
  rw [finishClosure_newFns]; exact List.subset_append_left _ _

theorem finishClosure_closed (G : String → Prop)
    (st : State) (sc : Scope) (params : List (String × Ty)) (ty : Ty) (hint : Option String) (body : Expr)
    (hst : Inv G st)
    (hb : OkN G sc ((fvB body).filter (fun y => !((loweredParams params (funcParts ty).1).map (·.1)).contains y))) :
    OkN G sc (fvB (finishClosure st sc params ty hint body).1) ∧
      Inv G (finishClosure st sc params ty hint body).2.2 := by
  refine ⟨fun x hx => Or.inl (closure_site_vars_in_scope st sc params ty hint body x hx), ?_, ?_⟩
  · intro f hf
    rw [finishClosure_newFns] at hf
    rcases List.mem_append.mp hf with hf | hf
    · exact hst.1 f hf
    · have hf' := List.mem_singleton.mp hf
      subst hf'
      intro x hx
      rcases apply_fn_fv sc _ _ _ _ body x hx with h | h | ⟨h1, hl, h2⟩
      · left; rw [h]; simp
      · left; simp only [List.map_cons, List.mem_cons]; exact Or.inr h
      · have hm : x ∈ (fvB body).filter (fun y => !((loweredParams params (funcParts ty).1).map (·.1)).contains y) :=
          List.mem_filter.mpr ⟨h1, by simpa using hl⟩
        rcases hb x hm with h | h
        · rw [h2] at h; cases h
        · exact Or.inr h
  · intro p hp
    rw [finishClosure_closureTypes] at hp
    rw [finishClosure_newFns]
    rcases mem_assocInsert _ _ _ _ hp with hp | hp
    · rcases hst.2 p hp with ⟨f, hf, he⟩
      exact ⟨f, List.mem_append_left _ hf, he⟩
    · exact ⟨_, List.mem_append_right _ (List.mem_singleton.mpr rfl), by rw [hp]⟩

/-! ## `new_functions` only grows -/

theorem closure_sub {cbody : Expr}
    (ih : ∀ (st : State) (sc : Scope), st.newFns ⊆ (transformExpr st sc cbody).2.2.newFns)
    (st stIn : State) (sc' sc : Scope) (params : List (String × Ty)) (ty : Ty) (hint : Option String)
    (ctx : List String) (h : st.newFns ⊆ stIn.newFns) :
    st.newFns ⊆ (finishClosure { (transformExpr stIn sc' cbody).2.2 with ctx := ctx } sc params ty hint
      (transformExpr stIn sc' cbody).1).2.2.newFns :=
  List.Subset.trans (List.Subset.trans h (ih stIn sc')) (finishClosure_sub _ sc params ty hint _)

mutual
theorem newFns_mono : ∀ (e : Expr) (st : State) (sc : Scope), st.newFns ⊆ (transformExpr st sc e).2.2.newFns
  | .var x ty, st, sc => by
    rw [transformExpr]
    repeat' split
    all_goals exact List.Subset.refl _
  | .prim p, st, sc => by rw [transformExpr]; exact List.Subset.refl _
  | .tag i ty, st, sc => by rw [transformExpr]; exact List.Subset.refl _
  | .constr c ty args, st, sc => by
    have h1 := newFnsList_mono args st sc
    rw [transformExpr]
    cases c with
    | struct n =>
      show st.newFns ⊆ (State.updateStruct (transformList st sc args).2.2 n _).newFns
      rw [updateStruct_newFns]; exact h1
    | «enum» a b i => exact h1
  | .tuple ty items, st, sc => by
    have h1 := newFnsList_mono items st sc
    rw [transformExpr]; exact h1
  | .array ty items, st, sc => by
    have h1 := newFnsList_mono items st sc
    rw [transformExpr]; exact h1
  | .closure ty params body, st, sc => by
    rw [transformExpr]
    exact closure_sub (newFns_mono body) st _ _ sc params ty _ _
      (by cases closureHint st none <;> exact List.Subset.refl _)
  | .letE x v body, st, sc => by
    match v with
    | .closure cty params cbody =>
      rw [transformExpr]
      exact List.Subset.trans
        (closure_sub (newFns_mono cbody) st
          (match closureHint st (some x) with | some hh => { st with ctx := hh :: st.ctx } | none => st)
          (closureScope st sc params cty) sc params cty (closureHint st (some x)) st.ctx
          (by cases closureHint st (some x) <;> exact List.Subset.refl _))
        (newFns_mono body _ _)
    | .var _ _ | .prim _ | .tag _ _ | .constr _ _ _ | .tuple _ _ | .array _ _ | .letE _ _ _ | .matchE _ _ _ _
    | .ite _ _ _ | .while _ _ | .go _ | .cget _ _ _ _ | .un _ _ _ | .bin _ _ _ _ | .call _ _ _ | .toDyn _ _ _ _
    | .dynCall _ _ _ _ _ | .traitCall _ _ _ _ _ | .proj _ _ _ =>
      all_goals
        rw [transformExpr_let_eq _ _ _ _ _ (by intro _ _ _ hh; cases hh)]
        exact List.Subset.trans (newFns_mono _ st sc) (newFns_mono body _ _)
  | .matchE ty s arms d, st, sc => by
    have h1 := newFns_mono s st sc
    have h2 := newFnsArms_mono arms (transformExpr st sc s).2.2 sc
    cases d with
    | none =>
      rw [transformExpr]
      exact List.Subset.trans h1 h2
    | some d =>
      have h3 := newFns_mono d (transformArms (transformExpr st sc s).2.2 sc arms).2 sc
      rw [transformExpr]
      exact List.Subset.trans (List.Subset.trans h1 h2) h3
  | .ite c t e, st, sc => by
    have h1 := newFns_mono c st sc
    have h2 := newFns_mono t (transformExpr st sc c).2.2 sc
    have h3 := newFns_mono e (transformExpr (transformExpr st sc c).2.2 sc t).2.2 sc
    rw [transformExpr]
    exact List.Subset.trans (List.Subset.trans h1 h2) h3
  | .while c b, st, sc => by
    have h1 := newFns_mono c st sc
    have h2 := newFns_mono b (transformExpr st sc c).2.2 sc
    rw [transformExpr]
    exact List.Subset.trans h1 h2
  | .go e, st, sc => by
    have h1 := newFns_mono e st sc
    rw [transformExpr]; exact h1
  | .cget c i ty e, st, sc => by
    have h1 := newFns_mono e st sc
    rw [transformExpr]; exact h1
  | .un op ty e, st, sc => by
    have h1 := newFns_mono e st sc
    rw [transformExpr]; exact h1
  | .bin op ty l r, st, sc => by
    have h1 := newFns_mono l st sc
    have h2 := newFns_mono r (transformExpr st sc l).2.2 sc
    rw [transformExpr]
    exact List.Subset.trans h1 h2
  | .call ty f args, st, sc => by
    have h1 := newFns_mono f st sc
    have h2 := newFnsList_mono args (transformExpr st sc f).2.2 sc
    rw [transformExpr]
    dsimp only
    repeat' split
    all_goals exact List.Subset.trans h1 h2
  | .toDyn tr forTy ty e, st, sc => by
    have h1 := newFns_mono e st sc
    rw [transformExpr]; exact h1
  | .dynCall tr m ty recv args, st, sc => by
    have h1 := newFns_mono recv st sc
    have h2 := newFnsList_mono args (transformExpr st sc recv).2.2 sc
    rw [transformExpr]
    exact List.Subset.trans h1 h2
  | .traitCall tr m ty recv args, st, sc => by
    have h1 := newFns_mono recv st sc
    have h2 := newFnsList_mono args (transformExpr st sc recv).2.2 sc
    rw [transformExpr]
    exact List.Subset.trans h1 h2
  | .proj i ty e, st, sc => by
    have h1 := newFns_mono e st sc
    rw [transformExpr]; exact h1
theorem newFnsList_mono : ∀ (es : List Expr) (st : State) (sc : Scope), st.newFns ⊆ (transformList st sc es).2.2.newFns
  | [], st, sc => by rw [transformList]; exact List.Subset.refl _
  | e :: es, st, sc => by
    have h1 := newFns_mono e st sc
    have h2 := newFnsList_mono es (transformExpr st sc e).2.2 sc
    rw [transformList]
    exact List.Subset.trans h1 h2
theorem newFnsArms_mono : ∀ (arms : List Arm) (st : State) (sc : Scope), st.newFns ⊆ (transformArms st sc arms).2.newFns
  | [], st, sc => by rw [transformArms]; exact List.Subset.refl _
  | .mk lhs body :: rest, st, sc => by
    have h1 := newFns_mono lhs st sc
    have h2 := newFns_mono body (transformExpr st sc lhs).2.2 sc
    have h3 := newFnsArms_mono rest (transformExpr (transformExpr st sc lhs).2.2 sc body).2.2 sc
    rw [transformArms]
    exact List.Subset.trans (List.Subset.trans h1 h2) h3
end

theorem transformExpr_call_state (st : State) (sc : Scope) (ty : Ty) (f : Expr) (args : List Expr) :
    (transformExpr st sc (.call ty f args)).2.2 = (transformList (transformExpr st sc f).2.2 sc args).2.2 := by
  rw [transformExpr]
  dsimp only
  repeat' split
  all_goals rfl

/-! ## the induction over `transformExpr` -/

/-- what the induction proves of one sub-expression: if the input is closed under scope ∪ globals
    and the names of all apply functions existing afterwards count as global, the output is closed
    under the same scope ∪ globals and the state invariant is kept -/
def Step (G : String → Prop) (e : Expr) : Prop :=
  ∀ (st : State) (sc : Scope), Inv G st → OkN G sc (fvB e) → NamesOk G (transformExpr st sc e).2.2 →
    OkN G sc (fvB (transformExpr st sc e).1) ∧ Inv G (transformExpr st sc e).2.2

theorem let_step {G : String → Prop} {body : Expr} (ihb : Step G body) (x : String) (v' : Expr)
    (st2 : State) (sc : Scope) (entry : ScopeEntry)
    (hv' : OkN G sc (fvB v')) (hst2 : Inv G st2)
    (hb : OkN G sc ((fvB body).filter (fun y => !(y == x))))
    (hn : NamesOk G (transformExpr st2 (sc.pushLayer.insert x entry) body).2.2) :
    OkN G sc (fvB (.letE x v' (transformExpr st2 (sc.pushLayer.insert x entry) body).1)) ∧
      Inv G (transformExpr st2 (sc.pushLayer.insert x entry) body).2.2 := by
  rw [filter_ne_eq] at hb
  have h := ihb st2 (sc.pushLayer.insert x entry) hst2 (OkN_enter (has_let' sc x entry) hb) hn
  refine ⟨?_, h.2⟩
  show OkN G sc (fvB v' ++ (fvB _).filter (fun y => !(y == x)))
  rw [filter_ne_eq]
  exact OkN_append.mpr ⟨hv', OkN_leave (has_let' sc x entry) h.1⟩

theorem closure_step {G : String → Prop} {cbody : Expr} (ihb : Step G cbody)
    (st stIn : State) (sc : Scope) (params : List (String × Ty)) (ty : Ty) (hint : Option String)
    (ctx : List String)
    (hlen : params.length ≤ (funcParts ty).1.length) (hstIn : Inv G stIn)
    (hv : OkN G sc ((fvB cbody).filter (fun y => !(params.map (·.1)).contains y)))
    (hn : NamesOk G (finishClosure { (transformExpr stIn (closureScope st sc params ty) cbody).2.2 with ctx := ctx }
        sc params ty hint (transformExpr stIn (closureScope st sc params ty) cbody).1).2.2) :
    OkN G sc (fvB (finishClosure { (transformExpr stIn (closureScope st sc params ty) cbody).2.2 with ctx := ctx }
        sc params ty hint (transformExpr stIn (closureScope st sc params ty) cbody).1).1) ∧
      Inv G (finishClosure { (transformExpr stIn (closureScope st sc params ty) cbody).2.2 with ctx := ctx }
        sc params ty hint (transformExpr stIn (closureScope st sc params ty) cbody).1).2.2 := by
  have hs := has_closureScope st sc params ty
  have hn1 : NamesOk G (transformExpr stIn (closureScope st sc params ty) cbody).2.2 :=
    NamesOk_of_sub (finishClosure_sub { (transformExpr stIn (closureScope st sc params ty) cbody).2.2 with ctx := ctx }
      sc params ty hint _) hn
  have hnm := lowered_names params _ hlen
  rw [← hnm] at hv
  have h1 := ihb stIn (closureScope st sc params ty) hstIn (OkN_enter hs hv) hn1
  exact finishClosure_closed G _ sc params ty hint _ (Inv_of_eq rfl rfl h1.2) (OkN_leave hs h1.1)

theorem call_rw_ok {G : String → Prop} {sc : Scope} {st : State} {ty ety : Ty} {name sn applyFn : String}
    {entry : ScopeEntry} {args' : List Expr}
    (hget : sc.get name = some entry) (happ : st.applyFnForStruct sn = some applyFn)
    (hc : Inv G st) (hn : NamesOk G st) (ha : OkN G sc (fvBList args')) :
    OkN G sc (fvB (.call ty (.var applyFn ety) (.var name (.struct sn) :: args'))) := by
  show OkN G sc ([applyFn] ++ ([name] ++ fvBList args'))
  refine OkN_append.mpr ⟨?_, OkN_append.mpr ⟨?_, ha⟩⟩
  · intro x hx
    rw [List.mem_singleton.mp hx]
    rcases mem_of_assocGet _ _ _ happ with ⟨p, hp, he⟩
    rcases hc.2 p hp with ⟨f, hf, hfe⟩
    exact Or.inr (he ▸ hfe ▸ hn f hf)
  · intro x hx
    rw [List.mem_singleton.mp hx]
    left; unfold Scope.has; rw [hget]; rfl

theorem and3 {a b c : Bool} (h : (a && b && c) = true) : a = true ∧ b = true ∧ c = true := by
  simp only [Bool.and_eq_true] at h; exact ⟨h.1.1, h.1.2, h.2⟩
theorem and2 {a b : Bool} (h : (a && b) = true) : a = true ∧ b = true := by
  simp only [Bool.and_eq_true] at h; exact h

/-! ## a pattern (match-arm head) creates no apply function -/

mutual
theorem simplePat_state : ∀ (e : Expr), simplePat e = true → ∀ (st : State) (sc : Scope),
    (transformExpr st sc e).2.2.newFns = st.newFns ∧ (transformExpr st sc e).2.2.closureTypes = st.closureTypes
  | .var x ty, _, st, sc => by
    rw [transformExpr]
    repeat' split
    all_goals exact ⟨rfl, rfl⟩
  | .prim p, _, st, sc => by rw [transformExpr]; exact ⟨rfl, rfl⟩
  | .tag i ty, _, st, sc => by rw [transformExpr]; exact ⟨rfl, rfl⟩
  | .constr c ty args, h, st, sc => by
    have h1 := simplePatList_state args h st sc
    rw [transformExpr]
    cases c with
    | struct n =>
      refine ⟨?_, ?_⟩
      · show (State.updateStruct (transformList st sc args).2.2 n _).newFns = _
        rw [updateStruct_newFns]; exact h1.1
      · show (State.updateStruct (transformList st sc args).2.2 n _).closureTypes = _
        rw [updateStruct_closureTypes]; exact h1.2
    | «enum» a b i => exact h1
  | .tuple ty items, h, st, sc => by
    have h1 := simplePatList_state items h st sc
    rw [transformExpr]; exact h1
  | .array ty items, h, st, sc => by
    have h1 := simplePatList_state items h st sc
    rw [transformExpr]; exact h1
  | .closure _ _ _, h, _, _ => by simp [simplePat] at h
  | .letE _ _ _, h, _, _ => by simp [simplePat] at h
  | .matchE _ _ _ _, h, _, _ => by simp [simplePat] at h
  | .ite _ _ _, h, _, _ => by simp [simplePat] at h
  | .while _ _, h, _, _ => by simp [simplePat] at h
  | .go _, h, _, _ => by simp [simplePat] at h
  | .cget _ _ _ _, h, _, _ => by simp [simplePat] at h
  | .un _ _ _, h, _, _ => by simp [simplePat] at h
  | .bin _ _ _ _, h, _, _ => by simp [simplePat] at h
  | .call _ _ _, h, _, _ => by simp [simplePat] at h
  | .toDyn _ _ _ _, h, _, _ => by simp [simplePat] at h
  | .dynCall _ _ _ _ _, h, _, _ => by simp [simplePat] at h
  | .traitCall _ _ _ _ _, h, _, _ => by simp [simplePat] at h
  | .proj _ _ _, h, _, _ => by simp [simplePat] at h
theorem simplePatList_state : ∀ (es : List Expr), simplePatList es = true → ∀ (st : State) (sc : Scope),
    (transformList st sc es).2.2.newFns = st.newFns ∧ (transformList st sc es).2.2.closureTypes = st.closureTypes
  | [], _, st, sc => by rw [transformList]; exact ⟨rfl, rfl⟩
  | e :: es, h, st, sc => by
    have h' := and2 (show (simplePat e && simplePatList es) = true from h)
    have h1 := simplePat_state e h'.1 st sc
    have h2 := simplePatList_state es h'.2 (transformExpr st sc e).2.2 sc
    rw [transformList]
    exact ⟨h2.1.trans h1.1, h2.2.trans h1.2⟩
end

mutual
theorem transformExpr_closed {G : String → Prop} :
    ∀ (e : Expr), presHypArity e = true → Step G e
  | .var x ty, _, st, sc, h, hv, _ => by
    rw [transformExpr]
    repeat' split
    all_goals exact ⟨hv, h⟩
  | .prim p, _, st, sc, h, hv, _ => by rw [transformExpr]; exact ⟨hv, h⟩
  | .tag i ty, _, st, sc, h, hv, _ => by rw [transformExpr]; exact ⟨hv, h⟩
  | .constr c ty args, ha, st, sc, h, hv, hn => by
    have hn' : NamesOk G (transformList st sc args).2.2 := by
      rw [transformExpr] at hn
      cases c with
      | struct n =>
        intro f hf
        exact hn f (by
          show f ∈ (State.updateStruct (transformList st sc args).2.2 n _).newFns
          rw [updateStruct_newFns]; exact hf)
      | «enum» a b i => exact hn
    have h1 := transformList_closed args ha st sc h hv hn'
    rw [transformExpr]
    refine ⟨h1.1, ?_⟩
    cases c with
    | struct n => exact Inv_of_eq (by simp) (by simp) h1.2
    | «enum» a b i => exact h1.2
  | .tuple ty items, ha, st, sc, h, hv, hn => by
    have h1 := transformList_closed items ha st sc h hv (by rw [transformExpr] at hn; exact hn)
    rw [transformExpr]
    exact ⟨h1.1, h1.2⟩
  | .array ty items, ha, st, sc, h, hv, hn => by
    have h1 := transformList_closed items ha st sc h hv (by rw [transformExpr] at hn; exact hn)
    rw [transformExpr]
    exact ⟨h1.1, h1.2⟩
  | .closure ty params body, ha, st, sc, h, hv, hn => by
    have ha' := and2 (show (decide (params.length ≤ (funcParts ty).1.length) && presHypArity body) = true from ha)
    rw [transformExpr] at hn
    rw [transformExpr]
    exact closure_step (transformExpr_closed body ha'.2) st _ sc params ty _ _
      (by simpa using ha'.1) (by cases closureHint st none <;> exact h) hv hn
  | .letE x v body, ha, st, sc, h, hv, hn => by
    have ha' := and2 (show (presHypArity v && presHypArity body) = true from ha)
    have hv' := OkN_append.mp (show OkN G sc (fvB v ++ (fvB body).filter (fun y => !(y == x))) from hv)
    match v, ha', hv', hn with
    | .closure cty params cbody, ha', hv', hn =>
      have ha'' := and2 (show (decide (params.length ≤ (funcParts cty).1.length) && presHypArity cbody) = true from ha'.1)
      rw [transformExpr] at hn
      rw [transformExpr]
      have h2 := closure_step (transformExpr_closed cbody ha''.2) st
        (match closureHint st (some x) with | some hh => { st with ctx := hh :: st.ctx } | none => st)
        sc params cty (closureHint st (some x)) st.ctx
        (by simpa using ha''.1) (by cases closureHint st (some x) <;> exact h) hv'.1
        (NamesOk_of_sub (newFns_mono body _ _) hn)
      exact let_step (transformExpr_closed body ha'.2) x _ _ sc _ h2.1 h2.2 hv'.2 hn
    | .var _ _, ha', hv', hn | .prim _, ha', hv', hn | .tag _ _, ha', hv', hn | .constr _ _ _, ha', hv', hn
    | .tuple _ _, ha', hv', hn
    | .array _ _, ha', hv', hn | .letE _ _ _, ha', hv', hn | .matchE _ _ _ _, ha', hv', hn
    | .ite _ _ _, ha', hv', hn | .while _ _, ha', hv', hn | .go _, ha', hv', hn | .cget _ _ _ _, ha', hv', hn
    | .un _ _ _, ha', hv', hn
    | .bin _ _ _ _, ha', hv', hn | .call _ _ _, ha', hv', hn | .toDyn _ _ _ _, ha', hv', hn
    | .dynCall _ _ _ _ _, ha', hv', hn | .traitCall _ _ _ _ _, ha', hv', hn | .proj _ _ _, ha', hv', hn =>
      all_goals
        rw [transformExpr_let_eq _ _ _ _ _ (by intro _ _ _ hh; cases hh)] at hn
        rw [transformExpr_let_eq _ _ _ _ _ (by intro _ _ _ hh; cases hh)]
        have h1 := transformExpr_closed _ ha'.1 st sc h hv'.1 (NamesOk_of_sub (newFns_mono body _ _) hn)
        exact let_step (transformExpr_closed body ha'.2) x _ _ sc _ h1.1 h1.2 hv'.2 hn
  | .matchE ty s arms d, ha, st, sc, h, hv, hn => by
    cases d with
    | none =>
      have ha' := and3 (show (presHypArity s && presHypArityArms arms && true) = true from ha)
      have hv' := OkN_append.mp (show OkN G sc ((fvB s ++ fvBArms arms) ++ []) from hv)
      have hv'' := OkN_append.mp hv'.1
      have hn2 : NamesOk G (transformArms (transformExpr st sc s).2.2 sc arms).2 := by
        rw [transformExpr] at hn; exact hn
      have hn1 := NamesOk_of_sub (newFnsArms_mono arms (transformExpr st sc s).2.2 sc) hn2
      have h1 := transformExpr_closed s ha'.1 st sc h hv''.1 hn1
      have h2 := transformArms_closed arms ha'.2.1 _ sc h1.2 hv''.2 hn2
      rw [transformExpr]
      refine ⟨?_, h2.2⟩
      show OkN G sc ((fvB _ ++ fvBArms _) ++ [])
      exact OkN_append.mpr ⟨OkN_append.mpr ⟨h1.1, h2.1⟩, OkN_nil⟩
    | some d =>
      have ha' := and3 (show (presHypArity s && presHypArityArms arms && presHypArity d) = true from ha)
      have hv' := OkN_append.mp (show OkN G sc ((fvB s ++ fvBArms arms) ++ fvB d) from hv)
      have hv'' := OkN_append.mp hv'.1
      have hn3 : NamesOk G (transformExpr (transformArms (transformExpr st sc s).2.2 sc arms).2 sc d).2.2 := by
        rw [transformExpr] at hn; exact hn
      have hn2 := NamesOk_of_sub (newFns_mono d (transformArms (transformExpr st sc s).2.2 sc arms).2 sc) hn3
      have hn1 := NamesOk_of_sub (newFnsArms_mono arms (transformExpr st sc s).2.2 sc) hn2
      have h1 := transformExpr_closed s ha'.1 st sc h hv''.1 hn1
      have h2 := transformArms_closed arms ha'.2.1 _ sc h1.2 hv''.2 hn2
      have h3 := transformExpr_closed d ha'.2.2 _ sc h2.2 hv'.2 hn3
      rw [transformExpr]
      refine ⟨?_, h3.2⟩
      show OkN G sc ((fvB _ ++ fvBArms _) ++ fvB _)
      exact OkN_append.mpr ⟨OkN_append.mpr ⟨h1.1, h2.1⟩, h3.1⟩
  | .ite c t e, ha, st, sc, h, hv, hn => by
    have ha' := and3 (show (presHypArity c && presHypArity t && presHypArity e) = true from ha)
    have hv' := OkN_append.mp (show OkN G sc ((fvB c ++ fvB t) ++ fvB e) from hv)
    have hv'' := OkN_append.mp hv'.1
    have hn3 : NamesOk G (transformExpr (transformExpr (transformExpr st sc c).2.2 sc t).2.2 sc e).2.2 := by
      rw [transformExpr] at hn; exact hn
    have hn2 := NamesOk_of_sub (newFns_mono e (transformExpr (transformExpr st sc c).2.2 sc t).2.2 sc) hn3
    have hn1 := NamesOk_of_sub (newFns_mono t (transformExpr st sc c).2.2 sc) hn2
    have h1 := transformExpr_closed c ha'.1 st sc h hv''.1 hn1
    have h2 := transformExpr_closed t ha'.2.1 _ sc h1.2 hv''.2 hn2
    have h3 := transformExpr_closed e ha'.2.2 _ sc h2.2 hv'.2 hn3
    rw [transformExpr]
    refine ⟨?_, h3.2⟩
    show OkN G sc ((fvB _ ++ fvB _) ++ fvB _)
    exact OkN_append.mpr ⟨OkN_append.mpr ⟨h1.1, h2.1⟩, h3.1⟩
  | .while c b, ha, st, sc, h, hv, hn => by
    have ha' := and2 (show (presHypArity c && presHypArity b) = true from ha)
    have hv' := OkN_append.mp (show OkN G sc (fvB c ++ fvB b) from hv)
    have hn2 : NamesOk G (transformExpr (transformExpr st sc c).2.2 sc b).2.2 := by
      rw [transformExpr] at hn; exact hn
    have hn1 := NamesOk_of_sub (newFns_mono b (transformExpr st sc c).2.2 sc) hn2
    have h1 := transformExpr_closed c ha'.1 st sc h hv'.1 hn1
    have h2 := transformExpr_closed b ha'.2 _ sc h1.2 hv'.2 hn2
    rw [transformExpr]
    refine ⟨?_, h2.2⟩
    show OkN G sc (fvB _ ++ fvB _)
    exact OkN_append.mpr ⟨h1.1, h2.1⟩
  | .go e, ha, st, sc, h, hv, hn => by
    have h1 := transformExpr_closed e ha st sc h hv (by rw [transformExpr] at hn; exact hn)
    rw [transformExpr]; exact ⟨h1.1, h1.2⟩
  | .cget c i ty e, ha, st, sc, h, hv, hn => by
    have h1 := transformExpr_closed e ha st sc h hv (by rw [transformExpr] at hn; exact hn)
    rw [transformExpr]; exact ⟨h1.1, h1.2⟩
  | .un op ty e, ha, st, sc, h, hv, hn => by
    have h1 := transformExpr_closed e ha st sc h hv (by rw [transformExpr] at hn; exact hn)
    rw [transformExpr]; exact ⟨h1.1, h1.2⟩
  | .bin op ty l r, ha, st, sc, h, hv, hn => by
    have ha' := and2 (show (presHypArity l && presHypArity r) = true from ha)
    have hv' := OkN_append.mp (show OkN G sc (fvB l ++ fvB r) from hv)
    have hn2 : NamesOk G (transformExpr (transformExpr st sc l).2.2 sc r).2.2 := by
      rw [transformExpr] at hn; exact hn
    have hn1 := NamesOk_of_sub (newFns_mono r (transformExpr st sc l).2.2 sc) hn2
    have h1 := transformExpr_closed l ha'.1 st sc h hv'.1 hn1
    have h2 := transformExpr_closed r ha'.2 _ sc h1.2 hv'.2 hn2
    rw [transformExpr]
    refine ⟨?_, h2.2⟩
    show OkN G sc (fvB _ ++ fvB _)
    exact OkN_append.mpr ⟨h1.1, h2.1⟩
  | .call ty f args, ha, st, sc, h, hv, hn => by
    have ha' := and2 (show (presHypArity f && presHypArityList args) = true from ha)
    have hv' := OkN_append.mp (show OkN G sc (fvB f ++ fvBList args) from hv)
    rw [transformExpr_call_state] at hn
    have hn1 := NamesOk_of_sub (newFnsList_mono args (transformExpr st sc f).2.2 sc) hn
    have h1 := transformExpr_closed f ha'.1 st sc h hv'.1 hn1
    have h2 := transformList_closed args ha'.2 _ sc h1.2 hv'.2 hn
    rw [transformExpr]
    have hd : ∀ cty, OkN G sc (fvB (.call cty (transformExpr st sc f).1 (transformList (transformExpr st sc f).2.2 sc args).1)) := by
      intro cty
      show OkN G sc (fvB _ ++ fvBList _)
      exact OkN_append.mpr ⟨h1.1, h2.1⟩
    dsimp only
    repeat' split
    all_goals first
      | exact ⟨hd _, h2.2⟩
      | exact ⟨call_rw_ok (by assumption) (by assumption) h2.2 hn h2.1, h2.2⟩
  | .toDyn tr forTy ty e, ha, st, sc, h, hv, hn => by
    have h1 := transformExpr_closed e ha st sc h hv (by rw [transformExpr] at hn; exact hn)
    rw [transformExpr]; exact ⟨h1.1, h1.2⟩
  | .dynCall tr m ty recv args, ha, st, sc, h, hv, hn => by
    have ha' := and2 (show (presHypArity recv && presHypArityList args) = true from ha)
    have hv' := OkN_append.mp (show OkN G sc (fvB recv ++ fvBList args) from hv)
    have hn2 : NamesOk G (transformList (transformExpr st sc recv).2.2 sc args).2.2 := by
      rw [transformExpr] at hn; exact hn
    have hn1 := NamesOk_of_sub (newFnsList_mono args (transformExpr st sc recv).2.2 sc) hn2
    have h1 := transformExpr_closed recv ha'.1 st sc h hv'.1 hn1
    have h2 := transformList_closed args ha'.2 _ sc h1.2 hv'.2 hn2
    rw [transformExpr]
    refine ⟨?_, h2.2⟩
    show OkN G sc (fvB _ ++ fvBList _)
    exact OkN_append.mpr ⟨h1.1, h2.1⟩
  | .traitCall tr m ty recv args, ha, st, sc, h, hv, hn => by
    have ha' := and2 (show (presHypArity recv && presHypArityList args) = true from ha)
    have hv' := OkN_append.mp (show OkN G sc (fvB recv ++ fvBList args) from hv)
    have hn2 : NamesOk G (transformList (transformExpr st sc recv).2.2 sc args).2.2 := by
      rw [transformExpr] at hn; exact hn
    have hn1 := NamesOk_of_sub (newFnsList_mono args (transformExpr st sc recv).2.2 sc) hn2
    have h1 := transformExpr_closed recv ha'.1 st sc h hv'.1 hn1
    have h2 := transformList_closed args ha'.2 _ sc h1.2 hv'.2 hn2
    rw [transformExpr]
    refine ⟨?_, h2.2⟩
    show OkN G sc (fvB _ ++ fvBList _)
    exact OkN_append.mpr ⟨h1.1, h2.1⟩
  | .proj i ty e, ha, st, sc, h, hv, hn => by
    have h1 := transformExpr_closed e ha st sc h hv (by rw [transformExpr] at hn; exact hn)
    rw [transformExpr]; exact ⟨h1.1, h1.2⟩
theorem transformList_closed {G : String → Prop} :
    ∀ (es : List Expr), presHypArityList es = true → ∀ (st : State) (sc : Scope), Inv G st → OkN G sc (fvBList es) →
      NamesOk G (transformList st sc es).2.2 →
      OkN G sc (fvBList (transformList st sc es).1) ∧ Inv G (transformList st sc es).2.2
  | [], _, st, sc, h, hv, _ => by rw [transformList]; exact ⟨hv, h⟩
  | e :: es, ha, st, sc, h, hv, hn => by
    have ha' := and2 (show (presHypArity e && presHypArityList es) = true from ha)
    have hv' := OkN_append.mp (show OkN G sc (fvB e ++ fvBList es) from hv)
    have hn2 : NamesOk G (transformList (transformExpr st sc e).2.2 sc es).2.2 := by
      rw [transformList] at hn; exact hn
    have hn1 := NamesOk_of_sub (newFnsList_mono es (transformExpr st sc e).2.2 sc) hn2
    have h1 := transformExpr_closed e ha'.1 st sc h hv'.1 hn1
    have h2 := transformList_closed es ha'.2 _ sc h1.2 hv'.2 hn2
    rw [transformList]
    refine ⟨?_, h2.2⟩
    show OkN G sc (fvB _ ++ fvBList _)
    exact OkN_append.mpr ⟨h1.1, h2.1⟩
theorem transformArms_closed {G : String → Prop} :
    ∀ (arms : List Arm), presHypArityArms arms = true → ∀ (st : State) (sc : Scope), Inv G st → OkN G sc (fvBArms arms) →
      NamesOk G (transformArms st sc arms).2 →
      OkN G sc (fvBArms (transformArms st sc arms).1) ∧ Inv G (transformArms st sc arms).2
  | [], _, st, sc, h, hv, _ => by rw [transformArms]; exact ⟨hv, h⟩
  | .mk lhs body :: rest, ha, st, sc, h, hv, hn => by
    have ha' := and3 (show (simplePat lhs && presHypArity body && presHypArityArms rest) = true from ha)
    have hv' := OkN_append.mp (show OkN G sc (fvB body ++ fvBArms rest) from hv)
    have hp := simplePat_state lhs ha'.1 st sc
    have hI1 : Inv G (transformExpr st sc lhs).2.2 := Inv_of_eq hp.1 hp.2 h
    have hn3 : NamesOk G (transformArms (transformExpr (transformExpr st sc lhs).2.2 sc body).2.2 sc rest).2 := by
      rw [transformArms] at hn; exact hn
    have hn2 := NamesOk_of_sub (newFnsArms_mono rest (transformExpr (transformExpr st sc lhs).2.2 sc body).2.2 sc) hn3
    have h2 := transformExpr_closed body ha'.2.1 _ sc hI1 hv'.1 hn2
    have h3 := transformArms_closed rest ha'.2.2 _ sc h2.2 hv'.2 hn3
    rw [transformArms]
    refine ⟨?_, h3.2⟩
    show OkN G sc (fvB _ ++ fvBArms _)
    exact OkN_append.mpr ⟨h2.1, h3.1⟩
end

/-! ## functions and the file -/

theorem liftFn_sub (st : State) (f : Fn) : st.newFns ⊆ (liftFn st f).2.newFns := by
  unfold liftFn
  exact List.Subset.trans
    (show st.newFns ⊆ (match sanitizeEnvName f.name with | some c => { st with ctx := c :: st.ctx } | none => st).newFns by
      cases sanitizeEnvName f.name <;> exact List.Subset.refl _)
    (newFns_mono f.body _ _)

theorem liftFns_sub : ∀ (fs : List Fn) (st : State), st.newFns ⊆ (liftFns st fs).2.newFns
  | [], st => by rw [liftFns]; exact List.Subset.refl _
  | f :: fs, st => by
    rw [liftFns]
    exact List.Subset.trans (liftFn_sub st f) (liftFns_sub fs _)

theorem has_paramScope (F : String × Ty → ScopeEntry) (ps : List (String × Ty)) (y : String) :
    (ps.foldl (fun s p => s.insert p.1 (F p)) Scope.new.pushLayer).has y = (ps.map (·.1)).contains y := by
  rw [(has_foldl_insert F ps _ y (pushLayer_layers_ne _)).1, has_pushLayer, has_new, Bool.or_false]

theorem liftFn_closed {G : String → Prop} (st : State) (f : Fn) (h : Inv G st)
    (ha : presHypArity f.body = true) (hc : FnClosed G f) (hn : NamesOk G (liftFn st f).2) :
    FnClosed G (liftFn st f).1 ∧ Inv G (liftFn st f).2 := by
  have hs := has_paramScope (fun p => { ty := p.2, closureStruct := st.closureStructForTy p.2 }) f.params
  have h1 := transformExpr_closed (G := G) f.body ha
    (match sanitizeEnvName f.name with | some c => { st with ctx := c :: st.ctx } | none => st)
    (f.params.foldl (fun s p => s.insert p.1 { ty := p.2, closureStruct := st.closureStructForTy p.2 }) Scope.new.pushLayer)
    (by cases sanitizeEnvName f.name <;> exact h)
    (by
      intro x hx
      rcases hc x hx with hm | hg
      · left; rw [hs]; simpa using hm
      · exact Or.inr hg)
    (by unfold liftFn at hn; exact hn)
  unfold liftFn
  refine ⟨?_, Inv_of_eq rfl rfl h1.2⟩
  intro x hx
  rcases h1.1 x hx with hm | hg
  · left; rw [hs] at hm; simpa using hm
  · exact Or.inr hg

theorem liftFns_closed {G : String → Prop} : ∀ (fs : List Fn) (st : State), Inv G st →
    (∀ f ∈ fs, FnClosed G f ∧ presHypArity f.body = true) → NamesOk G (liftFns st fs).2 →
    (∀ g ∈ (liftFns st fs).1, FnClosed G g) ∧ Inv G (liftFns st fs).2
  | [], st, h, _, _ => by
    rw [liftFns]; exact ⟨fun g hg => (by cases hg), h⟩
  | f :: fs, st, h, hf, hn => by
    have hn2 : NamesOk G (liftFns (liftFn st f).2 fs).2 := by rw [liftFns] at hn; exact hn
    have hn1 := NamesOk_of_sub (liftFns_sub fs (liftFn st f).2) hn2
    have h1 := liftFn_closed st f h (hf f (List.mem_cons_self ..)).2 (hf f (List.mem_cons_self ..)).1 hn1
    have h2 := liftFns_closed fs _ h1.2 (fun g hg => hf g (List.mem_cons_of_mem _ hg)) hn2
    rw [liftFns]
    refine ⟨?_, h2.2⟩
    intro g hg
    change g ∈ (liftFn st f).1 :: (liftFns (liftFn st f).2 fs).1 at hg
    rcases List.mem_cons.mp hg with hg | hg
    · rw [hg]; exact h1.1
    · exact h2.1 g hg

/-! ## the executable checker `closedIn` says the same as `fvB` -/

theorem forall_mem_binder (ns bound l : List String) (G : String → Bool) :
    (∀ x ∈ l, x ∈ ns ++ bound ∨ G x = true) ↔
      (∀ x ∈ l.filter (fun y => !ns.contains y), x ∈ bound ∨ G x = true) := by
  constructor
  · intro h x hx
    rcases List.mem_filter.mp hx with ⟨hx, hn⟩
    have hn' : x ∉ ns := by simpa using hn
    rcases h x hx with h | h
    · rcases List.mem_append.mp h with h | h
      · exact absurd h hn'
      · exact Or.inl h
    · exact Or.inr h
  · intro h x hx
    by_cases hn : x ∈ ns
    · exact Or.inl (List.mem_append_left _ hn)
    · rcases h x (List.mem_filter.mpr ⟨hx, by simpa using hn⟩) with h | h
      · exact Or.inl (List.mem_append_right _ h)
      · exact Or.inr h

mutual
theorem closedIn_iff (G : String → Bool) : ∀ (e : Expr) (bound : List String),
    closedIn G bound e = true ↔ ∀ x ∈ fvB e, x ∈ bound ∨ G x = true
  | .var x _, bound => by simp [closedIn, fvB]
  | .prim _, bound => by simp [closedIn, fvB]
  | .tag _ _, bound => by simp [closedIn, fvB]
  | .constr _ _ args, bound => by simp only [closedIn, fvB]; exact closedInList_iff G args bound
  | .tuple _ items, bound => by simp only [closedIn, fvB]; exact closedInList_iff G items bound
  | .array _ items, bound => by simp only [closedIn, fvB]; exact closedInList_iff G items bound
  | .closure _ ps b, bound => by
    simp only [closedIn, fvB]
    rw [closedIn_iff G b, forall_mem_binder]
  | .letE x v b, bound => by
    simp only [closedIn, fvB, Bool.and_eq_true, List.forall_mem_append]
    rw [closedIn_iff G v, closedIn_iff G b, filter_ne_eq, ← forall_mem_binder]
    rfl
  | .matchE _ s arms d, bound => by
    cases d with
    | none =>
      simp only [closedIn, fvB, Bool.and_eq_true, List.forall_mem_append]
      rw [closedIn_iff G s, closedInArms_iff G arms]
      simp
    | some d =>
      simp only [closedIn, fvB, Bool.and_eq_true, List.forall_mem_append]
      rw [closedIn_iff G s, closedInArms_iff G arms, closedIn_iff G d]
  | .ite c t e, bound => by
    simp only [closedIn, fvB, Bool.and_eq_true, List.forall_mem_append]
    rw [closedIn_iff G c, closedIn_iff G t, closedIn_iff G e]
  | .while c b, bound => by
    simp only [closedIn, fvB, Bool.and_eq_true, List.forall_mem_append]
    rw [closedIn_iff G c, closedIn_iff G b]
  | .go e, bound => by simp only [closedIn, fvB]; exact closedIn_iff G e bound
  | .cget _ _ _ e, bound => by simp only [closedIn, fvB]; exact closedIn_iff G e bound
  | .un _ _ e, bound => by simp only [closedIn, fvB]; exact closedIn_iff G e bound
  | .bin _ _ l r, bound => by
    simp only [closedIn, fvB, Bool.and_eq_true, List.forall_mem_append]
    rw [closedIn_iff G l, closedIn_iff G r]
  | .call _ f args, bound => by
    simp only [closedIn, fvB, Bool.and_eq_true, List.forall_mem_append]
    rw [closedIn_iff G f, closedInList_iff G args]
  | .toDyn _ _ _ e, bound => by simp only [closedIn, fvB]; exact closedIn_iff G e bound
  | .dynCall _ _ _ recv args, bound => by
    simp only [closedIn, fvB, Bool.and_eq_true, List.forall_mem_append]
    rw [closedIn_iff G recv, closedInList_iff G args]
  | .traitCall _ _ _ recv args, bound => by
    simp only [closedIn, fvB, Bool.and_eq_true, List.forall_mem_append]
    rw [closedIn_iff G recv, closedInList_iff G args]
  | .proj _ _ e, bound => by simp only [closedIn, fvB]; exact closedIn_iff G e bound
theorem closedInList_iff (G : String → Bool) : ∀ (es : List Expr) (bound : List String),
    closedInList G bound es = true ↔ ∀ x ∈ fvBList es, x ∈ bound ∨ G x = true
  | [], bound => by simp [closedInList, fvBList]
  | e :: es, bound => by
    simp only [closedInList, fvBList, Bool.and_eq_true, List.forall_mem_append]
    rw [closedIn_iff G e, closedInList_iff G es]
theorem closedInArms_iff (G : String → Bool) : ∀ (arms : List Arm) (bound : List String),
    closedInArms G bound arms = true ↔ ∀ x ∈ fvBArms arms, x ∈ bound ∨ G x = true
  | [], bound => by simp [closedInArms, fvBArms]
  | .mk lhs body :: rest, bound => by
    simp only [closedInArms, fvBArms, Bool.and_eq_true, List.forall_mem_append]
    rw [closedIn_iff G body, closedInArms_iff G rest]
end

/-! ## the theorems -/

theorem closedIn_mono {G G' : String → Bool} (hG : ∀ x, G x = true → G' x = true) (bound : List String) (e : Expr)
    (h : closedIn G bound e = true) : closedIn G' bound e = true := by
  rw [closedIn_iff] at h ⊢
  intro x hx
  rcases h x hx with h | h
  · exact Or.inl h
  · exact Or.inr (hG x h)

/-- **C03 for lambda lifting, scope-closedness.**  If every function of the Mono input is closed
    (each variable occurrence is a parameter, bound by an enclosing `let`/closure parameter, or a
    global in `G`) and `presHypArity` holds, then every function `lambda_lift` emits — the lifted
    originals *and* the generated apply functions — is closed under its own parameters and the
    globals `G` ∪ {names of the generated apply functions}; and those apply functions are among the
    emitted functions (so the new globals are defined). -/
theorem lift_preserves_closed (env : Env) (fns : List Fn) (G : String → Bool)
    (h : presHypFns G fns = true) :
    (∀ g ∈ (liftFile env fns).1,
      presHypClosedFn (liftGlobals G (liftFile env fns).2.newFns) g = true) ∧
    (∀ a ∈ (liftFile env fns).2.newFns, a ∈ (liftFile env fns).1) := by
  have hall : ∀ f ∈ fns, closedIn G (f.params.map (·.1)) f.body = true ∧ presHypArity f.body = true := by
    intro f hf
    have := List.all_eq_true.mp h f hf
    exact and2 this
  let GP : String → Prop := fun x => G x = true ∨ ∃ f ∈ (liftFns (initState env) fns).2.newFns, f.name = x
  have hInit : Inv GP (initState env) := ⟨fun f hf => (by cases hf), fun p hp => (by cases hp)⟩
  have hn : NamesOk GP (liftFns (initState env) fns).2 := fun f hf => Or.inr ⟨f, hf, rfl⟩
  have hfs : ∀ f ∈ fns, FnClosed GP f ∧ presHypArity f.body = true := by
    intro f hf
    refine ⟨?_, (hall f hf).2⟩
    intro x hx
    rcases (closedIn_iff G f.body _).mp (hall f hf).1 x hx with hm | hg
    · exact Or.inl hm
    · exact Or.inr (Or.inl hg)
  have res := liftFns_closed fns (initState env) hInit hfs hn
  have hfile : (liftFile env fns).1 = (liftFns (initState env) fns).1 ++ (liftFns (initState env) fns).2.newFns := rfl
  have hst : (liftFile env fns).2 = (liftFns (initState env) fns).2 := rfl
  refine ⟨?_, ?_⟩
  · intro g hg
    rw [hfile] at hg
    have hc : FnClosed GP g := by
      rcases List.mem_append.mp hg with hg | hg
      · exact res.1 g hg
      · exact res.2.1 g hg
    rw [hst]
    unfold presHypClosedFn
    rw [closedIn_iff]
    intro x hx
    rcases hc x hx with hm | hg | ⟨f, hf, he⟩
    · exact Or.inl hm
    · right; unfold liftGlobals; rw [hg]; rfl
    · right; unfold liftGlobals
      rw [Bool.or_eq_true]; right
      exact List.any_eq_true.mpr ⟨f, hf, by simpa using he⟩
  · intro a ha
    rw [hfile]; rw [hst] at ha
    exact List.mem_append_right _ ha

/-- the same, in terms of free variables: every free variable (`fvB`: `let` and closure
    parameters bind, match-arm heads are patterns) of an emitted function is one of its own
    parameters, a global of the input, or the name of an emitted apply function -/
theorem lift_preserves_closed_fv (env : Env) (fns : List Fn) (G : String → Bool)
    (h : presHypFns G fns = true) :
    ∀ g ∈ (liftFile env fns).1, ∀ x ∈ fvB g.body,
      x ∈ g.params.map (·.1) ∨ G x = true ∨ ∃ a ∈ (liftFile env fns).1, a ∈ (liftFile env fns).2.newFns ∧ a.name = x := by
  intro g hg x hx
  have h1 := (lift_preserves_closed env fns G h).1 g hg
  unfold presHypClosedFn at h1
  rcases (closedIn_iff _ _ _).mp h1 x hx with hm | hgl
  · exact Or.inl hm
  · unfold liftGlobals at hgl
    rcases Bool.or_eq_true _ _ ▸ hgl with hgl | hgl
    · exact Or.inr (Or.inl hgl)
    · rcases List.any_eq_true.mp hgl with ⟨a, ha, he⟩
      exact Or.inr (Or.inr ⟨a, (lift_preserves_closed env fns G h).2 a ha, ha, by simpa using he⟩)

/-- the free variables of the body of an apply function, exactly: the environment parameter (when
    something is captured) and the free variables of the lifted closure body that are not captured
    — every captured variable is re-bound from its environment field before use -/
theorem fvB_rebind_iff (sn ep : String) (ety : Ty) (body : Expr) (x : String) :
    ∀ (caps : List (String × Ty)) (i : Nat),
      x ∈ fvB (rebind sn ep ety body i caps) ↔
        (x = ep ∧ caps ≠ []) ∨ (x ∈ fvB body ∧ x ∉ caps.map (·.1))
  | [], i => by simp [rebind]
  | (c, t) :: rest, i => by
    simp only [rebind, fvB, List.mem_append, List.mem_filter,
      fvB_rebind_iff sn ep ety body x rest (i + 1), List.map_cons, List.mem_cons, not_or, ne_eq,
      reduceCtorEq, not_false_eq_true, and_true, Bool.not_eq_true', beq_eq_false_iff_ne,
      List.not_mem_nil, or_false]
    constructor
    · rintro (h | ⟨(⟨h, _⟩ | ⟨h1, h2⟩), h3⟩)
      · exact Or.inl h
      · exact Or.inl h
      · exact Or.inr ⟨h1, h3, h2⟩
    · rintro (h | ⟨h1, h3, h2⟩)
      · exact Or.inl h
      · exact Or.inr ⟨Or.inr ⟨h1, h2⟩, h3⟩

/-! ## the same statement for `Scoped.scopedFns` (the C03 stage predicate) -/

theorem forall_mem_binder' (ns bound l : List String) :
    (∀ x ∈ l, x ∈ ns ++ bound) ↔ (∀ x ∈ l.filter (fun y => !ns.contains y), x ∈ bound) := by
  have := forall_mem_binder ns bound l (fun _ => false)
  simpa using this

mutual
theorem unbound_nil_iff : ∀ (e : Expr) (B : List String), unbound B e = [] ↔ ∀ x ∈ fvB e, x ∈ B
  | .var x _, B => by
    simp only [unbound, fvB, List.mem_singleton, forall_eq]
    by_cases h : x ∈ B <;> simp [h]
  | .prim _, B => by simp [unbound, fvB]
  | .tag _ _, B => by simp [unbound, fvB]
  | .constr _ _ args, B => by simp only [unbound, fvB]; exact unboundList_nil_iff args B
  | .tuple _ items, B => by simp only [unbound, fvB]; exact unboundList_nil_iff items B
  | .array _ items, B => by simp only [unbound, fvB]; exact unboundList_nil_iff items B
  | .closure _ ps b, B => by
    simp only [unbound, fvB]
    rw [unbound_nil_iff b, forall_mem_binder']
  | .letE x v b, B => by
    simp only [unbound, fvB, List.append_eq_nil_iff, List.forall_mem_append]
    rw [unbound_nil_iff v, unbound_nil_iff b, filter_ne_eq, ← forall_mem_binder']
    rfl
  | .matchE _ s arms d, B => by
    cases d with
    | none =>
      simp only [unbound, fvB, List.append_eq_nil_iff, List.forall_mem_append]
      rw [unbound_nil_iff s, unboundArms_nil_iff arms]
      simp
    | some d =>
      simp only [unbound, fvB, List.append_eq_nil_iff, List.forall_mem_append]
      rw [unbound_nil_iff s, unboundArms_nil_iff arms, unbound_nil_iff d]
  | .ite c t e, B => by
    simp only [unbound, fvB, List.append_eq_nil_iff, List.forall_mem_append]
    rw [unbound_nil_iff c, unbound_nil_iff t, unbound_nil_iff e]
  | .while c b, B => by
    simp only [unbound, fvB, List.append_eq_nil_iff, List.forall_mem_append]
    rw [unbound_nil_iff c, unbound_nil_iff b]
  | .go e, B => by simp only [unbound, fvB]; exact unbound_nil_iff e B
  | .cget _ _ _ e, B => by simp only [unbound, fvB]; exact unbound_nil_iff e B
  | .un _ _ e, B => by simp only [unbound, fvB]; exact unbound_nil_iff e B
  | .bin _ _ l r, B => by
    simp only [unbound, fvB, List.append_eq_nil_iff, List.forall_mem_append]
    rw [unbound_nil_iff l, unbound_nil_iff r]
  | .call _ f args, B => by
    simp only [unbound, fvB, List.append_eq_nil_iff, List.forall_mem_append]
    rw [unbound_nil_iff f, unboundList_nil_iff args]
  | .toDyn _ _ _ e, B => by simp only [unbound, fvB]; exact unbound_nil_iff e B
  | .dynCall _ _ _ recv args, B => by
    simp only [unbound, fvB, List.append_eq_nil_iff, List.forall_mem_append]
    rw [unbound_nil_iff recv, unboundList_nil_iff args]
  | .traitCall _ _ _ recv args, B => by
    simp only [unbound, fvB, List.append_eq_nil_iff, List.forall_mem_append]
    rw [unbound_nil_iff recv, unboundList_nil_iff args]
  | .proj _ _ e, B => by simp only [unbound, fvB]; exact unbound_nil_iff e B
theorem unboundList_nil_iff : ∀ (es : List Expr) (B : List String), unboundList B es = [] ↔ ∀ x ∈ fvBList es, x ∈ B
  | [], B => by simp [unboundList, fvBList]
  | e :: es, B => by
    simp only [unboundList, fvBList, List.append_eq_nil_iff, List.forall_mem_append]
    rw [unbound_nil_iff e, unboundList_nil_iff es]
theorem unboundArms_nil_iff : ∀ (arms : List Arm) (B : List String), unboundArms B arms = [] ↔ ∀ x ∈ fvBArms arms, x ∈ B
  | [], B => by simp [unboundArms, fvBArms]
  | .mk lhs body :: rest, B => by
    simp only [unboundArms, fvBArms, List.append_eq_nil_iff, List.forall_mem_append]
    rw [unbound_nil_iff body, unboundArms_nil_iff rest]
end

/-- `scopedFn G f` is `presHypClosedFn` for the global list `G` -/
theorem scopedFn_iff (G : List String) (f : Fn) :
    scopedFn G f = true ↔ presHypClosedFn (fun x => G.contains x) f = true := by
  unfold scopedFn presHypClosedFn
  rw [List.isEmpty_iff, unbound_nil_iff, closedIn_iff]
  simp only [List.mem_append, List.contains_eq_mem, decide_eq_true_eq]

/-- `lift_preserves_closed` for the stage predicate of `Props/C03.lean`: the lifted file is
    `scopedFns` for the old globals plus the names of the generated apply functions -/
theorem lift_preserves_scoped (env : Env) (fns : List Fn) (G : List String)
    (ha : fns.all (fun f => presHypArity f.body) = true) (h : scopedFns G fns = true) :
    scopedFns (G ++ (liftFile env fns).2.newFns.map (·.name)) (liftFile env fns).1 = true := by
  have hh : presHypFns (fun x => G.contains x) fns = true := by
    unfold presHypFns
    rw [List.all_eq_true]
    intro f hf
    rw [Bool.and_eq_true]
    exact ⟨(scopedFn_iff G f).mp (List.all_eq_true.mp h f hf), List.all_eq_true.mp ha f hf⟩
  have res := (lift_preserves_closed env fns _ hh).1
  unfold scopedFns
  rw [List.all_eq_true]
  intro g hg
  rw [scopedFn_iff]
  refine closedIn_mono ?_ _ _ (res g hg)
  intro x hx
  unfold liftGlobals at hx
  rw [Bool.or_eq_true] at hx
  simp only [List.contains_eq_mem, decide_eq_true_eq, List.mem_append, List.mem_map]
  rcases hx with hx | hx
  · left; simpa using hx
  · right
    rcases List.any_eq_true.mp hx with ⟨a, ha, he⟩
    exact ⟨a, ha, by simpa using he⟩

/-! ## non-vacuity -/
namespace NonVacuity
open Examples

/-- globals of corpus program 033_closure: its own functions and the builtins it calls -/
def G033 : String → Bool :=
  fun x => ["test", "call_int_id", "main", "string_println", "int32_to_string"].contains x

/-- the hypotheses of `lift_preserves_closed` hold of the real Mono dump of corpus 033
    (`test`: `|x| x * y * z` captures the two lets `y/0`, `z/1`; `main`: six closures capturing
    lets, an enum and a struct value, one capturing nothing) -/
example : presHypFns G033 p033.fns = true := by decide +kernel
/-- … and of 037 (four nested closures) and 038 (two closures sharing a `Ref` cell) -/
example : presHypFns (fun x => ["main", "string_println", "int32_to_string"].contains x) p037.fns = true := by
  decide +kernel
example : presHypFns (fun x => ["make_counter", "main", "string_println", "int32_to_string", "ref", "ref_get",
    "ref_set"].contains x) p038.fns = true := by decide +kernel

/-- the conclusion, evaluated: all nine emitted functions are closed -/
example : scopeClosedFns G033 (liftFile env033 p033.fns).1 (liftFile env033 p033.fns).2.newFns = true := by
  decide +kernel
example : (liftFile env033 p033.fns).1.length = 9 := by decide +kernel

/-- `lift_preserves_scoped`: hypotheses on the same program, and its conclusion evaluated -/
example : scopedFns ["test", "call_int_id", "main", "string_println", "int32_to_string"] p033.fns = true ∧
    p033.fns.all (fun f => presHypArity f.body) = true := by decide +kernel
example : scopedFns (["test", "call_int_id", "main", "string_println", "int32_to_string"] ++
    (liftFile env033 p033.fns).2.newFns.map (·.name)) (liftFile env033 p033.fns).1 = true := by decide +kernel

/-- the apply function of `|x| x * y * z`: parameters `env11`, `x/2`; its body's free variables
    are the environment (once per captured variable) and the parameter; the captured `y/0`, `z/1`
    are re-bound -/
example : (liftFile env033 p033.fns).2.newFns.head?.map (fun f => (f.name, f.params.map (·.1), fvB f.body)) =
    some ("inherent#closure_env_f_0#closure_env_f_0#apply", ["env11", "x/2"], ["env11", "env11", "x/2"]) := by
  decide +kernel

/-- the lifted `test` mentions the new global (the apply function) where the closure was called -/
example : ((liftFile env033 p033.fns).1.head?.map (fun f => fvB f.body)) =
    some ["string_println", "int32_to_string", "inherent#closure_env_f_0#closure_env_f_0#apply", "string_println",
      "int32_to_string", "inherent#closure_env_f_0#closure_env_f_0#apply"] := by decide +kernel

/-- the checker is not trivially true: without the rebinding `let`s the same body is rejected -/
example : closedIn G033 ["env11", "x/2"]
    (.bin .mul (.int 32 true) (.bin .mul (.int 32 true) (.var "x/2" (.int 32 true)) (.var "y/0" (.int 32 true)))
      (.var "z/1" (.int 32 true))) = false := by decide +kernel

/-- `presHypArity` is needed: a closure with two parameters whose function type has one.  The
    input is closed (`b` is a closure parameter), but `loweredParams` drops `b`, which is then
    neither a parameter of the apply function nor captured. -/
def badArity : List Fn :=
  [{ name := "f", generics := [], params := [], ret := .unit,
     body := .closure (.func [.unit] .unit) [("a", .unit), ("b", .unit)] (.var "b" .unit) }]
example : badArity.all (presHypClosedFn (fun _ => false)) = true := by decide +kernel
example : presHypFns (fun _ => false) badArity = false := by decide +kernel
example : scopeClosedFns (fun _ => false) (liftFile {} badArity).1 (liftFile {} badArity).2.newFns = false := by
  decide +kernel

end NonVacuity

section AllTys
open Goml.Closed

/-! ## type-annotation closedness (`Closed.allTys`) -/

/-- what the pass needs of the annotation predicate: it holds of the types the pass writes without
    reading them from the input (`unit`, literal types, environment structs), and is compatible
    with building and taking apart tuple and function types -/
structure TyOk (p : Ty → Bool) : Prop where
  unit : p .unit = true
  prim : ∀ q, p (primTy q) = true
  struct : ∀ n, p (.struct n) = true
  tupleI : ∀ ts, (∀ t ∈ ts, p t = true) → p (.tuple ts) = true
  tupleE : ∀ ts, p (.tuple ts) = true → ∀ t ∈ ts, p t = true
  funcI : ∀ ps r, (∀ t ∈ ps, p t = true) → p r = true → p (.func ps r) = true
  funcE : ∀ ps r, p (.func ps r) = true → (∀ t ∈ ps, p t = true) ∧ p r = true

theorem noParams_iff (ts : List Ty) : noParams ts = true ↔ ∀ t ∈ ts, noParam t = true := by
  induction ts with
  | nil => simp [noParams]
  | cons t ts ih => simp [noParams, ih]
theorem noApps_iff (ts : List Ty) : noApps ts = true ↔ ∀ t ∈ ts, noApp t = true := by
  induction ts with
  | nil => simp [noApps]
  | cons t ts ih => simp [noApps, ih]
theorem noTVars_iff (ts : List Ty) : noTVars ts = true ↔ ∀ t ∈ ts, noTVar t = true := by
  induction ts with
  | nil => simp [noTVars]
  | cons t ts ih => simp [noTVars, ih]

theorem closedTy_iff (t : Ty) : closedTy t = true ↔ noParam t = true ∧ noApp t = true ∧ noTVar t = true := by
  simp [closedTy, and_assoc]

theorem closedTys_iff (ts : List Ty) :
    (∀ t ∈ ts, closedTy t = true) ↔ noParams ts = true ∧ noApps ts = true ∧ noTVars ts = true := by
  simp only [closedTy_iff, noParams_iff, noApps_iff, noTVars_iff]
  constructor
  · intro h; exact ⟨fun t ht => (h t ht).1, fun t ht => (h t ht).2.1, fun t ht => (h t ht).2.2⟩
  · rintro ⟨a, b, c⟩ t ht; exact ⟨a t ht, b t ht, c t ht⟩

/-- the C03 predicate (no type parameter, no type application, no inference variable) qualifies -/
theorem tyOk_closedTy : TyOk closedTy where
  unit := rfl
  prim := fun q => by cases q <;> rfl
  struct := fun _ => rfl
  tupleI := fun ts h => by
    have := (closedTys_iff ts).mp h
    simp [closedTy, noParam, noApp, noTVar, this]
  tupleE := fun ts h => by
    apply (closedTys_iff ts).mpr
    simpa [closedTy, noParam, noApp, noTVar, and_assoc] using h
  funcI := fun ps r h hr => by
    have := (closedTys_iff ps).mp h
    have hr' := (closedTy_iff r).mp hr
    simp [closedTy, noParam, noApp, noTVar, this, hr']
  funcE := fun ps r h => by
    have h' : (noParams ps = true ∧ noParam r = true) ∧ (noApps ps = true ∧ noApp r = true) ∧
        (noTVars ps = true ∧ noTVar r = true) := by
      simpa [closedTy, noParam, noApp, noTVar, and_assoc] using h
    exact ⟨(closedTys_iff ps).mpr ⟨h'.1.1, h'.2.1.1, h'.2.2.1⟩, (closedTy_iff r).mpr ⟨h'.1.2, h'.2.1.2, h'.2.2.2⟩⟩

variable {p : Ty → Bool}

theorem allParamTys_iff (ps : List (String × Ty)) : allParamTys p ps = true ↔ ∀ q ∈ ps, p q.2 = true := by
  induction ps with
  | nil => simp [allParamTys]
  | cons q ps ih =>
    cases q with
    | mk a b => simp [allParamTys, ih]

/-! ### scope -/

/-- every entry of every layer carries an acceptable type -/
def ScOk (p : Ty → Bool) (sc : Scope) : Prop := ∀ l ∈ sc.layers, ∀ q ∈ l, p q.2.ty = true

theorem ScOk_get {sc : Scope} {x : String} {entry : ScopeEntry} (hs : ScOk p sc) (hg : sc.get x = some entry) :
    p entry.ty = true := by
  unfold Scope.get at hg
  rcases List.exists_of_findSome?_eq_some hg with ⟨l, hl, hlg⟩
  unfold layerGet at hlg
  cases hf : l.find? (·.1 == x) with
  | none => rw [hf] at hlg; cases hlg
  | some q =>
    rw [hf] at hlg
    have : q.2 = entry := by simpa using hlg
    rw [← this]
    exact hs l hl q (List.mem_of_find?_eq_some hf)

theorem mem_layerInsert (l : Layer) (k : String) (e : ScopeEntry) (q : String × ScopeEntry)
    (h : q ∈ layerInsert l k e) : q ∈ l ∨ q = (k, e) := by
  unfold layerInsert at h
  split at h
  · rcases List.mem_map.mp h with ⟨r, hr, he⟩
    split at he
    · exact Or.inr he.symm
    · exact Or.inl (he ▸ hr)
  · rcases List.mem_append.mp h with h | h
    · exact Or.inl h
    · exact Or.inr (by simpa using h)

theorem ScOk_insert {sc : Scope} (hs : ScOk p sc) (k : String) (e : ScopeEntry) (he : p e.ty = true) :
    ScOk p (sc.insert k e) := by
  cases sc with
  | mk layers =>
    cases layers with
    | nil => exact hs
    | cons l rest =>
      intro l' hl' q hq
      change l' ∈ layerInsert l k e :: rest at hl'
      rcases List.mem_cons.mp hl' with hl' | hl'
      · subst hl'
        rcases mem_layerInsert l k e q hq with hq | hq
        · exact hs l (List.mem_cons_self ..) q hq
        · rw [hq]; exact he
      · exact hs l' (List.mem_cons_of_mem _ hl') q hq

theorem ScOk_pushLayer {sc : Scope} (hs : ScOk p sc) : ScOk p sc.pushLayer := by
  intro l hl q hq
  change l ∈ [] :: sc.layers at hl
  rcases List.mem_cons.mp hl with hl | hl
  · subst hl; cases hq
  · exact hs l hl q hq

theorem ScOk_new : ScOk p Scope.new := by
  intro l hl q hq
  change l ∈ [[]] at hl
  rw [List.mem_singleton.mp hl] at hq; cases hq

theorem ScOk_foldl_insert (F : String × Ty → Option String) : ∀ (ps : List (String × Ty)) (sc : Scope),
    ScOk p sc → (∀ q ∈ ps, p q.2 = true) →
    ScOk p (ps.foldl (fun s q => s.insert q.1 { ty := q.2, closureStruct := F q }) sc)
  | [], sc, hs, _ => hs
  | q :: ps, sc, hs, hq => by
    simp only [List.foldl_cons]
    exact ScOk_foldl_insert F ps _ (ScOk_insert hs _ _ (hq q (List.mem_cons_self ..)))
      (fun r hr => hq r (List.mem_cons_of_mem _ hr))

/-! ### state -/

/-- every type the pass state holds is acceptable: generated functions, function signatures,
    struct fields (they are rewritten to environment structs), enum fields -/
def TInv (p : Ty → Bool) (st : State) : Prop :=
  (∀ f ∈ st.newFns, fnAllTys p f = true) ∧
  (∀ q ∈ st.liftedFuncs, p q.2 = true) ∧ (∀ q ∈ st.monoFuncs, p q.2 = true) ∧
  (∀ d ∈ st.liftedStructs, ∀ q ∈ d.fields, p q.2 = true) ∧ (∀ d ∈ st.structs, ∀ q ∈ d.fields, p q.2 = true) ∧
  (∀ d ∈ st.enums, ∀ v ∈ d.variants, ∀ t ∈ v.2, p t = true)

theorem getFunc_ok {st : State} {x : String} {t : Ty} (h : TInv p st) (hg : st.getFunc x = some t) : p t = true := by
  unfold State.getFunc at hg
  cases h1 : assocGet st.liftedFuncs x with
  | some t' =>
    rw [h1] at hg
    rcases mem_of_assocGet _ _ _ h1 with ⟨q, hq, he⟩
    have : t' = t := by simpa using hg
    rw [← this, ← he]; exact h.2.1 q hq
  | none =>
    rw [h1] at hg
    rcases mem_of_assocGet _ _ _ hg with ⟨q, hq, he⟩
    rw [← he]; exact h.2.2.1 q hq

theorem structFieldTy_ok {st : State} {n : String} {i : Nat} {t : Ty} (h : TInv p st)
    (hg : st.structFieldTy n i = some t) : p t = true := by
  unfold State.structFieldTy at hg
  cases hs : st.getStruct n with
  | none => rw [hs] at hg; cases hg
  | some d =>
    rw [hs] at hg
    have hd : ∀ q ∈ d.fields, p q.2 = true := by
      unfold State.getStruct at hs
      cases h1 : st.liftedStructs.find? (·.name == n) with
      | some d' =>
        rw [h1] at hs
        have : d' = d := by simpa using hs
        rw [← this]; exact h.2.2.2.1 d' (List.mem_of_find?_eq_some h1)
      | none =>
        rw [h1] at hs
        exact h.2.2.2.2.1 d (List.mem_of_find?_eq_some hs)
    dsimp only at hg
    cases hf : d.fields[i]? with
    | none => rw [hf] at hg; cases hg
    | some q =>
      rw [hf] at hg
      cases q with
      | mk a b =>
        have : b = t := by simpa using hg
        rw [← this]; exact hd (a, b) (List.mem_of_getElem? hf)

theorem enumFieldTy_ok {st : State} {n v : String} {i : Nat} {t : Ty} (h : TInv p st)
    (hg : st.enumFieldTy n v i = some t) : p t = true := by
  unfold State.enumFieldTy at hg
  cases h1 : st.enums.find? (·.name == n) with
  | none => rw [h1] at hg; cases hg
  | some d =>
    rw [h1] at hg
    dsimp only at hg
    cases h2 : d.variants.find? (·.1 == v) with
    | none => rw [h2] at hg; cases hg
    | some q =>
      rw [h2] at hg
      cases q with
      | mk a b =>
        exact h.2.2.2.2.2 d (List.mem_of_find?_eq_some h1) (a, b) (List.mem_of_find?_eq_some h2) t
          (List.mem_of_getElem? hg)

theorem getD_ok {o : Option Ty} {d : Ty} (ho : ∀ t, o = some t → p t = true) (hd : p d = true) :
    p (o.getD d) = true := by
  cases o with
  | none => exact hd
  | some t => exact ho t rfl

theorem setField_ok (hp : TyOk p) (d : StructDef) (i : Nat) (sn : String) (hd : ∀ q ∈ d.fields, p q.2 = true) :
    ∀ q ∈ (setField d i (.struct sn)).fields, p q.2 = true := by
  unfold setField
  split
  · intro q hq
    rcases List.mem_or_eq_of_mem_set hq with hq | hq
    · exact hd q hq
    · rw [hq]; exact hp.struct sn
  · exact hd

theorem updateFields_ok (hp : TyOk p) : ∀ (cfs : List (Option String)) (d : StructDef) (i : Nat),
    (∀ q ∈ d.fields, p q.2 = true) → ∀ q ∈ (updateFields d i cfs).fields, p q.2 = true
  | [], d, i, hd => by simpa [updateFields] using hd
  | none :: rest, d, i, hd => by
    simp only [updateFields]; exact updateFields_ok hp rest d (i + 1) hd
  | some sn :: rest, d, i, hd => by
    simp only [updateFields]; exact updateFields_ok hp rest _ (i + 1) (setField_ok hp d i sn hd)

theorem updateFirst_ok (hp : TyOk p) (n : String) (cfs : List (Option String)) : ∀ (ds : List StructDef),
    (∀ d ∈ ds, ∀ q ∈ d.fields, p q.2 = true) → ∀ d ∈ updateFirst n cfs ds, ∀ q ∈ d.fields, p q.2 = true
  | [], _ => by simp [updateFirst]
  | d :: ds, h => by
    simp only [updateFirst]
    split
    · intro d' hd'
      rcases List.mem_cons.mp hd' with hd' | hd'
      · rw [hd']; exact updateFields_ok hp cfs d 0 (h d (List.mem_cons_self ..))
      · exact h d' (List.mem_cons_of_mem _ hd')
    · intro d' hd'
      rcases List.mem_cons.mp hd' with hd' | hd'
      · rw [hd']; exact h d (List.mem_cons_self ..)
      · exact updateFirst_ok hp n cfs ds (fun e he => h e (List.mem_cons_of_mem _ he)) d' hd'

theorem TInv_updateStruct (hp : TyOk p) (st : State) (n : String) (cfs : List (Option String)) (h : TInv p st) :
    TInv p (st.updateStruct n cfs) := by
  unfold State.updateStruct
  split
  · refine ⟨h.1, h.2.1, h.2.2.1, ?_, h.2.2.2.2.1, h.2.2.2.2.2⟩
    intro d hd
    rcases List.mem_map.mp hd with ⟨d0, hd0, he⟩
    split at he
    · rw [← he]; exact updateFields_ok hp cfs d0 0 (h.2.2.2.1 d0 hd0)
    · rw [← he]; exact h.2.2.2.1 d0 hd0
  · exact ⟨h.1, h.2.1, h.2.2.1, h.2.2.2.1, updateFirst_ok hp n cfs _ h.2.2.2.2.1, h.2.2.2.2.2⟩

/-! ### what `finishClosure` builds -/

theorem finishClosure_ty (st : State) (sc : Scope) (params : List (String × Ty)) (ty : Ty)
    (hint : Option String) (body : Expr) :
    (finishClosure st sc params ty hint body).2.1 = .struct (structNameFor hint st.nextId) := rfl

theorem finishClosure_liftedFuncs (st : State) (sc : Scope) (params : List (String × Ty)) (ty : Ty)
    (hint : Option String) (body : Expr) :
    (finishClosure st sc params ty hint body).2.2.liftedFuncs =
      assocInsert st.liftedFuncs (applyFnName (structNameFor hint st.nextId))
        (.func (((Consts.envParamPrefix ++ toString st.gensym, Ty.struct (structNameFor hint st.nextId)) ::
          loweredParams params (funcParts ty).1).map (·.2)) (funcParts ty).2) := rfl

theorem finishClosure_liftedStructs (st : State) (sc : Scope) (params : List (String × Ty)) (ty : Ty)
    (hint : Option String) (body : Expr) :
    (finishClosure st sc params ty hint body).2.2.liftedStructs =
      (if st.liftedStructs.any (·.name == structNameFor hint st.nextId) then
         st.liftedStructs.map (fun d => if d.name == structNameFor hint st.nextId then
           ⟨structNameFor hint st.nextId, [], fieldsOf 0 (collectCaptured sc ((loweredParams params (funcParts ty).1).map (·.1)) [] body)⟩ else d)
       else st.liftedStructs ++ [⟨structNameFor hint st.nextId, [],
         fieldsOf 0 (collectCaptured sc ((loweredParams params (funcParts ty).1).map (·.1)) [] body)⟩]) := rfl

theorem finishClosure_rest (st : State) (sc : Scope) (params : List (String × Ty)) (ty : Ty)
    (hint : Option String) (body : Expr) :
    (finishClosure st sc params ty hint body).2.2.monoFuncs = st.monoFuncs ∧
    (finishClosure st sc params ty hint body).2.2.structs = st.structs ∧
    (finishClosure st sc params ty hint body).2.2.enums = st.enums := ⟨rfl, rfl, rfl⟩

theorem funcParts_ok (hp : TyOk p) (ty : Ty) (h : p ty = true) :
    (∀ t ∈ (funcParts ty).1, p t = true) ∧ p (funcParts ty).2 = true := by
  cases ty with
  | func ps r => exact hp.funcE ps r h
  | _ => exact ⟨fun t ht => (by cases ht), h⟩

theorem lowered_ok : ∀ (ps : List (String × Ty)) (ts : List Ty), (∀ t ∈ ts, p t = true) →
    ∀ q ∈ loweredParams ps ts, p q.2 = true
  | [], ts, _ => by cases ts <;> simp [loweredParams]
  | (x, t) :: ps, [], _ => by simp [loweredParams]
  | (x, t) :: ps, t' :: ts, h => by
    intro q hq
    simp only [loweredParams, List.mem_cons] at hq
    rcases hq with hq | hq
    · rw [hq]; exact h t' (List.mem_cons_self ..)
    · exact lowered_ok ps ts (fun u hu => h u (List.mem_cons_of_mem _ hu)) q hq

theorem captured_ok {sc : Scope} (hs : ScOk p sc) (bound : List String) (body : Expr) :
    ∀ q ∈ collectCaptured sc bound [] body, p q.2 = true := by
  intro q hq
  rw [collect_eq] at hq
  rcases foldl_captureStep_types sc _ [] q hq with h | ⟨entry, hg, he⟩
  · cases h
  · rw [he]; exact ScOk_get hs hg

theorem allTysList_vars (caps : List (String × Ty)) (h : ∀ q ∈ caps, p q.2 = true) :
    allTysList p (caps.map (fun q => Expr.var q.1 q.2)) = true := by
  induction caps with
  | nil => rfl
  | cons q qs ih =>
    simp only [List.map_cons, allTysList, allTys, Bool.and_eq_true]
    exact ⟨h q (List.mem_cons_self ..), ih (fun r hr => h r (List.mem_cons_of_mem _ hr))⟩

theorem allTys_rebind (sn ep : String) (ety : Ty) (body : Expr) (hety : p ety = true) (hb : allTys p body = true) :
    ∀ (caps : List (String × Ty)) (i : Nat), (∀ q ∈ caps, p q.2 = true) →
      allTys p (rebind sn ep ety body i caps) = true
  | [], i, _ => by simpa [rebind] using hb
  | (c, t) :: rest, i, h => by
    simp only [rebind, allTys, Bool.and_eq_true]
    exact ⟨⟨h (c, t) (List.mem_cons_self ..), hety⟩,
      allTys_rebind sn ep ety body hety hb rest (i + 1) (fun r hr => h r (List.mem_cons_of_mem _ hr))⟩

theorem fieldsOf_ok : ∀ (caps : List (String × Ty)) (i : Nat), (∀ q ∈ caps, p q.2 = true) →
    ∀ q ∈ fieldsOf i caps, p q.2 = true
  | [], i, _ => by simp [fieldsOf]
  | (c, t) :: rest, i, h => by
    intro q hq
    simp only [fieldsOf, List.mem_cons] at hq
    rcases hq with hq | hq
    · rw [hq]; exact h (c, t) (List.mem_cons_self ..)
    · exact fieldsOf_ok rest (i + 1) (fun r hr => h r (List.mem_cons_of_mem _ hr)) q hq

theorem finishClosure_tys (hp : TyOk p) (st : State) (sc : Scope) (params : List (String × Ty)) (ty : Ty)
    (hint : Option String) (body : Expr) (hst : TInv p st) (hs : ScOk p sc) (hty : p ty = true)
    (hb : allTys p body = true) :
    allTys p (finishClosure st sc params ty hint body).1 = true ∧
      p (finishClosure st sc params ty hint body).2.1 = true ∧
      TInv p (finishClosure st sc params ty hint body).2.2 := by
  have hcap := captured_ok hs ((loweredParams params (funcParts ty).1).map (·.1)) body
  have hfp := funcParts_ok hp ty hty
  have hlow := lowered_ok params _ hfp.1
  refine ⟨?_, ?_, ?_, ?_, ?_, ?_, ?_, ?_⟩
  · rw [finishClosure_fst]
    simp only [allTys, Bool.and_eq_true]
    exact ⟨hp.struct _, allTysList_vars _ hcap⟩
  · rw [finishClosure_ty]; exact hp.struct _
  · intro f hf
    rw [finishClosure_newFns] at hf
    rcases List.mem_append.mp hf with hf | hf
    · exact hst.1 f hf
    · rw [List.mem_singleton.mp hf]
      simp only [fnAllTys, Bool.and_eq_true]
      refine ⟨⟨?_, hfp.2⟩, allTys_rebind _ _ _ _ (hp.struct _) hb _ 0 hcap⟩
      rw [allParamTys_iff]
      intro q hq
      rcases List.mem_cons.mp hq with hq | hq
      · rw [hq]; exact hp.struct _
      · exact hlow q hq
  · intro q hq
    rw [finishClosure_liftedFuncs] at hq
    rcases mem_assocInsert _ _ _ _ hq with hq | hq
    · exact hst.2.1 q hq
    · rw [hq]
      apply hp.funcI _ _ _ hfp.2
      intro t ht
      rcases List.mem_map.mp ht with ⟨q', hq', he⟩
      rw [← he]
      rcases List.mem_cons.mp hq' with hq' | hq'
      · rw [hq']; exact hp.struct _
      · exact hlow q' hq'
  · rw [(finishClosure_rest st sc params ty hint body).1]; exact hst.2.2.1
  · intro d hd
    rw [finishClosure_liftedStructs] at hd
    split at hd
    · rcases List.mem_map.mp hd with ⟨d0, hd0, he⟩
      split at he
      · rw [← he]; exact fieldsOf_ok _ 0 hcap
      · rw [← he]; exact hst.2.2.2.1 d0 hd0
    · rcases List.mem_append.mp hd with hd | hd
      · exact hst.2.2.2.1 d hd
      · rw [List.mem_singleton.mp hd]; exact fieldsOf_ok _ 0 hcap
  · rw [(finishClosure_rest st sc params ty hint body).2.1]; exact hst.2.2.2.2.1
  · rw [(finishClosure_rest st sc params ty hint body).2.2]; exact hst.2.2.2.2.2

theorem monoTy_ok (hp : TyOk p) : ∀ (e : Expr), allTys p e = true → p (monoTy e) = true
  | .var _ _, h => by simpa [allTys, monoTy] using h
  | .prim q, _ => hp.prim q
  | .tag _ _, h => by simpa [allTys, monoTy] using h
  | .constr _ _ _, h => by simp only [allTys, Bool.and_eq_true] at h; exact h.1
  | .tuple _ _, h => by simp only [allTys, Bool.and_eq_true] at h; exact h.1
  | .array _ _, h => by simp only [allTys, Bool.and_eq_true] at h; exact h.1
  | .closure _ _ _, h => by simp only [allTys, Bool.and_eq_true] at h; exact h.1.1
  | .letE _ _ b, h => by
    simp only [allTys, Bool.and_eq_true] at h; simp only [monoTy]; exact monoTy_ok hp b h.2
  | .matchE _ _ _ none, h => by simp only [allTys, Bool.and_eq_true] at h; exact h.1.1
  | .matchE _ _ _ (some _), h => by simp only [allTys, Bool.and_eq_true] at h; exact h.1.1.1
  | .ite _ t _, h => by
    simp only [allTys, Bool.and_eq_true] at h; simp only [monoTy]; exact monoTy_ok hp t h.1.2
  | .while _ _, _ => hp.unit
  | .go _, _ => hp.unit
  | .cget _ _ _ _, h => by simp only [allTys, Bool.and_eq_true] at h; exact h.1
  | .un _ _ _, h => by simp only [allTys, Bool.and_eq_true] at h; exact h.1
  | .bin _ _ _ _, h => by simp only [allTys, Bool.and_eq_true] at h; exact h.1.1
  | .call _ _ _, h => by simp only [allTys, Bool.and_eq_true] at h; exact h.1.1
  | .toDyn _ _ _ _, h => by simp only [allTys, Bool.and_eq_true] at h; exact h.1.2
  | .dynCall _ _ _ _ _, h => by simp only [allTys, Bool.and_eq_true] at h; exact h.1.1
  | .traitCall _ _ _ _ _, h => by simp only [allTys, Bool.and_eq_true] at h; exact h.1.1
  | .proj _ _ _, h => by simp only [allTys, Bool.and_eq_true] at h; exact h.1

/-! ### the call node -/

/-- the part of the `ECall` arm of `transform_expr` after callee and arguments are transformed -/
def callTail (st : State) (sc : Scope) (ty : Ty) (f' : Expr) (fty : Ty) (args' : List Expr) : Expr × Ty × State :=
  let direct : Expr × Ty × State :=
    let cty := match fty with
      | .func _ r => if tyContainsClosure st.closureTypes r then r else ty
      | _ => ty
    (.call cty f' args', cty, st)
  match f' with
  | .var name _ =>
    match sc.get name with
    | some entry =>
      match (match entry.closureStruct with
             | some sn => some sn
             | none => st.closureStructForTy entry.ty) with
      | some sn =>
        match st.applyFnForStruct sn with
        | some applyFn =>
          (.call ty (.var applyFn entry.ty) (.var name (.struct sn) :: args'), ty, st)
        | none => direct
      | none => direct
    | none => direct
  | _ => direct

theorem transformExpr_call_eq (st : State) (sc : Scope) (ty : Ty) (f : Expr) (args : List Expr) :
    transformExpr st sc (.call ty f args) =
      callTail (transformList (transformExpr st sc f).2.2 sc args).2.2 sc ty (transformExpr st sc f).1
        (transformExpr st sc f).2.1 (transformList (transformExpr st sc f).2.2 sc args).1 := by
  rw [transformExpr]; rfl

theorem call_ok {cty : Ty} {f' : Expr} {args' : List Expr} (h1 : p cty = true) (h2 : allTys p f' = true)
    (h3 : allTysList p args' = true) : allTys p (.call cty f' args') = true := by
  simp only [allTys, Bool.and_eq_true]; exact ⟨⟨h1, h2⟩, h3⟩

theorem callTail_tys (hp : TyOk p) (st : State) (sc : Scope) (ty : Ty) (f' : Expr) (fty : Ty) (args' : List Expr)
    (hst : TInv p st) (hs : ScOk p sc) (hty : p ty = true) (hf : allTys p f' = true) (hfty : p fty = true)
    (ha : allTysList p args' = true) :
    allTys p (callTail st sc ty f' fty args').1 = true ∧ p (callTail st sc ty f' fty args').2.1 = true ∧
      TInv p (callTail st sc ty f' fty args').2.2 := by
  unfold callTail
  dsimp only
  repeat' split
  all_goals first
    | exact ⟨call_ok hty hf ha, hty, hst⟩
    | exact ⟨call_ok (hp.funcE _ _ hfty).2 hf ha, (hp.funcE _ _ hfty).2, hst⟩
    | exact ⟨call_ok hty (ScOk_get hs (by assumption))
        (by simp only [allTysList, allTys, Bool.and_eq_true]; exact ⟨hp.struct _, ha⟩), hty, hst⟩

theorem projTy_ok (hp : TyOk p) (ety ty : Ty) (idx : Nat) : p ety = true → p ty = true →
    p (match ety with | .tuple ts => (ts[idx]?).getD ty | _ => ty) = true := by
  intro he hty
  split
  · exact getD_ok (fun t ht => hp.tupleE _ he t (List.mem_of_getElem? ht)) hty
  · exact hty

/-! ### the induction -/

def TStep (p : Ty → Bool) (e : Expr) : Prop :=
  ∀ (st : State) (sc : Scope), TInv p st → ScOk p sc →
    allTys p (transformExpr st sc e).1 = true ∧ p (transformExpr st sc e).2.1 = true ∧
      TInv p (transformExpr st sc e).2.2

theorem let_tstep {body : Expr} (ihb : TStep p body) (x : String) (v' : Expr) (vty : Ty) (cs : Option String)
    (st2 : State) (sc : Scope) (hv' : allTys p v' = true) (hvty : p vty = true) (hst2 : TInv p st2) (hs : ScOk p sc) :
    allTys p (.letE x v' (transformExpr st2 (sc.pushLayer.insert x { ty := vty, closureStruct := cs }) body).1) = true ∧
      p (transformExpr st2 (sc.pushLayer.insert x { ty := vty, closureStruct := cs }) body).2.1 = true ∧
      TInv p (transformExpr st2 (sc.pushLayer.insert x { ty := vty, closureStruct := cs }) body).2.2 := by
  have h := ihb st2 (sc.pushLayer.insert x { ty := vty, closureStruct := cs }) hst2
    (ScOk_insert (ScOk_pushLayer hs) _ _ hvty)
  refine ⟨?_, h.2.1, h.2.2⟩
  simp only [allTys, Bool.and_eq_true]
  exact ⟨hv', h.1⟩

theorem closure_tstep (hp : TyOk p) {cbody : Expr} (ihb : TStep p cbody)
    (st stIn : State) (sc : Scope) (params : List (String × Ty)) (ty : Ty) (hint : Option String)
    (ctx : List String) (hty : p ty = true) (hstIn : TInv p stIn) (hs : ScOk p sc) :
    allTys p (finishClosure { (transformExpr stIn (closureScope st sc params ty) cbody).2.2 with ctx := ctx }
        sc params ty hint (transformExpr stIn (closureScope st sc params ty) cbody).1).1 = true ∧
    p (finishClosure { (transformExpr stIn (closureScope st sc params ty) cbody).2.2 with ctx := ctx }
        sc params ty hint (transformExpr stIn (closureScope st sc params ty) cbody).1).2.1 = true ∧
    TInv p (finishClosure { (transformExpr stIn (closureScope st sc params ty) cbody).2.2 with ctx := ctx }
        sc params ty hint (transformExpr stIn (closureScope st sc params ty) cbody).1).2.2 := by
  have hsc' : ScOk p (closureScope st sc params ty) := by
    unfold closureScope
    exact ScOk_foldl_insert (fun q => st.closureStructForTy q.2) _ _ (ScOk_pushLayer hs)
      (lowered_ok params _ (funcParts_ok hp ty hty).1)
  have h1 := ihb stIn (closureScope st sc params ty) hstIn hsc'
  exact finishClosure_tys hp _ sc params ty hint _ h1.2.2 hs hty h1.1

mutual
theorem transformExpr_tys (hp : TyOk p) : ∀ (e : Expr), allTys p e = true → TStep p e
  | .var x ty, ha, st, sc, h, hs => by
    rw [transformExpr]
    repeat' split
    all_goals first
      | exact ⟨hp.struct _, hp.struct _, h⟩
      | exact ⟨ScOk_get hs (by assumption), ScOk_get hs (by assumption), h⟩
      | exact ⟨getFunc_ok h (by assumption), getFunc_ok h (by assumption), h⟩
      | exact ⟨ha, ha, h⟩
  | .prim q, _, st, sc, h, hs => by rw [transformExpr]; exact ⟨rfl, hp.prim q, h⟩
  | .tag i ty, ha, st, sc, h, hs => by rw [transformExpr]; exact ⟨ha, ha, h⟩
  | .constr c ty args, ha, st, sc, h, hs => by
    have ha' := and2 (show (p ty && allTysList p args) = true from ha)
    have h1 := transformList_tys hp args ha'.2 st sc h hs
    rw [transformExpr]
    refine ⟨band ha'.1 h1.1, ha'.1, ?_⟩
    cases c with
    | struct n => exact TInv_updateStruct hp _ _ _ h1.2.2
    | «enum» a b i => exact h1.2.2
  | .tuple ty items, ha, st, sc, h, hs => by
    have ha' := and2 (show (p ty && allTysList p items) = true from ha)
    have h1 := transformList_tys hp items ha'.2 st sc h hs
    have ht := hp.tupleI _ h1.2.1
    rw [transformExpr]
    exact ⟨band ht h1.1, ht, h1.2.2⟩
  | .array ty items, ha, st, sc, h, hs => by
    have ha' := and2 (show (p ty && allTysList p items) = true from ha)
    have h1 := transformList_tys hp items ha'.2 st sc h hs
    rw [transformExpr]
    exact ⟨band ha'.1 h1.1, ha'.1, h1.2.2⟩
  | .closure ty params body, ha, st, sc, h, hs => by
    have ha' := and3 (show (p ty && allParamTys p params && allTys p body) = true from ha)
    rw [transformExpr]
    exact closure_tstep hp (transformExpr_tys hp body ha'.2.2) st _ sc params ty _ _ ha'.1
      (by cases closureHint st none <;> exact h) hs
  | .letE x v body, ha, st, sc, h, hs => by
    have ha' := and2 (show (allTys p v && allTys p body) = true from ha)
    match v, ha' with
    | .closure cty params cbody, ha' =>
      have ha'' := and3 (show (p cty && allParamTys p params && allTys p cbody) = true from ha'.1)
      rw [transformExpr]
      have h2 := closure_tstep hp (transformExpr_tys hp cbody ha''.2.2) st
        (match closureHint st (some x) with | some hh => { st with ctx := hh :: st.ctx } | none => st)
        sc params cty (closureHint st (some x)) st.ctx ha''.1
        (by cases closureHint st (some x) <;> exact h) hs
      exact let_tstep (transformExpr_tys hp body ha'.2) x _ _ _ _ sc h2.1 h2.2.1 h2.2.2 hs
    | .var _ _, ha' | .prim _, ha' | .tag _ _, ha' | .constr _ _ _, ha' | .tuple _ _, ha'
    | .array _ _, ha' | .letE _ _ _, ha' | .matchE _ _ _ _, ha'
    | .ite _ _ _, ha' | .while _ _, ha' | .go _, ha' | .cget _ _ _ _, ha' | .un _ _ _, ha'
    | .bin _ _ _ _, ha' | .call _ _ _, ha' | .toDyn _ _ _ _, ha'
    | .dynCall _ _ _ _ _, ha' | .traitCall _ _ _ _ _, ha' | .proj _ _ _, ha' =>
      all_goals
        rw [transformExpr_let_eq _ _ _ _ _ (by intro _ _ _ hh; cases hh)]
        have h1 := transformExpr_tys hp _ ha'.1 st sc h hs
        exact let_tstep (transformExpr_tys hp body ha'.2) x _ _ _ _ sc h1.1 h1.2.1 h1.2.2 hs
  | .matchE ty s arms d, ha, st, sc, h, hs => by
    cases d with
    | none =>
      have ha' := and3 (show (p ty && allTys p s && allTysArms p arms) = true from ha)
      have h1 := transformExpr_tys hp s ha'.2.1 st sc h hs
      have h2 := transformArms_tys hp arms ha'.2.2 _ sc h1.2.2 hs
      rw [transformExpr]
      exact ⟨band (band ha'.1 h1.1) h2.1, ha'.1, h2.2⟩
    | some d =>
      have ha0 := and2 (show (p ty && allTys p s && allTysArms p arms && allTys p d) = true from ha)
      have ha' := and3 ha0.1
      have h1 := transformExpr_tys hp s ha'.2.1 st sc h hs
      have h2 := transformArms_tys hp arms ha'.2.2 _ sc h1.2.2 hs
      have h3 := transformExpr_tys hp d ha0.2 _ sc h2.2 hs
      rw [transformExpr]
      exact ⟨band (band (band ha'.1 h1.1) h2.1) h3.1, ha'.1, h3.2.2⟩
  | .ite c t e, ha, st, sc, h, hs => by
    have ha' := and3 (show (allTys p c && allTys p t && allTys p e) = true from ha)
    have h1 := transformExpr_tys hp c ha'.1 st sc h hs
    have h2 := transformExpr_tys hp t ha'.2.1 _ sc h1.2.2 hs
    have h3 := transformExpr_tys hp e ha'.2.2 _ sc h2.2.2 hs
    rw [transformExpr]
    exact ⟨band (band h1.1 h2.1) h3.1, monoTy_ok hp t ha'.2.1, h3.2.2⟩
  | .while c b, ha, st, sc, h, hs => by
    have ha' := and2 (show (allTys p c && allTys p b) = true from ha)
    have h1 := transformExpr_tys hp c ha'.1 st sc h hs
    have h2 := transformExpr_tys hp b ha'.2 _ sc h1.2.2 hs
    rw [transformExpr]
    exact ⟨band h1.1 h2.1, hp.unit, h2.2.2⟩
  | .go e, ha, st, sc, h, hs => by
    have h1 := transformExpr_tys hp e ha st sc h hs
    rw [transformExpr]; exact ⟨h1.1, hp.unit, h1.2.2⟩
  | .cget c i ty e, ha, st, sc, h, hs => by
    have ha' := and2 (show (p ty && allTys p e) = true from ha)
    have h1 := transformExpr_tys hp e ha'.2 st sc h hs
    rw [transformExpr]
    cases c with
    | struct n =>
      have hr := getD_ok (d := ty) (fun t ht => structFieldTy_ok (n := n) (i := i) h1.2.2 ht) ha'.1
      exact ⟨band hr h1.1, hr, h1.2.2⟩
    | «enum» n v k =>
      have hr := getD_ok (d := ty) (fun t ht => enumFieldTy_ok (n := n) (v := v) (i := i) h1.2.2 ht) ha'.1
      exact ⟨band hr h1.1, hr, h1.2.2⟩
  | .un op ty e, ha, st, sc, h, hs => by
    have ha' := and2 (show (p ty && allTys p e) = true from ha)
    have h1 := transformExpr_tys hp e ha'.2 st sc h hs
    rw [transformExpr]; exact ⟨band ha'.1 h1.1, ha'.1, h1.2.2⟩
  | .bin op ty l r, ha, st, sc, h, hs => by
    have ha' := and3 (show (p ty && allTys p l && allTys p r) = true from ha)
    have h1 := transformExpr_tys hp l ha'.2.1 st sc h hs
    have h2 := transformExpr_tys hp r ha'.2.2 _ sc h1.2.2 hs
    rw [transformExpr]
    exact ⟨band (band ha'.1 h1.1) h2.1, ha'.1, h2.2.2⟩
  | .call ty f args, ha, st, sc, h, hs => by
    have ha' := and3 (show (p ty && allTys p f && allTysList p args) = true from ha)
    have h1 := transformExpr_tys hp f ha'.2.1 st sc h hs
    have h2 := transformList_tys hp args ha'.2.2 _ sc h1.2.2 hs
    rw [transformExpr_call_eq]
    exact callTail_tys hp _ sc ty _ _ _ h2.2.2 hs ha'.1 h1.1 h1.2.1 h2.1
  | .toDyn tr forTy ty e, ha, st, sc, h, hs => by
    have ha' := and3 (show (p forTy && p ty && allTys p e) = true from ha)
    have h1 := transformExpr_tys hp e ha'.2.2 st sc h hs
    rw [transformExpr]; exact ⟨band (band ha'.1 ha'.2.1) h1.1, ha'.2.1, h1.2.2⟩
  | .dynCall tr m ty recv args, ha, st, sc, h, hs => by
    have ha' := and3 (show (p ty && allTys p recv && allTysList p args) = true from ha)
    have h1 := transformExpr_tys hp recv ha'.2.1 st sc h hs
    have h2 := transformList_tys hp args ha'.2.2 _ sc h1.2.2 hs
    rw [transformExpr]
    exact ⟨band (band ha'.1 h1.1) h2.1, ha'.1, h2.2.2⟩
  | .traitCall tr m ty recv args, ha, st, sc, h, hs => by
    have ha' := and3 (show (p ty && allTys p recv && allTysList p args) = true from ha)
    have h1 := transformExpr_tys hp recv ha'.2.1 st sc h hs
    have h2 := transformList_tys hp args ha'.2.2 _ sc h1.2.2 hs
    rw [transformExpr]
    exact ⟨band (band ha'.1 h1.1) h2.1, ha'.1, h2.2.2⟩
  | .proj i ty e, ha, st, sc, h, hs => by
    have ha' := and2 (show (p ty && allTys p e) = true from ha)
    have h1 := transformExpr_tys hp e ha'.2 st sc h hs
    have hr := projTy_ok hp (transformExpr st sc e).2.1 ty i h1.2.1 ha'.1
    rw [transformExpr]
    exact ⟨band hr h1.1, hr, h1.2.2⟩
theorem transformList_tys (hp : TyOk p) : ∀ (es : List Expr), allTysList p es = true →
    ∀ (st : State) (sc : Scope), TInv p st → ScOk p sc →
      allTysList p (transformList st sc es).1 = true ∧ (∀ t ∈ (transformList st sc es).2.1, p t = true) ∧
        TInv p (transformList st sc es).2.2
  | [], _, st, sc, h, hs => by rw [transformList]; exact ⟨rfl, fun t ht => (by cases ht), h⟩
  | e :: es, ha, st, sc, h, hs => by
    have ha' := and2 (show (allTys p e && allTysList p es) = true from ha)
    have h1 := transformExpr_tys hp e ha'.1 st sc h hs
    have h2 := transformList_tys hp es ha'.2 _ sc h1.2.2 hs
    rw [transformList]
    refine ⟨band h1.1 h2.1, ?_, h2.2.2⟩
    intro t ht
    change t ∈ (transformExpr st sc e).2.1 :: (transformList (transformExpr st sc e).2.2 sc es).2.1 at ht
    rcases List.mem_cons.mp ht with ht | ht
    · rw [ht]; exact h1.2.1
    · exact h2.2.1 t ht
theorem transformArms_tys (hp : TyOk p) : ∀ (arms : List Arm), allTysArms p arms = true →
    ∀ (st : State) (sc : Scope), TInv p st → ScOk p sc →
      allTysArms p (transformArms st sc arms).1 = true ∧ TInv p (transformArms st sc arms).2
  | [], _, st, sc, h, hs => by rw [transformArms]; exact ⟨rfl, h⟩
  | .mk lhs body :: rest, ha, st, sc, h, hs => by
    have ha' := and3 (show (allTys p lhs && allTys p body && allTysArms p rest) = true from ha)
    have h1 := transformExpr_tys hp lhs ha'.1 st sc h hs
    have h2 := transformExpr_tys hp body ha'.2.1 _ sc h1.2.2 hs
    have h3 := transformArms_tys hp rest ha'.2.2 _ sc h2.2.2 hs
    rw [transformArms]
    exact ⟨band (band h1.1 h2.1) h3.1, h3.2⟩
end

/-! ### functions and the file -/

/-- scope, entry state and result of the body transformation of one top-level function -/
def fnScope (st : State) (f : Fn) : Scope :=
  f.params.foldl (fun s q => s.insert q.1 { ty := q.2, closureStruct := st.closureStructForTy q.2 }) Scope.new.pushLayer
def fnState (st : State) (f : Fn) : State :=
  match sanitizeEnvName f.name with | some c => { st with ctx := c :: st.ctx } | none => st
def fnRet (st : State) (f : Fn) : Ty :=
  if !tyBeq (transformExpr (fnState st f) (fnScope st f) f.body).2.1 f.ret &&
      tyContainsClosure (transformExpr (fnState st f) (fnScope st f) f.body).2.2.closureTypes
        (transformExpr (fnState st f) (fnScope st f) f.body).2.1
  then (transformExpr (fnState st f) (fnScope st f) f.body).2.1 else f.ret

theorem liftFn_eq (st : State) (f : Fn) :
    liftFn st f =
      ({ name := f.name, generics := f.generics, params := f.params, ret := fnRet st f,
         body := (transformExpr (fnState st f) (fnScope st f) f.body).1 },
       State.insertFunc { (transformExpr (fnState st f) (fnScope st f) f.body).2.2 with ctx := st.ctx } f.name
         (.func (f.params.map (·.2)) (fnRet st f))) := rfl

theorem liftFn_tys (hp : TyOk p) (st : State) (f : Fn) (h : TInv p st) (hf : fnAllTys p f = true) :
    fnAllTys p (liftFn st f).1 = true ∧ TInv p (liftFn st f).2 := by
  have hf' := and3 (show (allParamTys p f.params && p f.ret && allTys p f.body) = true from hf)
  have hps := (allParamTys_iff f.params).mp hf'.1
  have hsc : ScOk p (fnScope st f) :=
    ScOk_foldl_insert (fun q => st.closureStructForTy q.2) _ _ (ScOk_pushLayer ScOk_new) hps
  have h1 := transformExpr_tys hp f.body hf'.2.2 (fnState st f) (fnScope st f)
    (by unfold fnState; cases sanitizeEnvName f.name <;> exact h) hsc
  have hret : p (fnRet st f) = true := by
    unfold fnRet; split
    · exact h1.2.1
    · exact hf'.2.1
  rw [liftFn_eq]
  refine ⟨?_, h1.2.2.1, ?_, h1.2.2.2.2.1, h1.2.2.2.2.2.1, h1.2.2.2.2.2.2.1, h1.2.2.2.2.2.2.2⟩
  · simp only [fnAllTys, Bool.and_eq_true]
    exact ⟨⟨hf'.1, hret⟩, h1.1⟩
  · intro q hq
    rcases mem_assocInsert _ _ _ _ hq with hq | hq
    · exact h1.2.2.2.1 q hq
    · rw [hq]
      exact hp.funcI _ _ (fun t ht => by
        rcases List.mem_map.mp ht with ⟨q', hq', he⟩
        rw [← he]; exact hps q' hq') hret

theorem liftFns_tys (hp : TyOk p) : ∀ (fs : List Fn) (st : State), TInv p st → (∀ f ∈ fs, fnAllTys p f = true) →
    (∀ g ∈ (liftFns st fs).1, fnAllTys p g = true) ∧ TInv p (liftFns st fs).2
  | [], st, h, _ => by
    rw [liftFns]; exact ⟨fun g hg => (by cases hg), h⟩
  | f :: fs, st, h, hf => by
    have h1 := liftFn_tys hp st f h (hf f (List.mem_cons_self ..))
    have h2 := liftFns_tys hp fs _ h1.2 (fun g hg => hf g (List.mem_cons_of_mem _ hg))
    rw [liftFns]
    refine ⟨?_, h2.2⟩
    intro g hg
    change g ∈ (liftFn st f).1 :: (liftFns (liftFn st f).2 fs).1 at hg
    rcases List.mem_cons.mp hg with hg | hg
    · rw [hg]; exact h1.1
    · exact h2.1 g hg

theorem TInv_init (env : Env) (h : presHypEnvTys p env = true) : TInv p (initState env) := by
  have h' := and3 h
  refine ⟨fun f hf => (by cases hf), fun q hq => (by cases hq), ?_, fun d hd => (by cases hd), ?_, ?_⟩
  · exact fun q hq => List.all_eq_true.mp h'.1 q hq
  · exact fun d hd q hq => List.all_eq_true.mp (List.all_eq_true.mp h'.2.1 d hd) q hq
  · exact fun d hd v hv t ht =>
      List.all_eq_true.mp (List.all_eq_true.mp (List.all_eq_true.mp h'.2.2 d hd) v hv) t ht

/-- **C03 for lambda lifting, type-annotation closedness.**  Let `p` be an annotation predicate
    that holds of `unit`, literal types and struct types and is compatible with tuple and function
    types (`TyOk p`; `closedTy` — no type parameter, type application or inference variable — is
    one, `tyOk_closedTy`).  If `p` holds of every type of the lifting environment and of every
    annotation (parameters, result, body) of every input function, then it holds of every
    annotation of every function `lambda_lift` emits (lifted originals and apply functions), and of
    every field of every struct declaration of the lifted program (the generated `closure_env_*`
    structs and the user structs after their closure-holding fields are rewritten). -/
theorem lift_preserves_allTys (p : Ty → Bool) (hp : TyOk p) (env : Env) (fns : List Fn)
    (henv : presHypEnvTys p env = true) (hf : presHypFnsTys p fns = true) :
    (∀ g ∈ (liftFile env fns).1, fnAllTys p g = true) ∧
    (∀ d ∈ (liftFile env fns).2.liftedStructs ++ (liftFile env fns).2.structs, ∀ q ∈ d.fields, p q.2 = true) := by
  have res := liftFns_tys hp fns (initState env) (TInv_init env henv) (fun f h => List.all_eq_true.mp hf f h)
  have hfile : (liftFile env fns).1 = (liftFns (initState env) fns).1 ++ (liftFns (initState env) fns).2.newFns := rfl
  have hst : (liftFile env fns).2 = (liftFns (initState env) fns).2 := rfl
  refine ⟨?_, ?_⟩
  · intro g hg
    rw [hfile] at hg
    rcases List.mem_append.mp hg with hg | hg
    · exact res.1 g hg
    · exact res.2.1 g hg
  · intro d hd
    rw [hst] at hd
    rcases List.mem_append.mp hd with hd | hd
    · exact res.2.2.2.2.1 d hd
    · exact res.2.2.2.2.2.1 d hd

/-- the instance C03 uses: the lifted file is `closedTy` in every annotation -/
theorem lift_preserves_closedTy (env : Env) (fns : List Fn)
    (henv : presHypEnvTys closedTy env = true) (hf : presHypFnsTys closedTy fns = true) :
    ∀ g ∈ (liftFile env fns).1, fnAllTys closedTy g = true :=
  (lift_preserves_allTys closedTy tyOk_closedTy env fns henv hf).1

namespace NonVacuity
open Examples
example : presHypEnvTys closedTy env033 = true := by decide +kernel
example : presHypFnsTys closedTy p033.fns = true := by decide +kernel
example : (liftFile env033 p033.fns).1.all (fnAllTys closedTy) = true := by decide +kernel
example : presHypEnvTys closedTy env038 = true ∧ presHypFnsTys closedTy p038.fns = true := by decide +kernel
/-- the predicate is not trivially true: a `TParam` annotation is rejected, before and after -/
example : presHypFnsTys closedTy [{ name := "f", generics := [], params := [], ret := .unit,
                                     body := .var "x" (.param "T") }] = false := by decide +kernel
end NonVacuity

end AllTys

/-! ## typing: the closure-free part is left untouched -/

theorem tyBeq_eq : ∀ (a b : Ty), tyBeq a b = true → a = b := by
  intro a
  apply Ty.rec
    (motive_1 := fun a => ∀ b, tyBeq a b = true → a = b)
    (motive_2 := fun as => ∀ bs, tyListBeq as bs = true → as = bs)
  case unit => intro b; cases b <;> simp [tyBeq]
  case bool => intro b; cases b <;> simp [tyBeq]
  case string => intro b; cases b <;> simp [tyBeq]
  case int => intro n s b; cases b <;> simp [tyBeq]
  case float => intro n b; cases b <;> simp [tyBeq]
  case tuple => intro ts ih b; cases b <;> simp [tyBeq]; exact ih _
  case enum => intro n b; cases b <;> simp [tyBeq]
  case struct => intro n b; cases b <;> simp [tyBeq]
  case dyn => intro n b; cases b <;> simp [tyBeq]
  case app => intro t ts ih1 ih2 b; cases b <;> simp [tyBeq]; exact fun h1 h2 => ⟨ih1 _ h1, ih2 _ h2⟩
  case array => intro n e ih b; cases b <;> simp [tyBeq]; exact fun h1 h2 => ⟨h1, ih _ h2⟩
  case vec => intro e ih b; cases b <;> simp [tyBeq]; exact ih _
  case ref => intro e ih b; cases b <;> simp [tyBeq]; exact ih _
  case param => intro n b; cases b <;> simp [tyBeq]
  case func => intro ps r ih1 ih2 b; cases b <;> simp [tyBeq]; exact fun h1 h2 => ⟨ih1 _ h1, ih2 _ h2⟩
  case tvar => intro n b; cases b <;> simp [tyBeq]
  case nil => intro bs; cases bs <;> simp [tyListBeq]
  case cons => intro t ts ih1 ih2 bs; cases bs <;> simp [tyListBeq]; exact fun h1 h2 => ⟨ih1 _ h1, ih2 _ h2⟩

mutual
theorem tyContainsClosure_nil : ∀ (t : Ty), tyContainsClosure [] t = false
  | .unit => rfl
  | .bool => rfl
  | .string => rfl
  | .int _ _ => rfl
  | .float _ => rfl
  | .tuple ts => by simp only [tyContainsClosure]; exact tyListContainsClosure_nil ts
  | .enum _ => rfl
  | .struct _ => by simp [tyContainsClosure]
  | .dyn _ => rfl
  | .app t args => by
    simp only [tyContainsClosure, tyContainsClosure_nil t, tyListContainsClosure_nil args, Bool.or_self]
  | .array _ e => by simp only [tyContainsClosure]; exact tyContainsClosure_nil e
  | .vec _ => rfl
  | .ref _ => rfl
  | .param _ => rfl
  | .func ps r => by
    simp only [tyContainsClosure, tyContainsClosure_nil r, tyListContainsClosure_nil ps, Bool.or_self]
  | .tvar _ => rfl
theorem tyListContainsClosure_nil : ∀ (ts : List Ty), tyListContainsClosure [] ts = false
  | [] => rfl
  | t :: ts => by
    simp only [tyListContainsClosure, tyContainsClosure_nil t, tyListContainsClosure_nil ts, Bool.or_self]
end

theorem closureStructForTy_nil {st : State} (hct : st.closureTypes = []) (t : Ty) :
    st.closureStructForTy t = none := by
  unfold State.closureStructForTy
  cases t <;> simp [hct]

theorem updateFields_none : ∀ (cfs : List (Option String)) (d : StructDef) (i : Nat),
    (∀ c ∈ cfs, c = none) → updateFields d i cfs = d
  | [], d, i, _ => rfl
  | none :: rest, d, i, h => by
    simp only [updateFields]; exact updateFields_none rest d (i + 1) (fun c hc => h c (List.mem_cons_of_mem _ hc))
  | some sn :: rest, d, i, h => by
    have := h (some sn) (List.mem_cons_self ..); cases this

theorem updateFirst_none (n : String) (cfs : List (Option String)) (h : ∀ c ∈ cfs, c = none) :
    ∀ (ds : List StructDef), updateFirst n cfs ds = ds
  | [] => rfl
  | d :: ds => by
    simp only [updateFirst, updateFields_none cfs d 0 h, updateFirst_none n cfs h ds, ite_self]

theorem updateStruct_noop {st : State} (hct : st.closureTypes = []) (n : String) (tys : List Ty) :
    st.updateStruct n (tys.map st.closureStructForTy) = st := by
  have hn : ∀ c ∈ tys.map st.closureStructForTy, c = none := by
    intro c hc
    rcases List.mem_map.mp hc with ⟨t, _, he⟩
    rw [← he]; exact closureStructForTy_nil hct t
  unfold State.updateStruct
  split
  · have : st.liftedStructs.map (fun d => if d.name == n then updateFields d 0 (tys.map st.closureStructForTy) else d)
        = st.liftedStructs := by
      conv => rhs; rw [← List.map_id st.liftedStructs]
      apply List.map_congr_left
      intro d _
      simp only [updateFields_none _ d 0 hn, ite_self, id]
    rw [this]
  · rw [updateFirst_none n _ hn]

theorem callTail_stable {st : State} (hct : st.closureTypes = []) (sc : Scope) (ty : Ty) (f : Expr) (fty : Ty)
    (args : List Expr) (hs : presHypStable st sc f = true) :
    callTail st sc ty f fty args = (.call ty f args, ty, st) := by
  have hd' : ∀ (X : Ty), X = ty → (Expr.call X f args, X, st) = (Expr.call ty f args, ty, st) := by
    intro X h; rw [h]
  unfold callTail
  dsimp only
  split
  · rename_i name vty
    simp only [presHypStable] at hs
    split
    · rename_i entry hg
      rw [hg] at hs
      simp only [Bool.and_eq_true, Option.isNone_iff_eq_none] at hs
      rw [hs.1, closureStructForTy_nil hct]
      exact hd' _ (by cases fty <;> simp [hct, tyContainsClosure_nil])
    · exact hd' _ (by cases fty <;> simp [hct, tyContainsClosure_nil])
  · exact hd' _ (by cases fty <;> simp [hct, tyContainsClosure_nil])

/-- `transform_expr` returns its argument, the argument's own type, and the unchanged state -/
def Stable (e : Expr) : Prop :=
  ∀ (st : State) (sc : Scope), st.closureTypes = [] → presHypStable st sc e = true →
    transformExpr st sc e = (e, monoTy e, st)

theorem tri_eq {α β γ : Type} {a a' : α} {b b' : β} {c : γ} (h1 : a = a') (h2 : b = b') :
    (a, b, c) = (a', b', c) := by rw [h1, h2]

mutual
theorem transformExpr_stable : ∀ (e : Expr), noClosure e = true → Stable e
  | .var x ty, _, st, sc, hct, hs => by
    rw [transformExpr]
    simp only [presHypStable] at hs
    cases hg : sc.get x with
    | some entry =>
      rw [hg] at hs
      simp only [Bool.and_eq_true, Option.isNone_iff_eq_none] at hs
      dsimp only
      rw [hs.1]
      dsimp only
      rw [tyBeq_eq _ _ hs.2]; rfl
    | none =>
      rw [hg] at hs
      dsimp only at hs ⊢
      cases hf : st.getFunc x with
      | some fty =>
        rw [hf] at hs
        dsimp only at hs ⊢
        rw [tyBeq_eq _ _ hs]; rfl
      | none => rfl
  | .prim q, _, st, sc, _, _ => by rw [transformExpr]; rfl
  | .tag i ty, _, st, sc, _, _ => by rw [transformExpr]; rfl
  | .constr c ty args, hnc, st, sc, hct, hs => by
    have h1 := transformList_stable args hnc st sc hct hs
    rw [transformExpr, h1]
    dsimp only
    cases c with
    | struct n => dsimp only; rw [updateStruct_noop hct]; rfl
    | «enum» a b i => rfl
  | .tuple ty items, hnc, st, sc, hct, hs => by
    have hs' := and2 (show (tyBeq (.tuple (monoTys items)) ty && presHypStableList st sc items) = true from hs)
    have h1 := transformList_stable items hnc st sc hct hs'.2
    rw [transformExpr, h1]
    dsimp only
    rw [tyBeq_eq _ _ hs'.1]; rfl
  | .array ty items, hnc, st, sc, hct, hs => by
    have h1 := transformList_stable items hnc st sc hct hs
    rw [transformExpr, h1]
    rfl
  | .closure _ _ _, hnc, _, _, _, _ => by simp [noClosure] at hnc
  | .letE x v body, hnc, st, sc, hct, hs => by
    have hnc' := and2 (show (noClosure v && noClosure body) = true from hnc)
    have hs' := and2 (show (presHypStable st sc v &&
      presHypStable st (sc.pushLayer.insert x { ty := monoTy v, closureStruct := none }) body) = true from hs)
    have hv : ∀ t p c, v = Expr.closure t p c → False := by
      intro t p c h
      have := hnc'.1
      rw [h] at this
      simp [noClosure] at this
    have h1 := transformExpr_stable v hnc'.1 st sc hct hs'.1
    have h2 := transformExpr_stable body hnc'.2 st _ hct hs'.2
    rw [transformExpr_let_eq _ _ _ _ _ hv, h1]
    dsimp only
    rw [closureStructForTy_nil hct, h2]
    rfl
  | .matchE ty s arms d, hnc, st, sc, hct, hs => by
    cases d with
    | none =>
      have hnc' := and3 (show (noClosure s && noClosureArms arms && true) = true from hnc)
      have hs' := and3 (show (presHypStable st sc s && presHypStableArms st sc arms && true) = true from hs)
      have h1 := transformExpr_stable s hnc'.1 st sc hct hs'.1
      have h2 := transformArms_stable arms hnc'.2.1 st sc hct hs'.2.1
      rw [transformExpr, h1]
      dsimp only
      rw [h2]
      rfl
    | some d =>
      have hnc' := and3 (show (noClosure s && noClosureArms arms && noClosure d) = true from hnc)
      have hs' := and3 (show (presHypStable st sc s && presHypStableArms st sc arms && presHypStable st sc d) = true from hs)
      have h1 := transformExpr_stable s hnc'.1 st sc hct hs'.1
      have h2 := transformArms_stable arms hnc'.2.1 st sc hct hs'.2.1
      have h3 := transformExpr_stable d hnc'.2.2 st sc hct hs'.2.2
      rw [transformExpr, h1]
      dsimp only
      rw [h2]
      dsimp only
      rw [h3]
      rfl
  | .ite c t e, hnc, st, sc, hct, hs => by
    have hnc' := and3 (show (noClosure c && noClosure t && noClosure e) = true from hnc)
    have hs' := and3 (show (presHypStable st sc c && presHypStable st sc t && presHypStable st sc e) = true from hs)
    have h1 := transformExpr_stable c hnc'.1 st sc hct hs'.1
    have h2 := transformExpr_stable t hnc'.2.1 st sc hct hs'.2.1
    have h3 := transformExpr_stable e hnc'.2.2 st sc hct hs'.2.2
    rw [transformExpr, h1]
    dsimp only
    rw [h2]
    dsimp only
    rw [h3]
    rfl
  | .while c b, hnc, st, sc, hct, hs => by
    have hnc' := and2 (show (noClosure c && noClosure b) = true from hnc)
    have hs' := and2 (show (presHypStable st sc c && presHypStable st sc b) = true from hs)
    have h1 := transformExpr_stable c hnc'.1 st sc hct hs'.1
    have h2 := transformExpr_stable b hnc'.2 st sc hct hs'.2
    rw [transformExpr, h1]
    dsimp only
    rw [h2]
    rfl
  | .go e, hnc, st, sc, hct, hs => by
    have h1 := transformExpr_stable e hnc st sc hct hs
    rw [transformExpr, h1]; rfl
  | .cget c i ty e, hnc, st, sc, hct, hs => by
    cases c with
    | struct n =>
      have hs' := and2 (show (presHypStable st sc e && tyBeq ((st.structFieldTy n i).getD ty) ty) = true from hs)
      have h1 := transformExpr_stable e hnc st sc hct hs'.1
      have h2 := tyBeq_eq _ _ hs'.2
      rw [transformExpr, h1]
      exact tri_eq (congrArg (fun t => Expr.cget _ i t e) h2) h2
    | «enum» a b k =>
      have hs' := and2 (show (presHypStable st sc e && tyBeq ((st.enumFieldTy a b i).getD ty) ty) = true from hs)
      have h1 := transformExpr_stable e hnc st sc hct hs'.1
      have h2 := tyBeq_eq _ _ hs'.2
      rw [transformExpr, h1]
      exact tri_eq (congrArg (fun t => Expr.cget _ i t e) h2) h2
  | .un op ty e, hnc, st, sc, hct, hs => by
    have h1 := transformExpr_stable e hnc st sc hct hs
    rw [transformExpr, h1]; rfl
  | .bin op ty l r, hnc, st, sc, hct, hs => by
    have hnc' := and2 (show (noClosure l && noClosure r) = true from hnc)
    have hs' := and2 (show (presHypStable st sc l && presHypStable st sc r) = true from hs)
    have h1 := transformExpr_stable l hnc'.1 st sc hct hs'.1
    have h2 := transformExpr_stable r hnc'.2 st sc hct hs'.2
    rw [transformExpr, h1]
    dsimp only
    rw [h2]
    rfl
  | .call ty f args, hnc, st, sc, hct, hs => by
    have hnc' := and2 (show (noClosure f && noClosureList args) = true from hnc)
    have hs' := and2 (show (presHypStable st sc f && presHypStableList st sc args) = true from hs)
    have h1 := transformExpr_stable f hnc'.1 st sc hct hs'.1
    have h2 := transformList_stable args hnc'.2 st sc hct hs'.2
    rw [transformExpr_call_eq, h1]
    dsimp only
    rw [h2]
    exact callTail_stable hct sc ty f _ args hs'.1
  | .toDyn tr forTy ty e, hnc, st, sc, hct, hs => by
    have h1 := transformExpr_stable e hnc st sc hct hs
    rw [transformExpr, h1]; rfl
  | .dynCall tr m ty recv args, hnc, st, sc, hct, hs => by
    have hnc' := and2 (show (noClosure recv && noClosureList args) = true from hnc)
    have hs' := and2 (show (presHypStable st sc recv && presHypStableList st sc args) = true from hs)
    have h1 := transformExpr_stable recv hnc'.1 st sc hct hs'.1
    have h2 := transformList_stable args hnc'.2 st sc hct hs'.2
    rw [transformExpr, h1]
    dsimp only
    rw [h2]
    rfl
  | .traitCall tr m ty recv args, hnc, st, sc, hct, hs => by
    have hnc' := and2 (show (noClosure recv && noClosureList args) = true from hnc)
    have hs' := and2 (show (presHypStable st sc recv && presHypStableList st sc args) = true from hs)
    have h1 := transformExpr_stable recv hnc'.1 st sc hct hs'.1
    have h2 := transformList_stable args hnc'.2 st sc hct hs'.2
    rw [transformExpr, h1]
    dsimp only
    rw [h2]
    rfl
  | .proj i ty e, hnc, st, sc, hct, hs => by
    have hs' := and2 (show (presHypStable st sc e &&
      tyBeq (match (generalizing := false) monoTy e with | .tuple ts => (ts[i]?).getD ty | _ => ty) ty) = true from hs)
    have h1 := transformExpr_stable e hnc st sc hct hs'.1
    have h2 := tyBeq_eq _ _ hs'.2
    rw [transformExpr, h1]
    dsimp only
    exact tri_eq (congrArg (fun t => Expr.proj i t e) h2) h2
theorem transformList_stable : ∀ (es : List Expr), noClosureList es = true → ∀ (st : State) (sc : Scope),
    st.closureTypes = [] → presHypStableList st sc es = true → transformList st sc es = (es, monoTys es, st)
  | [], _, st, sc, _, _ => by rw [transformList]; rfl
  | e :: es, hnc, st, sc, hct, hs => by
    have hnc' := and2 (show (noClosure e && noClosureList es) = true from hnc)
    have hs' := and2 (show (presHypStable st sc e && presHypStableList st sc es) = true from hs)
    have h1 := transformExpr_stable e hnc'.1 st sc hct hs'.1
    have h2 := transformList_stable es hnc'.2 st sc hct hs'.2
    rw [transformList, h1]
    dsimp only
    rw [h2]
    rfl
theorem transformArms_stable : ∀ (arms : List Arm), noClosureArms arms = true → ∀ (st : State) (sc : Scope),
    st.closureTypes = [] → presHypStableArms st sc arms = true → transformArms st sc arms = (arms, st)
  | [], _, st, sc, _, _ => by rw [transformArms]
  | .mk lhs body :: rest, hnc, st, sc, hct, hs => by
    have hnc' := and3 (show (noClosure lhs && noClosure body && noClosureArms rest) = true from hnc)
    have hs' := and3 (show (presHypStable st sc lhs && presHypStable st sc body && presHypStableArms st sc rest) = true from hs)
    have h1 := transformExpr_stable lhs hnc'.1 st sc hct hs'.1
    have h2 := transformExpr_stable body hnc'.2.1 st sc hct hs'.2.1
    have h3 := transformArms_stable rest hnc'.2.2 st sc hct hs'.2.2
    rw [transformArms, h1]
    dsimp only
    rw [h2]
    dsimp only
    rw [h3]
end

/-- **C03 for lambda lifting, typing — the closure-free part only.**  On an expression without
    closure nodes, in a pass state where no closure type has been registered
    (`st.closureTypes = []`, i.e. before the first closure of the file is lifted) and whose
    recomputed annotations are already in place (`presHypStable`, decidable), `transform_expr`
    returns the expression itself, its own type and the unchanged state; hence `Wt.errs Σ Γ` — the
    whole typing judgement, whatever `Σ` and `Γ` — is unchanged.

    Where the judgement is relaxed (and why this is `_partial`): nothing is claimed for closure
    values and the calls through them.  After lifting, a closure is a value of its
    `closure_env_*` struct type, the variable bound to it and the first argument of the rewritten
    call `inherent#S#S#apply(env, …)` carry `TStruct S`, and the callee is annotated with the scope
    entry's type — while every position the closure flows through (parameter and field types,
    `let`/`if`/`match` result types, the signature of the callee) keeps the `TFunc` type of the Mono
    stage.  `Wt.errs` rejects these (`closure-struct-vs-function-type`, a known finding of C03), so
    `Wt.errs` is not preserved for programs with closures and no such theorem is stated. -/
theorem lift_preserves_wt_partial (S : Wt.Sig) (Γ : Wt.TyEnv) (st : State) (sc : Scope) (e : Expr)
    (hct : st.closureTypes = []) (hnc : noClosure e = true) (hs : presHypStable st sc e = true) :
    transformExpr st sc e = (e, monoTy e, st) ∧
    Wt.errs S Γ (transformExpr st sc e).1 = Wt.errs S Γ e ∧
    Wt.wt S Γ (transformExpr st sc e).1 = Wt.wt S Γ e := by
  have h := transformExpr_stable e hnc st sc hct hs
  rw [h]; exact ⟨rfl, rfl, rfl⟩

theorem insertFunc_newFns (st : State) (n : String) (t : Ty) : (st.insertFunc n t).newFns = st.newFns := rfl
theorem insertFunc_closureTypes (st : State) (n : String) (t : Ty) :
    (st.insertFunc n t).closureTypes = st.closureTypes := rfl
theorem fnState_newFns (st : State) (f : Fn) : (fnState st f).newFns = st.newFns := by
  unfold fnState; cases sanitizeEnvName f.name <;> rfl

/-- the same for a top-level function: a closure-free function lifted before any closure of the
    file is returned unchanged (name, parameters, result type, body), so `Wt.wtFn` is unchanged, and
    no apply function is generated -/
theorem liftFn_preserves_wt_partial (S : Wt.Sig) (st : State) (f : Fn)
    (hnc : noClosure f.body = true) (hs : presHypStableFn st f = true) :
    (liftFn st f).1 = f ∧ Wt.wtFn S (liftFn st f).1 = Wt.wtFn S f ∧
      (liftFn st f).2.newFns = st.newFns ∧ (liftFn st f).2.closureTypes = [] := by
  have hs' := and2 hs
  have hct : st.closureTypes = [] := by simpa using hs'.1
  have hct' : (fnState st f).closureTypes = [] := by
    unfold fnState; cases sanitizeEnvName f.name <;> exact hct
  have h := transformExpr_stable f.body hnc (fnState st f) (fnScope st f) hct' hs'.2
  have hret : fnRet st f = f.ret := by
    have e : ∀ (r : Expr × Ty × State), r.2.2.closureTypes = [] →
        (if (!tyBeq r.2.1 f.ret && tyContainsClosure r.2.2.closureTypes r.2.1) = true then r.2.1 else f.ret) = f.ret := by
      intro r hr
      rw [hr, tyContainsClosure_nil, Bool.and_false]
      rfl
    exact e (transformExpr (fnState st f) (fnScope st f) f.body) (by rw [h]; exact hct')
  have e1 : (liftFn st f).1 =
      { name := f.name, generics := f.generics, params := f.params, ret := fnRet st f,
        body := (transformExpr (fnState st f) (fnScope st f) f.body).1 } := congrArg Prod.fst (liftFn_eq st f)
  have e2 : (liftFn st f).2 = State.insertFunc { (transformExpr (fnState st f) (fnScope st f) f.body).2.2 with ctx := st.ctx }
      f.name (.func (f.params.map (·.2)) (fnRet st f)) := congrArg Prod.snd (liftFn_eq st f)
  have h1 : (liftFn st f).1 = f := by
    rw [e1, hret, h]
  have h2 : (liftFn st f).2.newFns = st.newFns ∧ (liftFn st f).2.closureTypes = [] := by
    rw [e2, h, insertFunc_newFns, insertFunc_closureTypes]
    exact ⟨fnState_newFns st f, hct'⟩
  rw [h1]
  exact ⟨rfl, rfl, h2⟩

namespace NonVacuity
open Examples

/-- `call_int_id` of corpus 033 (`fn call_int_id(f, v) { f(v) }`: closure-free, calls its function
    parameter) lifted first: untouched -/
def callIntId : Fn :=
  { name := "call_int_id", generics := [],
    params := [("f/4", (.func [(.int 32 true)] (.int 32 true))), ("v/5", (.int 32 true))], ret := (.int 32 true),
    body := (.call (.int 32 true) (.var "f/4" (.func [(.int 32 true)] (.int 32 true))) [(.var "v/5" (.int 32 true))]) }
example : noClosure callIntId.body = true ∧ presHypStableFn (initState env033) callIntId = true := by
  decide +kernel
example : (liftFn (initState env033) callIntId).1.body = callIntId.body := by rfl
/-- not vacuous the other way: a variable annotated differently from its binder is re-annotated,
    and `presHypStable` says so -/
example : presHypStable {} ⟨[[("x", ⟨.bool, none⟩)]]⟩ (.var "x" .unit) = false := by decide +kernel
example : (transformExpr {} ⟨[[("x", ⟨.bool, none⟩)]]⟩ (.var "x" .unit)).1 = .var "x" .bool := by rfl
/-- and in a state with a closure type the call through a closure variable IS rewritten (outside
    the theorem's hypotheses: `closureTypes ≠ []`) -/
example : (transformExpr { closureTypes := [("S", "S#apply")] } ⟨[[("g", ⟨.struct "S", some "S"⟩)]]⟩
    (.call .unit (.var "g" (.func [] .unit)) [])).1 =
    .call .unit (.var "S#apply" (.struct "S")) [.var "g" (.struct "S")] := by rfl
end NonVacuity

end Goml.Lift
