import GomlVerif.Model.C03presMatch
import GomlVerif.Props.C06
/-!
C03 (every stage output is closed) for the match compiler: the decision tree `compileRows` builds is
well-scoped — every pattern variable used in an arm body is bound on the path that reaches the arm,
every generated temporary is bound by its `let x = get/proj` before the sub-tree that tests or copies
it.  Main results: `compileRows_closed` (any gensym), `matchc_preserves_closed` (the compiler's
gensym, decidable hypotheses only), `compileMatch_closed`, `compileLet_closed`.
-/
namespace Goml.Match
open Goml Goml.Sem

variable {β : Type}

/-! ### structural equality of types -/

theorem tyEqB_sound : ∀ a b : Ty, tyEqB a b = true → a = b := by
  apply Ty.rec (motive_1 := fun a => ∀ b : Ty, tyEqB a b = true → a = b)
    (motive_2 := fun as => ∀ bs : List Ty, tysEqB as bs = true → as = bs)
  · intro b h; cases b <;> simp_all [tyEqB]
  · intro b h; cases b <;> simp_all [tyEqB]
  · intro n s b h; cases b <;> simp_all [tyEqB]
  · intro n b h; cases b <;> simp_all [tyEqB]
  · intro b h; cases b <;> simp_all [tyEqB]
  · intro ts ih b h
    cases b <;> simp only [tyEqB] at h <;> try contradiction
    rw [ih _ h]
  · intro n b h; cases b <;> simp_all [tyEqB]
  · intro n b h; cases b <;> simp_all [tyEqB]
  · intro n b h; cases b <;> simp_all [tyEqB]
  · intro t args ih1 ih2 b h
    cases b <;> simp only [tyEqB, Bool.and_eq_true] at h <;> try contradiction
    rw [ih1 _ h.1, ih2 _ h.2]
  · intro l e ih b h
    cases b <;> simp only [tyEqB, Bool.and_eq_true, beq_iff_eq] at h <;> try contradiction
    rw [h.1, ih _ h.2]
  · intro e ih b h
    cases b <;> simp only [tyEqB] at h <;> try contradiction
    rw [ih _ h]
  · intro e ih b h
    cases b <;> simp only [tyEqB] at h <;> try contradiction
    rw [ih _ h]
  · intro n b h; cases b <;> simp_all [tyEqB]
  · intro ps r ih1 ih2 b h
    cases b <;> simp only [tyEqB, Bool.and_eq_true] at h <;> try contradiction
    rw [ih1 _ h.1, ih2 _ h.2]
  · intro n b h; cases b <;> simp_all [tyEqB]
  · intro bs h
    cases bs <;> simp only [tysEqB] at h <;> try contradiction
    rfl
  · intro t ts ih1 ih2 bs h
    cases bs <;> simp only [tysEqB, Bool.and_eq_true] at h <;> try contradiction
    rw [ih1 _ h.1, ih2 _ h.2]

/-! ### typing contexts -/

theorem lookupTy_append (x : String) (a b : List (String × Ty)) :
    lookupTy x (a ++ b) = match lookupTy x a with | some t => some t | none => lookupTy x b := by
  induction a with
  | nil => rfl
  | cons p ps ih =>
    by_cases h : p.1 = x
    · simp [lookupTy, h]
    · simp [lookupTy, h, ih]

theorem lookupTy_none_of_notin {x : String} : ∀ {a : List (String × Ty)}, (∀ p ∈ a, p.1 ≠ x) →
    lookupTy x a = none := by
  intro a
  induction a with
  | nil => intro _; rfl
  | cons p ps ih =>
    intro h
    simp only [lookupTy, h p (by simp), if_false]
    exact ih (fun q hq => h q (by simp [hq]))

theorem lookupTy_old {vs T : List (String × Ty)} {x : String} {t : Ty}
    (hfr : ∀ p ∈ vs, lookupTy p.1 T = none) (h : lookupTy x T = some t) :
    lookupTy x (vs ++ T) = some t := by
  rw [lookupTy_append]
  have : lookupTy x vs = none := by
    apply lookupTy_none_of_notin
    intro p hp e
    have := hfr p hp
    rw [e, h] at this
    cases this
  rw [this]
  exact h

theorem wfAtL_length (S : Sig) : ∀ (args : List Pat) (tys : List Ty), Pat.wfAtL S tys args = true →
    args.length ≤ tys.length := by
  intro args
  induction args with
  | nil => intro tys _; simp
  | cons p ps ih =>
    intro tys h
    cases tys with
    | nil => simp [Pat.wfAtL] at h
    | cons t ts =>
      simp only [Pat.wfAtL, Bool.and_eq_true] at h
      have := ih ts h.2
      simp only [List.length_cons]
      omega

theorem zip_cols_typed (S : Sig) (T : List (String × Ty)) :
    ∀ (names : List String) (tys : List Ty) (args : List Pat),
      names.Nodup → Pat.wfAtL S tys args = true →
      ∀ c ∈ names.zip args, ∃ t, lookupTy c.1 (names.zip tys ++ T) = some t ∧ c.2.wfAt S t = true := by
  intro names
  induction names with
  | nil => intro tys args _ _ c hc; simp at hc
  | cons x xs ih =>
    intro tys args hnd hwf c hc
    cases args with
    | nil => simp at hc
    | cons p ps =>
      cases tys with
      | nil => simp [Pat.wfAtL] at hwf
      | cons t ts =>
        simp only [Pat.wfAtL, Bool.and_eq_true] at hwf
        simp only [List.zip_cons_cons, List.mem_cons] at hc
        rcases hc with rfl | hc
        · exact ⟨t, by simp [lookupTy], hwf.1⟩
        · obtain ⟨t', h1, h2⟩ := ih ts ps (List.nodup_cons.mp hnd).2 hwf.2 c hc
          refine ⟨t', ?_, h2⟩
          have hne : ¬ x = c.1 := by
            intro e
            have := (List.of_mem_zip (show (c.1, c.2) ∈ xs.zip ps from hc)).1
            exact (List.nodup_cons.mp hnd).1 (e ▸ this)
          simp only [List.zip_cons_cons, List.cons_append, lookupTy, hne, if_false]
          exact h1

/-! ### pattern variables -/

theorem mem_colsPvars {y : String} : ∀ {cols : List (String × Pat)},
    y ∈ colsPvars cols ↔ ∃ c ∈ cols, y ∈ c.2.pvars := by
  intro cols
  induction cols with
  | nil => simp [colsPvars]
  | cons c cs ih => simp [colsPvars, ih]

theorem pvars_zip : ∀ (args : List Pat) (names : List String), args.length ≤ names.length →
    ∀ y ∈ Pat.pvarsL args, y ∈ colsPvars (names.zip args) := by
  intro args
  induction args with
  | nil => intro names _ y hy; simp [Pat.pvarsL] at hy
  | cons p ps ih =>
    intro names hlen y hy
    cases names with
    | nil => simp at hlen
    | cons x xs =>
      simp only [Pat.pvarsL, List.mem_append] at hy
      simp only [List.zip_cons_cons, colsPvars, List.mem_append]
      rcases hy with h | h
      · exact Or.inl h
      · exact Or.inr (ih xs (by simpa using hlen) y h)

theorem removeCol_split {x : String} : ∀ {cols cs : List (String × Pat)} {p : Pat},
    removeCol x cols = some (p, cs) → ∀ c ∈ cols, c = (x, p) ∨ c ∈ cs := by
  intro cols
  induction cols with
  | nil => intro cs p h; simp [removeCol] at h
  | cons c cols ih =>
    intro cs p h d hd
    simp only [removeCol] at h
    split at h
    · rename_i heq
      cases h
      rcases List.mem_cons.mp hd with rfl | hd
      · left; rw [← heq]
      · exact Or.inr hd
    · split at h
      · rename_i q cs' hr
        cases h
        rcases List.mem_cons.mp hd with rfl | hd
        · right; simp
        · rcases ih hr d hd with h1 | h1
          · exact Or.inl h1
          · right; simp [h1]
      · cases h

/-! ### assembling the tree -/

/-- the sub-tree is well-scoped once the variables `vs` are bound on top of `Γ` -/
def SubOk (bodyFv : β → List String) (Γ : List String) (vs : List (String × Ty)) (t : DT β) : Prop :=
  ∀ Γ' : List String, (∀ y, y ∈ vs.map (·.1) ∨ y ∈ Γ → y ∈ Γ') → t.fvOk bodyFv Γ' = true

theorem SubOk.nil {bodyFv : β → List String} {Γ : List String} {t : DT β} (h : SubOk bodyFv Γ [] t) :
    t.fvOk bodyFv Γ = true :=
  h Γ (fun y hy => by simpa using hy)

theorem fvOk_wrapGet (bodyFv : β → List String) (c : Ctor) (bv : String) (bty : Ty) (t : DT β) :
    ∀ (vars : List (String × Ty)) (i : Nat) (Γ : List String), bv ∈ Γ → SubOk bodyFv Γ vars t →
      (wrapGet c bv bty i vars t).fvOk bodyFv Γ = true := by
  intro vars
  induction vars with
  | nil => intro i Γ _ h; exact h.nil
  | cons x xs ih =>
    intro i Γ hbv h
    simp only [wrapGet, DT.fvOk, Bool.and_eq_true]
    refine ⟨by simpa using hbv, ih (i + 1) (x.1 :: Γ) (by simp [hbv]) ?_⟩
    intro Γ' hΓ'
    apply h Γ'
    intro y hy
    apply hΓ'
    simp only [List.map_cons, List.mem_cons] at hy ⊢
    rcases hy with (h1 | h1) | h1
    · exact Or.inr (Or.inl h1)
    · exact Or.inl h1
    · exact Or.inr (Or.inr h1)

theorem fvOk_wrapProj (bodyFv : β → List String) (bv : String) (bty : Ty) (t : DT β) :
    ∀ (vars : List (String × Ty)) (i : Nat) (Γ : List String), bv ∈ Γ → SubOk bodyFv Γ vars t →
      (wrapProj bv bty i vars t).fvOk bodyFv Γ = true := by
  intro vars
  induction vars with
  | nil => intro i Γ _ h; exact h.nil
  | cons x xs ih =>
    intro i Γ hbv h
    simp only [wrapProj, DT.fvOk, Bool.and_eq_true]
    refine ⟨by simpa using hbv, ih (i + 1) (x.1 :: Γ) (by simp [hbv]) ?_⟩
    intro Γ' hΓ'
    apply h Γ'
    intro y hy
    apply hΓ'
    simp only [List.map_cons, List.mem_cons] at hy ⊢
    rcases hy with (h1 | h1) | h1
    · exact Or.inr (Or.inl h1)
    · exact Or.inl h1
    · exact Or.inr (Or.inr h1)

theorem fvOk_litCases (bodyFv : β → List String) (Γ : List String) (d : Bool) :
    ∀ (keys : List Prim) (ts : List (DT β)), (∀ t ∈ ts, t.fvOk bodyFv Γ = true) →
      (litCases keys ts d).fvOk bodyFv Γ = true := by
  intro keys
  induction keys with
  | nil =>
    intro ts h
    simp only [litCases]
    split
    · rename_i t; simp only [Cases.fvOk]; exact h t (by simp)
    · rfl
  | cons k ks ih =>
    intro ts h
    simp only [litCases]
    split
    · rename_i t ts'
      simp only [Cases.fvOk, Bool.and_eq_true]
      exact ⟨h t (by simp), ih ts' (fun u hu => h u (by simp [hu]))⟩
    · rfl

theorem fvOk_enumCases (bodyFv : β → List String) (Γ : List String) (bv : String) (bty : Ty)
    (hbv : bv ∈ Γ) : ∀ (hs : List (Ctor × List (String × Ty))) (ts : List (DT β)),
      All2 (SubOk bodyFv Γ) (hs.map (·.2)) ts → (enumCases bv bty hs ts).fvOk bodyFv Γ = true := by
  intro hs
  induction hs with
  | nil => intro ts _; rfl
  | cons h hs ih =>
    intro ts hall
    simp only [List.map_cons] at hall
    cases hall with
    | cons hab hrest =>
      simp only [enumCases, Cases.fvOk, Bool.and_eq_true]
      exact ⟨fvOk_wrapGet bodyFv h.1 bv bty _ h.2 0 Γ hbv hab, ih _ hrest⟩

/-- the binders `build` puts in front of sub-tree number `i` -/
def shapeVars : Shape → Nat → List (List (String × Ty))
  | .lits _ _, k => List.replicate k []
  | .enumS hs, _ => hs.map (·.2)
  | .tupleS vars, _ => [vars]
  | .structS _ vars, _ => [vars]

theorem all2_replicate_elim {α γ : Type} {R : α → γ → Prop} {a : α} : ∀ (k : Nat) (l : List γ),
    All2 R (List.replicate k a) l → ∀ b ∈ l, R a b := by
  intro k
  induction k with
  | zero => intro l h; cases h; intro b hb; cases hb
  | succ k ih =>
    intro l h
    simp only [List.replicate_succ] at h
    cases h with
    | cons hab hrest =>
      intro b hb
      rcases List.mem_cons.mp hb with rfl | hb
      · exact hab
      · exact ih _ hrest b hb

theorem all2_replicate_intro {α γ : Type} {R : α → γ → Prop} {a : α} : ∀ (l : List γ),
    (∀ b ∈ l, R a b) → All2 R (List.replicate l.length a) l := by
  intro l
  induction l with
  | nil => intro _; exact .nil
  | cons b bs ih =>
    intro h
    simp only [List.length_cons, List.replicate_succ]
    exact .cons (h b (by simp)) (ih (fun c hc => h c (by simp [hc])))

theorem fvOk_build (bodyFv : β → List String) (Γ : List String) (bodyTy : Ty) (bv : String) (bty : Ty)
    (hbv : bv ∈ Γ) (sh : Shape) (k : Nat) (ts : List (DT β))
    (h : All2 (SubOk bodyFv Γ) (shapeVars sh k) ts) : (build bodyTy bv bty sh ts).fvOk bodyFv Γ = true := by
  cases sh with
  | lits keys d =>
    simp only [build, DT.fvOk, Bool.and_eq_true]
    refine ⟨by simpa using hbv, fvOk_litCases bodyFv Γ d keys ts ?_⟩
    intro t ht
    exact (all2_replicate_elim k ts h t ht).nil
  | enumS hs =>
    simp only [build, DT.fvOk, Bool.and_eq_true]
    exact ⟨by simpa using hbv, fvOk_enumCases bodyFv Γ bv bty hbv hs ts h⟩
  | tupleS vars =>
    obtain ⟨t, rfl, ht⟩ := all2_singleton h
    simp only [build]
    exact fvOk_wrapProj bodyFv bv bty t vars 0 Γ hbv ht
  | structS c vars =>
    obtain ⟨t, rfl, ht⟩ := all2_singleton h
    simp only [build]
    exact fvOk_wrapGet bodyFv c bv bty t vars 0 Γ hbv ht

/-! ### the invariant carried through `compile_rows` -/

theorem contains_mem {l : List String} {y : String} : l.contains y = true ↔ y ∈ l := by simp

/-- hypotheses (a), (b), (c) of `matchc_preserves_closed` on one row (`presHypRow` as a `Prop`) -/
structure RowInv (S : Sig) (bodyFv : β → List String) (Γ : List String) (T : List (String × Ty))
    (r : Row β) : Prop where
  cols : ∀ c ∈ r.cols, c.1 ∈ Γ ∧ ∃ t, lookupTy c.1 T = some t ∧ c.2.wfAt S t = true
  binds : ∀ b ∈ r.binds, b.var ∈ Γ
  body : ∀ y ∈ bodyFv r.body, y ∈ Γ ∨ (∃ b ∈ r.binds, b.name = y) ∨ y ∈ colsPvars r.cols

theorem rowInv_of_presHyp {S : Sig} {bodyFv : β → List String} {Γ : List String} {T : List (String × Ty)}
    {r : Row β} (h : presHypRow S bodyFv Γ T r = true) : RowInv S bodyFv Γ T r := by
  simp only [presHypRow, Bool.and_eq_true, List.all_eq_true, Bool.or_eq_true] at h
  obtain ⟨⟨h1, h2⟩, h3⟩ := h
  refine ⟨?_, ?_, ?_⟩
  · intro c hc
    have := h1 c hc
    refine ⟨contains_mem.mp this.1, ?_⟩
    have h' := this.2
    split at h'
    · rename_i t ht; exact ⟨t, ht, h'⟩
    · cases h'
  · intro b hb; exact contains_mem.mp (h2 b hb)
  · intro y hy
    rcases h3 y hy with (h | h) | h
    · exact Or.inl (contains_mem.mp h)
    · right; left
      obtain ⟨b, hb, e⟩ := List.mem_map.mp (contains_mem.mp h)
      exact ⟨b, hb, e⟩
    · exact Or.inr (Or.inr (contains_mem.mp h))

theorem RowInv.weaken {S : Sig} {bodyFv : β → List String} {Γ Γ' : List String} {T T' : List (String × Ty)}
    {r : Row β} (h : RowInv S bodyFv Γ T r) (hΓ : ∀ y ∈ Γ, y ∈ Γ')
    (hT : ∀ x t, lookupTy x T = some t → lookupTy x T' = some t) : RowInv S bodyFv Γ' T' r := by
  refine ⟨?_, fun b hb => hΓ _ (h.binds b hb), ?_⟩
  · intro c hc
    obtain ⟨h1, t, h2, h3⟩ := h.cols c hc
    exact ⟨hΓ _ h1, t, hT _ _ h2, h3⟩
  · intro y hy
    rcases h.body y hy with h1 | h1 | h1
    · exact Or.inl (hΓ _ h1)
    · exact Or.inr (Or.inl h1)
    · exact Or.inr (Or.inr h1)

theorem RowInv.newCols {S : Sig} {bodyFv : β → List String} {Γ : List String} {T : List (String × Ty)}
    {r : Row β} (h : RowInv S bodyFv Γ T r) (cols' : List (String × Pat))
    (h1 : ∀ c ∈ cols', c.1 ∈ Γ ∧ ∃ t, lookupTy c.1 T = some t ∧ c.2.wfAt S t = true)
    (h2 : ∀ y ∈ colsPvars r.cols, y ∈ colsPvars cols') : RowInv S bodyFv Γ T { r with cols := cols' } := by
  refine ⟨h1, h.binds, ?_⟩
  intro y hy
  rcases h.body y hy with h3 | h3 | h3
  · exact Or.inl h3
  · exact Or.inr (Or.inl h3)
  · exact Or.inr (Or.inr (h2 y h3))

/-! ### `move_variable_patterns` -/

theorem varBinds_mem {a : String} {ty : Ty} : ∀ {cols : List (String × Pat)} {c : String × Pat},
    c ∈ cols → c.2 = .var a ty → (⟨a, c.1, ty⟩ : Bind) ∈ varBinds cols := by
  intro cols
  induction cols with
  | nil => intro c hc; cases hc
  | cons d ds ih =>
    intro c hc hv
    rcases List.mem_cons.mp hc with rfl | hc
    · simp only [varBinds, hv]
      simp
    · have := ih hc hv
      simp only [varBinds]
      split
      · exact List.mem_append.mpr (Or.inl this)
      · exact this

theorem varBinds_pvars (cols : List (String × Pat)) (y : String) (hy : y ∈ colsPvars cols) :
    (∃ b ∈ varBinds cols, b.name = y) ∨ y ∈ colsPvars (cols.filter (fun c => !isVarOrWild c.2)) := by
  obtain ⟨c, hc, hyc⟩ := mem_colsPvars.mp hy
  cases hp : c.2 with
  | wild ty => rw [hp] at hyc; simp [Pat.pvars] at hyc
  | var a ty =>
    rw [hp] at hyc
    simp only [Pat.pvars, List.mem_singleton] at hyc
    exact Or.inl ⟨_, varBinds_mem hc hp, hyc.symm⟩
  | prim p ty => rw [hp] at hyc; simp [Pat.pvars] at hyc
  | tuple items ty =>
    right
    exact mem_colsPvars.mpr ⟨c, List.mem_filter.mpr ⟨hc, by simp [hp, isVarOrWild]⟩, hyc⟩
  | constr k args ty =>
    right
    exact mem_colsPvars.mpr ⟨c, List.mem_filter.mpr ⟨hc, by simp [hp, isVarOrWild]⟩, hyc⟩

theorem RowInv.moveVars {S : Sig} {bodyFv : β → List String} {Γ : List String} {T : List (String × Ty)}
    {r : Row β} (h : RowInv S bodyFv Γ T r) : RowInv S bodyFv Γ T (moveVars r) := by
  refine ⟨?_, ?_, ?_⟩
  · intro c hc; exact h.cols c (List.mem_filter.mp hc).1
  · intro b hb
    rcases List.mem_append.mp hb with hb | hb
    · obtain ⟨c, hc, e⟩ := varBinds_var r.cols b hb
      rw [e]; exact (h.cols c hc).1
    · exact h.binds b hb
  · intro y hy
    rcases h.body y hy with h1 | ⟨b, hb, e⟩ | h1
    · exact Or.inl h1
    · exact Or.inr (Or.inl ⟨b, List.mem_append.mpr (Or.inr hb), e⟩)
    · rcases varBinds_pvars r.cols y h1 with ⟨b, hb, e⟩ | h2
      · exact Or.inr (Or.inl ⟨b, List.mem_append.mpr (Or.inl hb), e⟩)
      · exact Or.inr (Or.inr h2)

theorem bindsFvOk_intro (bodyFv : β → List String) (body : β) : ∀ (bs : List Bind) (Γ : List String),
    (∀ b ∈ bs, b.var ∈ Γ) → (∀ y ∈ bodyFv body, y ∈ Γ ∨ ∃ b ∈ bs, b.name = y) →
    bindsFvOk bodyFv bs body Γ = true := by
  intro bs
  induction bs with
  | nil =>
    intro Γ _ h
    simp only [bindsFvOk, subsetB, List.all_eq_true]
    intro y hy
    rcases h y hy with h | ⟨b, hb, _⟩
    · exact contains_mem.mpr h
    · cases hb
  | cons b bs ih =>
    intro Γ hv h
    simp only [bindsFvOk, Bool.and_eq_true]
    refine ⟨contains_mem.mpr (hv b (by simp)), ih (b.name :: Γ) ?_ ?_⟩
    · intro c hc; exact List.mem_cons_of_mem _ (hv c (by simp [hc]))
    · intro y hy
      rcases h y hy with h1 | ⟨c, hc, e⟩
      · exact Or.inl (List.mem_cons_of_mem _ h1)
      · rcases List.mem_cons.mp hc with rfl | hc
        · left; rw [← e]; simp
        · exact Or.inr ⟨c, hc, e⟩

/-! ### the row distribution keeps the invariant -/

theorem specLit_inv {S : Sig} {bodyFv : β → List String} {Γ : List String} {T : List (String × Ty)}
    {okP : Prim → Bool} {bv : String} {k : Prim} {r r' : Row β}
    (hf : specLit okP bv k r = .ok (some r')) (h : RowInv S bodyFv Γ T r) : RowInv S bodyFv Γ T r' := by
  unfold specLit at hf
  split at hf
  · cases hf; exact h
  · rename_i p t cs hr
    split at hf
    · split at hf
      · cases hf
        apply h.newCols cs
        · intro c hc; exact h.cols c ((removeCol_some hr).2.1 c hc)
        · intro y hy
          obtain ⟨c, hc, hy⟩ := mem_colsPvars.mp hy
          rcases removeCol_split hr c hc with rfl | hc'
          · simp [Pat.pvars] at hy
          · exact mem_colsPvars.mpr ⟨c, hc', hy⟩
      · cases hf
    · cases hf
  · cases hf

theorem specDflt_inv {S : Sig} {bodyFv : β → List String} {Γ : List String} {T : List (String × Ty)}
    {okP : Prim → Bool} {bv : String} {r r' : Row β}
    (hf : specDflt okP bv r = .ok (some r')) (h : RowInv S bodyFv Γ T r) : RowInv S bodyFv Γ T r' := by
  unfold specDflt at hf
  split at hf
  · cases hf; exact h
  · split at hf <;> cases hf
  · cases hf

theorem specEnum_inv {S : Sig} {bodyFv : β → List String} {Γ : List String} {T : List (String × Ty)}
    {bv : String} {nv idx : Nat} {names : List String} {tys : List Ty} {t : Ty}
    (hnd : names.Nodup) (hlen : names.length = tys.length) (hfr : ∀ x ∈ names, lookupTy x T = none)
    (hbv : lookupTy bv T = some t)
    (hcomp : ∀ a b tys', compTys S t (.enum a b idx) = some tys' → tys' = tys)
    {r r' : Row β} (hf : specEnum bv nv idx names r = .ok (some r')) (h : RowInv S bodyFv Γ T r) :
    RowInv S bodyFv (names ++ Γ) (names.zip tys ++ T) r' := by
  have hfr' : ∀ p ∈ names.zip tys, lookupTy p.1 T = none :=
    fun p hp => hfr p.1 (List.of_mem_zip (show (p.1, p.2) ∈ _ from hp)).1
  have hw : RowInv S bodyFv (names ++ Γ) (names.zip tys ++ T) r :=
    h.weaken (fun y hy => List.mem_append.mpr (Or.inr hy)) (fun x t' hx => lookupTy_old hfr' hx)
  unfold specEnum at hf
  split at hf
  · cases hf; exact hw
  · rename_i a b i args ty cs hr
    obtain ⟨hmem, hsub, _⟩ := removeCol_some hr
    split at hf
    · cases hf
    · split at hf
      · rename_i hi
        subst hi
        cases hf
        obtain ⟨_, t0, ht0, hwf⟩ := h.cols _ hmem
        simp only at ht0 hwf
        rw [hbv] at ht0; cases ht0
        simp only [Pat.wfAt, Bool.and_eq_true] at hwf
        obtain ⟨_, hwf2⟩ := hwf
        split at hwf2
        · rename_i tys' hc
          have := hcomp a b tys' hc
          subst this
          apply hw.newCols
          · intro c hc'
            rcases List.mem_append.mp hc' with hc' | hc'
            · exact hw.cols c (hsub c hc')
            · refine ⟨List.mem_append.mpr (Or.inl (List.of_mem_zip (show (c.1, c.2) ∈ _ from hc')).1), ?_⟩
              exact zip_cols_typed S T names tys' args hnd hwf2 c hc'
          · intro y hy
            obtain ⟨c, hc', hy⟩ := mem_colsPvars.mp hy
            rcases removeCol_split hr c hc' with rfl | hc''
            · apply mem_colsPvars.mpr
              have h1 := pvars_zip args names (by have := wfAtL_length S args tys' hwf2; omega) y
                (by simpa [Pat.pvars] using hy)
              obtain ⟨d, hd, hyd⟩ := mem_colsPvars.mp h1
              exact ⟨d, List.mem_append.mpr (Or.inr hd), hyd⟩
            · exact mem_colsPvars.mpr ⟨c, List.mem_append.mpr (Or.inl hc''), hy⟩
        · cases hwf2
      · cases hf
  · cases hf
  · cases hf

theorem expandTuple_inv {S : Sig} {T : List (String × Ty)} {bv : String} {names : List String}
    {typs : List Ty} (hnd : names.Nodup) :
    ∀ (cols cols' : List (String × Pat)), expandTuple bv names cols = .ok cols' →
      (∀ c ∈ cols, c.1 = bv → c.2.wfAt S (.tuple typs) = true) →
      (∀ c ∈ cols', c ∈ cols ∨
        (c.1 ∈ names ∧ ∃ t, lookupTy c.1 (names.zip typs ++ T) = some t ∧ c.2.wfAt S t = true)) ∧
      (∀ y ∈ colsPvars cols, y ∈ colsPvars cols') := by
  intro cols
  induction cols with
  | nil =>
    intro cols' h _
    simp only [expandTuple] at h
    cases h
    exact ⟨fun c hc => (by cases hc), fun y hy => hy⟩
  | cons c cs ih =>
    intro cols' h hs
    simp only [expandTuple] at h
    split at h
    · cases h
    · rename_i rest hrest
      obtain ⟨ih1, ih2⟩ := ih rest hrest (fun d hd => hs d (by simp [hd]))
      split at h
      · rename_i hcb
        split at h
        · rename_i items ty hpat
          split at h
          · cases h
          · rename_i hlen
            cases h
            have hwf := hs c (by simp) hcb
            rw [hpat] at hwf
            simp only [Pat.wfAt, Bool.and_eq_true] at hwf
            constructor
            · intro d hd
              rcases List.mem_append.mp hd with hd | hd
              · right
                exact ⟨(List.of_mem_zip (show (d.1, d.2) ∈ _ from hd)).1,
                  zip_cols_typed S T names typs items hnd hwf.2 d hd⟩
              · rcases ih1 d hd with h1 | h1
                · left; simp [h1]
                · exact Or.inr h1
            · intro y hy
              simp only [colsPvars, List.mem_append] at hy
              rcases hy with hy | hy
              · rw [hpat] at hy
                have h1 := pvars_zip items names (by omega) y (by simpa [Pat.pvars] using hy)
                obtain ⟨d, hd, hyd⟩ := mem_colsPvars.mp h1
                exact mem_colsPvars.mpr ⟨d, List.mem_append.mpr (Or.inl hd), hyd⟩
              · obtain ⟨d, hd, hyd⟩ := mem_colsPvars.mp (ih2 y hy)
                exact mem_colsPvars.mpr ⟨d, List.mem_append.mpr (Or.inr hd), hyd⟩
        · cases h
      · cases h
        constructor
        · intro d hd
          rcases List.mem_cons.mp hd with rfl | hd
          · left; simp
          · rcases ih1 d hd with h1 | h1
            · left; simp [h1]
            · exact Or.inr h1
        · intro y hy
          simp only [colsPvars, List.mem_append] at hy ⊢
          rcases hy with hy | hy
          · exact Or.inl hy
          · exact Or.inr (ih2 y hy)

theorem expandStruct_inv {S : Sig} {T : List (String × Ty)} {bv : String} {names : List String}
    {t : Ty} {tys : List Ty} (hnd : names.Nodup) (hlen : names.length = tys.length)
    (hcomp : ∀ sn tys', compTys S t (.struct sn) = some tys' → tys' = tys) :
    ∀ (cols cols' : List (String × Pat)), expandStruct bv names cols = .ok cols' →
      (∀ c ∈ cols, c.1 = bv → c.2.wfAt S t = true) →
      (∀ c ∈ cols', c ∈ cols ∨
        (c.1 ∈ names ∧ ∃ t', lookupTy c.1 (names.zip tys ++ T) = some t' ∧ c.2.wfAt S t' = true)) ∧
      (∀ y ∈ colsPvars cols, y ∈ colsPvars cols') := by
  intro cols
  induction cols with
  | nil =>
    intro cols' h _
    simp only [expandStruct] at h
    cases h
    exact ⟨fun c hc => (by cases hc), fun y hy => hy⟩
  | cons c cs ih =>
    intro cols' h hs
    simp only [expandStruct] at h
    split at h
    · cases h
    · rename_i rest hrest
      obtain ⟨ih1, ih2⟩ := ih rest hrest (fun d hd => hs d (by simp [hd]))
      split at h
      · rename_i hcb
        split at h
        · rename_i sn args ty hpat
          cases h
          have hwf := hs c (by simp) hcb
          rw [hpat] at hwf
          simp only [Pat.wfAt, Bool.and_eq_true] at hwf
          obtain ⟨_, hwf2⟩ := hwf
          split at hwf2
          · rename_i tys' hc
            have := hcomp sn tys' hc
            subst this
            constructor
            · intro d hd
              rcases List.mem_append.mp hd with hd | hd
              · right
                exact ⟨(List.of_mem_zip (show (d.1, d.2) ∈ _ from hd)).1,
                  zip_cols_typed S T names tys' args hnd hwf2 d hd⟩
              · rcases ih1 d hd with h1 | h1
                · left; simp [h1]
                · exact Or.inr h1
            · intro y hy
              simp only [colsPvars, List.mem_append] at hy
              rcases hy with hy | hy
              · rw [hpat] at hy
                have h1 := pvars_zip args names (by have := wfAtL_length S args tys' hwf2; omega) y
                  (by simpa [Pat.pvars] using hy)
                obtain ⟨d, hd, hyd⟩ := mem_colsPvars.mp h1
                exact mem_colsPvars.mpr ⟨d, List.mem_append.mpr (Or.inl hd), hyd⟩
              · obtain ⟨d, hd, hyd⟩ := mem_colsPvars.mp (ih2 y hy)
                exact mem_colsPvars.mpr ⟨d, List.mem_append.mpr (Or.inr hd), hyd⟩
          · cases hwf2
        · cases h
      · cases h
        constructor
        · intro d hd
          rcases List.mem_cons.mp hd with rfl | hd
          · left; simp
          · rcases ih1 d hd with h1 | h1
            · left; simp [h1]
            · exact Or.inr h1
        · intro y hy
          simp only [colsPvars, List.mem_append] at hy ⊢
          rcases hy with hy | hy
          · exact Or.inl hy
          · exact Or.inr (ih2 y hy)

theorem specTuple_inv {S : Sig} {bodyFv : β → List String} {Γ : List String} {T : List (String × Ty)}
    {bv : String} {names : List String} {typs : List Ty}
    (hnd : names.Nodup) (hfr : ∀ x ∈ names, lookupTy x T = none)
    (hbv : lookupTy bv T = some (.tuple typs))
    {r r' : Row β} (hf : specTuple bv names r = .ok (some r')) (h : RowInv S bodyFv Γ T r) :
    RowInv S bodyFv (names ++ Γ) (names.zip typs ++ T) r' := by
  have hfr' : ∀ p ∈ names.zip typs, lookupTy p.1 T = none :=
    fun p hp => hfr p.1 (List.of_mem_zip (show (p.1, p.2) ∈ _ from hp)).1
  have hw : RowInv S bodyFv (names ++ Γ) (names.zip typs ++ T) r :=
    h.weaken (fun y hy => List.mem_append.mpr (Or.inr hy)) (fun x t' hx => lookupTy_old hfr' hx)
  have key : ∀ c ∈ r.cols, c.1 = bv → c.2.wfAt S (.tuple typs) = true := by
    intro c hc hcb
    obtain ⟨_, t0, ht0, hwf⟩ := h.cols c hc
    rw [hcb, hbv] at ht0
    cases ht0
    exact hwf
  unfold specTuple at hf
  split at hf
  · cases hf
  · rename_i cs hcs
    cases hf
    obtain ⟨h1, h2⟩ := expandTuple_inv (S := S) (T := T) (typs := typs) hnd r.cols cs hcs key
    apply hw.newCols cs _ h2
    intro c hc
    rcases h1 c hc with h3 | ⟨h3, h4⟩
    · exact hw.cols c h3
    · exact ⟨List.mem_append.mpr (Or.inl h3), h4⟩

theorem specStruct_inv {S : Sig} {bodyFv : β → List String} {Γ : List String} {T : List (String × Ty)}
    {bv : String} {names : List String} {t : Ty} {tys : List Ty}
    (hnd : names.Nodup) (hlen : names.length = tys.length) (hfr : ∀ x ∈ names, lookupTy x T = none)
    (hbv : lookupTy bv T = some t)
    (hcomp : ∀ sn tys', compTys S t (.struct sn) = some tys' → tys' = tys)
    {r r' : Row β} (hf : specStruct bv names r = .ok (some r')) (h : RowInv S bodyFv Γ T r) :
    RowInv S bodyFv (names ++ Γ) (names.zip tys ++ T) r' := by
  have hfr' : ∀ p ∈ names.zip tys, lookupTy p.1 T = none :=
    fun p hp => hfr p.1 (List.of_mem_zip (show (p.1, p.2) ∈ _ from hp)).1
  have hw : RowInv S bodyFv (names ++ Γ) (names.zip tys ++ T) r :=
    h.weaken (fun y hy => List.mem_append.mpr (Or.inr hy)) (fun x t' hx => lookupTy_old hfr' hx)
  have key : ∀ c ∈ r.cols, c.1 = bv → c.2.wfAt S t = true := by
    intro c hc hcb
    obtain ⟨_, t0, ht0, hwf⟩ := h.cols c hc
    rw [hcb, hbv] at ht0
    cases ht0
    exact hwf
  unfold specStruct at hf
  split at hf
  · cases hf
  · rename_i cs hcs
    cases hf
    obtain ⟨h1, h2⟩ := expandStruct_inv (S := S) (T := T) hnd hlen hcomp r.cols cs hcs key
    apply hw.newCols cs _ h2
    intro c hc
    rcases h1 c hc with h3 | ⟨h3, h4⟩
    · exact hw.cols c h3
    · exact ⟨List.mem_append.mpr (Or.inl h3), h4⟩

/-! ### freshness of the generated names w.r.t. the typed column variables -/

/-- names the gensym may still hand out (`≥ n`) are not typed column variables -/
def FreshT (g : Nat → String) (n : Nat) (T : List (String × Ty)) : Prop :=
  ∀ j, n ≤ j → lookupTy (g j) T = none

theorem FreshT.mono {g : Nat → String} {n m : Nat} {T : List (String × Ty)} (h : FreshT g n T)
    (hnm : n ≤ m) : FreshT g m T := fun j hj => h j (by omega)

theorem FreshT.ext {g : Nat → String} (hinj : ∀ i j, g i = g j → i = j) {n m k n1 : Nat}
    {T : List (String × Ty)} (tys : List Ty) (h : FreshT g n T) (hnm : n ≤ m) (hmk : m + k ≤ n1) :
    FreshT g n1 ((genNames g m k).zip tys ++ T) := by
  intro j hj
  rw [lookupTy_append]
  have : lookupTy (g j) ((genNames g m k).zip tys) = none := by
    apply lookupTy_none_of_notin
    intro p hp e
    obtain ⟨j', _, h2, h3⟩ := mem_genNames.mp (List.of_mem_zip (show (p.1, p.2) ∈ _ from hp)).1
    have := hinj j' j (by rw [← h3, e])
    omega
  rw [this]
  exact h j (by omega)

theorem genNames_fresh {g : Nat → String} {n m k : Nat} {T : List (String × Ty)} (h : FreshT g n T)
    (hnm : n ≤ m) : ∀ x ∈ genNames g m k, lookupTy x T = none := by
  intro x hx
  obtain ⟨j, h1, _, rfl⟩ := mem_genNames.mp hx
  exact h j (by omega)

/-! ### `plan` -/

/-- what the invariant says about a sub-matrix compiled under the binders `vs` -/
def SubInv (S : Sig) (bodyFv : β → List String) (Γ : List String) (T : List (String × Ty)) (n1 : Nat)
    (vs : List (String × Ty)) (sub : List (Row β)) : Prop :=
  FreshT S.gen n1 (vs ++ T) ∧ ∀ r ∈ sub, RowInv S bodyFv (vs.map (·.1) ++ Γ) (vs ++ T) r

theorem litPlan_inv {S : Sig} {bodyFv : β → List String} {Γ : List String} {T : List (String × Ty)}
    {okP : Prim → Bool} {n : Nat} {bv : String} {subTy : Ty} {keys : List Prim} {dflt : Bool}
    {rows : List (Row β)} {pl : Plan β}
    (hpl : litPlan okP n bv subTy keys dflt rows = .ok pl) (hfr : FreshT S.gen n T)
    (hs : ∀ r ∈ rows, RowInv S bodyFv Γ T r) :
    All2 (SubInv S bodyFv Γ T pl.n1) (shapeVars pl.shape pl.subs.length) pl.subs := by
  have fin : ∀ (subs : List (List (Row β))) (ks : List Prim) (d : Bool),
      (∀ sub ∈ subs, ∀ r ∈ sub, RowInv S bodyFv Γ T r) →
      All2 (SubInv S bodyFv Γ T n) (shapeVars (.lits ks d) subs.length) subs := by
    intro subs ks d h
    simp only [shapeVars]
    apply all2_replicate_intro
    intro sub hsub
    exact ⟨hfr, h sub hsub⟩
  unfold litPlan at hpl
  split at hpl
  · cases hpl
  · rename_i subs hsubs
    have hk : ∀ sub ∈ subs, ∀ r ∈ sub, RowInv S bodyFv Γ T r := by
      intro sub hsub r' hr'
      obtain ⟨k, _, hf⟩ := mapE_mem _ keys subs hsubs sub hsub
      obtain ⟨r, hr, hfr'⟩ := (filterMapE_mem _ rows sub hf).1 r' hr'
      exact specLit_inv hfr' (hs r hr)
    cases dflt with
    | true =>
      simp only [if_true] at hpl
      split at hpl
      · cases hpl
      · rename_i d hd
        cases hpl
        apply fin
        intro sub hsub
        rcases List.mem_append.mp hsub with hsub | hsub
        · exact hk sub hsub
        · simp only [List.mem_singleton] at hsub
          subst hsub
          intro r' hr'
          obtain ⟨r, hr, hfr'⟩ := (filterMapE_mem _ rows _ hd).1 r' hr'
          exact specDflt_inv hfr' (hs r hr)
    | false =>
      simp only [Bool.false_eq_true, if_false] at hpl
      cases hpl
      exact fin subs keys false hk

theorem enumSubs_inv (S : Sig) (hinj : ∀ i j, S.gen i = S.gen j → i = j) {bodyFv : β → List String}
    {Γ : List String} {T : List (String × Ty)} {bv : String} {nv : Nat} {rows : List (Row β)} {t : Ty}
    {n n1 : Nat} (hfr : FreshT S.gen n T) (hbv : lookupTy bv T = some t)
    (hs : ∀ r ∈ rows, RowInv S bodyFv Γ T r)
    (tname : String) (σ : List (String × Ty)) (allv : List (String × List Ty))
    (hcomp : ∀ a b i, compTys S t (.enum a b i) =
      match allv[i]? with | some v => some (substTys σ v.2) | none => none) :
    ∀ (variants : List (String × List Ty)) (m idx : Nat) (subs : List (List (Row β))),
      n ≤ m → (enumHeads S.gen tname σ m idx variants).2 ≤ n1 → (∀ k, variants[k]? = allv[idx + k]?) →
      enumSubs bv nv rows (enumHeads S.gen tname σ m idx variants).1 idx = .ok subs →
      All2 (SubInv S bodyFv Γ T n1) ((enumHeads S.gen tname σ m idx variants).1.map (·.2)) subs := by
  intro variants
  induction variants with
  | nil =>
    intro m idx subs _ _ _ h
    simp only [enumHeads, enumSubs] at h
    cases h
    exact .nil
  | cons v rest ih =>
    intro m idx subs hnm hn1 hv h
    simp only [enumHeads, enumSubs] at h
    split at h
    · cases h
    · rename_i s hs'
      split at h
      · cases h
      · rename_i rest' hrest
        cases h
        simp only [enumHeads, List.map_cons]
        have hge := enumHeads_ge S.gen tname σ rest (m + v.2.length) (idx + 1)
        simp only [enumHeads] at hn1
        have hl : (genNames S.gen m v.2.length).length = (substTys σ v.2).length := by
          rw [genNames_length, substTys_length]
        refine .cons ?_ (ih _ _ rest' (by omega) hn1 ?_ hrest)
        · rw [map_fst_zip_eq _ _ hl] at hs'
          refine ⟨FreshT.ext hinj _ hfr hnm (by omega), ?_⟩
          intro r' hr'
          obtain ⟨r, hr, hf⟩ := (filterMapE_mem _ rows s hs').1 r' hr'
          rw [map_fst_zip_eq _ _ hl]
          have hv0 : allv[idx]? = some v := by
            have := hv 0
            simpa using this.symm
          refine specEnum_inv (genNames_nodup hinj _ _) hl (genNames_fresh hfr hnm) hbv ?_ hf (hs r hr)
          intro a b tys' hc
          rw [hcomp, hv0] at hc
          simp only [Option.some.injEq] at hc
          exact hc.symm
        · intro k
          have := hv (k + 1)
          simp only [List.getElem?_cons_succ] at this
          rw [this]
          congr 1
          omega

theorem plan_inv (S : Sig) (hinj : ∀ i j, S.gen i = S.gen j → i = j) {bodyFv : β → List String}
    {Γ : List String} {T : List (String × Ty)} {n : Nat} {bv : String} {bty ty : Ty}
    {rows : List (Row β)} {pl : Plan β}
    (hplan : plan S n bv bty ty rows = .ok pl) (hfr : FreshT S.gen n T)
    (hbv : lookupTy bv T = some bty) (hs : ∀ r ∈ rows, RowInv S bodyFv Γ T r) :
    All2 (SubInv S bodyFv Γ T pl.n1) (shapeVars pl.shape pl.subs.length) pl.subs := by
  unfold plan at hplan
  split at hplan
  · cases hplan
  · exact litPlan_inv hplan hfr hs
  · exact litPlan_inv hplan hfr hs
  · split at hplan
    · cases hplan
    · split at hplan
      · cases hplan
      · cases hplan
      · exact litPlan_inv hplan hfr hs
  · split at hplan
    · cases hplan
    · exact litPlan_inv hplan hfr hs
  · rename_i name targs hk
    split at hplan
    · cases hplan
    · rename_i d hd
      split at hplan
      · cases hplan
      · dsimp only at hplan
        split at hplan
        · cases hplan
        · rename_i subs hsubs
          cases hplan
          simp only [shapeVars]
          refine enumSubs_inv S hinj hfr hbv hs name _ d.variants ?_ d.variants n 0 subs
            (Nat.le_refl _) (Nat.le_refl _) (fun k => by simp) hsubs
          intro a b i
          simp only [compTys, hk, hd]
          cases d.variants[i]? <;> rfl
  · rename_i name targs hk
    split at hplan
    · cases hplan
    · rename_i d hd
      split at hplan
      · cases hplan
      · dsimp only at hplan
        split at hplan
        · cases hplan
        · rename_i s hs'
          cases hplan
          simp only [shapeVars]
          have hl : (genNames S.gen n d.fields.length).length =
              (substTys (d.generics.zip targs) (d.fields.map (·.2))).length := by
            rw [genNames_length, substTys_length, List.length_map]
          refine .cons ⟨FreshT.ext hinj _ hfr (Nat.le_refl _) (Nat.le_refl _), ?_⟩ .nil
          intro r' hr'
          obtain ⟨r, hr, hf⟩ := (filterMapE_mem _ rows s hs').1 r' hr'
          rw [map_fst_zip_eq _ _ hl]
          refine specStruct_inv (genNames_nodup hinj _ _) hl (genNames_fresh hfr (Nat.le_refl _)) hbv ?_ hf
            (hs r hr)
          intro sn tys' hc
          simp only [compTys, hk, hd, Option.some.injEq] at hc
          exact hc.symm
  · rename_i typs hk
    dsimp only at hplan
    split at hplan
    · cases hplan
    · rename_i s hs'
      cases hplan
      simp only [shapeVars]
      have hl : (genNames S.gen n typs.length).length = typs.length := genNames_length _ _ _
      refine .cons ⟨FreshT.ext hinj _ hfr (Nat.le_refl _) (Nat.le_refl _), ?_⟩ .nil
      intro r' hr'
      obtain ⟨r, hr, hf⟩ := (filterMapE_mem _ rows s hs').1 r' hr'
      rw [map_fst_zip_eq _ _ hl]
      exact specTuple_inv (genNames_nodup hinj _ _) (genNames_fresh hfr (Nat.le_refl _))
        (by rw [hbv, tuple_of_kind hk]) hf (hs r hr)

/-! ### the induction over `compile_rows` -/

theorem compileSeq_all2 {α : Type} {P : α → List (Row β) → Prop} {Q : α → DT β → Prop}
    {rec : Nat → List (Row β) → Option (M (DT β × Nat))} (n0 : Nat)
    (hmono : ∀ m rows t m', rec m rows = some (.ok (t, m')) → m ≤ m')
    (hrec : ∀ a sub m t m', P a sub → n0 ≤ m → rec m sub = some (.ok (t, m')) → Q a t) :
    ∀ (as : List α) (subs : List (List (Row β))) (n : Nat) (ts : List (DT β)) (n' : Nat), n0 ≤ n →
      All2 P as subs → compileSeq rec n subs = some (.ok (ts, n')) → All2 Q as ts := by
  intro as subs n ts n' hn hall
  induction hall generalizing n ts n' with
  | nil => intro h; simp only [compileSeq] at h; cases h; exact .nil
  | cons hab _ ih =>
    intro h
    simp only [compileSeq] at h
    split at h
    · cases h
    · cases h
    · rename_i r hr
      split at h
      · cases h
      · cases h
      · rename_i q hq
        cases h
        exact .cons (hrec _ _ n r.1 r.2 hab hn hr)
          (ih r.2 q.1 q.2 (Nat.le_trans hn (hmono _ _ _ _ hr)) hq)

theorem compileRows_fvOk (S : Sig) (hinj : ∀ i j, S.gen i = S.gen j → i = j) (bodyFv : β → List String) :
    ∀ (fuel : Nat) (ty : Ty) (n : Nat) (rows : List (Row β)) (t : DT β) (n' : Nat) (Γ : List String)
      (T : List (String × Ty)),
      compileRows S fuel ty n rows = some (.ok (t, n')) → FreshT S.gen n T →
      (∀ r ∈ rows, RowInv S bodyFv Γ T r) → t.fvOk bodyFv Γ = true := by
  intro fuel
  induction fuel with
  | zero => intro ty n rows t n' Γ T h; simp [compileRows] at h
  | succ fuel ih =>
    intro ty n rows t n' Γ T h hfr hs
    have hs1 : ∀ r1 ∈ rows.map moveVars, RowInv S bodyFv Γ T r1 := by
      intro r1 hr1
      obtain ⟨r, hr, rfl⟩ := List.mem_map.mp hr1
      exact (hs r hr).moveVars
    have hnv : ∀ r1 ∈ rows.map moveVars, ∀ c ∈ r1.cols, isVarOrWild c.2 = false := by
      intro r1 hr1
      obtain ⟨r, _, rfl⟩ := List.mem_map.mp hr1
      exact moveVars_nv r
    simp only [compileRows] at h
    split at h
    · cases h; rfl
    · rename_i r0 rest heq
      rw [heq] at hs1 hnv
      split at h
      · rename_i hemp
        cases h
        simp only [DT.fvOk]
        have h0 := hs1 r0 (by simp)
        apply bindsFvOk_intro bodyFv r0.body r0.binds Γ h0.binds
        intro y hy
        rcases h0.body y hy with h1 | h1 | h1
        · exact Or.inl h1
        · exact Or.inr h1
        · have : r0.cols = [] := by simpa using hemp
          rw [this] at h1
          simp [colsPvars] at h1
      · split at h
        · cases h
        · rename_i bvt hbvt
          split at h
          · cases h
          · rename_i pl hpl
            split at h
            · cases h
            · cases h
            · rename_i q hq
              cases h
              obtain ⟨⟨p0, hp0⟩, r, hr, p, hp, hpt⟩ := branchVar_spec (bv := bvt.1) (bty := bvt.2) hbvt
              have hbvΓ : bvt.1 ∈ Γ := ((hs1 r0 (by simp)).cols _ hp0).1
              have hbvT : lookupTy bvt.1 T = some bvt.2 := by
                obtain ⟨_, t0, ht0, hwf⟩ := (hs1 r hr).cols _ hp
                have hnv' := hnv r hr _ hp
                simp only at ht0 hwf hnv'
                rw [ht0, ← hpt]
                cases p with
                | wild _ => simp [isVarOrWild] at hnv'
                | var _ _ => simp [isVarOrWild] at hnv'
                | prim _ ty' =>
                  simp only [Pat.wfAt] at hwf
                  have e := tyEqB_sound _ _ hwf
                  subst e; rfl
                | tuple _ ty' =>
                  simp only [Pat.wfAt, Bool.and_eq_true] at hwf
                  have e := tyEqB_sound _ _ hwf.1
                  subst e; rfl
                | constr _ _ ty' =>
                  simp only [Pat.wfAt, Bool.and_eq_true] at hwf
                  have e := tyEqB_sound _ _ hwf.1
                  subst e; rfl
              have hsub := plan_inv S hinj hpl hfr hbvT hs1
              apply fvOk_build bodyFv Γ _ _ _ hbvΓ pl.shape pl.subs.length
              refine compileSeq_all2 (P := SubInv S bodyFv Γ T pl.n1) (Q := SubOk bodyFv Γ) pl.n1 ?_ ?_
                _ pl.subs pl.n1 q.1 q.2 (Nat.le_refl _) hsub hq
              · intro m rows' t' m' hc
                exact (compileRows_good S hinj fuel pl.subTy m rows' t' m' hc).1
              · intro vs sub m t' m' hP hm hc Γ' hΓ'
                refine ih pl.subTy m sub t' m' Γ' (vs ++ T) hc (hP.1.mono hm) ?_
                intro r' hr'
                exact (hP.2 r' hr').weaken (fun y hy => hΓ' y (List.mem_append.mp hy)) (fun _ _ h => h)

/-! ### from the tree to the emitted expression -/

theorem subsetB_iff {l Γ : List String} : subsetB l Γ = true ↔ ∀ y ∈ l, y ∈ Γ := by
  simp [subsetB]

theorem closedE_iff {Γ : List String} {e : Expr} : closedE Γ e = true ↔ ∀ y ∈ fvE e, y ∈ Γ := subsetB_iff

theorem fvE_matchE (ty : Ty) (sc : Expr) (arms : List Arm) (d : Option Expr) :
    fvE (.matchE ty sc arms d) = fvE sc ++ fvEArms arms ++ (match d with | some d => fvE d | none => []) := by
  cases d <;> simp only [fvE]

theorem fvE_wrapBinds (b : Expr) : ∀ (bs : List Bind) (Γ : List String), bindsFvOk fvE bs b Γ = true →
    ∀ y ∈ fvE (wrapBinds bs b), y ∈ Γ := by
  intro bs
  induction bs with
  | nil => intro Γ h; simp only [bindsFvOk] at h; exact subsetB_iff.mp h
  | cons bd bs ih =>
    intro Γ h y hy
    simp only [bindsFvOk, Bool.and_eq_true] at h
    simp only [wrapBinds, fvE] at hy
    rcases List.mem_append.mp hy with h1 | h1
    · rw [List.mem_singleton.mp h1]; exact contains_mem.mp h.1
    · obtain ⟨h2, hne⟩ := List.mem_filter.mp h1
      rcases List.mem_cons.mp (ih _ h.2 y h2) with e | h'
      · simp [e] at hne
      · exact h'

/-- `DT.fvOk` agrees with the expression-level notion on the emitted expression: a well-scoped tree
    emits an expression all of whose free variables are in `Γ` (`missing` is the runtime function the
    `missing` leaf calls) -/
theorem fvOk_toExpr (t : DT Expr) : ∀ (Γ : List String), "missing" ∈ Γ → t.fvOk fvE Γ = true →
    ∀ y ∈ fvE t.toExpr, y ∈ Γ := by
  apply DT.rec
    (motive_1 := fun t => ∀ (Γ : List String), "missing" ∈ Γ → t.fvOk fvE Γ = true →
      ∀ y ∈ fvE t.toExpr, y ∈ Γ)
    (motive_2 := fun cs => ∀ (Γ : List String), "missing" ∈ Γ → cs.fvOk fvE Γ = true →
      (∀ y ∈ fvEArms cs.arms, y ∈ Γ) ∧ (∀ d, cs.dfltExpr = some d → ∀ y ∈ fvE d, y ∈ Γ))
  · intro binds b Γ _ h
    simp only [DT.fvOk] at h
    simp only [DT.toExpr]
    exact fvE_wrapBinds b binds Γ h
  · intro ty Γ hm _ y hy
    simp only [DT.toExpr, emissing, fvE, fvEL, List.append_nil, List.mem_singleton] at hy
    rw [hy]; exact hm
  · intro x i ty v vty rest ih Γ hm h y hy
    simp only [DT.fvOk, Bool.and_eq_true] at h
    simp only [DT.toExpr, fvE] at hy
    rcases List.mem_append.mp hy with h1 | h1
    · rw [List.mem_singleton.mp h1]; exact contains_mem.mp h.1
    · obtain ⟨h2, hne⟩ := List.mem_filter.mp h1
      rcases List.mem_cons.mp (ih (x :: Γ) (List.mem_cons_of_mem _ hm) h.2 y h2) with e | h'
      · simp [e] at hne
      · exact h'
  · intro x c i ty v vty rest ih Γ hm h y hy
    simp only [DT.fvOk, Bool.and_eq_true] at h
    simp only [DT.toExpr, fvE] at hy
    rcases List.mem_append.mp hy with h1 | h1
    · rw [List.mem_singleton.mp h1]; exact contains_mem.mp h.1
    · obtain ⟨h2, hne⟩ := List.mem_filter.mp h1
      rcases List.mem_cons.mp (ih (x :: Γ) (List.mem_cons_of_mem _ hm) h.2 y h2) with e | h'
      · simp [e] at hne
      · exact h'
  · intro ty v vty cases ih Γ hm h y hy
    simp only [DT.fvOk, Bool.and_eq_true] at h
    obtain ⟨ih1, ih2⟩ := ih Γ hm h.2
    simp only [DT.toExpr, fvE_matchE, fvE] at hy
    rcases List.mem_append.mp hy with h1 | h1
    · rcases List.mem_append.mp h1 with h1 | h1
      · rw [List.mem_singleton.mp h1]; exact contains_mem.mp h.1
      · exact ih1 y h1
    · cases hd : cases.dfltExpr with
      | none => rw [hd] at h1; simp at h1
      | some d => rw [hd] at h1; exact ih2 d hd y h1
  · intro Γ _ _
    exact ⟨fun y hy => by simp [Cases.arms, fvEArms] at hy, fun d hd => by simp [Cases.dfltExpr] at hd⟩
  · intro t ih Γ hm h
    simp only [Cases.fvOk] at h
    refine ⟨fun y hy => by simp [Cases.arms, fvEArms] at hy, ?_⟩
    intro d hd y hy
    simp only [Cases.dfltExpr, Option.some.injEq] at hd
    subst hd
    exact ih Γ hm h y hy
  · intro hd t rest ih1 ih2 Γ hm h
    simp only [Cases.fvOk, Bool.and_eq_true] at h
    obtain ⟨r1, r2⟩ := ih2 Γ hm h.2
    refine ⟨?_, ?_⟩
    · intro y hy
      simp only [Cases.arms, fvEArms] at hy
      rcases List.mem_append.mp hy with h1 | h1
      · exact ih1 Γ hm h.1 y h1
      · exact r1 y h1
    · intro d hd'
      simp only [Cases.dfltExpr] at hd'
      exact r2 d hd'

/-! ### the theorems -/

/-- **The match compiler's tree is well-scoped** (any body type, any injective gensym).
    If every row satisfies `presHypRow` under the bound set `Γ` and the column types `T`
    ((a) column variables bound and typed, patterns well-formed at the type; (b) the arm body is closed
    given `Γ`, the row's `let` names and the pattern variables of its columns; (c) the `let`s already
    moved to the row read bound variables), and the names the gensym may still return (`≥ n`) are not
    typed column variables, then the decision tree is well-scoped under `Γ`: every variable a leaf
    copies, a switch tests, a `get`/`proj` reads is bound on the path to it, and so is every free
    variable of every arm body. -/
theorem compileRows_closed (S : Sig) (hinj : ∀ i j, S.gen i = S.gen j → i = j) (bodyFv : β → List String)
    (fuel : Nat) (ty : Ty) (n : Nat) (rows : List (Row β)) (t : DT β) (n' : Nat) (Γ : List String)
    (T : List (String × Ty))
    (hc : compileRows S fuel ty n rows = some (.ok (t, n')))
    (hfresh : ∀ j, n ≤ j → lookupTy (S.gen j) T = none)
    (hrows : presHypRows S bodyFv Γ T rows = true) : t.fvOk bodyFv Γ = true := by
  apply compileRows_fvOk S hinj bodyFv fuel ty n rows t n' Γ T hc hfresh
  intro r hr
  simp only [presHypRows, List.all_eq_true] at hrows
  exact rowInv_of_presHyp (hrows r hr)

theorem realGen_ne_of_presHypName {x : String} (h : presHypName x = true) (j : Nat) : realGen j ≠ x := by
  simp only [presHypName, Bool.or_eq_true] at h
  rcases h with h | h
  · exact realGen_ne_src j x (by unfold srcName; simpa using h)
  · split at h
    · rename_i c s hcs
      exact realGen_ne j x c s hcs (by simpa using h)
    · cases h

theorem freshT_of_presHypNames {T : List (String × Ty)} (h : presHypNames T = true) (n : Nat) :
    FreshT realGen n T := by
  intro j _
  apply lookupTy_none_of_notin
  intro p hp e
  simp only [presHypNames, List.all_eq_true] at h
  exact realGen_ne_of_presHypName (h p hp) j e.symm

/-- `compileRows_closed` for the compiler's own gensym `x{n}`, decidable hypotheses only, any body
    type -/
theorem matchc_preserves_closed_tree (S : Sig) (hgen : S.gen = realGen) (bodyFv : β → List String)
    (fuel : Nat) (ty : Ty) (n : Nat) (rows : List (Row β)) (t : DT β) (n' : Nat) (Γ : List String)
    (T : List (String × Ty))
    (hc : compileRows S fuel ty n rows = some (.ok (t, n')))
    (hnames : presHypNames T = true)
    (hrows : presHypRows S bodyFv Γ T rows = true) : t.fvOk bodyFv Γ = true :=
  compileRows_closed S (by rw [hgen]; exact realGen_injective) bodyFv fuel ty n rows t n' Γ T hc
    (by rw [hgen]; exact freshT_of_presHypNames hnames n) hrows

/-- **C03 for the match compiler: the emitted expression is closed.**
    `rows` is a pattern matrix with arm bodies in Core, `Γ` the names bound around it (locals in scope
    and global functions, among them the runtime function `missing`), `T` the types of the column
    variables.  If (decidable, on the input only)
    * `presHypRows`: in every row (a) each column variable is in `Γ` and typed by `T` and its pattern
      is well-formed at that type (`Pat.wfAt`), (b) every free variable of the arm body is in `Γ`, or
      a `let` name already moved to the row, or a pattern variable of the row's columns, (c) every
      `let` already moved to the row reads a variable in `Γ`;
    * `presHypNames`: no typed column variable is spelled like a generated name `x{n}`;
    * `missing ∈ Γ`;
    then every free variable of the expression `compile_rows` emits is in `Γ`: every pattern variable
    an arm body uses is bound on every path that reaches the arm, every temporary `x{n}` is bound by
    its `let x{n} = get/proj` before the sub-tree that tests or copies it. -/
theorem matchc_preserves_closed (S : Sig) (hgen : S.gen = realGen)
    (fuel : Nat) (ty : Ty) (n : Nat) (rows : List (Row Expr)) (t : DT Expr) (n' : Nat) (Γ : List String)
    (T : List (String × Ty))
    (hc : compileRows S fuel ty n rows = some (.ok (t, n')))
    (hmissing : Γ.contains "missing" = true)
    (hnames : presHypNames T = true)
    (hrows : presHypRows S fvE Γ T rows = true) : closedE Γ t.toExpr = true :=
  closedE_iff.mpr (fvOk_toExpr t Γ (contains_mem.mp hmissing)
    (matchc_preserves_closed_tree S hgen fvE fuel ty n rows t n' Γ T hc hnames hrows))

theorem closedE_letE {Γ : List String} {x : String} {v b : Expr} (hv : closedE Γ v = true)
    (hb : closedE (x :: Γ) b = true) : closedE Γ (.letE x v b) = true := by
  rw [closedE_iff] at hv hb ⊢
  intro y hy
  simp only [fvE] at hy
  rcases List.mem_append.mp hy with h1 | h1
  · exact hv y h1
  · obtain ⟨h2, hne⟩ := List.mem_filter.mp h1
    rcases List.mem_cons.mp (hb y h2) with e | h'
    · simp [e] at hne
    · exact h'

/-- **the `EMatch` arm of `compile_expr` emits a closed expression** (hypotheses: `presHypMatch`) -/
theorem compileMatch_closed (S : Sig) (hgen : S.gen = realGen) (fuel : Nat) (ty : Ty) (mtmp : String)
    (n : Nat) (sc : Scrut) (arms : List (ArmIn Expr)) (e : Expr) (n' : Nat) (Γ : List String) (sty : Ty)
    (hc : compileMatch S fuel ty mtmp n sc arms = some (.ok (e, n')))
    (hyp : presHypMatch S Γ sty mtmp sc arms = true) : closedE Γ e = true := by
  simp only [presHypMatch, Bool.and_eq_true] at hyp
  obtain ⟨hm, hyp⟩ := hyp
  cases sc with
  | var x =>
    simp only [Bool.and_eq_true] at hyp
    simp only [compileMatch] at hc
    split at hc
    · cases hc
    · cases hc
    · rename_i r hr
      cases hc
      exact matchc_preserves_closed S hgen fuel ty n _ r.1 r.2 Γ [(x, sty)] hr hm
        (by simp [presHypNames, hyp.1]) hyp.2
  | other e0 =>
    simp only [Bool.and_eq_true] at hyp
    simp only [compileMatch] at hc
    split at hc
    · cases hc
    · cases hc
    · rename_i r hr
      cases hc
      apply closedE_letE hyp.1.1
      exact matchc_preserves_closed S hgen fuel ty n _ r.1 r.2 (mtmp :: Γ) [(mtmp, sty)] hr
        (by simp [contains_mem.mp hm]) (by simp [presHypNames, hyp.1.2]) hyp.2

/-- **the destructuring `let pat = e; rest` emits a closed expression** (hypotheses: `presHypLet`) -/
theorem compileLet_closed (S : Sig) (hgen : S.gen = realGen) (fuel : Nat) (ty : Ty) (mtmp : String)
    (n : Nat) (e : Expr) (pat : Pat) (rest : Expr) (restTy : Ty) (out : Expr) (n' : Nat) (Γ : List String)
    (hc : compileLet S fuel ty mtmp n e pat rest restTy = some (.ok (out, n')))
    (hyp : presHypLet S Γ mtmp e pat rest restTy = true) : closedE Γ out = true := by
  simp only [presHypLet, Bool.and_eq_true] at hyp
  obtain ⟨⟨⟨hm, he⟩, hname⟩, hrows⟩ := hyp
  simp only [compileLet] at hc
  split at hc
  · cases hc
  · cases hc
  · rename_i r hr
    cases hc
    apply closedE_letE he
    exact matchc_preserves_closed S hgen fuel ty n _ r.1 r.2 (mtmp :: Γ) [(mtmp, pat.ty)] hr
      (by simp [contains_mem.mp hm]) (by simp [presHypNames, hname]) hrows

/-! ## non-vacuity: a match on `Option[(int32, string)]` with a tuple payload -/

section Examples

def c03mPair : Ty := .tuple [.int 32 true, .string]
def c03mOpt : Ty := .app (.enum "Option") [c03mPair]
def c03mSig : Sig :=
  { enums := [{ name := "Option", generics := ["T"], variants := [("None", []), ("Some", [.param "T"])] }],
    structs := [{ name := "P", generics := [], fields := [("a", .int 32 true), ("b", .string)] }],
    gen := realGen }
def c03mUse (xs : List String) : Expr :=
  .call .unit (.var "show" (.func [] .unit)) (xs.map (fun x => .var x .unit))

/-- `match o { Some((n, s)) => show(n, s, k), None => (), _ => show(k) }` as the compiler sees it
    (locals `hint/index`) -/
def c03mArms : List (ArmIn Expr) :=
  [⟨.constr (.enum "Option" "Some" 1) [.tuple [.var "n/1" (.int 32 true), .var "s/2" .string] c03mPair] c03mOpt,
      c03mUse ["n/1", "s/2", "k/0"], .unit⟩,
   ⟨.constr (.enum "Option" "None" 0) [] c03mOpt, .prim .unit, .unit⟩,
   ⟨.wild c03mOpt, c03mUse ["k/0"], .unit⟩]
/-- names bound around the match: the runtime function, a global, two locals -/
def c03mΓ : List String := ["missing", "show", "k/0", "o/3"]

/-- the hypotheses hold for the match on the variable `o/3` … -/
example : presHypMatch c03mSig c03mΓ c03mOpt "mtmp0" (.var "o/3") c03mArms = true := by decide +kernel

/-- … so the theorem applies: whatever `compileMatch` emits is closed under `c03mΓ` … -/
example (e : Expr) (n' : Nat)
    (hc : compileMatch c03mSig 30 .unit "mtmp0" 0 (.var "o/3") c03mArms = some (.ok (e, n'))) :
    closedE c03mΓ e = true :=
  compileMatch_closed c03mSig rfl 30 .unit "mtmp0" 0 _ _ e n' c03mΓ c03mOpt hc (by decide +kernel)

def c03mOut (r : Option (M (Expr × Nat))) (Γ : List String) : Option Bool :=
  match r with
  | some (.ok (e, _)) => some (closedE Γ e)
  | _ => none

/-- … and it does emit something (a switch with `get`/`proj` temporaries `x0`, `x1`, `x2`), closed by
    evaluation too -/
example : c03mOut (compileMatch c03mSig 30 .unit "mtmp0" 0 (.var "o/3") c03mArms) c03mΓ = some true := by
  decide +kernel

/-- the temporaries really are needed in scope: without the binders the tree puts in front of the
    `Some` arm the emitted expression mentions `x0` (the variable the tuple is projected from) -/
example : (match compileRows c03mSig 30 .unit 0 (makeRows "o/3" c03mArms) with
    | some (.ok (t, _)) => t.fvOk fvE c03mΓ && !(t.fvOk fvE ["missing", "show", "k/0"])
    | _ => false) = true := by decide +kernel

/-- a scrutinee that is not a variable: bound once to `mtmp0`, the scrutinee expression closed -/
example : presHypMatch c03mSig c03mΓ c03mOpt "mtmp0" (.other (c03mUse ["o/3"])) c03mArms = true ∧
    c03mOut (compileMatch c03mSig 30 .unit "mtmp0" 0 (.other (c03mUse ["o/3"])) c03mArms) c03mΓ = some true := by
  decide +kernel

/-- hypothesis (b) is needed: an arm body that uses `z/9`, which is neither bound around the match
    nor a variable of the arm's pattern, is reported (`presHypMatch` fails) and the output is open -/
def c03mArmsOpen : List (ArmIn Expr) :=
  [⟨.constr (.enum "Option" "Some" 1) [.tuple [.var "n/1" (.int 32 true), .var "s/2" .string] c03mPair] c03mOpt,
      c03mUse ["n/1", "z/9"], .unit⟩,
   ⟨.wild c03mOpt, c03mUse ["k/0"], .unit⟩]
example : presHypMatch c03mSig c03mΓ c03mOpt "mtmp0" (.var "o/3") c03mArmsOpen = false ∧
    c03mOut (compileMatch c03mSig 30 .unit "mtmp0" 0 (.var "o/3") c03mArmsOpen) c03mΓ = some false := by
  decide +kernel

/-- a pattern variable of ANOTHER arm does not help: `s/2` is bound only on the path to arm 1 -/
def c03mArmsCross : List (ArmIn Expr) :=
  [⟨.constr (.enum "Option" "Some" 1) [.tuple [.var "n/1" (.int 32 true), .var "s/2" .string] c03mPair] c03mOpt,
      c03mUse ["n/1"], .unit⟩,
   ⟨.wild c03mOpt, c03mUse ["s/2"], .unit⟩]
example : presHypMatch c03mSig c03mΓ c03mOpt "mtmp0" (.var "o/3") c03mArmsCross = false ∧
    c03mOut (compileMatch c03mSig 30 .unit "mtmp0" 0 (.var "o/3") c03mArmsCross) c03mΓ = some false := by
  decide +kernel

/-- the arity part of `Pat.wfAt` is needed: `Some(a, b)` on the one-field variant — the match compiler
    `zip`s one temporary with two argument patterns, `b/2` is dropped silently and the body that uses
    it is left open; `presHypMatch` reports the arm -/
def c03mArmsArity : List (ArmIn Expr) :=
  [⟨.constr (.enum "Option" "Some" 1) [.var "a/1" c03mPair, .var "b/2" c03mPair] c03mOpt,
      c03mUse ["a/1", "b/2"], .unit⟩,
   ⟨.wild c03mOpt, .prim .unit, .unit⟩]
example : presHypMatch c03mSig c03mΓ c03mOpt "mtmp0" (.var "o/3") c03mArmsArity = false ∧
    c03mOut (compileMatch c03mSig 30 .unit "mtmp0" 0 (.var "o/3") c03mArmsArity) c03mΓ = some false := by
  decide +kernel

/-- destructuring `let P { a: x, b: _ } = mk(); show(x, k)` -/
def c03mLetPat : Pat := .constr (.struct "P") [.var "x/4" (.int 32 true), .wild .string] (.struct "P")
example : presHypLet c03mSig c03mΓ "mtmp7" (c03mUse []) c03mLetPat (c03mUse ["x/4", "k/0"]) .unit = true ∧
    c03mOut (compileLet c03mSig 30 .unit "mtmp7" 0 (c03mUse []) c03mLetPat (c03mUse ["x/4", "k/0"]) .unit)
      c03mΓ = some true := by
  decide +kernel

example (out : Expr) (n' : Nat)
    (hc : compileLet c03mSig 30 .unit "mtmp7" 0 (c03mUse []) c03mLetPat (c03mUse ["x/4", "k/0"]) .unit
      = some (.ok (out, n'))) : closedE c03mΓ out = true :=
  compileLet_closed c03mSig rfl 30 .unit "mtmp7" 0 _ _ _ _ out n' c03mΓ hc (by decide +kernel)

/-- the generic-body form on the matrix of corpus program 007 (seven arms over `Expr`, bodies are arm
    numbers, no free variables) -/
example (t : DT Nat) (n' : Nat)
    (hc : compileRows sig007 (measure rows007 + 1) .unit 0 rows007 = some (.ok (t, n'))) :
    t.fvOk (fun _ => []) ["a/0"] = true :=
  matchc_preserves_closed_tree sig007 rfl (fun _ => []) _ .unit 0 rows007 t n' ["a/0"] [("a/0", tyE)] hc
    (by decide +kernel) (by decide +kernel)

end Examples

end Goml.Match
