import GomlVerif.Model.C03presMono
import GomlVerif.Lemmas.WtSubst
import GomlVerif.Lemmas.MonoClosed
/-!
# C03 — monomorphisation (phase 1) preserves type consistency

* `SameUpToCallee` — what `mono_expr` changes beyond substituting types: names in `.var` nodes,
  the type name inside a constructor (`update_constructor_type`), trait calls resolved to direct calls.
* `monoExpr_sameUpToCallee` — `SameUpToCallee (substE σ e) (monoExpr F σ e c).1`, every expression form.
* `errs_sameUpToCallee` — the judgement `Wt.errs … = []` transfers along `SameUpToCallee`, given the
  decidable side condition `Mono.presHypCallees` on the names.
* `mono_preserves_wt_partial` (one body), `specialise_wtFn_partial` (one instance), `phase1_out_wt_partial`
  and `phase1_wtProg_partial` (the whole output of phase 1; decidable hypotheses only, `Mono.presHypProg`).
* `rewriteExpr_noApp`, `mono_preserves_wt_noApp_partial` — phase 2 is the identity on application-free bodies.
-/
namespace Goml.Wt
open Goml Goml.Mono Goml.Closed

/-! ### the relation -/

mutual
/-- `SameUpToCallee e e'`: `e'` is `e` except for
* the *name* in `.var` nodes (same annotation) — `resolveCall` / `specialize_fn_value` rename a
  reference to a generic function to the instance;
* the type name stored in the constructor of a `.constr` / `.cget` node, re-derived from the node's
  (scrutinee's) type by `update_constructor_type`;
* a `.traitCall`, which becomes a direct `.call` of some name at the function type of the arguments. -/
inductive SameUpToCallee : Expr → Expr → Prop
  | var (x x' : String) (ty : Ty) : SameUpToCallee (.var x ty) (.var x' ty)
  | prim (p : Prim) : SameUpToCallee (.prim p) (.prim p)
  | tag (i : Nat) (ty : Ty) : SameUpToCallee (.tag i ty) (.tag i ty)
  | constr (k : Ctor) (ty : Ty) {args args' : List Expr} :
    SameUpToCalleeList args args' → SameUpToCallee (.constr k ty args) (.constr (updateCtor k ty) ty args')
  | tuple (ty : Ty) {items items' : List Expr} :
    SameUpToCalleeList items items' → SameUpToCallee (.tuple ty items) (.tuple ty items')
  | array (ty : Ty) {items items' : List Expr} :
    SameUpToCalleeList items items' → SameUpToCallee (.array ty items) (.array ty items')
  | closure (ty : Ty) (ps : List (String × Ty)) {b b' : Expr} :
    SameUpToCallee b b' → SameUpToCallee (.closure ty ps b) (.closure ty ps b')
  | letE (x : String) {v v' b b' : Expr} :
    SameUpToCallee v v' → SameUpToCallee b b' → SameUpToCallee (.letE x v b) (.letE x v' b')
  | matchNone (ty : Ty) {s s' : Expr} {arms arms' : List Arm} :
    SameUpToCallee s s' → SameUpToCalleeArms arms arms' →
    SameUpToCallee (.matchE ty s arms none) (.matchE ty s' arms' none)
  | matchSome (ty : Ty) {s s' d d' : Expr} {arms arms' : List Arm} :
    SameUpToCallee s s' → SameUpToCalleeArms arms arms' → SameUpToCallee d d' →
    SameUpToCallee (.matchE ty s arms (some d)) (.matchE ty s' arms' (some d'))
  | ite {c c' t t' e e' : Expr} :
    SameUpToCallee c c' → SameUpToCallee t t' → SameUpToCallee e e' → SameUpToCallee (.ite c t e) (.ite c' t' e')
  | while {c c' b b' : Expr} :
    SameUpToCallee c c' → SameUpToCallee b b' → SameUpToCallee (.while c b) (.while c' b')
  | go {e e' : Expr} : SameUpToCallee e e' → SameUpToCallee (.go e) (.go e')
  | cget (k : Ctor) (idx : Nat) (ty : Ty) {e e' : Expr} :
    SameUpToCallee e e' → SameUpToCallee (.cget k idx ty e) (.cget (updateCtor k (getTy e)) idx ty e')
  | un (op : UnOp) (ty : Ty) {e e' : Expr} : SameUpToCallee e e' → SameUpToCallee (.un op ty e) (.un op ty e')
  | bin (op : BinOp) (ty : Ty) {l l' r r' : Expr} :
    SameUpToCallee l l' → SameUpToCallee r r' → SameUpToCallee (.bin op ty l r) (.bin op ty l' r')
  | call (ty : Ty) {f f' : Expr} {args args' : List Expr} :
    SameUpToCallee f f' → SameUpToCalleeList args args' → SameUpToCallee (.call ty f args) (.call ty f' args')
  | toDyn (tr : String) (forTy ty : Ty) {e e' : Expr} :
    SameUpToCallee e e' → SameUpToCallee (.toDyn tr forTy ty e) (.toDyn tr forTy ty e')
  | dynCall (tr m : String) (ty : Ty) {recv recv' : Expr} {args args' : List Expr} :
    SameUpToCallee recv recv' → SameUpToCalleeList args args' →
    SameUpToCallee (.dynCall tr m ty recv args) (.dynCall tr m ty recv' args')
  | traitCall (tr m : String) (ty : Ty) (nm : String) {recv recv' : Expr} {args args' : List Expr} :
    SameUpToCallee recv recv' → SameUpToCalleeList args args' →
    SameUpToCallee (.traitCall tr m ty recv args)
      (.call ty (.var nm (.func (getTys (recv' :: args')) ty)) (recv' :: args'))
  | proj (idx : Nat) (ty : Ty) {e e' : Expr} : SameUpToCallee e e' → SameUpToCallee (.proj idx ty e) (.proj idx ty e')
inductive SameUpToCalleeList : List Expr → List Expr → Prop
  | nil : SameUpToCalleeList [] []
  | cons {e e' : Expr} {es es' : List Expr} :
    SameUpToCallee e e' → SameUpToCalleeList es es' → SameUpToCalleeList (e :: es) (e' :: es')
inductive SameUpToCalleeArms : List Arm → List Arm → Prop
  | nil : SameUpToCalleeArms [] []
  | cons {l l' b b' : Expr} {rest rest' : List Arm} :
    SameUpToCallee l l' → SameUpToCallee b b' → SameUpToCalleeArms rest rest' →
    SameUpToCalleeArms (.mk l b :: rest) (.mk l' b' :: rest')
end

/-- a name on the right may be replaced by any other -/
theorem SameUpToCallee.rename_right {a : Expr} {x : String} {t : Ty} (x' : String)
    (h : SameUpToCallee a (.var x t)) : SameUpToCallee a (.var x' t) := by
  cases h
  exact .var _ _ _

/-- related expressions have the same type -/
theorem SameUpToCallee.getTy_eq (e : Expr) : ∀ e', SameUpToCallee e e' → getTy e = getTy e' := by
  apply Expr.rec
    (motive_1 := fun e => ∀ e', SameUpToCallee e e' → getTy e = getTy e')
    (motive_2 := fun _ => True) (motive_3 := fun _ => True) (motive_4 := fun _ => True) (motive_5 := fun _ => True)
  case letE => intro x v b _ ih2 e' h; cases h with | letE _ _ hb => simpa [getTy] using ih2 _ hb
  case ite => intro c t e _ ih2 _ e' h; cases h with | ite _ ht _ => simpa [getTy] using ih2 _ ht
  all_goals intros
  all_goals first
    | trivial
    | (rename_i h; cases h <;> simp [getTy])

theorem SameUpToCalleeList.getTys_eq (es : List Expr) : ∀ es', SameUpToCalleeList es es' → getTys es = getTys es' := by
  induction es with
  | nil => intro es' h; cases h; rfl
  | cons e es ih =>
    intro es' h
    cases h with
    | cons h1 h2 => simp [getTys, SameUpToCallee.getTy_eq e _ h1, ih _ h2]

theorem SameUpToCalleeList.length_eq (es : List Expr) : ∀ es', SameUpToCalleeList es es' → es.length = es'.length := by
  induction es with
  | nil => intro es' h; cases h; rfl
  | cons e es ih =>
    intro es' h
    cases h with
    | cons h1 h2 => simp [ih _ h2]

/-! ### `mono_expr` is substitution up to callee names -/

theorem substParams_eq_substParamTys (σ : Subst) (ps : List (String × Ty)) : substParams σ ps = substParamTys σ ps := by
  induction ps with
  | nil => rfl
  | cons p ps ih => obtain ⟨x, t⟩ := p; simp [substParams, substParamTys, ih]

theorem resolveCall_same (F : List Fn) (nty : Ty) (a f' : Expr) (as args' : List Expr) (c : Ctx)
    (hf : SameUpToCallee a f') (ha : SameUpToCalleeList as args') :
    SameUpToCallee (.call nty a as) (resolveCall F nty f' args' c).1 := by
  rcases resolveCall_cases F nty f' args' c with e | ⟨m, e⟩ | ⟨x, fty, callee, s1, cs, hv, _, _, _, _, e⟩ <;> rw [e]
  · exact .call nty hf ha
  · exact .call nty hf ha
  · subst hv
    exact .call nty (hf.rename_right _) ha

section
variable (F : List Fn) (σ : Subst)

/-- **`mono_expr` is `substE` up to callee names**: the expression phase 1 emits for `e` under `σ` is the
substitution instance `substE σ e`, except for renamed references, re-derived constructor type names
and resolved trait calls (`SameUpToCallee`) — for every expression form and every context -/
theorem monoExpr_sameUpToCallee (e : Expr) : ∀ c, SameUpToCallee (substE σ e) (monoExpr F σ e c).1 := by
  apply Expr.rec
    (motive_1 := fun e => ∀ c, SameUpToCallee (substE σ e) (monoExpr F σ e c).1)
    (motive_2 := fun a => ∀ c, SameUpToCalleeArms (substAs σ [a]) (monoArms F σ [a] c).1)
    (motive_3 := fun es => ∀ c, SameUpToCalleeList (substEs σ es) (monoList F σ es c).1)
    (motive_4 := fun arms => ∀ c, SameUpToCalleeArms (substAs σ arms) (monoArms F σ arms c).1)
    (motive_5 := fun o => ∀ c, match o with
      | none => True
      | some d => SameUpToCallee (substE σ d) (monoExpr F σ d c).1)
  case var =>
    intro x ty c
    simp only [monoExpr, substE]
    rcases monoVar_cases F σ x ty c with e | ⟨callee, cs, _, _, e⟩ <;> rw [e] <;> exact .var _ _ _
  case prim => intro p c; simp only [monoExpr, substE]; exact .prim p
  case tag => intro i ty c; simp only [monoExpr, substE]; exact .tag _ _
  case constr => intro k ty args ih c; simp only [monoExpr, substE]; exact .constr _ _ (ih c)
  case tuple => intro ty items ih c; simp only [monoExpr, substE]; exact .tuple _ (ih c)
  case array => intro ty items ih c; simp only [monoExpr, substE]; exact .array _ (ih c)
  case closure =>
    intro ty ps b ih c
    simp only [monoExpr, substE, substParams_eq_substParamTys]
    exact .closure _ _ (ih c)
  case letE => intro x v b ih1 ih2 c; simp only [monoExpr, substE]; exact .letE _ (ih1 c) (ih2 _)
  case matchE =>
    intro ty s arms d ih1 ih2 ih3 c
    cases d with
    | none => simp only [monoExpr, substE]; exact .matchNone _ (ih1 c) (ih2 _)
    | some d => simp only [monoExpr, substE]; exact .matchSome _ (ih1 c) (ih2 _) (ih3 _)
  case ite => intro cnd t e ih1 ih2 ih3 c; simp only [monoExpr, substE]; exact .ite (ih1 c) (ih2 _) (ih3 _)
  case «while» => intro cnd b ih1 ih2 c; simp only [monoExpr, substE]; exact .while (ih1 c) (ih2 _)
  case go => intro e ih c; simp only [monoExpr, substE]; exact .go (ih c)
  case cget =>
    intro k idx ty e ih c
    simp only [monoExpr, substE]
    rw [← getTy_substE]
    exact .cget _ _ _ (ih c)
  case un => intro op ty e ih c; simp only [monoExpr, substE]; exact .un _ _ (ih c)
  case bin => intro op ty l r ih1 ih2 c; simp only [monoExpr, substE]; exact .bin _ _ (ih1 c) (ih2 _)
  case call =>
    intro ty f args ih1 ih2 c
    rcases var_or_not f with ⟨x, t, rfl⟩ | hn
    · rw [monoExpr_call_var]
      simp only [substE]
      exact resolveCall_same F _ _ _ _ _ _ (.var _ _ _) (ih2 c)
    · rw [monoExpr_call_nonvar F σ ty f args c hn]
      simp only [substE]
      exact resolveCall_same F _ _ _ _ _ _ (ih1 c) (ih2 _)
  case toDyn => intro tr ft ty e ih c; simp only [monoExpr, substE]; exact .toDyn _ _ _ (ih c)
  case dynCall => intro tr m ty r args ih1 ih2 c; simp only [monoExpr, substE]; exact .dynCall _ _ _ (ih1 c) (ih2 _)
  case traitCall =>
    intro tr m ty r args ih1 ih2 c
    simp only [monoExpr, substE]
    exact .traitCall _ _ _ _ (ih1 c) (ih2 _)
  case proj => intro i ty e ih c; simp only [monoExpr, substE]; exact .proj _ _ (ih c)
  case mk =>
    intro l b ih1 ih2 c
    simp only [monoArms, substAs]
    exact .cons (ih1 c) (ih2 _) .nil
  case nil => intro c; simp only [monoList, substEs]; exact .nil
  case cons => intro e es ih1 ih2 c; simp only [monoList, substEs]; exact .cons (ih1 c) (ih2 _)
  case nil => intro c; simp only [monoArms, substAs]; exact .nil
  case cons =>
    intro a arms ih1 ih2 c
    obtain ⟨l, b⟩ := a
    have h1 := ih1 c
    simp only [monoArms, substAs] at h1 ⊢
    cases h1 with
    | cons hl hb _ => exact .cons hl hb (ih2 _)
  case none => intro c; trivial
  case some => intro d ih c; exact ih c

end

/-! ### the judgement transfers along `SameUpToCallee` -/

@[simp] theorem presSig_fns (S : Sig) (fns' : List Fn) : (presSig S fns').fns = fns' := rfl
@[simp] theorem presSig_builtins (S : Sig) (fns' : List Fn) : (presSig S fns').builtins = S.builtins := rfl
@[simp] theorem fieldTys_presSig (S : Sig) (fns' : List Fn) (k : Ctor) (ty : Ty) :
    fieldTys (presSig S fns') k ty = fieldTys S k ty := rfl
@[simp] theorem methodTy_presSig (S : Sig) (fns' : List Fn) (tr m : String) (self : Ty) :
    methodTy (presSig S fns') tr m self = methodTy S tr m self := rfl

theorem updateCtor_enum_of_nominal {tn v : String} {i : Nat} {ty : Ty} {targs : List Ty}
    (h : nominalArgs tn ty = some targs) : updateCtor (.enum tn v i) ty = .enum tn v i := by
  cases ty with
  | enum n => simp [nominalArgs] at h; simp [updateCtor, h.1]
  | struct n => simp [updateCtor]
  | app b args => cases b <;> simp [nominalArgs] at h <;> simp [updateCtor, constrName, h.1]
  | _ => simp [nominalArgs] at h

theorem updateCtor_struct_of_nominal {tn : String} {ty : Ty} {targs : List Ty}
    (h : nominalArgs tn ty = some targs) : updateCtor (.struct tn) ty = .struct tn := by
  cases ty with
  | enum n => simp [updateCtor]
  | struct n => simp [nominalArgs] at h; simp [updateCtor, h.1]
  | app b args => cases b <;> simp [nominalArgs] at h <;> simp [updateCtor, constrName, h.1]
  | _ => simp [nominalArgs] at h

/-- `update_constructor_type` is the identity on a constructor that exists at the node's type -/
theorem updateCtor_of_fieldTys {S : Sig} {k : Ctor} {ty : Ty} {fts : List Ty} (h : fieldTys S k ty = some fts) :
    updateCtor k ty = k := by
  cases k with
  | enum tn v i =>
    cases hd : findEnum S.enums tn <;> cases hn : nominalArgs tn ty <;> simp [fieldTys, hd, hn] at h
    exact updateCtor_enum_of_nominal hn
  | struct tn =>
    cases hd : findStruct S.structs tn <;> cases hn : nominalArgs tn ty <;> simp [fieldTys, hd, hn] at h
    exact updateCtor_struct_of_nominal hn

theorem pres_compatTys_refl (ts : List Ty) : compatTys ts ts = true := by
  have := compatTy_refl (.tuple ts)
  simpa [compatTy] using this

/-- the side condition at a `.var` node is what the judgement of the renamed node needs -/
theorem presHypVar_sound (S : Sig) (fns' : List Fn) (Γ : TyEnv) (x x' : String) (ty : Ty)
    (h : errs S Γ (.var x ty) = []) (hc : presHypVar S fns' Γ x x' ty = true) :
    errs (presSig S fns') Γ (.var x' ty) = [] := by
  simp only [presHypVar, Bool.or_eq_true, Bool.and_eq_true, beq_iff_eq] at hc
  rcases hc with ⟨rfl, hc⟩ | hc
  · cases hl : lookupVar Γ x with
    | some t => simp only [errs, hl] at h ⊢; exact h
    | none =>
      simp only [hl, Option.isSome_none, Bool.false_eq_true, false_or, presHypGlobalAgree] at hc
      simp only [errs, hl, presSig_fns, presSig_builtins] at h ⊢
      cases h1 : findCallee S.fns x <;> cases h2 : findCallee fns' x <;> simp only [h1, h2] at hc h ⊢
      · exact h
      · simp at hc
      · simp at hc
      · rw [← (tyBeq_iff _ _).1 hc]
        simp only [check_nil] at h ⊢
        exact h
  · simpa [presHypVarOk, List.isEmpty_iff] using hc

/-- what the side condition asks of a renamed callee: for a name `x'` no binder binds and that `fns'`
resolves to `g`, `presHypVarOk` is exactly "the annotation is an instance of `g`'s type" -/
theorem presHypVarOk_global (S : Sig) (fns' : List Fn) (Γ : TyEnv) (x' : String) (ty : Ty) (g : Fn)
    (hΓ : lookupVar Γ x' = none) (hg : findCallee fns' x' = some g) :
    presHypVarOk S fns' Γ x' ty = instOf (fnTy g) ty := by
  simp only [presHypVarOk, errs, hΓ, presSig_fns, hg, check]
  cases instOf (fnTy g) ty <;> simp

/-- the head of a match arm as `errsArms` judges it -/
def armHeadErrs (S : Sig) (st : Ty) (lhs : Expr) : List String :=
  match lhs with
  | .constr c ty args =>
    checkEq ty st "arm:constructor-type" ++
    (match fieldTys S c ty with
     | none => ["arm:no-such-constructor-at-this-type"]
     | some fts => check (tysBeq fts (getTys args)) ("arm:field-types|" ++ diffClasses fts (getTys args)))
  | .prim p => checkEq (primTy p) st "arm:literal-type"
  | .tag _ ty => checkEq ty st "arm:tag-type"
  | _ => ["arm:head"]

theorem errsArms_cons_head (S : Sig) (Γ : TyEnv) (st rt : Ty) (l b : Expr) (rest : List Arm) :
    errsArms S Γ st rt (.mk l b :: rest) =
      armHeadErrs S st l ++ errs S Γ b ++ checkEq (getTy b) rt "arm:body-type" ++ errsArms S Γ st rt rest := by
  cases l <;> simp only [errsArms, armHeadErrs] <;> rfl

theorem armHeadErrs_same (S : Sig) (fns' : List Fn) (st : Ty) {l l' : Expr} (hl : SameUpToCallee l l')
    (h : armHeadErrs S st l = []) : armHeadErrs (presSig S fns') st l' = [] := by
  cases hl with
  | prim p => exact h
  | tag i ty => exact h
  | constr k ty ha =>
    simp only [armHeadErrs, List.append_eq_nil_iff, fieldTys_presSig] at h ⊢
    obtain ⟨fts, hf⟩ : ∃ fts, fieldTys S k ty = some fts := by
      cases hf : fieldTys S k ty with
      | none => simp [hf] at h
      | some fts => exact ⟨fts, rfl⟩
    refine ⟨h.1, ?_⟩
    rw [updateCtor_of_fieldTys hf, ← SameUpToCalleeList.getTys_eq _ _ ha]
    exact h.2
  | _ => simp [armHeadErrs] at h

section
variable (S : Sig) (fns' : List Fn)

/-- **transfer**: if `e` is type-consistent under `S`, `Γ`, and `e'` is `e` up to callee names, then `e'` is
type-consistent under the same definitions with the function table `fns'`, provided the names of
`e'` pass the decidable side condition `presHypCallees` -/
theorem errs_sameUpToCallee (e : Expr) : ∀ Γ e', SameUpToCallee e e' → errs S Γ e = [] →
    presHypCallees S fns' Γ e e' = true → errs (presSig S fns') Γ e' = [] := by
  apply Expr.rec
    (motive_1 := fun e => ∀ Γ e', SameUpToCallee e e' → errs S Γ e = [] →
      presHypCallees S fns' Γ e e' = true → errs (presSig S fns') Γ e' = [])
    (motive_2 := fun a => ∀ Γ st rt as', SameUpToCalleeArms [a] as' → errsArms S Γ st rt [a] = [] →
      presHypCalleesArms S fns' Γ [a] as' = true → errsArms (presSig S fns') Γ st rt as' = [])
    (motive_3 := fun es => ∀ Γ es', SameUpToCalleeList es es' → errsList S Γ es = [] →
      presHypCalleesList S fns' Γ es es' = true → errsList (presSig S fns') Γ es' = [])
    (motive_4 := fun arms => ∀ Γ st rt as', SameUpToCalleeArms arms as' → errsArms S Γ st rt arms = [] →
      presHypCalleesArms S fns' Γ arms as' = true → errsArms (presSig S fns') Γ st rt as' = [])
    (motive_5 := fun o => match o with
      | none => True
      | some d => ∀ Γ d', SameUpToCallee d d' → errs S Γ d = [] →
          presHypCallees S fns' Γ d d' = true → errs (presSig S fns') Γ d' = [])
  case var =>
    intro x ty Γ e' hs h hc
    cases hs
    simp only [presHypCallees] at hc
    exact presHypVar_sound S fns' Γ x _ ty h hc
  case prim => intro p Γ e' hs h hc; cases hs; simp [errs]
  case tag => intro i ty Γ e' hs h hc; cases hs; simp [errs]
  case constr =>
    intro k ty args ih Γ e' hs h hc
    cases hs with
    | constr _ _ ha =>
      simp only [presHypCallees] at hc
      simp only [errs, List.append_eq_nil_iff, fieldTys_presSig] at h ⊢
      obtain ⟨fts, hf⟩ : ∃ fts, fieldTys S k ty = some fts := by
        cases hf : fieldTys S k ty with
        | none => simp [hf] at h
        | some fts => exact ⟨fts, rfl⟩
      refine ⟨ih Γ _ ha h.1 hc, ?_⟩
      rw [updateCtor_of_fieldTys hf, ← SameUpToCalleeList.getTys_eq _ _ ha]
      exact h.2
  case tuple =>
    intro ty items ih Γ e' hs h hc
    cases hs with
    | tuple _ ha =>
      simp only [presHypCallees] at hc
      simp only [errs, List.append_eq_nil_iff, checkEq_nil] at h ⊢
      exact ⟨ih Γ _ ha h.1 hc, by rw [← SameUpToCalleeList.getTys_eq _ _ ha]; exact h.2⟩
  case array =>
    intro ty items ih Γ e' hs h hc
    cases hs with
    | array _ ha =>
      simp only [presHypCallees] at hc
      simp only [errs, List.append_eq_nil_iff] at h ⊢
      refine ⟨ih Γ _ ha h.1 hc, ?_⟩
      have h2 := h.2
      cases ty <;> simp at h2
      simp only [check_nil] at h2
      simp only [List.append_eq_nil_iff, check_nil]
      rw [← SameUpToCalleeList.getTys_eq _ _ ha, ← SameUpToCalleeList.length_eq _ _ ha]
      exact ⟨by simpa using h2.1, h2.2⟩
  case closure =>
    intro ty ps b ih Γ e' hs h hc
    cases hs with
    | closure _ _ hb =>
      simp only [presHypCallees] at hc
      simp only [errs, List.append_eq_nil_iff, checkEq_nil] at h ⊢
      exact ⟨ih _ _ hb h.1 hc, by rw [← SameUpToCallee.getTy_eq _ _ hb]; exact h.2⟩
  case letE =>
    intro x v b ih1 ih2 Γ e' hs h hc
    cases hs with
    | letE _ hv hb =>
      simp only [presHypCallees, Bool.and_eq_true] at hc
      simp only [errs, List.append_eq_nil_iff] at h ⊢
      rw [← SameUpToCallee.getTy_eq _ _ hv] at hc ⊢
      exact ⟨ih1 Γ _ hv h.1 hc.1, ih2 _ _ hb h.2 hc.2⟩
  case matchE =>
    intro ty s arms d ih1 ih2 ih3 Γ e' hs h hc
    cases d with
    | none =>
      cases hs with
      | matchNone _ hs1 ha =>
        simp only [presHypCallees, Bool.and_eq_true] at hc
        simp only [errs, List.append_eq_nil_iff] at h ⊢
        rw [← SameUpToCallee.getTy_eq _ _ hs1]
        exact ⟨ih1 Γ _ hs1 h.1 hc.1, ih2 Γ _ _ _ ha h.2 hc.2⟩
    | some d =>
      cases hs with
      | matchSome _ hs1 ha hd =>
        simp only [presHypCallees, Bool.and_eq_true] at hc
        simp only [errs, List.append_eq_nil_iff, checkEq_nil] at h ⊢
        rw [← SameUpToCallee.getTy_eq _ _ hs1, ← SameUpToCallee.getTy_eq _ _ hd]
        exact ⟨⟨⟨ih1 Γ _ hs1 h.1.1.1 hc.1.1, ih2 Γ _ _ _ ha h.1.1.2 hc.1.2⟩, ih3 Γ _ hd h.1.2 hc.2⟩, h.2⟩
  case ite =>
    intro c t e ih1 ih2 ih3 Γ e' hs h hc
    cases hs with
    | ite h1 h2 h3 =>
      simp only [presHypCallees, Bool.and_eq_true] at hc
      simp only [errs, List.append_eq_nil_iff, checkEq_nil] at h ⊢
      rw [← SameUpToCallee.getTy_eq _ _ h1, ← SameUpToCallee.getTy_eq _ _ h2, ← SameUpToCallee.getTy_eq _ _ h3]
      exact ⟨⟨⟨⟨ih1 Γ _ h1 h.1.1.1.1 hc.1.1, ih2 Γ _ h2 h.1.1.1.2 hc.1.2⟩, ih3 Γ _ h3 h.1.1.2 hc.2⟩, h.1.2⟩, h.2⟩
  case «while» =>
    intro c b ih1 ih2 Γ e' hs h hc
    cases hs with
    | «while» h1 h2 =>
      simp only [presHypCallees, Bool.and_eq_true] at hc
      simp only [errs, List.append_eq_nil_iff, checkEq_nil] at h ⊢
      rw [← SameUpToCallee.getTy_eq _ _ h1]
      exact ⟨⟨ih1 Γ _ h1 h.1.1 hc.1, ih2 Γ _ h2 h.1.2 hc.2⟩, h.2⟩
  case go =>
    intro e ih Γ e' hs h hc
    cases hs with
    | go h1 =>
      simp only [presHypCallees] at hc
      simp only [errs] at h ⊢
      exact ih Γ _ h1 h hc
  case cget =>
    intro k idx ty e ih Γ e' hs h hc
    cases hs with
    | cget _ _ _ h1 =>
      simp only [presHypCallees] at hc
      simp only [errs, List.append_eq_nil_iff, fieldTys_presSig] at h ⊢
      obtain ⟨fts, hf⟩ : ∃ fts, fieldTys S k (getTy e) = some fts := by
        cases hf : fieldTys S k (getTy e) with
        | none => simp [hf] at h
        | some fts => exact ⟨fts, rfl⟩
      refine ⟨ih Γ _ h1 h.1 hc, ?_⟩
      rw [← SameUpToCallee.getTy_eq _ _ h1, updateCtor_of_fieldTys hf]
      exact h.2
  case un =>
    intro op ty e ih Γ e' hs h hc
    cases hs with
    | un _ _ h1 =>
      simp only [presHypCallees] at hc
      simp only [errs, List.append_eq_nil_iff] at h ⊢
      rw [← SameUpToCallee.getTy_eq _ _ h1]
      exact ⟨ih Γ _ h1 h.1 hc, h.2⟩
  case bin =>
    intro op ty l r ih1 ih2 Γ e' hs h hc
    cases hs with
    | bin _ _ h1 h2 =>
      simp only [presHypCallees, Bool.and_eq_true] at hc
      simp only [errs, List.append_eq_nil_iff] at h ⊢
      rw [← SameUpToCallee.getTy_eq _ _ h1, ← SameUpToCallee.getTy_eq _ _ h2]
      exact ⟨⟨ih1 Γ _ h1 h.1.1 hc.1, ih2 Γ _ h2 h.1.2 hc.2⟩, h.2⟩
  case call =>
    intro ty f args ih1 ih2 Γ e' hs h hc
    cases hs with
    | call _ h1 ha =>
      simp only [presHypCallees, Bool.and_eq_true] at hc
      simp only [errs, List.append_eq_nil_iff] at h ⊢
      rw [← SameUpToCallee.getTy_eq _ _ h1, ← SameUpToCalleeList.getTys_eq _ _ ha]
      exact ⟨⟨ih1 Γ _ h1 h.1.1 hc.1, ih2 Γ _ ha h.1.2 hc.2⟩, h.2⟩
  case toDyn =>
    intro tr ft ty e ih Γ e' hs h hc
    cases hs with
    | toDyn _ _ _ h1 =>
      simp only [presHypCallees] at hc
      simp only [errs, List.append_eq_nil_iff] at h ⊢
      rw [← SameUpToCallee.getTy_eq _ _ h1]
      exact ⟨⟨ih Γ _ h1 h.1.1 hc, h.1.2⟩, h.2⟩
  case dynCall =>
    intro tr m ty recv args ih1 ih2 Γ e' hs h hc
    cases hs with
    | dynCall _ _ _ h1 ha =>
      simp only [presHypCallees, Bool.and_eq_true] at hc
      simp only [errs, List.append_eq_nil_iff, methodTy_presSig] at h ⊢
      rw [← SameUpToCallee.getTy_eq _ _ h1, ← SameUpToCalleeList.getTys_eq _ _ ha]
      exact ⟨⟨⟨ih1 Γ _ h1 h.1.1.1 hc.1, ih2 Γ _ ha h.1.1.2 hc.2⟩, h.1.2⟩, h.2⟩
  case traitCall =>
    intro tr m ty recv args ih1 ih2 Γ e' hs h hc
    cases hs with
    | traitCall _ _ _ nm h1 ha =>
      rename_i recv' args'
      simp only [presHypCallees, Bool.and_eq_true] at hc
      simp only [errs, List.append_eq_nil_iff] at h
      have hv : errs (presSig S fns') Γ (.var nm (.func (getTys (recv' :: args')) ty)) = [] := by
        simpa [presHypVarOk, List.isEmpty_iff] using hc.1.1
      simp only [errs, errsList, getTy, List.append_eq_nil_iff, check_nil] at hv ⊢
      exact ⟨⟨hv, ih1 Γ _ h1 h.1.1 hc.1.2, ih2 Γ _ ha h.1.2 hc.2⟩, pres_compatTys_refl _, compatTy_refl _⟩
  case proj =>
    intro idx ty e ih Γ e' hs h hc
    cases hs with
    | proj _ _ h1 =>
      simp only [presHypCallees] at hc
      simp only [errs, List.append_eq_nil_iff] at h ⊢
      rw [← SameUpToCallee.getTy_eq _ _ h1]
      exact ⟨ih Γ _ h1 h.1 hc, h.2⟩
  case mk =>
    intro l b _ ih2 Γ st rt as' hs h hc
    cases hs with
    | cons hl hb hr =>
      cases hr
      simp only [presHypCalleesArms, Bool.and_eq_true] at hc
      rw [errsArms_cons_head] at h ⊢
      simp only [errsArms, List.append_eq_nil_iff, checkEq_nil, and_true] at h ⊢
      exact ⟨⟨armHeadErrs_same S fns' st hl h.1.1, ih2 Γ _ hb h.1.2 hc.1⟩, by rw [← SameUpToCallee.getTy_eq _ _ hb]; exact h.2⟩
  case nil => intro Γ es' hs h hc; cases hs; simp [errsList]
  case cons =>
    intro e es ih1 ih2 Γ es' hs h hc
    cases hs with
    | cons h1 h2 =>
      simp only [presHypCalleesList, Bool.and_eq_true] at hc
      simp only [errsList, List.append_eq_nil_iff] at h ⊢
      exact ⟨ih1 Γ _ h1 h.1 hc.1, ih2 Γ _ h2 h.2 hc.2⟩
  case nil => intro Γ st rt as' hs h hc; cases hs; simp [errsArms]
  case cons =>
    intro a arms ih1 ih2 Γ st rt as' hs h hc
    obtain ⟨l, b⟩ := a
    cases hs with
    | cons hl hb hr =>
      simp only [presHypCalleesArms, Bool.and_eq_true] at hc
      rw [errsArms_cons_head] at h ⊢
      simp only [List.append_eq_nil_iff] at h ⊢
      have r1 := ih1 Γ st rt _ (.cons hl hb .nil)
        (by rw [errsArms_cons_head]; simp [errsArms, h.1.1.1, h.1.1.2, h.1.2])
        (by simp [presHypCalleesArms, hc.1])
      rw [errsArms_cons_head] at r1
      simp only [errsArms, List.append_eq_nil_iff, and_true] at r1
      exact ⟨r1, ih2 Γ st rt _ hr h.2 hc.2⟩
  case none => trivial
  case some => intro d ih Γ d' hs h hc; exact ih Γ d' hs h hc

end

/-! ### phase 1 of mono preserves type consistency -/

/-- **C03 `mono_preserves_wt_partial`** — monomorphisation (phase 1, `mono_expr`) preserves type
consistency of a body.  If the generic body `e` is type-consistent under the generic signature `S`
(closed definitions) and binder environment `Γ`, then what `mono_expr` emits for `e` under the
substitution `σ` — in whatever state `c` the work list is — is type-consistent under `Γ` with `σ`
applied and the signature `presSig S fns'`: the definitions, builtins and traits of `S` with the function
table `fns'` (the monomorphised program's functions), provided the names of the emitted body pass the
decidable check `Mono.presHypCallees` against `fns'`: a renamed callee `f__inst` (and the
`trait_impl#…` callee of a resolved trait call) is declared in `fns'` with a type its annotation is
an instance of, an unrenamed global name means a function of the same type in `S.fns` and in `fns'`.
Every expression form of the model; no condition on `σ`, `F` or `c`.

Obtained from `subst_preserves_wt` (`errs_subst`), `monoExpr_sameUpToCallee` and `errs_sameUpToCallee`.
Lifted to whole instances (`specialise_wtFn_partial`) and to the whole output of phase 1
(`phase1_wtProg_partial`, hypothesis `Mono.presHypProg`).

**Missing for the full `mono_preserves_wt`** (why `_partial`):
* the side condition on names is checked on the output (by the driver, per program) instead of being
  derived from the work-list closure: that every instance `resolveCall` names is eventually emitted in
  `Ctx.out` under that name with header `substParams cs callee.params → substTy cs callee.ret`, and that
  this header equals the call-site annotation (`unify_sound` gives `substTy cs callee.params = argument
  types`; the annotation is only `compatTy`-related to them — array wildcard lengths);
* a binder that shadows a generic function's name is not excluded by the model (`monoVar` renames it);
  `presHypCallees` then fails, the theorem is silent;
* phase 2 (`TypeMono`, `collapse`/`rewriteExpr`) is covered only for bodies without type applications
  (`rewriteExpr_noApp` below: phase 2 is the identity there).  In general it renames `Opt[int32]` to
  `Opt__int32` in every annotation and adds `Opt__int32` to the enum table (`collapse_preserves` shows the
  generic tables are kept); that `fieldTys` over the new tables at the collapsed type equals the collapsed
  `fieldTys` over the generic tables at the applied type is not proved. -/
theorem mono_preserves_wt_partial (S : Sig) (hS : SigClosed S) (fns' F : List Fn) (σ : Subst) (Γ : TyEnv)
    (e : Expr) (c : Ctx) (h : wt S Γ e = true)
    (hc : presHypCallees S fns' (mapΓ σ Γ) (substE σ e) (monoExpr F σ e c).1 = true) :
    wt (presSig S fns') (mapΓ σ Γ) (monoExpr F σ e c).1 = true := by
  simp only [wt, List.isEmpty_iff] at h ⊢
  exact errs_sameUpToCallee S fns' _ _ _ (monoExpr_sameUpToCallee F σ e c) (errs_subst S hS σ e Γ h) hc

theorem specialise_params_env (F : List Fn) (f : Fn) (σ : Subst) (c : Ctx) :
    bindAll (specialise F f σ c).params [] = mapΓ σ (bindAll f.params []) := by
  simp only [specialise, substParams_eq_substParamTys]
  have := bindAll_map σ f.params []
  simpa [mapΓ, substParamTys] using this

/-- **whole instances**: if the generic function `f` is well-typed as a function under `S` (`wtFn`: body
consistent under its parameters, body type = result type), the instance `specialise F f σ c` phase 1
emits for the work item `(f, σ)` is well-typed as a function under `presSig S fns'`, provided its names
pass `Mono.presHypFn` (= `presHypCallees` under the instance's parameters). -/
theorem specialise_wtFn_partial (S : Sig) (hS : SigClosed S) (fns' F : List Fn) (f : Fn) (σ : Subst) (c : Ctx)
    (h : wtFn S f = true) (hc : presHypFn S fns' σ f (specialise F f σ c) = true) :
    wtFn (presSig S fns') (specialise F f σ c) = true := by
  simp only [wtFn, fnErrs, List.isEmpty_iff, List.append_eq_nil_iff, checkEq_nil] at h ⊢
  simp only [presHypFn] at hc
  rw [specialise_params_env] at hc ⊢
  have hs := monoExpr_sameUpToCallee F σ f.body c
  refine ⟨errs_sameUpToCallee S fns' _ _ _ hs (errs_subst S hS σ _ _ h.1) hc, ?_⟩
  show getTy (monoExpr F σ f.body c).1 = substTy σ f.ret
  rw [← SameUpToCallee.getTy_eq _ _ hs, getTy_substE, h.2]

/-- **the output of phase 1**: when the work list empties (`phase1 fuel fns = some c'`) and every function
of the generic program is well-typed under `S`, every emitted function `g` is the instance of some
generic function `f` at a closed substitution `σ` (name, parameters and result type are the substituted
header) and is well-typed under `presSig S fns'` as soon as its names pass `presHypFn S fns' σ f g`
(`fns'` is arbitrary; the intended one is `c'.out`). -/
theorem phase1_out_wt_partial (S : Sig) (hS : SigClosed S) (fns : List Fn) (fuel : Nat) (c' : Ctx)
    (hp : phase1 fuel fns = some c') (hwt : ∀ f ∈ origFns fns, wtFn S f = true) (fns' : List Fn) :
    ∀ g ∈ c'.out, ∃ f σ, f ∈ origFns fns ∧ ClosedSubst σ ∧ g.name = specName f.name σ ∧
      g.params = substParams σ f.params ∧ g.ret = substTy σ f.ret ∧
      (presHypFn S fns' σ f g = true → wtFn (presSig S fns') g = true) := by
  intro g hg
  have h := loop_workOk fuel (seed (origFns fns)) c' (seed_workOk (origFns fns)) hp
  obtain ⟨f, σ, c0, hf, hσ, rfl⟩ := h.2 g hg
  exact ⟨f, σ, hf, hσ, rfl, rfl, rfl, fun hc => specialise_wtFn_partial S hS fns' _ f σ c0 (hwt f hf) hc⟩

/-! ### the whole output of phase 1, with a decidable side condition -/

theorem pres_seed_out (F : List Fn) : (seed F).out = [] := by
  unfold seed
  have gen : ∀ (l : List Fn) (c : Ctx), (l.foldl (fun c f => (ensureInstance c f.name []).2) c).out = c.out := by
    intro l
    induction l with
    | nil => intro c; rfl
    | cons f l ih => intro c; simp only [List.foldl_cons]; rw [ih, ensureInstance_out]
  rw [gen]

theorem step_items {F : List Fn} {c c' : Ctx} (hs : step F c = some c') :
    c'.out = c.out ++ (presStepItem F c).map (·.2) := by
  unfold step at hs
  unfold presStepItem
  split at hs
  · simp at hs
  · rename_i w rest hw
    split at hs
    · rename_i hn
      simp only [Option.some.injEq] at hs
      subst hs
      simp [hw, hn, fail_out]
    · rename_i f hf
      simp only [Option.some.injEq] at hs
      subst hs
      simp [hw, hf, monoExpr_out]

/-- the functions the work-list loop emits are those of its trace `presItems` -/
theorem loop_items {F : List Fn} : ∀ (fuel : Nat) (c c' : Ctx), loop F fuel c = some c' →
    c'.out = c.out ++ (presItems F fuel c).map (·.2) := by
  intro fuel
  induction fuel with
  | zero =>
    intro c c' hl
    simp only [loop] at hl
    split at hl
    · simp only [Option.some.injEq] at hl; subst hl; simp [presItems]
    · simp at hl
  | succ n ih =>
    intro c c' hl
    simp only [loop] at hl
    cases hs : step F c with
    | none => simp only [hs, Option.some.injEq] at hl; subst hl; simp [presItems, hs]
    | some c1 =>
      simp only [hs] at hl
      simp only [presItems, hs, List.map_append]
      rw [ih c1 c' hl, step_items hs, List.append_assoc]

theorem stepItem_spec {F : List Fn} {c : Ctx} (h : WorkOk c) :
    ∀ p ∈ presStepItem F c, ∃ f c0, findFn F p.1.name = some f ∧ p.2 = specialise F f p.1.subst c0 := by
  intro p hp
  unfold presStepItem at hp
  split at hp
  · simp at hp
  · rename_i w rest hw
    split at hp
    · simp at hp
    · rename_i f hf
      simp only [List.mem_singleton] at hp
      subst hp
      refine ⟨f, { c with work := rest }, hf, ?_⟩
      simp only [specialise, (findFn_mem hf).2, h.named w (by rw [hw]; exact List.mem_cons_self)]

/-- every entry of the trace is a work item with the `specialise` of the function it names -/
theorem items_spec {F : List Fn} : ∀ (fuel : Nat) (c : Ctx), WorkOk c ∧ OutSpec F c →
    ∀ p ∈ presItems F fuel c, ∃ f c0, findFn F p.1.name = some f ∧ p.2 = specialise F f p.1.subst c0 := by
  intro fuel
  induction fuel with
  | zero => intro c _ p hp; simp [presItems] at hp
  | succ n ih =>
    intro c h p hp
    simp only [presItems] at hp
    cases hs : step F c with
    | none => simp [hs] at hp
    | some c1 =>
      simp only [hs, List.mem_append] at hp
      rcases hp with hp | hp
      · exact stepItem_spec h.1 p hp
      · exact ih c1 (step_workOk h hs) p hp

/-- **the whole output of phase 1 is well-typed** — decidable hypotheses only: if the work list empties,
every function of the generic program is well-typed under `S` (`wtFn`, decidable per function) and
the emitted functions pass `Mono.presHypOut` against the emitted function table itself (evaluated on the
trace `Mono.presItems` of the loop; together: `Mono.presHypProg`), then every function phase 1 emits is
well-typed under the definitions of `S` with the emitted function table (`wtProg`). -/
theorem phase1_wtProg_partial (S : Sig) (hS : SigClosed S) (fns : List Fn) (fuel : Nat) (c' : Ctx)
    (hp : phase1 fuel fns = some c') (hwt : ∀ f ∈ origFns fns, wtFn S f = true)
    (hc : presHypOut S (origFns fns) c'.out (presItems (origFns fns) fuel (seed (origFns fns))) = true) :
    wtProg (presSig S c'.out) = true := by
  have ho := loop_items fuel (seed (origFns fns)) c' hp
  rw [pres_seed_out, List.nil_append] at ho
  simp only [wtProg, presSig_fns, List.all_eq_true]
  intro g hg
  rw [ho, List.mem_map] at hg
  obtain ⟨p, hpm, rfl⟩ := hg
  obtain ⟨f, c0, hf, he⟩ := items_spec fuel _ (seed_workOk (origFns fns)) p hpm
  simp only [presHypOut, List.all_eq_true] at hc
  have h1 := hc p hpm
  simp only [hf] at h1
  rw [he] at h1 ⊢
  exact specialise_wtFn_partial S hS c'.out _ f p.1.subst c0 (hwt f (findFn_mem hf).1) h1

/-! ### phase 2 on application-free bodies -/

/-- `collapse_type_apps` returns an application-free type unchanged (whatever the fuel) -/
theorem collapse_noApp_id : ∀ fuel,
    (∀ t m, noApp t = true → (collapse fuel t m).1 = t) ∧
    (∀ ts m, noApps ts = true → (collapseList fuel ts m).1 = ts) := by
  intro fuel
  induction fuel with
  | zero => exact ⟨fun t m _ => by simp only [collapse], fun ts m _ => by simp only [collapseList]⟩
  | succ n ih =>
    obtain ⟨hC, hL⟩ := ih
    constructor
    · intro t m h
      cases t <;> simp only [collapse] <;> simp only [noApp, Bool.and_eq_true] at h
      · rw [hL _ m h]
      · simp at h
      · rw [hC _ m h]
      · rw [hC _ m h]
      · rw [hC _ m h]
      · rw [hL _ m h.1, hC _ _ h.2]
    · intro ts m h
      cases ts with
      | nil => simp only [collapseList]
      | cons t rest =>
        simp only [noApps, Bool.and_eq_true] at h
        simp only [collapseList]
        rw [hC t m h.1, hL rest _ h.2]

theorem collapseParams_noApp_id (fuel : Nat) (ps : List (String × Ty)) : ∀ m, allParamTys noApp ps = true →
    (collapseParams fuel ps m).1 = ps := by
  induction ps with
  | nil => intro m _; simp only [collapseParams]
  | cons p ps ih =>
    intro m h
    obtain ⟨x, t⟩ := p
    simp only [allParamTys, Bool.and_eq_true] at h
    simp only [collapseParams]
    rw [(collapse_noApp_id fuel).1 t m h.1, ih _ h.2]

/-- **phase 2 is the identity on application-free bodies**: `rewrite_expr_types` returns an expression all
of whose annotations are application-free unchanged, provided its constructor nodes carry the type
name of their type (`Mono.presHypCtors`; `update_constructor_type` is re-run by phase 2). -/
theorem rewriteExpr_noApp (fuel : Nat) (e : Expr) : ∀ m, allTys noApp e = true → presHypCtors e = true →
    (rewriteExpr fuel e m).1 = e := by
  have hC := (collapse_noApp_id fuel).1
  apply Expr.rec
    (motive_1 := fun e => ∀ m, allTys noApp e = true → presHypCtors e = true → (rewriteExpr fuel e m).1 = e)
    (motive_2 := fun a => ∀ m, allTysArms noApp [a] = true → presHypCtorsArms [a] = true → (rewriteArms fuel [a] m).1 = [a])
    (motive_3 := fun es => ∀ m, allTysList noApp es = true → presHypCtorsList es = true → (rewriteList fuel es m).1 = es)
    (motive_4 := fun arms => ∀ m, allTysArms noApp arms = true → presHypCtorsArms arms = true →
      (rewriteArms fuel arms m).1 = arms)
    (motive_5 := fun o => match o with
      | none => True
      | some d => ∀ m, allTys noApp d = true → presHypCtors d = true → (rewriteExpr fuel d m).1 = d)
  case var => intro x ty m h _; simp only [allTys] at h; simp only [rewriteExpr, hC _ m h]
  case prim => intro p m _ _; simp only [rewriteExpr]
  case tag => intro i ty m h _; simp only [allTys] at h; simp only [rewriteExpr, hC _ m h]
  case constr =>
    intro k ty args ih m h hk
    simp only [allTys, Bool.and_eq_true] at h
    simp only [presHypCtors, Bool.and_eq_true, decide_eq_true_eq] at hk
    simp only [rewriteExpr, hC _ m h.1, ih _ h.2 hk.2, hk.1]
  case tuple =>
    intro ty items ih m h hk
    simp only [allTys, Bool.and_eq_true] at h
    simp only [presHypCtors] at hk
    simp only [rewriteExpr, hC _ _ h.1, ih _ h.2 hk]
  case array =>
    intro ty items ih m h hk
    simp only [allTys, Bool.and_eq_true] at h
    simp only [presHypCtors] at hk
    simp only [rewriteExpr, hC _ _ h.1, ih _ h.2 hk]
  case closure =>
    intro ty ps b ih m h hk
    simp only [allTys, Bool.and_eq_true] at h
    simp only [presHypCtors] at hk
    simp only [rewriteExpr, hC _ _ h.1.1, collapseParams_noApp_id fuel ps m h.1.2, ih _ h.2 hk]
  case letE =>
    intro x v b ih1 ih2 m h hk
    simp only [allTys, Bool.and_eq_true] at h
    simp only [presHypCtors, Bool.and_eq_true] at hk
    simp only [rewriteExpr, ih1 _ h.1 hk.1, ih2 _ h.2 hk.2]
  case matchE =>
    intro ty s arms d ih1 ih2 ih3 m h hk
    cases d with
    | none =>
      simp only [allTys, Bool.and_eq_true] at h
      simp only [presHypCtors, Bool.and_eq_true] at hk
      simp only [rewriteExpr, hC _ _ h.1.1, ih1 _ h.1.2 hk.1, ih2 _ h.2 hk.2]
    | some d =>
      simp only [allTys, Bool.and_eq_true] at h
      simp only [presHypCtors, Bool.and_eq_true] at hk
      simp only [rewriteExpr, hC _ _ h.1.1.1, ih1 _ h.1.1.2 hk.1.1, ih2 _ h.1.2 hk.1.2, ih3 _ h.2 hk.2]
  case ite =>
    intro c t e ih1 ih2 ih3 m h hk
    simp only [allTys, Bool.and_eq_true] at h
    simp only [presHypCtors, Bool.and_eq_true] at hk
    simp only [rewriteExpr, ih1 _ h.1.1 hk.1.1, ih2 _ h.1.2 hk.1.2, ih3 _ h.2 hk.2]
  case «while» =>
    intro c b ih1 ih2 m h hk
    simp only [allTys, Bool.and_eq_true] at h
    simp only [presHypCtors, Bool.and_eq_true] at hk
    simp only [rewriteExpr, ih1 _ h.1 hk.1, ih2 _ h.2 hk.2]
  case go =>
    intro e ih m h hk
    simp only [allTys] at h
    simp only [presHypCtors] at hk
    simp only [rewriteExpr, ih _ h hk]
  case cget =>
    intro k idx ty e ih m h hk
    simp only [allTys, Bool.and_eq_true] at h
    simp only [presHypCtors, Bool.and_eq_true, decide_eq_true_eq] at hk
    simp only [rewriteExpr, hC _ _ h.1, ih _ h.2 hk.2, hk.1]
  case un =>
    intro op ty e ih m h hk
    simp only [allTys, Bool.and_eq_true] at h
    simp only [presHypCtors] at hk
    simp only [rewriteExpr, hC _ _ h.1, ih _ h.2 hk]
  case bin =>
    intro op ty l r ih1 ih2 m h hk
    simp only [allTys, Bool.and_eq_true] at h
    simp only [presHypCtors, Bool.and_eq_true] at hk
    simp only [rewriteExpr, hC _ _ h.1.1, ih1 _ h.1.2 hk.1, ih2 _ h.2 hk.2]
  case call =>
    intro ty f args ih1 ih2 m h hk
    simp only [allTys, Bool.and_eq_true] at h
    simp only [presHypCtors, Bool.and_eq_true] at hk
    simp only [rewriteExpr, hC _ _ h.1.1, ih1 _ h.1.2 hk.1, ih2 _ h.2 hk.2]
  case toDyn =>
    intro tr ft ty e ih m h hk
    simp only [allTys, Bool.and_eq_true] at h
    simp only [presHypCtors] at hk
    simp only [rewriteExpr, hC _ _ h.1.1, hC _ _ h.1.2, ih _ h.2 hk]
  case dynCall =>
    intro tr mth ty r args ih1 ih2 m h hk
    simp only [allTys, Bool.and_eq_true] at h
    simp only [presHypCtors, Bool.and_eq_true] at hk
    simp only [rewriteExpr, hC _ _ h.1.1, ih1 _ h.1.2 hk.1, ih2 _ h.2 hk.2]
  case traitCall =>
    intro tr mth ty r args ih1 ih2 m h hk
    simp only [allTys, Bool.and_eq_true] at h
    simp only [presHypCtors, Bool.and_eq_true] at hk
    simp only [rewriteExpr, hC _ _ h.1.1, ih1 _ h.1.2 hk.1, ih2 _ h.2 hk.2]
  case proj =>
    intro idx ty e ih m h hk
    simp only [allTys, Bool.and_eq_true] at h
    simp only [presHypCtors] at hk
    simp only [rewriteExpr, hC _ _ h.1, ih _ h.2 hk]
  case mk =>
    intro l b ih1 ih2 m h hk
    simp only [allTysArms, Bool.and_eq_true, and_true] at h
    simp only [presHypCtorsArms, Bool.and_eq_true, and_true] at hk
    simp only [rewriteArms, ih1 _ h.1 hk.1, ih2 _ h.2 hk.2]
  case nil => intro m _ _; simp only [rewriteList]
  case cons =>
    intro e es ih1 ih2 m h hk
    simp only [allTysList, Bool.and_eq_true] at h
    simp only [presHypCtorsList, Bool.and_eq_true] at hk
    simp only [rewriteList, ih1 _ h.1 hk.1, ih2 _ h.2 hk.2]
  case nil => intro m _ _; simp only [rewriteArms]
  case cons =>
    intro a arms ih1 ih2 m h hk
    obtain ⟨l, b⟩ := a
    simp only [allTysArms, Bool.and_eq_true] at h
    simp only [presHypCtorsArms, Bool.and_eq_true] at hk
    have r1 := ih1 m (by simp [allTysArms, h.1.1, h.1.2]) (by simp [presHypCtorsArms, hk.1.1, hk.1.2])
    simp only [rewriteArms, List.cons.injEq, and_true] at r1
    have e1 : (rewriteExpr fuel l m).1 = l := by injection r1
    have e2 : (rewriteExpr fuel b (rewriteExpr fuel l m).2).1 = b := by injection r1
    simp only [rewriteArms, e1, e2, ih2 _ h.2 hk.2]
  case none => trivial
  case some => intro d ih m h hk; exact ih m h hk

/-- phases 1 and 2 together, for an instance body whose annotations contain no type application:
the body `rewrite_expr_types` returns for what `mono_expr` emitted is type-consistent (under the
hypotheses of `mono_preserves_wt_partial`; both extra hypotheses are decidable checks on the phase-1 body) -/
theorem mono_preserves_wt_noApp_partial (S : Sig) (hS : SigClosed S) (fns' F : List Fn) (σ : Subst) (Γ : TyEnv)
    (e : Expr) (c : Ctx) (tyFuel : Nat) (m : TM) (h : wt S Γ e = true)
    (hc : presHypCallees S fns' (mapΓ σ Γ) (substE σ e) (monoExpr F σ e c).1 = true)
    (hn : allTys noApp (monoExpr F σ e c).1 = true) (hk : presHypCtors (monoExpr F σ e c).1 = true) :
    wt (presSig S fns') (mapΓ σ Γ) (rewriteExpr tyFuel (monoExpr F σ e c).1 m).1 = true := by
  rw [rewriteExpr_noApp tyFuel _ m hn hk]
  exact mono_preserves_wt_partial S hS fns' F σ Γ e c h hc

/-! ### non-vacuity -/

namespace PresEx

def i32 : Ty := .int 32 true
def tT : Ty := .param "T"
def optOf (t : Ty) : Ty := .app (.enum "Opt") [t]
def optDef : EnumDef := { name := "Opt", generics := ["T"], variants := [("Non", []), ("Som", [.param "T"])] }
def showTrait : TraitDef := { name := "Show", methods := [("show", .func [.struct "Self"] .string)] }

/-- `fn id[T](x: T) -> T { x }` -/
def idFn : Fn := { name := "id", generics := ["T"], params := [("x/0", tT)], ret := tT, body := .var "x/0" tT }
/-- `fn apply[T](f: (T) -> T, x: T) -> T { f(x) }` -/
def applyFn : Fn :=
  { name := "apply", generics := ["T"], params := [("f/0", .func [tT] tT), ("x/1", tT)], ret := tT,
    body := .call tT (.var "f/0" (.func [tT] tT)) [.var "x/1" tT] }
/-- `fn get_or[T: Show](o: Opt[T], d: T) -> string { let v = match o { Som(_) => apply(id, o.0), Non => d }; v.show() }`:
a call of a generic function, a generic function used as a value, a constructor pattern, a field
access, a builtin call and a trait call -/
def getOrFn : Fn :=
  { name := "get_or", generics := ["T"], params := [("o/0", optOf tT), ("d/1", tT)], ret := .string,
    body :=
      .letE "v/2"
        (.matchE tT (.var "o/0" (optOf tT))
          [.mk (.constr (.enum "Opt" "Som" 1) (optOf tT) [.var "y/3" tT])
             (.call tT (.var "apply" (.func [.func [tT] tT, tT] tT))
               [.var "id" (.func [tT] tT), .cget (.enum "Opt" "Som" 1) 0 tT (.var "o/0" (optOf tT))]),
           .mk (.constr (.enum "Opt" "Non" 0) (optOf tT) []) (.var "d/1" tT)] none) <|
      .call .string (.var "string_add" (.func [.string, .string] .string))
        [.traitCall "Show" "show" .string (.var "v/2" tT) [], .prim (.str "!")] }
/-- `impl Show for int32 { fn show(self) -> string { int32_to_string(self) } }` -/
def showI32 : Fn :=
  { name := traitImplFnName "Show" i32 "show", generics := [], params := [("self/0", i32)], ret := .string,
    body := .call .string (.var "int32_to_string" (.func [i32] .string)) [.var "self/0" i32] }
def mainFn : Fn :=
  { name := "main", generics := [], params := [], ret := .string,
    body := .call .string (.var "get_or" (.func [optOf i32, i32] .string))
      [.constr (.enum "Opt" "Som" 1) (optOf i32) [.prim (.int 32 true 7)], .prim (.int 32 true 0)] }

def prog : List Fn := [idFn, applyFn, getOrFn, showI32, mainFn]

def sig : Sig :=
  { fns := prog,
    builtins := [("int32_to_string", .func [i32] .string), ("string_add", .func [.string, .string] .string)],
    enums := [optDef], traits := [showTrait] }

theorem sig_closed : SigClosed sig := by
  refine ⟨?_, ?_, ?_⟩
  · intro d hd v hv t ht x hx
    simp only [sig, List.mem_cons, List.not_mem_nil, or_false] at hd
    subst hd
    simp only [optDef, List.mem_cons, List.not_mem_nil, or_false] at hv
    rcases hv with rfl | rfl
    · simp at ht
    · simp only [List.mem_cons, List.not_mem_nil, or_false] at ht
      subst ht; simpa [fvT, optDef] using hx
  · intro d hd; simp [sig] at hd
  · intro d hd mt hm
    simp only [sig, List.mem_cons, List.not_mem_nil, or_false] at hd
    subst hd
    simp only [showTrait, List.mem_cons, List.not_mem_nil, or_false] at hm
    subst hm; rfl

def σ : Subst := [("T", i32)]

-- the generic program is well-typed
example : wtProg sig = true := by decide +kernel

/-- what phase 1 emits for the body of `get_or` at `T := int32` (from the empty context) -/
def getOrInst : Expr := (monoExpr prog σ getOrFn.body {}).1

-- it is the substitution instance up to callee names: three names differ
example : getOrInst =
    .letE "v/2"
      (.matchE i32 (.var "o/0" (optOf i32))
        [.mk (.constr (.enum "Opt" "Som" 1) (optOf i32) [.var "y/3" i32])
           (.call i32 (.var "apply__T_int32" (.func [.func [i32] i32, i32] i32))
             [.var "id__T_int32" (.func [i32] i32), .cget (.enum "Opt" "Som" 1) 0 i32 (.var "o/0" (optOf i32))]),
         .mk (.constr (.enum "Opt" "Non" 0) (optOf i32) []) (.var "d/1" i32)] none)
      (.call .string (.var "string_add" (.func [.string, .string] .string))
        [.call .string (.var "trait_impl#Show#int32#show" (.func [i32] .string)) [.var "v/2" i32], .prim (.str "!")]) := by
  rfl
example : SameUpToCallee (substE σ getOrFn.body) getOrInst := monoExpr_sameUpToCallee prog σ getOrFn.body {}

/-- the function table of the monomorphised program: what phase 1 emits for `prog` -/
def outFns : List Fn := ((phase1 20 prog).map (·.out)).getD []

example : outFns.map (·.name) =
    ["trait_impl#Show#int32#show", "main", "get_or__T_int32", "id__T_int32", "apply__T_int32"] := by decide +kernel

def Γ0 : TyEnv := bindAll getOrFn.params []

-- the hypotheses of `mono_preserves_wt_partial` hold …
example : wt sig Γ0 getOrFn.body = true := by decide +kernel
example : presHypCallees sig outFns (mapΓ σ Γ0) (substE σ getOrFn.body) getOrInst = true := by decide +kernel
-- … so the conclusion holds by the theorem, and it holds by evaluation
example : wt (presSig sig outFns) (mapΓ σ Γ0) getOrInst = true :=
  mono_preserves_wt_partial sig sig_closed outFns prog σ Γ0 getOrFn.body {} (by decide +kernel) (by decide +kernel)
example : wt (presSig sig outFns) (mapΓ σ Γ0) getOrInst = true := by decide +kernel

-- the side condition is not vacuous: without the instances in the table it fails, and so does the judgement
example : presHypCallees sig prog (mapΓ σ Γ0) (substE σ getOrFn.body) getOrInst = false := by decide +kernel
example : errs (presSig sig prog) (mapΓ σ Γ0) getOrInst =
    ["var:unbound|apply__T_int32", "var:unbound|id__T_int32"] := by decide +kernel
-- a table that declares the instance at another type is rejected too
example : presHypVarOk sig outFns (mapΓ σ Γ0) "id__T_int32" (.func [i32] i32) = instOf (.func [i32] i32) (.func [i32] i32) :=
  presHypVarOk_global sig outFns _ _ _ (specialise prog idFn σ {}) (by decide +kernel) (by rfl)
example : presHypCallees sig (outFns.map fun g => if g.name == "id__T_int32" then { g with ret := .bool } else g)
    (mapΓ σ Γ0) (substE σ getOrFn.body) getOrInst = false := by decide +kernel

-- whole instances: `specialise` of `get_or` is well-typed as a function
example : wtFn (presSig sig outFns) (specialise prog getOrFn σ {}) = true :=
  specialise_wtFn_partial sig sig_closed outFns prog getOrFn σ {} (by decide +kernel) (by decide +kernel)
-- the whole output of phase 1: the decidable side condition holds, so the theorem applies; and by evaluation
example : presHypProg sig 20 prog = true := by decide +kernel
example : (presItems (origFns prog) 20 (seed (origFns prog))).map (fun p => (p.1.name, p.1.subst.map (·.1), p.2.name)) =
    [("trait_impl#Show#int32#show", [], "trait_impl#Show#int32#show"), ("main", [], "main"),
     ("get_or", ["T"], "get_or__T_int32"), ("id", ["T"], "id__T_int32"),
     ("apply", ["T"], "apply__T_int32")] := by decide +kernel
example : ∃ c', phase1 20 prog = some c' ∧ wtProg (presSig sig c'.out) = true := by
  cases hp : phase1 20 prog with
  | none => exact absurd hp (by decide +kernel)
  | some c' =>
    refine ⟨c', rfl, phase1_wtProg_partial sig sig_closed prog 20 c' hp ?_ ?_⟩
    · have : (origFns prog).all (wtFn sig) = true := by decide +kernel
      exact fun f hf => List.all_eq_true.1 this f hf
    · have h : presHypProg sig 20 prog = true := by decide +kernel
      simpa [presHypProg, hp] using h
example : outFns.all (wtFn (presSig sig outFns)) = true := by decide +kernel

-- phase 2: an application-free instance body (`apply` at `int32`) is returned unchanged; `get_or`'s mentions `Opt[int32]`
def applyInst : Expr := (monoExpr prog σ applyFn.body {}).1
example : allTys noApp applyInst = true ∧ presHypCtors applyInst = true := by decide +kernel
example : wt (presSig sig outFns) (mapΓ σ (bindAll applyFn.params []))
    (rewriteExpr 10 applyInst { enumBase := [optDef], structBase := [] }).1 = true :=
  mono_preserves_wt_noApp_partial sig sig_closed outFns prog σ _ applyFn.body {} 10 _ (by decide +kernel)
    (by decide +kernel) (by decide +kernel) (by decide +kernel)
example : allTys noApp getOrInst = false := by decide +kernel
example : presHypCtors getOrInst = true := by decide +kernel

end PresEx

end Goml.Wt
