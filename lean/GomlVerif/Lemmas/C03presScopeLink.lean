import GomlVerif.Model.Scoped
import GomlVerif.Model.C03presMatch
/-!
The two statements of scope closedness used by the preservation theorems agree:
`Scoped.unbound B e = []` (ANF, driver oracle) iff `Match.closedE B e` (match compiler).
-/
namespace Goml.Scoped
open Goml Goml.Match

mutual
theorem mem_unbound : ∀ (e : Expr) (B : List String) (y : String), y ∈ unbound B e ↔ (y ∈ fvE e ∧ y ∉ B)
  | .var x ty, B, y => by
    simp only [unbound, fvE, List.mem_singleton]
    by_cases hx : x ∈ B
    · simp only [hx, if_true, List.not_mem_nil, false_iff, not_and]
      intro h; subst h; exact fun hn => hn hx
    · simp only [hx, if_false, List.mem_singleton]
      constructor
      · intro h; subst h; exact ⟨rfl, hx⟩
      · intro h; exact h.1
  | .prim _, B, y => by simp [unbound, fvE]
  | .tag _ _, B, y => by simp [unbound, fvE]
  | .constr _ _ args, B, y => by simp only [unbound, fvE]; exact mem_unboundList args B y
  | .tuple _ items, B, y => by simp only [unbound, fvE]; exact mem_unboundList items B y
  | .array _ items, B, y => by simp only [unbound, fvE]; exact mem_unboundList items B y
  | .closure _ ps body, B, y => by
    simp only [unbound, fvE, List.mem_filter]
    rw [mem_unbound body]
    simp only [List.mem_append, not_or, List.contains_eq_mem, Bool.not_eq_eq_eq_not, Bool.not_true,
      decide_eq_false_iff_not]
    grind
  | .letE x v b, B, y => by
    simp only [unbound, fvE, List.mem_append, List.mem_filter]
    rw [mem_unbound v, mem_unbound b]
    simp only [List.mem_cons, not_or, Bool.not_eq_eq_eq_not, Bool.not_true, beq_eq_false_iff_ne, ne_eq]
    grind
  | .matchE _ s arms none, B, y => by
    simp only [unbound, fvE, List.mem_append, List.append_nil]
    rw [mem_unbound s, mem_unboundArms arms]; grind
  | .matchE _ s arms (some d), B, y => by
    simp only [unbound, fvE, List.mem_append]
    rw [mem_unbound s, mem_unboundArms arms, mem_unbound d]; grind
  | .ite c t e, B, y => by
    simp only [unbound, fvE, List.mem_append]
    rw [mem_unbound c, mem_unbound t, mem_unbound e]; grind
  | .while c b, B, y => by
    simp only [unbound, fvE, List.mem_append]
    rw [mem_unbound c, mem_unbound b]; grind
  | .go e, B, y => by simp only [unbound, fvE]; exact mem_unbound e B y
  | .cget _ _ _ e, B, y => by simp only [unbound, fvE]; exact mem_unbound e B y
  | .un _ _ e, B, y => by simp only [unbound, fvE]; exact mem_unbound e B y
  | .bin _ _ l r, B, y => by
    simp only [unbound, fvE, List.mem_append]
    rw [mem_unbound l, mem_unbound r]; grind
  | .call _ f args, B, y => by
    simp only [unbound, fvE, List.mem_append]
    rw [mem_unbound f, mem_unboundList args]; grind
  | .toDyn _ _ _ e, B, y => by simp only [unbound, fvE]; exact mem_unbound e B y
  | .dynCall _ _ _ recv args, B, y => by
    simp only [unbound, fvE, List.mem_append]
    rw [mem_unbound recv, mem_unboundList args]; grind
  | .traitCall _ _ _ recv args, B, y => by
    simp only [unbound, fvE, List.mem_append]
    rw [mem_unbound recv, mem_unboundList args]; grind
  | .proj _ _ e, B, y => by simp only [unbound, fvE]; exact mem_unbound e B y
theorem mem_unboundList : ∀ (es : List Expr) (B : List String) (y : String),
    y ∈ unboundList B es ↔ (y ∈ fvEL es ∧ y ∉ B)
  | [], B, y => by simp [unboundList, fvEL]
  | e :: rest, B, y => by
    simp only [unboundList, fvEL, List.mem_append]
    rw [mem_unbound e, mem_unboundList rest]; grind
theorem mem_unboundArms : ∀ (arms : List Arm) (B : List String) (y : String),
    y ∈ unboundArms B arms ↔ (y ∈ fvEArms arms ∧ y ∉ B)
  | [], B, y => by simp [unboundArms, fvEArms]
  | .mk _ body :: rest, B, y => by
    simp only [unboundArms, fvEArms, List.mem_append]
    rw [mem_unbound body, mem_unboundArms rest]; grind
end

/-- the two notions of scope closedness coincide -/
theorem unbound_nil_iff_closedE (B : List String) (e : Expr) : unbound B e = [] ↔ closedE B e = true := by
  simp only [closedE, subsetB, List.all_eq_true, List.contains_eq_mem, decide_eq_true_eq]
  constructor
  · intro h y hy
    by_cases hb : y ∈ B
    · exact hb
    · have := (mem_unbound e B y).2 ⟨hy, hb⟩
      rw [h] at this; cases this
  · intro h
    apply List.eq_nil_iff_forall_not_mem.2
    intro y hy
    have := (mem_unbound e B y).1 hy
    exact this.2 (h y this.1)

end Goml.Scoped
