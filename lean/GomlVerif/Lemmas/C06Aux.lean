import GomlVerif.Lemmas.C06Main
/-!
Helper lemmas for `Props/C06.lean`, part 11: environment lookups in appended binding lists,
the all-literal integer column, and the glue used by the non-vacuity examples.
-/
namespace Goml.Match
open Goml Goml.Sem

variable {β : Type}

theorem lookupEnv_append_of_mem (l r : Env) (a : String) (h : ∃ v, (a, v) ∈ l) :
    ∃ v', (a, v') ∈ l ∧ lookupEnv (l ++ r) a = some v' := by
  induction l with
  | nil => obtain ⟨v, hv⟩ := h; cases hv
  | cons p l ih =>
    obtain ⟨x, u⟩ := p
    by_cases hx : x = a
    · subst hx
      exact ⟨u, by simp, by simp [lookupEnv_cons]⟩
    · obtain ⟨v, hv⟩ := h
      rcases List.mem_cons.mp hv with hv | hv
      · cases hv; exact absurd rfl hx
      · obtain ⟨v', h1, h2⟩ := ih ⟨v, hv⟩
        exact ⟨v', by simp [h1], by rw [List.cons_append, lookupEnv_cons]; simp [hx, h2]⟩

theorem lookupEnv_append_notin (l r : Env) (y : String) (h : ∀ p ∈ l, p.1 ≠ y) :
    lookupEnv (l ++ r) y = lookupEnv r y := by
  induction l with
  | nil => rfl
  | cons p l ih =>
    obtain ⟨x, u⟩ := p
    have hx : x ≠ y := h (x, u) (by simp)
    rw [List.cons_append, lookupEnv_cons]
    simp only [hx, if_false]
    exact ih (fun q hq => h q (by simp [hq]))

theorem nodup_keys_unique {σ : List (String × Val)} (hnd : (σ.map (·.1)).Nodup) {a : String} {v v' : Val}
    (h1 : (a, v) ∈ σ) (h2 : (a, v') ∈ σ) : v = v' := by
  induction σ with
  | nil => cases h1
  | cons p σ ih =>
    simp only [List.map_cons, List.nodup_cons] at hnd
    rcases List.mem_cons.mp h1 with h1 | h1 <;> rcases List.mem_cons.mp h2 with h2 | h2
    · rw [← h1] at h2; cases h2; rfl
    · rw [← h1] at hnd
      exact absurd (List.mem_map_of_mem (f := (·.1)) h2) hnd.1
    · rw [← h2] at hnd
      exact absurd (List.mem_map_of_mem (f := (·.1)) h1) hnd.1
    · exact ih hnd.2 h1 h2

theorem litKeys_ok_of_all {okP : Prim → Bool} {bv : String} : ∀ (rows : List (Row β)),
    (∀ r ∈ rows, ∃ p t cs, removeCol bv r.cols = some (.prim p t, cs) ∧ okP p = true) →
    ∃ keys, litKeys okP bv rows = .ok keys := by
  intro rows
  induction rows with
  | nil => intro _; exact ⟨[], rfl⟩
  | cons r rs ih =>
    intro h
    obtain ⟨ks, hks⟩ := ih (fun q hq => h q (by simp [hq]))
    obtain ⟨p, t, cs, hr, hp⟩ := h r (by simp)
    refine ⟨p :: ks.filter (fun k => k ≠ p), ?_⟩
    simp only [litKeys, hks, hr, hp, if_true]

theorem specDflt_all_drop {okP : Prim → Bool} {bv : String} : ∀ (rows : List (Row β)),
    (∀ r ∈ rows, ∃ p t cs, removeCol bv r.cols = some (.prim p t, cs) ∧ okP p = true) →
    filterMapE (specDflt okP bv) rows = .ok [] := by
  intro rows
  induction rows with
  | nil => intro _; rfl
  | cons r rs ih =>
    intro h
    have := ih (fun q hq => h q (by simp [hq]))
    obtain ⟨p, t, cs, hr, hp⟩ := h r (by simp)
    simp only [filterMapE, specDflt, hr, hp, if_true, this]

def freshB (x : String) (rows : List (Row Nat)) : Bool :=
  rows.all (fun r => r.cols.all (fun c => c.1 = x) && r.binds.isEmpty)

theorem fresh_of_freshB {g : Nat → String} {x : String} {rows : List (Row Nat)} (h : freshB x rows = true)
    (hx : ∀ j, g j ≠ x) : ∀ r ∈ rows, RowFresh g 0 r := by
  intro r hr
  simp only [freshB, List.all_eq_true, Bool.and_eq_true, decide_eq_true_eq, List.isEmpty_iff] at h
  obtain ⟨h1, h2⟩ := h r hr
  refine ⟨fun c hc j _ => ?_, fun b hb => by rw [h2] at hb; cases hb⟩
  rw [h1 c hc]; exact hx j

def okTree : Option (M (DT Nat × Nat)) → Bool
  | some (.ok r) => leavesOK r.1
  | _ => false

theorem okTree_elim {o : Option (M (DT Nat × Nat))} (h : okTree o = true) :
    ∃ t n', o = some (.ok (t, n')) ∧ leavesOK t = true := by
  cases o with
  | none => simp [okTree] at h
  | some r =>
    cases r with
    | error e => simp [okTree] at h
    | ok r => exact ⟨r.1, r.2, rfl, h⟩

end Goml.Match
